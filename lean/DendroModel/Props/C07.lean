import DendroModel.Model.C07
import DendroModel.Gen.C07Mid
import DendroModel.Theory.C07Path
import DendroModel.Theory.C07Perm
import DendroModel.Theory.C17Frac
import DendroModel.Theory.Reseed
import DendroModel.Theory.C01Reseed
import DendroModel.Theory.C15Build
import Mathlib.Tactic
/-! C07 — theorems about the executable model `Model/C07.lean` (the definitions `drv_c07` runs). -/

namespace DendroModel.C07.Aux
open DendroModel DendroModel.C07

/-- one `Edge.invert` at the root: the child `c = node j … ds` becomes the root and takes the root's own edge length,
    the old root (minus `c`) becomes its LAST child and takes `c`'s edge length -/
inductive Step : T → T → Prop
  | mk (i : Nat) (x : Option Nat) (l : Option Frac) (s : Option String) (pre : List T)
       (j : Nat) (y : Option Nat) (lc : Option Frac) (sc : Option String) (ds post : List T)
       (hds : ds ≠ []) (hrest : pre ++ post ≠ []) :
      Step (.node i x l s (pre ++ .node j y lc sc ds :: post))
           (.node j y l sc (ds ++ [.node i x lc s (pre ++ post)]))

inductive Reach : T → T → Prop
  | refl (t : T) : Reach t t
  | step {t u v : T} : Step t u → Reach u v → Reach t v

theorem mem_nodes_self (t : T) : t ∈ t.nodes := by
  cases t with
  | node i x l s cs => simp [T.nodes]

theorem nodes_sub_of_mem {c : T} : ∀ {cs : List T}, c ∈ cs → ∀ n ∈ c.nodes, n ∈ T.nodesL cs
  | [], h, _, _ => by simp at h
  | d :: ds, h, n, hn => by
      simp only [T.nodesL, List.mem_append]
      rcases List.mem_cons.mp h with h | h
      · subst h; exact Or.inl hn
      · exact Or.inr (nodes_sub_of_mem h n hn)

theorem inv_cs_ne (tgt : Nat) (t : T) (l : Option Frac) (ups : List T) (r : T)
    (hint : ∀ n ∈ t.nodes, n.id = tgt → n.cs ≠ []) (h : inv tgt t l ups = some r) : t.cs ≠ [] := by
  cases t with
  | node i x l0 s cs =>
    intro hcs
    simp only [T.cs] at hcs
    subst hcs
    rw [inv] at h
    split at h
    · rename_i hi
      have := hint (.node i x l0 s []) (mem_nodes_self _) (by simpa [T.id] using hi)
      exact this rfl
    · simp [invL] at h

mutual
theorem inv_reach (tgt : Nat) : ∀ (t : T) (l : Option Frac) (ups : List T) (r : T),
    (∀ n ∈ t.nodes, n.id = tgt → n.cs ≠ []) → (ups ≠ [] ∨ 2 ≤ t.cs.length) →
    inv tgt t l ups = some r → Reach (.node t.id t.taxon l t.label (t.cs ++ ups)) r
  | .node i x l0 s cs, l, ups, r, hint, h2, h => by
      rw [inv] at h
      simp only [T.id, T.taxon, T.label, T.cs]
      split at h
      · cases h; exact Reach.refl _
      · have := invL_reach tgt cs [] ups i x s l r
          (fun c hc n hn => hint n (by simp only [T.nodes]; exact List.mem_cons_of_mem _ (nodes_sub_of_mem hc n hn)))
          (by simpa [T.cs] using h2) h
        simpa using this
theorem invL_reach (tgt : Nat) : ∀ (post pre ups : List T) (i : Nat) (x : Option Nat) (s : Option String)
    (l : Option Frac) (r : T),
    (∀ c ∈ post, ∀ n ∈ c.nodes, n.id = tgt → n.cs ≠ []) → (ups ≠ [] ∨ 2 ≤ (pre ++ post).length) →
    invL tgt i x s l pre post ups = some r → Reach (.node i x l s (pre ++ post ++ ups)) r
  | [], _, _, _, _, _, _, _, _, _, h => by simp [invL] at h
  | c :: post, pre, ups, i, x, s, l, r, hint, h2, h => by
      rw [invL] at h
      split at h
      · rename_i r' hr'
        cases h
        have hc := hint c (List.mem_cons_self ..)
        have hds := inv_cs_ne tgt c l _ r hc hr'
        have ih := inv_reach tgt c l [.node i x c.len s (pre ++ post ++ ups)] r hc (Or.inl (by simp)) hr'
        cases c with
        | node j y lc sc ds =>
          simp only [T.id, T.taxon, T.label, T.cs, T.len] at ih hds
          have hrest : pre ++ (post ++ ups) ≠ [] := by
            rcases h2 with h2 | h2
            · intro h0; simp at h0; exact h2 h0.2.2
            · intro h0; simp at h0; simp [h0.1, h0.2.1] at h2
          have st := Step.mk i x l s pre j y lc sc ds (post ++ ups) hds hrest
          have e1 : pre ++ T.node j y lc sc ds :: post ++ ups = pre ++ T.node j y lc sc ds :: (post ++ ups) := by simp
          rw [e1]
          have e2 : pre ++ post ++ ups = pre ++ (post ++ ups) := by simp
          rw [e2] at ih
          exact Reach.step st ih
      · have := invL_reach tgt post (pre ++ [c]) ups i x s l r
          (fun d hd => hint d (List.mem_cons_of_mem _ hd)) (by simpa using h2) h
        simpa using this
end

theorem cleanup_flag_none (c s : Bool) (t : T) :
    (cleanup none c s t).2 = none ∨ (cleanup none c s t).2 = some false := by
  simp only [cleanup]
  split
  · exact Or.inr rfl
  · exact Or.inl rfl

theorem sisterCollapses_false (l : List T) : sisterCollapses false l = false := by
  unfold sisterCollapses
  split <;> simp

theorem collapse_head (i : Nat) (x : Option Nat) (l : Option Frac) (s : Option String) (o : T) (rest : List T) (uf : Bool)
    (h : sisterCollapses uf (o :: rest) = true) :
    ∃ o' rest', (collapseBasal (.node i x l s (o :: rest))).cs = o' :: rest' ∧ o'.id = o.id := by
  match rest, h with
  | [b], h =>
    cases b with
    | node j y lb sb bs =>
    cases o with
    | node k z lo so os =>
    simp only [sisterCollapses, Bool.and_eq_true, T.cs] at h
    have h2 : 2 ≤ bs.length := by simpa using h.2
    refine ⟨(T.node k z lo so os).withLen (mergeLen lo lb), bs, ?_, ?_⟩
    · simp [collapseBasal, T.cs, T.len, h2]
    · simp [T.withLen, T.id]
  | [], h => simp [sisterCollapses] at h
  | _ :: _ :: _, h => simp [sisterCollapses] at h

/-! ### observations: leaves, path lengths, total length (rational; `None` counts as 0) -/

def lenQ : Option Frac → ℚ
  | none => 0
  | some f => (f.num : ℚ) / (f.den : ℚ)

mutual
def toLT : T → Path.LT
  | .node i _ l _ [] => .leaf i (lenQ l)
  | .node _ _ l _ (c :: cs) => .node (lenQ l) (toLTL (c :: cs))
def toLTL : List T → List Path.LT
  | [] => []
  | c :: cs => toLT c :: toLTL cs
end

mutual
def totalQ : T → ℚ
  | .node _ _ l _ cs => lenQ l + totalQL cs
def totalQL : List T → ℚ
  | [] => 0
  | c :: cs => totalQ c + totalQL cs
end

theorem toLTL_append (a b : List T) : toLTL (a ++ b) = toLTL a ++ toLTL b := by
  induction a with
  | nil => simp [toLTL]
  | cons c cs ih => simp [toLTL, ih]

theorem toLT_node_ne {i : Nat} {x : Option Nat} {l : Option Frac} {s : Option String} {cs : List T} (h : cs ≠ []) :
    toLT (.node i x l s cs) = .node (lenQ l) (toLTL cs) := by
  cases cs with
  | nil => exact absurd rfl h
  | cons c cs => simp [toLT]

theorem leaves_node_ne {i : Nat} {x : Option Nat} {l : Option Frac} {s : Option String} {cs : List T} (h : cs ≠ []) :
    T.leaves (.node i x l s cs) = T.leavesL cs := by
  cases cs with
  | nil => exact absurd rfl h
  | cons c cs => simp [T.leaves]

theorem leavesL_append (a b : List T) : T.leavesL (a ++ b) = T.leavesL a ++ T.leavesL b := by
  induction a with
  | nil => simp [T.leavesL]
  | cons c cs ih => simp [T.leavesL, ih]

theorem totalQL_append (a b : List T) : totalQL (a ++ b) = totalQL a + totalQL b := by
  induction a with
  | nil => simp [totalQL]
  | cons c cs ih => simp [totalQL, ih]; ring

mutual
theorem leaves_toLT : ∀ t : T, Path.leaves (toLT t) = t.leaves.map T.id
  | .node i x l s [] => by simp [toLT, Path.leaves, T.leaves, T.id]
  | .node i x l s (c :: cs) => by
      simp only [toLT, Path.leaves, T.leaves]
      exact leavesL_toLTL (c :: cs)
theorem leavesL_toLTL : ∀ cs : List T, Path.leavesL (toLTL cs) = (T.leavesL cs).map T.id
  | [] => by simp [toLTL, Path.leavesL, T.leavesL]
  | c :: cs => by
      simp only [toLTL, Path.leavesL, T.leavesL, List.map_append]
      rw [leaves_toLT c, leavesL_toLTL cs]
end

/-- ids of the leaves (childless nodes), left to right -/
def leafIds (t : T) : List Nat := t.leaves.map T.id

/-- length of the path between the leaves with ids `a` and `b` (`none` unless both are leaves below the root) -/
def pathLen (t : T) (a b : Nat) : Option ℚ := Path.distL (toLTL t.cs) a b

theorem step_leaves {t u : T} (h : Step t u) : u.leaves.Perm t.leaves := by
  cases h with
  | mk i x l s pre j y lc sc ds post hds hrest =>
    have h1 : (pre ++ T.node j y lc sc ds :: post) ≠ [] := by simp
    have h2 : (ds ++ [T.node i x lc s (pre ++ post)]) ≠ [] := by simp
    rw [leaves_node_ne h1, leaves_node_ne h2]
    simp only [leavesL_append, T.leavesL, leaves_node_ne hds, leaves_node_ne hrest, List.append_nil]
    -- ds ++ (pre ++ post)  ~  pre ++ (ds ++ post)
    have : (T.leavesL ds ++ (T.leavesL pre ++ T.leavesL post)).Perm (T.leavesL pre ++ (T.leavesL ds ++ T.leavesL post)) := by
      rw [← List.append_assoc, ← List.append_assoc]
      exact List.Perm.append_right _ List.perm_append_comm
    exact this

theorem step_total {t u : T} (h : Step t u) : totalQ u = totalQ t := by
  cases h with
  | mk i x l s pre j y lc sc ds post hds hrest =>
    simp only [totalQ, totalQL_append, totalQL]
    ring

theorem step_paths {t u : T} (h : Step t u) (hnd : (leafIds t).Nodup) (a b : Nat)
    (ha : a ∈ leafIds t) (hb : b ∈ leafIds t) : pathLen u a b = pathLen t a b := by
  cases h with
  | mk i x l s pre j y lc sc ds post hds hrest =>
    have h1 : (pre ++ T.node j y lc sc ds :: post) ≠ [] := by simp
    simp only [leafIds, leaves_node_ne h1] at hnd ha hb
    rw [← leavesL_toLTL] at hnd ha hb
    simp only [pathLen, T.cs]
    simp only [toLTL_append, toLTL, toLT_node_ne hds, toLT_node_ne hrest] at hnd ha hb ⊢
    exact Path.invert_dist (toLTL pre) (toLTL ds) (toLTL post) (lenQ lc) hnd a b ha hb

theorem reach_inv {t r : T} (h : Reach t r) : r.leaves.Perm t.leaves ∧ totalQ r = totalQ t ∧
    ((leafIds t).Nodup → ∀ a b, a ∈ leafIds t → b ∈ leafIds t → pathLen r a b = pathLen t a b) := by
  induction h with
  | refl t => exact ⟨List.Perm.refl _, rfl, fun _ _ _ _ _ => rfl⟩
  | step st _ ih =>
    obtain ⟨ihl, iht, ihp⟩ := ih
    have pl := step_leaves st
    refine ⟨ihl.trans pl, iht.trans (step_total st), ?_⟩
    intro hnd a b ha hb
    have pid : (leafIds _).Perm (leafIds _) := pl.map T.id
    rw [ihp ((pid.nodup_iff).mpr hnd) a b ((pid.mem_iff).mpr ha) ((pid.mem_iff).mpr hb)]
    exact step_paths st hnd a b ha hb

end DendroModel.C07.Aux

namespace DendroModel.C07
open DendroModel DendroModel.C07.Aux

/-! ## (a) the chain of edge inversions -/

/-- `invertTo` (the loop over `edges_to_invert` of `reseed_at`) is a chain of single root inversions -/
theorem invert_is_chain (tgt : Nat) (t : T) (hint : ∀ n ∈ t.nodes, n.id = tgt → n.cs ≠ [])
    (h2 : 2 ≤ t.cs.length) : Reach t (invertTo tgt t) := by
  unfold invertTo
  cases h : inv tgt t t.len [] with
  | none => exact Reach.refl _
  | some r =>
    have := inv_reach tgt t t.len [] r hint (Or.inr h2) h
    cases t with
    | node i x l s cs => simpa [T.id, T.taxon, T.label, T.cs, T.len] using this

/-- **re-seeding keeps the leaves, the total length and every leaf-to-leaf path length** — for every tree whose seed is
    not unary, every internal target node (the documented domain of `reseed_at`), every rooting flag; lengths are exact
    rationals, `None` counting as 0.  Stated for `reseed_at(..., collapse_unrooted_basal_bifurcation=False,
    suppress_unifurcations=False)`, i.e. for the inversion chain itself (no well-formedness or distinct-id hypothesis needed
    for leaves and total).  ALL flag settings, the library defaults included: `reseed_invariant_full` at the end of this file. -/
theorem reseed_invariant (flag : Option Bool) (tgt : Nat) (t : T)
    (hint : ∀ n ∈ t.nodes, n.id = tgt → n.cs ≠ []) (h2 : 2 ≤ t.cs.length) :
    ((reseedAt flag false false tgt t).1).leaves.Perm t.leaves ∧
    totalQ (reseedAt flag false false tgt t).1 = totalQ t ∧
    ((leafIds t).Nodup → ∀ a b, a ∈ leafIds t → b ∈ leafIds t →
      pathLen (reseedAt flag false false tgt t).1 a b = pathLen t a b) := by
  have e : (reseedAt flag false false tgt t).1 = invertTo tgt t := by
    simp [reseedAt, cleanup]
  rw [e]
  exact reach_inv (invert_is_chain tgt t hint h2)

/-- the same for the hard variant `reroot_at_node(..., suppress_unifurcations=False)` -/
theorem reroot_at_node_invariant (tgt : Nat) (t : T)
    (hint : ∀ n ∈ t.nodes, n.id = tgt → n.cs ≠ []) (h2 : 2 ≤ t.cs.length) :
    ((rerootAtNode false tgt t).1).leaves.Perm t.leaves ∧
    totalQ (rerootAtNode false tgt t).1 = totalQ t ∧
    ((leafIds t).Nodup → ∀ a b, a ∈ leafIds t → b ∈ leafIds t →
      pathLen (rerootAtNode false tgt t).1 a b = pathLen t a b) :=
  reseed_invariant none tgt t hint h2

/-! ## (e) rooting flag -/

/-- hard re-rooting sets the flag.  (This one and the next two are definitional: the model functions end in `some true`,
    as the library methods end in `self.is_rooted = True`; what ties them to the code is the per-case comparison of the flag.
    The soft-operation theorems below have content: the flag survives the clean-up, which does assign `is_rooted`.) -/
theorem reroot_at_node_sets_rooted (s : Bool) (tgt : Nat) (t : T) : (rerootAtNode s tgt t).2 = some true := rfl

theorem reroot_at_edge_sets_rooted (s : Bool) (h nw : Nat) (l1 l2 : Option Frac) (t : T) :
    (rerootAtEdge s h nw l1 l2 t).2 = some true := rfl

theorem reroot_at_midpoint_sets_rooted (s : Bool) (a b nw : Nat) (t : T) (r : T × Option Bool)
    (h : rerootAtMidpoint s a b nw t = some r) : r.2 = some true := by
  unfold rerootAtMidpoint at h
  split at h
  · cases h
  · cases h; rfl
  · split at h
    · cases h
    · cases h; rfl

/-- soft: `reseed_at` leaves a defined rooting flag (rooted or unrooted) as it was, for all flag settings -/
theorem reseed_keeps_flag (b : Bool) (collapse suppress : Bool) (tgt : Nat) (t : T) :
    (reseedAt (some b) collapse suppress tgt t).2 = some b := by
  cases b <;> simp [reseedAt, cleanup, unrootedFlag]

/-- soft: an undefined flag stays undefined or becomes unrooted (the model sets it to unrooted when a basal node is
    dissolved; WHEN that happens is not part of this statement) -/
theorem reseed_flag_undefined (collapse suppress : Bool) (tgt : Nat) (t : T) :
    (reseedAt none collapse suppress tgt t).2 = none ∨ (reseedAt none collapse suppress tgt t).2 = some false := by
  simp only [reseedAt]
  exact cleanup_flag_none _ _ _

theorem to_outgroup_keeps_flag (b : Bool) (suppress : Bool) (og : Nat) (t : T) (r : T × Option Bool)
    (h : toOutgroup (some b) suppress og t = some r) : r.2 = some b := by
  unfold toOutgroup at h
  split at h
  · cases h
  · split at h
    split at h
    · cases h
    · cases h
      cases b
      · simp
      · simp [unrootedFlag, sisterCollapses_false]

/-! ## (b) the midpoint walk -/

/-- rational sum of the edge lengths of a walk segment -/
def wsum (w : List (Nat × Frac × Nat)) : ℚ := (w.map (fun e => e.2.1.toRat)).sum

/-- **where the walk "going up ..." of `reroot_at_midpoint` stops** (exact rational arithmetic): if it answers "inside the
    edge above `nd`, `h` above its head", then the edges passed before sum, together with `h`, to exactly the requested half
    distance and `h` is shorter than that edge; if it answers "exactly at node `p`" then `p` is the PARENT end (tail) of the
    edge at which the lengths passed sum to exactly the half distance (the branch the library got wrong); if it gives up, the
    whole walk is shorter than the half distance.
    This is the complete specification of the walk on an arbitrary list; `midpoint_equidistant` (end of this file) ties the
    list to the tree (`rootPath`/`dropCommon`/`upList` ↔ `Path.dist`) and concludes that BOTH leaves of the pair are at half
    their distance from the new root, `midpoint_never_fails` that the walk never gives up. -/
theorem midpoint_walk_spec : ∀ (w : List (Nat × Frac × Nat)) (plen : Frac),
    (∀ e ∈ w, e.2.1.WF) → plen.WF →
    (∀ nd h, midWalk w plen = .onEdge nd h → ∃ pre e post, w = pre ++ e :: post ∧ e.1 = nd ∧
        wsum pre + h.toRat = plen.toRat ∧ h.toRat < e.2.1.toRat) ∧
    (∀ p, midWalk w plen = .onNode p → ∃ pre e post, w = pre ++ e :: post ∧ e.2.2 = p ∧
        wsum pre + e.2.1.toRat = plen.toRat) ∧
    (midWalk w plen = .fail → w = [] ∨ wsum w < plen.toRat)
  | [], plen, _, _ => by simp [midWalk]
  | (nd0, l, par) :: rest, plen, hw, hp => by
    have hl : l.WF := hw (nd0, l, par) (List.mem_cons_self ..)
    have hrest : ∀ e ∈ rest, e.2.1.WF := fun e he => hw e (List.mem_cons_of_mem _ he)
    have ih := midpoint_walk_spec rest (plen - l) hrest (Frac.sub_wf _ _)
    have hsub : (plen - l).toRat = plen.toRat - l.toRat := Frac.sub_toRat hp hl
    by_cases h1 : Frac.lt plen l = true
    · have h1' := (Frac.lt_iff hp hl).mp h1
      simp only [midWalk, h1, if_true]
      refine ⟨?_, ?_, ?_⟩
      · intro nd h e
        cases e
        exact ⟨[], (nd0, l, par), rest, rfl, rfl, by simp [wsum], h1'⟩
      · intro p e; cases e
      · intro e; cases e
    · have h1f : Frac.lt plen l = false := by simpa using h1
      have h1' := (Frac.lt_false_iff hp hl).mp h1f
      by_cases h2 : Frac.lt l plen = true
      · have h2' := (Frac.lt_iff hl hp).mp h2
        simp only [midWalk, h1f, h2, if_true, Bool.false_eq_true, if_false]
        obtain ⟨ihe, ihn, ihf⟩ := ih
        refine ⟨?_, ?_, ?_⟩
        · intro nd h e
          obtain ⟨pre, e', post, hwq, hid, hs, hlt⟩ := ihe nd h e
          refine ⟨(nd0, l, par) :: pre, e', post, by simp [hwq], hid, ?_, hlt⟩
          simp only [wsum, List.map_cons, List.sum_cons] at hs ⊢
          rw [hsub] at hs; linarith
        · intro p e
          obtain ⟨pre, e', post, hwq, hid, hs⟩ := ihn p e
          refine ⟨(nd0, l, par) :: pre, e', post, by simp [hwq], hid, ?_⟩
          simp only [wsum, List.map_cons, List.sum_cons] at hs ⊢
          rw [hsub] at hs; linarith
        · intro e
          right
          rcases ihf e with h0 | h0
          · subst h0; simp [wsum]; exact h2'
          · simp only [wsum, List.map_cons, List.sum_cons] at h0 ⊢
            rw [hsub] at h0; linarith
      · have h2f : Frac.lt l plen = false := by simpa using h2
        have h2' := (Frac.lt_false_iff hl hp).mp h2f
        simp only [midWalk, h1f, h2f, Bool.false_eq_true, if_false]
        refine ⟨?_, ?_, ?_⟩
        · intro nd h e; cases e
        · intro p e
          cases e
          exact ⟨[], (nd0, l, par), rest, rfl, rfl, by simp [wsum]; linarith⟩
        · intro e; cases e

/-! ## (d) outgroup first -/

/-- after `to_outgroup_position(og, suppress_unifurcations=False)` the outgroup node is the first child of the root, for every
    rooting flag (the unrooted basal collapse only ever dissolves the sister).  With suppression a unary outgroup node is
    replaced by its child in the same position (checked by the oracle as a leaf-set statement). -/
theorem outgroup_first (flag : Option Bool) (og : Nat) (t : T) (r : T × Option Bool)
    (h : toOutgroup flag false og t = some r) : ∃ o rest, r.1.cs = o :: rest ∧ o.id = og := by
  unfold toOutgroup at h
  split at h
  · cases h
  · split at h
    rename_i i x l s cs _
    split at h
    · cases h
    · rename_i o ho
      have hid : o.id = og := by
        have := List.find?_some ho
        simpa using this
      cases h
      simp only [Bool.false_eq_true, if_false]
      by_cases hd : sisterCollapses (unrootedFlag flag) (o :: cs.filter (fun c => c.id != og)) = true
      · simp only [hd, if_true]
        obtain ⟨o', rest', h1, h2⟩ := collapse_head i x l s o _ _ hd
        exact ⟨o', rest', h1, h2.trans hid⟩
      · simp only [hd]
        exact ⟨o, _, rfl, hid⟩

end DendroModel.C07

namespace DendroModel.C07.Aux
open DendroModel DendroModel.C07

mutual
theorem inv_root (tgt : Nat) : ∀ (t : T) (l : Option Frac) (ups : List T) (r : T),
    inv tgt t l ups = some r → r.id = tgt ∧ r.len = l
  | .node i x l0 s cs, l, ups, r, h => by
      rw [inv] at h
      split at h
      · rename_i hi
        cases h
        exact ⟨by simpa [T.id] using hi, rfl⟩
      · exact invL_root tgt cs [] ups i x s l r h
theorem invL_root (tgt : Nat) : ∀ (post pre ups : List T) (i : Nat) (x : Option Nat) (s : Option String)
    (l : Option Frac) (r : T), invL tgt i x s l pre post ups = some r → r.id = tgt ∧ r.len = l
  | [], _, _, _, _, _, _, _, h => by simp [invL] at h
  | c :: post, pre, ups, i, x, s, l, r, h => by
      rw [invL] at h
      split at h
      · rename_i r' hr'
        cases h
        exact inv_root tgt c l _ r hr'
      · exact invL_root tgt post (pre ++ [c]) ups i x s l r h
end

mutual
theorem inv_some (tgt : Nat) : ∀ (t : T) (l : Option Frac) (ups : List T),
    contains tgt t = true → ∃ r, inv tgt t l ups = some r
  | .node i x l0 s cs, l, ups, h => by
      rw [inv]
      simp only [contains, Bool.or_eq_true] at h
      split
      · exact ⟨_, rfl⟩
      · rename_i hi
        rcases h with h | h
        · exact absurd h hi
        · exact invL_some tgt cs [] ups i x s l h
theorem invL_some (tgt : Nat) : ∀ (post pre ups : List T) (i : Nat) (x : Option Nat) (s : Option String)
    (l : Option Frac), containsL tgt post = true → ∃ r, invL tgt i x s l pre post ups = some r
  | [], _, _, _, _, _, _, h => by simp [containsL] at h
  | c :: post, pre, ups, i, x, s, l, h => by
      rw [invL]
      simp only [containsL, Bool.or_eq_true] at h
      split
      · exact ⟨_, rfl⟩
      · rename_i hnone
        rcases h with h | h
        · obtain ⟨r, hr⟩ := inv_some tgt c l [.node i x c.len s (pre ++ post ++ ups)] h
          rw [hr] at hnone; cases hnone
        · exact invL_some tgt post (pre ++ [c]) ups i x s l h
end
end DendroModel.C07.Aux

namespace DendroModel.C07
open DendroModel DendroModel.C07.Aux

/-- after the inversions the requested node IS the root and carries the old seed's own edge length (the root edge length
    travels with the root), for every node of the tree -/
theorem reseed_root_is_target (tgt : Nat) (t : T) (h : contains tgt t = true) :
    (invertTo tgt t).id = tgt ∧ (invertTo tgt t).len = t.len := by
  obtain ⟨r, hr⟩ := inv_some tgt t t.len [] h
  simp only [invertTo, hr, Option.getD_some]
  exact inv_root tgt t t.len [] r hr

/-! ## the hypotheses are satisfiable, and the theorems speak about the running definitions -/

/-- `((A:1,B:1)X:1,C:2)` with ids 0..4 -/
def exTree : T :=
  .node 0 none none none
    [.node 1 none (some ⟨1, 1⟩) none [.node 2 (some 0) (some ⟨1, 1⟩) none [], .node 3 (some 1) (some ⟨1, 1⟩) none []],
     .node 4 (some 2) (some ⟨2, 1⟩) none []]

example : (∀ n ∈ exTree.nodes, n.id = 1 → n.cs ≠ []) ∧ 2 ≤ exTree.cs.length ∧ (leafIds exTree).Nodup := by
  refine ⟨?_, by decide, by decide⟩
  intro n hn
  simp [exTree, T.nodes, T.nodesL] at hn
  rcases hn with rfl | rfl | rfl | rfl | rfl <;> simp [T.id, T.cs]

example : ((reseedAt (some false) false false 1 exTree).1).id = 1 := by decide
example : contains 1 exTree = true := by decide
example : ∃ r, toOutgroup (some false) false 4 exTree = some r := ⟨_, rfl⟩
example : midWalk [(2, ⟨1, 1⟩, 1), (1, ⟨1, 1⟩, 0)] ⟨2, 1⟩ = .onNode 0 := by decide
example : midWalk [(4, ⟨2, 1⟩, 0)] ⟨3, 2⟩ = .onEdge 4 ⟨3, 2⟩ := by decide

end DendroModel.C07

namespace DendroModel.C07.Aux
open DendroModel DendroModel.C07

theorem insStable_perm (before : T → T → Bool) (x : T) : ∀ l : List T, (insStable before x l).Perm (x :: l)
  | [] => by simp [insStable]
  | y :: r => by
    simp only [insStable]
    split
    · exact ((insStable_perm before x r).cons y).trans (List.Perm.swap x y r)
    · exact List.Perm.refl _

theorem sortStable_perm (before : T → T → Bool) : ∀ l : List T, (sortStable before l).Perm l
  | [] => by simp [sortStable]
  | x :: l => by
    have ih := sortStable_perm before l
    simp only [sortStable, List.foldr_cons] at ih ⊢
    exact (insStable_perm before x _).trans (ih.cons x)

theorem leavesL_perm {a b : List T} (h : a.Perm b) : (T.leavesL a).Perm (T.leavesL b) := by
  induction h with
  | nil => exact List.Perm.refl _
  | cons x _ ih => simp only [T.leavesL]; exact ih.append_left _
  | swap x y l =>
    simp only [T.leavesL]
    rw [← List.append_assoc, ← List.append_assoc]
    exact List.Perm.append_right _ List.perm_append_comm
  | trans _ _ ih1 ih2 => exact ih1.trans ih2

theorem totalQL_perm {a b : List T} (h : a.Perm b) : totalQL a = totalQL b := by
  induction h with
  | nil => rfl
  | cons x _ ih => simp only [totalQL, ih]
  | swap x y l => simp only [totalQL]; ring
  | trans _ _ ih1 ih2 => exact ih1.trans ih2

theorem leavesL_map_perm (f : T → T) : ∀ cs : List T, (∀ c ∈ cs, (f c).leaves.Perm c.leaves) →
    (T.leavesL (cs.map f)).Perm (T.leavesL cs)
  | [], _ => List.Perm.refl _
  | c :: cs, h => by
    simp only [List.map_cons, T.leavesL]
    exact (h c (List.mem_cons_self ..)).append (leavesL_map_perm f cs (fun d hd => h d (List.mem_cons_of_mem _ hd)))

theorem totalQL_map (f : T → T) : ∀ cs : List T, (∀ c ∈ cs, totalQ (f c) = totalQ c) → totalQL (cs.map f) = totalQL cs
  | [], _ => rfl
  | c :: cs, h => by
    simp only [List.map_cons, totalQL]
    rw [h c (List.mem_cons_self ..), totalQL_map f cs (fun d hd => h d (List.mem_cons_of_mem _ hd))]

theorem size_lt_of_mem {c : T} : ∀ {cs : List T}, c ∈ cs → c.size < 1 + T.sizeL cs
  | [], h => by simp at h
  | d :: ds, h => by
    simp only [T.sizeL]
    rcases List.mem_cons.mp h with h | h
    · subst h; omega
    · have := size_lt_of_mem h; omega

theorem leaves_node (i : Nat) (x : Option Nat) (l : Option Frac) (s : Option String) (cs : List T) :
    T.leaves (.node i x l s cs) = if cs = [] then [.node i x l s []] else T.leavesL cs := by
  cases cs <;> simp [T.leaves]

/-- any re-ordering that sorts the child list of every node (whatever the order relation) keeps the leaves and the total length -/
theorem sorted_tree_inv (f : T → T) (before : T → T → Bool)
    (hf : ∀ i x l s cs, f (.node i x l s cs) = .node i x l s (sortStable before (cs.map f))) :
    ∀ (n : Nat) (t : T), t.size ≤ n → (f t).leaves.Perm t.leaves ∧ totalQ (f t) = totalQ t
  | 0, .node i x l s cs, h => by simp [T.size] at h
  | n + 1, .node i x l s cs, h => by
    have ih : ∀ c ∈ cs, (f c).leaves.Perm c.leaves ∧ totalQ (f c) = totalQ c := fun c hc =>
      sorted_tree_inv f before hf n c (by have := size_lt_of_mem hc; simp only [T.size] at h; omega)
    have hp := sortStable_perm before (cs.map f)
    rw [hf]
    refine ⟨?_, ?_⟩
    · rw [leaves_node, leaves_node]
      by_cases hcs : cs = []
      · subst hcs; simp [sortStable]
      · have hne : sortStable before (cs.map f) ≠ [] := by
          intro h0; rw [h0] at hp
          have := hp.length_eq; simp at this; exact hcs (List.length_eq_zero_iff.mp this.symm)
        simp only [hcs, hne, if_false]
        exact (leavesL_perm hp).trans (leavesL_map_perm f cs (fun c hc => (ih c hc).1))
    · simp only [totalQ]
      rw [totalQL_perm hp, totalQL_map f cs (fun c hc => (ih c hc).2)]

theorem ladderizeL_eq_map (asc : Bool) : ∀ cs : List T, ladderizeL asc cs = cs.map (ladderize asc)
  | [] => by simp [ladderizeL]
  | c :: cs => by simp [ladderizeL, ladderizeL_eq_map asc cs]
theorem reorderL_eq_map (asc : Bool) : ∀ cs : List T, reorderL asc cs = cs.map (reorder asc)
  | [] => by simp [reorderL]
  | c :: cs => by simp [reorderL, reorderL_eq_map asc cs]
theorem rotateL_eq_map (rank : Nat → Nat) : ∀ cs : List T, rotateL rank cs = cs.map (rotate rank)
  | [] => by simp [rotateL]
  | c :: cs => by simp [rotateL, rotateL_eq_map rank cs]

end DendroModel.C07.Aux

namespace DendroModel.C07.Aux
open DendroModel DendroModel.C07

/-! ## (a) for the re-ordering operations: leaves and total length (path lengths: `ladderize_invariant` etc. below) -/

/-- `ladderize` keeps the leaves and the total length (both directions, all trees) -/
theorem ladderize_leaves_total (asc : Bool) (t : T) :
    (ladderize asc t).leaves.Perm t.leaves ∧ totalQ (ladderize asc t) = totalQ t :=
  sorted_tree_inv (ladderize asc) _ (fun i x l s cs => by rw [ladderize, ladderizeL_eq_map]) t.size t (Nat.le_refl _)

theorem reorder_leaves_total (asc : Bool) (t : T) :
    (reorder asc t).leaves.Perm t.leaves ∧ totalQ (reorder asc t) = totalQ t :=
  sorted_tree_inv (reorder asc) _ (fun i x l s cs => by rw [reorder, reorderL_eq_map]) t.size t (Nat.le_refl _)

theorem rotate_leaves_total (rank : Nat → Nat) (t : T) :
    (rotate rank t).leaves.Perm t.leaves ∧ totalQ (rotate rank t) = totalQ t :=
  sorted_tree_inv (rotate rank) _ (fun i x l s cs => by rw [rotate, rotateL_eq_map]) t.size t (Nat.le_refl _)

end DendroModel.C07.Aux

namespace DendroModel.C07.Aux
open DendroModel DendroModel.C07

theorem toHL_append (a b : List T) : T.toHL (a ++ b) = T.toHL a ++ T.toHL b := by
  induction a with
  | nil => simp [T.toHL]
  | cons c cs ih => simp [T.toHL, ih]

theorem toH_node_ne {i : Nat} {x : Option Nat} {l : Option Frac} {s : Option String} {cs : List T} (h : cs ≠ []) :
    T.toH (.node i x l s cs) = .node (T.toHL cs) := by
  cases cs with
  | nil => exact absurd rfl h
  | cons c cs => simp [T.toH]

end DendroModel.C07.Aux

namespace DendroModel.C07
open DendroModel DendroModel.C07.Aux

/-- One inversion step of the chain keeps the set of normalised (unrooted) split masks of the leaf taxa, for every
    labelling in which sibling clades are disjoint and non-empty (`GoodL`) and every reference bit `lo` of the tree.
    (The single step; `GoodL` is carried along the whole chain, through the basal collapse and the suppression, in
    `reseed_keeps_usplits` and `reroot_at_node_keeps_usplits` at the end of this file.) -/
theorem inversion_step_keeps_unrooted_splits {t u : T} (h : Step t u) (lo : Nat)
    (hg : Hier.GoodL (T.toHL t.cs)) (hlo : Hier.bits lo ⊆ Hier.bits (Hier.maskL (T.toHL t.cs)))
    (hsingle : ∀ a, Hier.bits lo ⊆ Hier.bits a ∨ Disjoint (Hier.bits lo) (Hier.bits a)) (hne : lo ≠ 0) :
    ∀ s, s ∈ Hier.usplits lo (T.toH u) ↔ s ∈ Hier.usplits lo (T.toH t) := by
  cases h with
  | mk i x l s pre j y lc sc ds post hds hrest =>
    have h1 : (pre ++ T.node j y lc sc ds :: post) ≠ [] := by simp
    have h2 : (ds ++ [T.node i x lc s (pre ++ post)]) ≠ [] := by simp
    simp only [T.cs, toHL_append, T.toHL, toH_node_ne hds] at hg hlo
    rw [toH_node_ne h1, toH_node_ne h2]
    simp only [toHL_append, T.toHL, toH_node_ne hds, toH_node_ne hrest]
    exact Hier.usplits_invert lo (T.toHL pre) (T.toHL ds) (T.toHL post) hg hlo hsingle hne

end DendroModel.C07

namespace DendroModel.C07.Aux
open DendroModel DendroModel.C07 DendroModel.C07.Path

/-! ### more about `down`/`dist` on length-labelled trees -/

mutual
theorem dist_none_left : ∀ (t : LT) (a b : Nat), down t a = none → Path.dist t a b = none
  | .leaf _ _, _, _, _ => rfl
  | .node l cs, a, b, h => by
      simp only [down, Option.map_eq_none_iff] at h
      simp only [Path.dist]
      exact distL_none_left cs a b h
theorem distL_none_left : ∀ (cs : List LT) (a b : Nat), downL cs a = none → distL cs a b = none
  | [], _, _, _ => rfl
  | c :: cs, a, b, h => by
      simp only [downL] at h
      cases hda : down c a with
      | some d => simp [hda] at h
      | none =>
        simp only [hda] at h
        simp only [distL, hda]
        cases down c b with
        | some y => simp [h]
        | none => exact distL_none_left cs a b h
end

mutual
theorem dist_none_right : ∀ (t : LT) (a b : Nat), down t b = none → Path.dist t a b = none
  | .leaf _ _, _, _, _ => rfl
  | .node l cs, a, b, h => by
      simp only [down, Option.map_eq_none_iff] at h
      simp only [Path.dist]
      exact distL_none_right cs a b h
theorem distL_none_right : ∀ (cs : List LT) (a b : Nat), downL cs b = none → distL cs a b = none
  | [], _, _, _ => rfl
  | c :: cs, a, b, h => by
      simp only [downL] at h
      cases hdb : down c b with
      | some d => simp [hdb] at h
      | none =>
        simp only [hdb] at h
        simp only [distL, hdb]
        cases down c a with
        | some x => simp [h]
        | none => exact distL_none_right cs a b h
end

theorem distL_single (x : LT) (a b : Nat) : distL [x] a b = Path.dist x a b := by
  simp only [distL]
  cases hda : down x a with
  | none =>
    rw [dist_none_left x a b hda]
    cases down x b <;> simp [downL]
  | some d =>
    cases hdb : down x b with
    | none => rw [dist_none_right x a b hdb]; simp [downL]
    | some e => rfl

theorem downL_single (x : LT) (a : Nat) : downL [x] a = down x a := by
  simp only [downL]; cases down x a <;> rfl

/-! ### changing the length of a node's own edge -/

theorem down_withLen (c : T) (m : Option Frac) (a : Nat) :
    down (toLT (c.withLen m)) a = (down (toLT c) a).map (· + (lenQ m - lenQ c.len)) := by
  cases c with
  | node i x l s cs =>
    cases cs with
    | nil =>
      simp only [T.withLen, toLT, down, T.len]
      split <;> simp
    | cons d ds =>
      simp only [T.withLen, toLT, down, T.len, Option.map_map]
      congr 1; funext z; simp

theorem dist_withLen (c : T) (m : Option Frac) (a b : Nat) : Path.dist (toLT (c.withLen m)) a b = Path.dist (toLT c) a b := by
  cases c with
  | node i x l s cs => cases cs <;> simp [T.withLen, toLT, Path.dist]

theorem leaves_withLen (c : T) (m : Option Frac) : leaves (toLT (c.withLen m)) = leaves (toLT c) := by
  cases c with
  | node i x l s cs => cases cs <;> simp [T.withLen, toLT, leaves]

theorem totalQ_withLen (c : T) (m : Option Frac) : totalQ (c.withLen m) = totalQ c - lenQ c.len + lenQ m := by
  cases c with
  | node i x l s cs => simp [T.withLen, totalQ, T.len]; ring

/-- every edge length stored in the tree is a well-formed fraction (non-zero denominator): what the protocol parser and
    every `Frac` operation produce -/
def LenWF (t : T) : Prop := ∀ n ∈ t.nodes, ∀ f, n.len = some f → f.den ≠ 0

def OWF (l : Option Frac) : Prop := ∀ f, l = some f → f.den ≠ 0

theorem lenQ_merge {a b : Option Frac} (ha : OWF a) (hb : OWF b) : lenQ (mergeLen a b) = lenQ a + lenQ b := by
  cases b with
  | none => simp [mergeLen, lenQ]
  | some y =>
    cases a with
    | none => simp [mergeLen, lenQ]
    | some x =>
      have := Frac.add_toRat (a := x) (b := y) (ha x rfl) (hb y rfl)
      simpa [mergeLen, lenQ, Frac.toRat] using this

theorem merge_owf {a b : Option Frac} (ha : OWF a) (hb : OWF b) : OWF (mergeLen a b) := by
  cases b with
  | none => simpa [mergeLen] using ha
  | some y =>
    cases a with
    | none => simpa [mergeLen] using hb
    | some x =>
      intro f hf
      simp only [mergeLen, Option.some.injEq] at hf
      subst hf
      exact Frac.add_wf x y

theorem supL_length : ∀ cs : List T, (supL cs).length = cs.length
  | [] => rfl
  | c :: cs => by simp [supL, supL_length cs]

theorem lenWF_child {i : Nat} {x : Option Nat} {l : Option Frac} {s : Option String} {cs : List T}
    (h : LenWF (.node i x l s cs)) {c : T} (hc : c ∈ cs) : LenWF c :=
  fun n hn => h n (by simp only [T.nodes]; exact List.mem_cons_of_mem _ (nodes_sub_of_mem hc n hn))

theorem lenWF_root {i : Nat} {x : Option Nat} {l : Option Frac} {s : Option String} {cs : List T}
    (h : LenWF (.node i x l s cs)) : OWF l :=
  fun f hf => h (.node i x l s cs) (mem_nodes_self _) f (by simpa [T.len] using hf)

/-- what unifurcation suppression keeps, node by node -/
structure SupInv (t r : T) : Prop where
  down : ∀ a, down (toLT r) a = down (toLT t) a
  dist : ∀ a b, Path.dist (toLT r) a b = Path.dist (toLT t) a b
  leaves : leaves (toLT r) = leaves (toLT t)
  total : totalQ r = totalQ t
  rootwf : OWF r.len

structure SupInvL (cs rs : List T) : Prop where
  down : ∀ a, downL (toLTL rs) a = downL (toLTL cs) a
  dist : ∀ a b, distL (toLTL rs) a b = distL (toLTL cs) a b
  leaves : leavesL (toLTL rs) = leavesL (toLTL cs)
  total : totalQL rs = totalQL cs

mutual
theorem sup_inv : ∀ t : T, LenWF t → SupInv t (sup t)
  | .node i x l s cs, hwf => by
    have ihL := supL_inv cs (fun c hc => lenWF_child hwf hc)
    have hl : OWF l := lenWF_root hwf
    rw [sup]
    split
    · rename_i c hc
      -- cs = [c0], c = sup c0
      match cs, hc, ihL, hwf with
      | [c0], hc, ihL, hwf =>
        simp only [supL, List.cons.injEq, and_true] at hc
        have ih := sup_inv c0 (lenWF_child hwf (List.mem_cons_self ..))
        rw [hc] at ih
        have hm := lenQ_merge ih.rootwf hl
        refine ⟨?_, ?_, ?_, ?_, ?_⟩
        · intro a
          rw [down_withLen, hm, ih.down]
          simp only [toLT, toLTL, down, downL_single]
          congr 1; funext z; ring
        · intro a b
          rw [dist_withLen, ih.dist]
          simp only [toLT, toLTL, Path.dist, distL_single]
        · rw [leaves_withLen, ih.leaves]
          simp [toLT, toLTL, Path.leaves, Path.leavesL]
        · rw [totalQ_withLen, hm, ih.total]
          simp [totalQ, totalQL]; ring
        · cases c with
          | node j y lc sc ds => simpa [T.withLen, T.len] using merge_owf ih.rootwf hl
      | [], hc, _, _ => simp [supL] at hc
      | _ :: _ :: _, hc, _, _ => simp [supL] at hc
    · by_cases h0 : cs = []
      · subst h0
        exact ⟨fun _ => rfl, fun _ _ => rfl, rfl, rfl, by simpa [supL, T.len] using hl⟩
      · have h1 : supL cs ≠ [] := by
          intro h; have := supL_length cs; rw [h] at this; simp at this
          exact h0 (List.length_eq_zero_iff.mp this.symm)
        refine ⟨?_, ?_, ?_, ?_, by simpa [T.len] using hl⟩
        · intro a; rw [toLT_node_ne h1, toLT_node_ne h0]; simp only [down, ihL.down]
        · intro a b; rw [toLT_node_ne h1, toLT_node_ne h0]; simp only [Path.dist, ihL.dist]
        · rw [toLT_node_ne h1, toLT_node_ne h0]; simp only [Path.leaves, ihL.leaves]
        · simp only [totalQ, ihL.total]
theorem supL_inv : ∀ cs : List T, (∀ c ∈ cs, LenWF c) → SupInvL cs (supL cs)
  | [], _ => ⟨fun _ => rfl, fun _ _ => rfl, rfl, rfl⟩
  | c :: cs, hwf => by
    have ih := sup_inv c (hwf c (List.mem_cons_self ..))
    have ihL := supL_inv cs (fun d hd => hwf d (List.mem_cons_of_mem _ hd))
    refine ⟨?_, ?_, ?_, ?_⟩
    · intro a; simp only [supL, toLTL, downL, ih.down, ihL.down]
    · intro a b; simp only [supL, toLTL, distL, ih.down, ih.dist, ihL.down, ihL.dist]
    · simp only [supL, toLTL, Path.leavesL, ih.leaves, ihL.leaves]
    · simp only [supL, totalQL, ih.total, ihL.total]
end

end DendroModel.C07.Aux

namespace DendroModel.C07.Aux
open DendroModel DendroModel.C07 DendroModel.C07.Path

/-! ### dissolving one of two root children (`collapse_basal_bifurcation`) on length-labelled trees -/

theorem distL_cons (c : LT) (cs : List LT) (a b : Nat) :
    distL (c :: cs) a b = match down c a, down c b with
      | some _, some _ => Path.dist c a b
      | some x, none => (downL cs b).map (x + ·)
      | none, some y => (downL cs a).map (· + y)
      | none, none => distL cs a b := by
  rw [distL]; cases down c a <;> cases down c b <;> rfl

theorem collapse_right_dist (A A' : LT) (lb : ℚ) (bs : List LT)
    (hdown : ∀ p, down A' p = (down A p).map (· + lb)) (hdist : ∀ p q, Path.dist A' p q = Path.dist A p q) (p q : Nat) :
    distL (A' :: bs) p q = distL [A, LT.node lb bs] p q := by
  rw [distL_cons A', distL_cons A, hdown, hdown, hdist, downL_single, downL_single, distL_single]
  cases hp : down A p <;> cases hq : down A q
  · simp [Path.dist]
  · simp only [Option.map_none, Option.map_some, Option.map_map, down]
    congr 1; funext z; simp; ring
  · simp only [Option.map_none, Option.map_some, Option.map_map, down]
    congr 1; funext z; simp; ring
  · simp

theorem not_mem_of_downL_none {cs : List LT} {a : Nat} (h : downL cs a = none) : a ∉ leavesL cs := by
  intro hm
  have := (downL_some_iff cs a).mpr hm
  simp [h] at this

theorem mem_of_downL_some {cs : List LT} {a : Nat} {x : ℚ} (h : downL cs a = some x) : a ∈ leavesL cs :=
  (downL_some_iff cs a).mp (by simp [h])

theorem mem_of_down_some {t : LT} {a : Nat} {x : ℚ} (h : down t a = some x) : a ∈ leaves t :=
  (down_some_iff t a).mp (by simp [h])

theorem collapse_left_dist (as : List LT) (la : ℚ) (B B' : LT)
    (hdown : ∀ p, down B' p = (down B p).map (· + la)) (hdist : ∀ p q, Path.dist B' p q = Path.dist B p q)
    (hleaves : leaves B' = leaves B) (hdisj : ∀ z, z ∈ leavesL as → z ∈ leaves B → False) (p q : Nat) :
    distL (as ++ [B']) p q = distL [LT.node la as, B] p q := by
  have hL : leavesL [B'] = leaves B := by simp [leavesL, hleaves]
  cases hp : downL as p with
  | some x =>
    cases hq : downL as q with
    | some y =>
      rw [distL_front as [B'] p q (mem_of_downL_some hp) (mem_of_downL_some hq)]
      simp [distL, down, hp, hq, Path.dist]
    | none =>
      cases hB : down B q with
      | some y =>
        have hB' : downL [B'] q = some (y + la) := by rw [downL_single, hdown, hB]; rfl
        rw [distL_split as [B'] p q x (y + la) hp hB' (not_mem_of_downL_none hq)
          (by rw [hL]; exact fun h => hdisj p (mem_of_downL_some hp) h)]
        simp only [distL, down, hp, hq, Option.map_some, Option.map_none, downL_single, hB]
        congr 1; ring
      | none =>
        have : downL (as ++ [B']) q = none := by rw [downL_append, hq, downL_single, hdown, hB]; rfl
        rw [distL_none_right _ p q this]
        simp [distL, down, hp, hq, downL_single, hB]
  | none =>
    cases hq : downL as q with
    | some y =>
      cases hB : down B p with
      | some x =>
        have hB' : downL [B'] p = some (x + la) := by rw [downL_single, hdown, hB]; rfl
        rw [distL_split' as [B'] p q (x + la) y hq hB' (not_mem_of_downL_none hp)
          (by rw [hL]; exact fun h => hdisj q (mem_of_downL_some hq) h)]
        simp only [distL, down, hp, hq, Option.map_some, Option.map_none, downL_single, hB]
        congr 1; ring
      | none =>
        have : downL (as ++ [B']) p = none := by rw [downL_append, hp, downL_single, hdown, hB]; rfl
        rw [distL_none_left _ p q this]
        simp [distL, down, hp, hq, downL_single, hB]
    | none =>
      rw [distL_back as [B'] p q (not_mem_of_downL_none hp) (not_mem_of_downL_none hq), distL_single, hdist, distL_cons]
      simp only [down, hp, hq, Option.map_none, distL_single]

end DendroModel.C07.Aux

namespace DendroModel.C07.Aux
open DendroModel DendroModel.C07 DendroModel.C07.Path

theorem len_node (i : Nat) (x : Option Nat) (l : Option Frac) (s : Option String) (cs : List T) : (T.node i x l s cs).len = l := rfl
theorem cs_node (i : Nat) (x : Option Nat) (l : Option Frac) (s : Option String) (cs : List T) : (T.node i x l s cs).cs = cs := rfl

theorem nodesL_append (a b : List T) : T.nodesL (a ++ b) = T.nodesL a ++ T.nodesL b := by
  induction a with
  | nil => simp [T.nodesL]
  | cons c cs ih => simp [T.nodesL, ih]

theorem leafIds_eq_LT (t : T) (h : t.cs ≠ []) : leafIds t = leavesL (toLTL t.cs) := by
  cases t with
  | node i x l s cs =>
    simp only [T.cs] at h
    simp only [leafIds, leaves_node_ne h, T.cs, leavesL_toLTL]

/-- what a clean-up step keeps at the root -/
structure RootInv (t r : T) : Prop where
  ids : leafIds r = leafIds t
  total : totalQ r = totalQ t
  paths : ∀ a b, pathLen r a b = pathLen t a b
  wf : LenWF r

theorem step_lenWF {t u : T} (h : Step t u) (hwf : LenWF t) : LenWF u := by
  cases h with
  | mk i x l s pre j y lc sc ds post hds hrest =>
    have hc : T.node j y lc sc ds ∈ T.nodes (.node i x l s (pre ++ T.node j y lc sc ds :: post)) := by
      simp [T.nodes, nodesL_append, T.nodesL]
    intro n hn f hf
    simp only [T.nodes, nodesL_append, T.nodesL, List.append_nil, List.mem_cons, List.mem_append] at hn
    rcases hn with rfl | hn | rfl | hn | hn
    · exact hwf _ (mem_nodes_self _) f (by simpa [T.len] using hf)
    · exact hwf n (by simp [T.nodes, nodesL_append, T.nodesL, hn]) f hf
    · exact hwf _ hc f (by simpa [T.len] using hf)
    · exact hwf n (by simp [T.nodes, nodesL_append, T.nodesL, hn]) f hf
    · exact hwf n (by simp [T.nodes, nodesL_append, T.nodesL, hn]) f hf

theorem reach_lenWF {t r : T} (h : Reach t r) (hwf : LenWF t) : LenWF r := by
  induction h with
  | refl _ => exact hwf
  | step st _ ih => exact ih (step_lenWF st hwf)

theorem collapse_inv (t : T) (hwf : LenWF t) (hnd : (leafIds t).Nodup) : RootInv t (collapseBasal t) := by
  have triv : RootInv t t := ⟨rfl, rfl, fun _ _ => rfl, hwf⟩
  cases t with
  | node i x l s cs =>
  match cs, hwf, hnd, triv with
  | [], _, _, triv => simpa [collapseBasal] using triv
  | [_], _, _, triv => simpa [collapseBasal] using triv
  | _ :: _ :: _ :: _, _, _, triv => simpa [collapseBasal] using triv
  | [a, b], hwf, hnd, triv =>
    have hwa : LenWF a := lenWF_child hwf (by simp)
    have hwb : LenWF b := lenWF_child hwf (by simp)
    simp only [collapseBasal]
    split
    · -- the second child is dissolved
      rename_i hb
      cases b with
      | node j y lb sb bs =>
      simp only [cs_node] at hb
      simp only [cs_node, len_node]
      have hbs : bs ≠ [] := by intro h; subst h; simp at hb
      have hm : lenQ (mergeLen a.len lb) = lenQ a.len + lenQ lb :=
        lenQ_merge (fun f hf => hwa a (mem_nodes_self _) f hf) (lenWF_root hwb)
      refine ⟨?_, ?_, ?_, ?_⟩
      · rw [leafIds_eq_LT _ (by simp [T.cs]), leafIds_eq_LT _ (by simp [T.cs])]
        simp only [T.cs, toLTL, leavesL, leaves_withLen, toLT_node_ne hbs, Path.leaves, List.append_nil]
      · simp only [totalQ, totalQL, totalQ_withLen, hm]; ring
      · intro p q
        simp only [pathLen, cs_node, toLTL, toLT_node_ne hbs]
        apply collapse_right_dist
        · intro z; rw [down_withLen, hm]; congr 1; funext w; ring
        · intro z w; exact dist_withLen _ _ _ _
      · intro n hn f hf
        simp only [T.nodes, T.nodesL, List.mem_cons, List.mem_append] at hn
        rcases hn with rfl | hn | hn
        · exact hwf _ (mem_nodes_self _) f (by simpa [T.len] using hf)
        · cases a with
          | node k z la sa as =>
            simp only [T.withLen, T.nodes, List.mem_cons] at hn
            rcases hn with rfl | hn
            · exact merge_owf (lenWF_root hwa) (lenWF_root hwb) f (by simpa [T.len] using hf)
            · exact hwa n (by simp [T.nodes, hn]) f hf
        · exact hwb n (by simp only [T.nodes]; exact List.mem_cons_of_mem _ hn) f hf
    · split
      · -- the first child is dissolved
        rename_i hb ha
        cases a with
        | node k z la sa as =>
        simp only [cs_node] at ha
        simp only [cs_node, len_node]
        have has : as ≠ [] := by intro h; subst h; simp at ha
        have hm : lenQ (mergeLen b.len la) = lenQ b.len + lenQ la :=
          lenQ_merge (fun f hf => hwb b (mem_nodes_self _) f hf) (lenWF_root hwa)
        have hdisj : ∀ z, z ∈ leavesL (toLTL as) → z ∈ leaves (toLT b) → False := by
          intro z h1 h2
          rw [leafIds_eq_LT _ (by simp [T.cs])] at hnd
          simp only [T.cs, toLTL, leavesL, toLT_node_ne has, Path.leaves, List.append_nil] at hnd
          exact (List.nodup_append.mp hnd).2.2 z h1 z h2 rfl
        refine ⟨?_, ?_, ?_, ?_⟩
        · rw [leafIds_eq_LT _ (by simp [T.cs]), leafIds_eq_LT _ (by simp [T.cs])]
          simp only [T.cs, toLTL_append, toLTL, Path.leavesL_append, Path.leavesL, leaves_withLen, toLT_node_ne has, Path.leaves,
            List.append_nil]
        · simp only [totalQ, totalQL, totalQL_append, totalQ_withLen, hm]; ring
        · intro p q
          simp only [pathLen, cs_node, toLTL_append, toLTL, toLT_node_ne has]
          apply collapse_left_dist _ _ _ _ _ _ (leaves_withLen _ _) hdisj
          · intro z; rw [down_withLen, hm]; congr 1; funext w; ring
          · intro z w; exact dist_withLen _ _ _ _
        · intro n hn f hf
          simp only [T.nodes, nodesL_append, T.nodesL, List.mem_cons, List.mem_append, List.append_nil] at hn
          rcases hn with rfl | hn | hn
          · exact hwf _ (mem_nodes_self _) f (by simpa [T.len] using hf)
          · exact hwa n (by simp only [T.nodes]; exact List.mem_cons_of_mem _ hn) f hf
          · cases b with
            | node j y lb sb bs =>
              simp only [T.withLen, T.nodes, List.mem_cons] at hn
              rcases hn with rfl | hn
              · exact merge_owf (lenWF_root hwb) (lenWF_root hwa) f (by simpa [T.len] using hf)
              · exact hwb n (by simp [T.nodes, hn]) f hf
      · exact triv


end DendroModel.C07.Aux

namespace DendroModel.C07.Aux
open DendroModel DendroModel.C07 DendroModel.C07.Path

mutual
theorem find_mem (i : Nat) : ∀ (t n : T), T.find? i t = some n → n ∈ t.nodes ∧ n.id = i
  | .node j x l s cs, n, h => by
    simp only [T.find?] at h
    split at h
    · rename_i hij
      cases h
      exact ⟨mem_nodes_self _, by simpa [T.id] using (beq_iff_eq.mp hij).symm⟩
    · obtain ⟨h1, h2⟩ := findL_mem i cs n h
      exact ⟨by simp only [T.nodes]; exact List.mem_cons_of_mem _ h1, h2⟩
theorem findL_mem (i : Nat) : ∀ (cs : List T) (n : T), T.findL? i cs = some n → n ∈ T.nodesL cs ∧ n.id = i
  | [], _, h => by simp [T.findL?] at h
  | c :: cs, n, h => by
    simp only [T.findL?] at h
    split at h
    · rename_i r hr
      cases h
      obtain ⟨h1, h2⟩ := find_mem i c n hr
      exact ⟨by simp only [T.nodesL]; exact List.mem_append_left _ h1, h2⟩
    · obtain ⟨h1, h2⟩ := findL_mem i cs n h
      exact ⟨by simp only [T.nodesL]; exact List.mem_append_right _ h1, h2⟩
end

theorem pathLen_eq_dist (t : T) (a b : Nat) : pathLen t a b = Path.dist (toLT t) a b := by
  cases t with
  | node i x l s cs => cases cs <;> simp [pathLen, T.cs, toLT, toLTL, Path.dist, distL]

theorem leafIds_eq_leaves (t : T) : leafIds t = leaves (toLT t) := (leaves_toLT t).symm

theorem cleanup_inv (flag : Option Bool) (c s : Bool) (t : T) (hwf : LenWF t) (hnd : (leafIds t).Nodup) :
    leafIds (cleanup flag c s t).1 = leafIds t ∧ totalQ (cleanup flag c s t).1 = totalQ t ∧
    ∀ a b, pathLen (cleanup flag c s t).1 a b = pathLen t a b := by
  have R : RootInv t (if (c && unrootedFlag flag && t.cs.length == 2) = true then collapseBasal t else t) := by
    split
    · exact collapse_inv t hwf hnd
    · exact ⟨rfl, rfl, fun _ _ => rfl, hwf⟩
  simp only [cleanup]
  generalize (if (c && unrootedFlag flag && t.cs.length == 2) = true then collapseBasal t else t) = t1 at R ⊢
  cases s
  · simp only [Bool.false_eq_true, if_false]
    exact ⟨R.ids, R.total, R.paths⟩
  · simp only [if_true]
    have S := sup_inv t1 R.wf
    refine ⟨?_, S.total.trans R.total, ?_⟩
    · rw [leafIds_eq_leaves, S.leaves, ← leafIds_eq_leaves, R.ids]
    · intro a b; rw [pathLen_eq_dist, S.dist, ← pathLen_eq_dist, R.paths]

end DendroModel.C07.Aux

namespace DendroModel.C07
open DendroModel DendroModel.C07.Aux

/-- clause (a) for lengths: same leaves (ids), same total length, same length of every leaf-to-leaf path -/
structure Keeps (t r : T) : Prop where
  ids : (leafIds r).Perm (leafIds t)
  total : totalQ r = totalQ t
  paths : ∀ a b, a ∈ leafIds t → b ∈ leafIds t → pathLen r a b = pathLen t a b

/-- **`reseed_at` keeps the leaves, the total length and every leaf-to-leaf path length for EVERY setting of
    `collapse_unrooted_basal_bifurcation` and `suppress_unifurcations` (the defaults included) and every rooting flag** —
    for every tree whose seed has at least two children, every internal target node, distinct leaf ids and well-formed
    fractions (`Frac.parse` only builds fractions through `mk'`/`ofInt`, which are well formed, and the harness numbers nodes
    0..n-1; that every `parseTree` output satisfies `LenWF` and has distinct ids is NOT proved in this file — both are
    hypotheses here).  Lengths are exact rationals, `None` counts as 0, merged lengths follow
    the library's `None` rules.  Leaf targets and unary seeds (outside `reseed_at`'s documented domain / where the old seed
    itself turns into a tip) are not covered. -/
theorem reseed_invariant_full (flag : Option Bool) (collapse suppress : Bool) (tgt : Nat) (t : T)
    (hint : ∀ n ∈ t.nodes, n.id = tgt → n.cs ≠ []) (h2 : 2 ≤ t.cs.length) (hwf : LenWF t) (hnd : (leafIds t).Nodup) :
    Keeps t (reseedAt flag collapse suppress tgt t).1 := by
  have hr := invert_is_chain tgt t hint h2
  obtain ⟨pl, tot, pth⟩ := reach_inv hr
  have pid : (leafIds (invertTo tgt t)).Perm (leafIds t) := pl.map T.id
  have C := cleanup_inv flag collapse suppress (invertTo tgt t) (reach_lenWF hr hwf) (pid.nodup_iff.mpr hnd)
  have e : (reseedAt flag collapse suppress tgt t).1 = (cleanup flag collapse suppress (invertTo tgt t)).1 := by
    simp only [reseedAt]
    cases hf : T.find? tgt t with
    | none => simp
    | some n =>
      obtain ⟨h1, h2'⟩ := find_mem tgt t n hf
      have hne := hint n h1 h2'
      have : n.cs.isEmpty = false := by
        cases hcs : n.cs with
        | nil => exact absurd hcs hne
        | cons _ _ => rfl
      simp [this]
  rw [e]
  refine ⟨by rw [C.1]; exact pid, C.2.1.trans tot, ?_⟩
  intro a b ha hb
  rw [C.2.2, pth hnd a b ha hb]

/-- the hard variant, every `suppress_unifurcations` setting -/
theorem reroot_at_node_invariant_full (suppress : Bool) (tgt : Nat) (t : T)
    (hint : ∀ n ∈ t.nodes, n.id = tgt → n.cs ≠ []) (h2 : 2 ≤ t.cs.length) (hwf : LenWF t) (hnd : (leafIds t).Nodup) :
    Keeps t (rerootAtNode suppress tgt t).1 :=
  reseed_invariant_full none false suppress tgt t hint h2 hwf hnd

end DendroModel.C07

namespace DendroModel.C07.Aux
open DendroModel DendroModel.C07

theorem collapseBasal_id (t : T) : (collapseBasal t).id = t.id := by
  unfold collapseBasal
  split
  · split
    · rfl
    · split <;> rfl
  · rfl

end DendroModel.C07.Aux

namespace DendroModel.C07
open DendroModel DendroModel.C07.Aux

/-- `reseed_at(..., suppress_unifurcations=False)`, any collapse setting and flag: the requested node is the seed afterwards
    (with suppression a unary new seed is spliced out, so the claim is not made there) -/
theorem reseed_at_root_is_target (flag : Option Bool) (collapse : Bool) (tgt : Nat) (t : T) (h : contains tgt t = true) :
    (reseedAt flag collapse false tgt t).1.id = tgt := by
  have hr := (reseed_root_is_target tgt t h).1
  simp only [reseedAt, cleanup, Bool.and_false, Bool.false_eq_true, if_false]
  split
  · rw [collapseBasal_id]; exact hr
  · exact hr

/-- soft: `randomly_reorient` (both of its branches, any recorded draws) leaves a defined rooting flag as it was -/
theorem reorient_keeps_flag (b : Bool) (pick : Nat) (rank : Nat → Nat) (t : T) (r : T × Option Bool)
    (h : reorient (some b) pick rank t = some r) : r.2 = some b := by
  unfold reorient at h
  split at h
  · cases h
  · split at h
    · cases ho : toOutgroup (some b) true pick t with
      | none => simp [ho] at h
      | some q =>
        simp only [ho, Option.map_some, Option.some.injEq] at h
        subst h
        exact to_outgroup_keeps_flag b true pick t q ho
    · simp only [Option.some.injEq] at h
      subst h
      exact reseed_keeps_flag b true true pick t

/-- the statements about path lengths are not about `none = none`: on the example tree the path A–C has length 4 and is
    still 4 after re-seeding at the internal node with the default clean-up -/
example : pathLen exTree 2 4 = some 4 := by
  simp [pathLen, exTree, T.cs, toLTL, toLT, Path.distL, Path.down, Path.downL, lenQ]; norm_num
example : pathLen (reseedAt (some false) true true 1 exTree).1 2 4 = some 4 :=
  (reseed_invariant_full (some false) true true 1 exTree
    (by intro n hn; simp [exTree, T.nodes, T.nodesL] at hn; rcases hn with rfl | rfl | rfl | rfl | rfl <;> simp [T.id, T.cs])
    (by decide)
    (by intro n hn f hf; simp [exTree, T.nodes, T.nodesL] at hn
        rcases hn with rfl | rfl | rfl | rfl | rfl <;> simp [T.len] at hf <;> subst hf <;> decide)
    (by decide)).paths 2 4 (by decide) (by decide) ▸ (by
      simp [pathLen, exTree, T.cs, toLTL, toLT, Path.distL, Path.down, Path.downL, lenQ]; norm_num)

end DendroModel.C07

namespace DendroModel.C07.Aux
open DendroModel DendroModel.C07

mutual
theorem inv_shape (tgt : Nat) : ∀ (t : T) (l : Option Frac) (ups : List T) (r : T), inv tgt t l ups = some r →
    (t.id = tgt ∧ r.cs = t.cs ++ ups) ∨
    (∃ n ∈ T.nodesL t.cs, n.id = tgt ∧ ∃ up, r.cs = n.cs ++ [up] ∧ up.len = n.len)
  | .node i x l0 s cs, l, ups, r, h => by
      rw [inv] at h
      split at h
      · rename_i hi
        cases h
        exact Or.inl ⟨by simpa [T.id] using hi, rfl⟩
      · exact Or.inr (invL_shape tgt cs [] ups i x s l r h)
theorem invL_shape (tgt : Nat) : ∀ (post pre ups : List T) (i : Nat) (x : Option Nat) (s : Option String)
    (l : Option Frac) (r : T), invL tgt i x s l pre post ups = some r →
    ∃ n ∈ T.nodesL post, n.id = tgt ∧ ∃ up, r.cs = n.cs ++ [up] ∧ up.len = n.len
  | [], _, _, _, _, _, _, _, h => by simp [invL] at h
  | c :: post, pre, ups, i, x, s, l, r, h => by
      rw [invL] at h
      split at h
      · rename_i r' hr'
        cases h
        rcases inv_shape tgt c l _ r hr' with ⟨hid, hcs⟩ | ⟨n, hn, hid, up, hcs, hlen⟩
        · exact ⟨c, by simp only [T.nodesL]; exact List.mem_append_left _ (mem_nodes_self c), hid, _, hcs, rfl⟩
        · refine ⟨n, ?_, hid, up, hcs, hlen⟩
          simp only [T.nodesL]
          apply List.mem_append_left
          cases c with
          | node j y lc sc ds => simp only [T.nodes]; exact List.mem_cons_of_mem _ hn
      · obtain ⟨n, hn, rest⟩ := invL_shape tgt post (pre ++ [c]) ups i x s l r h
        exact ⟨n, by simp only [T.nodesL]; exact List.mem_append_right _ hn, rest⟩
end

end DendroModel.C07.Aux

namespace DendroModel.C07
open DendroModel DendroModel.C07.Aux

/-- **shape of the new root** after the inversions towards a node other than the seed: its children are the target's own
    children, in their order and untouched, followed by exactly ONE more child — its old parent, appended last — whose edge
    carries the target's old edge length (the length swap of `Edge.invert`).  For `reroot_at_edge`, whose target is the
    inserted node `[head : length2]` with own length `length1`, this reads: the root's children are the head at `length2` and
    then the old tail at `length1` (clause c before the clean-up; identification of the found node with the inserted one needs
    the fresh id and is left to the correspondence). -/
theorem reseed_root_shape (tgt : Nat) (t : T) (hne : t.id ≠ tgt) (h : contains tgt t = true) :
    ∃ n ∈ T.nodesL t.cs, n.id = tgt ∧ ∃ up, (invertTo tgt t).cs = n.cs ++ [up] ∧ up.len = n.len := by
  obtain ⟨r, hr⟩ := inv_some tgt t t.len [] h
  simp only [invertTo, hr, Option.getD_some]
  rcases inv_shape tgt t t.len [] r hr with ⟨hid, _⟩ | h'
  · exact absurd hid hne
  · exact h'

example : ∃ up, (invertTo 1 exTree).cs = [.node 2 (some 0) (some ⟨1, 1⟩) none [], .node 3 (some 1) (some ⟨1, 1⟩) none [], up]
    ∧ up.len = some ⟨1, 1⟩ := ⟨_, rfl, rfl⟩

end DendroModel.C07

namespace DendroModel.C07.Aux
open DendroModel DendroModel.C07 DendroModel.C07.Path

theorem toLTL_eq_map (cs : List T) : toLTL cs = cs.map toLT := by
  induction cs with
  | nil => rfl
  | cons c cs ih => simp [toLTL, ih]

theorem toLTL_perm {a b : List T} (h : a.Perm b) : (toLTL a).Perm (toLTL b) := by
  rw [toLTL_eq_map, toLTL_eq_map]; exact h.map _

/-- what re-ordering children (at any depth) keeps, node by node -/
structure PermInv (t r : T) : Prop where
  down : ∀ a, down (toLT r) a = down (toLT t) a
  dist : ∀ a b, Path.dist (toLT r) a b = Path.dist (toLT t) a b
  leaves : (leaves (toLT r)).Perm (leaves (toLT t))

theorem map_permInv (f : T → T) : ∀ cs : List T, (∀ c ∈ cs, PermInv c (f c)) →
    (∀ a, downL (toLTL (cs.map f)) a = downL (toLTL cs) a) ∧
    (∀ a b, distL (toLTL (cs.map f)) a b = distL (toLTL cs) a b) ∧
    (leavesL (toLTL (cs.map f))).Perm (leavesL (toLTL cs))
  | [], _ => ⟨fun _ => rfl, fun _ _ => rfl, List.Perm.refl _⟩
  | c :: cs, h => by
    have hc := h c (List.mem_cons_self ..)
    obtain ⟨i1, i2, i3⟩ := map_permInv f cs (fun d hd => h d (List.mem_cons_of_mem _ hd))
    refine ⟨?_, ?_, ?_⟩
    · intro a; simp only [List.map_cons, toLTL, downL, hc.down, i1]
    · intro a b; simp only [List.map_cons, toLTL, distL, hc.down, hc.dist, i1, i2]
    · simp only [List.map_cons, toLTL, leavesL]; exact hc.leaves.append i3

theorem nodup_child {cs : List T} (hnd : (leavesL (toLTL cs)).Nodup) {c : T} (hc : c ∈ cs) : (leaves (toLT c)).Nodup := by
  induction cs with
  | nil => simp at hc
  | cons d ds ih =>
    simp only [toLTL, leavesL] at hnd
    rcases List.mem_cons.mp hc with rfl | h
    · exact (List.nodup_append.mp hnd).1
    · exact ih (List.nodup_append.mp hnd).2.1 h

/-- sorting the child list of every node, by whatever order relation, keeps `down`, `dist` and the leaves -/
theorem sorted_tree_paths (f : T → T) (before : T → T → Bool)
    (hf : ∀ i x l s cs, f (.node i x l s cs) = .node i x l s (sortStable before (cs.map f))) :
    ∀ (n : Nat) (t : T), t.size ≤ n → (leaves (toLT t)).Nodup → PermInv t (f t)
  | 0, .node i x l s cs, h, _ => by simp [T.size] at h
  | n + 1, .node i x l s cs, h, hnd => by
    rw [hf]
    by_cases hcs : cs = []
    · subst hcs; exact ⟨fun _ => rfl, fun _ _ => rfl, List.Perm.refl _⟩
    · rw [toLT_node_ne hcs] at hnd
      simp only [Path.leaves] at hnd
      have ih : ∀ c ∈ cs, PermInv c (f c) := fun c hc =>
        sorted_tree_paths f before hf n c (by have := size_lt_of_mem hc; simp only [T.size] at h; omega) (nodup_child hnd hc)
      obtain ⟨m1, m2, m3⟩ := map_permInv f cs ih
      have hp := toLTL_perm (sortStable_perm before (cs.map f))
      have hnd2 : (leavesL (toLTL (sortStable before (cs.map f)))).Nodup :=
        ((leavesL_perm_LT hp).trans m3).nodup_iff.mpr hnd
      have hne : sortStable before (cs.map f) ≠ [] := by
        intro h0
        have := (sortStable_perm before (cs.map f)).length_eq
        rw [h0] at this; simp at this; exact hcs (List.length_eq_zero_iff.mp this.symm)
      refine ⟨?_, ?_, ?_⟩
      · intro a; rw [toLT_node_ne hne, toLT_node_ne hcs]; simp only [Path.down, downL_perm hp hnd2 a, m1]
      · intro a b; rw [toLT_node_ne hne, toLT_node_ne hcs]; simp only [Path.dist, distL_perm hp hnd2 a b, m2]
      · rw [toLT_node_ne hne, toLT_node_ne hcs]; simp only [Path.leaves]; exact (leavesL_perm_LT hp).trans m3

end DendroModel.C07.Aux

namespace DendroModel.C07
open DendroModel DendroModel.C07.Aux

theorem keeps_of_permInv {t r : T} (h : PermInv t r) (htot : totalQ r = totalQ t) : Keeps t r :=
  ⟨by rw [leafIds_eq_leaves, leafIds_eq_leaves]; exact h.leaves, htot,
   fun a b _ _ => by rw [pathLen_eq_dist, h.dist, ← pathLen_eq_dist]⟩

/-- **`ladderize` keeps the leaves, the total length and every leaf-to-leaf path length** (both directions, every tree
    with distinct leaf ids) -/
theorem ladderize_invariant (asc : Bool) (t : T) (hnd : (leafIds t).Nodup) : Keeps t (ladderize asc t) :=
  keeps_of_permInv
    (sorted_tree_paths (ladderize asc) _ (fun i x l s cs => by rw [ladderize, ladderizeL_eq_map]) t.size t (Nat.le_refl _)
      (by rw [← leafIds_eq_leaves]; exact hnd))
    (ladderize_leaves_total asc t).2

theorem reorder_invariant (asc : Bool) (t : T) (hnd : (leafIds t).Nodup) : Keeps t (reorder asc t) :=
  keeps_of_permInv
    (sorted_tree_paths (reorder asc) _ (fun i x l s cs => by rw [reorder, reorderL_eq_map]) t.size t (Nat.le_refl _)
      (by rw [← leafIds_eq_leaves]; exact hnd))
    (reorder_leaves_total asc t).2

/-- `randomly_rotate`, whatever the recorded shuffles -/
theorem rotate_invariant (rank : Nat → Nat) (t : T) (hnd : (leafIds t).Nodup) : Keeps t (rotate rank t) :=
  keeps_of_permInv
    (sorted_tree_paths (rotate rank) _ (fun i x l s cs => by rw [rotate, rotateL_eq_map]) t.size t (Nat.le_refl _)
      (by rw [← leafIds_eq_leaves]; exact hnd))
    (rotate_leaves_total rank t).2

example : (leafIds exTree).Nodup := by decide
example : pathLen (ladderize false exTree) 2 4 = pathLen exTree 2 4 :=
  (ladderize_invariant false exTree (by decide)).paths 2 4 (by decide) (by decide)

end DendroModel.C07

namespace DendroModel.C07.Aux
open DendroModel DendroModel.C07 DendroModel.C07.Path

/-- ids of all nodes, pre-order -/
def idsOf (t : T) : List Nat := t.nodes.map T.id
def idsOfL (cs : List T) : List Nat := (T.nodesL cs).map T.id

theorem idsOf_node (i : Nat) (x : Option Nat) (l : Option Frac) (s : Option String) (cs : List T) :
    idsOf (.node i x l s cs) = i :: idsOfL cs := by simp [idsOf, idsOfL, T.nodes, T.id]

theorem idsOfL_cons (c : T) (cs : List T) : idsOfL (c :: cs) = idsOf c ++ idsOfL cs := by
  simp [idsOf, idsOfL, T.nodesL]

theorem idsOfL_append (a b : List T) : idsOfL (a ++ b) = idsOfL a ++ idsOfL b := by
  simp [idsOfL, nodesL_append]

theorem step_ids {t u : T} (h : Step t u) : (idsOf u).Perm (idsOf t) := by
  cases h with
  | mk i x l s pre j y lc sc ds post hds hrest =>
    have key : ∀ (D P Q : List Nat), (j :: (D ++ i :: (P ++ Q))).Perm (i :: (P ++ ((j :: D) ++ Q))) := by
      intro D P Q
      have h1 : (j :: (D ++ i :: (P ++ Q))).Perm (i :: ((j :: D) ++ (P ++ Q))) := by
        have := (List.perm_middle (a := i) (l₁ := j :: D) (l₂ := P ++ Q))
        simpa using this
      refine h1.trans (List.Perm.cons i ?_)
      rw [← List.append_assoc, ← List.append_assoc]
      exact List.Perm.append_right _ List.perm_append_comm
    have hnil : idsOfL [] = [] := rfl
    simp only [idsOf_node, idsOfL_append, idsOfL_cons, hnil, List.append_nil]
    simpa using key (idsOfL ds) (idsOfL pre) (idsOfL post)

theorem reach_ids {t r : T} (h : Reach t r) : (idsOf r).Perm (idsOf t) := by
  induction h with
  | refl _ => exact List.Perm.refl _
  | step st _ ih => exact ih.trans (step_ids st)

theorem childIds_sublist : ∀ cs : List T, (cs.map T.id).Sublist (idsOfL cs)
  | [] => List.Sublist.slnil
  | c :: cs => by
    rw [idsOfL_cons]
    cases c with
    | node i x l s ds =>
      simp only [List.map_cons, idsOf_node, T.id, List.cons_append]
      exact List.Sublist.cons_cons _ ((childIds_sublist cs).trans (List.sublist_append_right _ _))

mutual
theorem leaves_sublist_nodes : ∀ t : T, t.leaves.Sublist t.nodes
  | .node i x l s [] => by simp [T.leaves, T.nodes, T.nodesL]
  | .node i x l s (c :: cs) => by
    simp only [T.leaves, T.nodes]
    exact List.Sublist.cons _ (leavesL_sublist_nodesL (c :: cs))
theorem leavesL_sublist_nodesL : ∀ cs : List T, (T.leavesL cs).Sublist (T.nodesL cs)
  | [] => List.Sublist.slnil
  | c :: cs => by
    simp only [T.leavesL, T.nodesL]
    exact (leaves_sublist_nodes c).append (leavesL_sublist_nodesL cs)
end

theorem leafIds_nodup_of_ids {t : T} (h : (idsOf t).Nodup) : (leafIds t).Nodup :=
  ((leaves_sublist_nodes t).map T.id).nodup h

mutual
theorem parentOf_spec (og : Nat) : ∀ (t : T) (p : Nat), parentOf og t = some p → ∃ m ∈ t.nodes, m.id = p ∧ m.cs ≠ []
  | .node i x l s cs, p, h => by
    simp only [parentOf] at h
    rcases parentOfL_spec og i cs p h with ⟨hp, hne⟩ | ⟨m, hm, h1, h2⟩
    · exact ⟨.node i x l s cs, mem_nodes_self _, by simpa [T.id] using hp.symm, by simpa [T.cs] using hne⟩
    · exact ⟨m, by simp only [T.nodes]; exact List.mem_cons_of_mem _ hm, h1, h2⟩
theorem parentOfL_spec (og : Nat) (q : Nat) : ∀ (cs : List T) (p : Nat), parentOfL og q cs = some p →
    (p = q ∧ cs ≠ []) ∨ ∃ m ∈ T.nodesL cs, m.id = p ∧ m.cs ≠ []
  | [], _, h => by simp [parentOfL] at h
  | c :: cs, p, h => by
    simp only [parentOfL] at h
    split at h
    · cases h; exact Or.inl ⟨rfl, by simp⟩
    · split at h
      · rename_i r hr
        cases h
        obtain ⟨m, hm, h1, h2⟩ := parentOf_spec og c p hr
        exact Or.inr ⟨m, by simp only [T.nodesL]; exact List.mem_append_left _ hm, h1, h2⟩
      · rcases parentOfL_spec og q cs p h with ⟨hp, _⟩ | ⟨m, hm, h1, h2⟩
        · exact Or.inl ⟨hp, by simp⟩
        · exact Or.inr ⟨m, by simp only [T.nodesL]; exact List.mem_append_right _ hm, h1, h2⟩
end

/-- with distinct node ids, "the node with id `p`" is well defined: if one node with that id is internal, all are -/
theorem hint_of_ids {t : T} (hids : (idsOf t).Nodup) {p : Nat} {m : T} (hm : m ∈ t.nodes) (hp : m.id = p) (hne : m.cs ≠ []) :
    ∀ n ∈ t.nodes, n.id = p → n.cs ≠ [] := by
  intro n hn hnp
  have : n = m := List.inj_on_of_nodup_map hids hn hm (hnp.trans hp.symm)
  rw [this]; exact hne

theorem front_perm (og : Nat) : ∀ (cs : List T) (o : T), (cs.map T.id).Nodup → cs.find? (fun c => c.id == og) = some o →
    (o :: cs.filter (fun c => c.id != og)).Perm cs
  | [], _, _, h => by simp at h
  | c :: cs, o, hnd, h => by
    simp only [List.map_cons, List.nodup_cons] at hnd
    by_cases hc : c.id = og
    · have hb : (c.id == og) = true := by simpa using hc
      have hb' : (c.id != og) = false := by simp [hc]
      simp only [List.find?_cons, hb, Option.some.injEq] at h
      subst h
      have : (c :: cs).filter (fun c => c.id != og) = cs := by
        simp only [List.filter_cons, hb']
        apply List.filter_eq_self.mpr
        intro d hd
        have : d.id ≠ og := by
          intro hdo; exact hnd.1 (List.mem_map.mpr ⟨d, hd, hdo.trans hc.symm⟩)
        simpa using this
      rw [this]
    · have hb : (c.id == og) = false := by simpa using hc
      have hb' : (c.id != og) = true := by simp [hc]
      simp only [List.find?_cons, hb] at h
      have ih := front_perm og cs o hnd.2 h
      have : (c :: cs).filter (fun c => c.id != og) = c :: cs.filter (fun c => c.id != og) := by
        simp only [List.filter_cons, hb']; rfl
      rw [this]
      exact (List.Perm.swap c o _).trans (ih.cons c)

theorem mem_nodesL {n : T} : ∀ {cs : List T}, n ∈ T.nodesL cs ↔ ∃ c ∈ cs, n ∈ c.nodes
  | [] => by simp [T.nodesL]
  | d :: ds => by
    simp only [T.nodesL, List.mem_append, List.mem_cons, exists_eq_or_imp, mem_nodesL (cs := ds)]

/-- the clean-up of `to_outgroup_position` / `reseed_at`, whatever decides the collapse -/
theorem cleanup_gen (doC s : Bool) (t : T) (hwf : LenWF t) (hnd : (leafIds t).Nodup) :
    let t1 := if doC then collapseBasal t else t
    let r := if s then sup t1 else t1
    leafIds r = leafIds t ∧ totalQ r = totalQ t ∧ ∀ a b, pathLen r a b = pathLen t a b := by
  have R : RootInv t (if doC then collapseBasal t else t) := by
    split
    · exact collapse_inv t hwf hnd
    · exact ⟨rfl, rfl, fun _ _ => rfl, hwf⟩
  intro t1 r
  show leafIds (if s then sup t1 else t1) = _ ∧ totalQ (if s then sup t1 else t1) = _ ∧ ∀ a b, pathLen (if s then sup t1 else t1) a b = _
  cases s
  · simp only [Bool.false_eq_true, if_false]
    exact ⟨R.ids, R.total, R.paths⟩
  · simp only [if_true]
    have S := sup_inv t1 R.wf
    refine ⟨?_, S.total.trans R.total, ?_⟩
    · rw [leafIds_eq_leaves, S.leaves, ← leafIds_eq_leaves, R.ids]
    · intro a b; rw [pathLen_eq_dist, S.dist, ← pathLen_eq_dist, R.paths]

end DendroModel.C07.Aux

namespace DendroModel.C07
open DendroModel DendroModel.C07.Aux DendroModel.C07.Path

/-- **`to_outgroup_position` keeps the leaves, the total length and every leaf-to-leaf path length**, for every rooting flag
    and both `suppress_unifurcations` settings — every tree with distinct node ids, a seed with at least two children and
    well-formed fractions, every outgroup node (leaf or internal) other than the seed. -/
theorem to_outgroup_invariant (flag : Option Bool) (suppress : Bool) (og : Nat) (t : T) (r : T × Option Bool)
    (h : toOutgroup flag suppress og t = some r)
    (hids : (idsOf t).Nodup) (h2 : 2 ≤ t.cs.length) (hwf : LenWF t) : Keeps t r.1 := by
  have hnd : (leafIds t).Nodup := leafIds_nodup_of_ids hids
  unfold toOutgroup at h
  split at h
  · cases h
  · rename_i p hp
    obtain ⟨m, hm, hmp, hmne⟩ := parentOf_spec og t p hp
    have hint := hint_of_ids hids hm hmp hmne
    have hr := invert_is_chain p t hint h2
    obtain ⟨pl, tot, pth⟩ := reach_inv hr
    have pid : (leafIds (invertTo p t)).Perm (leafIds t) := pl.map T.id
    have hids2 : (idsOf (invertTo p t)).Nodup := (reach_ids hr).nodup_iff.mpr hids
    have hwf2 := reach_lenWF hr hwf
    have hnd2 : (leafIds (invertTo p t)).Nodup := pid.nodup_iff.mpr hnd
    split at h
    rename_i i x l s cs heq
    rw [heq] at pid hids2 hwf2 hnd2 tot pth
    split at h
    · cases h
    · rename_i o ho
      cases h
      -- the outgroup moved to the front of the root's child list
      have hchild : (cs.map T.id).Nodup := by
        rw [idsOf_node] at hids2
        exact (childIds_sublist cs).nodup (List.nodup_cons.mp hids2).2
      have P := front_perm og cs o hchild ho
      by_cases hcs : cs = []
      · subst hcs; simp at ho
      have hne' : o :: cs.filter (fun c => c.id != og) ≠ [] := by simp
      set cs' := o :: cs.filter (fun c => c.id != og) with hcs'
      have hl2 : leafIds (T.node i x l s cs') = leavesL (toLTL cs') := leafIds_eq_LT _ (by simpa [T.cs] using hne')
      have hl1 : leafIds (T.node i x l s cs) = leavesL (toLTL cs) := leafIds_eq_LT _ (by simpa [T.cs] using hcs)
      have lp : (leafIds (T.node i x l s cs')).Perm (leafIds (T.node i x l s cs)) := by
        rw [hl2, hl1]; exact leavesL_perm_LT (toLTL_perm P)
      have hnd3 : (leafIds (T.node i x l s cs')).Nodup := lp.nodup_iff.mpr hnd2
      have hwf3 : LenWF (T.node i x l s cs') := by
        intro n hn f hf
        simp only [T.nodes, List.mem_cons] at hn
        rcases hn with rfl | hn
        · exact hwf2 (T.node i x l s cs) (mem_nodes_self _) f (by simpa [T.len] using hf)
        · obtain ⟨c, hc, hnc⟩ := mem_nodesL.mp hn
          exact hwf2 n (by simp only [T.nodes]; exact List.mem_cons_of_mem _ (mem_nodesL.mpr ⟨c, P.mem_iff.mp hc, hnc⟩)) f hf
      have paths3 : ∀ a b, pathLen (T.node i x l s cs') a b = pathLen (T.node i x l s cs) a b := by
        intro a b
        simp only [pathLen, T.cs]
        exact distL_perm (toLTL_perm P) (by rw [← hl2]; exact hnd3) a b
      have tot3 : totalQ (T.node i x l s cs') = totalQ (T.node i x l s cs) := by
        simp only [totalQ, totalQL_perm P]
      obtain ⟨c1, c2, c3⟩ := cleanup_gen (sisterCollapses (unrootedFlag flag) cs') suppress (T.node i x l s cs') hwf3 hnd3
      refine ⟨?_, ?_, ?_⟩
      · show (leafIds (if suppress = true then sup _ else _)).Perm _
        rw [c1]; exact lp.trans pid
      · show totalQ (if suppress = true then sup _ else _) = _
        rw [c2, tot3, tot]
      · intro a b ha hb
        show pathLen (if suppress = true then sup _ else _) a b = _
        rw [c3, paths3, pth hnd a b ha hb]

example : ∃ r, toOutgroup (some false) true 4 exTree = some r ∧ (idsOf exTree).Nodup ∧ 2 ≤ exTree.cs.length := ⟨_, rfl, by decide, by decide⟩

end DendroModel.C07

namespace DendroModel.C07.Aux
open DendroModel DendroModel.C07 DendroModel.C07.Path

theorem splitEdgeL_eq_map (h nw : Nat) (lT lH : Option Frac) : ∀ cs : List T,
    splitEdgeL h nw lT lH cs = cs.map (splitEdge h nw lT lH)
  | [] => by simp [splitEdgeL]
  | c :: cs => by simp [splitEdgeL, splitEdgeL_eq_map h nw lT lH cs]

theorem idsOf_child_nodup {cs : List T} (hnd : (idsOfL cs).Nodup) {c : T} (hc : c ∈ cs) : (idsOf c).Nodup := by
  induction cs with
  | nil => simp at hc
  | cons d ds ih =>
    rw [idsOfL_cons] at hnd
    rcases List.mem_cons.mp hc with rfl | h
    · exact (List.nodup_append.mp hnd).1
    · exact ih (List.nodup_append.mp hnd).2.1 h

theorem mem_idsOf_of_mem_nodes {t n : T} (h : n ∈ t.nodes) : n.id ∈ idsOf t := List.mem_map.mpr ⟨n, h, rfl⟩

/-- everything the edge split keeps or guarantees, node by node (`lT + lH` = the length of the split edge) -/
structure SplitOK (h nw : Nat) (lT lH : Option Frac) (t r : T) : Prop where
  perm : PermInv t r
  total : totalQ r = totalQ t
  wf : LenWF r
  len : r.len = t.len
  id : r.id = t.id
  ncs : r.cs.length = t.cs.length
  fresh : ∀ n ∈ r.nodes, n.id = nw → ∃ c ∈ t.nodes, c.id = h ∧ n = .node nw none lT none [c.withLen lH]

theorem nodes_withLen (c : T) (m : Option Frac) : ∀ n ∈ (c.withLen m).nodes, n = c.withLen m ∨ n ∈ T.nodesL c.cs := by
  cases c with
  | node i x l s cs => intro n hn; simpa [T.withLen, T.nodes, T.cs] using hn

theorem splitEdge_ok (h nw : Nat) (lT lH : Option Frac) (hlT : OWF lT) (hlH : OWF lH) :
    ∀ (k : Nat) (t : T), t.size ≤ k → (idsOf t).Nodup → nw ∉ idsOf t → LenWF t →
      (∀ c ∈ t.nodes, c.id = h → lenQ lT + lenQ lH = lenQ c.len) → SplitOK h nw lT lH t (splitEdge h nw lT lH t)
  | 0, .node i x l s cs, hk, _, _, _, _ => by simp [T.size] at hk
  | k + 1, .node i x l s cs, hk, hids, hfr, hwf, hsum => by
    have hleaf : (leaves (toLT (.node i x l s cs))).Nodup := by
      rw [← leafIds_eq_leaves]; exact leafIds_nodup_of_ids hids
    rw [idsOf_node] at hids hfr
    have hidsL := (List.nodup_cons.mp hids).2
    have hi : i ≠ nw := fun e => hfr (by simp [e])
    have hfrL : nw ∉ idsOfL cs := fun e => hfr (List.mem_cons_of_mem _ e)
    rw [splitEdge]
    split
    · -- the head is a child of this node
      rename_i c hc
      have hcmem : c ∈ cs := List.mem_of_find?_eq_some hc
      have hcid : c.id = h := by simpa using List.find?_some hc
      have hcs : cs ≠ [] := by intro e; subst e; simp at hc
      have P := front_perm h cs c ((childIds_sublist cs).nodup hidsL) hc
      set rest := cs.filter (fun c => c.id != h) with hrest
      set N : T := .node nw none lT none [c.withLen lH] with hN
      have hcnode : c ∈ T.nodes (.node i x l s cs) := by
        simp only [T.nodes]; exact List.mem_cons_of_mem _ (mem_nodesL.mpr ⟨c, hcmem, mem_nodes_self c⟩)
      have hlen := hsum c hcnode hcid
      have hwc : LenWF c := lenWF_child hwf hcmem
      -- N behaves like c
      have hNdown : ∀ a, down (toLT N) a = down (toLT c) a := by
        intro a
        simp only [hN, toLT, toLTL, Path.down, downL_single, down_withLen, Option.map_map]
        cases down (toLT c) a with
        | none => rfl
        | some d => simp only [Option.map_some, Function.comp, Option.some.injEq]; linarith
      have hNdist : ∀ a b, Path.dist (toLT N) a b = Path.dist (toLT c) a b := by
        intro a b; simp only [hN, toLT, toLTL, Path.dist, distL_single, dist_withLen]
      have hNleaves : leaves (toLT N) = leaves (toLT c) := by
        simp only [hN, toLT, toLTL, Path.leaves, Path.leavesL, leaves_withLen, List.append_nil]
      have hne1 : rest ++ [N] ≠ [] := by simp
      -- lists: rest ++ [N]  ~  N :: rest  ≈  c :: rest  ~  cs
      have p1 : (toLTL (rest ++ [N])).Perm (toLTL (N :: rest)) := toLTL_perm (by simpa using List.perm_append_comm)
      have p2 : (toLTL (c :: rest)).Perm (toLTL cs) := toLTL_perm P
      rw [toLT_node_ne hcs] at hleaf
      simp only [Path.leaves] at hleaf
      have nd2 : (leavesL (toLTL (c :: rest))).Nodup := (leavesL_perm_LT p2).nodup_iff.mpr hleaf
      have nd1' : (leavesL (toLTL (N :: rest))).Nodup := by
        simp only [toLTL, leavesL, hNleaves] at nd2 ⊢; exact nd2
      have nd1 : (leavesL (toLTL (rest ++ [N]))).Nodup := (leavesL_perm_LT p1).nodup_iff.mpr nd1'
      have eD : ∀ a, downL (toLTL (rest ++ [N])) a = downL (toLTL cs) a := by
        intro a
        rw [downL_perm p1 nd1 a, ← downL_perm p2 nd2 a]
        simp only [toLTL, downL, hNdown]
      have eT : ∀ a b, distL (toLTL (rest ++ [N])) a b = distL (toLTL cs) a b := by
        intro a b
        rw [distL_perm p1 nd1 a b, ← distL_perm p2 nd2 a b]
        simp only [toLTL, distL, hNdown, hNdist]
      have eL : (leavesL (toLTL (rest ++ [N]))).Perm (leavesL (toLTL cs)) := by
        refine (leavesL_perm_LT p1).trans (List.Perm.trans ?_ (leavesL_perm_LT p2))
        simp only [toLTL, leavesL, hNleaves]; exact List.Perm.refl _
      refine ⟨⟨?_, ?_, ?_⟩, ?_, ?_, rfl, rfl, ?_, ?_⟩
      · intro a; rw [toLT_node_ne hne1, toLT_node_ne hcs]; simp only [Path.down, eD]
      · intro a b; rw [toLT_node_ne hne1, toLT_node_ne hcs]; simp only [Path.dist, eT]
      · rw [toLT_node_ne hne1, toLT_node_ne hcs]; simp only [Path.leaves]; exact eL
      · simp only [totalQ, totalQL_append, totalQL, hN, totalQ_withLen]
        rw [← totalQL_perm P]; simp only [totalQL]; linarith
      · -- LenWF
        intro n hn f hf
        simp only [hN, T.nodes, nodesL_append, T.nodesL, List.append_nil, List.mem_cons, List.mem_append] at hn
        rcases hn with rfl | hn | rfl | hn
        · exact hwf _ (mem_nodes_self _) f (by simpa [T.len] using hf)
        · obtain ⟨d, hd, hnd'⟩ := mem_nodesL.mp hn
          have hd' : d ∈ cs := (List.mem_filter.mp hd).1
          exact hwf n (by simp only [T.nodes]; exact List.mem_cons_of_mem _ (mem_nodesL.mpr ⟨d, hd', hnd'⟩)) f hf
        · exact hlT f (by simpa [T.len] using hf)
        · rcases nodes_withLen c lH n hn with rfl | hn
          · cases c with
            | node j y lc sc ds => exact hlH f (by simpa [T.withLen, T.len] using hf)
          · exact hwc n (by cases c with | node j y lc sc ds => simp only [T.nodes]; exact List.mem_cons_of_mem _ hn) f hf
      · simp only [T.cs, List.length_append, List.length_singleton]
        have := P.length_eq; simp only [List.length_cons] at this; omega
      · -- fresh id
        intro n hn hnid
        simp only [hN, T.nodes, nodesL_append, T.nodesL, List.append_nil, List.mem_cons, List.mem_append] at hn
        rcases hn with rfl | hn | rfl | hn
        · exact absurd hnid hi
        · obtain ⟨d, hd, hnd'⟩ := mem_nodesL.mp hn
          have hd' : d ∈ cs := (List.mem_filter.mp hd).1
          have : n.id ∈ idsOfL cs := List.mem_map.mpr ⟨n, mem_nodesL.mpr ⟨d, hd', hnd'⟩, rfl⟩
          exact absurd (hnid ▸ this) hfrL
        · exact ⟨c, hcnode, hcid, rfl⟩
        · have hcin : ∀ m ∈ c.nodes, m.id ∈ idsOfL cs := fun m hm =>
            List.mem_map.mpr ⟨m, mem_nodesL.mpr ⟨c, hcmem, hm⟩, rfl⟩
          rcases nodes_withLen c lH n hn with rfl | hn
          · have : (c.withLen lH).id = c.id := by cases c; rfl
            exact absurd ((this ▸ hnid) ▸ hcin c (mem_nodes_self c)) hfrL
          · have : n ∈ c.nodes := by cases c with | node j y lc sc ds => simp only [T.nodes]; exact List.mem_cons_of_mem _ hn
            exact absurd (hnid ▸ hcin n this) hfrL
    · -- look further down
      rw [splitEdgeL_eq_map]
      have ih : ∀ d ∈ cs, SplitOK h nw lT lH d (splitEdge h nw lT lH d) := fun d hd =>
        splitEdge_ok h nw lT lH hlT hlH k d (by have := size_lt_of_mem hd; simp only [T.size] at hk; omega)
          (idsOf_child_nodup hidsL hd)
          (fun e => hfrL (List.mem_map.mpr (by
            obtain ⟨m, hm, hme⟩ := List.mem_map.mp e
            exact ⟨m, mem_nodesL.mpr ⟨d, hd, hm⟩, hme⟩)))
          (lenWF_child hwf hd)
          (fun c hc => hsum c (by simp only [T.nodes]; exact List.mem_cons_of_mem _ (mem_nodesL.mpr ⟨d, hd, hc⟩)))
      obtain ⟨m1, m2, m3⟩ := map_permInv (splitEdge h nw lT lH) cs (fun d hd => (ih d hd).perm)
      have mt : totalQL (cs.map (splitEdge h nw lT lH)) = totalQL cs := totalQL_map _ cs (fun d hd => (ih d hd).total)
      by_cases hcs : cs = []
      · subst hcs
        refine ⟨⟨fun _ => rfl, fun _ _ => rfl, List.Perm.refl _⟩, rfl, ?_, rfl, rfl, rfl, ?_⟩
        · simpa using hwf
        · intro n hn hnid
          simp only [List.map_nil, T.nodes, T.nodesL, List.mem_singleton] at hn
          subst hn; exact absurd hnid hi
      · have hne : cs.map (splitEdge h nw lT lH) ≠ [] := by simpa using hcs
        refine ⟨⟨?_, ?_, ?_⟩, ?_, ?_, rfl, rfl, by simp [T.cs], ?_⟩
        · intro a; rw [toLT_node_ne hne, toLT_node_ne hcs]; simp only [Path.down, m1]
        · intro a b; rw [toLT_node_ne hne, toLT_node_ne hcs]; simp only [Path.dist, m2]
        · rw [toLT_node_ne hne, toLT_node_ne hcs]; simp only [Path.leaves]; exact m3
        · simp only [totalQ, mt]
        · intro n hn f hf
          simp only [T.nodes, List.mem_cons] at hn
          rcases hn with rfl | hn
          · exact hwf _ (mem_nodes_self _) f (by simpa [T.len] using hf)
          · obtain ⟨d', hd', hnd'⟩ := mem_nodesL.mp hn
            obtain ⟨d, hd, rfl⟩ := List.mem_map.mp hd'
            exact (ih d hd).wf n hnd' f hf
        · intro n hn hnid
          simp only [T.nodes, List.mem_cons] at hn
          rcases hn with rfl | hn
          · exact absurd hnid hi
          · obtain ⟨d', hd', hnd'⟩ := mem_nodesL.mp hn
            obtain ⟨d, hd, rfl⟩ := List.mem_map.mp hd'
            obtain ⟨c, hc, h1, h2⟩ := (ih d hd).fresh n hnd' hnid
            exact ⟨c, by simp only [T.nodes]; exact List.mem_cons_of_mem _ (mem_nodesL.mpr ⟨d, hd, hc⟩), h1, h2⟩

end DendroModel.C07.Aux

namespace DendroModel.C07.Aux
open DendroModel DendroModel.C07 DendroModel.C07.Path

theorem containsL_append (x : Nat) (a b : List T) : containsL x (a ++ b) = (containsL x a || containsL x b) := by
  induction a with
  | nil => simp [containsL]
  | cons c cs ih => simp [containsL, ih, Bool.or_assoc]

theorem containsL_of_mem (x : Nat) : ∀ {cs : List T} {c : T}, c ∈ cs → contains x c = true → containsL x cs = true
  | [], _, h, _ => by simp at h
  | d :: ds, c, h, hc => by
    simp only [containsL, Bool.or_eq_true]
    rcases List.mem_cons.mp h with rfl | h
    · exact Or.inl hc
    · exact Or.inr (containsL_of_mem x h hc)

theorem parentOfL_none_find (h q : Nat) : ∀ (cs : List T) (p : Nat), cs.find? (fun c => c.id == h) = none →
    parentOfL h q cs = some p → ∃ d ∈ cs, parentOf h d = some p
  | [], _, _, hp => by simp [parentOfL] at hp
  | c :: cs, p, hf, hp => by
    simp only [List.find?_cons] at hf
    split at hf
    · cases hf
    · rename_i hb
      simp only [parentOfL, hb, Bool.false_eq_true, if_false] at hp
      split at hp
      · rename_i r hr; cases hp; exact ⟨c, List.mem_cons_self .., hr⟩
      · obtain ⟨d, hd, hdp⟩ := parentOfL_none_find h q cs p hf hp
        exact ⟨d, List.mem_cons_of_mem _ hd, hdp⟩

/-- the edge split does insert the new node when the head has a parent -/
theorem splitEdge_contains (h nw : Nat) (lT lH : Option Frac) : ∀ (k : Nat) (t : T) (p : Nat), t.size ≤ k →
    parentOf h t = some p → contains nw (splitEdge h nw lT lH t) = true
  | 0, .node i x l s cs, _, hk, _ => by simp [T.size] at hk
  | k + 1, .node i x l s cs, p, hk, hp => by
    rw [splitEdge]
    split
    · simp [contains, containsL_append, containsL]
    · rename_i hnone
      simp only [parentOf] at hp
      obtain ⟨d, hd, hdp⟩ := parentOfL_none_find h i cs p hnone hp
      have ih := splitEdge_contains h nw lT lH k d p (by have := size_lt_of_mem hd; simp only [T.size] at hk; omega) hdp
      simp only [contains, Bool.or_eq_true]
      right
      rw [splitEdgeL_eq_map]
      exact containsL_of_mem nw (List.mem_map.mpr ⟨d, hd, rfl⟩) ih

/-- with a fresh id, the only node carrying it after the split is the inserted one — for ANY two lengths -/
theorem splitEdge_fresh (h nw : Nat) (lT lH : Option Frac) :
    ∀ (k : Nat) (t : T), t.size ≤ k → nw ∉ idsOf t →
      (splitEdge h nw lT lH t).id = t.id ∧
      ∀ n ∈ (splitEdge h nw lT lH t).nodes, n.id = nw → ∃ c ∈ t.nodes, c.id = h ∧ n = .node nw none lT none [c.withLen lH]
  | 0, .node i x l s cs, hk, _ => by simp [T.size] at hk
  | k + 1, .node i x l s cs, hk, hfr => by
    rw [idsOf_node] at hfr
    have hi : i ≠ nw := fun e => hfr (by simp [e])
    have hfrL : nw ∉ idsOfL cs := fun e => hfr (List.mem_cons_of_mem _ e)
    rw [splitEdge]
    split
    · rename_i c hc
      have hcmem : c ∈ cs := List.mem_of_find?_eq_some hc
      have hcid : c.id = h := by simpa using List.find?_some hc
      have hcnode : c ∈ T.nodes (.node i x l s cs) := by
        simp only [T.nodes]; exact List.mem_cons_of_mem _ (mem_nodesL.mpr ⟨c, hcmem, mem_nodes_self c⟩)
      refine ⟨rfl, ?_⟩
      intro n hn hnid
      simp only [T.nodes, nodesL_append, T.nodesL, List.append_nil, List.mem_cons, List.mem_append] at hn
      rcases hn with rfl | hn | rfl | hn
      · exact absurd hnid hi
      · obtain ⟨d, hd, hnd'⟩ := mem_nodesL.mp hn
        have hd' : d ∈ cs := (List.mem_filter.mp hd).1
        have : n.id ∈ idsOfL cs := List.mem_map.mpr ⟨n, mem_nodesL.mpr ⟨d, hd', hnd'⟩, rfl⟩
        exact absurd (hnid ▸ this) hfrL
      · exact ⟨c, hcnode, hcid, rfl⟩
      · have hcin : ∀ m ∈ c.nodes, m.id ∈ idsOfL cs := fun m hm =>
          List.mem_map.mpr ⟨m, mem_nodesL.mpr ⟨c, hcmem, hm⟩, rfl⟩
        rcases nodes_withLen c lH n hn with rfl | hn
        · have : (c.withLen lH).id = c.id := by cases c; rfl
          exact absurd ((this ▸ hnid) ▸ hcin c (mem_nodes_self c)) hfrL
        · have : n ∈ c.nodes := by cases c with | node j y lc sc ds => simp only [T.nodes]; exact List.mem_cons_of_mem _ hn
          exact absurd (hnid ▸ hcin n this) hfrL
    · rw [splitEdgeL_eq_map]
      refine ⟨rfl, ?_⟩
      intro n hn hnid
      simp only [T.nodes, List.mem_cons] at hn
      rcases hn with rfl | hn
      · exact absurd hnid hi
      · obtain ⟨d', hd', hnd'⟩ := mem_nodesL.mp hn
        obtain ⟨d, hd, rfl⟩ := List.mem_map.mp hd'
        have ih := splitEdge_fresh h nw lT lH k d (by have := size_lt_of_mem hd; simp only [T.size] at hk; omega)
          (fun e => hfrL (List.mem_map.mpr (by
            obtain ⟨m, hm, hme⟩ := List.mem_map.mp e
            exact ⟨m, mem_nodesL.mpr ⟨d, hd, hm⟩, hme⟩)))
        obtain ⟨c, hc, h1, h2⟩ := ih.2 n hnd' hnid
        exact ⟨c, by simp only [T.nodes]; exact List.mem_cons_of_mem _ (mem_nodesL.mpr ⟨d, hd, hc⟩), h1, h2⟩

end DendroModel.C07.Aux

namespace DendroModel.C07
open DendroModel DendroModel.C07.Aux DendroModel.C07.Path

theorem Keeps.trans {t u r : T} (h1 : Keeps t u) (h2 : Keeps u r) : Keeps t r :=
  ⟨h2.ids.trans h1.ids, h2.total.trans h1.total, fun a b ha hb => by
    rw [h2.paths a b (h1.ids.mem_iff.mpr ha) (h1.ids.mem_iff.mpr hb), h1.paths a b ha hb]⟩

/-- **`reroot_at_edge(edge, length1, length2)` with `length1 + length2` = the edge's length keeps the leaves, the total
    length and every leaf-to-leaf path length**, for both `suppress_unifurcations` settings — every tree with distinct node
    ids, a seed with at least two children and well-formed fractions; `nw` (the id of the inserted node) fresh.
    (When no node has id `h`, or `h` is the seed, `splitEdge` changes nothing, `nw` does not occur and the statement reduces to
    the invariance of the clean-up; the driver refuses such inputs with `bad-target`.) -/
theorem reroot_at_edge_invariant (s : Bool) (h nw : Nat) (l1 l2 : Option Frac) (t : T)
    (hids : (idsOf t).Nodup) (hfresh : nw ∉ idsOf t) (h2 : 2 ≤ t.cs.length) (hwf : LenWF t) (hl1 : OWF l1) (hl2 : OWF l2)
    (hsum : ∀ c ∈ t.nodes, c.id = h → lenQ l1 + lenQ l2 = lenQ c.len) :
    Keeps t (rerootAtEdge s h nw l1 l2 t).1 := by
  have S := splitEdge_ok h nw l1 l2 hl1 hl2 t.size t (Nat.le_refl _) hids hfresh hwf hsum
  have hintu : ∀ n ∈ (splitEdge h nw l1 l2 t).nodes, n.id = nw → n.cs ≠ [] := by
    intro n hn hid
    obtain ⟨c, _, _, e⟩ := S.fresh n hn hid
    rw [e]; simp [T.cs]
  have h2u : 2 ≤ (splitEdge h nw l1 l2 t).cs.length := by rw [S.ncs]; exact h2
  have hndu : (leafIds (splitEdge h nw l1 l2 t)).Nodup := by
    rw [leafIds_eq_leaves]
    exact S.perm.leaves.nodup_iff.mpr (by rw [← leafIds_eq_leaves]; exact leafIds_nodup_of_ids hids)
  exact (keeps_of_permInv S.perm S.total).trans
    (reseed_invariant_full none false s nw (splitEdge h nw l1 l2 t) hintu h2u S.wf hndu)

/-- **clause (c): after `reroot_at_edge(edge, length1, length2)` (no suppression) the root is the inserted node, its two
    children are the old head with edge length `length2` and, last, the old tail with edge length `length1`** — for ANY two
    lengths, every tree, every edge whose head has a parent; `nw` fresh.
    `_partial`: stated for `suppress_unifurcations=False` only (the library default is True: then a tail left with one child is
    spliced out and its edge merged, so this shape claim does not lift; the form that survives suppression is
    `reroot_at_edge_root_distances` below). -/
theorem reroot_at_edge_position_partial (h nw : Nat) (l1 l2 : Option Frac) (t : T) (p : Nat)
    (hfresh : nw ∉ idsOf t) (hpar : parentOf h t = some p) :
    (rerootAtEdge false h nw l1 l2 t).1.id = nw ∧
    ∃ c ∈ t.nodes, c.id = h ∧ ∃ up, (rerootAtEdge false h nw l1 l2 t).1.cs = [c.withLen l2, up] ∧ up.len = l1 := by
  have F := splitEdge_fresh h nw l1 l2 t.size t (Nat.le_refl _) hfresh
  have hc := splitEdge_contains h nw l1 l2 t.size t p (Nat.le_refl _) hpar
  have hne : (splitEdge h nw l1 l2 t).id ≠ nw := by
    rw [F.1]; intro e; exact hfresh (e ▸ mem_idsOf_of_mem_nodes (mem_nodes_self t))
  have e : (rerootAtEdge false h nw l1 l2 t).1 = invertTo nw (splitEdge h nw l1 l2 t) := by
    simp [rerootAtEdge, rerootAtNode, reseedAt, cleanup]
  rw [e]
  refine ⟨(reseed_root_is_target nw _ hc).1, ?_⟩
  obtain ⟨n, hn, hid, up, hcs, hlen⟩ := reseed_root_shape nw _ hne hc
  have hn' : n ∈ (splitEdge h nw l1 l2 t).nodes := by
    cases hs : splitEdge h nw l1 l2 t with
    | node i x l s cs => rw [hs] at hn; simp only [T.nodes, T.cs] at hn ⊢; exact List.mem_cons_of_mem _ hn
  obtain ⟨c, hcm, hch, hnN⟩ := F.2 n hn' hid
  subst hnN
  exact ⟨c, hcm, hch, up, by simpa [T.cs] using hcs, by simpa [T.len] using hlen⟩

example : ∃ p, parentOf 4 exTree = some p ∧ 5 ∉ idsOf exTree := ⟨0, by decide, by decide⟩
example : (rerootAtEdge false 4 5 (some ⟨1, 2⟩) (some ⟨3, 2⟩) exTree).1.id = 5 := by decide

end DendroModel.C07

namespace DendroModel.C07.Aux
open DendroModel DendroModel.C07 DendroModel.C07.Path

theorem midWalk_wf : ∀ (w : List (Nat × Frac × Nat)) (plen : Frac) (nd : Nat) (x : Frac),
    plen.WF → midWalk w plen = .onEdge nd x → x.WF
  | [], _, _, _, _, h => by simp [midWalk] at h
  | (n0, l, par) :: rest, plen, nd, x, hp, h => by
    simp only [midWalk] at h
    split at h
    · cases h; exact hp
    · split at h
      · exact midWalk_wf rest (plen - l) nd x (Frac.sub_wf _ _) h
      · cases h

theorem midpointOf_edge_wf (a b : Nat) (t : T) (hd : Nat) (x : Frac) (h : midpointOf a b t = .onEdge hd x) : x.WF := by
  unfold midpointOf at h
  repeat' (first
    | exact midWalk_wf _ _ hd x (Frac.half_wf _) h
    | (cases h; done)
    | (dsimp only at h; done)
    | dsimp only at h
    | split at h)

end DendroModel.C07.Aux

namespace DendroModel.C07.Aux
open DendroModel DendroModel.C07 DendroModel.C07.Path

/-- **`reroot_at_midpoint` keeps the leaves, the total length and every leaf-to-leaf path length**, both
    `suppress_unifurcations` settings, whichever pair of leaves it was handed — every tree with distinct node ids, a seed
    with at least two children, well-formed fractions; `nw` fresh.
    Auxiliary form: one fact about the walk is a hypothesis here (`hnode`, discharged in `reroot_at_midpoint_invariant`): when the walk answers "exactly at node `nd`",
    that node is internal (it is the parent end of an edge of the deeper leaf's root path, so it always is; deriving it from
    `rootPath`/`upList` is what is missing).  The in-edge branch is fully proved: the two sub-edge lengths the model assigns
    sum to the length of the split edge. -/
theorem reroot_at_midpoint_invariant_of_node (s : Bool) (a b nw : Nat) (t : T) (r : T × Option Bool)
    (h : rerootAtMidpoint s a b nw t = some r)
    (hids : (idsOf t).Nodup) (hfresh : nw ∉ idsOf t) (h2 : 2 ≤ t.cs.length) (hwf : LenWF t)
    (hnode : ∀ nd, midpointOf a b t = .onNode nd → ∃ m ∈ t.nodes, m.id = nd ∧ m.cs ≠ []) :
    Keeps t r.1 := by
  unfold rerootAtMidpoint at h
  split at h
  · cases h
  · rename_i nd hmid
    cases h
    obtain ⟨m, hm, hmid', hmne⟩ := hnode nd hmid
    exact reseed_invariant_full none false s nd t (hint_of_ids hids hm hmid' hmne) h2 hwf (leafIds_nodup_of_ids hids)
  · rename_i hd x hmid
    split at h
    · cases h
    · rename_i hn hfind
      cases h
      have hx : x.WF := midpointOf_edge_wf a b t hd x hmid
      obtain ⟨hnmem, hnid⟩ := find_mem hd t hn hfind
      have hlw : (lenOr0 hn.len).WF := by
        cases hl : hn.len with
        | none => exact Frac.zero_wf
        | some f => exact hwf hn hnmem f hl
      have hsum : ∀ c ∈ t.nodes, c.id = hd → lenQ (some (lenOr0 hn.len - x)) + lenQ (some x) = lenQ c.len := by
        intro c hc hcid
        have : c = hn := List.inj_on_of_nodup_map hids hc hnmem (hcid.trans hnid.symm)
        subst this
        have e1 : lenQ (some (lenOr0 c.len - x)) = (lenOr0 c.len).toRat - x.toRat := Frac.sub_toRat hlw hx
        have e2 : (lenOr0 c.len).toRat = lenQ c.len := by
          cases hl : c.len with
          | none => simp [lenOr0, lenQ, Frac.zero_toRat]
          | some f => simp [lenOr0, lenQ, Frac.toRat]
        rw [e1, e2]; simp [lenQ, Frac.toRat]
      exact reroot_at_edge_invariant s hd nw (some (lenOr0 hn.len - x)) (some x) t hids hfresh h2 hwf
        (fun f hf => by cases hf; exact Frac.sub_wf _ _) (fun f hf => by cases hf; exact hx) hsum

end DendroModel.C07.Aux

namespace DendroModel.C07
open DendroModel DendroModel.C07.Aux DendroModel.C07.Path

/-- **`randomly_reorient` keeps the leaves, the total length and every leaf-to-leaf path length**, whichever node and
    shuffles the rng produced, every rooting flag — every tree with distinct node ids, a seed with at least two children and
    well-formed fractions.  (Both branches: a leaf pick goes through `to_outgroup_position`, any other through `reseed_at`
    with the default clean-up; then `randomly_rotate`.) -/
theorem reorient_invariant (flag : Option Bool) (pick : Nat) (rank : Nat → Nat) (t : T) (r : T × Option Bool)
    (h : reorient flag pick rank t = some r)
    (hids : (idsOf t).Nodup) (h2 : 2 ≤ t.cs.length) (hwf : LenWF t) : Keeps t r.1 := by
  have hnd : (leafIds t).Nodup := leafIds_nodup_of_ids hids
  unfold reorient at h
  split at h
  · cases h
  · rename_i n hfind
    obtain ⟨hnmem, hnid⟩ := find_mem pick t n hfind
    split at h
    · cases ho : toOutgroup flag true pick t with
      | none => simp [ho] at h
      | some q =>
        simp only [ho, Option.map_some, Option.some.injEq] at h
        subst h
        have K1 := to_outgroup_invariant flag true pick t q ho hids h2 hwf
        exact K1.trans (rotate_invariant rank q.1 (K1.ids.nodup_iff.mpr hnd))
    · rename_i hcond
      simp only [Option.some.injEq] at h
      subst h
      have hint : ∀ m ∈ t.nodes, m.id = pick → m.cs ≠ [] := by
        by_cases hne : n.cs = []
        · have hp : pick = t.id := by
            by_contra hp
            apply hcond
            simp [hne, hp]
          have htne : t.cs ≠ [] := by intro e; rw [e] at h2; simp at h2
          exact hint_of_ids hids (mem_nodes_self t) hp.symm htne
        · exact hint_of_ids hids hnmem hnid hne
      have K1 := reseed_invariant_full flag true true pick t hint h2 hwf hnd
      exact K1.trans (rotate_invariant rank _ (K1.ids.nodup_iff.mpr hnd))

example : ∃ r, reorient (some false) 4 (fun i => 3 - i) exTree = some r ∧ (idsOf exTree).Nodup ∧ 2 ≤ exTree.cs.length :=
  ⟨_, rfl, by decide, by decide⟩
example : ∃ r, reorient (some false) 1 (fun i => i) exTree = some r := ⟨_, rfl⟩

end DendroModel.C07

namespace DendroModel.C07.Aux
open DendroModel DendroModel.C07 DendroModel.C07.Path

theorem midWalk_node_mem : ∀ (w : List (Nat × Frac × Nat)) (plen : Frac) (p : Nat),
    midWalk w plen = .onNode p → ∃ e ∈ w, e.2.2 = p
  | [], _, _, h => by simp [midWalk] at h
  | (n0, l, par) :: rest, plen, p, h => by
    simp only [midWalk] at h
    split at h
    · cases h
    · split at h
      · obtain ⟨e, he, hp⟩ := midWalk_node_mem rest _ p h
        exact ⟨e, List.mem_cons_of_mem _ he, hp⟩
      · cases h; exact ⟨_, List.mem_cons_self .., rfl⟩

theorem zip_parents : ∀ (p : List (Nat × Option Frac)) (m : Nat) (x : Nat × Option Frac) (par : Nat),
    (x, par) ∈ p.zip (m :: p.map (·.1)) → par = m ∨ par ∈ (p.map (·.1)).dropLast
  | [], _, _, _, h => by simp at h
  | e :: p', m, x, par, h => by
    simp only [List.map_cons, List.zip_cons_cons, List.mem_cons, Prod.mk.injEq] at h
    rcases h with ⟨_, rfl⟩ | h
    · exact Or.inl rfl
    · right
      have hne : p' ≠ [] := by intro e0; subst e0; simp at h
      have : (e.1 :: p'.map (·.1)).dropLast = e.1 :: (p'.map (·.1)).dropLast := by
        cases p' with
        | nil => exact absurd rfl hne
        | cons a as => simp
      rw [List.map_cons, this]
      rcases zip_parents p' e.1 x par h with rfl | h'
      · exact List.mem_cons_self ..
      · exact List.mem_cons_of_mem _ h'

theorem upList_par {m : Nat} {q : List (Nat × Option Frac)} {e : Nat × Frac × Nat} (h : e ∈ upList m q) :
    q ≠ [] ∧ (e.2.2 = m ∨ e.2.2 ∈ (q.map (·.1)).dropLast) := by
  simp only [upList, List.mem_reverse, List.mem_map] at h
  obtain ⟨⟨x, par⟩, hz, rfl⟩ := h
  refine ⟨by intro e0; subst e0; simp at hz, ?_⟩
  exact zip_parents q m x par hz

def Internal (t : T) (i : Nat) : Prop := ∃ m ∈ t.nodes, m.id = i ∧ m.cs ≠ []

mutual
theorem rootPath_internal (x : Nat) : ∀ (t : T) (p : List (Nat × Option Frac)), rootPath x t = some p →
    p ≠ [] ∧ ∀ i ∈ (p.map (·.1)).dropLast, Internal t i
  | .node j y l s cs, p, h => by
    simp only [rootPath] at h
    split at h
    · cases h; exact ⟨by simp, by simp⟩
    · split at h
      · rename_i p' hp'
        cases h
        obtain ⟨hne, hin⟩ := rootPathL_internal x cs p' hp'
        refine ⟨by simp, ?_⟩
        intro i hi
        have : ((j :: p'.map (·.1))).dropLast = j :: (p'.map (·.1)).dropLast := by
          cases p' with
          | nil => exact absurd rfl hne
          | cons a as => simp
        simp only [List.map_cons] at hi
        rw [this] at hi
        rcases List.mem_cons.mp hi with rfl | hi
        · refine ⟨.node i y l s cs, mem_nodes_self _, rfl, ?_⟩
          intro e0; simp only [T.cs] at e0; subst e0; simp [rootPathL] at hp'
        · obtain ⟨m, hm, h1, h2⟩ := hin i hi
          exact ⟨m, by simp only [T.nodes]; exact List.mem_cons_of_mem _ hm, h1, h2⟩
      · cases h
theorem rootPathL_internal (x : Nat) : ∀ (cs : List T) (p : List (Nat × Option Frac)), rootPathL x cs = some p →
    p ≠ [] ∧ ∀ i ∈ (p.map (·.1)).dropLast, ∃ m ∈ T.nodesL cs, m.id = i ∧ m.cs ≠ []
  | [], _, h => by simp [rootPathL] at h
  | c :: cs, p, h => by
    simp only [rootPathL] at h
    split at h
    · rename_i p' hp'
      cases h
      obtain ⟨hne, hin⟩ := rootPath_internal x c p hp'
      refine ⟨hne, fun i hi => ?_⟩
      obtain ⟨m, hm, h1, h2⟩ := hin i hi
      exact ⟨m, by simp only [T.nodesL]; exact List.mem_append_left _ hm, h1, h2⟩
    · obtain ⟨hne, hin⟩ := rootPathL_internal x cs p h
      refine ⟨hne, fun i hi => ?_⟩
      obtain ⟨m, hm, h1, h2⟩ := hin i hi
      exact ⟨m, by simp only [T.nodesL]; exact List.mem_append_right _ hm, h1, h2⟩
end

theorem dropCommon_spec : ∀ (p q : List (Nat × Option Frac)) (m0 : Nat),
    ∃ pre, p = pre ++ (dropCommon m0 p q).2.1 ∧ ((dropCommon m0 p q).1 = m0 ∨ (dropCommon m0 p q).1 ∈ pre.map (·.1))
  | [], q, m0 => ⟨[], by simp [dropCommon], Or.inl (by simp [dropCommon])⟩
  | (i, l) :: p, [], m0 => ⟨[], by simp [dropCommon], Or.inl (by simp [dropCommon])⟩
  | (i, l) :: p, (j, k) :: q, m0 => by
    by_cases hij : (i == j) = true
    · obtain ⟨pre, h1, h2⟩ := dropCommon_spec p q i
      refine ⟨(i, l) :: pre, ?_, ?_⟩
      · simp only [dropCommon, hij, if_true, List.cons_append]; rw [← h1]
      · simp only [dropCommon, hij, if_true, List.map_cons]
        right
        rcases h2 with h2 | h2
        · rw [h2]; exact List.mem_cons_self ..
        · exact List.mem_cons_of_mem _ h2
    · refine ⟨[], ?_, Or.inl ?_⟩ <;> simp [dropCommon, hij]

end DendroModel.C07.Aux

namespace DendroModel.C07.Aux
open DendroModel DendroModel.C07 DendroModel.C07.Path

theorem walk_node_internal (t : T) (x : Nat) (p q : List (Nat × Option Frac)) (m : Nat) (q1 q2 : List (Nat × Option Frac))
    (plen : Frac) (nd : Nat) (hp : rootPath x t = some p) (hdc : dropCommon t.id p q = (m, q1, q2)) (h2 : t.cs ≠ [])
    (h : midWalk (upList m q1) plen = .onNode nd) : Internal t nd := by
  obtain ⟨e, he, hnd⟩ := midWalk_node_mem _ _ _ h
  obtain ⟨hq1, hpar⟩ := upList_par he
  obtain ⟨_, hin⟩ := rootPath_internal x t p hp
  obtain ⟨pre, hpre, hm⟩ := dropCommon_spec p q t.id
  rw [hdc] at hpre hm
  simp only at hpre hm
  have hdl : (p.map (·.1)).dropLast = pre.map (·.1) ++ (q1.map (·.1)).dropLast := by
    rw [hpre, List.map_append, List.dropLast_append_of_ne_nil (by simpa using hq1)]
  have hroot : Internal t t.id := ⟨t, mem_nodes_self t, rfl, h2⟩
  rw [← hnd]
  rcases hpar with hpar | hpar
  · rw [hpar]
    rcases hm with hm | hm
    · rw [hm]; exact hroot
    · exact hin m (by rw [hdl]; exact List.mem_append_left _ hm)
  · exact hin _ (by rw [hdl]; exact List.mem_append_right _ hpar)

theorem midpointOf_node_internal (a b : Nat) (t : T) (nd : Nat) (h2 : t.cs ≠ []) (h : midpointOf a b t = .onNode nd) :
    Internal t nd := by
  unfold midpointOf at h
  split at h
  · cases h
  · dsimp only at h
    split at h
    · rename_i p0 p1 hp0 hp1
      split at h
      · exact walk_node_internal t _ p1 p0 _ _ _ _ nd hp1 rfl h2 h
      · exact walk_node_internal t _ p0 p1 _ _ _ _ nd hp0 rfl h2 h
    · cases h

end DendroModel.C07.Aux

namespace DendroModel.C07
open DendroModel DendroModel.C07.Aux DendroModel.C07.Path

/-- **`reroot_at_midpoint` keeps the leaves, the total length and every leaf-to-leaf path length** — both branches (midpoint
    inside an edge, midpoint exactly on a node), both `suppress_unifurcations` settings, whichever pair of leaves it was
    handed; every tree with distinct node ids, a seed with at least two children, well-formed fractions; `nw` fresh.
    No assumption about the walk is left: the node it returns is shown to be internal (`midpointOf_node_internal`). -/
theorem reroot_at_midpoint_invariant (s : Bool) (a b nw : Nat) (t : T) (r : T × Option Bool)
    (h : rerootAtMidpoint s a b nw t = some r)
    (hids : (idsOf t).Nodup) (hfresh : nw ∉ idsOf t) (h2 : 2 ≤ t.cs.length) (hwf : LenWF t) : Keeps t r.1 :=
  reroot_at_midpoint_invariant_of_node s a b nw t r h hids hfresh h2 hwf
    (fun nd hnd => midpointOf_node_internal a b t nd (by intro e; rw [e] at h2; simp at h2) hnd)

/-- unit-length `((A,B),C')` with the long edge to C: the midpoint of A–C falls inside C's edge -/
example : ∃ r, rerootAtMidpoint true 2 4 5 exTree = some r ∧ (idsOf exTree).Nodup ∧ 5 ∉ idsOf exTree := ⟨_, rfl, by decide, by decide⟩
/-- `((A:1,B:1):1,(C:1,D:1):1)`: the midpoint of A–C is exactly the seed (the on-node branch) -/
example : midpointOf 2 5 (.node 0 none none none
    [.node 1 none (some ⟨1, 1⟩) none [.node 2 (some 0) (some ⟨1, 1⟩) none [], .node 3 (some 1) (some ⟨1, 1⟩) none []],
     .node 4 none (some ⟨1, 1⟩) none [.node 5 (some 2) (some ⟨1, 1⟩) none [], .node 6 (some 3) (some ⟨1, 1⟩) none []]])
    = .onNode 0 := by decide

end DendroModel.C07

namespace DendroModel.C07.Aux
open DendroModel DendroModel.C07 DendroModel.C07.Path

mutual
theorem dist_isSome : ∀ (t : LT) (a b : Nat), a ≠ b → a ∈ leaves t → b ∈ leaves t → (Path.dist t a b).isSome
  | .leaf i l, a, b, hab, ha, hb => by
    simp only [Path.leaves, List.mem_singleton] at ha hb
    exact absurd (ha.trans hb.symm) hab
  | .node l cs, a, b, hab, ha, hb => by
    simp only [Path.leaves] at ha hb
    simp only [Path.dist]
    exact distL_isSome cs a b hab ha hb
theorem distL_isSome : ∀ (cs : List LT) (a b : Nat), a ≠ b → a ∈ leavesL cs → b ∈ leavesL cs → (distL cs a b).isSome
  | [], _, _, _, ha, _ => by simp [leavesL] at ha
  | c :: cs, a, b, hab, ha, hb => by
    simp only [leavesL, List.mem_append] at ha hb
    rw [distL_cons]
    cases hda : down c a with
    | some x =>
      have hac : a ∈ leaves c := mem_of_down_some hda
      cases hdb : down c b with
      | some y => exact dist_isSome c a b hab hac (mem_of_down_some hdb)
      | none =>
        have hbc : b ∉ leaves c := fun hm => by
          have := (down_some_iff c b).mpr hm; simp [hdb] at this
        have hb' : b ∈ leavesL cs := hb.resolve_left hbc
        obtain ⟨y, hy⟩ := get_down hb'
        simp [hy]
    | none =>
      have hac : a ∉ leaves c := fun hm => by
        have := (down_some_iff c a).mpr hm; simp [hda] at this
      have ha' : a ∈ leavesL cs := ha.resolve_left hac
      cases hdb : down c b with
      | some y =>
        obtain ⟨x, hx⟩ := get_down ha'
        simp [hx]
      | none =>
        have hbc : b ∉ leaves c := fun hm => by
          have := (down_some_iff c b).mpr hm; simp [hdb] at this
        exact distL_isSome cs a b hab ha' (hb.resolve_left hbc)
end

end DendroModel.C07.Aux

namespace DendroModel.C07
open DendroModel DendroModel.C07.Aux DendroModel.C07.Path

/-- the path length between two DIFFERENT leaves is defined (so the `paths` clause of `Keeps` is an equation between
    numbers, not `none = none`, for every pair of distinct leaves; for `a = b` both sides are `none`) -/
theorem pathLen_defined (t : T) (a b : Nat) (hab : a ≠ b) (ha : a ∈ leafIds t) (hb : b ∈ leafIds t) :
    (pathLen t a b).isSome := by
  rw [pathLen_eq_dist]
  rw [leafIds_eq_leaves] at ha hb
  exact dist_isSome _ a b hab ha hb

example : (pathLen exTree 2 4).isSome := pathLen_defined exTree 2 4 (by decide) (by decide) (by decide)

end DendroModel.C07

namespace DendroModel.C07.Aux
open DendroModel DendroModel.C07 DendroModel.C07.Path

theorem sup_root_of_two (i : Nat) (x : Option Nat) (l : Option Frac) (s : Option String) (c d : T) (cs : List T) :
    sup (.node i x l s (c :: d :: cs)) = .node i x l s (sup c :: sup d :: supL cs) := by
  rw [sup]; simp only [supL]

theorem leafIds_sup (t : T) (hwf : LenWF t) : leafIds (sup t) = leafIds t := by
  rw [leafIds_eq_leaves, (sup_inv t hwf).leaves, ← leafIds_eq_leaves]

theorem leafIds_withLen (c : T) (m : Option Frac) : leafIds (c.withLen m) = leafIds c := by
  rw [leafIds_eq_leaves, leaves_withLen, ← leafIds_eq_leaves]

theorem reach_two {t r : T} (h : Reach t r) (h2 : 2 ≤ t.cs.length) : 2 ≤ r.cs.length := by
  induction h with
  | refl _ => exact h2
  | step st _ ih =>
    apply ih
    cases st with
    | mk i x l s pre j y lc sc ds post hds hrest =>
      simp only [T.cs, List.length_append, List.length_singleton]
      have : 0 < ds.length := List.length_pos_of_ne_nil hds
      omega

/-- the first root child keeps its leaves through the clean-up of `to_outgroup_position` -/
theorem first_after_cleanup (i : Nat) (x : Option Nat) (l : Option Frac) (s : Option String) (o : T) (rest : List T)
    (uf sup? : Bool) (hrest : rest ≠ []) (hwf : LenWF (.node i x l s (o :: rest)))
    (hnd : (leafIds (.node i x l s (o :: rest))).Nodup) :
    ∃ first more, (if sup? then sup (if sisterCollapses uf (o :: rest) then collapseBasal (.node i x l s (o :: rest))
        else .node i x l s (o :: rest)) else (if sisterCollapses uf (o :: rest) then collapseBasal (.node i x l s (o :: rest))
        else .node i x l s (o :: rest))).cs = first :: more ∧ leafIds first = leafIds o := by
  -- step 1: the tree before suppression
  have step1 : ∃ o' d ds, (if sisterCollapses uf (o :: rest) then collapseBasal (.node i x l s (o :: rest))
        else .node i x l s (o :: rest)) = .node i x l s (o' :: d :: ds) ∧ leafIds o' = leafIds o ∧
        LenWF (.node i x l s (o' :: d :: ds)) := by
    by_cases hd : sisterCollapses uf (o :: rest) = true
    · simp only [hd, if_true]
      have W := (collapse_inv _ hwf hnd).wf
      match rest, hd, W with
      | [b], hd, W =>
        cases b with
        | node j y lb sb bs =>
        simp only [sisterCollapses, Bool.and_eq_true, decide_eq_true_eq, cs_node] at hd
        have hb2 : 2 ≤ bs.length := by simpa using hd.2
        match bs, hb2, W with
        | b1 :: b2 :: bs', hb2, W =>
          have e : collapseBasal (.node i x l s [o, .node j y lb sb (b1 :: b2 :: bs')]) =
              .node i x l s (o.withLen (mergeLen o.len lb) :: b1 :: b2 :: bs') := by
            simp [collapseBasal, T.cs, T.len]
          rw [e] at W ⊢
          exact ⟨_, _, _, rfl, leafIds_withLen _ _, W⟩
      | [], hd, _ => simp [sisterCollapses] at hd
      | _ :: _ :: _, hd, _ => simp [sisterCollapses] at hd
    · simp only [hd]
      match rest, hrest with
      | d :: ds, _ => exact ⟨o, d, ds, by simp, rfl, hwf⟩
  obtain ⟨o', d, ds, e, hl, W⟩ := step1
  rw [e]
  cases sup?
  · exact ⟨o', d :: ds, rfl, hl⟩
  · simp only [if_true]
    rw [sup_root_of_two]
    exact ⟨sup o', _, rfl, by rw [leafIds_sup o' (lenWF_child W (List.mem_cons_self ..)), hl]⟩

end DendroModel.C07.Aux

namespace DendroModel.C07.Aux
open DendroModel DendroModel.C07 DendroModel.C07.Path

/-- **clause (d) with the default `suppress_unifurcations=True`** (and without): after `to_outgroup_position` the FIRST child
    of the root spans exactly the leaves of the outgroup, for every rooting flag — `o` is the child with id `og` of the tree
    re-seeded at the outgroup's parent (with suppression a unary outgroup node may be replaced by its descendant in the same
    position, hence the leaf-set form).  Distinct node ids, seed with ≥ 2 children, well-formed fractions.
    Auxiliary form: `o` is identified as a root child of `invertTo p t`; `outgroup_first_leafset` (end of this file) traces it
    back to the node with id `og` of `t` itself. -/
theorem outgroup_first_leafset_in_reseeded (flag : Option Bool) (suppress : Bool) (og : Nat) (t : T) (r : T × Option Bool)
    (h : toOutgroup flag suppress og t = some r) (hids : (idsOf t).Nodup) (h2 : 2 ≤ t.cs.length) (hwf : LenWF t) :
    ∃ p o, parentOf og t = some p ∧ o ∈ (invertTo p t).cs ∧ o.id = og ∧
      ∃ first rest, r.1.cs = first :: rest ∧ leafIds first = leafIds o := by
  have hnd : (leafIds t).Nodup := leafIds_nodup_of_ids hids
  unfold toOutgroup at h
  split at h
  · cases h
  · rename_i p hp
    obtain ⟨m, hm, hmp, hmne⟩ := parentOf_spec og t p hp
    have hr := invert_is_chain p t (hint_of_ids hids hm hmp hmne) h2
    obtain ⟨pl, _, _⟩ := reach_inv hr
    have pid : (leafIds (invertTo p t)).Perm (leafIds t) := pl.map T.id
    have hids2 : (idsOf (invertTo p t)).Nodup := (reach_ids hr).nodup_iff.mpr hids
    have hwf2 := reach_lenWF hr hwf
    have hnd2 : (leafIds (invertTo p t)).Nodup := pid.nodup_iff.mpr hnd
    have hlen2 : 2 ≤ (invertTo p t).cs.length := reach_two hr h2
    split at h
    rename_i i x l s cs heq
    rw [heq] at hids2 hwf2 hnd2 hlen2
    split at h
    · cases h
    · rename_i o ho
      cases h
      have hoid : o.id = og := by simpa using List.find?_some ho
      have hom : o ∈ cs := List.mem_of_find?_eq_some ho
      refine ⟨p, o, hp, by rw [heq]; exact hom, hoid, ?_⟩
      have hchild : (cs.map T.id).Nodup := by
        rw [idsOf_node] at hids2
        exact (childIds_sublist cs).nodup (List.nodup_cons.mp hids2).2
      have P := front_perm og cs o hchild ho
      have hcs : cs ≠ [] := by intro e; subst e; simp at ho
      have hrest : cs.filter (fun c => c.id != og) ≠ [] := by
        intro e
        have := P.length_eq
        rw [e] at this
        simp only [T.cs] at hlen2
        simp at this; omega
      have hl2 : leafIds (T.node i x l s (o :: cs.filter (fun c => c.id != og))) =
          leavesL (toLTL (o :: cs.filter (fun c => c.id != og))) := leafIds_eq_LT _ (by simp [T.cs])
      have hl1 : leafIds (T.node i x l s cs) = leavesL (toLTL cs) := leafIds_eq_LT _ (by simpa [T.cs] using hcs)
      have hnd3 : (leafIds (T.node i x l s (o :: cs.filter (fun c => c.id != og)))).Nodup := by
        rw [hl2]; rw [hl1] at hnd2
        exact (leavesL_perm_LT (toLTL_perm P)).nodup_iff.mpr hnd2
      have hwf3 : LenWF (T.node i x l s (o :: cs.filter (fun c => c.id != og))) := by
        intro n hn f hf
        simp only [T.nodes, List.mem_cons] at hn
        rcases hn with rfl | hn
        · exact hwf2 (T.node i x l s cs) (mem_nodes_self _) f (by simpa [T.len] using hf)
        · obtain ⟨c, hc, hnc⟩ := mem_nodesL.mp hn
          exact hwf2 n (by simp only [T.nodes]; exact List.mem_cons_of_mem _ (mem_nodesL.mpr ⟨c, P.mem_iff.mp hc, hnc⟩)) f hf
      exact first_after_cleanup i x l s o _ (unrootedFlag flag) suppress hrest hwf3 hnd3

end DendroModel.C07.Aux

namespace DendroModel.C07
open DendroModel DendroModel.C07.Aux
/-- default suppression, unrooted flag, outgroup = leaf C of `exTree`: the hypotheses hold and the call succeeds -/
example : ∃ r, toOutgroup (some false) true 4 exTree = some r ∧ (idsOf exTree).Nodup ∧ 2 ≤ exTree.cs.length :=
  ⟨_, rfl, by decide, by decide⟩
end DendroModel.C07

namespace DendroModel.C07.Aux
open DendroModel DendroModel.C07 DendroModel.Hier DendroModel.C01.Bridge

theorem toHL_length' : ∀ cs : List T, (T.toHL cs).length = cs.length
  | [] => rfl
  | c :: cs => by simp [T.toHL, toHL_length' cs]

theorem toHL_ne_nil {cs : List T} (h : cs ≠ []) : T.toHL cs ≠ [] := by
  intro e
  have := congrArg List.length e
  rw [toHL_length'] at this
  exact h (List.length_eq_zero_iff.mp this)

/-- what one inversion keeps on the taxon side: well-formedness, the taxon set, the normalised split set -/
structure SplitKeep (lo : Nat) (t u : T) : Prop where
  good : GoodL (T.toHL u.cs)
  maskEq : maskL (T.toHL u.cs) = maskL (T.toHL t.cs)
  splits : ∀ s, s ∈ usplits lo (T.toH u) ↔ s ∈ usplits lo (T.toH t)

theorem step_splitKeep {t u : T} (h : Step t u) (lo : Nat)
    (hg : GoodL (T.toHL t.cs)) (hlo : bits lo ⊆ bits (maskL (T.toHL t.cs)))
    (hsingle : ∀ a, bits lo ⊆ bits a ∨ Disjoint (bits lo) (bits a)) (hne : lo ≠ 0) : SplitKeep lo t u := by
  have hs := inversion_step_keeps_unrooted_splits h lo hg hlo hsingle hne
  cases h with
  | mk i x l s pre j y lc sc ds post hds hrest =>
    simp only [T.cs, toHL_append, T.toHL, toH_node_ne hds] at hg
    have hrest' : T.toHL pre ++ T.toHL post ≠ [] := by rw [← toHL_append]; exact toHL_ne_nil hrest
    obtain ⟨hgp, hgr, hd1⟩ := (goodL_append_iff _ _).mp hg
    simp only [GoodL] at hgr
    obtain ⟨hgds, _, hd2, hgR⟩ := hgr
    simp only [Good] at hgds
    simp only [maskL, mask] at hd1 hd2
    have hdpds : maskL (T.toHL pre) &&& maskL (T.toHL ds) = 0 := by
      rw [and_eq_zero_iff, bits_or, Set.disjoint_union_right] at hd1; exact (and_eq_zero_iff _ _).mpr hd1.1
    have hdpR : maskL (T.toHL pre) &&& maskL (T.toHL post) = 0 := by
      rw [and_eq_zero_iff, bits_or, Set.disjoint_union_right] at hd1; exact (and_eq_zero_iff _ _).mpr hd1.2
    have hgo : GoodL (T.toHL pre ++ T.toHL post) := (goodL_append_iff _ _).mpr ⟨hgp, hgR, hdpR⟩
    have hdis : ∀ c ∈ T.toHL ds, mask c &&& mask (Hier.T.node (T.toHL pre ++ T.toHL post)) = 0 := by
      intro c hc
      simp only [mask]
      rw [Hier.maskL_append, and_eq_zero_iff, bits_or, Set.disjoint_union_right]
      have hsub := bits_maskL_subset_of_mem hc
      constructor
      · exact (((and_eq_zero_iff _ _).mp hdpds).symm).mono_left hsub
      · exact ((and_eq_zero_iff _ _).mp hd2).mono_left hsub
    refine ⟨?_, ?_, hs⟩
    · simp only [T.cs, toHL_append, T.toHL, toH_node_ne hrest]
      exact goodL_snoc hgds (by simpa [Good] using hgo) (by simpa [mask] using maskL_ne_zero hgo hrest') hdis
    · simp only [T.cs, toHL_append, T.toHL, toH_node_ne hrest, toH_node_ne hds]
      exact maskL_invert _ _ _

theorem reach_splitKeep {t r : T} (h : Reach t r) (lo : Nat)
    (hsingle : ∀ a, bits lo ⊆ bits a ∨ Disjoint (bits lo) (bits a)) (hne : lo ≠ 0) :
    GoodL (T.toHL t.cs) → bits lo ⊆ bits (maskL (T.toHL t.cs)) → SplitKeep lo t r := by
  induction h with
  | refl t => intro hg _; exact ⟨hg, rfl, fun _ => Iff.rfl⟩
  | step st _ ih =>
    intro hg hlo
    have k1 := step_splitKeep st lo hg hlo hsingle hne
    have k2 := ih k1.good (by rw [k1.maskEq]; exact hlo)
    exact ⟨k2.good, k2.maskEq.trans k1.maskEq, fun s => (k2.splits s).trans (k1.splits s)⟩

theorem withLen_toH' (t : T) (l : Option Frac) : T.toH (t.withLen l) = T.toH t := by
  cases t with
  | node i x l' s cs => cases cs <;> simp [T.withLen, T.toH]

mutual
theorem sup_toH' : ∀ t : T, T.toH (sup t) = Hier.sup (T.toH t)
  | .node i x l s [] => by
    cases x <;> simp [sup, supL, T.toH, Hier.sup, Hier.supL]
  | .node i x l s (c :: cs) => by
    have h := supL_toH' (c :: cs)
    simp only [sup, T.toH, Hier.sup]
    rw [← h]
    cases hs : supL (c :: cs) with
    | nil => simp [supL] at hs
    | cons d ds =>
      cases ds with
      | nil => simp [T.toHL, withLen_toH']
      | cons e es => simp [T.toHL, T.toH]
theorem supL_toH' : ∀ cs : List T, T.toHL (supL cs) = Hier.supL (T.toHL cs)
  | [] => rfl
  | c :: cs => by simp [supL, T.toHL, Hier.supL, sup_toH' c, supL_toH' cs]
end

/-- suppression below a root that keeps ≥ 2 children keeps the normalised split set -/
theorem sup_usplits (lo : Nat) (t : T) (h2 : 2 ≤ t.cs.length) :
    ∀ s, s ∈ usplits lo (T.toH (sup t)) ↔ s ∈ usplits lo (T.toH t) := by
  intro s
  rw [sup_toH']
  cases t with
  | node i x l s' cs =>
    simp only [T.cs] at h2
    have hne : cs ≠ [] := by intro e; subst e; simp at h2
    rw [toH_node_ne hne]
    have hlen : (Hier.supL (T.toHL cs)).length = cs.length := by rw [Hier.supL_length, toHL_length']
    have hsup : Hier.sup (.node (T.toHL cs)) = .node (Hier.supL (T.toHL cs)) := by
      simp only [Hier.sup]
      split
      · rename_i c hc; rw [hc] at hlen; simp at hlen; omega
      · rfl
    rw [hsup]
    simp only [usplits, List.mem_map, Hier.supL_mask]
    constructor
    · rintro ⟨a, ha, rfl⟩; exact ⟨a, (Hier.supL_clades _ a).mp ha, rfl⟩
    · rintro ⟨a, ha, rfl⟩; exact ⟨a, (Hier.supL_clades _ a).mpr ha, rfl⟩

end DendroModel.C07.Aux

namespace DendroModel.C07
open DendroModel DendroModel.C07.Aux DendroModel.Hier DendroModel.C01.Bridge

/-- **`reroot_at_node` keeps the set of unrooted splits** — the whole chain of inversions, with or without unifurcation
    suppression: for every tree whose leaves carry distinct taxa (`GoodL`: sibling clades non-empty and disjoint), every
    reference taxon bit `k` of the tree, every internal target and a seed with ≥ 2 children, the set of normalised split masks
    of the result equals that of the tree. -/
theorem reroot_at_node_keeps_usplits (suppress : Bool) (tgt : Nat) (t : T) (k : Nat)
    (hint : ∀ n ∈ t.nodes, n.id = tgt → n.cs ≠ []) (h2 : 2 ≤ t.cs.length)
    (hg : GoodL (T.toHL t.cs)) (hk : k ∈ bits (maskL (T.toHL t.cs))) :
    ∀ s, s ∈ usplits (1 <<< k) (T.toH (rerootAtNode suppress tgt t).1) ↔ s ∈ usplits (1 <<< k) (T.toH t) := by
  have hr := invert_is_chain tgt t hint h2
  have hlo : bits (1 <<< k) ⊆ bits (maskL (T.toHL t.cs)) := by
    rw [bits_shift]; exact Set.singleton_subset_iff.mpr hk
  have K := reach_splitKeep hr (1 <<< k) (single_shift k) (shift_ne_zero k) hg hlo
  have e : (rerootAtNode suppress tgt t).1 = if suppress then sup (invertTo tgt t) else invertTo tgt t := by
    simp only [rerootAtNode, reseedAt, cleanup, Bool.false_and, Bool.false_eq_true, if_false]
    cases hf : T.find? tgt t with
    | none => simp
    | some n =>
      obtain ⟨h1, h2'⟩ := find_mem tgt t n hf
      have hne := hint n h1 h2'
      have : n.cs.isEmpty = false := by
        cases hcs : n.cs with
        | nil => exact absurd hcs hne
        | cons _ _ => rfl
      simp [this]
  rw [e]
  cases suppress
  · simpa using K.splits
  · intro s
    simp only [if_true]
    rw [sup_usplits _ _ (reach_two hr h2) s]
    exact K.splits s

/-- `exTree` carries the taxa 0, 1, 2 on its three leaves: the hypotheses hold and the statement is about non-empty sets -/
example : GoodL (T.toHL exTree.cs) ∧ 0 ∈ bits (maskL (T.toHL exTree.cs)) ∧ usplits (1 <<< 0) (T.toH exTree) ≠ [] := by
  refine ⟨by simp [exTree, T.cs, T.toHL, T.toH, GoodL, Good, mask, maskL], ?_, by decide⟩
  show (maskL (T.toHL exTree.cs)).testBit 0 = true
  decide

end DendroModel.C07

namespace DendroModel.C07.Aux
open DendroModel DendroModel.C07 DendroModel.C07.Path

/-- the edge split keeps well-formed lengths and the number of children of every old node — for ANY two new lengths -/
theorem splitEdge_basic (h nw : Nat) (lT lH : Option Frac) (hlT : OWF lT) (hlH : OWF lH) :
    ∀ (k : Nat) (t : T), t.size ≤ k → (idsOf t).Nodup → LenWF t →
      LenWF (splitEdge h nw lT lH t) ∧ (splitEdge h nw lT lH t).cs.length = t.cs.length
  | 0, .node i x l s cs, hk, _, _ => by simp [T.size] at hk
  | k + 1, .node i x l s cs, hk, hids, hwf => by
    rw [idsOf_node] at hids
    have hidsL := (List.nodup_cons.mp hids).2
    rw [splitEdge]
    split
    · rename_i c hc
      have hcmem : c ∈ cs := List.mem_of_find?_eq_some hc
      have P := front_perm h cs c ((childIds_sublist cs).nodup hidsL) hc
      have hwc : LenWF c := lenWF_child hwf hcmem
      refine ⟨?_, ?_⟩
      · intro n hn f hf
        simp only [T.nodes, nodesL_append, T.nodesL, List.append_nil, List.mem_cons, List.mem_append] at hn
        rcases hn with rfl | hn | rfl | hn
        · exact hwf _ (mem_nodes_self _) f (by simpa [T.len] using hf)
        · obtain ⟨d, hd, hnd'⟩ := mem_nodesL.mp hn
          have hd' : d ∈ cs := (List.mem_filter.mp hd).1
          exact hwf n (by simp only [T.nodes]; exact List.mem_cons_of_mem _ (mem_nodesL.mpr ⟨d, hd', hnd'⟩)) f hf
        · exact hlT f (by simpa [T.len] using hf)
        · rcases nodes_withLen c lH n hn with rfl | hn
          · cases c with
            | node j y lc sc ds => exact hlH f (by simpa [T.withLen, T.len] using hf)
          · exact hwc n (by cases c with | node j y lc sc ds => simp only [T.nodes]; exact List.mem_cons_of_mem _ hn) f hf
      · simp only [T.cs, List.length_append, List.length_singleton]
        have := P.length_eq; simp only [List.length_cons] at this; omega
    · rw [splitEdgeL_eq_map]
      refine ⟨?_, by simp [T.cs]⟩
      intro n hn f hf
      simp only [T.nodes, List.mem_cons] at hn
      rcases hn with rfl | hn
      · exact hwf _ (mem_nodes_self _) f (by simpa [T.len] using hf)
      · obtain ⟨d', hd', hnd'⟩ := mem_nodesL.mp hn
        obtain ⟨d, hd, rfl⟩ := List.mem_map.mp hd'
        exact (splitEdge_basic h nw lT lH hlT hlH k d (by have := size_lt_of_mem hd; simp only [T.size] at hk; omega)
          (idsOf_child_nodup hidsL hd) (lenWF_child hwf hd)).1 n hnd' f hf

end DendroModel.C07.Aux

namespace DendroModel.C07
open DendroModel DendroModel.C07.Aux DendroModel.C07.Path

/-- distance from the root of `r` down to the leaf with id `a` (`none` if `a` is not a leaf below the root) -/
def rd (r : T) (a : Nat) : Option ℚ := downL (toLTL r.cs) a

/-- **clause (c) in root-distance form, with AND without unifurcation suppression (the library default is with), for ANY two
    requested lengths:** after `reroot_at_edge(edge, length1, length2)` there are the old head `c` (id `h`) and a subtree `up`
    hanging from the root by an edge of length `length1` such that every leaf `a` is at root distance
    `down (c with edge length2) a` if it lies below the head — i.e. `length2` + its depth below the head — and at
    `down up a` = `length1` + its distance from the old tail node otherwise.  Suppression never moves the root: the two
    settings give the same root distances.  Distinct node ids, `nw` fresh, the head has a parent, seed with ≥ 2 children,
    well-formed fractions. -/
theorem reroot_at_edge_root_distances (s : Bool) (h nw : Nat) (l1 l2 : Option Frac) (t : T) (p : Nat)
    (hids : (idsOf t).Nodup) (hfresh : nw ∉ idsOf t) (hpar : parentOf h t = some p) (h2 : 2 ≤ t.cs.length)
    (hwf : LenWF t) (hl1 : OWF l1) (hl2 : OWF l2) :
    ∃ c ∈ t.nodes, c.id = h ∧ ∃ up : T, up.len = l1 ∧
      ∀ a, rd (rerootAtEdge s h nw l1 l2 t).1 a =
        (match down (toLT (c.withLen l2)) a with
          | some d => some d
          | none => down (toLT up) a) := by
  obtain ⟨_, c, hcm, hch, up, hcs, hup⟩ := reroot_at_edge_position_partial h nw l1 l2 t p hfresh hpar
  refine ⟨c, hcm, hch, up, hup, ?_⟩
  have B := splitEdge_basic h nw l1 l2 hl1 hl2 t.size t (Nat.le_refl _) hids hwf
  have F := splitEdge_fresh h nw l1 l2 t.size t (Nat.le_refl _) hfresh
  set u := splitEdge h nw l1 l2 t with hu
  have hintu : ∀ n ∈ u.nodes, n.id = nw → n.cs ≠ [] := by
    intro n hn hid
    obtain ⟨c', _, _, e⟩ := F.2 n hn hid
    rw [e]; simp [T.cs]
  have h2u : 2 ≤ u.cs.length := by rw [B.2]; exact h2
  have hr := invert_is_chain nw u hintu h2u
  have hwf0 := reach_lenWF hr B.1
  have e0 : (rerootAtEdge false h nw l1 l2 t).1 = invertTo nw u := by
    simp [rerootAtEdge, rerootAtNode, reseedAt, cleanup, hu]
  rw [e0] at hcs
  have hfalse : ∀ a, rd (invertTo nw u) a = (match down (toLT (c.withLen l2)) a with
      | some d => some d
      | none => down (toLT up) a) := by
    intro a
    simp only [rd, hcs, toLTL, downL]
    cases down (toLT (c.withLen l2)) a <;> simp
    cases down (toLT up) a <;> rfl
  cases s
  · intro a; rw [e0]; exact hfalse a
  · -- with suppression: the root keeps its two children, each is suppressed inside, no root distance changes
    have e1 : (rerootAtEdge true h nw l1 l2 t).1 = sup (invertTo nw u) := by
      simp only [rerootAtEdge, rerootAtNode, reseedAt, cleanup, Bool.false_and, Bool.false_eq_true, if_false, if_true, ← hu]
      cases hf : T.find? nw u with
      | none => simp
      | some n =>
        obtain ⟨h1, h2'⟩ := find_mem nw u n hf
        have hne := hintu n h1 h2'
        have : n.cs.isEmpty = false := by
          cases hcs' : n.cs with
          | nil => exact absurd hcs' hne
          | cons _ _ => rfl
        simp [this]
    intro a
    rw [e1, ← hfalse a]
    cases hr0 : invertTo nw u with
    | node j y l0 s0 cs0 =>
      rw [hr0] at hcs hwf0
      simp only [T.cs] at hcs
      subst hcs
      rw [sup_root_of_two]
      have S1 := sup_inv (c.withLen l2) (lenWF_child hwf0 (by simp))
      have S2 := sup_inv up (lenWF_child hwf0 (by simp))
      simp only [rd, T.cs, supL, toLTL, downL, S1.down, S2.down]

example : ∃ p, parentOf 4 exTree = some p ∧ 5 ∉ idsOf exTree ∧ (idsOf exTree).Nodup ∧ 2 ≤ exTree.cs.length :=
  ⟨0, by decide, by decide, by decide, by decide⟩
/-- C's edge (length 2) split 1/2 + 3/2, default suppression: the leaf C below the head is at length2 = 3/2 from the root -/
example : rd (rerootAtEdge true 4 5 (some ⟨1, 2⟩) (some ⟨3, 2⟩) exTree).1 4 = some (3/2) := by
  simp [rd, rerootAtEdge, rerootAtNode, reseedAt, cleanup, exTree, splitEdge, splitEdgeL, invertTo, inv, invL, T.find?, T.findL?,
    T.id, T.len, T.cs, T.withLen, sup, supL, mergeLen, toLTL, toLT, downL, down, lenQ]

end DendroModel.C07

namespace DendroModel.C07.Aux
open DendroModel DendroModel.C07 DendroModel.Hier DendroModel.C01.Bridge

theorem sdiff_union_left {A B : Nat} (h : A &&& B = 0) : sdiff (A ||| B) A = B := by
  apply bits_inj
  rw [bits_sdiff, bits_or]
  have hd : Disjoint (bits A) (bits B) := (and_eq_zero_iff _ _).mp h
  ext x
  simp only [Set.mem_sdiff, Set.mem_union]
  constructor
  · rintro ⟨h1 | h1, h2⟩
    · exact absurd h1 h2
    · exact h1
  · intro hx; exact ⟨Or.inr hx, fun ha => (Set.disjoint_left.mp hd) ha hx⟩

theorem sdiff_union_right {A B : Nat} (h : A &&& B = 0) : sdiff (A ||| B) B = A := by
  rw [Nat.lor_comm]; exact sdiff_union_left (by rw [Nat.land_comm]; exact h)

/-- a clade list with one extra clade that is the complement of a clade already present has the same normalised image -/
theorem map_norm_extra (L lo : Nat) (X Y : List Nat) (m e : Nat) (hY : ∀ x, x ∈ Y ↔ x ∈ X ∨ x = e) (hmX : m ∈ X)
    (hn : norm L lo e = norm L lo m) (s : Nat) : s ∈ Y.map (norm L lo) ↔ s ∈ X.map (norm L lo) := by
  simp only [List.mem_map]
  constructor
  · rintro ⟨a, ha, rfl⟩
    rcases (hY a).mp ha with h | rfl
    · exact ⟨a, h, rfl⟩
    · exact ⟨m, hmX, hn.symm⟩
  · rintro ⟨a, ha, rfl⟩
    exact ⟨a, (hY a).mpr (Or.inl ha), rfl⟩

theorem collapse_usplits (lo : Nat) (t : T) (hg : GoodL (T.toHL t.cs))
    (hlo : bits lo ⊆ bits (maskL (T.toHL t.cs)))
    (hsingle : ∀ a, bits lo ⊆ bits a ∨ Disjoint (bits lo) (bits a)) (hne : lo ≠ 0) :
    (∀ s, s ∈ usplits lo (T.toH (collapseBasal t)) ↔ s ∈ usplits lo (T.toH t)) ∧
    (2 ≤ t.cs.length → 2 ≤ (collapseBasal t).cs.length) := by
  cases t with
  | node i x l s cs =>
  match cs, hg, hlo with
  | [], _, _ => exact ⟨fun _ => by simp [collapseBasal], fun h => by simpa [collapseBasal] using h⟩
  | [_], _, _ => exact ⟨fun _ => by simp [collapseBasal], fun h => by simpa [collapseBasal] using h⟩
  | _ :: _ :: _ :: _, _, _ => exact ⟨fun _ => by simp [collapseBasal], fun h => by simpa [collapseBasal] using h⟩
  | [a, b], hg, hlo =>
    simp only [collapseBasal]
    split
    · -- b dissolved
      rename_i hb
      cases b with
      | node j y lb sb bs =>
      simp only [cs_node] at hb
      have hbs : bs ≠ [] := by intro e; subst e; simp at hb
      simp only [cs_node, T.toHL, toH_node_ne hbs, GoodL, maskL, mask, Nat.or_zero] at hg hlo
      obtain ⟨_, _, hdis, _⟩ := hg
      refine ⟨fun s => ?_, fun _ => by simp only [cs_node, List.length_cons]; omega⟩
      simp only [cs_node, len_node]
      have h1 : (a.withLen (mergeLen a.len lb) :: bs) ≠ [] := by simp
      have h2 : [a, T.node j y lb sb bs] ≠ [] := by simp
      rw [toH_node_ne h1, toH_node_ne h2]
      simp only [usplits, T.toHL, withLen_toH', toH_node_ne hbs, maskL, mask, Nat.or_zero, cladesL, clades, List.append_nil]
      apply (map_norm_extra _ lo _ _ (mask (T.toH a)) (maskL (T.toHL bs)) ?_ ?_ ?_ s).symm
      · intro z; simp only [List.mem_append, List.mem_cons]; tauto
      · exact List.mem_append_left _ (mask_mem_clades _)
      · have hn := norm_compl (mask (T.toH a) ||| maskL (T.toHL bs)) lo (mask (T.toH a))
          (by rw [bits_or]; exact Set.subset_union_left) hlo hsingle hne
        rw [sdiff_union_left hdis] at hn
        exact hn
    · split
      · rename_i hb ha
        cases a with
        | node k z la sa as =>
        simp only [cs_node] at ha
        have has : as ≠ [] := by intro e; subst e; simp at ha
        simp only [cs_node, T.toHL, toH_node_ne has, GoodL, maskL, mask, Nat.or_zero] at hg hlo
        obtain ⟨_, _, hdis, _⟩ := hg
        refine ⟨fun s => ?_, fun _ => by simp only [cs_node, List.length_append, List.length_singleton]; omega⟩
        simp only [cs_node, len_node]
        have h1 : (as ++ [b.withLen (mergeLen b.len la)]) ≠ [] := by simp
        have h2 : [T.node k z la sa as, b] ≠ [] := by simp
        rw [toH_node_ne h1, toH_node_ne h2]
        simp only [usplits, toHL_append, T.toHL, withLen_toH', toH_node_ne has, Hier.maskL_append, maskL, mask, Nat.or_zero,
          cladesL_append, cladesL, clades, List.append_nil]
        apply (map_norm_extra _ lo _ _ (mask (T.toH b)) (maskL (T.toHL as)) ?_ ?_ ?_ s).symm
        · intro z; simp only [List.mem_append, List.mem_cons]; tauto
        · exact List.mem_append_right _ (mask_mem_clades _)
        · have hn := norm_compl (maskL (T.toHL as) ||| mask (T.toH b)) lo (mask (T.toH b))
            (by rw [bits_or]; exact Set.subset_union_right) hlo hsingle hne
          rw [sdiff_union_right hdis] at hn
          exact hn
      · exact ⟨fun _ => Iff.rfl, fun h => h⟩

end DendroModel.C07.Aux

namespace DendroModel.C07
open DendroModel DendroModel.C07.Aux DendroModel.Hier DendroModel.C01.Bridge

/-- **`reseed_at` keeps the set of unrooted splits for EVERY setting of `collapse_unrooted_basal_bifurcation` and
    `suppress_unifurcations` (defaults included) and every rooting flag** — the whole inversion chain, then the basal collapse,
    then the suppression: for every tree whose leaves carry distinct taxa (`GoodL`), every reference taxon bit `k` of the tree,
    every internal target and a seed with ≥ 2 children, the set of normalised split masks of the result equals that of the tree. -/
theorem reseed_keeps_usplits (flag : Option Bool) (collapse suppress : Bool) (tgt : Nat) (t : T) (k : Nat)
    (hint : ∀ n ∈ t.nodes, n.id = tgt → n.cs ≠ []) (h2 : 2 ≤ t.cs.length)
    (hg : GoodL (T.toHL t.cs)) (hk : k ∈ bits (maskL (T.toHL t.cs))) :
    ∀ s, s ∈ usplits (1 <<< k) (T.toH (reseedAt flag collapse suppress tgt t).1) ↔ s ∈ usplits (1 <<< k) (T.toH t) := by
  have hr := invert_is_chain tgt t hint h2
  have hlo : bits (1 <<< k) ⊆ bits (maskL (T.toHL t.cs)) := by
    rw [bits_shift]; exact Set.singleton_subset_iff.mpr hk
  have K := reach_splitKeep hr (1 <<< k) (single_shift k) (shift_ne_zero k) hg hlo
  have e : (reseedAt flag collapse suppress tgt t).1 = (cleanup flag collapse suppress (invertTo tgt t)).1 := by
    simp only [reseedAt]
    cases hf : T.find? tgt t with
    | none => simp
    | some n =>
      obtain ⟨h1, h2'⟩ := find_mem tgt t n hf
      have hne := hint n h1 h2'
      have : n.cs.isEmpty = false := by
        cases hcs : n.cs with
        | nil => exact absurd hcs hne
        | cons _ _ => rfl
      simp [this]
  rw [e]
  have h2r := reach_two hr h2
  -- the tree after the optional basal collapse
  have C : (∀ s, s ∈ usplits (1 <<< k) (T.toH (if (collapse && unrootedFlag flag && (invertTo tgt t).cs.length == 2) = true
        then collapseBasal (invertTo tgt t) else invertTo tgt t)) ↔ s ∈ usplits (1 <<< k) (T.toH t)) ∧
      2 ≤ (if (collapse && unrootedFlag flag && (invertTo tgt t).cs.length == 2) = true
        then collapseBasal (invertTo tgt t) else invertTo tgt t).cs.length := by
    split
    · have c := collapse_usplits (1 <<< k) (invertTo tgt t) K.good (by rw [K.maskEq]; exact hlo) (single_shift k) (shift_ne_zero k)
      exact ⟨fun s => (c.1 s).trans (K.splits s), c.2 h2r⟩
    · exact ⟨K.splits, h2r⟩
  simp only [cleanup]
  generalize (if (collapse && unrootedFlag flag && (invertTo tgt t).cs.length == 2) = true
        then collapseBasal (invertTo tgt t) else invertTo tgt t) = t1 at C ⊢
  cases suppress
  · simpa using C.1
  · intro s
    simp only [if_true]
    rw [sup_usplits _ t1 C.2 s]
    exact C.1 s

/-- the unrooted `((A,B),C)` case of the default `reseed_at`: basal collapse and suppression both happen; hypotheses hold -/
example : GoodL (T.toHL exTree.cs) ∧ (reseedAt (some false) true true 0 exTree).1.cs.length = 3 := by
  refine ⟨by simp [exTree, T.cs, T.toHL, T.toH, GoodL, Good, mask, maskL], by decide⟩

end DendroModel.C07

namespace DendroModel.C07.Aux
open DendroModel DendroModel.C07 DendroModel.C07.Path

/-- **midpoint inside an edge, in root distances (with and without suppression):** when the walk of `reroot_at_midpoint`
    answers "inside the edge above `hd`, `x` above its head", every leaf below that head ends up at root distance `x` + its
    depth below the head, every other leaf at (edge length − `x`) + its distance from the old tail.  Together with
    `midpoint_walk_spec` (`x` + the lengths passed = half the distance of the pair) this puts the deeper leaf of the
    pair at exactly half the distance from the new root.
    Auxiliary (superseded by `midpoint_equidistant`, which covers both branches and both leaves and assumes nothing about
    the walk); `hpar` (the edge's head has a parent — it lies below the MRCA) is a hypothesis here. -/
theorem midpoint_in_edge_root_distances (s : Bool) (a b nw : Nat) (t : T) (r : T × Option Bool) (hd p : Nat) (x : Frac)
    (hmid : midpointOf a b t = .onEdge hd x) (h : rerootAtMidpoint s a b nw t = some r)
    (hids : (idsOf t).Nodup) (hfresh : nw ∉ idsOf t) (hpar : parentOf hd t = some p) (h2 : 2 ≤ t.cs.length) (hwf : LenWF t) :
    ∃ c ∈ t.nodes, c.id = hd ∧ ∃ up : T, up.len = some (lenOr0 c.len - x) ∧
      ∀ z, rd r.1 z =
        (match down (toLT (c.withLen (some x))) z with
          | some d => some d
          | none => down (toLT up) z) := by
  have hx : x.WF := midpointOf_edge_wf a b t hd x hmid
  unfold rerootAtMidpoint at h
  rw [hmid] at h
  simp only at h
  split at h
  · cases h
  · rename_i hn hfind
    cases h
    obtain ⟨hnmem, hnid⟩ := find_mem hd t hn hfind
    obtain ⟨c, hcm, hch, up, hup, hall⟩ := reroot_at_edge_root_distances s hd nw (some (lenOr0 hn.len - x)) (some x) t p
      hids hfresh hpar h2 hwf (fun f hf => by cases hf; exact Frac.sub_wf _ _) (fun f hf => by cases hf; exact hx)
    have : c = hn := List.inj_on_of_nodup_map hids hcm hnmem (hch.trans hnid.symm)
    subst this
    exact ⟨c, hcm, hch, up, hup, hall⟩

/-- `(A:1,C:3)`: the midpoint of A–C falls inside C's edge, 2 above C, whose head (leaf C, id 2) has a parent -/
example : midpointOf 1 2 (.node 0 none none none [.node 1 (some 0) (some ⟨1, 1⟩) none [], .node 2 (some 1) (some ⟨3, 1⟩) none []])
    = .onEdge 2 ⟨2, 1⟩ ∧
    parentOf 2 (.node 0 none none none [.node 1 (some 0) (some ⟨1, 1⟩) none [], .node 2 (some 1) (some ⟨3, 1⟩) none []]) = some 0 := by
  decide

end DendroModel.C07.Aux

namespace DendroModel.C07.Aux
open DendroModel DendroModel.C07 DendroModel.C07.Path

/-! ### clause (b): the midpoint is equidistant — path analysis -/

theorem flat_unique {α β : Type} (f : α → List β) : ∀ (cs : List α), (cs.flatMap f).Nodup →
    ∀ c ∈ cs, ∀ d ∈ cs, ∀ a, a ∈ f c → a ∈ f d → c = d
  | [], _, c, hc, _, _, _, _, _ => by simp at hc
  | c0 :: cs, hnd, c, hc, d, hd, a, hac, had => by
    simp only [List.flatMap_cons] at hnd
    obtain ⟨_, h2, h3⟩ := List.nodup_append.mp hnd
    rcases List.mem_cons.mp hc with rfl | hc' <;> rcases List.mem_cons.mp hd with rfl | hd'
    · rfl
    · exact absurd rfl (h3 a hac a (List.mem_flatMap.mpr ⟨d, hd', had⟩))
    · exact absurd rfl (h3 a had a (List.mem_flatMap.mpr ⟨c, hc', hac⟩))
    · exact flat_unique f cs h2 c hc' d hd' a hac had

theorem leavesL_flat : ∀ cs : List LT, leavesL cs = cs.flatMap leaves
  | [] => rfl
  | c :: cs => by simp [leavesL, leavesL_flat cs]

theorem idsOfL_flat : ∀ cs : List T, idsOfL cs = cs.flatMap idsOf
  | [] => rfl
  | c :: cs => by rw [idsOfL_cons, idsOfL_flat cs]; simp

theorem mem_leavesL_of {cs : List LT} {c : LT} {a : Nat} (hc : c ∈ cs) (ha : a ∈ leaves c) : a ∈ leavesL cs := by
  rw [leavesL_flat]; exact List.mem_flatMap.mpr ⟨c, hc, ha⟩

/-- two leaves that never lie below the same child: the path turns at this node -/
theorem distL_sep : ∀ (cs : List LT) (a b : Nat), (∀ c ∈ cs, down c a = none ∨ down c b = none) →
    distL cs a b = (downL cs a).bind (fun x => (downL cs b).map (x + ·))
  | [], _, _, _ => rfl
  | c :: cs, a, b, h => by
    have hc := h c (List.mem_cons_self ..)
    have ih := distL_sep cs a b (fun d hd => h d (List.mem_cons_of_mem _ hd))
    rw [distL_cons_eq, downL_cons_eq, downL_cons_eq]
    cases hda : down c a with
    | some x =>
      have hdb : down c b = none := by
        rcases hc with h1 | h1
        · rw [hda] at h1; cases h1
        · exact h1
      simp [hdb]
    | none =>
      cases hdb : down c b with
      | some y =>
        simp only
        cases downL cs a <;> simp
      | none => simpa using ih

theorem sep_of_nodup (cs : List LT) (c : LT) (a b : Nat) (hnd : (leavesL cs).Nodup) (hc : c ∈ cs) (ha : a ∈ leaves c)
    (hb : b ∉ leaves c) : ∀ d ∈ cs, down d a = none ∨ down d b = none := by
  intro d hd
  by_cases had : a ∈ leaves d
  · have : c = d := flat_unique leaves cs (by rw [← leavesL_flat]; exact hnd) c hc d hd a ha had
    subst this
    exact Or.inr (down_none_of_not_mem hb)
  · exact Or.inl (down_none_of_not_mem had)

theorem downL_of_mem : ∀ (cs : List LT) (c : LT) (a : Nat), (leavesL cs).Nodup → c ∈ cs → a ∈ leaves c →
    downL cs a = down c a
  | [], _, _, _, hc, _ => by simp at hc
  | c0 :: cs, c, a, hnd, hc, ha => by
    simp only [leavesL] at hnd
    obtain ⟨_, h2, h3⟩ := List.nodup_append.mp hnd
    rw [downL_cons_eq]
    rcases List.mem_cons.mp hc with rfl | hc'
    · obtain ⟨x, hx⟩ := Option.isSome_iff_exists.mp ((down_some_iff c a).mpr ha)
      simp [hx]
    · have : a ∉ leaves c0 := fun h0 => h3 a h0 a (mem_leavesL_of hc' ha) rfl
      rw [down_none_of_not_mem this]
      exact downL_of_mem cs c a h2 hc' ha

theorem distL_of_mem : ∀ (cs : List LT) (c : LT) (a b : Nat), (leavesL cs).Nodup → c ∈ cs → a ∈ leaves c → b ∈ leaves c →
    distL cs a b = Path.dist c a b
  | [], _, _, _, _, hc, _, _ => by simp at hc
  | c0 :: cs, c, a, b, hnd, hc, ha, hb => by
    simp only [leavesL] at hnd
    obtain ⟨_, h2, h3⟩ := List.nodup_append.mp hnd
    rw [distL_cons_eq]
    rcases List.mem_cons.mp hc with rfl | hc'
    · obtain ⟨x, hx⟩ := Option.isSome_iff_exists.mp ((down_some_iff c a).mpr ha)
      obtain ⟨y, hy⟩ := Option.isSome_iff_exists.mp ((down_some_iff c b).mpr hb)
      simp [hx, hy]
    · have h1 : a ∉ leaves c0 := fun h0 => h3 a h0 a (mem_leavesL_of hc' ha) rfl
      have h1' : b ∉ leaves c0 := fun h0 => h3 b h0 b (mem_leavesL_of hc' hb) rfl
      rw [down_none_of_not_mem h1, down_none_of_not_mem h1']
      exact distL_of_mem cs c a b h2 hc' ha hb

mutual
theorem dist_comm : ∀ (t : LT) (a b : Nat), Path.dist t a b = Path.dist t b a
  | .leaf _ _, _, _ => rfl
  | .node _ cs, a, b => by simp only [Path.dist]; exact distL_comm cs a b
theorem distL_comm : ∀ (cs : List LT) (a b : Nat), distL cs a b = distL cs b a
  | [], _, _ => rfl
  | c :: cs, a, b => by
    rw [distL_cons_eq, distL_cons_eq]
    cases down c a <;> cases down c b <;> simp only
    · exact distL_comm cs a b
    · congr 1; funext z; ring
    · congr 1; funext z; ring
    · exact dist_comm c a b
end

/-! ids and leaf ids of children -/

theorem leafIds_sub_ids (t : T) : ∀ a ∈ leafIds t, a ∈ idsOf t :=
  fun a ha => ((leaves_sublist_nodes t).map T.id).subset ha

def leafIdsL (cs : List T) : List Nat := (T.leavesL cs).map T.id

theorem leafIdsL_eq (cs : List T) : leafIdsL cs = leavesL (toLTL cs) := (leavesL_toLTL cs).symm

theorem leafIdsL_flat (cs : List T) : leafIdsL cs = cs.flatMap leafIds := by
  induction cs with
  | nil => rfl
  | cons c cs ih => simp [leafIdsL, T.leavesL, leafIds] at ih ⊢; rw [ih]

theorem leafIds_node_ne {i : Nat} {x : Option Nat} {l : Option Frac} {s : Option String} {cs : List T} (h : cs ≠ []) :
    leafIds (.node i x l s cs) = leafIdsL cs := by
  simp [leafIds, leafIdsL, leaves_node_ne h]

theorem toLT_mem {cs : List T} {c : T} (h : c ∈ cs) : toLT c ∈ toLTL cs := by
  rw [toLTL_eq_map]; exact List.mem_map_of_mem h

/-- in a list of subtrees with distinct node ids, an id of the list's leaves that occurs in `c` is a leaf id of `c` -/
theorem leaf_in_child {cs : List T} (hnd : (idsOfL cs).Nodup) {c : T} (hc : c ∈ cs) {a : Nat} (ha : a ∈ idsOf c)
    (hl : a ∈ leafIdsL cs) : a ∈ leafIds c := by
  rw [leafIdsL_flat] at hl
  obtain ⟨d, hd, had⟩ := List.mem_flatMap.mp hl
  have : c = d := flat_unique idsOf cs (by rw [← idsOfL_flat]; exact hnd) c hc d hd a ha (leafIds_sub_ids d a had)
  rw [this]; exact had

theorem leafIdsL_nodup {cs : List T} (hnd : (idsOfL cs).Nodup) : (leafIdsL cs).Nodup :=
  ((leavesL_sublist_nodesL cs).map T.id).nodup hnd


/-- rational sum of the edge lengths along a root path -/
def sumQ (p : List (Nat × Option Frac)) : ℚ := (p.map (fun e => lenQ e.2)).sum

theorem rootPathL_find (x : Nat) : ∀ (cs : List T) (p : List (Nat × Option Frac)), rootPathL x cs = some p →
    ∃ c ∈ cs, rootPath x c = some p
  | [], _, h => by simp [rootPathL] at h
  | c :: cs, p, h => by
    simp only [rootPathL] at h
    split at h
    · rename_i p' hp'; cases h; exact ⟨c, List.mem_cons_self .., hp'⟩
    · obtain ⟨d, hd, hp⟩ := rootPathL_find x cs p h; exact ⟨d, List.mem_cons_of_mem _ hd, hp⟩

theorem rootPath_basic (x : Nat) : ∀ (k : Nat) (t : T) (p : List (Nat × Option Frac)), t.size ≤ k → rootPath x t = some p →
    (∃ tl, p = (t.id, t.len) :: tl) ∧ x ∈ idsOf t ∧ (∀ e ∈ p, ∃ n ∈ t.nodes, n.id = e.1 ∧ n.len = e.2)
  | 0, .node i y l s cs, _, hk, _ => by simp [T.size] at hk
  | k + 1, .node i y l s cs, p, hk, h => by
    simp only [rootPath] at h
    split at h
    · rename_i hi; cases h
      have hix : i = x := by simpa using hi
      refine ⟨⟨[], rfl⟩, ?_, ?_⟩
      · rw [idsOf_node, hix]; exact List.mem_cons_self ..
      · intro e he
        simp only [List.mem_singleton] at he; subst he
        exact ⟨_, mem_nodes_self _, rfl, rfl⟩
    · split at h
      · rename_i p' hp'
        cases h
        obtain ⟨c, hc, hpc⟩ := rootPathL_find x cs p' hp'
        have hsz : c.size ≤ k := by have := size_lt_of_mem hc; simp only [T.size] at hk; omega
        obtain ⟨_, h2, h3⟩ := rootPath_basic x k c p' hsz hpc
        refine ⟨⟨p', rfl⟩, ?_, ?_⟩
        · rw [idsOf_node]; apply List.mem_cons_of_mem; rw [idsOfL_flat]; exact List.mem_flatMap.mpr ⟨c, hc, h2⟩
        · intro e he
          rcases List.mem_cons.mp he with rfl | he
          · exact ⟨_, mem_nodes_self _, rfl, rfl⟩
          · obtain ⟨n, hn, hh⟩ := h3 e he
            exact ⟨n, by simp only [T.nodes]; exact List.mem_cons_of_mem _ (mem_nodesL.mpr ⟨c, hc, hn⟩), hh⟩
      · cases h

theorem leafIdsL_sub_idsL {cs : List T} {a : Nat} (h : a ∈ leafIdsL cs) : a ∈ idsOfL cs := by
  rw [leafIdsL_flat] at h; rw [idsOfL_flat]
  obtain ⟨d, hd, hxd⟩ := List.mem_flatMap.mp h
  exact List.mem_flatMap.mpr ⟨d, hd, leafIds_sub_ids d _ hxd⟩

/-- the root path of a leaf sums to its root distance -/
theorem rootPath_down (x : Nat) : ∀ (k : Nat) (t : T) (p : List (Nat × Option Frac)), t.size ≤ k → rootPath x t = some p →
    (idsOf t).Nodup → x ∈ leafIds t → down (toLT t) x = some (sumQ p)
  | 0, .node i y l s cs, _, hk, _, _, _ => by simp [T.size] at hk
  | k + 1, .node i y l s cs, p, hk, h, hids, hx => by
    rw [idsOf_node] at hids
    obtain ⟨hi, hidsL⟩ := List.nodup_cons.mp hids
    cases cs with
    | nil =>
      simp only [leafIds, T.leaves, List.map_cons, List.map_nil, T.id, List.mem_singleton] at hx
      subst hx
      simp only [rootPath, beq_self_eq_true, if_true, Option.some.injEq] at h
      subst h
      simp [toLT, down, sumQ]
    | cons c0 cs0 =>
      have hne : (c0 :: cs0) ≠ [] := by simp
      rw [leafIds_node_ne hne] at hx
      have hxi : (i == x) = false := by
        cases hix : i == x with
        | false => rfl
        | true =>
          have : i = x := by simpa using hix
          exact absurd (this ▸ leafIdsL_sub_idsL hx) hi
      simp only [rootPath, hxi, Bool.false_eq_true, if_false] at h
      split at h
      · rename_i p' hp'
        cases h
        obtain ⟨c, hc, hpc⟩ := rootPathL_find x _ p' hp'
        have hsz : c.size ≤ k := by have := size_lt_of_mem hc; simp only [T.size] at hk; omega
        have hxc : x ∈ idsOf c := (rootPath_basic x k c p' hsz hpc).2.1
        have hlc : x ∈ leafIds c := leaf_in_child hidsL hc hxc hx
        have ih := rootPath_down x k c p' hsz hpc (idsOf_child_nodup hidsL hc) hlc
        rw [toLT_node_ne hne]; simp only [down]
        rw [downL_of_mem (toLTL (c0 :: cs0)) (toLT c) x (by rw [← leafIdsL_eq]; exact leafIdsL_nodup hidsL) (toLT_mem hc)
          (by rw [← leafIds_eq_leaves]; exact hlc), ih]
        simp [sumQ]; ring
      · cases h


/-- the fork of the root paths of two leaves: the MRCA `M`, its two children `c1`, `c2` leading to `a` and `b`, and the parts
    `q1`, `q2` of the root paths below `M` -/
structure ForkAt (t : T) (a b : Nat) (pa pb : List (Nat × Option Frac)) (M c1 c2 : T)
    (q1 q2 : List (Nat × Option Frac)) : Prop where
  memM : M ∈ t.nodes
  mem1 : c1 ∈ M.cs
  mem2 : c2 ∈ M.cs
  pre : ∃ pre, pre ≠ [] ∧ pa = pre ++ q1 ∧ pb = pre ++ q2
  rp1 : rootPath a c1 = some q1
  rp2 : rootPath b c2 = some q2
  la : a ∈ leafIds c1
  lb : b ∈ leafIds c2
  nb : b ∉ leafIds c1
  dist : ∃ x y, down (toLT c1) a = some x ∧ down (toLT c2) b = some y ∧ Path.dist (toLT t) a b = some (x + y)

theorem get_down_T {c : T} {a : Nat} (h : a ∈ leafIds c) : ∃ x, down (toLT c) a = some x :=
  Option.isSome_iff_exists.mp ((down_some_iff (toLT c) a).mpr (by rw [← leafIds_eq_leaves]; exact h))

/-- what `dropCommon` finds on the root paths of two different leaves -/
theorem mrca_spec (a b : Nat) (hab : a ≠ b) : ∀ (k : Nat) (t : T) (pa pb : List (Nat × Option Frac)) (m0 : Nat), t.size ≤ k →
    rootPath a t = some pa → rootPath b t = some pb → (idsOf t).Nodup → a ∈ leafIds t → b ∈ leafIds t →
    ∃ M c1 c2 q1 q2, dropCommon m0 pa pb = (M.id, q1, q2) ∧ ForkAt t a b pa pb M c1 c2 q1 q2
  | 0, .node i y l s cs, _, _, _, hk, _, _, _, _, _ => by simp [T.size] at hk
  | k + 1, .node i y l s cs, pa, pb, m0, hk, hpa, hpb, hids, ha, hb => by
    rw [idsOf_node] at hids
    obtain ⟨hi, hidsL⟩ := List.nodup_cons.mp hids
    cases cs with
    | nil =>
      simp only [leafIds, T.leaves, List.map_cons, List.map_nil, T.id, List.mem_singleton] at ha hb
      exact absurd (ha.trans hb.symm) hab
    | cons c0 cs0 =>
      have hne : (c0 :: cs0) ≠ [] := by simp
      rw [leafIds_node_ne hne] at ha hb
      have hxi : ∀ x, x ∈ leafIdsL (c0 :: cs0) → (i == x) = false := by
        intro x hx
        cases hix : i == x with
        | false => rfl
        | true =>
          have : i = x := by simpa using hix
          exact absurd (this ▸ leafIdsL_sub_idsL hx) hi
      simp only [rootPath, hxi a ha, Bool.false_eq_true, if_false] at hpa
      simp only [rootPath, hxi b hb, Bool.false_eq_true, if_false] at hpb
      split at hpa
      · rename_i pa' hpa'
        cases hpa
        split at hpb
        · rename_i pb' hpb'
          cases hpb
          obtain ⟨c1, hc1, hr1⟩ := rootPathL_find a _ pa' hpa'
          obtain ⟨c2, hc2, hr2⟩ := rootPathL_find b _ pb' hpb'
          have hsz1 : c1.size ≤ k := by have := size_lt_of_mem hc1; simp only [T.size] at hk; omega
          have hsz2 : c2.size ≤ k := by have := size_lt_of_mem hc2; simp only [T.size] at hk; omega
          obtain ⟨⟨tl1, ht1⟩, hai, _⟩ := rootPath_basic a k c1 pa' hsz1 hr1
          obtain ⟨⟨tl2, ht2⟩, hbi, _⟩ := rootPath_basic b k c2 pb' hsz2 hr2
          have hla : a ∈ leafIds c1 := leaf_in_child hidsL hc1 hai ha
          have hlb : b ∈ leafIds c2 := leaf_in_child hidsL hc2 hbi hb
          have hndL : (leavesL (toLTL (c0 :: cs0))).Nodup := by rw [← leafIdsL_eq]; exact leafIdsL_nodup hidsL
          have hdc : dropCommon m0 ((i, l) :: pa') ((i, l) :: pb') = dropCommon i pa' pb' := by
            simp [dropCommon]
          rw [hdc]
          by_cases hcc : c1.id = c2.id
          · have e12 : c1 = c2 := flat_unique idsOf _ (by rw [← idsOfL_flat]; exact hidsL) c1 hc1 c2 hc2 c1.id
              (mem_idsOf_of_mem_nodes (mem_nodes_self c1)) (hcc ▸ mem_idsOf_of_mem_nodes (mem_nodes_self c2))
            subst e12
            obtain ⟨M, d1, d2, q1, q2, hd, F⟩ := mrca_spec a b hab k c1 pa' pb' i hsz1 hr1 hr2
              (idsOf_child_nodup hidsL hc1) hla hlb
            refine ⟨M, d1, d2, q1, q2, hd, ?_⟩
            obtain ⟨pre, hpre, e1, e2⟩ := F.pre
            obtain ⟨x, y, hx, hy, hdist⟩ := F.dist
            refine ⟨?_, F.mem1, F.mem2, ⟨(i, l) :: pre, by simp, by simp [e1], by simp [e2]⟩, F.rp1, F.rp2, F.la, F.lb, F.nb,
              x, y, hx, hy, ?_⟩
            · simp only [T.nodes]; exact List.mem_cons_of_mem _ (mem_nodesL.mpr ⟨c1, hc1, F.memM⟩)
            · rw [toLT_node_ne hne]; simp only [Path.dist]
              rw [distL_of_mem _ (toLT c1) a b hndL (toLT_mem hc1) (by rw [← leafIds_eq_leaves]; exact hla)
                (by rw [← leafIds_eq_leaves]; exact hlb)]
              exact hdist
          · have hnb : b ∉ leafIds c1 := by
              intro hbc
              have e12 : c1 = c2 := flat_unique idsOf _ (by rw [← idsOfL_flat]; exact hidsL) c1 hc1 c2 hc2 b
                (leafIds_sub_ids c1 b hbc) hbi
              exact hcc (by rw [e12])
            obtain ⟨x, hx⟩ := get_down_T hla
            obtain ⟨z, hz⟩ := get_down_T hlb
            refine ⟨.node i y l s (c0 :: cs0), c1, c2, pa', pb', ?_, ?_⟩
            · rw [ht1, ht2]
              have hcc' : (c1.id == c2.id) = false := by simpa using hcc
              simp only [dropCommon, hcc', Bool.false_eq_true, if_false]; rfl
            · refine ⟨mem_nodes_self _, hc1, hc2, ⟨[(i, l)], by simp, rfl, rfl⟩, hr1, hr2, hla, hlb, hnb, x, z, hx, hz, ?_⟩
              rw [toLT_node_ne hne]; simp only [Path.dist]
              rw [distL_sep _ a b (sep_of_nodup _ (toLT c1) a b hndL (toLT_mem hc1) (by rw [← leafIds_eq_leaves]; exact hla)
                (by rw [← leafIds_eq_leaves]; exact hnb))]
              rw [downL_of_mem _ (toLT c1) a hndL (toLT_mem hc1) (by rw [← leafIds_eq_leaves]; exact hla),
                downL_of_mem _ (toLT c2) b hndL (toLT_mem hc2) (by rw [← leafIds_eq_leaves]; exact hlb), hx, hz]
              rfl
        · cases hpb
      · cases hpa


/-- a node on a root path: the rest of the path is its own root path; the entry before it is its parent -/
theorem rootPath_suffix (x : Nat) : ∀ (k : Nat) (t : T) (top bot : List (Nat × Option Frac)) (j : Nat) (lj : Option Frac),
    t.size ≤ k → rootPath x t = some (top ++ (j, lj) :: bot) →
    ∃ c ∈ t.nodes, c.id = j ∧ c.len = lj ∧ rootPath x c = some ((j, lj) :: bot) ∧ (top = [] → c = t) ∧
      (∀ top' f, top = top' ++ [f] → ∃ n ∈ t.nodes, n.id = f.1 ∧ c ∈ n.cs)
  | 0, .node i y l s cs, _, _, _, _, hk, _ => by simp [T.size] at hk
  | k + 1, .node i y l s cs, top, bot, j, lj, hk, h => by
    cases top with
    | nil =>
      obtain ⟨⟨tl, htl⟩, _, _⟩ := rootPath_basic x (k + 1) _ _ hk h
      simp only [List.nil_append, List.cons.injEq, Prod.mk.injEq] at htl
      refine ⟨_, mem_nodes_self _, htl.1.1.symm, htl.1.2.symm, h, fun _ => rfl, ?_⟩
      intro top' f e; simp at e
    | cons f0 top2 =>
      simp only [rootPath] at h
      split at h
      · simp at h
      · split at h
        · rename_i p' hp'
          simp only [List.cons_append, Option.some.injEq, List.cons.injEq] at h
          obtain ⟨hf0, hp⟩ := h
          subst hp
          obtain ⟨c', hc', hr'⟩ := rootPathL_find x cs _ hp'
          have hsz : c'.size ≤ k := by have := size_lt_of_mem hc'; simp only [T.size] at hk; omega
          obtain ⟨c, hcm, hcid, hclen, hrc, htop, hpar⟩ := rootPath_suffix x k c' top2 bot j lj hsz hr'
          have hsub : ∀ n ∈ c'.nodes, n ∈ (T.node i y l s cs).nodes := fun n hn => by
            simp only [T.nodes]; exact List.mem_cons_of_mem _ (mem_nodesL.mpr ⟨c', hc', hn⟩)
          refine ⟨c, hsub c hcm, hcid, hclen, hrc, fun e => by simp at e, ?_⟩
          intro top' f e
          cases top' with
          | nil =>
            simp only [List.nil_append, List.cons.injEq] at e
            obtain ⟨e1, e2⟩ := e
            have : c = c' := htop e2
            subst this
            exact ⟨_, mem_nodes_self _, by rw [← e1, ← hf0]; rfl, hc'⟩
          | cons g tl =>
            simp only [List.cons_append, List.cons.injEq] at e
            obtain ⟨n, hn, h1, h2⟩ := hpar tl f e.2
            exact ⟨n, hsub n hn, h1, h2⟩
        · cases h

theorem upList_cons (m : Nat) (e : Nat × Option Frac) (q : List (Nat × Option Frac)) :
    upList m (e :: q) = upList e.1 q ++ [(e.1, lenOr0 e.2, m)] := by
  simp [upList]

theorem toRat_lenOr0 (l : Option Frac) : (lenOr0 l).toRat = lenQ l := by
  cases l with
  | none => simp [lenOr0, lenQ, Frac.zero_toRat]
  | some f => simp [lenOr0, lenQ, Frac.toRat]

theorem wsum_append (a b : List (Nat × Frac × Nat)) : wsum (a ++ b) = wsum a + wsum b := by
  simp [wsum]

theorem wsum_upList : ∀ (q : List (Nat × Option Frac)) (m : Nat), wsum (upList m q) = sumQ q
  | [], _ => by simp [upList, wsum, sumQ]
  | e :: q, m => by
    rw [upList_cons, wsum_append, wsum_upList q e.1]
    simp [wsum, sumQ, toRat_lenOr0]; ring

/-- position of a walk entry on the (top-down) path it was built from -/
theorem upList_split : ∀ (q : List (Nat × Option Frac)) (m : Nat) (pre : List (Nat × Frac × Nat)) (x : Nat × Frac × Nat)
    (post : List (Nat × Frac × Nat)), upList m q = pre ++ x :: post →
    ∃ top lk bot, q = top ++ (x.1, lk) :: bot ∧ x.2.1 = lenOr0 lk ∧ wsum pre = sumQ bot ∧
      ((top = [] ∧ x.2.2 = m) ∨ ∃ top' f, top = top' ++ [f] ∧ x.2.2 = f.1)
  | [], _, pre, x, post, h => by simp [upList] at h
  | e :: q, m, pre, x, post, h => by
    rw [upList_cons] at h
    rcases List.eq_nil_or_concat post with rfl | ⟨post', y, rfl⟩
    · have := List.append_inj' h rfl
      obtain ⟨h1, h2⟩ := this
      simp only [List.cons.injEq, and_true] at h2
      subst h2
      refine ⟨[], e.2, q, rfl, rfl, ?_, Or.inl ⟨rfl, rfl⟩⟩
      rw [← h1]; exact wsum_upList q e.1
    · have h' : upList e.1 q ++ [(e.1, lenOr0 e.2, m)] = (pre ++ x :: post') ++ [y] := by
        rw [h]; simp
      obtain ⟨h1, _⟩ := List.append_inj' h' rfl
      obtain ⟨top, lk, bot, hq, hl, hs, hp⟩ := upList_split q e.1 pre x post' h1
      refine ⟨e :: top, lk, bot, by rw [hq]; rfl, hl, hs, Or.inr ?_⟩
      rcases hp with ⟨ht, hx⟩ | ⟨top', f, ht, hx⟩
      · exact ⟨[], e, by rw [ht]; rfl, hx⟩
      · exact ⟨e :: top', f, by rw [ht]; rfl, hx⟩

theorem lenOr0_wf {l : Option Frac} (h : OWF l) : (lenOr0 l).WF := by
  cases l with
  | none => exact Frac.zero_wf
  | some f => exact h f rfl

theorem foldl_pathSum : ∀ (p : List (Nat × Option Frac)) (acc : Frac), (∀ e ∈ p, OWF e.2) → acc.WF →
    (p.foldl (fun acc e => acc + lenOr0 e.2) acc).WF ∧
    (p.foldl (fun acc e => acc + lenOr0 e.2) acc).toRat = acc.toRat + sumQ p
  | [], acc, _, ha => by simp [sumQ, ha]
  | e :: p, acc, hp, ha => by
    have he := lenOr0_wf (hp e (List.mem_cons_self ..))
    obtain ⟨h1, h2⟩ := foldl_pathSum p (acc + lenOr0 e.2) (fun d hd => hp d (List.mem_cons_of_mem _ hd)) (Frac.add_wf _ _)
    refine ⟨h1, ?_⟩
    simp only [List.foldl_cons]
    rw [h2, Frac.add_toRat ha he, toRat_lenOr0]
    simp [sumQ]; ring

theorem pathSum_spec (p : List (Nat × Option Frac)) (hp : ∀ e ∈ p, OWF e.2) :
    (pathSum p).WF ∧ (pathSum p).toRat = sumQ p := by
  have := foldl_pathSum p Frac.zero hp Frac.zero_wf
  simpa [pathSum, Frac.zero_toRat] using this

/-- a node that is somebody's child has a parent -/
def HasChild (x : Nat) (t : T) : Prop := ∃ n ∈ t.nodes, ∃ c ∈ n.cs, c.id = x

mutual
theorem parentOf_isSome (x : Nat) : ∀ t : T, HasChild x t → (parentOf x t).isSome
  | .node i y l s cs, h => by
    simp only [parentOf]
    apply parentOfL_isSome x i cs
    obtain ⟨n, hn, c, hc, hcx⟩ := h
    simp only [T.nodes, List.mem_cons] at hn
    rcases hn with rfl | hn
    · exact ⟨c, hc, Or.inl hcx⟩
    · obtain ⟨d, hd, hnd⟩ := mem_nodesL.mp hn
      exact ⟨d, hd, Or.inr ⟨n, hnd, c, hc, hcx⟩⟩
theorem parentOfL_isSome (x : Nat) (p : Nat) : ∀ cs : List T, (∃ c ∈ cs, c.id = x ∨ HasChild x c) → (parentOfL x p cs).isSome
  | [], h => by obtain ⟨c, hc, _⟩ := h; simp at hc
  | c0 :: cs, h => by
    simp only [parentOfL]
    split
    · rfl
    · rename_i hne
      by_cases h0 : HasChild x c0
      · have := parentOf_isSome x c0 h0
        obtain ⟨r, hr⟩ := Option.isSome_iff_exists.mp this
        simp [hr]
      · have h' : (∃ c ∈ cs, c.id = x ∨ HasChild x c) := by
          obtain ⟨c, hc, hcx⟩ := h
          rcases List.mem_cons.mp hc with rfl | hc'
          · rcases hcx with hcx | hcx
            · simp [hcx] at hne
            · exact absurd hcx h0
          · exact ⟨c, hc', hcx⟩
        have ih := parentOfL_isSome x p cs h'
        cases parentOf x c0 <;> simp [ih]
end


/-- a node of a tree with distinct ids: its ids are distinct, its leaves are the tree's leaves that occur in it -/
theorem sub_facts : ∀ (k : Nat) (t c : T), t.size ≤ k → (idsOf t).Nodup → c ∈ t.nodes →
    (idsOf c).Nodup ∧ (∀ a, a ∈ idsOf c → a ∈ leafIds t → a ∈ leafIds c) ∧ (∀ a, a ∈ leafIds c → a ∈ leafIds t) ∧
    (∀ n ∈ c.nodes, n ∈ t.nodes)
  | 0, .node i y l s cs, _, hk, _, _ => by simp [T.size] at hk
  | k + 1, .node i y l s cs, c, hk, hids, hc => by
    simp only [T.nodes, List.mem_cons] at hc
    rcases hc with rfl | hc
    · exact ⟨hids, fun _ _ h => h, fun _ h => h, fun _ h => h⟩
    · obtain ⟨d, hd, hcd⟩ := mem_nodesL.mp hc
      rw [idsOf_node] at hids
      obtain ⟨hi, hidsL⟩ := List.nodup_cons.mp hids
      have hsz : d.size ≤ k := by have := size_lt_of_mem hd; simp only [T.size] at hk; omega
      obtain ⟨f1, f2, f3, f4⟩ := sub_facts k d c hsz (idsOf_child_nodup hidsL hd) hcd
      have hne : cs ≠ [] := by intro e; subst e; simp at hd
      refine ⟨f1, ?_, ?_, ?_⟩
      · intro a ha hl
        rw [leafIds_node_ne hne] at hl
        have had : a ∈ idsOf d := by
          obtain ⟨n, hn, rfl⟩ := List.mem_map.mp ha
          exact mem_idsOf_of_mem_nodes (f4 n hn)
        exact f2 a ha (leaf_in_child hidsL hd had hl)
      · intro a ha
        rw [leafIds_node_ne hne, leafIdsL_flat]
        exact List.mem_flatMap.mpr ⟨d, hd, f3 a ha⟩
      · intro n hn
        simp only [T.nodes]; exact List.mem_cons_of_mem _ (mem_nodesL.mpr ⟨d, hd, f4 n hn⟩)

theorem contains_of_mem : ∀ (k : Nat) (t n : T), t.size ≤ k → n ∈ t.nodes → contains n.id t = true
  | 0, .node i y l s cs, _, hk, _ => by simp [T.size] at hk
  | k + 1, .node i y l s cs, n, hk, hn => by
    simp only [T.nodes, List.mem_cons] at hn
    simp only [contains, Bool.or_eq_true]
    rcases hn with rfl | hn
    · left; simp [T.id]
    · right
      obtain ⟨d, hd, hnd⟩ := mem_nodesL.mp hn
      have hsz : d.size ≤ k := by have := size_lt_of_mem hd; simp only [T.size] at hk; omega
      exact containsL_of_mem n.id hd (contains_of_mem k d n hsz hnd)

/-- the children of the new root after the inversions: the target's own children first -/
theorem invertTo_cs (p : Nat) (t : T) (hids : (idsOf t).Nodup) (n : T) (hn : n ∈ t.nodes) (hnp : n.id = p) :
    ∃ ups, (invertTo p t).cs = n.cs ++ ups := by
  by_cases hroot : t.id = p
  · have : n = t := List.inj_on_of_nodup_map hids hn (mem_nodes_self t) (hnp.trans hroot.symm)
    subst this
    cases n with
    | node i y l s cs =>
      simp only [T.id] at hroot
      refine ⟨[], ?_⟩
      simp [invertTo, inv, hroot, T.cs]
  · have hc : contains p t = true := hnp ▸ contains_of_mem t.size t n (Nat.le_refl _) hn
    obtain ⟨n', hn', hid', up, hcs, _⟩ := reseed_root_shape p t hroot hc
    have hn'' : n' ∈ t.nodes := by
      cases t with
      | node i y l s cs => simp only [T.nodes, T.cs] at hn' ⊢; exact List.mem_cons_of_mem _ hn'
    have : n' = n := List.inj_on_of_nodup_map hids hn'' hn (hid'.trans hnp.symm)
    subst this
    exact ⟨[up], hcs⟩

theorem reseed_plain_eq (s : Bool) (tgt : Nat) (t : T) (hint : ∀ n ∈ t.nodes, n.id = tgt → n.cs ≠ []) :
    (reseedAt none false s tgt t).1 = if s then sup (invertTo tgt t) else invertTo tgt t := by
  simp only [reseedAt, cleanup, Bool.false_and, Bool.false_eq_true, if_false]
  cases hf : T.find? tgt t with
  | none => simp
  | some n =>
    obtain ⟨h1, h2'⟩ := find_mem tgt t n hf
    have hne := hint n h1 h2'
    have : n.cs.isEmpty = false := by
      cases hcs : n.cs with
      | nil => exact absurd hcs hne
      | cons _ _ => rfl
    simp [this]

theorem rd_sup (s : Bool) (r0 : T) (h2 : 2 ≤ r0.cs.length) (hwf : LenWF r0) (a : Nat) :
    rd (if s then sup r0 else r0) a = rd r0 a := by
  cases s
  · rfl
  · cases r0 with
    | node i y l st cs =>
      match cs, h2 with
      | c :: d :: cs', _ =>
        simp only [if_true]
        rw [sup_root_of_two]
        have S := supL_inv (c :: d :: cs') (fun e he => lenWF_child hwf he)
        simp only [rd, T.cs]
        exact S.down a

/-- the last step: a root child `c0` holding `n1` at half the distance of the pair, `n2` elsewhere -/
theorem equidistant_of_sep (r0 c0 : T) (n1 n2 : Nat) (D v : ℚ) (hnd : (leafIds r0).Nodup) (hc : c0 ∈ r0.cs)
    (hd : down (toLT c0) n1 = some v) (hn2 : n2 ∉ leafIds c0) (hn2r : n2 ∈ leafIds r0)
    (hD : pathLen r0 n1 n2 = some D) (hv : v = D / 2) : rd r0 n1 = some (D / 2) ∧ rd r0 n2 = some (D / 2) := by
  have hne : r0.cs ≠ [] := by intro e; rw [e] at hc; simp at hc
  rw [leafIds_eq_LT r0 hne] at hnd hn2r
  have h1 : n1 ∈ leaves (toLT c0) := mem_of_down_some hd
  have hrd1 : rd r0 n1 = some v := by
    simp only [rd]; rw [downL_of_mem _ (toLT c0) n1 hnd (toLT_mem hc) h1, hd]
  obtain ⟨y, hy⟩ := get_down hn2r
  have hsep := sep_of_nodup _ (toLT c0) n1 n2 hnd (toLT_mem hc) h1 (by rw [← leafIds_eq_leaves]; exact hn2)
  simp only [pathLen] at hD
  rw [distL_sep _ n1 n2 hsep] at hD
  simp only [rd] at hrd1
  rw [hrd1, hy] at hD
  simp only [Option.bind_some, Option.map_some, Option.some.injEq] at hD
  refine ⟨by simp only [rd]; rw [hrd1, hv], ?_⟩
  simp only [rd]; rw [hy]; congr 1; rw [hv] at hD; linarith


theorem child_mem_nodes {n c : T} (h : c ∈ n.cs) : c ∈ n.nodes := by
  cases n with
  | node i y l s cs =>
    simp only [T.cs] at h
    simp only [T.nodes]; exact List.mem_cons_of_mem _ (mem_nodesL.mpr ⟨c, h, mem_nodes_self c⟩)

/-- what `rerootAtMidpoint` does with the answer of the walk -/
def midResult (s : Bool) (nw : Nat) (t : T) : Mid → Option T
  | .fail => none
  | .onNode nd => some (reseedAt none false s nd t).1
  | .onEdge h x => match t.find? h with
    | none => none
    | some hn => some (reseedAt none false s nw (splitEdge h nw (some (lenOr0 hn.len - x)) (some x) t)).1

theorem rerootAtMidpoint_eq (s : Bool) (a b nw : Nat) (t : T) :
    rerootAtMidpoint s a b nw t = (midResult s nw t (midpointOf a b t)).map (fun r => (r, some true)) := by
  unfold rerootAtMidpoint
  cases midpointOf a b t with
  | fail => rfl
  | onNode nd => rfl
  | onEdge h x =>
    simp only [midResult]
    cases T.find? h t <;> rfl

/-- the heart of clause (b): for the ordered pair `(n1, n2)` whose root paths the walk was run on -/
theorem midpoint_core (s : Bool) (n1 n2 nw : Nat) (t : T) (P1 P2 : List (Nat × Option Frac))
    (hne12 : n1 ≠ n2) (hP1 : rootPath n1 t = some P1) (hP2 : rootPath n2 t = some P2)
    (hids : (idsOf t).Nodup) (hfresh : nw ∉ idsOf t) (h2 : 2 ≤ t.cs.length) (hwf : LenWF t)
    (hl1 : n1 ∈ leafIds t) (hl2 : n2 ∈ leafIds t) (r : T)
    (hr : midResult s nw t (midWalk (upList (dropCommon t.id P1 P2).1 (dropCommon t.id P1 P2).2.1)
        (Frac.half (pathSum (dropCommon t.id P1 P2).2.1 + pathSum (dropCommon t.id P1 P2).2.2))) = some r) :
    ∃ D, pathLen t n1 n2 = some D ∧ rd r n1 = some (D / 2) ∧ rd r n2 = some (D / 2) := by
  obtain ⟨M, c1, c2, q1, q2, hd, F⟩ := mrca_spec n1 n2 hne12 t.size t P1 P2 t.id (Nat.le_refl _) hP1 hP2 hids hl1 hl2
  rw [hd] at hr
  simp only at hr
  obtain ⟨pre0, hpre0, eP1, eP2⟩ := F.pre
  obtain ⟨x, y, hx, hy, hdist⟩ := F.dist
  obtain ⟨_, _, _, fM4⟩ := sub_facts t.size t M (Nat.le_refl _) hids F.memM
  have hc1t : c1 ∈ t.nodes := fM4 c1 (child_mem_nodes F.mem1)
  have hc2t : c2 ∈ t.nodes := fM4 c2 (child_mem_nodes F.mem2)
  obtain ⟨g1, g2, g3, g4⟩ := sub_facts t.size t c1 (Nat.le_refl _) hids hc1t
  obtain ⟨k1, _, _, _⟩ := sub_facts t.size t c2 (Nat.le_refl _) hids hc2t
  have hx' : x = sumQ q1 := by
    have := rootPath_down n1 c1.size c1 q1 (Nat.le_refl _) F.rp1 g1 F.la
    rw [hx] at this; exact Option.some.inj this
  have hy' : y = sumQ q2 := by
    have := rootPath_down n2 c2.size c2 q2 (Nat.le_refl _) F.rp2 k1 F.lb
    rw [hy] at this; exact Option.some.inj this
  have hown : ∀ (P : List (Nat × Option Frac)) (n : Nat), rootPath n t = some P → ∀ e ∈ P, OWF e.2 := by
    intro P n hP e he
    obtain ⟨nn, hnn, _, hlen⟩ := (rootPath_basic n t.size t P (Nat.le_refl _) hP).2.2 e he
    intro f hf; exact hwf nn hnn f (hlen.trans hf)
  have ho1 : ∀ e ∈ q1, OWF e.2 := fun e he => hown P1 n1 hP1 e (by rw [eP1]; exact List.mem_append_right _ he)
  have ho2 : ∀ e ∈ q2, OWF e.2 := fun e he => hown P2 n2 hP2 e (by rw [eP2]; exact List.mem_append_right _ he)
  obtain ⟨w1, s1⟩ := pathSum_spec q1 ho1
  obtain ⟨w2, s2⟩ := pathSum_spec q2 ho2
  obtain ⟨plen, hplen⟩ : ∃ plen, plen = Frac.half (pathSum q1 + pathSum q2) := ⟨_, rfl⟩
  rw [← hplen] at hr
  have hpw : plen.WF := by rw [hplen]; exact Frac.half_wf _
  have hpr : plen.toRat = (x + y) / 2 := by
    rw [hplen, Frac.half_toRat (Frac.add_wf _ _), Frac.add_toRat w1 w2, s1, s2, hx', hy']
  have hD : pathLen t n1 n2 = some (x + y) := by rw [pathLen_eq_dist]; exact hdist
  refine ⟨x + y, hD, ?_⟩
  have hww : ∀ e ∈ upList M.id q1, e.2.1.WF := by
    intro e he
    obtain ⟨pre, post, hw⟩ := List.append_of_mem he
    obtain ⟨top, lk, bot, hq, hl, _, _⟩ := upList_split q1 M.id pre e post hw
    rw [hl]; exact lenOr0_wf (ho1 (e.1, lk) (by rw [hq]; simp))
  obtain ⟨spE, spN, _⟩ := midpoint_walk_spec (upList M.id q1) plen hww hpw
  have hndt := leafIds_nodup_of_ids hids
  -- the node of a walk entry
  have key : ∀ pre e post, upList M.id q1 = pre ++ e :: post → ∃ c ∈ t.nodes, c.id = e.1 ∧
      (∃ n ∈ t.nodes, n.id = e.2.2 ∧ c ∈ n.cs) ∧ down (toLT c) n1 = some (e.2.1.toRat + wsum pre) ∧ n2 ∉ leafIds c ∧
      lenQ c.len = e.2.1.toRat := by
    intro pre e post hw
    obtain ⟨top, lk, bot, hq, hl, hs, hp⟩ := upList_split q1 M.id pre e post hw
    obtain ⟨c, hcm, hcid, hclen, hrc, htop, hpar⟩ :=
      rootPath_suffix n1 c1.size c1 top bot e.1 lk (Nat.le_refl _) (hq ▸ F.rp1)
    have hct : c ∈ t.nodes := g4 c hcm
    obtain ⟨u1, u2, u3, u4⟩ := sub_facts c1.size c1 c (Nat.le_refl _) g1 hcm
    have hn1c : n1 ∈ leafIds c := u2 n1 (rootPath_basic n1 c.size c _ (Nat.le_refl _) hrc).2.1 F.la
    have hdn := rootPath_down n1 c.size c _ (Nat.le_refl _) hrc u1 hn1c
    refine ⟨c, hct, hcid, ?_, ?_, fun h => F.nb (u3 n2 h), ?_⟩
    · rcases hp with ⟨ht, hx2⟩ | ⟨top', f, ht, hx2⟩
      · have := htop ht; subst this; exact ⟨M, F.memM, hx2.symm, F.mem1⟩
      · obtain ⟨n, hn, hnid, hcn⟩ := hpar top' f ht; exact ⟨n, g4 n hn, hnid.trans hx2.symm, hcn⟩
    · rw [hdn, hl, toRat_lenOr0, hs]; simp [sumQ]
    · rw [hclen, hl, toRat_lenOr0]
  cases hmw : midWalk (upList M.id q1) plen with
  | fail => rw [hmw] at hr; simp [midResult] at hr
  | onNode nd =>
    rw [hmw] at hr; simp only [midResult, Option.some.injEq] at hr
    obtain ⟨pre, e, post, hw, hpar, hsum⟩ := spN nd hmw
    obtain ⟨c, hct, hcid, ⟨n, hn, hnid, hcn⟩, hdn, hn2c, _⟩ := key pre e post hw
    have hnne : n.cs ≠ [] := by intro e0; rw [e0] at hcn; simp at hcn
    have hint := hint_of_ids hids hn (hnid.trans hpar) hnne
    have hreach := invert_is_chain nd t hint h2
    have K := reseed_invariant_full none false false nd t hint h2 hwf hndt
    rw [reseed_plain_eq false nd t hint] at K
    simp only [Bool.false_eq_true, if_false] at K
    obtain ⟨ups, hcs⟩ := invertTo_cs nd t hids n hn (hnid.trans hpar)
    have E := equidistant_of_sep (invertTo nd t) c n1 n2 (x + y) (e.2.1.toRat + wsum pre) (K.ids.nodup_iff.mpr hndt)
      (by rw [hcs]; exact List.mem_append_left _ hcn) hdn hn2c (K.ids.mem_iff.mpr hl2)
      (by rw [K.paths n1 n2 hl1 hl2]; exact hD) (by rw [← hpr, ← hsum]; ring)
    rw [← hr, reseed_plain_eq s nd t hint,
      rd_sup s _ (reach_two hreach h2) (reach_lenWF hreach hwf), rd_sup s _ (reach_two hreach h2) (reach_lenWF hreach hwf)]
    exact E
  | onEdge hh xx =>
    rw [hmw] at hr; simp only [midResult] at hr
    obtain ⟨pre, e, post, hw, hid, hsum, hlt⟩ := spE hh xx hmw
    obtain ⟨c, hct, hcid, ⟨n, hn, hnid, hcn⟩, hdn, hn2c, hlc⟩ := key pre e post hw
    have hxw : xx.WF := midWalk_wf _ _ hh xx hpw hmw
    cases hfind : T.find? hh t with
    | none => rw [hfind] at hr; simp at hr
    | some hnode =>
      rw [hfind] at hr; simp only [Option.some.injEq] at hr
      obtain ⟨hnm, hnid'⟩ := find_mem hh t hnode hfind
      have ehc : hnode = c := List.inj_on_of_nodup_map hids hnm hct (hnid'.trans (hcid.trans hid).symm)
      subst ehc
      obtain ⟨l1, hl1d⟩ : ∃ l1 : Option Frac, l1 = some (lenOr0 hnode.len - xx) := ⟨_, rfl⟩
      obtain ⟨l2, hl2d⟩ : ∃ l2 : Option Frac, l2 = some xx := ⟨_, rfl⟩
      rw [← hl1d, ← hl2d] at hr
      have hl1w : OWF l1 := fun f hf => by rw [hl1d] at hf; cases hf; exact Frac.sub_wf _ _
      have hl2w : OWF l2 := fun f hf => by rw [hl2d] at hf; cases hf; exact hxw
      have hlw : (lenOr0 hnode.len).WF := lenOr0_wf (fun f hf => hwf hnode hnm f hf)
      have hsum' : ∀ c' ∈ t.nodes, c'.id = hh → lenQ l1 + lenQ l2 = lenQ c'.len := by
        intro c' hc' hc'id
        have : c' = hnode := List.inj_on_of_nodup_map hids hc' hnm (hc'id.trans hnid'.symm)
        subst this
        rw [hl1d, hl2d]
        have e1 : lenQ (some (lenOr0 c'.len - xx)) = (lenOr0 c'.len).toRat - xx.toRat := Frac.sub_toRat hlw hxw
        rw [e1, toRat_lenOr0]; simp [lenQ, Frac.toRat]
      obtain ⟨p, hp⟩ := Option.isSome_iff_exists.mp (parentOf_isSome hh t ⟨n, hn, hnode, hcn, hcid.trans hid⟩)
      have K := reroot_at_edge_invariant false hh nw l1 l2 t hids hfresh h2 hwf hl1w hl2w hsum'
      obtain ⟨_, c', hc'm, hc'id, up, hcs, _⟩ := reroot_at_edge_position_partial hh nw l1 l2 t p hfresh hp
      have ec' : c' = hnode := List.inj_on_of_nodup_map hids hc'm hnm (hc'id.trans hnid'.symm)
      subst ec'
      have B := splitEdge_basic hh nw l1 l2 hl1w hl2w t.size t (Nat.le_refl _) hids hwf
      have Fr := splitEdge_fresh hh nw l1 l2 t.size t (Nat.le_refl _) hfresh
      obtain ⟨u, hu⟩ : ∃ u, u = splitEdge hh nw l1 l2 t := ⟨_, rfl⟩
      rw [← hu] at B Fr hr
      have hintu : ∀ n ∈ u.nodes, n.id = nw → n.cs ≠ [] := by
        intro n hn hid
        obtain ⟨c'', _, _, e⟩ := Fr.2 n hn hid
        rw [e]; simp [T.cs]
      have h2u : 2 ≤ u.cs.length := by rw [B.2]; exact h2
      have hreach := invert_is_chain nw u hintu h2u
      have e0 : (rerootAtEdge false hh nw l1 l2 t).1 = invertTo nw u := by
        show (reseedAt none false false nw (splitEdge hh nw l1 l2 t)).1 = _
        rw [← hu, reseed_plain_eq false nw u hintu]; simp
      rw [e0] at K hcs
      have hdn' : down (toLT (c'.withLen l2)) n1 = some (xx.toRat + wsum pre) := by
        rw [down_withLen, hdn, hl2d, hlc]
        simp only [Option.map_some, lenQ]
        congr 1
        show _ = xx.toRat + wsum pre
        simp only [Frac.toRat]; ring
      have E := equidistant_of_sep (invertTo nw u) (c'.withLen l2) n1 n2 (x + y) (xx.toRat + wsum pre)
        (K.ids.nodup_iff.mpr hndt) (by rw [hcs]; simp) hdn' (by rw [leafIds_withLen]; exact hn2c) (K.ids.mem_iff.mpr hl2)
        (by rw [K.paths n1 n2 hl1 hl2]; exact hD) (by rw [← hpr, ← hsum]; ring)
      rw [← hr, reseed_plain_eq s nw u hintu,
        rd_sup s _ (reach_two hreach h2u) (reach_lenWF hreach B.1), rd_sup s _ (reach_two hreach h2u) (reach_lenWF hreach B.1)]
      exact E


/-- `midpointOf` is the walk on the root paths of the pair, in one of the two orders -/
theorem midpointOf_eq (a b : Nat) (t : T) (hmid : midpointOf a b t ≠ .fail) (hab : a ≠ b) :
    ∃ n1 n2 P1 P2, ((n1 = a ∧ n2 = b) ∨ (n1 = b ∧ n2 = a)) ∧ rootPath n1 t = some P1 ∧ rootPath n2 t = some P2 ∧
      midpointOf a b t = midWalk (upList (dropCommon t.id P1 P2).1 (dropCommon t.id P1 P2).2.1)
        (Frac.half (pathSum (dropCommon t.id P1 P2).2.1 + pathSum (dropCommon t.id P1 P2).2.2)) := by
  unfold midpointOf at hmid ⊢
  cases hf : firstLeafOf a b t with
  | none => simp [hf] at hmid
  | some s0 =>
    simp only [hf] at hmid ⊢
    have hs0 : s0 = a ∨ s0 = b := by
      have := List.find?_some hf
      simpa using this
    cases hp0 : rootPath s0 t with
    | none => rw [hp0] at hmid; exact absurd rfl hmid
    | some p0 =>
      cases hp1 : rootPath (if (s0 == a) = true then b else a) t with
      | none => rw [hp0, hp1] at hmid; exact absurd rfl hmid
      | some p1 =>
        simp only [hp0, hp1]
        have hs1 : ((s0 = a ∧ (if (s0 == a) = true then b else a) = b) ∨ (s0 = b ∧ (if (s0 == a) = true then b else a) = a)) := by
          rcases hs0 with rfl | rfl
          · left; simp
          · right
            have : (s0 == a) = false := by simpa using fun e : s0 = a => hab e.symm
            simp [this]
        by_cases hc : Frac.lt (pathSum (p0.drop 1)) (pathSum (p1.drop 1)) = true
        · refine ⟨_, s0, p1, p0, ?_, hp1, hp0, ?_⟩
          · rcases hs1 with ⟨h1, h2⟩ | ⟨h1, h2⟩
            · exact Or.inr ⟨h2, h1⟩
            · exact Or.inl ⟨h2, h1⟩
          · simp only [hc, if_true]
        · refine ⟨s0, _, p0, p1, hs1, hp0, hp1, ?_⟩
          simp only [hc, Bool.false_eq_true, if_false]

end DendroModel.C07.Aux

namespace DendroModel.C07
open DendroModel DendroModel.C07.Aux DendroModel.C07.Path

/-- **clause (b), equidistance, every case:** after `reroot_at_midpoint` was handed the pair `(a, b)` of leaves, BOTH leaves are at
    exactly half their path length from the new root — over exact fractions, whether the midpoint falls inside an edge or exactly
    on an existing node (the branch the library got wrong), under any ties, with and without unifurcation suppression, for every
    tree with distinct node ids, a seed with ≥ 2 children and well-formed fractions (no sign condition on the lengths).
    Nothing about the walk is assumed: `rootPath`/`dropCommon`/`upList`/`midWalk` are tied to `Path.dist` here. -/
theorem midpoint_equidistant (s : Bool) (a b nw : Nat) (t : T) (r : T × Option Bool)
    (h : rerootAtMidpoint s a b nw t = some r)
    (hids : (idsOf t).Nodup) (hfresh : nw ∉ idsOf t) (h2 : 2 ≤ t.cs.length) (hwf : LenWF t)
    (ha : a ∈ leafIds t) (hb : b ∈ leafIds t) (hab : a ≠ b) :
    ∃ D, pathLen t a b = some D ∧ rd r.1 a = some (D / 2) ∧ rd r.1 b = some (D / 2) := by
  rw [rerootAtMidpoint_eq] at h
  cases hm : midResult s nw t (midpointOf a b t) with
  | none => rw [hm] at h; simp at h
  | some r0 =>
    rw [hm] at h
    simp only [Option.map_some, Option.some.injEq] at h
    subst h
    have hmid : midpointOf a b t ≠ .fail := by intro e; rw [e] at hm; simp [midResult] at hm
    obtain ⟨n1, n2, P1, P2, hor, hP1, hP2, heq⟩ := midpointOf_eq a b t hmid hab
    rw [heq] at hm
    rcases hor with ⟨rfl, rfl⟩ | ⟨rfl, rfl⟩
    · exact midpoint_core s n1 n2 nw t P1 P2 hab hP1 hP2 hids hfresh h2 hwf ha hb r0 hm
    · obtain ⟨D, hD, h1, h2'⟩ := midpoint_core s n1 n2 nw t P1 P2 (Ne.symm hab) hP1 hP2 hids hfresh h2 hwf hb ha r0 hm
      refine ⟨D, ?_, h2', h1⟩
      rw [pathLen_eq_dist, dist_comm, ← pathLen_eq_dist]; exact hD

/-- **clause (b) as the statement words it:** if the pair handed to `reroot_at_midpoint` is a pair of most distant leaves of the
    tree, then after the operation it still is a pair of most distant leaves (all path lengths are kept) and both are at half
    that maximal distance from the new root. -/
theorem midpoint_most_distant_pair_equidistant (s : Bool) (a b nw : Nat) (t : T) (r : T × Option Bool)
    (h : rerootAtMidpoint s a b nw t = some r)
    (hids : (idsOf t).Nodup) (hfresh : nw ∉ idsOf t) (h2 : 2 ≤ t.cs.length) (hwf : LenWF t)
    (ha : a ∈ leafIds t) (hb : b ∈ leafIds t) (hab : a ≠ b)
    (hmax : ∀ c d, c ∈ leafIds t → d ∈ leafIds t → ∀ D D', pathLen t a b = some D → pathLen t c d = some D' → D' ≤ D) :
    ∃ D, pathLen r.1 a b = some D ∧
      (∀ c d, c ∈ leafIds r.1 → d ∈ leafIds r.1 → ∀ D', pathLen r.1 c d = some D' → D' ≤ D) ∧
      rd r.1 a = some (D / 2) ∧ rd r.1 b = some (D / 2) := by
  have K := reroot_at_midpoint_invariant s a b nw t r h hids hfresh h2 hwf
  obtain ⟨D, hD, h1, h2'⟩ := midpoint_equidistant s a b nw t r h hids hfresh h2 hwf ha hb hab
  refine ⟨D, by rw [K.paths a b ha hb]; exact hD, ?_, h1, h2'⟩
  intro c d hc hd D' hD'
  have hc' := K.ids.mem_iff.mp hc
  have hd' := K.ids.mem_iff.mp hd
  rw [K.paths c d hc' hd'] at hD'
  exact hmax c d hc' hd' D D' hD hD'

end DendroModel.C07

namespace DendroModel.C07
open DendroModel DendroModel.C07.Aux DendroModel.C07.Path

/-- `((A:1,B:1):1,(C:1,D:1):1)`: the midpoint of A–C is exactly the seed -/
def exTree2 : T :=
  .node 0 none none none
    [.node 1 none (some ⟨1, 1⟩) none [.node 2 (some 0) (some ⟨1, 1⟩) none [], .node 3 (some 1) (some ⟨1, 1⟩) none []],
     .node 4 none (some ⟨1, 1⟩) none [.node 5 (some 2) (some ⟨1, 1⟩) none [], .node 6 (some 3) (some ⟨1, 1⟩) none []]]

/-- the hypotheses of `midpoint_equidistant` hold on the on-node case (midpoint = the seed, ties everywhere) ... -/
example : ∃ r, rerootAtMidpoint true 2 5 7 exTree2 = some r ∧ (idsOf exTree2).Nodup ∧ 7 ∉ idsOf exTree2 ∧
    2 ≤ exTree2.cs.length ∧ 2 ∈ leafIds exTree2 ∧ 5 ∈ leafIds exTree2 :=
  ⟨_, rfl, by decide, by decide, by decide, by decide, by decide⟩
/-- ... and on the in-edge case (`exTree`: A–C = 4, the midpoint lies inside C's edge) -/
example : ∃ r, rerootAtMidpoint true 2 4 5 exTree = some r ∧ 2 ∈ leafIds exTree ∧ 4 ∈ leafIds exTree ∧ pathLen exTree 2 4 = some 4 :=
  ⟨_, rfl, by decide, by decide, by
    simp [pathLen, exTree, T.cs, toLTL, toLT, distL, Path.dist, down, downL, lenQ]; norm_num⟩

/-- `Tree.suppress_unifurcations` on its own keeps the leaves, the total length and every path length (any tree, unary seed
    included: the seed's own length moves to the child that replaces it) -/
theorem suppress_unifurcations_invariant (t : T) (hwf : LenWF t) : Keeps t (sup t) := by
  have S := sup_inv t hwf
  refine ⟨by rw [leafIds_eq_leaves, leafIds_eq_leaves, S.leaves], S.total, fun a b _ _ => ?_⟩
  rw [pathLen_eq_dist, pathLen_eq_dist, S.dist]

/-- `Tree.collapse_basal_bifurcation` on its own keeps the leaves, the total length and every path length -/
theorem collapse_basal_invariant (t : T) (hwf : LenWF t) (hnd : (leafIds t).Nodup) : Keeps t (collapseBasal t) := by
  have C := collapse_inv t hwf hnd
  exact ⟨by rw [C.ids], C.total, fun a b _ _ => C.paths a b⟩

example : LenWF exTree ∧ (leafIds exTree).Nodup ∧ (collapseBasal exTree).cs.length = 3 := by
  refine ⟨?_, by decide, by decide⟩
  intro n hn f hf
  simp [exTree, T.nodes, T.nodesL] at hn
  rcases hn with rfl | rfl | rfl | rfl | rfl <;> simp [T.len] at hf <;> subst hf <;> decide

end DendroModel.C07

namespace DendroModel.C07.Aux
open DendroModel DendroModel.C07 DendroModel.C07.Path

/-! ### the walk never gives up -/

theorem rootPathL_some_of (x : Nat) : ∀ (cs : List T) (c : T) (p : List (Nat × Option Frac)), c ∈ cs → rootPath x c = some p →
    ∃ p', rootPathL x cs = some p'
  | [], _, _, hc, _ => by simp at hc
  | c0 :: cs, c, p, hc, hp => by
    simp only [rootPathL]
    cases h0 : rootPath x c0 with
    | some p0 => exact ⟨p0, rfl⟩
    | none =>
      rcases List.mem_cons.mp hc with rfl | hc'
      · rw [hp] at h0; cases h0
      · exact rootPathL_some_of x cs c p hc' hp

theorem rootPath_some_of_mem (x : Nat) : ∀ (k : Nat) (t : T), t.size ≤ k → x ∈ idsOf t → ∃ p, rootPath x t = some p
  | 0, .node i y l s cs, hk, _ => by simp [T.size] at hk
  | k + 1, .node i y l s cs, hk, hx => by
    simp only [rootPath]
    by_cases hi : (i == x) = true
    · simp [hi]
    · rw [idsOf_node] at hx
      have hx' : x ∈ idsOfL cs := by
        rcases List.mem_cons.mp hx with rfl | h
        · simp at hi
        · exact h
      rw [idsOfL_flat] at hx'
      obtain ⟨c, hc, hxc⟩ := List.mem_flatMap.mp hx'
      have hsz : c.size ≤ k := by have := size_lt_of_mem hc; simp only [T.size] at hk; omega
      obtain ⟨p, hp⟩ := rootPath_some_of_mem x k c hsz hxc
      obtain ⟨p', hp'⟩ := rootPathL_some_of x cs c p hc hp
      refine ⟨(i, l) :: p', ?_⟩
      simp [hi, hp']

theorem find_some_of_mem : ∀ (k : Nat) (t n : T), t.size ≤ k → n ∈ t.nodes → ∃ m, T.find? n.id t = some m
  | 0, .node i y l s cs, _, hk, _ => by simp [T.size] at hk
  | k + 1, .node i y l s cs, n, hk, hn => by
    simp only [T.find?]
    by_cases hi : (n.id == i) = true
    · simp [hi]
    · simp only [hi, if_false]
      simp only [T.nodes, List.mem_cons] at hn
      rcases hn with rfl | hn
      · simp [T.id] at hi
      · obtain ⟨d, hd, hnd⟩ := mem_nodesL.mp hn
        have hsz : d.size ≤ k := by have := size_lt_of_mem hd; simp only [T.size] at hk; omega
        obtain ⟨m, hm⟩ := find_some_of_mem k d n hsz hnd
        -- the first child in which it is found
        have : ∀ (ds : List T), d ∈ ds → ∃ m', T.findL? n.id ds = some m' := by
          intro ds
          induction ds with
          | nil => intro h; simp at h
          | cons d0 ds ih =>
            intro h
            simp only [T.findL?]
            cases h0 : T.find? n.id d0 with
            | some m0 => exact ⟨m0, rfl⟩
            | none =>
              rcases List.mem_cons.mp h with rfl | h'
              · rw [hm] at h0; cases h0
              · exact ih h'
        exact this cs hd

theorem sumQ_append (p q : List (Nat × Option Frac)) : sumQ (p ++ q) = sumQ p + sumQ q := by
  simp [sumQ]

theorem frac_lt_asymm' (a b : Frac) (h1 : Frac.lt a b = true) : Frac.lt b a = false := by
  cases h2 : Frac.lt b a with
  | false => rfl
  | true =>
    simp only [Frac.lt, decide_eq_true_eq] at h1 h2
    exact absurd h1 (not_lt.mpr (le_of_lt h2))

/-- `midpointOf` is the walk on the root paths of the pair, started from the leaf that is at least as far from the seed -/
theorem midpointOf_eq2 (a b : Nat) (t : T) (ha : a ∈ leafIds t) (hb : b ∈ leafIds t) (hab : a ≠ b) :
    ∃ n1 n2 P1 P2, ((n1 = a ∧ n2 = b) ∨ (n1 = b ∧ n2 = a)) ∧ rootPath n1 t = some P1 ∧ rootPath n2 t = some P2 ∧
      Frac.lt (pathSum (P1.drop 1)) (pathSum (P2.drop 1)) = false ∧
      midpointOf a b t = midWalk (upList (dropCommon t.id P1 P2).1 (dropCommon t.id P1 P2).2.1)
        (Frac.half (pathSum (dropCommon t.id P1 P2).2.1 + pathSum (dropCommon t.id P1 P2).2.2)) := by
  obtain ⟨pa, hpa⟩ := rootPath_some_of_mem a t.size t (Nat.le_refl _) (leafIds_sub_ids t a ha)
  obtain ⟨pb, hpb⟩ := rootPath_some_of_mem b t.size t (Nat.le_refl _) (leafIds_sub_ids t b hb)
  unfold midpointOf
  cases hf : firstLeafOf a b t with
  | none =>
    have := List.find?_eq_none.mp hf a ha
    simp at this
  | some s0 =>
    simp only [hf]
    have hs0 : s0 = a ∨ s0 = b := by
      have := List.find?_some hf
      simpa using this
    have hs1 : ((s0 = a ∧ (if (s0 == a) = true then b else a) = b) ∨ (s0 = b ∧ (if (s0 == a) = true then b else a) = a)) := by
      rcases hs0 with rfl | rfl
      · left; simp
      · right
        have : (s0 == a) = false := by simpa using fun e : s0 = a => hab e.symm
        simp [this]
    obtain ⟨p0, hp0⟩ : ∃ p0, rootPath s0 t = some p0 := by
      rcases hs0 with rfl | rfl
      · exact ⟨pa, hpa⟩
      · exact ⟨pb, hpb⟩
    obtain ⟨p1, hp1⟩ : ∃ p1, rootPath (if (s0 == a) = true then b else a) t = some p1 := by
      rcases hs1 with ⟨_, h⟩ | ⟨_, h⟩
      · rw [h]; exact ⟨pb, hpb⟩
      · rw [h]; exact ⟨pa, hpa⟩
    simp only [hp0, hp1]
    by_cases hc : Frac.lt (pathSum (p0.drop 1)) (pathSum (p1.drop 1)) = true
    · refine ⟨_, s0, p1, p0, ?_, hp1, hp0, frac_lt_asymm' _ _ hc, ?_⟩
      · rcases hs1 with ⟨h1, h2⟩ | ⟨h1, h2⟩
        · exact Or.inr ⟨h2, h1⟩
        · exact Or.inl ⟨h2, h1⟩
      · simp only [hc, if_true]
    · refine ⟨s0, _, p0, p1, hs1, hp0, hp1, by simpa using hc, ?_⟩
      simp only [hc, Bool.false_eq_true, if_false]

end DendroModel.C07.Aux

namespace DendroModel.C07
open DendroModel DendroModel.C07.Aux DendroModel.C07.Path

/-- **the walk of `reroot_at_midpoint` never gives up** (the library's `assert break_on_node is not None or target_edge is not
    None` cannot fire, the model never answers `fail`): for two different leaves of a tree with distinct node ids and
    well-formed fractions — any lengths, negative ones included: starting from the leaf at least as far from the seed, the
    lengths up to the MRCA sum to at least half the distance of the pair. -/
theorem midpoint_never_fails (a b : Nat) (t : T) (hids : (idsOf t).Nodup) (hwf : LenWF t)
    (ha : a ∈ leafIds t) (hb : b ∈ leafIds t) (hab : a ≠ b) : midpointOf a b t ≠ .fail := by
  obtain ⟨n1, n2, P1, P2, hor, hP1, hP2, hdeep, heq⟩ := midpointOf_eq2 a b t ha hb hab
  have hl : n1 ∈ leafIds t ∧ n2 ∈ leafIds t ∧ n1 ≠ n2 := by
    rcases hor with ⟨rfl, rfl⟩ | ⟨rfl, rfl⟩
    · exact ⟨ha, hb, hab⟩
    · exact ⟨hb, ha, Ne.symm hab⟩
  obtain ⟨hl1, hl2, hne12⟩ := hl
  rw [heq]
  obtain ⟨M, c1, c2, q1, q2, hd, F⟩ := mrca_spec n1 n2 hne12 t.size t P1 P2 t.id (Nat.le_refl _) hP1 hP2 hids hl1 hl2
  rw [hd]
  simp only
  obtain ⟨pre0, hpre0, eP1, eP2⟩ := F.pre
  have hown : ∀ (P : List (Nat × Option Frac)) (n : Nat), rootPath n t = some P → ∀ e ∈ P, OWF e.2 := by
    intro P n hP e he
    obtain ⟨nn, hnn, _, hlen⟩ := (rootPath_basic n t.size t P (Nat.le_refl _) hP).2.2 e he
    intro f hf; exact hwf nn hnn f (hlen.trans hf)
  have ho1 : ∀ e ∈ q1, OWF e.2 := fun e he => hown P1 n1 hP1 e (by rw [eP1]; exact List.mem_append_right _ he)
  have ho2 : ∀ e ∈ q2, OWF e.2 := fun e he => hown P2 n2 hP2 e (by rw [eP2]; exact List.mem_append_right _ he)
  obtain ⟨w1, s1⟩ := pathSum_spec q1 ho1
  obtain ⟨w2, s2⟩ := pathSum_spec q2 ho2
  obtain ⟨wd1, sd1⟩ := pathSum_spec (P1.drop 1) (fun e he => hown P1 n1 hP1 e (List.mem_of_mem_drop he))
  obtain ⟨wd2, sd2⟩ := pathSum_spec (P2.drop 1) (fun e he => hown P2 n2 hP2 e (List.mem_of_mem_drop he))
  have hdrop : ∀ q : List (Nat × Option Frac), (pre0 ++ q).drop 1 = pre0.drop 1 ++ q := by
    intro q
    cases pre0 with
    | nil => exact absurd rfl hpre0
    | cons e tl => simp
  have hge : sumQ q2 ≤ sumQ q1 := by
    have := (Frac.lt_false_iff wd1 wd2).mp hdeep
    rw [sd1, sd2, eP1, eP2, hdrop, hdrop, sumQ_append, sumQ_append] at this
    linarith
  have hpw : (Frac.half (pathSum q1 + pathSum q2)).WF := Frac.half_wf _
  have hpr : (Frac.half (pathSum q1 + pathSum q2)).toRat = (sumQ q1 + sumQ q2) / 2 := by
    rw [Frac.half_toRat (Frac.add_wf _ _), Frac.add_toRat w1 w2, s1, s2]
  have hww : ∀ e ∈ upList M.id q1, e.2.1.WF := by
    intro e he
    obtain ⟨pre, post, hw⟩ := List.append_of_mem he
    obtain ⟨top, lk, bot, hq, hl, _, _⟩ := upList_split q1 M.id pre e post hw
    rw [hl]; exact lenOr0_wf (ho1 (e.1, lk) (by rw [hq]; simp))
  obtain ⟨_, _, spF⟩ := midpoint_walk_spec (upList M.id q1) _ hww hpw
  intro hfail
  rcases spF hfail with h0 | h0
  · obtain ⟨⟨tl, htl⟩, _, _⟩ := rootPath_basic n1 c1.size c1 q1 (Nat.le_refl _) F.rp1
    rw [htl, upList_cons] at h0
    simp at h0
  · rw [wsum_upList, hpr] at h0
    linarith

/-- **`reroot_at_midpoint` always answers** for two different leaves (the model's `none`, which the driver prints as
    `AssertionError`, is unreachable on such input): with `midpoint_equidistant` the result is a tree in which both leaves are at
    half their distance from the root. -/
theorem reroot_at_midpoint_defined (s : Bool) (a b nw : Nat) (t : T) (hids : (idsOf t).Nodup) (hwf : LenWF t)
    (ha : a ∈ leafIds t) (hb : b ∈ leafIds t) (hab : a ≠ b) : (rerootAtMidpoint s a b nw t).isSome := by
  have hnf := midpoint_never_fails a b t hids hwf ha hb hab
  rw [rerootAtMidpoint_eq]
  cases hm : midpointOf a b t with
  | fail => exact absurd hm hnf
  | onNode nd => simp [midResult]
  | onEdge h x =>
    -- the head of the edge is a node of the tree
    obtain ⟨n1, n2, P1, P2, _, hP1, _, _, heq⟩ := midpointOf_eq2 a b t ha hb hab
    rw [heq] at hm
    have hmem : ∀ (w : List (Nat × Frac × Nat)) (plen : Frac), midWalk w plen = .onEdge h x → ∃ e ∈ w, e.1 = h := by
      intro w
      induction w with
      | nil => intro plen hh; simp [midWalk] at hh
      | cons e w ih =>
        intro plen hh
        obtain ⟨nd, l, par⟩ := e
        simp only [midWalk] at hh
        split at hh
        · cases hh; exact ⟨_, List.mem_cons_self .., rfl⟩
        · split at hh
          · obtain ⟨e', he', h'⟩ := ih _ hh; exact ⟨e', List.mem_cons_of_mem _ he', h'⟩
          · cases hh
    obtain ⟨e, he, heh⟩ := hmem _ _ hm
    obtain ⟨pre, post, hw⟩ := List.append_of_mem he
    obtain ⟨top, lk, bot, hq, _, _, _⟩ := upList_split _ _ pre e post hw
    obtain ⟨pre0, hp0, _⟩ := dropCommon_spec P1 P2 t.id
    have hin : (e.1, lk) ∈ P1 := by rw [hp0, hq]; simp
    obtain ⟨nn, hnn, hnid, _⟩ := (rootPath_basic n1 t.size t P1 (Nat.le_refl _) hP1).2.2 _ hin
    obtain ⟨m, hm'⟩ := find_some_of_mem t.size t nn (Nat.le_refl _) hnn
    simp only [midResult]
    rw [← heh, ← hnid, hm']
    simp

example : (rerootAtMidpoint true 2 5 7 exTree2).isSome :=
  reroot_at_midpoint_defined true 2 5 7 exTree2 (by decide)
    (by
      intro n hn f hf
      simp [exTree2, T.nodes, T.nodesL] at hn
      rcases hn with rfl | rfl | rfl | rfl | rfl | rfl | rfl <;> simp [T.len] at hf <;> subst hf <;> decide)
    (by decide) (by decide) (by decide)

end DendroModel.C07

namespace DendroModel.C07.Aux
open DendroModel DendroModel.C07 DendroModel.C07.Path

mutual
theorem parentOf_child (og : Nat) : ∀ (t : T) (p : Nat), parentOf og t = some p →
    ∃ m ∈ t.nodes, m.id = p ∧ ∃ c ∈ m.cs, c.id = og
  | .node i x l s cs, p, h => by
    simp only [parentOf] at h
    rcases parentOfL_child og i cs p h with ⟨hp, c, hc, hcid⟩ | ⟨m, hm, h1, h2⟩
    · exact ⟨.node i x l s cs, mem_nodes_self _, by simpa [T.id] using hp.symm, c, by simpa [T.cs] using hc, hcid⟩
    · exact ⟨m, by simp only [T.nodes]; exact List.mem_cons_of_mem _ hm, h1, h2⟩
theorem parentOfL_child (og : Nat) (q : Nat) : ∀ (cs : List T) (p : Nat), parentOfL og q cs = some p →
    (p = q ∧ ∃ c ∈ cs, c.id = og) ∨ ∃ m ∈ T.nodesL cs, m.id = p ∧ ∃ c ∈ m.cs, c.id = og
  | [], _, h => by simp [parentOfL] at h
  | c :: cs, p, h => by
    simp only [parentOfL] at h
    split at h
    · rename_i hcid
      cases h; exact Or.inl ⟨rfl, c, List.mem_cons_self .., by simpa using hcid⟩
    · split at h
      · rename_i r hr
        cases h
        obtain ⟨m, hm, h1, h2⟩ := parentOf_child og c p hr
        exact Or.inr ⟨m, by simp only [T.nodesL]; exact List.mem_append_left _ hm, h1, h2⟩
      · rcases parentOfL_child og q cs p h with ⟨hp, d, hd, hdid⟩ | ⟨m, hm, h1, h2⟩
        · exact Or.inl ⟨hp, d, List.mem_cons_of_mem _ hd, hdid⟩
        · exact Or.inr ⟨m, by simp only [T.nodesL]; exact List.mem_append_right _ hm, h1, h2⟩
end

end DendroModel.C07.Aux

namespace DendroModel.C07
open DendroModel DendroModel.C07.Aux DendroModel.C07.Path

/-- **clause (d), full, with the default `suppress_unifurcations=True` and without:** after `to_outgroup_position(og)` the FIRST
    child of the root spans exactly the leaves of the outgroup — of the node `c` with id `og` of the ORIGINAL tree `t` — for
    every rooting flag (with suppression a unary outgroup node may be replaced by its descendant in the same position, hence the
    leaf-set form; the node-identity form for suppression off is `outgroup_first`).  Distinct node ids, seed with ≥ 2
    children, well-formed fractions. -/
theorem outgroup_first_leafset (flag : Option Bool) (suppress : Bool) (og : Nat) (t : T) (r : T × Option Bool)
    (h : toOutgroup flag suppress og t = some r) (hids : (idsOf t).Nodup) (h2 : 2 ≤ t.cs.length) (hwf : LenWF t) :
    ∃ c ∈ t.nodes, c.id = og ∧ ∃ first rest, r.1.cs = first :: rest ∧ leafIds first = leafIds c := by
  obtain ⟨p, o, hp, ho, hoid, first, rest, hcs, hl⟩ := outgroup_first_leafset_in_reseeded flag suppress og t r h hids h2 hwf
  obtain ⟨m, hm, hmp, c, hc, hcid⟩ := parentOf_child og t p hp
  have hmne : m.cs ≠ [] := by intro e; rw [e] at hc; simp at hc
  have hr := invert_is_chain p t (hint_of_ids hids hm hmp hmne) h2
  have hids2 : (idsOf (invertTo p t)).Nodup := (reach_ids hr).nodup_iff.mpr hids
  obtain ⟨ups, hups⟩ := invertTo_cs p t hids m hm hmp
  have hc2 : c ∈ (invertTo p t).cs := by rw [hups]; exact List.mem_append_left _ hc
  have hchild : ((invertTo p t).cs.map T.id).Nodup := by
    cases hi : invertTo p t with
    | node i x l s cs =>
      rw [hi, idsOf_node] at hids2
      exact (childIds_sublist cs).nodup (List.nodup_cons.mp hids2).2
  have : o = c := List.inj_on_of_nodup_map hchild ho hc2 (hoid.trans hcid.symm)
  subst this
  obtain ⟨_, _, _, f4⟩ := sub_facts t.size t m (Nat.le_refl _) hids hm
  exact ⟨o, f4 o (child_mem_nodes hc), hoid, first, rest, hcs, hl⟩

example : ∃ r, toOutgroup (some false) true 4 exTree = some r ∧ (idsOf exTree).Nodup ∧ 2 ≤ exTree.cs.length :=
  ⟨_, rfl, by decide, by decide⟩

end DendroModel.C07

namespace DendroModel.C07.Aux
open DendroModel DendroModel.C07

theorem frac_lt_asymm (a b : Frac) (h1 : Frac.lt a b = true) (h2 : Frac.lt b a = true) : False := by
  simp only [Frac.lt, decide_eq_true_eq] at h1 h2
  exact absurd h1 (not_lt.mpr (le_of_lt h2))

theorem frac_mul_def (a b : Frac) : a * b = Frac.mul a b := rfl

theorem frac_le_eq (a b : Frac) : Frac.le a b = !Frac.lt b a := by
  simp only [Frac.le, Frac.lt]
  by_cases h : a.num * (b.den : Int) ≤ b.num * (a.den : Int)
  · simp [h, not_lt.mpr h]
  · simp [h, not_le.mp h]

theorem frac_beq_eq (a b : Frac) : Frac.beq a b = (!Frac.lt a b && !Frac.lt b a) := by
  simp only [Frac.beq, Frac.lt]
  rcases lt_trichotomy (a.num * (b.den : Int)) (b.num * (a.den : Int)) with h | h | h
  · simp [h, ne_of_lt h]
  · simp [h]
  · simp [h, ne_of_gt h, not_lt.mpr (le_of_lt h)]

end DendroModel.C07.Aux

namespace DendroModel.C07
open DendroModel DendroModel.C07.Aux

/-! ## tie A: the kernels regenerated from the source (`Gen/C07Mid.lean`) are the model's -/

/-- `_edge_len` of the source = `lenOr0` of the model -/
theorem gen_edge_len_bridge (l : Option Frac) : C07Mid.edgeLen l = lenOr0 l := by
  cases l <;> rfl

/-- the half distance the source starts the walk with = `Frac.half` (as used by `midpointOf`); written `/ 2` or `* 0.5` -/
theorem gen_plen0_bridge (d : Frac) : C07Mid.plen0 d = Frac.half d := by
  simp [C07Mid.plen0, Frac.div, Frac.half, Frac.mul, Frac.ofInt, frac_mul_def]

/-- the source's choice of the node the walk starts from = the model's (`midpointOf`: deeper leaf first, ties keep the first) -/
theorem gen_order_bridge (d0 d1 : Frac) : C07Mid.n1IsSecond d0 d1 = Frac.lt d0 d1 := by
  simp [C07Mid.n1IsSecond, frac_le_eq, frac_beq_eq]

/-- one turn of the source's loop = one unfolding of `midWalk`: in-edge with the same head-side length, go on with the same
    remaining length, or stop exactly at a node — which must be the PARENT end of the current edge -/
theorem gen_walk_bridge (nd : Nat) (l : Frac) (par : Nat) (rest : List (Nat × Frac × Nat)) (plen : Frac) :
    midWalk ((nd, l, par) :: rest) plen =
      match C07Mid.walkStep l plen with
      | .edge h => .onEdge nd h
      | .up p => midWalk rest p
      | .nodeParent => .onNode par
      | .nodeSelf => .onNode nd := by
  by_cases h1 : Frac.lt plen l = true <;> by_cases h2 : Frac.lt l plen = true
  · exact (frac_lt_asymm _ _ h1 h2).elim
  all_goals simp [midWalk, C07Mid.walkStep, h1, h2, frac_le_eq, frac_beq_eq]

/-- the two sub-edge lengths when the midpoint is inside an edge: the source's = the ones `rerootAtMidpoint` hands to `splitEdge` -/
theorem gen_split_lens_bridge (L x : Frac) : C07Mid.splitLens L x = (L - x, x) := by
  simp [C07Mid.splitLens]

/-- the literal flags of the source's two `reseed_at` calls and its final `is_rooted = True` are those of `rerootAtMidpoint` -/
theorem gen_midpoint_flags_bridge (s : Bool) (a b nw : Nat) (t : T) :
    rerootAtMidpoint s a b nw t =
      match midpointOf a b t with
      | .fail => none
      | .onNode nd => some ((reseedAt none C07Mid.nodeReseedCollapse s nd t).1, some C07Mid.setsRooted)
      | .onEdge h headLen =>
        match t.find? h with
        | none => none
        | some hn =>
          some ((reseedAt none C07Mid.edgeReseedCollapse s nw
            (splitEdge h nw (some (C07Mid.splitLens (C07Mid.edgeLen hn.len) headLen).1)
              (some (C07Mid.splitLens (C07Mid.edgeLen hn.len) headLen).2) t)).1, some C07Mid.setsRooted) := by
  simp only [rerootAtMidpoint, gen_split_lens_bridge, gen_edge_len_bridge]
  rfl

/-- `reroot_at_edge`: the source gives `length1` to the inserted node's edge (towards the old tail) and `length2` to the old
    head's edge, as `rerootAtEdge` does -/
theorem gen_reroot_edge_bridge (s : Bool) (h nw : Nat) (l1 l2 : Option Frac) (t : T) :
    rerootAtEdge s h nw l1 l2 t =
      rerootAtNode s nw (splitEdge h nw (C07Mid.rerootEdgeLens l1 l2).1 (C07Mid.rerootEdgeLens l1 l2).2 t) := by
  simp [rerootAtEdge, C07Mid.rerootEdgeLens]

end DendroModel.C07

namespace DendroModel.C07.Aux
open DendroModel DendroModel.C07 DendroModel.Hier DendroModel.C01.Bridge

/-! ### unrooted splits under child permutations -/

theorem hmaskL_perm {a b : List Hier.T} (h : a.Perm b) : maskL a = maskL b := by
  induction h with
  | nil => rfl
  | cons x _ ih => simp only [maskL, ih]
  | swap x y l => simp only [maskL]; rw [← Nat.lor_assoc, ← Nat.lor_assoc, Nat.lor_comm (mask y)]
  | trans _ _ ih1 ih2 => exact ih1.trans ih2

theorem hcladesL_perm {a b : List Hier.T} (h : a.Perm b) (x : Nat) : x ∈ cladesL a ↔ x ∈ cladesL b := by
  rw [mem_cladesL, mem_cladesL]
  constructor
  · rintro ⟨c, hc, hx⟩; exact ⟨c, h.mem_iff.mp hc, hx⟩
  · rintro ⟨c, hc, hx⟩; exact ⟨c, h.mem_iff.mpr hc, hx⟩

theorem goodL_perm {a b : List Hier.T} (h : a.Perm b) : GoodL a ↔ GoodL b := by
  induction h with
  | nil => exact Iff.rfl
  | @cons x l1 l2 hp ih => simp only [GoodL, hmaskL_perm hp, ih]
  | swap x y l =>
    simp only [GoodL, maskL, and_eq_zero_iff, bits_or, Set.disjoint_union_right]
    constructor
    · rintro ⟨h1, h2, ⟨h3, h4⟩, h5, h6, h7, h8⟩; exact ⟨h5, h6, ⟨h3.symm, h7⟩, h1, h2, h4, h8⟩
    · rintro ⟨h1, h2, ⟨h3, h4⟩, h5, h6, h7, h8⟩; exact ⟨h5, h6, ⟨h3.symm, h7⟩, h1, h2, h4, h8⟩
  | trans _ _ ih1 ih2 => exact ih1.trans ih2

theorem toHL_eq_map' (cs : List T) : T.toHL cs = cs.map T.toH := by
  induction cs with
  | nil => rfl
  | cons c cs ih => simp [T.toHL, ih]

theorem toHL_perm {a b : List T} (h : a.Perm b) : (T.toHL a).Perm (T.toHL b) := by
  rw [toHL_eq_map', toHL_eq_map']; exact h.map _

/-- the root's children permuted: same normalised split set -/
theorem usplits_root_perm (lo : Nat) (i : Nat) (x : Option Nat) (l : Option Frac) (s : Option String) {a b : List T}
    (h : a.Perm b) (z : Nat) : z ∈ usplits lo (T.toH (.node i x l s a)) ↔ z ∈ usplits lo (T.toH (.node i x l s b)) := by
  by_cases ha : a = []
  · subst ha; have := h.symm.eq_nil; subst this; exact Iff.rfl
  · have hb : b ≠ [] := fun e => ha (by subst e; exact h.eq_nil)
    rw [toH_node_ne ha, toH_node_ne hb]
    simp only [usplits, List.mem_map, hmaskL_perm (toHL_perm h)]
    constructor
    · rintro ⟨c, hc, rfl⟩; exact ⟨c, (hcladesL_perm (toHL_perm h) c).mp hc, rfl⟩
    · rintro ⟨c, hc, rfl⟩; exact ⟨c, (hcladesL_perm (toHL_perm h) c).mpr hc, rfl⟩

/-- what a re-ordering keeps of the mask-labelled view, node by node -/
structure HInv (t r : T) : Prop where
  mask : Hier.mask (T.toH r) = Hier.mask (T.toH t)
  clades : ∀ x, x ∈ Hier.clades (T.toH r) ↔ x ∈ Hier.clades (T.toH t)

theorem map_hinv (f : T → T) : ∀ cs : List T, (∀ c ∈ cs, HInv c (f c)) →
    maskL (T.toHL (cs.map f)) = maskL (T.toHL cs) ∧ ∀ x, x ∈ cladesL (T.toHL (cs.map f)) ↔ x ∈ cladesL (T.toHL cs)
  | [], _ => ⟨rfl, fun _ => Iff.rfl⟩
  | c :: cs, h => by
    have hc := h c (List.mem_cons_self ..)
    obtain ⟨m, cl⟩ := map_hinv f cs (fun d hd => h d (List.mem_cons_of_mem _ hd))
    refine ⟨by simp only [List.map_cons, T.toHL, maskL, hc.mask, m], fun x => ?_⟩
    simp only [List.map_cons, T.toHL, cladesL, List.mem_append, hc.clades x, cl x]

theorem sorted_tree_hinv (f : T → T) (before : T → T → Bool)
    (hf : ∀ i x l s cs, f (.node i x l s cs) = .node i x l s (sortStable before (cs.map f))) :
    ∀ (n : Nat) (t : T), t.size ≤ n → HInv t (f t)
  | 0, .node i x l s cs, h => by simp [T.size] at h
  | n + 1, .node i x l s cs, h => by
    rw [hf]
    by_cases hcs : cs = []
    · subst hcs; exact ⟨rfl, fun _ => Iff.rfl⟩
    · have ih : ∀ c ∈ cs, HInv c (f c) := fun c hc =>
        sorted_tree_hinv f before hf n c (by have := size_lt_of_mem hc; simp only [T.size] at h; omega)
      obtain ⟨m, cl⟩ := map_hinv f cs ih
      have hp := toHL_perm (sortStable_perm before (cs.map f))
      have hne : sortStable before (cs.map f) ≠ [] := by
        intro h0
        have := (sortStable_perm before (cs.map f)).length_eq
        rw [h0] at this; simp at this; exact hcs (List.length_eq_zero_iff.mp this.symm)
      refine ⟨?_, fun x => ?_⟩
      · rw [toH_node_ne hne, toH_node_ne hcs]; simp only [Hier.mask, hmaskL_perm hp, m]
      · rw [toH_node_ne hne, toH_node_ne hcs]; simp only [Hier.clades, List.mem_cons, hmaskL_perm hp, m, hcladesL_perm hp x, cl x]


theorem sorted_tree_usplits (f : T → T) (before : T → T → Bool)
    (hf : ∀ i x l s cs, f (.node i x l s cs) = .node i x l s (sortStable before (cs.map f))) (t : T) (lo z : Nat) :
    z ∈ usplits lo (T.toH (f t)) ↔ z ∈ usplits lo (T.toH t) := by
  cases t with
  | node i x l s cs =>
    rw [hf]
    by_cases hcs : cs = []
    · subst hcs; exact Iff.rfl
    · have ih : ∀ c ∈ cs, HInv c (f c) := fun c _ => sorted_tree_hinv f before hf c.size c (Nat.le_refl _)
      obtain ⟨m, cl⟩ := map_hinv f cs ih
      have hp := toHL_perm (sortStable_perm before (cs.map f))
      have hne : sortStable before (cs.map f) ≠ [] := by
        intro h0
        have := (sortStable_perm before (cs.map f)).length_eq
        rw [h0] at this; simp at this; exact hcs (List.length_eq_zero_iff.mp this.symm)
      rw [toH_node_ne hne, toH_node_ne hcs]
      simp only [usplits, List.mem_map, hmaskL_perm hp, m]
      constructor
      · rintro ⟨c, hc, rfl⟩; exact ⟨c, (cl c).mp ((hcladesL_perm hp c).mp hc), rfl⟩
      · rintro ⟨c, hc, rfl⟩; exact ⟨c, (hcladesL_perm hp c).mpr ((cl c).mpr hc), rfl⟩

end DendroModel.C07.Aux

namespace DendroModel.C07
open DendroModel DendroModel.C07.Aux DendroModel.Hier DendroModel.C01.Bridge

/-- **`ladderize`, `reorder`, `randomly_rotate` keep the set of unrooted splits** — every tree, every reference mask, no hypothesis:
    the children are only permuted, at every node. -/
theorem ladderize_keeps_usplits (asc : Bool) (t : T) (lo : Nat) :
    ∀ z, z ∈ usplits lo (T.toH (ladderize asc t)) ↔ z ∈ usplits lo (T.toH t) :=
  fun z => sorted_tree_usplits (ladderize asc) _ (fun i x l s cs => by rw [ladderize, ladderizeL_eq_map]) t lo z

theorem reorder_keeps_usplits (asc : Bool) (t : T) (lo : Nat) :
    ∀ z, z ∈ usplits lo (T.toH (reorder asc t)) ↔ z ∈ usplits lo (T.toH t) :=
  fun z => sorted_tree_usplits (reorder asc) _ (fun i x l s cs => by rw [reorder, reorderL_eq_map]) t lo z

theorem rotate_keeps_usplits (rank : Nat → Nat) (t : T) (lo : Nat) :
    ∀ z, z ∈ usplits lo (T.toH (rotate rank t)) ↔ z ∈ usplits lo (T.toH t) :=
  fun z => sorted_tree_usplits (rotate rank) _ (fun i x l s cs => by rw [rotate, rotateL_eq_map]) t lo z

example : usplits (1 <<< 0) (T.toH (ladderize false exTree)) ≠ [] := by decide

end DendroModel.C07

namespace DendroModel.C07
open DendroModel DendroModel.C07.Aux DendroModel.Hier DendroModel.C01.Bridge

/-- **`to_outgroup_position` keeps the set of unrooted splits**, both `suppress_unifurcations` settings, every rooting flag: the
    inversion chain to the outgroup's parent, the move of the outgroup to the front, the basal collapse of the sister and the
    suppression — for trees whose leaves carry distinct taxa (`GoodL`), distinct node ids, a seed with ≥ 2 children. -/
theorem to_outgroup_keeps_usplits (flag : Option Bool) (suppress : Bool) (og : Nat) (t : T) (r : T × Option Bool) (k : Nat)
    (h : toOutgroup flag suppress og t = some r) (hids : (idsOf t).Nodup) (h2 : 2 ≤ t.cs.length)
    (hg : GoodL (T.toHL t.cs)) (hk : k ∈ bits (maskL (T.toHL t.cs))) :
    ∀ z, z ∈ usplits (1 <<< k) (T.toH r.1) ↔ z ∈ usplits (1 <<< k) (T.toH t) := by
  have hlo : bits (1 <<< k) ⊆ bits (maskL (T.toHL t.cs)) := by
    rw [bits_shift]; exact Set.singleton_subset_iff.mpr hk
  unfold toOutgroup at h
  split at h
  · cases h
  · rename_i p hp
    obtain ⟨m, hm, hmp, hmne⟩ := parentOf_spec og t p hp
    have hr := invert_is_chain p t (hint_of_ids hids hm hmp hmne) h2
    have K := reach_splitKeep hr (1 <<< k) (single_shift k) (shift_ne_zero k) hg hlo
    have hids2 : (idsOf (invertTo p t)).Nodup := (reach_ids hr).nodup_iff.mpr hids
    have hlen2 : 2 ≤ (invertTo p t).cs.length := reach_two hr h2
    have Kg := K.good
    have Km := K.maskEq
    have Ks := K.splits
    split at h
    rename_i i x l s cs heq
    rw [heq] at hids2 hlen2 Kg Km Ks
    simp only [T.cs] at Kg Km hlen2
    split at h
    · cases h
    · rename_i o ho
      cases h
      have hchild : (cs.map T.id).Nodup := by
        rw [idsOf_node] at hids2
        exact (childIds_sublist cs).nodup (List.nodup_cons.mp hids2).2
      have P := front_perm og cs o hchild ho
      have G' : GoodL (T.toHL (o :: cs.filter (fun c => c.id != og))) := (goodL_perm (toHL_perm P)).mpr Kg
      have M' : maskL (T.toHL (o :: cs.filter (fun c => c.id != og))) = maskL (T.toHL t.cs) :=
        (hmaskL_perm (toHL_perm P)).trans Km
      have S2 : ∀ z, z ∈ usplits (1 <<< k) (T.toH (.node i x l s (o :: cs.filter (fun c => c.id != og)))) ↔
          z ∈ usplits (1 <<< k) (T.toH t) := fun z => (usplits_root_perm _ i x l s P z).trans (Ks z)
      have L2 : 2 ≤ (T.node i x l s (o :: cs.filter (fun c => c.id != og))).cs.length := by
        simp only [T.cs]; rw [P.length_eq]; exact hlen2
      have C : (∀ z, z ∈ usplits (1 <<< k) (T.toH (if sisterCollapses (unrootedFlag flag) (o :: cs.filter (fun c => c.id != og)) = true
            then collapseBasal (.node i x l s (o :: cs.filter (fun c => c.id != og)))
            else .node i x l s (o :: cs.filter (fun c => c.id != og)))) ↔ z ∈ usplits (1 <<< k) (T.toH t)) ∧
          2 ≤ (if sisterCollapses (unrootedFlag flag) (o :: cs.filter (fun c => c.id != og)) = true
            then collapseBasal (.node i x l s (o :: cs.filter (fun c => c.id != og)))
            else .node i x l s (o :: cs.filter (fun c => c.id != og))).cs.length := by
        split
        · have c := collapse_usplits (1 <<< k) (.node i x l s (o :: cs.filter (fun c => c.id != og))) G'
            (by simp only [T.cs]; rw [M']; exact hlo) (single_shift k) (shift_ne_zero k)
          exact ⟨fun z => (c.1 z).trans (S2 z), c.2 L2⟩
        · exact ⟨S2, L2⟩
      simp only
      generalize (if sisterCollapses (unrootedFlag flag) (o :: cs.filter (fun c => c.id != og)) = true
            then collapseBasal (.node i x l s (o :: cs.filter (fun c => c.id != og)))
            else .node i x l s (o :: cs.filter (fun c => c.id != og))) = t3 at C ⊢
      cases suppress
      · simpa using C.1
      · intro z
        simp only [if_true]
        rw [sup_usplits _ t3 C.2 z]
        exact C.1 z

/-- **`randomly_reorient` keeps the set of unrooted splits**, whichever node and shuffles the rng produced -/
theorem reorient_keeps_usplits (flag : Option Bool) (pick : Nat) (rank : Nat → Nat) (t : T) (r : T × Option Bool) (k : Nat)
    (h : reorient flag pick rank t = some r) (hids : (idsOf t).Nodup) (h2 : 2 ≤ t.cs.length)
    (hg : GoodL (T.toHL t.cs)) (hk : k ∈ bits (maskL (T.toHL t.cs))) :
    ∀ z, z ∈ usplits (1 <<< k) (T.toH r.1) ↔ z ∈ usplits (1 <<< k) (T.toH t) := by
  unfold reorient at h
  split at h
  · cases h
  · rename_i n hfind
    obtain ⟨hnmem, hnid⟩ := find_mem pick t n hfind
    split at h
    · cases ho : toOutgroup flag true pick t with
      | none => simp [ho] at h
      | some q =>
        simp only [ho, Option.map_some, Option.some.injEq] at h
        subst h
        intro z
        exact (rotate_keeps_usplits rank q.1 _ z).trans (to_outgroup_keeps_usplits flag true pick t q k ho hids h2 hg hk z)
    · rename_i hcond
      simp only [Option.some.injEq] at h
      subst h
      have hint : ∀ m ∈ t.nodes, m.id = pick → m.cs ≠ [] := by
        by_cases hne : n.cs = []
        · have hp : pick = t.id := by
            by_contra hp
            apply hcond
            simp [hne, hp]
          have htne : t.cs ≠ [] := by intro e; rw [e] at h2; simp at h2
          exact hint_of_ids hids (mem_nodes_self t) hp.symm htne
        · exact hint_of_ids hids hnmem hnid hne
      intro z
      exact (rotate_keeps_usplits rank _ _ z).trans (reseed_keeps_usplits flag true true pick t k hint h2 hg hk z)

example : ∃ r, toOutgroup (some false) true 4 exTree = some r ∧ GoodL (T.toHL exTree.cs) ∧ (idsOf exTree).Nodup := by
  refine ⟨_, rfl, by simp [exTree, T.cs, T.toHL, T.toH, GoodL, Good, mask, maskL], by decide⟩

end DendroModel.C07

namespace DendroModel.C07.Aux
open DendroModel DendroModel.C07 DendroModel.Hier DendroModel.C01.Bridge

/-! ### unrooted splits under the insertion of a node inside an edge -/

/-- the mask-labelled view of a node's child list before/after an operation -/
structure SplitH (cs cs' : List T) : Prop where
  mask : maskL (T.toHL cs') = maskL (T.toHL cs)
  clades : ∀ x, x ∈ cladesL (T.toHL cs') ↔ x ∈ cladesL (T.toHL cs)
  good : GoodL (T.toHL cs) → GoodL (T.toHL cs')
  nil : cs' = [] ↔ cs = []

theorem splitH_node {i i' : Nat} {x x' : Option Nat} {l l' : Option Frac} {s s' : Option String} {cs cs' : List T}
    (hne : cs ≠ []) (S : SplitH cs cs') :
    HInv (.node i x l s cs) (.node i' x' l' s' cs') ∧
    (Good (T.toH (.node i x l s cs)) → Good (T.toH (.node i' x' l' s' cs'))) := by
  have hne' : cs' ≠ [] := fun e => hne (S.nil.mp e)
  refine ⟨⟨by rw [toH_node_ne hne, toH_node_ne hne']; simp only [Hier.mask, S.mask],
    fun z => by rw [toH_node_ne hne, toH_node_ne hne']; simp only [Hier.clades, List.mem_cons, S.mask, S.clades z]⟩, ?_⟩
  rw [toH_node_ne hne, toH_node_ne hne']
  simp only [Good]; exact S.good

theorem goodL_map (f : T → T) : ∀ cs : List T,
    (∀ d ∈ cs, Hier.mask (T.toH (f d)) = Hier.mask (T.toH d) ∧ (Good (T.toH d) → Good (T.toH (f d)))) →
    GoodL (T.toHL cs) → GoodL (T.toHL (cs.map f)) ∧ maskL (T.toHL (cs.map f)) = maskL (T.toHL cs)
  | [], _, hg => ⟨hg, rfl⟩
  | c :: cs, h, hg => by
    simp only [T.toHL, GoodL] at hg
    obtain ⟨g1, g2, g3, g4⟩ := hg
    obtain ⟨hm, hgd⟩ := h c (List.mem_cons_self ..)
    obtain ⟨ih1, ih2⟩ := goodL_map f cs (fun d hd => h d (List.mem_cons_of_mem _ hd)) g4
    simp only [List.map_cons, T.toHL, GoodL, maskL, hm, ih2]
    exact ⟨⟨hgd g1, g2, g3, ih1⟩, trivial⟩

theorem splitEdge_H (h nw : Nat) (lT lH : Option Frac) : ∀ (k : Nat) (t : T), t.size ≤ k → (idsOf t).Nodup →
    SplitH t.cs (splitEdge h nw lT lH t).cs
  | 0, .node i x l s cs, hk, _ => by simp [T.size] at hk
  | k + 1, .node i x l s cs, hk, hids => by
    rw [idsOf_node] at hids
    have hidsL := (List.nodup_cons.mp hids).2
    rw [splitEdge]
    split
    · rename_i c hc
      have P := front_perm h cs c ((childIds_sublist cs).nodup hidsL) hc
      have Q : (cs.filter (fun c => c.id != h) ++ [T.node nw none lT none [c.withLen lH]]).Perm
          (T.node nw none lT none [c.withLen lH] :: cs.filter (fun c => c.id != h)) := List.perm_append_comm
      have hw : T.toH (T.node nw none lT none [c.withLen lH]) = .node [T.toH c] := by
        simp [T.toH, T.toHL, withLen_toH']
      have hcs : cs ≠ [] := by intro e; subst e; simp at hc
      simp only [T.cs]
      refine ⟨?_, ?_, ?_, ?_⟩
      · rw [hmaskL_perm (toHL_perm Q), ← hmaskL_perm (toHL_perm P)]
        simp only [T.toHL, maskL, hw, Hier.mask, Nat.or_zero]
      · intro z
        rw [hcladesL_perm (toHL_perm Q), ← hcladesL_perm (toHL_perm P)]
        simp only [T.toHL, cladesL, hw, Hier.clades, maskL, Nat.or_zero, List.append_nil, List.mem_append, List.mem_cons]
        constructor
        · rintro ((rfl | h1) | h2)
          · exact Or.inl (mask_mem_clades _)
          · exact Or.inl h1
          · exact Or.inr h2
        · rintro (h1 | h2)
          · exact Or.inl (Or.inr h1)
          · exact Or.inr h2
      · intro hg
        rw [goodL_perm (toHL_perm Q)]
        rw [← goodL_perm (toHL_perm P)] at hg
        simp only [T.toHL, GoodL, hw, Good, Hier.mask, maskL, Nat.or_zero] at hg ⊢
        obtain ⟨g1, g2, g3, g4⟩ := hg
        exact ⟨⟨g1, g2, by simp, trivial⟩, g2, g3, g4⟩
      · simp [hcs]
    · rw [splitEdgeL_eq_map]
      simp only [T.cs]
      have ih : ∀ d ∈ cs, HInv d (splitEdge h nw lT lH d) ∧ (Good (T.toH d) → Good (T.toH (splitEdge h nw lT lH d))) := by
        intro d hd
        have S := splitEdge_H h nw lT lH k d (by have := size_lt_of_mem hd; simp only [T.size] at hk; omega)
          (idsOf_child_nodup hidsL hd)
        cases d with
        | node j y ld sd ds =>
          by_cases hds : ds = []
          · subst hds
            have : splitEdge h nw lT lH (T.node j y ld sd []) = T.node j y ld sd [] := by
              simp [splitEdge, splitEdgeL]
            rw [this]; exact ⟨⟨rfl, fun _ => Iff.rfl⟩, id⟩
          · cases hu : splitEdge h nw lT lH (T.node j y ld sd ds) with
            | node j' y' l' s' ds' =>
              rw [hu] at S
              exact splitH_node hds S
      obtain ⟨m, cl⟩ := map_hinv _ cs (fun d hd => (ih d hd).1)
      refine ⟨m, cl, fun hg => (goodL_map _ cs (fun d hd => ⟨(ih d hd).1.mask, (ih d hd).2⟩) hg).1, by simp⟩

end DendroModel.C07.Aux

namespace DendroModel.C07
open DendroModel DendroModel.C07.Aux DendroModel.Hier DendroModel.C01.Bridge

/-- **`reroot_at_edge` keeps the set of unrooted splits** (any two lengths, both `suppress_unifurcations` settings): inserting a
    node inside an edge adds no split, then the inversion chain and the suppression keep them — trees whose leaves carry
    distinct taxa (`GoodL`), distinct node ids, `nw` fresh, the head has a parent, seed with ≥ 2 children, well-formed fractions. -/
theorem reroot_at_edge_keeps_usplits (s : Bool) (h nw : Nat) (l1 l2 : Option Frac) (t : T) (k : Nat)
    (hids : (idsOf t).Nodup) (hfresh : nw ∉ idsOf t) (h2 : 2 ≤ t.cs.length) (hwf : LenWF t) (hl1 : OWF l1) (hl2 : OWF l2)
    (hg : GoodL (T.toHL t.cs)) (hk : k ∈ bits (maskL (T.toHL t.cs))) :
    ∀ z, z ∈ usplits (1 <<< k) (T.toH (rerootAtEdge s h nw l1 l2 t).1) ↔ z ∈ usplits (1 <<< k) (T.toH t) := by
  have S := splitEdge_H h nw l1 l2 t.size t (Nat.le_refl _) hids
  have B := splitEdge_basic h nw l1 l2 hl1 hl2 t.size t (Nat.le_refl _) hids hwf
  have Fr := splitEdge_fresh h nw l1 l2 t.size t (Nat.le_refl _) hfresh
  have hintu : ∀ n ∈ (splitEdge h nw l1 l2 t).nodes, n.id = nw → n.cs ≠ [] := by
    intro n hn hid
    obtain ⟨c', _, _, e⟩ := Fr.2 n hn hid
    rw [e]; simp [T.cs]
  have h2u : 2 ≤ (splitEdge h nw l1 l2 t).cs.length := by rw [B.2]; exact h2
  have R := reroot_at_node_keeps_usplits s nw (splitEdge h nw l1 l2 t) k hintu h2u (S.good hg) (by rw [S.mask]; exact hk)
  intro z
  have hne : t.cs ≠ [] := by intro e; rw [e] at h2; simp at h2
  have hne' : (splitEdge h nw l1 l2 t).cs ≠ [] := fun e => hne (S.nil.mp e)
  refine (R z).trans ?_
  cases t with
  | node i x l st cs =>
    cases hu : splitEdge h nw l1 l2 (T.node i x l st cs) with
    | node i' x' l' s' cs' =>
      rw [hu] at S hne'
      simp only [T.cs] at S hne hne'
      rw [toH_node_ne hne, toH_node_ne hne']
      simp only [usplits, List.mem_map, S.mask]
      constructor
      · rintro ⟨c, hc, rfl⟩; exact ⟨c, (S.clades c).mp hc, rfl⟩
      · rintro ⟨c, hc, rfl⟩; exact ⟨c, (S.clades c).mpr hc, rfl⟩

/-- **`reroot_at_midpoint` keeps the set of unrooted splits**, both branches (midpoint on a node: the inversion chain; inside an
    edge: `reroot_at_edge` with the two lengths of the walk), both `suppress_unifurcations` settings. -/
theorem reroot_at_midpoint_keeps_usplits (s : Bool) (a b nw : Nat) (t : T) (r : T × Option Bool) (k : Nat)
    (h : rerootAtMidpoint s a b nw t = some r)
    (hids : (idsOf t).Nodup) (hfresh : nw ∉ idsOf t) (h2 : 2 ≤ t.cs.length) (hwf : LenWF t)
    (hg : GoodL (T.toHL t.cs)) (hk : k ∈ bits (maskL (T.toHL t.cs))) :
    ∀ z, z ∈ usplits (1 <<< k) (T.toH r.1) ↔ z ∈ usplits (1 <<< k) (T.toH t) := by
  unfold rerootAtMidpoint at h
  split at h
  · cases h
  · rename_i nd hmid
    cases h
    obtain ⟨m, hm, hmid', hmne⟩ := midpointOf_node_internal a b t nd (by intro e; rw [e] at h2; simp at h2) hmid
    exact reseed_keeps_usplits none false s nd t k (hint_of_ids hids hm hmid' hmne) h2 hg hk
  · rename_i hd x hmid
    split at h
    · cases h
    · rename_i hn hfind
      cases h
      have hx : x.WF := midpointOf_edge_wf a b t hd x hmid
      exact reroot_at_edge_keeps_usplits s hd nw (some (lenOr0 hn.len - x)) (some x) t k hids hfresh h2 hwf
        (fun f hf => by cases hf; exact Frac.sub_wf _ _) (fun f hf => by cases hf; exact hx) hg hk

example : GoodL (T.toHL exTree.cs) ∧ 5 ∉ idsOf exTree ∧ (idsOf exTree).Nodup ∧
    usplits (1 <<< 0) (T.toH (rerootAtEdge true 4 5 (some ⟨1, 2⟩) (some ⟨3, 2⟩) exTree).1) ≠ [] := by
  refine ⟨by simp [exTree, T.cs, T.toHL, T.toH, GoodL, Good, mask, maskL], by decide, by decide, by decide⟩

end DendroModel.C07

namespace DendroModel.C07.Aux
open DendroModel DendroModel.C07

/-! ### every protocol tree satisfies the standing hypotheses: well-formed fractions, distinct node ids -/

theorem parse_den (s : String) (a : Frac) (h : Frac.parse s = some a) : a.den ≠ 0 := by
  unfold Frac.parse at h
  split at h
  · rename_i p _
    cases hp : p.toInt? with
    | none => simp [hp] at h
    | some v => simp [hp] at h; subst h; simp [Frac.ofInt]
  · rename_i p q _
    cases hp : p.toInt? with
    | none => simp [hp] at h
    | some v =>
      cases hq : q.toNat? with
      | none => simp [hp, hq] at h
      | some w =>
        simp only [hp, hq] at h
        split at h
        · cases h
        · simp at h; subst h; exact Frac.mk'_wf _ _
  · cases h

theorem parseOLen_owf (s : String) (l : Option Frac) (h : parseOLen s = some l) : OWF l := by
  unfold parseOLen at h
  split at h
  · simp at h; subst h; intro f hf; cases hf
  · cases hp : Frac.parse s with
    | none => simp [hp] at h
    | some a => simp [hp] at h; subst h; intro f hf; cases hf; exact parse_den s a hp

theorem mapM_owf : ∀ (ss : List String) (ls : List (Option Frac)), ss.mapM parseOLen = some ls → ∀ l ∈ ls, OWF l
  | [], ls, h => by simp at h; subst h; simp
  | s :: ss, ls, h => by
      simp only [List.mapM_cons] at h
      cases h1 : parseOLen s with
      | none => simp [h1] at h
      | some l =>
        cases h2 : ss.mapM parseOLen with
        | none => simp [h1, h2] at h
        | some ls' =>
          simp [h1, h2] at h; subst h
          intro l' hl'
          rcases List.mem_cons.mp hl' with rfl | hl'
          · exact parseOLen_owf s _ h1
          · exact mapM_owf ss ls' h2 l' hl'

theorem getElem!_owf (ls : List (Option Frac)) (h : ∀ l ∈ ls, OWF l) (i : Nat) : OWF (ls.toArray[i]!) := by
  by_cases hi : i < ls.length
  · have : ls.toArray[i]! = ls[i] := by simp [hi]
    rw [this]; exact h _ (List.getElem_mem hi)
  · have : ls.toArray[i]! = none := by simp [hi]; rfl
    rw [this]; intro f hf; cases hf

theorem buildTree_lenWF (par : Array Int) (tax : Array (Option Nat)) (lens : Array (Option Frac)) (labs : Array (Option String))
    (h : ∀ i : Nat, OWF (lens[i]!)) : ∀ (fuel i : Nat), LenWF (buildTree fuel par tax lens labs i)
  | 0, i => by
      intro n hn f hf
      simp [buildTree, T.nodes, T.nodesL] at hn; subst hn; simp [T.len] at hf
  | f + 1, i => by
      intro n hn g hg
      simp only [buildTree, T.nodes, List.mem_cons] at hn
      rcases hn with rfl | hn
      · exact h i g (by simpa [T.len] using hg)
      · obtain ⟨c, hc, hnc⟩ := mem_nodesL.mp hn
        obtain ⟨k, _, rfl⟩ := List.mem_map.mp hc
        exact buildTree_lenWF par tax lens labs h f k n hnc g hg

theorem parseTree_lenWF' (toks : List String) (t : T) (rest : List String) (h : parseTree toks = some (t, rest)) : LenWF t := by
  unfold parseTree at h
  split at h
  · cases h
  · rename_i n rest0
    split at h
    · cases h
    · rename_i n'
      split at h
      · cases h
      · simp only at h
        split at h
        · rename_i ps xs ls ss hps hxs hls hss
          split at h
          · cases h
          · simp only [Option.some.injEq, Prod.mk.injEq] at h
            rw [← h.1]
            exact buildTree_lenWF _ _ _ _ (getElem!_owf ls (mapM_owf _ ls hls)) _ _
        · cases h

end DendroModel.C07.Aux

namespace DendroModel.C07
open DendroModel DendroModel.C07.Aux

/-- **every tree the protocol parser returns has well-formed fractions** (the `LenWF` hypothesis of the invariance theorems) -/
theorem parseTree_lenWF (toks : List String) (t : T) (rest : List String) (h : parseTree toks = some (t, rest)) : LenWF t :=
  parseTree_lenWF' toks t rest h

/-- **every tree the protocol parser returns has pairwise distinct node ids** (the `(idsOf t).Nodup` hypothesis), by the C15
    analysis of `buildTree` (no node is reached twice from an entry whose parent is -1) -/
theorem parseTree_ids_nodup (toks : List String) (t : T) (rest : List String) (h : parseTree toks = some (t, rest)) :
    (idsOf t).Nodup := by
  obtain ⟨f, par, tax, lens, labs, r, _, rfl, hr⟩ := C15.BuildAux.parseTree_build toks t rest h
  exact C15.BuildAux.ids_nodup par tax lens labs f r (C15.BuildAux.acyc_root par r hr)

/-- the invariance theorems for driver inputs, with the two standing hypotheses discharged: e.g. the default `reseed_at` on any
    parsed tree with a non-unary seed and an internal target -/
theorem reseed_invariant_parsed (toks : List String) (t : T) (rest : List String) (h : parseTree toks = some (t, rest))
    (flag : Option Bool) (collapse suppress : Bool) (tgt : Nat)
    (hint : ∀ n ∈ t.nodes, n.id = tgt → n.cs ≠ []) (h2 : 2 ≤ t.cs.length) :
    Keeps t (reseedAt flag collapse suppress tgt t).1 :=
  reseed_invariant_full flag collapse suppress tgt t hint h2 (parseTree_lenWF toks t rest h)
    (leafIds_nodup_of_ids (parseTree_ids_nodup toks t rest h))

/-- midpoint rooting of any parsed tree: both leaves of the pair end up at half their distance -/
theorem midpoint_equidistant_parsed (toks : List String) (t : T) (rest : List String) (h : parseTree toks = some (t, rest))
    (s : Bool) (a b nw : Nat) (r : T × Option Bool) (hr : rerootAtMidpoint s a b nw t = some r)
    (hfresh : nw ∉ idsOf t) (h2 : 2 ≤ t.cs.length) (ha : a ∈ leafIds t) (hb : b ∈ leafIds t) (hab : a ≠ b) :
    ∃ D, pathLen t a b = some D ∧ rd r.1 a = some (D / 2) ∧ rd r.1 b = some (D / 2) :=
  midpoint_equidistant s a b nw t r hr (parseTree_ids_nodup toks t rest h) hfresh h2 (parseTree_lenWF toks t rest h) ha hb hab

/-- the hypothesis is what every successful `parseTree` of a driver line provides (`drv_c07` refuses all other lines) -/
example (toks : List String) (t : T) (h : parseTree toks = some (t, [])) : LenWF t ∧ (idsOf t).Nodup :=
  ⟨parseTree_lenWF toks t [] h, parseTree_ids_nodup toks t [] h⟩

end DendroModel.C07
