import DendroModel.Theory.C16Cols
import DendroModel.Theory.C16Sym
/-! C16 — property theorems about `parsimony` (= `runNodes` over the post-order with the node-attribute store), the
function the driver `drv_c16` runs.

Vocabulary (definitions in `Theory/C16*.lean`):
* `View m t bv` — `t` is fully bifurcating, every leaf carries a taxon with a row in the matrix `m`; `bv` is the binary tree
  of those rows; `col c bv` is character `c` of it (one state set per leaf).
* `RectM m n` — every row of `m` has `n` characters and no empty state set.
* `ids t` — the node identities (distinct Python objects = `Nodup`).
* `A`, `Valid`, `changes` — an assignment of a state to every node, agreeing with the leaf state sets; its number of
  changes along edges.  `sumTo n f = f 0 + … + f (n-1)`; `wt w c` = weight of character `c` (1 when `weights is None`).

Only property theorems live directly in `namespace DendroModel.C16` of this file; helpers are in `DendroModel.C16.Aux`. -/
namespace DendroModel.C16

/-- every row of the matrix has `n` characters and no empty state set -/
def RectM (m : Matrix) (n : Nat) : Prop :=
  ∀ k row, getAttr m k = some row → row.length = n ∧ ∀ s, s ∈ row → s ≠ 0

/-- weight of character `c` -/
def wt (w : Option (List Nat)) (c : Nat) : Nat :=
  match w with
  | none => 1
  | some l => l.getD c 0

/-- one weight per character, if weights are given -/
def WOk (w : Option (List Nat)) (n : Nat) : Prop :=
  match w with
  | none => True
  | some l => l.length = n

/-- copies of a bifurcating tree that differ in child order (and possibly in node identities, lengths, labels) -/
inductive SwapT : T → T → Prop
  | leaf {i i' : Nat} {x : Option Nat} {l l' : Option Frac} {s s' : Option String} :
      SwapT (.node i x l s []) (.node i' x l' s' [])
  | same {i i' : Nat} {x x' : Option Nat} {l l' : Option Frac} {s s' : Option String} {a a' b b' : T} :
      SwapT a a' → SwapT b b' → SwapT (.node i x l s [a, b]) (.node i' x' l' s' [a', b'])
  | swap {i i' : Nat} {x x' : Option Nat} {l l' : Option Frac} {s s' : Option String} {a a' b b' : T} :
      SwapT a a' → SwapT b b' → SwapT (.node i x l s [a, b]) (.node i' x' l' s' [b', a'])

/-- a scoring call of a history is inside the statement's domain for the tree `t` -/
def OpOk (t : T) : Op → Prop
  | .clone _ => True
  | .score _ m w => ∃ bv n, View m t bv ∧ RectM m n ∧ WOk w n

namespace Aux

theorem getD_replicate (v d : Nat) : ∀ (n c : Nat), c < n → (List.replicate n v).getD c d = v
  | n + 1, 0, _ => by simp [List.replicate]
  | n + 1, c + 1, h => by
    have := getD_replicate v d n c (by omega)
    simpa [List.replicate] using this

theorem sumL_replicate_zero : ∀ n, sumL (List.replicate n 0) = 0
  | 0 => by simp [sumL]
  | n + 1 => by simp [List.replicate, sumL, sumL_replicate_zero n]

theorem getD_mem : ∀ (l : List Nat) (c : Nat), c < l.length → l.getD c 0 ∈ l
  | x :: xs, 0, _ => by simp
  | x :: xs, c + 1, h => by
    have := getD_mem xs c (by simpa using h)
    simp only [List.getD_cons_succ, List.mem_cons]
    exact Or.inr this

theorem view_rect {m : Matrix} {n : Nat} {t : T} {bv : BV} (hv : View m t bv) (hm : RectM m n) :
    bv.All (fun row => row.length = n) ∧ ∀ c, c < n → NonEmptyLeaves (col c bv) := by
  induction hv with
  | @leaf i x l s row h =>
    cases x with
    | none => simp [lookupRow] at h
    | some k =>
      have ⟨h1, h2⟩ := hm k row (by simpa [lookupRow] using h)
      refine ⟨h1, ?_⟩
      intro c hc
      exact h2 _ (getD_mem row c (by omega))
  | node _ _ iha ihb =>
    exact ⟨⟨iha.1, ihb.1⟩, fun c hc => ⟨iha.2 c hc, ihb.2 c hc⟩⟩

theorem view_nchar {m : Matrix} {n : Nat} {t : T} {bv : BV} (hv : View m t bv) (hm : RectM m n) : nchar m = n := by
  induction hv with
  | @leaf i x l s row h =>
    cases m with
    | nil => cases x <;> simp [lookupRow, getAttr] at h
    | cons e rest =>
      obtain ⟨k, r⟩ := e
      have := (hm k r (by simp [getAttr])).1
      simpa [nchar] using this
  | node _ _ iha _ => exact iha

/-- the heart: on a viewed tree with distinct node identities the call succeeds and returns `accB`'s accumulators,
    for any attributes stored on the nodes -/
theorem parsimony_core {m : Matrix} {t : T} {bv : BV} (hv : View m t bv) (hid : (ids t).Nodup)
    (w : Option (List Nat)) (attrs : Attrs) :
    ∃ st, parsimony m w attrs t = .ok st ∧
      st.score = (accB (weightsOf m w) bv 0
                    (List.replicate (nchar m) 0)).2.1 ∧
      st.bychar = (accB (weightsOf m w) bv 0
                    (List.replicate (nchar m) 0)).2.2 := by
  obtain ⟨st', hr, _, hs, hb, _⟩ := run_post (ws := weightsOf m w)
    hv hid { attrs := attrs, score := 0, bychar := List.replicate (nchar m) 0 }
  exact ⟨st', by simpa [parsimony] using hr, hs, hb⟩

theorem ws_length {m : Matrix} {n : Nat} (hn : nchar m = n) (w : Option (List Nat)) (hw : WOk w n) :
    (weightsOf m w).length = n := by
  cases w with
  | none => simp [weightsOf, hn]
  | some l => simpa [WOk, weightsOf] using hw

theorem ws_getD {m : Matrix} {n : Nat} (hn : nchar m = n) (w : Option (List Nat)) (c : Nat) (hc : c < n) :
    (weightsOf m w).getD c 0 = wt w c := by
  cases w with
  | none => simp only [wt, weightsOf]; exact getD_replicate 1 0 _ c (by omega)
  | some l => simp [wt, weightsOf]

/-- everything about one call: success, per-character values, total -/
theorem call_spec {m : Matrix} {n : Nat} {t : T} {bv : BV} (hv : View m t bv) (hm : RectM m n)
    (hid : (ids t).Nodup) (w : Option (List Nat)) (hw : WOk w n) (attrs : Attrs) :
    ∃ st, parsimony m w attrs t = .ok st ∧ st.bychar.length = n ∧
      (∀ c, c < n → st.bychar.getD c 0 = wt w c * (fitch (col c bv)).2) ∧
      st.score = sumL st.bychar := by
  obtain ⟨st, hp, hs, hb⟩ := parsimony_core hv hid w attrs
  have hn := view_nchar hv hm
  have hz : (List.replicate (nchar m) 0).length = n := by simp [hn]
  obtain ⟨_, e2, e3, e4⟩ := accB_spec _ n (ws_length hn w hw) bv (view_rect hv hm).1 0 _ hz
  refine ⟨st, hp, by rw [hb]; exact e2, ?_, ?_⟩
  · intro c hc
    rw [hb, (e4 c hc).2, ws_getD hn w c hc, getD_replicate 0 0 _ c (by omega)]
    omega
  · rw [hs, hb]
    rw [sumL_replicate_zero] at e3
    omega

theorem view_swap {m : Matrix} {t t' : T} (hs : SwapT t t') : ∀ {bv : BV}, View m t bv →
    ∃ bv', View m t' bv' ∧ Sw bv bv' := by
  induction hs with
  | leaf =>
    intro bv hv
    cases hv with
    | leaf h => exact ⟨_, .leaf h, .leaf _⟩
  | same _ _ iha ihb =>
    intro bv hv
    cases hv with
    | node hva hvb =>
      obtain ⟨ba', va, sa⟩ := iha hva
      obtain ⟨bb', vb, sb⟩ := ihb hvb
      exact ⟨_, .node va vb, .same sa sb⟩
  | swap _ _ iha ihb =>
    intro bv hv
    cases hv with
    | node hva hvb =>
      obtain ⟨ba', va, sa⟩ := iha hva
      obtain ⟨bb', vb, sb⟩ := ihb hvb
      exact ⟨_, .node vb va, .swap sa sb⟩

theorem nodup_ll {r ia : Nat} {a1 a2 b : List Nat} (h : (r :: ((ia :: (a1 ++ a2)) ++ b)).Nodup) :
    (r :: (a1 ++ (ia :: (a2 ++ b)))).Nodup := by
  simp only [List.nodup_cons, List.nodup_append, List.mem_append, List.mem_cons, List.cons_append] at h ⊢
  grind

theorem nodup_lr {r ia : Nat} {a1 a2 b : List Nat} (h : (r :: ((ia :: (a1 ++ a2)) ++ b)).Nodup) :
    (r :: ((ia :: (a1 ++ b)) ++ a2)).Nodup := by
  simp only [List.nodup_cons, List.nodup_append, List.mem_append, List.mem_cons, List.cons_append] at h ⊢
  grind

theorem nodup_rl {r ib : Nat} {a b1 b2 : List Nat} (h : (r :: (a ++ (ib :: (b1 ++ b2)))).Nodup) :
    (r :: ((ib :: (a ++ b2)) ++ b1)).Nodup := by
  simp only [List.nodup_cons, List.nodup_append, List.mem_append, List.mem_cons, List.cons_append] at h ⊢
  grind

theorem nodup_rr {r ib : Nat} {a b1 b2 : List Nat} (h : (r :: (a ++ (ib :: (b1 ++ b2)))).Nodup) :
    (r :: ((ib :: (a ++ b1)) ++ b2)).Nodup := by
  simp only [List.nodup_cons, List.nodup_append, List.mem_append, List.mem_cons, List.cons_append] at h ⊢
  grind

/-- one root slide keeps the view (same rows at the same leaves), rotates the tree of rows, keeps identities distinct -/
theorem view_rootStep {m : Matrix} {t : T} {bv : BV} (hv : View m t bv) (hid : (ids t).Nodup) (s : Step) :
    ∃ bv', View m (rootStep s t) bv' ∧ Rot bv bv' ∧ (ids (rootStep s t)).Nodup := by
  cases hv with
  | leaf h => exact ⟨_, by cases s <;> exact .leaf h, .refl _, by cases s <;> exact hid⟩
  | @node i x l s0 a b ba bb hva hvb =>
    cases s with
    | LL =>
      cases hva with
      | leaf h => exact ⟨_, .node (.leaf h) hvb, .refl _, hid⟩
      | node h1 h2 =>
        refine ⟨_, .node h1 (.node h2 hvb), .ll _ _ _, ?_⟩
        simp only [rootStep, ids_node2] at hid ⊢
        exact nodup_ll hid
    | LR =>
      cases hva with
      | leaf h => exact ⟨_, .node (.leaf h) hvb, .refl _, hid⟩
      | node h1 h2 =>
        refine ⟨_, .node (.node h1 hvb) h2, .lr _ _ _, ?_⟩
        simp only [rootStep, ids_node2] at hid ⊢
        exact nodup_lr hid
    | RL =>
      cases hvb with
      | leaf h => exact ⟨_, .node hva (.leaf h), .refl _, hid⟩
      | node h1 h2 =>
        refine ⟨_, .node (.node hva h2) h1, .rl _ _ _, ?_⟩
        simp only [rootStep, ids_node2] at hid ⊢
        exact nodup_rl hid
    | RR =>
      cases hvb with
      | leaf h => exact ⟨_, .node hva (.leaf h), .refl _, hid⟩
      | node h1 h2 =>
        refine ⟨_, .node (.node hva h1) h2, .rr _ _ _, ?_⟩
        simp only [rootStep, ids_node2] at hid ⊢
        exact nodup_rr hid

/-- any sequence of root slides: still viewed, identities distinct, every character's count unchanged -/
theorem view_reroot {m : Matrix} {n : Nat} (hm : RectM m n) : ∀ (path : List Step) {t : T} {bv : BV},
    View m t bv → (ids t).Nodup →
    ∃ bv', View m (reroot path t) bv' ∧ (ids (reroot path t)).Nodup ∧
      ∀ c, c < n → (fitch (col c bv)).2 = (fitch (col c bv')).2
  | [], t, bv, hv, hid => ⟨bv, hv, hid, fun _ _ => rfl⟩
  | s :: path, t, bv, hv, hid => by
    obtain ⟨bv1, hv1, hrot, hid1⟩ := view_rootStep hv hid s
    obtain ⟨bv2, hv2, hid2, heq⟩ := view_reroot hm path hv1 hid1
    refine ⟨bv2, by simpa [reroot] using hv2, by simpa [reroot] using hid2, ?_⟩
    intro c hc
    rw [← heq c hc]
    exact fitch_rot (Rot.map _ hrot) ((view_rect hv hm).2 c hc)

/-- two successful calls whose per-character Fitch counts agree return the same score and per-character list -/
theorem same_result {m : Matrix} {n : Nat} {t t' : T} {bv bv' : BV} (hv : View m t bv) (hv' : View m t' bv')
    (hm : RectM m n) (hid : (ids t).Nodup) (hid' : (ids t').Nodup) (w : Option (List Nat)) (hw : WOk w n)
    (heq : ∀ c, c < n → (fitch (col c bv)).2 = (fitch (col c bv')).2) (attrs attrs' : Attrs) :
    ∃ st st', parsimony m w attrs t = .ok st ∧ parsimony m w attrs' t' = .ok st' ∧
      st.score = st'.score ∧ st.bychar = st'.bychar := by
  obtain ⟨st, hp, hl, hb, hs⟩ := call_spec hv hm hid w hw attrs
  obtain ⟨st', hp', hl', hb', hs'⟩ := call_spec hv' hm hid' w hw attrs'
  have e : st.bychar = st'.bychar :=
    ext_getD n _ _ hl hl' (fun c hc => by rw [hb c hc, hb' c hc, heq c hc])
  exact ⟨st, st', hp, hp', by rw [hs, hs', e], e⟩

end Aux
open Aux

/-- **Specification of one call** (clause a, weighted sum over characters).  On a fully bifurcating tree whose nodes are
distinct objects and whose leaf taxa all have rows, `parsimony_score` succeeds — whatever `state_sets` attributes the
nodes carried before the call — its per-character list has one entry per character, entry `c` being the weight of `c` times
the Fitch count of character `c`, and the returned score is the weighted sum over the characters. -/
theorem score_spec {m : Matrix} {n : Nat} {t : T} {bv : BV} (hv : View m t bv) (hm : RectM m n)
    (hid : (ids t).Nodup) (w : Option (List Nat)) (hw : WOk w n) (attrs : Attrs) :
    ∃ st, parsimony m w attrs t = .ok st ∧ st.bychar.length = n ∧
      (∀ c, c < n → st.bychar.getD c 0 = wt w c * (fitch (col c bv)).2) ∧
      st.score = sumTo n (fun c => wt w c * (fitch (col c bv)).2) := by
  obtain ⟨st, hp, hl, hb, hs⟩ := call_spec hv hm hid w hw attrs
  refine ⟨st, hp, hl, hb, ?_⟩
  rw [hs, sumL_eq_sumTo, hl]
  exact sumTo_congr n _ _ hb

/-- **Minimality** (clause a).  The returned score is the minimum, over all families of assignments of states to all nodes
(one assignment per character, each agreeing with the leaf state sets: ambiguity codes and gaps are state sets), of the
weighted number of state changes along edges: no family costs less, and some family costs exactly the score. -/
theorem score_minimal {m : Matrix} {n : Nat} {t : T} {bv : BV} (hv : View m t bv) (hm : RectM m n)
    (hid : (ids t).Nodup) (w : Option (List Nat)) (hw : WOk w n) (attrs : Attrs) :
    ∃ st, parsimony m w attrs t = .ok st ∧
      (∀ asg : Nat → A, (∀ c, c < n → Valid (col c bv) (asg c)) →
        st.score ≤ sumTo n (fun c => wt w c * changes (asg c))) ∧
      (∃ asg : Nat → A, (∀ c, c < n → Valid (col c bv) (asg c)) ∧
        sumTo n (fun c => wt w c * changes (asg c)) = st.score) := by
  obtain ⟨st, hp, _, _, hs⟩ := score_spec hv hm hid w hw attrs
  have hne := (view_rect hv hm).2
  refine ⟨st, hp, ?_, ?_⟩
  · intro asg hval
    rw [hs]
    apply sumTo_le
    intro c hc
    exact Nat.mul_le_mul_left _ ((fitch_minimal (col c bv) (hne c hc)).1 (asg c) (hval c hc))
  · have hex : ∀ c, ∃ a : A, c < n → Valid (col c bv) a ∧ changes a = (fitch (col c bv)).2 := by
      intro c
      by_cases hc : c < n
      · obtain ⟨a, ha1, ha2⟩ := (fitch_minimal (col c bv) (hne c hc)).2
        exact ⟨a, fun _ => ⟨ha1, ha2⟩⟩
      · exact ⟨.leaf 0, fun h => absurd h hc⟩
    refine ⟨fun c => Classical.choose (hex c), fun c hc => (Classical.choose_spec (hex c) hc).1, ?_⟩
    rw [hs]
    apply sumTo_congr
    intro c hc
    rw [(Classical.choose_spec (hex c) hc).2]

/-- **Per-character scores add up to the total** (clause a). -/
theorem bychar_sum {m : Matrix} {n : Nat} {t : T} {bv : BV} (hv : View m t bv) (hm : RectM m n)
    (hid : (ids t).Nodup) (w : Option (List Nat)) (hw : WOk w n) (attrs : Attrs) (st : St)
    (h : parsimony m w attrs t = .ok st) : st.score = sumL st.bychar := by
  obtain ⟨st', hp, _, _, hs⟩ := call_spec hv hm hid w hw attrs
  rw [h] at hp
  cases hp
  exact hs

/-- **History independence, one call** (clause c).  Whatever attributes the nodes carry — left by any earlier scoring calls
with any matrices, or copied from another tree object by `clone` — the call returns what it returns on a fresh copy
(no attributes). -/
theorem history_independent {m : Matrix} {n : Nat} {t : T} {bv : BV} (hv : View m t bv) (hm : RectM m n)
    (hid : (ids t).Nodup) (w : Option (List Nat)) (hw : WOk w n) (attrs : Attrs) :
    ∃ st st0, parsimony m w attrs t = .ok st ∧ parsimony m w [] t = .ok st0 ∧
      st.score = st0.score ∧ st.bychar = st0.bychar :=
  same_result hv hv hm hid hid w hw (fun _ _ => rfl) attrs []

/-- **History independence, whole histories** (clause c).  The results of a history of scoring calls and clonings on tree
objects of one topology do not depend on the attributes the objects start with; in particular every call returns the value
it returns when it is the only call ever made (`runHist t [[]] [op]`). -/
theorem history_results_independent (t : T) (hid : (ids t).Nodup) : ∀ (ops : List Op) (objs objs' : List Attrs),
    (∀ op, op ∈ ops → OpOk t op) → objs.length = objs'.length →
    (runHist t objs ops).map (fun r => match r with
      | .ok s bc => (some (s, bc), 0) | .err _ => (none, 1) | .cloned => (none, 2) | .badObj => (none, 3)) =
    (runHist t objs' ops).map (fun r => match r with
      | .ok s bc => (some (s, bc), 0) | .err _ => (none, 1) | .cloned => (none, 2) | .badObj => (none, 3))
  | [], _, _, _, _ => rfl
  | .clone j :: rest, objs, objs', hok, hlen => by
    have ih := fun o o' h => history_results_independent t hid rest o o' (fun op h' => hok op (List.mem_cons_of_mem _ h')) h
    by_cases hj : j < objs.length
    · have hj' : j < objs'.length := by omega
      simp only [runHist, List.getElem?_eq_getElem hj, List.getElem?_eq_getElem hj', List.map_cons]
      rw [ih (objs ++ [objs[j]]) (objs' ++ [objs'[j]]) (by simp [hlen])]
    · have hj' : ¬ j < objs'.length := by omega
      have e1 : objs[j]? = none := List.getElem?_eq_none (by omega)
      have e2 : objs'[j]? = none := List.getElem?_eq_none (by omega)
      simp only [runHist, e1, e2, List.map_cons]
      rw [ih objs objs' hlen]
  | .score j m w :: rest, objs, objs', hok, hlen => by
    have ih := fun o o' h => history_results_independent t hid rest o o' (fun op h' => hok op (List.mem_cons_of_mem _ h')) h
    by_cases hj : j < objs.length
    · have hj' : j < objs'.length := by omega
      obtain ⟨bv, n, hv, hm, hw⟩ := hok (.score j m w) (List.mem_cons_self)
      obtain ⟨st, st', hp, hp', hs, hb⟩ := same_result hv hv hm hid hid w hw (fun _ _ => rfl) objs[j] objs'[j]
      simp only [runHist, List.getElem?_eq_getElem hj, List.getElem?_eq_getElem hj', hp, hp', List.map_cons, hs, hb]
      rw [ih (objs.set j st.attrs) (objs'.set j st'.attrs) (by simp [hlen])]
    · have e1 : objs[j]? = none := List.getElem?_eq_none (by omega)
      have e2 : objs'[j]? = none := List.getElem?_eq_none (by omega)
      simp only [runHist, e1, e2, List.map_cons]
      rw [ih objs objs' hlen]

/-- **Child order independence** (clause b).  Two copies that differ by exchanging the children of any set of nodes (and
possibly in node identities, edge lengths, labels) get the same score and the same per-character list. -/
theorem child_order_independent {m : Matrix} {n : Nat} {t t' : T} {bv : BV} (hv : View m t bv) (hsw : SwapT t t')
    (hm : RectM m n) (hid : (ids t).Nodup) (hid' : (ids t').Nodup) (w : Option (List Nat)) (hw : WOk w n)
    (attrs attrs' : Attrs) :
    ∃ st st', parsimony m w attrs t = .ok st ∧ parsimony m w attrs' t' = .ok st' ∧
      st.score = st'.score ∧ st.bychar = st'.bychar := by
  obtain ⟨bv', hv', hs⟩ := view_swap hsw hv
  refine same_result hv hv' hm hid hid' w hw (fun c _ => ?_) attrs attrs'
  have e : fitch (col c bv) = fitch (col c bv') := fitch_sw (Sw.map _ hs)
  rw [e]

/-- **Root position independence** (clause b).  `reroot path t` slides the root of the bifurcating tree along `path` (each
step moves it onto one of the four edges next to the current root edge; every edge of the unrooted tree is reached by some
path, and the harness's re-rooted copies are exactly these, checked against `reroot` by the driver).  Score and
per-character list are the same at every root position. -/
theorem root_position_independent {m : Matrix} {n : Nat} {t : T} {bv : BV} (hv : View m t bv) (hm : RectM m n)
    (hid : (ids t).Nodup) (w : Option (List Nat)) (hw : WOk w n) (path : List Step) (attrs attrs' : Attrs) :
    ∃ st st', parsimony m w attrs t = .ok st ∧ parsimony m w attrs' (reroot path t) = .ok st' ∧
      st.score = st'.score ∧ st.bychar = st'.bychar := by
  obtain ⟨bv', hv', hid', heq⟩ := view_reroot hm path hv hid
  exact same_result hv hv' hm hid hid' w hw heq attrs attrs'

/-! ### the hypotheses are satisfiable; the functions compute -/

/-- `((t0,t1),t2)` with two characters -/
def exTree : T :=
  .node 0 none none none [.node 1 none none none [.node 2 (some 0) none none [], .node 3 (some 1) none none []],
                          .node 4 (some 2) none none []]
def exMatrix : Matrix := [(0, [1, 3]), (1, [2, 3]), (2, [1, 4])]
def exRows : BV := .node (.node (.leaf [1, 3]) (.leaf [2, 3])) (.leaf [1, 4])

example : View exMatrix exTree exRows := .node (.node (.leaf rfl) (.leaf rfl)) (.leaf rfl)
example : (ids exTree).Nodup := by decide
example : WOk (some [2, 5]) 2 := rfl
example : RectM exMatrix 2 := by
  intro k row h
  simp only [exMatrix, getAttr] at h
  split at h
  · cases h; decide
  · split at h
    · cases h; decide
    · split at h
      · cases h; decide
      · cases h
example : SwapT exTree (.node 9 none none none [.node 8 (some 2) none none [],
    .node 7 none none none [.node 6 (some 1) none none [], .node 5 (some 0) none none []]]) :=
  .swap (.swap .leaf .leaf) .leaf
example : (match parsimony exMatrix (some [2, 5]) [(2, [7, 7, 7])] exTree with
    | .ok st => some (st.score, st.bychar) | .error _ => none) = some (7, [2, 5]) := by decide
example : (match parsimony exMatrix none [] (reroot [.LL] exTree) with
    | .ok st => some (st.score, st.bychar) | .error _ => none) = some (2, [1, 1]) := by decide

end DendroModel.C16
