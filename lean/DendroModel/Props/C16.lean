import DendroModel.Theory.C16Cols
import DendroModel.Theory.C16Poly
import DendroModel.Theory.C16Gap
import DendroModel.Theory.C15Build
import DendroModel.Theory.C16Sym
import DendroModel.Theory.C16Up
import DendroModel.Theory.C16UpMachine
import DendroModel.Gen.C16Kernels
/-! C16 — property theorems about `parsimony` (= `runNodes` over the post-order with the node-attribute store), the
function the driver `drv_c16` runs.

Vocabulary (definitions in `Theory/C16*.lean`):
* `View m t bv` — `t` is fully bifurcating, every leaf carries a taxon with a row in the matrix `m`; `bv` is the binary tree
  of those rows; `col c bv` is character `c` of it (one state set per leaf).
* `RectM m n` — every row of `m` has `n` characters and no empty state set.
* `ids t` — the node identities (distinct Python objects = `Nodup`).
* `A`, `Valid`, `changes` — an assignment of a state to every node, agreeing with the leaf state sets; its number of
  changes along edges.  `sumTo n f = f 0 + … + f (n-1)`; `wt w c` = weight of character `c` (1 when `weights is None`).

Only property theorems live directly in `namespace DendroModel.C16` of this file; helpers are in `DendroModel.C16.Aux`. -/
namespace DendroModel.C16

/-- every row of the matrix has `n` characters and no empty state set -/
def RectM (m : Matrix) (n : Nat) : Prop :=
  ∀ k row, getAttr m k = some row → row.length = n ∧ ∀ s, s ∈ row → s ≠ 0

/-- weight of character `c` -/
def wt (w : Option (List Nat)) (c : Nat) : Nat :=
  match w with
  | none => 1
  | some l => l.getD c 0

/-- at least one weight per character, if weights are given (the code never looks at entries past the last character) -/
def WOk (w : Option (List Nat)) (n : Nat) : Prop :=
  match w with
  | none => True
  | some l => n ≤ l.length

/-- copies of a bifurcating tree that differ in child order (and possibly in node identities, lengths, labels) -/
inductive SwapT : T → T → Prop
  | leaf {i i' : Nat} {x : Option Nat} {l l' : Option Frac} {s s' : Option String} :
      SwapT (.node i x l s []) (.node i' x l' s' [])
  | same {i i' : Nat} {x x' : Option Nat} {l l' : Option Frac} {s s' : Option String} {a a' b b' : T} :
      SwapT a a' → SwapT b b' → SwapT (.node i x l s [a, b]) (.node i' x' l' s' [a', b'])
  | swap {i i' : Nat} {x x' : Option Nat} {l l' : Option Frac} {s s' : Option String} {a a' b b' : T} :
      SwapT a a' → SwapT b b' → SwapT (.node i x l s [a, b]) (.node i' x' l' s' [b', a'])

/-- the statement's trees: fully bifurcating with a binary root (`rooted`), or in the usual unrooted form with a basal
    trifurcation (`unrooted`), which is read as `((a, b), c)` -/
inductive ViewU (m : Matrix) : T → BV → Prop
  | rooted {t : T} {bv : BV} : View m t bv → ViewU m t bv
  | unrooted {i : Nat} {x : Option Nat} {l : Option Frac} {s : Option String} {a b c : T} {ba bb bc : BV} :
      View m a ba → View m b bb → View m c bc → ViewU m (.node i x l s [a, b, c]) (.node (.node ba bb) bc)

/-- what a call lets its caller observe: the exception class, or the score and the per-character list -/
def obs : Except Err St → Except Err (Nat × List Nat)
  | .error e => .error e
  | .ok st => .ok (st.score, st.bychar)

def obsT : Except Err (Row × Nat × List Nat) → Except Err (Nat × List Nat)
  | .error e => .error e
  | .ok (_, sc, bc) => .ok (sc, bc)

/-- observable result of one history step -/
inductive Obs where
  | call (r : Except Err (Nat × List Nat))
  | cloned
  | badObj

def Res.toObs : Res → Obs
  | .ok s bc => .call (.ok (s, bc))
  | .err e => .call (.error e)
  | .cloned => .cloned
  | .badObj => .badObj

/-- the reference semantics of a history: every scoring call is made on a FRESH copy of the tree (no attributes); only
    the number of live tree objects is tracked -/
def refHist (t : T) : Nat → List Op → List Obs
  | _, [] => []
  | n, .clone j :: rest => if j < n then .cloned :: refHist t (n + 1) rest else .badObj :: refHist t n rest
  | n, .score j m w :: rest =>
    if j < n then .call (obs (parsimony m w [] t)) :: refHist t n rest else .badObj :: refHist t n rest

/-- `v` is a proper descendant subtree of `t` (so there is an edge above it) -/
inductive Below : T → T → Prop
  | child {v t : T} : v ∈ t.cs → Below v t
  | deeper {v w t : T} : Below w t → v ∈ w.cs → Below v t

/-- `mM` is the matrix `mF` re-read with gaps as missing data: same taxa, and in every column `c` (whose proper states are
    `qs[c]`) the sets are related by `GapRel` -/
def GapRelM (n : Nat) (qs : List SS) (mF mM : Matrix) : Prop :=
  ∀ k rowF, getAttr mF k = some rowF → ∃ rowM, getAttr mM k = some rowM ∧
    ∀ c, c < n → GapRel (qs.getD c 0) (rowF.getD c 0) (rowM.getD c 0)

/-- the proper (non-gap) states of a fixed alphabet: what `?` denotes with gaps as missing data -/
def properStates (alph : String) : SS :=
  match C16Alphabets.alphabets.find? (fun a => a.1 == alph) with
  | none => 0
  | some (_, tab) =>
    match tab.find? (fun e => e.1 == 63) with
    | none => 0
    | some (_, _, miss) => miss

/-- Boolean form of `GapRel` on masks -/
def gapOkB (q F M : SS) : Bool := ((F &&& q) &&& M == F &&& q) && (F &&& q == F || M &&& q == q)

/-- the proper (non-gap) states of a column's alphabet -/
def qOfCol : ColAlph → SS
  | .table name => properStates name
  | .custom _ fund _ => (1 <<< fund.length) - 1

/-- two rows related column by column -/
def RowRel : List SS → Row → Row → Prop
  | [], [], [] => True
  | q :: qs, f :: fs, m :: ms => GapRel q f m ∧ RowRel qs fs ms
  | _, _, _ => False

/-- union (OR) of one of the two masks of the listed member symbols in a symbol table (`none` if a member has no entry) -/
def unionOfMembers (tab : List (Nat × Nat × Nat)) (gapsAsMissing : Bool) : List Nat → Option SS
  | [] => some 0
  | c :: cs =>
    match tab.find? (fun e => e.1 == c), unionOfMembers tab gapsAsMissing cs with
    | some (_, full, miss), some u => some ((if gapsAsMissing then miss else full) ||| u)
    | _, _ => none

/-- the fundamental symbols, in index order, denote the singletons `{0}`, `{1}`, … (index = position) with the gap as a state -/
def fundSingletons (tab : List (Nat × Nat × Nat)) : Nat → List Nat → Bool
  | _, [] => true
  | i, c :: cs =>
    (match tab.find? (fun e => e.1 == c) with
     | some (_, full, _) => full == 1 <<< i
     | none => false) && fundSingletons tab (i + 1) cs

/-- observable result of one step of a history with matrix objects -/
inductive MObs where
  | call (r : Except Err (Nat × List Nat))
  | cloned
  | badObj
  | matOk
  | badMat

def MRes.toObs : MRes → MObs
  | .ok s bc => .call (.ok (s, bc))
  | .err e => .call (.error e)
  | .cloned => .cloned
  | .badObj => .badObj
  | .matOk => .matOk
  | .badMat => .badMat

/-- reference semantics of a history with matrix objects: the matrix objects evolve by `stepMats` (create / edit in place), and
    every scoring call is made on a FRESH copy of the tree with the matrix `callMatrix` builds from the content the matrix object has
    at that moment — i.e. a freshly built matrix with identical content -/
def refMHist (t : T) : Nat → List MatObj → List MOp → List MObs
  | _, _, [] => []
  | n, mats, op :: rest =>
    match op with
    | .clone j => if j < n then .cloned :: refMHist t (n + 1) mats rest else .badObj :: refMHist t n mats rest
    | .defMat _ _ | .editCell _ _ _ _ | .editSeq _ _ _ =>
      (if (stepMats mats op).2 == some true then MObs.matOk else MObs.badMat) :: refMHist t n (stepMats mats op).1 rest
    | .score _ _ _ | .scoreMat _ _ _ _ =>
      match callMatrix mats op with
      | none => .badMat :: refMHist t n mats rest
      | some (j, m, w) =>
        if j < n then .call (obs (parsimony m w [] t)) :: refMHist t n mats rest else .badObj :: refMHist t n mats rest

namespace Aux

theorem getD_replicate (v d : Nat) : ∀ (n c : Nat), c < n → (List.replicate n v).getD c d = v
  | n + 1, 0, _ => by simp [List.replicate]
  | n + 1, c + 1, h => by
    have := getD_replicate v d n c (by omega)
    simpa [List.replicate] using this

theorem sumL_replicate_zero : ∀ n, sumL (List.replicate n 0) = 0
  | 0 => by simp [sumL]
  | n + 1 => by simp [List.replicate, sumL, sumL_replicate_zero n]

theorem getD_mem : ∀ (l : List Nat) (c : Nat), c < l.length → l.getD c 0 ∈ l
  | x :: xs, 0, _ => by simp
  | x :: xs, c + 1, h => by
    have := getD_mem xs c (by simpa using h)
    simp only [List.getD_cons_succ, List.mem_cons]
    exact Or.inr this

theorem view_rect {m : Matrix} {n : Nat} {t : T} {bv : BV} (hv : View m t bv) (hm : RectM m n) :
    bv.All (fun row => row.length = n) ∧ ∀ c, c < n → NonEmptyLeaves (col c bv) := by
  induction hv with
  | @leaf i x l s row h =>
    cases x with
    | none => simp [lookupRow] at h
    | some k =>
      have ⟨h1, h2⟩ := hm k row (by simpa [lookupRow] using h)
      refine ⟨h1, ?_⟩
      intro c hc
      exact h2 _ (getD_mem row c (by omega))
  | node _ _ iha ihb =>
    exact ⟨⟨iha.1, ihb.1⟩, fun c hc => ⟨iha.2 c hc, ihb.2 c hc⟩⟩

theorem view_nchar {m : Matrix} {n : Nat} {t : T} {bv : BV} (hv : View m t bv) (hm : RectM m n) : nchar m = n := by
  induction hv with
  | @leaf i x l s row h =>
    cases m with
    | nil => cases x <;> simp [lookupRow, getAttr] at h
    | cons e rest =>
      obtain ⟨k, r⟩ := e
      have := (hm k r (by simp [getAttr])).1
      simpa [nchar] using this
  | node _ _ iha _ => exact iha

/-- the heart (refinement, any input): what a call lets its caller observe is the plain recursion `accT` started from zero,
    whatever attributes are stored on the nodes -/
theorem parsimony_obs (m : Matrix) (w : Option (List Nat)) (attrs : Attrs) {t : T} (hid : (ids t).Nodup) :
    obs (parsimony m w attrs t) = obsT (accT m (weightsOf m w) t 0 (List.replicate (nchar m) 0)) := by
  have h := run_T m (weightsOf m w) t hid { attrs := attrs, score := 0, bychar := List.replicate (nchar m) 0 }
  cases hacc : accT m (weightsOf m w) t 0 (List.replicate (nchar m) 0) with
  | error e =>
    have := h.1 e hacc
    simp only [parsimony, this, obs, obsT]
  | ok v =>
    obtain ⟨row, sc, bc⟩ := v
    obtain ⟨st', hr, _, hs, hb, _⟩ := h.2 row sc bc hacc
    simp only [parsimony, hr, obs, obsT, hs, hb]

theorem viewU_rect {m : Matrix} {n : Nat} {t : T} {bv : BV} (hv : ViewU m t bv) (hm : RectM m n) :
    bv.All (fun row => row.length = n) ∧ ∀ c, c < n → NonEmptyLeaves (col c bv) := by
  cases hv with
  | rooted h => exact view_rect h hm
  | unrooted ha hb hc =>
    have ra := view_rect ha hm
    have rb := view_rect hb hm
    have rc := view_rect hc hm
    exact ⟨⟨⟨ra.1, rb.1⟩, rc.1⟩, fun c hc' => ⟨⟨ra.2 c hc', rb.2 c hc'⟩, rc.2 c hc'⟩⟩

theorem viewU_nchar {m : Matrix} {n : Nat} {t : T} {bv : BV} (hv : ViewU m t bv) (hm : RectM m n) : nchar m = n := by
  cases hv with
  | rooted h => exact view_nchar h hm
  | unrooted ha _ _ => exact view_nchar ha hm

theorem viewU_spec {m : Matrix} {ws : List Nat} {n : Nat} (hws : n ≤ ws.length) {t : T} {bv : BV} (hv : ViewU m t bv)
    (hm : RectM m n) : SpecT m ws n t bv := by
  cases hv with
  | rooted h => exact spec_view hws h (view_rect h hm).1
  | unrooted ha hb hc =>
    exact spec_tri hws ha hb hc (view_rect ha hm).1 (view_rect hb hm).1 (view_rect hc hm).1 _ _ _ _

theorem ws_length {m : Matrix} {n : Nat} (hn : nchar m = n) (w : Option (List Nat)) (hw : WOk w n) :
    n ≤ (weightsOf m w).length := by
  cases w with
  | none => simp [weightsOf, hn]
  | some l => simpa [WOk, weightsOf] using hw

theorem ws_getD {m : Matrix} {n : Nat} (hn : nchar m = n) (w : Option (List Nat)) (c : Nat) (hc : c < n) :
    (weightsOf m w).getD c 0 = wt w c := by
  cases w with
  | none => simp only [wt, weightsOf]; exact getD_replicate 1 0 _ c (by omega)
  | some l => simp [wt, weightsOf]

/-- everything about one call, from the character-wise specification of `accT` on this tree -/
theorem call_spec_gen {m : Matrix} {n : Nat} {t : T} {bv : BV} (w : Option (List Nat))
    (hspec : SpecT m (weightsOf m w) n t bv) (hn : nchar m = n) (hid : (ids t).Nodup) (attrs : Attrs) :
    ∃ st, parsimony m w attrs t = .ok st ∧ st.bychar.length = n ∧
      (∀ c, c < n → st.bychar.getD c 0 = wt w c * (fitch (col c bv)).2) ∧
      st.score = sumL st.bychar := by
  have hz : (List.replicate (nchar m) 0).length = n := by simp [hn]
  obtain ⟨row, sc, bc, hacc, _, e2, e3, e4⟩ := hspec 0 _ hz
  obtain ⟨st, hp, _, hs, hb, _⟩ :=
    (run_T m (weightsOf m w) t hid { attrs := attrs, score := 0, bychar := List.replicate (nchar m) 0 }).2 row sc bc hacc
  refine ⟨st, by simpa [parsimony] using hp, by rw [hb]; exact e2, ?_, ?_⟩
  · intro c hc
    rw [hb, (e4 c hc).2, ws_getD hn w c hc, getD_replicate 0 0 _ c (by omega)]
    omega
  · rw [hs, hb]
    rw [sumL_replicate_zero] at e3
    omega

theorem goodRows_nonempty {n : Nat} : ∀ (bv : BV), GoodRows n bv → ∀ c, c < n → NonEmptyLeaves (col c bv)
  | .leaf row, h, c, hc => by
    simp only [col, Bt.map, Bt.All] at h ⊢
    exact h.2 _ (getD_mem row c (by omega))
  | .node l r, h, c, hc => ⟨goodRows_nonempty l h.1 c hc, goodRows_nonempty r h.2 c hc⟩

theorem nchar_of_rect {m : Matrix} {n : Nat} (hm : RectM m n) (h0 : m ≠ []) : nchar m = n := by
  cases m with
  | nil => exact absurd rfl h0
  | cons e rest =>
    obtain ⟨k, r⟩ := e
    have := (hm k r (by simp [getAttr])).1
    simpa [nchar] using this

/-- everything about one call: success, per-character values, total -/
theorem call_spec {m : Matrix} {n : Nat} {t : T} {bv : BV} (hv : ViewU m t bv) (hm : RectM m n)
    (hid : (ids t).Nodup) (w : Option (List Nat)) (hw : WOk w n) (attrs : Attrs) :
    ∃ st, parsimony m w attrs t = .ok st ∧ st.bychar.length = n ∧
      (∀ c, c < n → st.bychar.getD c 0 = wt w c * (fitch (col c bv)).2) ∧
      st.score = sumL st.bychar := by
  have hn := viewU_nchar hv hm
  have hz : (List.replicate (nchar m) 0).length = n := by simp [hn]
  obtain ⟨row, sc, bc, hacc, _, e2, e3, e4⟩ := viewU_spec (ws_length hn w hw) hv hm 0 _ hz
  obtain ⟨st, hp, _, hs, hb, _⟩ :=
    (run_T m (weightsOf m w) t hid { attrs := attrs, score := 0, bychar := List.replicate (nchar m) 0 }).2 row sc bc hacc
  refine ⟨st, by simpa [parsimony] using hp, by rw [hb]; exact e2, ?_, ?_⟩
  · intro c hc
    rw [hb, (e4 c hc).2, ws_getD hn w c hc, getD_replicate 0 0 _ c (by omega)]
    omega
  · rw [hs, hb]
    rw [sumL_replicate_zero] at e3
    omega

theorem view_swap {m : Matrix} {t t' : T} (hs : SwapT t t') : ∀ {bv : BV}, View m t bv →
    ∃ bv', View m t' bv' ∧ Sw bv bv' := by
  induction hs with
  | leaf =>
    intro bv hv
    cases hv with
    | leaf h => exact ⟨_, .leaf h, .leaf _⟩
  | same _ _ iha ihb =>
    intro bv hv
    cases hv with
    | node hva hvb =>
      obtain ⟨ba', va, sa⟩ := iha hva
      obtain ⟨bb', vb, sb⟩ := ihb hvb
      exact ⟨_, .node va vb, .same sa sb⟩
  | swap _ _ iha ihb =>
    intro bv hv
    cases hv with
    | node hva hvb =>
      obtain ⟨ba', va, sa⟩ := iha hva
      obtain ⟨bb', vb, sb⟩ := ihb hvb
      exact ⟨_, .node vb va, .swap sa sb⟩

theorem nodup_ll {r ia : Nat} {a1 a2 b : List Nat} (h : (r :: ((ia :: (a1 ++ a2)) ++ b)).Nodup) :
    (r :: (a1 ++ (ia :: (a2 ++ b)))).Nodup := by
  simp only [List.nodup_cons, List.nodup_append, List.mem_append, List.mem_cons, List.cons_append] at h ⊢
  grind

theorem nodup_lr {r ia : Nat} {a1 a2 b : List Nat} (h : (r :: ((ia :: (a1 ++ a2)) ++ b)).Nodup) :
    (r :: ((ia :: (a1 ++ b)) ++ a2)).Nodup := by
  simp only [List.nodup_cons, List.nodup_append, List.mem_append, List.mem_cons, List.cons_append] at h ⊢
  grind

theorem nodup_rl {r ib : Nat} {a b1 b2 : List Nat} (h : (r :: (a ++ (ib :: (b1 ++ b2)))).Nodup) :
    (r :: ((ib :: (a ++ b2)) ++ b1)).Nodup := by
  simp only [List.nodup_cons, List.nodup_append, List.mem_append, List.mem_cons, List.cons_append] at h ⊢
  grind

theorem nodup_rr {r ib : Nat} {a b1 b2 : List Nat} (h : (r :: (a ++ (ib :: (b1 ++ b2)))).Nodup) :
    (r :: ((ib :: (a ++ b1)) ++ b2)).Nodup := by
  simp only [List.nodup_cons, List.nodup_append, List.mem_append, List.mem_cons, List.cons_append] at h ⊢
  grind

/-- one root slide keeps the view (same rows at the same leaves), rotates the tree of rows, keeps identities distinct -/
theorem view_rootStep {m : Matrix} {t : T} {bv : BV} (hv : View m t bv) (hid : (ids t).Nodup) (s : Step) :
    ∃ bv', View m (rootStep s t) bv' ∧ Rot bv bv' ∧ (ids (rootStep s t)).Nodup := by
  cases hv with
  | leaf h => exact ⟨_, by cases s <;> exact .leaf h, .refl _, by cases s <;> exact hid⟩
  | @node i x l s0 a b ba bb hva hvb =>
    cases s with
    | LL =>
      cases hva with
      | leaf h => exact ⟨_, .node (.leaf h) hvb, .refl _, hid⟩
      | node h1 h2 =>
        refine ⟨_, .node h1 (.node h2 hvb), .ll _ _ _, ?_⟩
        simp only [rootStep, ids_node2] at hid ⊢
        exact nodup_ll hid
    | LR =>
      cases hva with
      | leaf h => exact ⟨_, .node (.leaf h) hvb, .refl _, hid⟩
      | node h1 h2 =>
        refine ⟨_, .node (.node h1 hvb) h2, .lr _ _ _, ?_⟩
        simp only [rootStep, ids_node2] at hid ⊢
        exact nodup_lr hid
    | RL =>
      cases hvb with
      | leaf h => exact ⟨_, .node hva (.leaf h), .refl _, hid⟩
      | node h1 h2 =>
        refine ⟨_, .node (.node hva h2) h1, .rl _ _ _, ?_⟩
        simp only [rootStep, ids_node2] at hid ⊢
        exact nodup_rl hid
    | RR =>
      cases hvb with
      | leaf h => exact ⟨_, .node hva (.leaf h), .refl _, hid⟩
      | node h1 h2 =>
        refine ⟨_, .node (.node hva h1) h2, .rr _ _ _, ?_⟩
        simp only [rootStep, ids_node2] at hid ⊢
        exact nodup_rr hid

/-- any sequence of root slides: still viewed, identities distinct, every character's count unchanged -/
theorem view_reroot {m : Matrix} {n : Nat} (hm : RectM m n) : ∀ (path : List Step) {t : T} {bv : BV},
    View m t bv → (ids t).Nodup →
    ∃ bv', View m (reroot path t) bv' ∧ (ids (reroot path t)).Nodup ∧
      ∀ c, c < n → (fitch (col c bv)).2 = (fitch (col c bv')).2
  | [], t, bv, hv, hid => ⟨bv, hv, hid, fun _ _ => rfl⟩
  | s :: path, t, bv, hv, hid => by
    obtain ⟨bv1, hv1, hrot, hid1⟩ := view_rootStep hv hid s
    obtain ⟨bv2, hv2, hid2, heq⟩ := view_reroot hm path hv1 hid1
    refine ⟨bv2, by simpa [reroot] using hv2, by simpa [reroot] using hid2, ?_⟩
    intro c hc
    rw [← heq c hc]
    exact fitch_rot (Rot.map _ hrot) ((view_rect hv hm).2 c hc)

/-- two successful calls whose per-character Fitch counts agree return the same score and per-character list -/
theorem same_result {m : Matrix} {n : Nat} {t t' : T} {bv bv' : BV} (hv : ViewU m t bv) (hv' : ViewU m t' bv')
    (hm : RectM m n) (hid : (ids t).Nodup) (hid' : (ids t').Nodup) (w : Option (List Nat)) (hw : WOk w n)
    (heq : ∀ c, c < n → (fitch (col c bv)).2 = (fitch (col c bv')).2) (attrs attrs' : Attrs) :
    ∃ st st', parsimony m w attrs t = .ok st ∧ parsimony m w attrs' t' = .ok st' ∧
      st.score = st'.score ∧ st.bychar = st'.bychar := by
  obtain ⟨st, hp, hl, hb, hs⟩ := call_spec hv hm hid w hw attrs
  obtain ⟨st', hp', hl', hb', hs'⟩ := call_spec hv' hm hid' w hw attrs'
  have e : st.bychar = st'.bychar :=
    ext_getD n _ _ hl hl' (fun c hc => by rw [hb c hc, hb' c hc, heq c hc])
  exact ⟨st, st', hp, hp', by rw [hs, hs', e], e⟩

/-- any sequence of root slides keeps the view and the distinctness of identities (no matrix-shape hypothesis) -/
theorem view_reroot_view {m : Matrix} : ∀ (path : List Step) {t : T} {bv : BV}, View m t bv → (ids t).Nodup →
    ∃ bv', View m (reroot path t) bv' ∧ (ids (reroot path t)).Nodup
  | [], _, bv, hv, hid => ⟨bv, hv, hid⟩
  | s :: path, _, _, hv, hid => by
    obtain ⟨bv1, hv1, _, hid1⟩ := view_rootStep hv hid s
    obtain ⟨bv2, hv2, hid2⟩ := view_reroot_view path hv1 hid1
    exact ⟨bv2, by simpa [reroot] using hv2, by simpa [reroot] using hid2⟩

theorem reroot_snoc (path : List Step) (s : Step) (t : T) : reroot (path ++ [s]) t = rootStep s (reroot path t) := by
  simp [reroot, List.foldl_append]

/-- number of changes of an assignment around a trifurcating root with state `s` -/
def changes3 (s : Nat) (x y z : A) : Nat :=
  changes x + changes y + changes z + d x.root s + d y.root s + d z.root s

/-- the Fitch count of `((a, b), c)` is the minimum number of changes of the tree with the trifurcating root `(a, b, c)` -/
theorem tri_min (a b c : B) (ha : NonEmptyLeaves a) (hb : NonEmptyLeaves b) (hc : NonEmptyLeaves c) :
    (∀ s x y z, Valid a x → Valid b y → Valid c z → (fitch (.node (.node a b) c)).2 ≤ changes3 s x y z) ∧
    (∃ s x y z, Valid a x ∧ Valid b y ∧ Valid c z ∧ changes3 s x y z = (fitch (.node (.node a b) c)).2) := by
  have hmin := fitch_minimal (.node (.node a b) c) ⟨⟨ha, hb⟩, hc⟩
  have lower : ∀ s x y z, Valid a x → Valid b y → Valid c z → (fitch (.node (.node a b) c)).2 ≤ changes3 s x y z := by
    intro s x y z hx hy hz
    have := hmin.1 (.node s (.node s x y) z) ⟨⟨hx, hy⟩, hz⟩
    simp only [changes, root_node, d_self] at this
    simp only [changes3]; omega
  refine ⟨lower, ?_⟩
  obtain ⟨asg, hv, hc'⟩ := hmin.2
  cases asg with
  | leaf s => simp [Valid] at hv
  | node r inner γ =>
    cases inner with
    | leaf s => simp [Valid] at hv
    | node y α β =>
      simp only [Valid] at hv
      refine ⟨y, α, β, γ, hv.1.1, hv.1.2, hv.2, ?_⟩
      have lo := lower y α β γ hv.1.1 hv.1.2 hv.2
      have tri := d_triangle γ.root r y
      have hcomm := d_comm y r
      simp only [changes, root_node] at hc'
      simp only [changes3] at lo ⊢
      omega

theorem symbolSet_nonzero (htab : ∀ a, a ∈ C16Alphabets.alphabets → ∀ e, e ∈ a.2 → e.2.1 ≠ 0 ∧ e.2.2 ≠ 0)
    (alph : String) (g : Bool) (c : Char) (v : SS) (h : symbolSet alph g c = some v) : v ≠ 0 := by
  unfold symbolSet at h
  split at h
  · cases h
  · rename_i nm tab hf
    have ha := List.mem_of_find?_eq_some hf
    split at h
    · cases h
    · rename_i sym full miss he
      have hmem := List.mem_of_find?_eq_some he
      have := htab _ ha _ hmem
      cases h
      cases g
      · simpa using this.1
      · simpa using this.2

theorem one_shl_ne_zero (i : Nat) : (1 <<< i : Nat) ≠ 0 := by
  rw [Nat.one_shiftLeft]; exact Nat.ne_of_gt (Nat.two_pow_pos i)

theorem all_ne_zero {k : Nat} (hk : k ≠ 0) : ((1 <<< k : Nat) - 1) ≠ 0 := by
  rw [Nat.one_shiftLeft]
  have := Nat.one_lt_two_pow hk
  omega

theorem fundMask_nonzero (fund : List Char) : ∀ (ms : List Char) (v : SS), ms ≠ [] → fundMask fund ms = some v → v ≠ 0
  | [], _, h, _ => absurd rfl h
  | c :: cs, v, _, h => by
    simp only [fundMask] at h
    cases hi : idxOf c fund with
    | none => simp [hi] at h
    | some i =>
      cases hm : fundMask fund cs with
      | none => simp [hi, hm] at h
      | some mk =>
        simp only [hi, hm, Option.some.injEq] at h
        subst h
        exact or_ne_zero_left (one_shl_ne_zero i)

theorem customSet_nonzero (gm : Bool) (fund : List Char) (amb : List (Char × List Char))
    (hwf : (ColAlph.custom gm fund amb).wf = true) (g : Bool) (c : Char) (v : SS)
    (h : customSet gm fund amb g c = some v) : v ≠ 0 := by
  simp only [ColAlph.wf, Bool.and_eq_true, Bool.not_eq_true', List.all_eq_true] at hwf
  have hk : fund.length ≠ 0 := by
    intro h0
    have : fund = [] := List.eq_nil_of_length_eq_zero h0
    simp [this] at hwf
  simp only [customSet] at h
  split at h
  · cases h
    cases g
    · exact one_shl_ne_zero fund.length
    · simpa using all_ne_zero hk
  · split at h
    · cases h
      cases g
      · exact or_ne_zero_left (all_ne_zero hk)
      · simpa using all_ne_zero hk
    · split at h
      · cases h; exact one_shl_ne_zero _
      · split at h
        · rename_i sym ms hf
          have hmem := List.mem_of_find?_eq_some hf
          have hne : ms ≠ [] := by
            have := hwf.2 _ hmem
            intro e; simp [e] at this
          exact fundMask_nonzero fund ms v hne h
        · cases h

theorem sumTo_add : ∀ (n : Nat) (f g : Nat → Nat), sumTo n (fun c => f c + g c) = sumTo n f + sumTo n g
  | 0, _, _ => by simp [sumTo]
  | n + 1, f, g => by
    have ih := sumTo_add n (fun c => f (c + 1)) (fun c => g (c + 1))
    simp only [sumTo] at ih ⊢
    omega

theorem sumTo_mul : ∀ (n a : Nat) (f : Nat → Nat), sumTo n (fun c => a * f c) = a * sumTo n f
  | 0, _, _ => by simp [sumTo]
  | n + 1, a, f => by
    have ih := sumTo_mul n a (fun c => f (c + 1))
    simp only [sumTo] at ih ⊢
    rw [ih, Nat.mul_add]

theorem getD_map_mul (a : Nat) : ∀ (l : List Nat) (c : Nat), (l.map (fun x => a * x)).getD c 0 = a * l.getD c 0
  | [], c => by simp
  | x :: xs, 0 => by simp
  | x :: xs, c + 1 => by simpa using getD_map_mul a xs c

theorem gapRel_of_gapOkB {q F M : SS} (h : gapOkB q F M = true) : GapRel q F M := by
  simp only [gapOkB, Bool.and_eq_true, Bool.or_eq_true, beq_iff_eq] at h
  obtain ⟨h1, h2⟩ := h
  intro s hs
  constructor
  · intro hq
    have : ((F &&& q) &&& M).testBit s = (F &&& q).testBit s := by rw [h1]
    simpa [Nat.testBit_and, hs, hq] using this
  · intro hq p hp
    rcases h2 with h2 | h2
    · have : (F &&& q).testBit s = F.testBit s := by rw [h2]
      simp [Nat.testBit_and, hs, hq] at this
    · have : (M &&& q).testBit p = q.testBit p := by rw [h2]
      simpa [Nat.testBit_and, hp] using this

theorem view_gap {n : Nat} {qs : List SS} {mF mM : Matrix} (hrel : GapRelM n qs mF mM) {t : T} {bvF : BV}
    (hv : View mF t bvF) : ∃ bvM, View mM t bvM ∧ ∀ c, c < n → RelB (qs.getD c 0) (col c bvF) (col c bvM) := by
  induction hv with
  | @leaf i x l s row h =>
    cases x with
    | none => simp [lookupRow] at h
    | some k =>
      obtain ⟨rowM, hM, hg⟩ := hrel k row (by simpa [lookupRow] using h)
      exact ⟨.leaf rowM, .leaf (by simpa [lookupRow] using hM), fun c hc => .leaf (hg c hc)⟩
  | node _ _ iha ihb =>
    obtain ⟨ba, va, ra⟩ := iha
    obtain ⟨bb, vb, rb⟩ := ihb
    exact ⟨.node ba bb, .node va vb, fun c hc => .node (ra c hc) (rb c hc)⟩

theorem viewU_gap {n : Nat} {qs : List SS} {mF mM : Matrix} (hrel : GapRelM n qs mF mM) {t : T} {bvF : BV}
    (hv : ViewU mF t bvF) : ∃ bvM, ViewU mM t bvM ∧ ∀ c, c < n → RelB (qs.getD c 0) (col c bvF) (col c bvM) := by
  cases hv with
  | rooted h =>
    obtain ⟨b, v, r⟩ := view_gap hrel h
    exact ⟨b, .rooted v, r⟩
  | unrooted ha hb hc =>
    obtain ⟨b1, v1, r1⟩ := view_gap hrel ha
    obtain ⟨b2, v2, r2⟩ := view_gap hrel hb
    obtain ⟨b3, v3, r3⟩ := view_gap hrel hc
    exact ⟨_, .unrooted v1 v2 v3, fun c hc' => .node (.node (r1 c hc') (r2 c hc')) (r3 c hc')⟩

theorem idxOf_lt (c : Char) : ∀ (fund : List Char) (i : Nat), idxOf c fund = some i → i < fund.length
  | [], _, h => by simp [idxOf] at h
  | x :: xs, i, h => by
    simp only [idxOf] at h
    split at h
    · cases h; simp
    · cases hr : idxOf c xs with
      | none => simp [hr] at h
      | some j =>
        simp only [hr, Option.map_some, Option.some.injEq] at h
        subst h
        have := idxOf_lt c xs j hr
        simp; omega

theorem testBit_all {k s : Nat} : ((1 <<< k : Nat) - 1).testBit s = decide (s < k) := by
  rw [Nat.one_shiftLeft]; exact Nat.testBit_two_pow_sub_one k s

theorem testBit_shl {i s : Nat} : (1 <<< i : Nat).testBit s = decide (i = s) := by
  rw [Nat.one_shiftLeft]; exact Nat.testBit_two_pow

theorem fundMask_sub (fund : List Char) : ∀ (ms : List Char) (v : SS), fundMask fund ms = some v →
    ∀ s, v.testBit s = true → s < fund.length
  | [], v, h, s, hs => by
    simp only [fundMask, Option.some.injEq] at h
    subst h; simp at hs
  | c :: cs, v, h, s, hs => by
    simp only [fundMask] at h
    cases hi : idxOf c fund with
    | none => simp [hi] at h
    | some i =>
      cases hm : fundMask fund cs with
      | none => simp [hi, hm] at h
      | some mk =>
        simp only [hi, hm, Option.some.injEq] at h
        subst h
        simp only [Nat.testBit_or, Bool.or_eq_true, testBit_shl, decide_eq_true_eq] at hs
        rcases hs with rfl | hs
        · exact idxOf_lt c fund _ hi
        · exact fundMask_sub fund cs mk hm s hs

/-- a set of proper states only is related to itself -/
theorem gapRel_self {k : Nat} {F : SS} (h : ∀ s, F.testBit s = true → s < k) : GapRel ((1 <<< k) - 1) F F := by
  intro s hs
  refine ⟨fun _ => hs, ?_⟩
  intro hq
  have := h s hs
  simp [testBit_all, this] at hq

theorem customSet_gapRel (gm : Bool) (fund : List Char) (amb : List (Char × List Char)) (c : Char) (F : SS)
    (h : customSet gm fund amb false c = some F) :
    ∃ M, customSet gm fund amb true c = some M ∧ GapRel ((1 <<< fund.length) - 1) F M := by
  simp only [customSet] at h ⊢
  split at h
  · rename_i hc
    simp only [Bool.false_eq_true, if_false, Option.some.injEq] at h
    subst h
    refine ⟨(1 <<< fund.length) - 1, by simp [hc], ?_⟩
    intro s hs
    simp only [testBit_shl, decide_eq_true_eq] at hs
    subst hs
    exact ⟨fun hq => by simp [testBit_all] at hq, fun _ p hp => hp⟩
  · rename_i hc
    split at h
    · rename_i hc2
      simp only [Bool.false_eq_true, if_false, Option.some.injEq] at h
      subst h
      refine ⟨(1 <<< fund.length) - 1, by simp [hc, hc2], ?_⟩
      intro s _
      exact ⟨fun hq => hq, fun _ p hp => hp⟩
    · rename_i hc2
      refine ⟨F, by simpa [hc, hc2] using h, ?_⟩
      apply gapRel_self
      split at h
      · rename_i i hi
        cases h
        intro s hs
        simp only [testBit_shl, decide_eq_true_eq] at hs
        subst hs
        exact idxOf_lt c fund _ hi
      · split at h
        · exact fundMask_sub fund _ F h
        · cases h


theorem rowOfBit_setCell (bit idx : Nat) (sym : Char) : ∀ (rows : List (Nat × List Char)) (b : Nat),
    rowOfBit b (setCell bit idx sym rows) =
      if b = bit then (rowOfBit bit rows).map (fun cs => cs.set idx sym) else rowOfBit b rows
  | [], b => by simp [setCell, rowOfBit]
  | (b0, cs) :: rest, b => by
    have ih := rowOfBit_setCell bit idx sym rest b
    by_cases h0 : (b0 == bit) = true
    · have e0 : b0 = bit := by simpa using h0
      subst e0
      by_cases hb : b = b0
      · subst hb; simp [setCell, rowOfBit]
      · have : (b0 == b) = false := by simp; exact fun e => hb e.symm
        simp [setCell, rowOfBit, this, hb]
    · have h0' : (b0 == bit) = false := by simpa using h0
      have hne : b0 ≠ bit := by simpa using h0
      by_cases hb : b0 = b
      · subst hb
        simp [setCell, rowOfBit, h0', hne]
      · have hb' : (b0 == b) = false := by simpa using hb
        simp [setCell, rowOfBit, h0', hb', ih]

theorem rowOfBit_setRow (bit : Nat) (syms : List Char) : ∀ (rows : List (Nat × List Char)) (b : Nat),
    rowOfBit b (setRow bit syms rows) =
      if b = bit then (rowOfBit bit rows).map (fun _ => syms) else rowOfBit b rows
  | [], b => by simp [setRow, rowOfBit]
  | (b0, cs) :: rest, b => by
    have ih := rowOfBit_setRow bit syms rest b
    by_cases h0 : (b0 == bit) = true
    · have e0 : b0 = bit := by simpa using h0
      subst e0
      by_cases hb : b = b0
      · subst hb; simp [setRow, rowOfBit]
      · have : (b0 == b) = false := by simp; exact fun e => hb e.symm
        simp [setRow, rowOfBit, this, hb]
    · have h0' : (b0 == bit) = false := by simpa using h0
      have hne : b0 ≠ bit := by simpa using h0
      by_cases hb : b0 = b
      · subst hb
        simp [setRow, rowOfBit, h0', hne]
      · have hb' : (b0 == b) = false := by simpa using hb
        simp [setRow, rowOfBit, h0', hb', ih]

end Aux
open Aux

/-- **Specification of one call** (clause a, weighted sum over characters).  On a fully bifurcating tree whose nodes are
distinct objects and whose leaf taxa all have rows, `parsimony_score` succeeds — whatever `state_sets` attributes the
nodes carried before the call — its per-character list has one entry per character, entry `c` being the weight of `c` times
the Fitch count of character `c`, and the returned score is the weighted sum over the characters. -/
theorem score_spec {m : Matrix} {n : Nat} {t : T} {bv : BV} (hv : ViewU m t bv) (hm : RectM m n)
    (hid : (ids t).Nodup) (w : Option (List Nat)) (hw : WOk w n) (attrs : Attrs) :
    ∃ st, parsimony m w attrs t = .ok st ∧ st.bychar.length = n ∧
      (∀ c, c < n → st.bychar.getD c 0 = wt w c * (fitch (col c bv)).2) ∧
      st.score = sumTo n (fun c => wt w c * (fitch (col c bv)).2) := by
  obtain ⟨st, hp, hl, hb, hs⟩ := call_spec hv hm hid w hw attrs
  refine ⟨st, hp, hl, hb, ?_⟩
  rw [hs, sumL_eq_sumTo, hl]
  exact sumTo_congr n _ _ hb

/-- **Minimality** (clause a).  The returned score is the minimum, over all families of assignments of states to all nodes
(one assignment per character, each agreeing with the leaf state sets: ambiguity codes and gaps are state sets), of the
weighted number of state changes along edges: no family costs less, and some family costs exactly the score. -/
theorem score_minimal {m : Matrix} {n : Nat} {t : T} {bv : BV} (hv : ViewU m t bv) (hm : RectM m n)
    (hid : (ids t).Nodup) (w : Option (List Nat)) (hw : WOk w n) (attrs : Attrs) :
    ∃ st, parsimony m w attrs t = .ok st ∧
      (∀ asg : Nat → A, (∀ c, c < n → Valid (col c bv) (asg c)) →
        st.score ≤ sumTo n (fun c => wt w c * changes (asg c))) ∧
      (∃ asg : Nat → A, (∀ c, c < n → Valid (col c bv) (asg c)) ∧
        sumTo n (fun c => wt w c * changes (asg c)) = st.score) := by
  obtain ⟨st, hp, _, _, hs⟩ := score_spec hv hm hid w hw attrs
  have hne := (viewU_rect hv hm).2
  refine ⟨st, hp, ?_, ?_⟩
  · intro asg hval
    rw [hs]
    apply sumTo_le
    intro c hc
    exact Nat.mul_le_mul_left _ ((fitch_minimal (col c bv) (hne c hc)).1 (asg c) (hval c hc))
  · have hex : ∀ c, ∃ a : A, c < n → Valid (col c bv) a ∧ changes a = (fitch (col c bv)).2 := by
      intro c
      by_cases hc : c < n
      · obtain ⟨a, ha1, ha2⟩ := (fitch_minimal (col c bv) (hne c hc)).2
        exact ⟨a, fun _ => ⟨ha1, ha2⟩⟩
      · exact ⟨.leaf 0, fun h => absurd h hc⟩
    refine ⟨fun c => Classical.choose (hex c), fun c hc => (Classical.choose_spec (hex c) hc).1, ?_⟩
    rw [hs]
    apply sumTo_congr
    intro c hc
    rw [(Classical.choose_spec (hex c) hc).2]

/-- **Per-character scores add up to the total** (clause a). -/
theorem bychar_sum {m : Matrix} {n : Nat} {t : T} {bv : BV} (hv : ViewU m t bv) (hm : RectM m n)
    (hid : (ids t).Nodup) (w : Option (List Nat)) (hw : WOk w n) (attrs : Attrs) (st : St)
    (h : parsimony m w attrs t = .ok st) : st.score = sumL st.bychar := by
  obtain ⟨st', hp, _, _, hs⟩ := call_spec hv hm hid w hw attrs
  rw [h] at hp
  cases hp
  exact hs

/-- **History independence, one call** (clause c).  Whatever attributes the nodes carry — left by any earlier scoring calls
with any matrices, or copied from another tree object by `clone` — the call returns what it returns on a fresh copy
(no attributes). -/
theorem history_independent {m : Matrix} {n : Nat} {t : T} {bv : BV} (hv : ViewU m t bv) (hm : RectM m n)
    (hid : (ids t).Nodup) (w : Option (List Nat)) (hw : WOk w n) (attrs : Attrs) :
    ∃ st st0, parsimony m w attrs t = .ok st ∧ parsimony m w [] t = .ok st0 ∧
      st.score = st0.score ∧ st.bychar = st0.bychar :=
  same_result hv hv hm hid hid w hw (fun _ _ => rfl) attrs []

/-- **History independence for every input** (clause c, refinement).  For ANY tree whose nodes are distinct objects
(polytomies, unary nodes, leaves without rows included), any matrix and any weights: what a call lets its caller observe —
the exception class, or the score and per-character list — does not depend on the attributes stored on the nodes. -/
theorem result_independent_of_attrs (m : Matrix) (w : Option (List Nat)) {t : T} (hid : (ids t).Nodup)
    (attrs attrs' : Attrs) : obs (parsimony m w attrs t) = obs (parsimony m w attrs' t) := by
  rw [parsimony_obs m w attrs hid, parsimony_obs m w attrs' hid]

/-- **History independence, whole histories** (clause c).  In any history of scoring calls (with any matrices, failing calls
included) and clonings on tree objects of one topology, every call lets its caller observe exactly what the same call
observes on a fresh copy of the tree on which nothing was ever scored (`refHist`). -/
theorem history_eq_fresh (t : T) (hid : (ids t).Nodup) : ∀ (ops : List Op) (objs : List Attrs),
    (runHist t objs ops).map Res.toObs = refHist t objs.length ops
  | [], _ => rfl
  | .clone j :: rest, objs => by
    by_cases hj : j < objs.length
    · simp only [runHist, List.getElem?_eq_getElem hj, List.map_cons, refHist, hj, if_true, Res.toObs]
      rw [history_eq_fresh t hid rest (objs ++ [objs[j]])]
      simp
    · have e1 : objs[j]? = none := List.getElem?_eq_none (by omega)
      simp only [runHist, e1, List.map_cons, refHist, hj, if_false, Res.toObs]
      rw [history_eq_fresh t hid rest objs]
  | .score j m w :: rest, objs => by
    by_cases hj : j < objs.length
    · have hind := result_independent_of_attrs m w hid objs[j] []
      simp only [runHist, List.getElem?_eq_getElem hj, refHist, hj, if_true]
      cases hp : parsimony m w objs[j] t with
      | error e =>
        rw [hp] at hind
        rw [← hind]
        simp only [List.map_cons, Res.toObs, obs]
        rw [history_eq_fresh t hid rest objs]
      | ok st =>
        rw [hp] at hind
        rw [← hind]
        simp only [List.map_cons, Res.toObs, obs]
        rw [history_eq_fresh t hid rest (objs.set j st.attrs)]
        simp
    · have e1 : objs[j]? = none := List.getElem?_eq_none (by omega)
      simp only [runHist, e1, List.map_cons, refHist, hj, if_false, Res.toObs]
      rw [history_eq_fresh t hid rest objs]

/-- corollary: the observable results of a history do not depend on the attributes the objects start with -/
theorem history_results_independent (t : T) (hid : (ids t).Nodup) (ops : List Op) (objs objs' : List Attrs)
    (hlen : objs.length = objs'.length) :
    (runHist t objs ops).map Res.toObs = (runHist t objs' ops).map Res.toObs := by
  rw [history_eq_fresh t hid ops objs, history_eq_fresh t hid ops objs', hlen]

/-- **Child order independence** (clause b).  Two copies that differ by exchanging the children of any set of nodes (and
possibly in node identities, edge lengths, labels) get the same score and the same per-character list. -/
theorem child_order_independent {m : Matrix} {n : Nat} {t t' : T} {bv : BV} (hv : View m t bv) (hsw : SwapT t t')
    (hm : RectM m n) (hid : (ids t).Nodup) (hid' : (ids t').Nodup) (w : Option (List Nat)) (hw : WOk w n)
    (attrs attrs' : Attrs) :
    ∃ st st', parsimony m w attrs t = .ok st ∧ parsimony m w attrs' t' = .ok st' ∧
      st.score = st'.score ∧ st.bychar = st'.bychar := by
  obtain ⟨bv', hv', hs⟩ := view_swap hsw hv
  refine same_result (.rooted hv) (.rooted hv') hm hid hid' w hw (fun c _ => ?_) attrs attrs'
  have e : fitch (col c bv) = fitch (col c bv') := fitch_sw (Sw.map _ hs)
  rw [e]

/-- **Root position independence** (clause b).  `reroot path t` slides the root of the bifurcating tree along `path` (each
step moves it onto one of the four edges next to the current root edge).  Score and per-character list are the same after
every sequence of slides; `reroot_reaches_every_edge` shows that every edge of the tree is reached by some sequence.  (The
harness's re-rooted copies are built by the same slides and compared with `reroot` through the driver.) -/
theorem root_position_independent {m : Matrix} {n : Nat} {t : T} {bv : BV} (hv : View m t bv) (hm : RectM m n)
    (hid : (ids t).Nodup) (w : Option (List Nat)) (hw : WOk w n) (path : List Step) (attrs attrs' : Attrs) :
    ∃ st st', parsimony m w attrs t = .ok st ∧ parsimony m w attrs' (reroot path t) = .ok st' ∧
      st.score = st'.score ∧ st.bychar = st'.bychar := by
  obtain ⟨bv', hv', hid', heq⟩ := view_reroot hm path hv hid
  exact same_result (.rooted hv) (.rooted hv') hm hid hid' w hw heq attrs attrs'


/-- **Minimality for the unrooted form** (clause a).  For a tree with a basal trifurcation `(a, b, c)` the returned score is the
minimum, over all families of assignments (one state for the trifurcating root and one assignment for each of the three
subtrees, per character), of the weighted number of changes along the edges of that tree. -/
theorem score_minimal_unrooted {m : Matrix} {n : Nat} {i : Nat} {x : Option Nat} {l : Option Frac} {s : Option String}
    {a b c : T} {ba bb bc : BV} (ha : View m a ba) (hb : View m b bb) (hc : View m c bc) (hm : RectM m n)
    (hid : (ids (.node i x l s [a, b, c])).Nodup) (w : Option (List Nat)) (hw : WOk w n) (attrs : Attrs) :
    ∃ st, parsimony m w attrs (.node i x l s [a, b, c]) = .ok st ∧
      (∀ (root : Nat → Nat) (xa xb xc : Nat → A),
        (∀ k, k < n → Valid (col k ba) (xa k) ∧ Valid (col k bb) (xb k) ∧ Valid (col k bc) (xc k)) →
        st.score ≤ sumTo n (fun k => wt w k * changes3 (root k) (xa k) (xb k) (xc k))) ∧
      (∃ (root : Nat → Nat) (xa xb xc : Nat → A),
        (∀ k, k < n → Valid (col k ba) (xa k) ∧ Valid (col k bb) (xb k) ∧ Valid (col k bc) (xc k)) ∧
        sumTo n (fun k => wt w k * changes3 (root k) (xa k) (xb k) (xc k)) = st.score) := by
  obtain ⟨st, hp, _, _, hs⟩ := score_spec (.unrooted ha hb hc) hm hid w hw attrs
  have na := (view_rect ha hm).2
  have nb := (view_rect hb hm).2
  have nc := (view_rect hc hm).2
  refine ⟨st, hp, ?_, ?_⟩
  · intro root xa xb xc hval
    rw [hs]
    apply sumTo_le
    intro k hk
    have hv := hval k hk
    exact Nat.mul_le_mul_left _ ((tri_min _ _ _ (na k hk) (nb k hk) (nc k hk)).1 (root k) _ _ _ hv.1 hv.2.1 hv.2.2)
  · have hex : ∀ k, ∃ q : Nat × A × A × A, k < n →
        Valid (col k ba) q.2.1 ∧ Valid (col k bb) q.2.2.1 ∧ Valid (col k bc) q.2.2.2 ∧
        changes3 q.1 q.2.1 q.2.2.1 q.2.2.2 = (fitch (col k (.node (.node ba bb) bc))).2 := by
      intro k
      by_cases hk : k < n
      · obtain ⟨r, x1, x2, x3, h1, h2, h3, h4⟩ := (tri_min _ _ _ (na k hk) (nb k hk) (nc k hk)).2
        exact ⟨(r, x1, x2, x3), fun _ => ⟨h1, h2, h3, h4⟩⟩
      · exact ⟨(0, .leaf 0, .leaf 0, .leaf 0), fun h => absurd h hk⟩
    refine ⟨fun k => (Classical.choose (hex k)).1, fun k => (Classical.choose (hex k)).2.1,
      fun k => (Classical.choose (hex k)).2.2.1, fun k => (Classical.choose (hex k)).2.2.2, ?_, ?_⟩
    · intro k hk
      have := Classical.choose_spec (hex k) hk
      exact ⟨this.1, this.2.1, this.2.2.1⟩
    · rw [hs]
      apply sumTo_congr
      intro k hk
      rw [(Classical.choose_spec (hex k) hk).2.2.2]

/-- **Every root position is reached** (clause b, completeness of the root slides).  For every proper descendant subtree `v` of a
bifurcating tree — i.e. for every edge, the one above `v` — some sequence of root slides makes `v`, with everything below it
unchanged, a child of the root.  What is stated here is only that `v` becomes a root child; that the OTHER root child then holds the
rest of the tree is not part of this statement: it follows from `Aux.view_rootStep` (every slide is one of the four `Rot`
rearrangements of the same subtrees, the node identities stay the same set) and is what the harness checks on every re-rooted copy
(`unrooted_splits`).  Together with `root_position_independent`: the score is the same with the root on any edge. -/
theorem reroot_reaches_every_edge {m : Matrix} {t : T} {bv : BV} (hv : View m t bv) (hid : (ids t).Nodup) {v : T}
    (hb : Below v t) : ∃ path, v ∈ (reroot path t).cs := by
  induction hb with
  | child h => exact ⟨[], by simpa [reroot] using h⟩
  | @deeper v w t hbw hvw ih =>
    obtain ⟨p, hw⟩ := ih hv hid
    obtain ⟨bv', hv', _⟩ := view_reroot_view p hv hid
    generalize hreq : reroot p t = t' at hw hv'
    have key : ∃ st, v ∈ (rootStep st t').cs := by
      cases hv' with
      | leaf _ => simp [T.cs] at hw
      | @node r x l s0 a b ba bb hva hvb =>
        simp only [T.cs, List.mem_cons, List.not_mem_nil, or_false] at hw
        rcases hw with rfl | rfl
        · cases hva with
          | leaf _ => simp [T.cs] at hvw
          | node h1 h2 =>
            simp only [T.cs, List.mem_cons, List.not_mem_nil, or_false] at hvw
            rcases hvw with rfl | rfl
            · exact ⟨.LL, by simp [rootStep, T.cs]⟩
            · exact ⟨.LR, by simp [rootStep, T.cs]⟩
        · cases hvb with
          | leaf _ => simp [T.cs] at hvw
          | node h1 h2 =>
            simp only [T.cs, List.mem_cons, List.not_mem_nil, or_false] at hvw
            rcases hvw with rfl | rfl
            · exact ⟨.RL, by simp [rootStep, T.cs]⟩
            · exact ⟨.RR, by simp [rootStep, T.cs]⟩
    obtain ⟨st, hst⟩ := key
    exact ⟨p ++ [st], by rw [reroot_snoc, hreq]; exact hst⟩

/-- **The generated symbol tables denote state sets** (clause a, "ambiguity codes treated as state sets and gaps as missing data
when so requested"; a statement about the whole finite table regenerated from `charstatemodel.py`, not a sample): in every
alphabet, no symbol denotes the empty set in either gap mode; with gaps as missing the gap symbol denotes what the missing-data
symbol `?` denotes, every other symbol loses exactly the gap state, and `?` without gaps-as-missing is that set plus the gap state. -/
theorem table_ok : C16Alphabets.alphabets.all (fun a =>
    match a.2.find? (fun e => e.1 == 45), a.2.find? (fun e => e.1 == 63) with
    | some (_, gap, _), some (_, qfull, qmiss) =>
      qmiss &&& gap == 0 && qfull == (qmiss ||| gap) &&
      a.2.all (fun e => e.2.1 != 0 && e.2.2 != 0 &&
        (if e.1 == 45 then e.2.2 == qmiss else e.2.2 == (e.2.1 &&& qmiss)))
    | _, _ => false) = true := by decide

theorem table_nonzero : ∀ a, a ∈ C16Alphabets.alphabets → ∀ e, e ∈ a.2 → e.2.1 ≠ 0 ∧ e.2.2 ≠ 0 := by decide

/-- every list of state sets `rowOfSymbols` builds (the driver's `sets` op for a fixed alphabet; matrices of scoring calls are built by
`matrixOf`, see `matrixOf_rectM`) is free of empty sets -/
theorem rowOfSymbols_nonzero (alph : String) (g : Bool) : ∀ (syms : List Char) (row : Row),
    rowOfSymbols alph g syms = some row → ∀ v, v ∈ row → v ≠ 0
  | [], row, h => by
    simp [rowOfSymbols] at h
    subst h
    intro v hv; cases hv
  | c :: cs, row, h => by
    simp only [rowOfSymbols, List.mapM_cons] at h
    cases h1 : symbolSet alph g c with
    | none => simp [h1] at h
    | some v1 =>
      cases h2 : List.mapM (symbolSet alph g) cs with
      | none => simp [h1, h2] at h
      | some vs =>
        simp [h1, h2] at h
        subst h
        intro v hv
        rcases List.mem_cons.mp hv with rfl | hv'
        · exact symbolSet_nonzero table_nonzero alph g c _ h1
        · exact rowOfSymbols_nonzero alph g cs vs h2 v hv'

/-- **No symbol of any column alphabet denotes the empty set** (clause a, per-column alphabets): fixed alphabets by the generated
tables, custom alphabets (at least one fundamental state, no memberless ambiguity code — the driver refuses others) by the rules
of `customSet`, in both gap modes. -/
theorem colSymbolSet_nonzero (col : ColAlph) (hwf : col.wf = true) (g : Bool) (c : Char) (v : SS)
    (h : colSymbolSet col g c = some v) : v ≠ 0 := by
  cases col with
  | table name => exact symbolSet_nonzero table_nonzero name g c v h
  | custom gm fund amb => exact customSet_nonzero gm fund amb hwf g c v h

/-- every row built for a matrix with per-column alphabets is free of empty sets and has one set per column -/
theorem rowOfCols_nonzero : ∀ (cols : List ColAlph) (g : Bool) (syms : List Char) (row : Row),
    (∀ col, col ∈ cols → col.wf = true) → rowOfCols cols g syms = some row →
    row.length = cols.length ∧ ∀ v, v ∈ row → v ≠ 0
  | [], _, [], row, _, h => by
    simp only [rowOfCols, Option.some.injEq] at h
    subst h
    exact ⟨rfl, fun v hv => by cases hv⟩
  | col :: cols, g, c :: cs, row, hwf, h => by
    simp only [rowOfCols] at h
    cases h1 : colSymbolSet col g c with
    | none => simp [h1] at h
    | some v1 =>
      cases h2 : rowOfCols cols g cs with
      | none => simp [h1, h2] at h
      | some vs =>
        simp only [h1, h2, Option.some.injEq] at h
        subst h
        have ih := rowOfCols_nonzero cols g cs vs (fun col' hc => hwf col' (List.mem_cons_of_mem _ hc)) h2
        refine ⟨by simp [ih.1], ?_⟩
        intro v hv
        rcases List.mem_cons.mp hv with rfl | hv'
        · exact colSymbolSet_nonzero col (hwf col (List.mem_cons_self)) g c _ h1
        · exact ih.2 v hv'
  | [], _, _ :: _, _, _, h => by simp [rowOfCols] at h
  | _ :: _, _, [], _, _, h => by simp [rowOfCols] at h

/-- **The score is additive in the weight list** (clause a, "summed over characters with the given weights"): scoring with the
position-wise sum of two weight lists gives the sum of the two scores and the position-wise sum of the per-character lists. -/
theorem score_linear_add {m : Matrix} {n : Nat} {t : T} {bv : BV} (hv : ViewU m t bv) (hm : RectM m n)
    (hid : (ids t).Nodup) (w1 w2 : List Nat) (h1 : w1.length = n) (h2 : w2.length = n) (attrs : Attrs) :
    ∃ st st1 st2, parsimony m (some (addL w1 w2)) attrs t = .ok st ∧ parsimony m (some w1) attrs t = .ok st1 ∧
      parsimony m (some w2) attrs t = .ok st2 ∧ st.score = st1.score + st2.score ∧
      st.bychar = addL st1.bychar st2.bychar := by
  obtain ⟨al, _, ag⟩ := addL_spec n w1 w2 h1 h2
  obtain ⟨st, hp, hl, hb, hs⟩ := score_spec hv hm hid (some (addL w1 w2)) (Nat.le_of_eq al.symm) attrs
  obtain ⟨st1, hp1, hl1, hb1, hs1⟩ := score_spec hv hm hid (some w1) (Nat.le_of_eq h1.symm) attrs
  obtain ⟨st2, hp2, hl2, hb2, hs2⟩ := score_spec hv hm hid (some w2) (Nat.le_of_eq h2.symm) attrs
  obtain ⟨bl, _, bg⟩ := addL_spec n st1.bychar st2.bychar hl1 hl2
  refine ⟨st, st1, st2, hp, hp1, hp2, ?_, ?_⟩
  · rw [hs, hs1, hs2, ← sumTo_add]
    apply sumTo_congr
    intro c hc
    simp only [wt, ag c hc, Nat.add_mul]
  · apply ext_getD n _ _ hl bl
    intro c hc
    rw [hb c hc, bg c hc, hb1 c hc, hb2 c hc]
    simp only [wt, ag c hc, Nat.add_mul]

/-- **The score is homogeneous in the weight list**: multiplying every weight by `a` multiplies the score and every
per-character entry by `a`. -/
theorem score_linear_smul {m : Matrix} {n : Nat} {t : T} {bv : BV} (hv : ViewU m t bv) (hm : RectM m n)
    (hid : (ids t).Nodup) (a : Nat) (w : List Nat) (hw : w.length = n) (attrs : Attrs) :
    ∃ st st1, parsimony m (some (w.map (fun x => a * x))) attrs t = .ok st ∧ parsimony m (some w) attrs t = .ok st1 ∧
      st.score = a * st1.score ∧ st.bychar = st1.bychar.map (fun x => a * x) := by
  have hw' : (w.map (fun x => a * x)).length = n := by simpa using hw
  obtain ⟨st, hp, hl, hb, hs⟩ := score_spec hv hm hid (some (w.map (fun x => a * x))) (Nat.le_of_eq hw'.symm) attrs
  obtain ⟨st1, hp1, hl1, hb1, hs1⟩ := score_spec hv hm hid (some w) (Nat.le_of_eq hw.symm) attrs
  refine ⟨st, st1, hp, hp1, ?_, ?_⟩
  · rw [hs, hs1, ← sumTo_mul]
    apply sumTo_congr
    intro c _
    simp only [wt, getD_map_mul, Nat.mul_assoc]
  · apply ext_getD n _ _ hl (by simpa using hl1)
    intro c hc
    rw [hb c hc, getD_map_mul, hb1 c hc]
    simp only [wt, getD_map_mul, Nat.mul_assoc]

/-- **`weights=None` is the all-ones weight list.** -/
theorem score_unweighted {m : Matrix} {n : Nat} {t : T} {bv : BV} (hv : ViewU m t bv) (hm : RectM m n)
    (hid : (ids t).Nodup) (attrs : Attrs) :
    ∃ st st1, parsimony m none attrs t = .ok st ∧ parsimony m (some (List.replicate n 1)) attrs t = .ok st1 ∧
      st.score = st1.score ∧ st.bychar = st1.bychar := by
  obtain ⟨st, hp, hl, hb, hs⟩ := score_spec hv hm hid none trivial attrs
  obtain ⟨st1, hp1, hl1, hb1, hs1⟩ := score_spec hv hm hid (some (List.replicate n 1)) (by simp [WOk]) attrs
  have e : ∀ c, c < n → wt none c = wt (some (List.replicate n 1)) c := by
    intro c hc
    simp only [wt]
    exact (getD_replicate 1 0 n c hc).symm
  refine ⟨st, st1, hp, hp1, ?_, ?_⟩
  · rw [hs, hs1]
    apply sumTo_congr
    intro c hc
    rw [e c hc]
  · apply ext_getD n _ _ hl hl1
    intro c hc
    rw [hb c hc, hb1 c hc, e c hc]

/-- **Polytomies: the fold is iterated binary Fitch** (mechanism "sequential over extra children").  `toBV m t = some bv` reads any
tree without unary nodes whose leaves all have rows as the binary tree of rows in which every node with children
`c0, c1, …, ck` is resolved into the ladder `(((c0, c1), c2), …, ck)`.  On every such tree the call succeeds, whatever attributes the
nodes carry; per-character entry `c` is the weight of `c` times the Fitch count of character `c` of that resolution, and the score
is their sum.  (`View`/`ViewU` trees are the special cases without / with only a basal polytomy: `toBV_of_viewU`.) -/
theorem polytomy_score_spec {m : Matrix} {n : Nat} {t : T} {bv : BV} (h : toBV m t = some bv) (hm : RectM m n)
    (hid : (ids t).Nodup) (w : Option (List Nat)) (hw : WOk w n) (attrs : Attrs) :
    ∃ st, parsimony m w attrs t = .ok st ∧ st.bychar.length = n ∧
      (∀ c, c < n → st.bychar.getD c 0 = wt w c * (fitch (col c bv)).2) ∧
      st.score = sumTo n (fun c => wt w c * (fitch (col c bv)).2) := by
  have hnc : ∀ ws : List Nat, n ≤ ws.length → GoodBV m ws n t bv := fun ws hws => good_T hws hm t bv h
  have hn : nchar m = n := by
    obtain ⟨_, _, h0⟩ := hnc (List.replicate n 0) (by simp)
    exact nchar_of_rect hm h0
  obtain ⟨hspec, _, _⟩ := hnc (weightsOf m w) (ws_length hn w hw)
  obtain ⟨st, hp, hl, hb, hs⟩ := call_spec_gen w hspec hn hid attrs
  refine ⟨st, hp, hl, hb, ?_⟩
  rw [hs, sumL_eq_sumTo, hl]
  exact sumTo_congr n _ _ hb

/-- **Minimality with polytomies: minimum of the LADDER RESOLUTION, not of the polytomy itself** (clause a, beyond the statement's
bifurcating trees).  The score the fold defines on a tree with
polytomies is the minimum weighted number of changes over all families of assignments of states to the nodes of its ladder
resolution (a resolution has more nodes than the polytomy, so this is a lower bound of the polytomy's own minimum; for a basal
trifurcation the two coincide, `score_minimal_unrooted`). -/
theorem polytomy_score_minimal {m : Matrix} {n : Nat} {t : T} {bv : BV} (h : toBV m t = some bv) (hm : RectM m n)
    (hid : (ids t).Nodup) (w : Option (List Nat)) (hw : WOk w n) (attrs : Attrs) :
    ∃ st, parsimony m w attrs t = .ok st ∧
      (∀ asg : Nat → A, (∀ c, c < n → Valid (col c bv) (asg c)) →
        st.score ≤ sumTo n (fun c => wt w c * changes (asg c))) ∧
      (∃ asg : Nat → A, (∀ c, c < n → Valid (col c bv) (asg c)) ∧
        sumTo n (fun c => wt w c * changes (asg c)) = st.score) := by
  obtain ⟨st, hp, _, _, hs⟩ := polytomy_score_spec h hm hid w hw attrs
  have hne := goodRows_nonempty bv (good_T (ws := List.replicate n 0) (by simp) hm t bv h).2.1
  refine ⟨st, hp, ?_, ?_⟩
  · intro asg hval
    rw [hs]
    apply sumTo_le
    intro c hc
    exact Nat.mul_le_mul_left _ ((fitch_minimal (col c bv) (hne c hc)).1 (asg c) (hval c hc))
  · have hex : ∀ c, ∃ a : A, c < n → Valid (col c bv) a ∧ changes a = (fitch (col c bv)).2 := by
      intro c
      by_cases hc : c < n
      · obtain ⟨a, ha1, ha2⟩ := (fitch_minimal (col c bv) (hne c hc)).2
        exact ⟨a, fun _ => ⟨ha1, ha2⟩⟩
      · exact ⟨.leaf 0, fun h => absurd h hc⟩
    refine ⟨fun c => Classical.choose (hex c), fun c hc => (Classical.choose_spec (hex c) hc).1, ?_⟩
    rw [hs]
    apply sumTo_congr
    intro c hc
    rw [(Classical.choose_spec (hex c) hc).2]

/-- the trees of the statement are read by `toBV` as themselves -/
theorem toBV_of_view {m : Matrix} {t : T} {bv : BV} (hv : View m t bv) : toBV m t = some bv := by
  induction hv with
  | leaf h => simp [toBV, toBVL, h]
  | node _ _ iha ihb => simp [toBV, toBVL, iha, ihb, ladder]

theorem toBV_of_viewU {m : Matrix} {t : T} {bv : BV} (hv : ViewU m t bv) : toBV m t = some bv := by
  cases hv with
  | rooted h => exact toBV_of_view h
  | unrooted ha hb hc => simp [toBV, toBVL, toBV_of_view ha, toBV_of_view hb, toBV_of_view hc, ladder]

/-- **Gaps as missing data never raise the score** (clause a, "gaps as missing data when so requested").  If `mM` is the matrix
`mF` re-read with gaps as missing data (`GapRelM`: in every column the proper states of a set are kept, and a set containing the gap
state becomes at least all proper states), then on the same tree the score and every per-character entry with `mM` are at most those
with `mF`. -/
theorem gaps_as_missing_monotone {n : Nat} {qs : List SS} {mF mM : Matrix} {t : T} {bvF : BV} (hv : ViewU mF t bvF)
    (hmF : RectM mF n) (hmM : RectM mM n) (hrel : GapRelM n qs mF mM) (hq : ∀ c, c < n → qs.getD c 0 ≠ 0)
    (hid : (ids t).Nodup) (w : Option (List Nat)) (hw : WOk w n) (attrs attrs' : Attrs) :
    ∃ stF stM, parsimony mF w attrs t = .ok stF ∧ parsimony mM w attrs' t = .ok stM ∧
      stM.score ≤ stF.score ∧ ∀ c, c < n → stM.bychar.getD c 0 ≤ stF.bychar.getD c 0 := by
  obtain ⟨bvM, hvM, hr⟩ := viewU_gap hrel hv
  obtain ⟨stF, hpF, _, hbF, hsF⟩ := score_spec hv hmF hid w hw attrs
  obtain ⟨stM, hpM, _, hbM, hsM⟩ := score_spec hvM hmM hid w hw attrs'
  have hle : ∀ c, c < n → (fitch (col c bvM)).2 ≤ (fitch (col c bvF)).2 := fun c hc =>
    fitch_gap_mono (hr c hc) (hq c hc) ((viewU_rect hv hmF).2 c hc) ((viewU_rect hvM hmM).2 c hc)
  refine ⟨stF, stM, hpF, hpM, ?_, ?_⟩
  · rw [hsF, hsM]
    exact sumTo_le n _ _ (fun c hc => Nat.mul_le_mul_left _ (hle c hc))
  · intro c hc
    rw [hbF c hc, hbM c hc]
    exact Nat.mul_le_mul_left _ (hle c hc)

/-- **The generated tables satisfy the gap relation** (whole finite table, by evaluation): in every fixed alphabet, for every
symbol, the set with gaps as missing data is related by `GapRel` (proper states = what `?` denotes then) to the set with the gap
as a state — so matrices built by `rowOfSymbols` from the same symbols in the two gap modes satisfy `GapRelM`. -/
theorem table_gap_ok : C16Alphabets.alphabets.all (fun a =>
    a.2.all (fun e => gapOkB (properStates a.1) e.2.1 e.2.2) && properStates a.1 != 0) = true := by decide

theorem symbolSet_gapRel (alph : String) (c : Char) (F : SS) (h : symbolSet alph false c = some F) :
    ∃ M, symbolSet alph true c = some M ∧ GapRel (properStates alph) F M := by
  unfold symbolSet at h ⊢
  cases ha : C16Alphabets.alphabets.find? (fun a => a.1 == alph) with
  | none => simp [ha] at h
  | some a =>
    obtain ⟨nm, tab⟩ := a
    simp only [ha] at h ⊢
    cases he : tab.find? (fun e => e.1 == c.toNat) with
    | none => simp [he] at h
    | some e =>
      obtain ⟨sym, full, miss⟩ := e
      simp only [he, Bool.false_eq_true, if_false, Option.some.injEq] at h
      subst h
      refine ⟨miss, by simp, ?_⟩
      have hmem := List.mem_of_find?_eq_some ha
      have hemem := List.mem_of_find?_eq_some he
      have hname : nm = alph := by
        have := List.find?_some ha
        simpa using this
      have hall := table_gap_ok
      rw [List.all_eq_true] at hall
      have h1 := hall _ hmem
      simp only [Bool.and_eq_true, List.all_eq_true] at h1
      have h2 := h1.1 _ hemem
      rw [← hname]
      exact gapRel_of_gapOkB h2

/-- **Every matrix the driver builds lies in the theorems' domain**: `matrixOf` from well-formed column alphabets yields rows of one
length (the number of columns) without empty state sets, in both gap modes. -/
theorem matrixOf_rectM (cols : List ColAlph) (g : Bool) (hwf : ∀ col, col ∈ cols → col.wf = true) :
    ∀ (rows : List (Nat × List Char)) (m : Matrix), matrixOf cols g rows = some m → RectM m cols.length
  | [], m, h => by
    simp only [matrixOf, Option.some.injEq] at h
    subst h
    intro k row hk
    simp [getAttr] at hk
  | (b, cs) :: rest, m, h => by
    simp only [matrixOf] at h
    cases h1 : rowOfCols cols g cs with
    | none => simp [h1] at h
    | some r =>
      cases h2 : matrixOf cols g rest with
      | none => simp [h1, h2] at h
      | some m' =>
        simp only [h1, h2, Option.some.injEq] at h
        subst h
        intro k row hk
        simp only [getAttr] at hk
        by_cases hb : (b == k) = true
        · simp only [hb, if_true, Option.some.injEq] at hk
          subst hk
          exact rowOfCols_nonzero cols g cs r hwf h1
        · simp only [hb] at hk
          exact matrixOf_rectM cols g hwf rest m' h2 k row hk

/-- **Longer weight lists** (clause a, "with the given weights"): entries of the weight list past the last character are never
looked at — appending anything to a full-length weight list changes neither the score nor the per-character list. -/
theorem weights_longer {m : Matrix} {n : Nat} {t : T} {bv : BV} (hv : ViewU m t bv) (hm : RectM m n)
    (hid : (ids t).Nodup) (w e : List Nat) (hw : w.length = n) (attrs : Attrs) :
    ∃ st st1, parsimony m (some (w ++ e)) attrs t = .ok st ∧ parsimony m (some w) attrs t = .ok st1 ∧
      st.score = st1.score ∧ st.bychar = st1.bychar := by
  obtain ⟨st, hp, hl, hb, hs⟩ := score_spec hv hm hid (some (w ++ e)) (by simp [WOk]; omega) attrs
  obtain ⟨st1, hp1, hl1, hb1, hs1⟩ := score_spec hv hm hid (some w) (Nat.le_of_eq hw.symm) attrs
  have e1 : ∀ c, c < n → wt (some (w ++ e)) c = wt (some w) c := by
    intro c hc
    simp only [wt, List.getD_eq_getElem?_getD]
    rw [List.getElem?_append_left (by omega)]
  refine ⟨st, st1, hp, hp1, ?_, ?_⟩
  · rw [hs, hs1]
    exact sumTo_congr n _ _ (fun c hc => by rw [e1 c hc])
  · apply ext_getD n _ _ hl hl1
    intro c hc
    rw [hb c hc, hb1 c hc, e1 c hc]

/-- **Every driver input lies in the theorems' domain, up to one evaluation.**  For every token list `parseTree` accepts the node
identities are distinct, and every matrix `matrixOf` builds from well-formed column alphabets (the only ones `parseCol` lets through)
satisfies `RectM` with one set per column.  What remains of the hypotheses of `polytomy_score_spec` / `polytomy_score_minimal` (and, on
bifurcating trees, of the `ViewU` theorems, see `toBV_of_viewU`) is the computation `toBV m t = some bv`: no unary node and a row
for every leaf. -/
theorem driver_input_in_domain (toks rest : List String) (t : T) (hp : parseTree toks = some (t, rest))
    (cols : List ColAlph) (g : Bool) (rows : List (Nat × List Char)) (m : Matrix) (hm : matrixOf cols g rows = some m)
    (hwf : ∀ col, col ∈ cols → col.wf = true) : (ids t).Nodup ∧ RectM m cols.length := by
  refine ⟨?_, matrixOf_rectM cols g hwf rows m hm⟩
  obtain ⟨f, par, tax, lens, labs, r, _, rfl, hr⟩ := C15.BuildAux.parseTree_build toks t rest hp
  exact C15.BuildAux.ids_nodup par tax lens labs f r (C15.BuildAux.acyc_root par r hr)

namespace Aux

theorem colSymbolSet_gapRel (col : ColAlph) (c : Char) (F : SS) (h : colSymbolSet col false c = some F) :
    ∃ M, colSymbolSet col true c = some M ∧ GapRel (qOfCol col) F M := by
  cases col with
  | table name => exact symbolSet_gapRel name c F h
  | custom gm fund amb => exact customSet_gapRel gm fund amb c F h

theorem rowOfCols_gapRel : ∀ (cols : List ColAlph) (syms : List Char) (rF : Row), rowOfCols cols false syms = some rF →
    ∃ rM, rowOfCols cols true syms = some rM ∧ RowRel (cols.map qOfCol) rF rM
  | [], [], rF, h => by
    simp only [rowOfCols, Option.some.injEq] at h
    subst h
    exact ⟨[], by simp [rowOfCols], by simp [RowRel]⟩
  | col :: cols, c :: cs, rF, h => by
    simp only [rowOfCols] at h
    cases h1 : colSymbolSet col false c with
    | none => simp [h1] at h
    | some F =>
      cases h2 : rowOfCols cols false cs with
      | none => simp [h1, h2] at h
      | some fs =>
        simp only [h1, h2, Option.some.injEq] at h
        subst h
        obtain ⟨M, hM, hg⟩ := colSymbolSet_gapRel col c F h1
        obtain ⟨ms, hms, hr⟩ := rowOfCols_gapRel cols cs fs h2
        exact ⟨M :: ms, by simp [rowOfCols, hM, hms], by simp only [List.map_cons, RowRel]; exact ⟨hg, hr⟩⟩
  | [], _ :: _, _, h => by simp [rowOfCols] at h
  | _ :: _, [], _, h => by simp [rowOfCols] at h

theorem rowRel_getD : ∀ (qs : List SS) (rF rM : Row), RowRel qs rF rM → ∀ c, GapRel (qs.getD c 0) (rF.getD c 0) (rM.getD c 0)
  | [], [], [], _, c => by
    intro s hs; simp at hs
  | q :: qs, f :: fs, m :: ms, h, c => by
    simp only [RowRel] at h
    cases c with
    | zero => simpa using h.1
    | succ c => simpa using rowRel_getD qs fs ms h.2 c
  | [], _ :: _, _, h, _ => by simp [RowRel] at h
  | [], [], _ :: _, h, _ => by simp [RowRel] at h
  | _ :: _, [], _, h, _ => by simp [RowRel] at h
  | _ :: _, _ :: _, [], h, _ => by simp [RowRel] at h

theorem matrixOf_gapRelM (cols : List ColAlph) (n : Nat) : ∀ (rows : List (Nat × List Char)) (mF : Matrix),
    matrixOf cols false rows = some mF → ∃ mM, matrixOf cols true rows = some mM ∧ GapRelM n (cols.map qOfCol) mF mM
  | [], mF, h => by
    simp only [matrixOf, Option.some.injEq] at h
    subst h
    exact ⟨[], by simp [matrixOf], fun k rowF hk => by simp [getAttr] at hk⟩
  | (b, cs) :: rest, mF, h => by
    simp only [matrixOf] at h
    cases h1 : rowOfCols cols false cs with
    | none => simp [h1] at h
    | some rF =>
      cases h2 : matrixOf cols false rest with
      | none => simp [h1, h2] at h
      | some mF' =>
        simp only [h1, h2, Option.some.injEq] at h
        subst h
        obtain ⟨rM, hrM, hrel⟩ := rowOfCols_gapRel cols cs rF h1
        obtain ⟨mM', hmM', hrest⟩ := matrixOf_gapRelM cols n rest mF' h2
        refine ⟨(b, rM) :: mM', by simp [matrixOf, hrM, hmM'], ?_⟩
        intro k rowF hk
        simp only [getAttr] at hk ⊢
        by_cases hb : (b == k) = true
        · simp only [hb, if_true, Option.some.injEq] at hk ⊢
          subst hk
          exact ⟨rM, rfl, fun c _ => rowRel_getD _ _ _ hrel c⟩
        · simp only [hb] at hk ⊢
          exact hrest k rowF hk

theorem view_ne_nil {m : Matrix} {t : T} {bv : BV} (hv : View m t bv) : m ≠ [] := by
  induction hv with
  | @leaf i x l s row h =>
    intro h0; subst h0
    cases x <;> simp [lookupRow, getAttr] at h
  | node _ _ iha _ => exact iha

theorem viewU_ne_nil {m : Matrix} {t : T} {bv : BV} (hv : ViewU m t bv) : m ≠ [] := by
  cases hv with
  | rooted h => exact view_ne_nil h
  | unrooted ha _ _ => exact view_ne_nil ha

theorem properStates_ne_zero (name : String) (c : Char) (v : SS) (g : Bool) (h : symbolSet name g c = some v) :
    properStates name ≠ 0 := by
  unfold symbolSet at h
  cases ha : C16Alphabets.alphabets.find? (fun a => a.1 == name) with
  | none => simp [ha] at h
  | some a =>
    obtain ⟨nm, tab⟩ := a
    have hmem := List.mem_of_find?_eq_some ha
    have hname : nm = name := by
      have := List.find?_some ha
      simpa using this
    have hall := table_gap_ok
    rw [List.all_eq_true] at hall
    have h1 := hall _ hmem
    simp only [Bool.and_eq_true, bne_iff_ne, ne_eq] at h1
    rw [← hname]
    exact h1.2

theorem rowOfCols_q_ne_zero : ∀ (cols : List ColAlph) (g : Bool) (cs : List Char) (row : Row),
    (∀ col, col ∈ cols → col.wf = true) → rowOfCols cols g cs = some row → ∀ col, col ∈ cols → qOfCol col ≠ 0
  | [], _, _, _, _, _ => fun col hc => by cases hc
  | col :: cols, g, c :: cs, row, hwf, h => by
    simp only [rowOfCols] at h
    cases h1 : colSymbolSet col g c with
    | none => simp [h1] at h
    | some v =>
      cases h2 : rowOfCols cols g cs with
      | none => simp [h1, h2] at h
      | some vs =>
        intro col' hc'
        rcases List.mem_cons.mp hc' with rfl | hin
        · cases col' with
          | table name => exact properStates_ne_zero name c v g h1
          | custom gm fund amb =>
            have hw := hwf _ (List.mem_cons_self)
            simp only [ColAlph.wf, Bool.and_eq_true, Bool.not_eq_true'] at hw
            have hk : fund.length ≠ 0 := by
              intro h0
              have : fund = [] := List.eq_nil_of_length_eq_zero h0
              simp [this] at hw
            exact all_ne_zero hk
        · exact rowOfCols_q_ne_zero cols g cs vs (fun c' hc => hwf c' (List.mem_cons_of_mem _ hc)) h2 col' hin
  | _ :: _, _, [], _, _, h => by simp [rowOfCols] at h

theorem getD_map_q (cols : List ColAlph) (c : Nat) (hc : c < cols.length) :
    ∃ col, col ∈ cols ∧ (cols.map qOfCol).getD c 0 = qOfCol col := by
  refine ⟨cols[c], List.getElem_mem hc, ?_⟩
  simp [List.getD_eq_getElem?_getD, hc]

end Aux

/-- **`gaps_as_missing=True` never scores higher than `gaps_as_missing=False`** (clause a, on the matrices the driver
builds with `matrixOf` from rows of symbols and column alphabets — fixed alphabets through the generated tables, custom ones through
`customSet`).  The matrix-shape hypotheses `hmF`, `hmM`, `hq` are discharged in `gaps_flag_monotone_driver`; the one on the columns' proper-state sets holds for every alphabet of the table (`table_gap_ok`) and every
custom alphabet with a fundamental state (`all_ne_zero`). -/
theorem gaps_flag_monotone {n : Nat} {cols : List ColAlph} {rows : List (Nat × List Char)} {mF mM : Matrix} {t : T}
    {bvF : BV} (hF : matrixOf cols false rows = some mF) (hM : matrixOf cols true rows = some mM)
    (hv : ViewU mF t bvF) (hmF : RectM mF n) (hmM : RectM mM n) (hq : ∀ c, c < n → (cols.map qOfCol).getD c 0 ≠ 0)
    (hid : (ids t).Nodup) (w : Option (List Nat)) (hw : WOk w n) (attrs attrs' : Attrs) :
    ∃ stF stM, parsimony mF w attrs t = .ok stF ∧ parsimony mM w attrs' t = .ok stM ∧
      stM.score ≤ stF.score ∧ ∀ c, c < n → stM.bychar.getD c 0 ≤ stF.bychar.getD c 0 := by
  obtain ⟨mM', hM', hrel⟩ := matrixOf_gapRelM cols n rows mF hF
  rw [hM] at hM'
  cases hM'
  exact gaps_as_missing_monotone hv hmF hmM hrel hq hid w hw attrs attrs'

/-- **`gaps_as_missing=True` never scores higher, on the driver's own inputs** — `gaps_flag_monotone` with its matrix-shape
hypotheses discharged: for the two matrices `matrixOf` builds from the same rows of symbols and well-formed column alphabets, on a
`ViewU` tree with distinct node identities (`driver_input_in_domain`), with at least one weight per column. -/
theorem gaps_flag_monotone_driver {cols : List ColAlph} {rows : List (Nat × List Char)} {mF mM : Matrix} {t : T}
    {bvF : BV} (hF : matrixOf cols false rows = some mF) (hM : matrixOf cols true rows = some mM)
    (hwf : ∀ col, col ∈ cols → col.wf = true) (hv : ViewU mF t bvF) (hid : (ids t).Nodup)
    (w : Option (List Nat)) (hw : WOk w cols.length) (attrs attrs' : Attrs) :
    ∃ stF stM, parsimony mF w attrs t = .ok stF ∧ parsimony mM w attrs' t = .ok stM ∧
      stM.score ≤ stF.score ∧ ∀ c, c < cols.length → stM.bychar.getD c 0 ≤ stF.bychar.getD c 0 := by
  have hmF := matrixOf_rectM cols false hwf rows mF hF
  have hmM := matrixOf_rectM cols true hwf rows mM hM
  have hq : ∀ c, c < cols.length → (cols.map qOfCol).getD c 0 ≠ 0 := by
    intro c hc
    obtain ⟨col, hmem, he⟩ := getD_map_q cols c hc
    rw [he]
    have hne := viewU_ne_nil hv
    cases rows with
    | nil =>
      simp only [matrixOf, Option.some.injEq] at hF
      exact absurd (by rw [← hF]) hne
    | cons r rest =>
      obtain ⟨b, cs⟩ := r
      simp only [matrixOf] at hF
      cases h1 : rowOfCols cols false cs with
      | none => simp [h1] at hF
      | some row => exact rowOfCols_q_ne_zero cols false cs row hwf h1 col hmem
  exact gaps_flag_monotone hF hM hv hmF hmM hq hid w hw attrs attrs'

/-- **Re-rooted copies** (clause b, as the harness scores them): any copy `t'` of a re-rooted tree `reroot path t` — renumbered nodes,
children in any order, other lengths and labels (`SwapT`) — gets the score and per-character list of `t`.  This is
`root_position_independent` composed with `child_order_independent`. -/
theorem reroot_copy_independent {m : Matrix} {n : Nat} {t t' : T} {bv : BV} (hv : View m t bv) (hm : RectM m n)
    (hid : (ids t).Nodup) (path : List Step) (hsw : SwapT (reroot path t) t') (hid' : (ids t').Nodup)
    (w : Option (List Nat)) (hw : WOk w n) (attrs attrs' : Attrs) :
    ∃ st st', parsimony m w attrs t = .ok st ∧ parsimony m w attrs' t' = .ok st' ∧
      st.score = st'.score ∧ st.bychar = st'.bychar := by
  obtain ⟨bv1, hv1, _, heq⟩ := view_reroot hm path hv hid
  obtain ⟨bv2, hv2, hs⟩ := view_swap hsw hv1
  refine same_result (.rooted hv) (.rooted hv2) hm hid hid' w hw (fun c hc => ?_) attrs attrs'
  have e : fitch (col c bv1) = fitch (col c bv2) := fitch_sw (Sw.map _ hs)
  rw [heq c hc, e]

/-- **Child order at a basal trifurcation** (clause b for the unrooted form): exchanging the first two or the last two of the three
children (these generate every order), with the subtrees themselves replaced by child-swapped copies, changes nothing. -/
theorem unrooted_child_order_independent {m : Matrix} {n : Nat} {i i' : Nat} {x x' : Option Nat} {l l' : Option Frac}
    {s s' : Option String} {a b c a' b' c' : T} {ba bb bc : BV}
    (ha : View m a ba) (hb : View m b bb) (hc : View m c bc) (sa : SwapT a a') (sb : SwapT b b') (sc : SwapT c c')
    (hm : RectM m n) (w : Option (List Nat)) (hw : WOk w n) (attrs attrs' : Attrs) :
    ((ids (.node i x l s [a, b, c])).Nodup → (ids (.node i' x' l' s' [b', a', c'])).Nodup →
      ∃ st st', parsimony m w attrs (.node i x l s [a, b, c]) = .ok st ∧
        parsimony m w attrs' (.node i' x' l' s' [b', a', c']) = .ok st' ∧ st.score = st'.score ∧ st.bychar = st'.bychar) ∧
    ((ids (.node i x l s [a, b, c])).Nodup → (ids (.node i' x' l' s' [a', c', b'])).Nodup →
      ∃ st st', parsimony m w attrs (.node i x l s [a, b, c]) = .ok st ∧
        parsimony m w attrs' (.node i' x' l' s' [a', c', b']) = .ok st' ∧ st.score = st'.score ∧ st.bychar = st'.bychar) := by
  obtain ⟨ba', va, wa⟩ := view_swap sa ha
  obtain ⟨bb', vb, wb⟩ := view_swap sb hb
  obtain ⟨bc', vc, wc⟩ := view_swap sc hc
  constructor
  · intro hid hid'
    refine same_result (.unrooted ha hb hc) (.unrooted vb va vc) hm hid hid' w hw (fun k _ => ?_) attrs attrs'
    have e : fitch (col k (.node (.node ba bb) bc)) = fitch (col k (.node (.node bb' ba') bc')) :=
      fitch_sw (Sw.map _ (.same (.swap wa wb) wc))
    rw [e]
  · intro hid hid'
    refine same_result (.unrooted ha hb hc) (.unrooted va vc vb) hm hid hid' w hw (fun k hk => ?_) attrs attrs'
    have hne := (viewU_rect (t := .node i x l s [a, b, c]) (.unrooted ha hb hc) hm).2 k hk
    have e1 : (fitch (col k (.node (.node ba bb) bc))).2 = (fitch (col k (.node (.node ba bc) bb))).2 :=
      fitch_rot (Rot.map _ (.lr ba bb bc)) hne
    have e2 : fitch (col k (.node (.node ba bc) bb)) = fitch (col k (.node (.node ba' bc') bb')) :=
      fitch_sw (Sw.map _ (.same (.same wa wc) wb))
    rw [e1, e2]

/-- **Ambiguity codes are state sets** (clause a, "ambiguity codes treated as state sets"; the whole regenerated table, by
evaluation).  In every fixed alphabet the fundamental symbols denote the distinct singleton states in index order (the gap state
last), and every multi-state symbol — every ambiguity code, the missing-data symbol, their case variants and synonyms, with the member
lists as the source of `charstatemodel.py` writes them — denotes, in each gap mode, exactly the union of the sets its members denote in
that mode. -/
theorem table_members_ok : C16Alphabets.members.all (fun a =>
    match C16Alphabets.alphabets.find? (fun t => t.1 == a.1) with
    | none => false
    | some (_, tab) =>
      fundSingletons tab 0 a.2.1 &&
      a.2.2.all (fun e =>
        match tab.find? (fun x => x.1 == e.1), unionOfMembers tab false e.2, unionOfMembers tab true e.2 with
        | some (_, full, miss), some uf, some um => full == uf && miss == um
        | _, _, _ => false)) = true := by decide

/-- every symbol with more than one state has a member list (so `table_members_ok` speaks about all of them), and there is a member
table for every alphabet -/
theorem table_members_complete : C16Alphabets.alphabets.all (fun t =>
    match C16Alphabets.members.find? (fun a => a.1 == t.1) with
    | none => false
    | some (_, fund, mem) =>
      t.2.all (fun e => fund.contains e.1 || mem.any (fun x => x.1 == e.1) ||
        -- case variants of fundamental symbols are singletons themselves
        fund.any (fun c => match t.2.find? (fun x => x.1 == c) with
          | some (_, full, _) => full == e.2.1
          | none => false))) = true := by decide

/-- **An in-place cell edit changes exactly that cell** (model of `chars[taxon][idx] = state` / `set_at`): when the matrix object
accepts the edit, the column alphabets are unchanged, the edited taxon's sequence is the old one with position `idx` replaced (same
length), and every other taxon's sequence is untouched. -/
theorem editCell_content (mo mo' : MatObj) (bit idx : Nat) (sym : Char) (h : mo.editCell bit idx sym = some mo') :
    mo'.cols = mo.cols ∧
    (∃ cs, rowOfBit bit mo.rows = some cs ∧ idx < cs.length ∧ rowOfBit bit mo'.rows = some (cs.set idx sym) ∧
      (cs.set idx sym).length = cs.length) ∧
    ∀ b, b ≠ bit → rowOfBit b mo'.rows = rowOfBit b mo.rows := by
  simp only [MatObj.editCell] at h
  cases hr : rowOfBit bit mo.rows with
  | none => simp [hr] at h
  | some cs =>
    cases hc : mo.cols[idx]? with
    | none => simp [hr, hc] at h
    | some col =>
      simp only [hr, hc] at h
      split at h
      · rename_i hcond
        simp only [Option.some.injEq] at h
        subst h
        simp only [Bool.and_eq_true, decide_eq_true_eq] at hcond
        refine ⟨rfl, ⟨cs, rfl, hcond.1, ?_, by simp⟩, ?_⟩
        · rw [rowOfBit_setCell]; simp [hr]
        · intro b hb
          rw [rowOfBit_setCell]; simp [hb]
      · cases h

/-- **A sequence replacement changes exactly that sequence, keeping its length** (model of `chars[taxon] = seq`). -/
theorem editSeq_content (mo mo' : MatObj) (bit : Nat) (syms : List Char) (h : mo.editSeq bit syms = some mo') :
    mo'.cols = mo.cols ∧
    (∃ cs, rowOfBit bit mo.rows = some cs ∧ cs.length = syms.length ∧ rowOfBit bit mo'.rows = some syms) ∧
    ∀ b, b ≠ bit → rowOfBit b mo'.rows = rowOfBit b mo.rows := by
  simp only [MatObj.editSeq] at h
  cases hr : rowOfBit bit mo.rows with
  | none => simp [hr] at h
  | some cs =>
    simp only [hr] at h
    split at h
    · rename_i hcond
      simp only [Option.some.injEq] at h
      subst h
      simp only [Bool.and_eq_true, beq_iff_eq] at hcond
      refine ⟨rfl, ⟨cs, rfl, hcond.1, ?_⟩, ?_⟩
      · rw [rowOfBit_setRow]; simp [hr]
      · intro b hb
        rw [rowOfBit_setRow]; simp [hb]
    · cases h

/-- **History independence with matrix objects edited in place** (clause c, "a function of the tree and matrix passed in only").  In
any history of scoring calls, clonings, creations of matrix objects and in-place edits of them, every call lets its caller observe
exactly what the same call observes on a fresh copy of the tree with a freshly built matrix of the content the matrix object has at
that moment (`refMHist`): nothing depends on attributes stored on the nodes, nor on what a matrix object contained or how often it was
scored before. -/
theorem mat_history_eq_fresh (t : T) (hid : (ids t).Nodup) : ∀ (ops : List MOp) (objs : List Attrs) (mats : List MatObj),
    (runMHist t objs mats ops).map MRes.toObs = refMHist t objs.length mats ops
  | [], _, _ => rfl
  | .clone j :: rest, objs, mats => by
    by_cases hj : j < objs.length
    · simp only [runMHist, List.getElem?_eq_getElem hj, List.map_cons, refMHist, hj, if_true, MRes.toObs]
      rw [mat_history_eq_fresh t hid rest (objs ++ [objs[j]]) mats]
      simp
    · have e1 : objs[j]? = none := List.getElem?_eq_none (by omega)
      simp only [runMHist, e1, List.map_cons, refMHist, hj, if_false, MRes.toObs]
      rw [mat_history_eq_fresh t hid rest objs mats]
  | .defMat k mo :: rest, objs, mats => by
    simp only [runMHist, refMHist, List.map_cons]
    rw [mat_history_eq_fresh t hid rest objs _]
    split <;> rfl
  | .editCell k b i c :: rest, objs, mats => by
    simp only [runMHist, refMHist, List.map_cons]
    rw [mat_history_eq_fresh t hid rest objs _]
    split <;> rfl
  | .editSeq k b cs :: rest, objs, mats => by
    simp only [runMHist, refMHist, List.map_cons]
    rw [mat_history_eq_fresh t hid rest objs _]
    split <;> rfl
  | .score j m w :: rest, objs, mats => by
    simp only [runMHist, refMHist, callMatrix]
    by_cases hj : j < objs.length
    · have hind := result_independent_of_attrs m w hid objs[j] []
      simp only [List.getElem?_eq_getElem hj, hj, if_true]
      cases hp : parsimony m w objs[j] t with
      | error e =>
        rw [hp] at hind
        rw [← hind]
        simp only [List.map_cons, MRes.toObs, obs]
        rw [mat_history_eq_fresh t hid rest objs mats]
      | ok st =>
        rw [hp] at hind
        rw [← hind]
        simp only [List.map_cons, MRes.toObs, obs]
        rw [mat_history_eq_fresh t hid rest (objs.set j st.attrs) mats]
        simp
    · have e1 : objs[j]? = none := List.getElem?_eq_none (by omega)
      simp only [e1, List.map_cons, hj, if_false, MRes.toObs]
      rw [mat_history_eq_fresh t hid rest objs mats]
  | .scoreMat j k g w :: rest, objs, mats => by
    simp only [runMHist, refMHist]
    cases hc : callMatrix mats (.scoreMat j k g w) with
    | none =>
      simp only [List.map_cons, MRes.toObs]
      rw [mat_history_eq_fresh t hid rest objs mats]
    | some v =>
      obtain ⟨j', m, w'⟩ := v
      simp only
      by_cases hj : j' < objs.length
      · have hind := result_independent_of_attrs m w' hid objs[j'] []
        simp only [List.getElem?_eq_getElem hj, hj, if_true]
        cases hp : parsimony m w' objs[j'] t with
        | error e =>
          rw [hp] at hind
          rw [← hind]
          simp only [List.map_cons, MRes.toObs, obs]
          rw [mat_history_eq_fresh t hid rest objs mats]
        | ok st =>
          rw [hp] at hind
          rw [← hind]
          simp only [List.map_cons, MRes.toObs, obs]
          rw [mat_history_eq_fresh t hid rest (objs.set j' st.attrs) mats]
          simp
      · have e1 : objs[j']? = none := List.getElem?_eq_none (by omega)
        simp only [e1, List.map_cons, hj, if_false, MRes.toObs]
        rw [mat_history_eq_fresh t hid rest objs mats]

/-! ### the hypotheses are satisfiable; the functions compute -/

/-- `((t0,t1),t2)` with two characters -/
def exTree : T :=
  .node 0 none none none [.node 1 none none none [.node 2 (some 0) none none [], .node 3 (some 1) none none []],
                          .node 4 (some 2) none none []]
def exMatrix : Matrix := [(0, [1, 3]), (1, [2, 3]), (2, [1, 4])]
def exRows : BV := .node (.node (.leaf [1, 3]) (.leaf [2, 3])) (.leaf [1, 4])

example : View exMatrix exTree exRows := .node (.node (.leaf rfl) (.leaf rfl)) (.leaf rfl)
example : (ids exTree).Nodup := by decide
example : WOk (some [2, 5]) 2 := Nat.le_refl 2
example : WOk (some [2, 5, 9]) 2 := by simp [WOk]
/-- a longer weight list: the extra entry is never looked at -/
example : (match parsimony exMatrix (some [2, 5, 9]) [] exTree with
    | .ok st => some (st.score, st.bychar) | .error _ => none) = some (7, [2, 5]) := by decide
example : RectM exMatrix 2 := by
  intro k row h
  simp only [exMatrix, getAttr] at h
  split at h
  · cases h; decide
  · split at h
    · cases h; decide
    · split at h
      · cases h; decide
      · cases h
example : SwapT exTree (.node 9 none none none [.node 8 (some 2) none none [],
    .node 7 none none none [.node 6 (some 1) none none [], .node 5 (some 0) none none []]]) :=
  .swap (.swap .leaf .leaf) .leaf
example : (match parsimony exMatrix (some [2, 5]) [(2, [7, 7, 7])] exTree with
    | .ok st => some (st.score, st.bychar) | .error _ => none) = some (7, [2, 5]) := by decide
example : (match parsimony exMatrix none [] (reroot [.LL] exTree) with
    | .ok st => some (st.score, st.bychar) | .error _ => none) = some (2, [1, 1]) := by decide

/-- the unrooted form `(t0, t1, t2)` -/
def exTri : T :=
  .node 0 none none none [.node 1 (some 0) none none [], .node 2 (some 1) none none [], .node 3 (some 2) none none []]

example : ViewU exMatrix exTri exRows := .unrooted (.leaf rfl) (.leaf rfl) (.leaf rfl)
example : ViewU exMatrix exTree exRows := .rooted (.node (.node (.leaf rfl) (.leaf rfl)) (.leaf rfl))
example : (ids exTri).Nodup := by decide
example : Below (.node 2 (some 0) none none []) exTree :=
  .deeper (w := .node 1 none none none [.node 2 (some 0) none none [], .node 3 (some 1) none none []])
    (.child (by simp [exTree, T.cs])) (by simp [T.cs])
example : (match parsimony exMatrix none [(1, [9, 9])] exTri with
    | .ok st => some (st.score, st.bychar) | .error _ => none) = some (2, [1, 1]) := by decide
/-- a weight list that is too short raises IndexError exactly when a character past its end changes -/
example : (match parsimony exMatrix (some [2]) [] exTree with
    | .ok _ => "ok" | .error e => e.name) = "IndexError" := by decide
example : (match parsimony [(0, [1, 3]), (1, [2, 3]), (2, [1, 3])] (some [2]) [] exTree with
    | .ok st => some (st.score, st.bychar) | .error _ => none) = some (2, [2, 0]) := by decide
/-- histories with a failing call (no row for taxon 2) between good ones are inside `history_eq_fresh` -/
example : (refHist exTree 1 [.score 0 exMatrix none, .score 0 [(0, [1]), (1, [1])] none, .clone 0, .score 1 exMatrix none]).length = 4 := by
  decide

example : (ColAlph.custom true ['0', '1', '2'] [('X', ['0', '2'])]).wf = true := by decide
example : rowOfCols [.custom false ['0', '1'] [('?', ['0', '1'])], .custom true ['0', '1', '2', '3'] [], .table "dna"] false
    ['?', '?', '?'] = some [3, 31, 31] := by decide

/-- a star of four leaves under a root with another leaf: polytomies at two levels -/
def exPoly : T :=
  .node 0 none none none [.node 1 none none none [.node 2 (some 0) none none [], .node 3 (some 1) none none [],
                                                  .node 4 (some 2) none none [], .node 5 (some 0) none none []],
                          .node 6 (some 1) none none [], .node 7 (some 2) none none []]
example : toBV exMatrix exPoly = some (.node (.node (.node (.node (.node (.leaf [1, 3]) (.leaf [2, 3])) (.leaf [1, 4])) (.leaf [1, 3]))
    (.leaf [2, 3])) (.leaf [1, 4])) := by rfl
example : (ids exPoly).Nodup := by decide
example : (match parsimony exMatrix none [] exPoly with
    | .ok st => some (st.score, st.bychar) | .error _ => none) = some (4, [2, 2]) := by decide

/-- gaps as a state vs. gaps as missing data, through `matrixOf` -/
def exCols : List ColAlph := [.table "dna", .custom true ['0', '1', '2'] []]
def exSyms : List (Nat × List Char) := [(0, ['A', '-']), (1, ['-', '1']), (2, ['C', '-'])]
example : matrixOf exCols false exSyms = some [(0, [1, 8]), (1, [16, 2]), (2, [2, 8])] := by decide
example : matrixOf exCols true exSyms = some [(0, [1, 7]), (1, [15, 2]), (2, [2, 7])] := by decide
example : ∀ c, c < 2 → (exCols.map qOfCol).getD c 0 ≠ 0 := by decide
example : GapRel 15 16 15 := gapRel_of_gapOkB (by decide)

/-- `gaps_flag_monotone_driver` and `driver_input_in_domain` fully instantiated on a state the driver produces: the three-leaf tree,
a `dna` column and a custom column with gap and missing-data states -/
example : ∀ col, col ∈ exCols → col.wf = true := by decide
example : ViewU [(0, [1, 8]), (1, [16, 2]), (2, [2, 8])] exTree (.node (.node (.leaf [1, 8]) (.leaf [16, 2])) (.leaf [2, 8])) :=
  .rooted (.node (.node (.leaf rfl) (.leaf rfl)) (.leaf rfl))
example : RectM [(0, [1, 8]), (1, [16, 2]), (2, [2, 8])] exCols.length :=
  matrixOf_rectM exCols false (by decide) exSyms _ (by decide)
example : (match parsimony [(0, [1, 8]), (1, [16, 2]), (2, [2, 8])] none [] exTree,
                 parsimony [(0, [1, 7]), (1, [15, 2]), (2, [2, 7])] none [] exTree with
    | .ok stF, .ok stM => some (stF.score, stM.score) | _, _ => none) = some (3, 1) := by decide

/-- `R` = `A` ∪ `G` in the DNA table (gap as a state and gaps as missing), as `table_members_ok` states for every code -/
example : (match C16Alphabets.alphabets.find? (fun t => t.1 == "dna") with
    | some (_, tab) => (unionOfMembers tab false [65, 71], unionOfMembers tab true [65, 71], tab.find? (fun e => e.1 == 82))
    | none => (none, none, none)) = (some 5, some 5, some (82, 5, 5)) := by decide

/-- a matrix object scored, edited in place (one cell, then a whole sequence), and scored again — the corpus witness
    `matrix-edited-in-place.json` through the model -/
def exTree4 : T :=
  .node 0 none none none [.node 1 none none none [.node 2 (some 0) none none [], .node 3 (some 1) none none []],
                          .node 4 none none none [.node 5 (some 2) none none [], .node 6 (some 3) none none []]]
def exMO : MatObj :=
  { cols := List.replicate 4 (.table "dna"),
    rows := [(0, ['A', 'A', 'A', 'A']), (1, ['A', 'A', 'A', 'A']), (2, ['A', 'A', 'A', 'A']), (3, ['A', 'A', 'A', 'A'])] }
example : (exMO.editCell 0 1 'C').map (fun mo => mo.rows) =
    some [(0, ['A', 'C', 'A', 'A']), (1, ['A', 'A', 'A', 'A']), (2, ['A', 'A', 'A', 'A']), (3, ['A', 'A', 'A', 'A'])] := by decide
example : (exMO.editCell 0 7 'C').isNone = true ∧ (exMO.editCell 0 1 'Z').isNone = true ∧ (exMO.editCell 9 1 'C').isNone = true ∧
    (exMO.editSeq 2 ['C', 'G', '-']).isNone = true := by decide
example : (ids exTree4).Nodup := by decide
example : (runMHist exTree4 [[]] [] [.defMat 0 exMO, .scoreMat 0 0 true none, .editCell 0 0 1 'C', .scoreMat 0 0 true none,
      .editSeq 0 2 ['C', 'G', '-', 'T'], .clone 0, .scoreMat 1 0 false (some [1, 2, 3, 4]), .editCell 0 9 1 'C']).map
    (fun r => match r with | .ok sc bc => some (sc, bc) | _ => none) =
    [none, some (0, [0, 0, 0, 0]), none, some (1, [0, 1, 0, 0]), none, none, some (12, [1, 4, 3, 4]), none] := by decide

/-! ### tie A for the set kernels, the up pass, extended histories (caller-supplied objects) -/

namespace Aux

theorem or_self_left' (a b : Nat) : a ||| (a ||| b) = a ||| b := by
  rw [← Nat.or_assoc, Nat.or_self]
theorem and_self_left' (a b : Nat) : a &&& (a &&& b) = a &&& b := by
  rw [← Nat.and_assoc, Nat.and_self]
theorem and_left_comm' (a b c : Nat) : a &&& (b &&& c) = b &&& (a &&& c) := by
  rw [← Nat.and_assoc, Nat.and_comm a b, Nat.and_assoc]
theorem or_left_comm' (a b c : Nat) : a ||| (b ||| c) = b ||| (a ||| c) := by
  rw [← Nat.or_assoc, Nat.or_comm a b, Nat.or_assoc]

/-- normal form of mask expressions: associativity / commutativity / idempotence of `&&&` and `|||` (absorbs operands written in another
    order in the source) -/
macro "mask_nf" : tactic => `(tactic| try simp only [Nat.and_comm, Nat.and_assoc, and_left_comm', Nat.or_comm, Nat.or_assoc,
    or_left_comm', Nat.or_self, Nat.and_self, or_self_left', and_self_left'])

theorem runNodesP_spec (m : Matrix) (ws : List Nat) : ∀ (l : List T) (st : St),
    runNodes m ws st l = match runNodesP m ws st l with
      | (st', none) => .ok st'
      | (_, some e) => .error e
  | [], st => rfl
  | nd :: rest, st => by
    simp only [runNodes, runNodesP]
    cases stepNode m ws st nd with
    | error e => rfl
    | ok st' => exact runNodesP_spec m ws rest st'

theorem parsimonyP_spec (m : Matrix) (w : Option (List Nat)) (attrs : Attrs) (t : T) :
    parsimony m w attrs t = match parsimonyP m w attrs t with
      | (st', none) => .ok st'
      | (_, some e) => .error e := runNodesP_spec m _ _ _

end Aux

/-- what a caller observes of one step of an extended history, for scoring calls -/
def XRes.callObs : XRes → Option (Except Err (Nat × List Nat))
  | .ok s bc => some (.ok (s, bc))
  | .err e => some (.error e)
  | _ => none

set_option linter.unusedSimpArgs false in
/-- **Tie A, down pass**: the model's per-character kernel `comb` (intersection if non-empty, else union and one change) is the body of
the inner loop of the CURRENT `fitch_down_pass`, regenerated as `C16Kernels.downSet` / `downChanges`. -/
theorem comb_eq_source (a b : SS) : comb a b = (C16Kernels.downSet a b, C16Kernels.downChanges a b) := by
  unfold comb C16Kernels.downSet C16Kernels.downChanges
  mask_nf
  by_cases h : a &&& b = 0 <;> simp [h]

set_option linter.unusedSimpArgs false in
/-- **Tie A**: `score_by_character_list[n]` is increased exactly when the score is. -/
theorem bychar_eq_source (a b : SS) : C16Kernels.downByChar a b = (comb a b).2 := by
  unfold comb C16Kernels.downByChar
  mask_nf
  by_cases h : a &&& b = 0 <;> simp [h]

/-- **Tie A**: `weights=None` charges every change the constant of the source (`wt = 1`). -/
theorem unit_weight_eq_source (m : Matrix) : weightsOf m none = List.replicate (nchar m) C16Kernels.unitWeight := rfl

set_option linter.unusedSimpArgs false in
/-- **Tie A, up pass**: the model's `finalSet` is the body of the inner loop of the CURRENT `fitch_up_pass` (`C16Kernels.upFinal`). -/
theorem finalSet_eq_source (p c l r : SS) : finalSet p c l r = C16Kernels.upFinal p c l r := by
  unfold finalSet C16Kernels.upFinal
  mask_nf
  by_cases h1 : c &&& p = p <;> by_cases h2 : l &&& r = 0 <;> simp [h1, h2]

/-- **The down-pass set of the root is exactly the set of root states of most-parsimonious reconstructions.** -/
theorem root_set_mpr (t : B) (h : NonEmptyLeaves t) (s : Nat) :
    (fitch t).1.testBit s = true ↔ ∃ a, Valid t a ∧ changes a = (fitch t).2 ∧ a.root = s := by
  constructor
  · intro hs
    obtain ⟨a, hv, hr, hc⟩ := fitch_upper t h s hs
    exact ⟨a, hv, hc, hr⟩
  · rintro ⟨a, hv, hc, hr⟩
    have := fitch_lower t a hv
    rw [hr] at this
    apply pen_eq_zero.mp
    omega

/-- **The up pass is exact** (`fitch_up_pass`, one character).  After the down pass and the up pass the set of every INTERNAL node
(`finalAt t p`, computed with the kernel `finalSet` the driver runs) contains exactly the states that node takes in some
most-parsimonious reconstruction: assignments of states to all nodes, agreeing with the leaf state sets, with the minimum number
`(fitch t).2` of changes.  (Leaves are skipped by the up pass and keep their own state set.)
The statement is about the per-character recursion `finAt`; `up_pass_machine` / `up_pass_exact` below lift it to the machines the
driver runs (`parsimonyP` then `upPass` on the attribute store, all characters). -/
theorem up_pass_mpr (t : B) (h : NonEmptyLeaves t) (p : Path) (l r : B) (hsub : Bt.sub t p = some (.node l r)) (G : SS)
    (hG : finalAt t p = some G) (s : Nat) :
    G.testBit s = true ↔ ∃ a, Valid t a ∧ changes a = (fitch t).2 ∧ a.at p = some s := by
  have hmin := fitch_minimal t h
  have hopt : IsOpt t (fun _ => 0) (fitch t).2 :=
    ⟨fun a ha => by simpa [Tot] using hmin.1 a ha, by obtain ⟨a, ha, hc⟩ := hmin.2; exact ⟨a, ha, by simpa [Tot] using hc⟩⟩
  have hF : ∀ x, (fitch t).1.testBit x = true ↔ Mpr t (fun _ => 0) (fitch t).2 [] x := by
    intro x
    rw [root_set_mpr t h x]
    constructor
    · rintro ⟨a, hv, hc, hr⟩; exact ⟨a, hv, by simpa [Tot] using hc, by cases a <;> simp [A.at, hr]⟩
    · rintro ⟨a, hv, hc, hr⟩; exact ⟨a, hv, by simpa [Tot] using hc, by cases a <;> simpa [A.at] using hr⟩
  have := mpr_gen t h _ _ _ hopt hF p l r hsub G hG s
  rw [this]
  constructor
  · rintro ⟨a, hv, hc, hr⟩; exact ⟨a, hv, by simpa [Tot] using hc, hr⟩
  · rintro ⟨a, hv, hc, hr⟩; exact ⟨a, hv, by simpa [Tot] using hc, hr⟩

/-- **Every scoring call of every extended history is a fresh call** (clause c; caller-supplied objects).  In ANY state of an extended
history — whatever attributes the object's nodes carry under whatever attribute names (left by earlier down passes, UP passes, failing
calls, copied by `clone`), whatever matrix and map objects exist — a scoring call with `state_sets_attr_name` = none / default / custom
lets its caller observe exactly what `parsimony` observes on a fresh copy of that object's tree with the matrix the source denotes now
(a literal matrix, the current content of a matrix object, or the content a `taxon_state_sets_map` object was built from). -/
theorem xstep_score_eq_fresh (s : XState) (j : Nat) (src : Src) (store : Option Nat) (w : Option (List Nat)) (o : Obj) (m : Matrix)
    (hobj : s.objs[j]? = some o) (hm : srcMatrix s src = some m) (hid : (ids o.tree).Nodup) :
    (stepX s (.score j src store w)).2.callObs = some (obs (parsimony m w [] o.tree)) := by
  cases store with
  | none =>
    simp only [stepX, hm, hobj]
    rw [parsimonyP_spec m w [] o.tree]
    rcases parsimonyP m w [] o.tree with ⟨st, _ | e⟩ <;> rfl
  | some name =>
    simp only [stepX, hm, hobj]
    rw [result_independent_of_attrs m w hid [] (getStore o.stores name), parsimonyP_spec m w (getStore o.stores name) o.tree]
    rcases parsimonyP m w (getStore o.stores name) o.tree with ⟨st, _ | e⟩ <;> rfl

/-- **The passes only read what the caller hands them**: no scoring call, up pass or dump changes a matrix object or a
`taxon_state_sets_map` object, and a call with `state_sets_attr_name=None` changes nothing at all. -/
theorem xstep_inputs_untouched (s : XState) (op : XOp) (h : matOpOf op = none) (hd : ∀ k src, op ≠ .defMap k src) :
    (stepX s op).1.mats = s.mats ∧ (stepX s op).1.maps = s.maps ∧
    (∀ j src w, op = .score j src none w → (stepX s op).1.objs = s.objs) := by
  cases op with
  | newTree t => simp [stepX]
  | clone j => simp only [stepX]; cases s.objs[j]? <;> simp
  | defMat k mo => simp [matOpOf] at h
  | editCell k b i c => simp [matOpOf] at h
  | editSeq k b cs => simp [matOpOf] at h
  | defMap k src => exact absurd rfl (hd k src)
  | score j src store w =>
    simp only [stepX]
    cases srcMatrix s src with
    | none => simp
    | some m =>
      cases s.objs[j]? with
      | none => simp
      | some o => cases store <;> simp
  | up j name mk =>
    simp only [stepX]
    cases s.objs[j]? with
    | none => simp
    | some o =>
      cases mk with
      | none => simp
      | some k => cases hk : s.maps[k]? <;> simp [hk]
  | scoreNoMap j store w =>
    simp only [stepX]
    cases s.objs[j]? with
    | none => simp
    | some o => cases store <;> simp
  | scoreForeign j k => simp only [stepX]; cases s.objs[j]? <;> cases s.mats[k]? <;> simp
  | dump j name => simp only [stepX]; cases s.objs[j]? <;> simp

namespace Aux
theorem post_head : ∀ t : T, ∃ i x l s rest, post t = T.node i x l s [] :: rest
  | .node i x l s [] => ⟨i, x, l, s, [], by simp [post, postL]⟩
  | .node i x l s (c :: cs) => by
    obtain ⟨i', x', l', s', rest, h⟩ := post_head c
    exact ⟨i', x', l', s', rest ++ postL cs ++ [.node i x l s (c :: cs)], by simp [post, postL, h]⟩
end Aux

/-- **`parsimony_score` refuses a matrix of another taxon namespace before it reads or writes anything** (entry-point glue: the
`TaxonNamespaceIdentityError` test is the first statement). -/
theorem xstep_foreign_namespace_refused (s : XState) (j k : Nat) (o : Obj) (mo : MatObj) (hobj : s.objs[j]? = some o)
    (hmat : s.mats[k]? = some mo) : stepX s (.scoreForeign j k) = (s, .err .nsError) := by
  simp [stepX, hobj, hmat]

/-- **Without a map and without an attribute store there is nothing to score** (`fitch_down_pass(nodes, state_sets_attr_name=None,
taxon_state_sets_map=None)`): on every tree the first node of the post-order is a leaf, whose sets can come from nowhere — the call
is refused and changes nothing. -/
theorem xstep_nomap_nostore_refused (s : XState) (j : Nat) (w : Option (List Nat)) (o : Obj) (hobj : s.objs[j]? = some o) :
    stepX s (.scoreNoMap j none w) = (s, .err .typeError) := by
  obtain ⟨i, x, l, s', rest, h⟩ := post_head o.tree
  simp [stepX, hobj, parsimonyNP, h, runNodesNP, stepNodeN, T.cs, getAttr]

/-- **`fitch_up_pass` refuses an internal non-root node that is not binary** (`assert(len(c) == 2)`): a unary node or a polytomy below
the root stops the pass with what was written so far; a polytomy AT the root (the usual unrooted form) is skipped like any root. -/
theorem upStep_refuses_nonbinary (m : Option Matrix) (attrs : Attrs) (p : Nat) (nd : T) (h0 : nd.cs ≠ [])
    (h2 : nd.cs.length ≠ 2) : upStep m attrs (some p) nd = .error .assertError := by
  cases nd with
  | node i x l s cs =>
    cases cs with
    | nil => simp [T.cs] at h0
    | cons c cs =>
      cases cs with
      | nil => simp [upStep, T.cs]
      | cons c2 cs =>
        cases cs with
        | nil => simp [T.cs] at h2
        | cons c3 cs => simp [upStep, T.cs]

theorem upStep_skips_root (m : Option Matrix) (attrs : Attrs) (nd : T) : upStep m attrs none nd = .ok attrs := by
  cases nd with
  | node i x l s cs => cases cs <;> simp [upStep, T.cs]

/-- **The machines the driver runs compute the per-character recursion** (`parsimonyP` = the down pass with its attribute store,
`upPass` = `fitch_up_pass` over the pre-order with parent pointers).  On a fully bifurcating tree with distinct nodes whose leaves all
have rows — whatever attributes the nodes carried before — the down pass succeeds, the up pass succeeds, and afterwards every node `u`
(at the end of any path `p`) carries a row of `n` sets whose character `c` is `finalAt (col c bv) p`. -/
theorem up_pass_machine {m : Matrix} {n : Nat} {t : T} {bv : BV} (hv : View m t bv) (hm : RectM m n) (hid : (ids t).Nodup)
    (w : Option (List Nat)) (hw : WOk w n) (attrs0 : Attrs) :
    ∃ st attrs', parsimonyP m w attrs0 t = (st, none) ∧ upPass none st.attrs t = (attrs', none) ∧
      ∀ (p : Path) (u : T), subT t p = some u →
        ∃ row, getAttr attrs' u.id = some row ∧ row.length = n ∧ ∀ c, c < n → finalAt (col c bv) p = some (row.getD c 0) := by
  obtain ⟨st, hp, _⟩ := call_spec (.rooted hv) hm hid w hw attrs0
  have hn := view_nchar hv hm
  have hws := ws_length hn w hw
  have hrect := (view_rect hv hm).1
  have hpp : parsimonyP m w attrs0 t = (st, none) := by
    have := parsimonyP_spec m w attrs0 t
    rw [hp] at this
    rcases hq : parsimonyP m w attrs0 t with ⟨st', _ | e⟩
    · rw [hq] at this; simp only [Except.ok.injEq] at this; rw [this]
    · rw [hq] at this; cases this
  obtain ⟨hst, _⟩ := down_stored (ws := weightsOf m w) hv hid _ st hp
  obtain ⟨attrs', hup, hfin⟩ := upPass_stored hst hid
  refine ⟨st, attrs', hpp, hup, ?_⟩
  obtain ⟨r1, r2⟩ := rowB_spec hws bv hrect
  intro p u hu
  obtain ⟨row, g1, g2, g3⟩ := finStored_cols hws hfin r1 hrect p u hu
  refine ⟨row, g1, g2, fun c hc => ?_⟩
  have := g3 c hc
  rw [r2 c hc] at this
  exact this

/-- **After `fitch_down_pass` and `fitch_up_pass` every internal node carries exactly its most-parsimonious states** (model of the two
passes as the driver runs them, all characters).  For every internal node `u` and every character `c`, state `s` is in the set stored on
`u` iff some assignment of states to all nodes — agreeing with the leaf state sets of character `c` and with the minimum number of changes —
gives `u` the state `s`. -/
theorem up_pass_exact {m : Matrix} {n : Nat} {t : T} {bv : BV} (hv : View m t bv) (hm : RectM m n) (hid : (ids t).Nodup)
    (w : Option (List Nat)) (hw : WOk w n) (attrs0 : Attrs) :
    ∃ st attrs', parsimonyP m w attrs0 t = (st, none) ∧ upPass none st.attrs t = (attrs', none) ∧
      ∀ (p : Path) (u : T), subT t p = some u → u.cs ≠ [] →
        ∃ row, getAttr attrs' u.id = some row ∧ row.length = n ∧ ∀ c, c < n → ∀ s,
          (row.getD c 0).testBit s = true ↔
            ∃ a, Valid (col c bv) a ∧ changes a = (fitch (col c bv)).2 ∧ a.at p = some s := by
  obtain ⟨st, attrs', h1, h2, h3⟩ := up_pass_machine hv hm hid w hw attrs0
  refine ⟨st, attrs', h1, h2, ?_⟩
  intro p u hu hcs
  obtain ⟨row, g1, g2, g3⟩ := h3 p u hu
  refine ⟨row, g1, g2, fun c hc s => ?_⟩
  obtain ⟨bu, vu, esub⟩ := view_sub hv p u hu
  cases vu with
  | leaf _ => simp [T.cs] at hcs
  | @node i x l s' a b ba bb va vb =>
    exact up_pass_mpr (col c bv) ((view_rect hv hm).2 c hc) p (col c ba) (col c bb)
      (by rw [esub c]; rfl) _ (g3 c hc) s

/-- **A down pass without a map repeats the score of the pass that left the sets** (`fitch_down_pass(nodes, taxon_state_sets_map=None,
weights=w)`, "the leaves must already carry their state sets").  After a scoring call with matrix `m` and weight list `w` on a fully
bifurcating tree with distinct nodes (whatever attributes the nodes carried before it), the same pass without a map, on the same
attribute store and with the same weights, succeeds, returns the same score and leaves every attribute as it was: in this mode the
result is a function of the tree and of the data of the LAST pass that wrote the store.  (Stated for a given weight list; with
`weights=None` the two passes are compared with the code only.) -/
theorem nomap_after_score {m : Matrix} {n : Nat} {t : T} {bv : BV} (hv : View m t bv) (hm : RectM m n) (hid : (ids t).Nodup)
    (w : List Nat) (hw : n ≤ w.length) (attrs0 : Attrs) :
    ∃ st st', parsimonyP m (some w) attrs0 t = (st, none) ∧ parsimonyNP (some w) st.attrs t = (st', none) ∧
      st'.score = st.score ∧ ∀ j, getAttr st'.attrs j = getAttr st.attrs j := by
  obtain ⟨st, hp, _⟩ := call_spec (.rooted hv) hm hid (some w) (by simpa [WOk] using hw) attrs0
  have hpp : parsimonyP m (some w) attrs0 t = (st, none) := by
    have := parsimonyP_spec m (some w) attrs0 t
    rw [hp] at this
    rcases hq : parsimonyP m (some w) attrs0 t with ⟨st', _ | e⟩
    · rw [hq] at this; simp only [Except.ok.injEq] at this; rw [this]
    · rw [hq] at this; cases this
  obtain ⟨hst, _, hsc⟩ := down_stored (ws := w) hv hid _ st (by simpa [parsimony, weightsOf] using hp)
  obtain ⟨st', hr, heq, hc⟩ := nomap_run (ws := w) hw bv t st.attrs hst (view_rect hv hm).1
    { attrs := st.attrs, score := 0, bychar := [] } (fun _ => rfl)
  refine ⟨st, st', hpp, by simpa [parsimonyNP] using hr, ?_, heq⟩
  simp only at hsc hc
  omega

/-! ### the new hypotheses are satisfiable; the up pass computes -/

/-- one character on `((A, C), (A, (A, G)))` with `A = 1`, `C = 2`, `G = 4` -/
def exB : B := .node (.node (.leaf 1) (.leaf 2)) (.node (.leaf 1) (.node (.leaf 1) (.leaf 4)))
example : NonEmptyLeaves exB := by simp [exB, Bt.All]
example : Bt.sub exB [false] = some (.node (.leaf 1) (.leaf 2)) := rfl
example : (fitch (.node (.leaf 1) (.leaf 2))).1 = 3 ∧ finalAt exB [false] = some 1 ∧ finalAt exB [true, true] = some 1 ∧
    (fitch exB).2 = 2 := by decide
example : comb 1 2 = (3, 1) ∧ C16Kernels.downSet 1 2 = 3 ∧ finalSet 1 3 1 2 = 1 ∧ finalSet 6 1 1 8 = 7 ∧ finalSet 6 3 3 11 = 3 := by decide
/-- an extended history: one map object scored three times (no store, default store, custom name), an up pass, a dump -/
example : ((runXHist { objs := [], mats := [], maps := [] }
    [.newTree exTree, .defMap 0 (.lit exMatrix), .score 0 (.map 0) none none, .score 0 (.map 0) (some 0) (some [2, 5]),
     .up 0 0 none, .score 0 (.map 0) (some 1) none, .dump 0 0]).map
    (fun r => match r with | .ok sc bc => some (sc, bc) | _ => none)) =
    [none, none, some (2, [1, 1]), some (7, [2, 5]), none, some (2, [1, 1]), none] := by decide
example : (match (parsimonyP exMatrix none [(1, [9, 9])] exTree) with
    | (st, none) => (upPass none st.attrs exTree).2 == none && dumpAttrs (upPass none st.attrs exTree).1 exTree ==
        [some [1, 7], some [1, 3], some [1, 3], some [2, 3], some [1, 4]] && dumpAttrs st.attrs exTree ==
        [some [1, 7], some [3, 3], some [1, 3], some [2, 3], some [1, 4]]
    | _ => false) = true := by decide
example : subT exTree [false] = some (.node 1 none none none [.node 2 (some 0) none none [], .node 3 (some 1) none none []]) := rfl
example : (runXHist { objs := [], mats := [], maps := [] }
    [.newTree exTri, .scoreNoMap 0 none none, .scoreNoMap 0 (some 0) none, .score 0 (.lit exMatrix) (some 0) (some [2, 5]),
     .scoreNoMap 0 (some 0) (some [2, 5]), .scoreNoMap 0 (some 0) none, .up 0 0 none]).map
    (fun r => match r with | .ok sc _ => some sc | _ => none) = [none, none, none, some 7, some 7, some 2, none] := by decide
example : (T.node 0 none none none [exTree, exTree, exTree]).cs.length ≠ 2 := by decide
example : (ids exTree).Nodup ∧ srcMatrix { objs := [], mats := [], maps := [exMatrix] } (.map 0) = some exMatrix := by decide

end DendroModel.C16
