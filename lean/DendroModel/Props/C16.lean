import DendroModel.Theory.C16Cols
import DendroModel.Theory.C16Sym
/-! C16 — property theorems about `parsimony` (= `runNodes` over the post-order with the node-attribute store), the
function the driver `drv_c16` runs.

Vocabulary (definitions in `Theory/C16*.lean`):
* `View m t bv` — `t` is fully bifurcating, every leaf carries a taxon with a row in the matrix `m`; `bv` is the binary tree
  of those rows; `col c bv` is character `c` of it (one state set per leaf).
* `RectM m n` — every row of `m` has `n` characters and no empty state set.
* `ids t` — the node identities (distinct Python objects = `Nodup`).
* `A`, `Valid`, `changes` — an assignment of a state to every node, agreeing with the leaf state sets; its number of
  changes along edges.  `sumTo n f = f 0 + … + f (n-1)`; `wt w c` = weight of character `c` (1 when `weights is None`).

Only property theorems live directly in `namespace DendroModel.C16` of this file; helpers are in `DendroModel.C16.Aux`. -/
namespace DendroModel.C16

/-- every row of the matrix has `n` characters and no empty state set -/
def RectM (m : Matrix) (n : Nat) : Prop :=
  ∀ k row, getAttr m k = some row → row.length = n ∧ ∀ s, s ∈ row → s ≠ 0

/-- weight of character `c` -/
def wt (w : Option (List Nat)) (c : Nat) : Nat :=
  match w with
  | none => 1
  | some l => l.getD c 0

/-- one weight per character, if weights are given -/
def WOk (w : Option (List Nat)) (n : Nat) : Prop :=
  match w with
  | none => True
  | some l => l.length = n

/-- copies of a bifurcating tree that differ in child order (and possibly in node identities, lengths, labels) -/
inductive SwapT : T → T → Prop
  | leaf {i i' : Nat} {x : Option Nat} {l l' : Option Frac} {s s' : Option String} :
      SwapT (.node i x l s []) (.node i' x l' s' [])
  | same {i i' : Nat} {x x' : Option Nat} {l l' : Option Frac} {s s' : Option String} {a a' b b' : T} :
      SwapT a a' → SwapT b b' → SwapT (.node i x l s [a, b]) (.node i' x' l' s' [a', b'])
  | swap {i i' : Nat} {x x' : Option Nat} {l l' : Option Frac} {s s' : Option String} {a a' b b' : T} :
      SwapT a a' → SwapT b b' → SwapT (.node i x l s [a, b]) (.node i' x' l' s' [b', a'])

/-- the statement's trees: fully bifurcating with a binary root (`rooted`), or in the usual unrooted form with a basal
    trifurcation (`unrooted`), which is read as `((a, b), c)` -/
inductive ViewU (m : Matrix) : T → BV → Prop
  | rooted {t : T} {bv : BV} : View m t bv → ViewU m t bv
  | unrooted {i : Nat} {x : Option Nat} {l : Option Frac} {s : Option String} {a b c : T} {ba bb bc : BV} :
      View m a ba → View m b bb → View m c bc → ViewU m (.node i x l s [a, b, c]) (.node (.node ba bb) bc)

/-- what a call lets its caller observe: the exception class, or the score and the per-character list -/
def obs : Except Err St → Except Err (Nat × List Nat)
  | .error e => .error e
  | .ok st => .ok (st.score, st.bychar)

def obsT : Except Err (Row × Nat × List Nat) → Except Err (Nat × List Nat)
  | .error e => .error e
  | .ok (_, sc, bc) => .ok (sc, bc)

/-- observable result of one history step -/
inductive Obs where
  | call (r : Except Err (Nat × List Nat))
  | cloned
  | badObj

def Res.toObs : Res → Obs
  | .ok s bc => .call (.ok (s, bc))
  | .err e => .call (.error e)
  | .cloned => .cloned
  | .badObj => .badObj

/-- the reference semantics of a history: every scoring call is made on a FRESH copy of the tree (no attributes); only
    the number of live tree objects is tracked -/
def refHist (t : T) : Nat → List Op → List Obs
  | _, [] => []
  | n, .clone j :: rest => if j < n then .cloned :: refHist t (n + 1) rest else .badObj :: refHist t n rest
  | n, .score j m w :: rest =>
    if j < n then .call (obs (parsimony m w [] t)) :: refHist t n rest else .badObj :: refHist t n rest

/-- `v` is a proper descendant subtree of `t` (so there is an edge above it) -/
inductive Below : T → T → Prop
  | child {v t : T} : v ∈ t.cs → Below v t
  | deeper {v w t : T} : Below w t → v ∈ w.cs → Below v t

namespace Aux

theorem getD_replicate (v d : Nat) : ∀ (n c : Nat), c < n → (List.replicate n v).getD c d = v
  | n + 1, 0, _ => by simp [List.replicate]
  | n + 1, c + 1, h => by
    have := getD_replicate v d n c (by omega)
    simpa [List.replicate] using this

theorem sumL_replicate_zero : ∀ n, sumL (List.replicate n 0) = 0
  | 0 => by simp [sumL]
  | n + 1 => by simp [List.replicate, sumL, sumL_replicate_zero n]

theorem getD_mem : ∀ (l : List Nat) (c : Nat), c < l.length → l.getD c 0 ∈ l
  | x :: xs, 0, _ => by simp
  | x :: xs, c + 1, h => by
    have := getD_mem xs c (by simpa using h)
    simp only [List.getD_cons_succ, List.mem_cons]
    exact Or.inr this

theorem view_rect {m : Matrix} {n : Nat} {t : T} {bv : BV} (hv : View m t bv) (hm : RectM m n) :
    bv.All (fun row => row.length = n) ∧ ∀ c, c < n → NonEmptyLeaves (col c bv) := by
  induction hv with
  | @leaf i x l s row h =>
    cases x with
    | none => simp [lookupRow] at h
    | some k =>
      have ⟨h1, h2⟩ := hm k row (by simpa [lookupRow] using h)
      refine ⟨h1, ?_⟩
      intro c hc
      exact h2 _ (getD_mem row c (by omega))
  | node _ _ iha ihb =>
    exact ⟨⟨iha.1, ihb.1⟩, fun c hc => ⟨iha.2 c hc, ihb.2 c hc⟩⟩

theorem view_nchar {m : Matrix} {n : Nat} {t : T} {bv : BV} (hv : View m t bv) (hm : RectM m n) : nchar m = n := by
  induction hv with
  | @leaf i x l s row h =>
    cases m with
    | nil => cases x <;> simp [lookupRow, getAttr] at h
    | cons e rest =>
      obtain ⟨k, r⟩ := e
      have := (hm k r (by simp [getAttr])).1
      simpa [nchar] using this
  | node _ _ iha _ => exact iha

/-- the heart (refinement, any input): what a call lets its caller observe is the plain recursion `accT` started from zero,
    whatever attributes are stored on the nodes -/
theorem parsimony_obs (m : Matrix) (w : Option (List Nat)) (attrs : Attrs) {t : T} (hid : (ids t).Nodup) :
    obs (parsimony m w attrs t) = obsT (accT m (weightsOf m w) t 0 (List.replicate (nchar m) 0)) := by
  have h := run_T m (weightsOf m w) t hid { attrs := attrs, score := 0, bychar := List.replicate (nchar m) 0 }
  cases hacc : accT m (weightsOf m w) t 0 (List.replicate (nchar m) 0) with
  | error e =>
    have := h.1 e hacc
    simp only [parsimony, this, obs, obsT]
  | ok v =>
    obtain ⟨row, sc, bc⟩ := v
    obtain ⟨st', hr, _, hs, hb, _⟩ := h.2 row sc bc hacc
    simp only [parsimony, hr, obs, obsT, hs, hb]

theorem viewU_rect {m : Matrix} {n : Nat} {t : T} {bv : BV} (hv : ViewU m t bv) (hm : RectM m n) :
    bv.All (fun row => row.length = n) ∧ ∀ c, c < n → NonEmptyLeaves (col c bv) := by
  cases hv with
  | rooted h => exact view_rect h hm
  | unrooted ha hb hc =>
    have ra := view_rect ha hm
    have rb := view_rect hb hm
    have rc := view_rect hc hm
    exact ⟨⟨⟨ra.1, rb.1⟩, rc.1⟩, fun c hc' => ⟨⟨ra.2 c hc', rb.2 c hc'⟩, rc.2 c hc'⟩⟩

theorem viewU_nchar {m : Matrix} {n : Nat} {t : T} {bv : BV} (hv : ViewU m t bv) (hm : RectM m n) : nchar m = n := by
  cases hv with
  | rooted h => exact view_nchar h hm
  | unrooted ha _ _ => exact view_nchar ha hm

theorem viewU_spec {m : Matrix} {ws : List Nat} {n : Nat} (hws : ws.length = n) {t : T} {bv : BV} (hv : ViewU m t bv)
    (hm : RectM m n) : SpecT m ws n t bv := by
  cases hv with
  | rooted h => exact spec_view hws h (view_rect h hm).1
  | unrooted ha hb hc =>
    exact spec_tri hws ha hb hc (view_rect ha hm).1 (view_rect hb hm).1 (view_rect hc hm).1 _ _ _ _

theorem ws_length {m : Matrix} {n : Nat} (hn : nchar m = n) (w : Option (List Nat)) (hw : WOk w n) :
    (weightsOf m w).length = n := by
  cases w with
  | none => simp [weightsOf, hn]
  | some l => simpa [WOk, weightsOf] using hw

theorem ws_getD {m : Matrix} {n : Nat} (hn : nchar m = n) (w : Option (List Nat)) (c : Nat) (hc : c < n) :
    (weightsOf m w).getD c 0 = wt w c := by
  cases w with
  | none => simp only [wt, weightsOf]; exact getD_replicate 1 0 _ c (by omega)
  | some l => simp [wt, weightsOf]

/-- everything about one call: success, per-character values, total -/
theorem call_spec {m : Matrix} {n : Nat} {t : T} {bv : BV} (hv : ViewU m t bv) (hm : RectM m n)
    (hid : (ids t).Nodup) (w : Option (List Nat)) (hw : WOk w n) (attrs : Attrs) :
    ∃ st, parsimony m w attrs t = .ok st ∧ st.bychar.length = n ∧
      (∀ c, c < n → st.bychar.getD c 0 = wt w c * (fitch (col c bv)).2) ∧
      st.score = sumL st.bychar := by
  have hn := viewU_nchar hv hm
  have hz : (List.replicate (nchar m) 0).length = n := by simp [hn]
  obtain ⟨row, sc, bc, hacc, _, e2, e3, e4⟩ := viewU_spec (ws_length hn w hw) hv hm 0 _ hz
  obtain ⟨st, hp, _, hs, hb, _⟩ :=
    (run_T m (weightsOf m w) t hid { attrs := attrs, score := 0, bychar := List.replicate (nchar m) 0 }).2 row sc bc hacc
  refine ⟨st, by simpa [parsimony] using hp, by rw [hb]; exact e2, ?_, ?_⟩
  · intro c hc
    rw [hb, (e4 c hc).2, ws_getD hn w c hc, getD_replicate 0 0 _ c (by omega)]
    omega
  · rw [hs, hb]
    rw [sumL_replicate_zero] at e3
    omega

theorem view_swap {m : Matrix} {t t' : T} (hs : SwapT t t') : ∀ {bv : BV}, View m t bv →
    ∃ bv', View m t' bv' ∧ Sw bv bv' := by
  induction hs with
  | leaf =>
    intro bv hv
    cases hv with
    | leaf h => exact ⟨_, .leaf h, .leaf _⟩
  | same _ _ iha ihb =>
    intro bv hv
    cases hv with
    | node hva hvb =>
      obtain ⟨ba', va, sa⟩ := iha hva
      obtain ⟨bb', vb, sb⟩ := ihb hvb
      exact ⟨_, .node va vb, .same sa sb⟩
  | swap _ _ iha ihb =>
    intro bv hv
    cases hv with
    | node hva hvb =>
      obtain ⟨ba', va, sa⟩ := iha hva
      obtain ⟨bb', vb, sb⟩ := ihb hvb
      exact ⟨_, .node vb va, .swap sa sb⟩

theorem nodup_ll {r ia : Nat} {a1 a2 b : List Nat} (h : (r :: ((ia :: (a1 ++ a2)) ++ b)).Nodup) :
    (r :: (a1 ++ (ia :: (a2 ++ b)))).Nodup := by
  simp only [List.nodup_cons, List.nodup_append, List.mem_append, List.mem_cons, List.cons_append] at h ⊢
  grind

theorem nodup_lr {r ia : Nat} {a1 a2 b : List Nat} (h : (r :: ((ia :: (a1 ++ a2)) ++ b)).Nodup) :
    (r :: ((ia :: (a1 ++ b)) ++ a2)).Nodup := by
  simp only [List.nodup_cons, List.nodup_append, List.mem_append, List.mem_cons, List.cons_append] at h ⊢
  grind

theorem nodup_rl {r ib : Nat} {a b1 b2 : List Nat} (h : (r :: (a ++ (ib :: (b1 ++ b2)))).Nodup) :
    (r :: ((ib :: (a ++ b2)) ++ b1)).Nodup := by
  simp only [List.nodup_cons, List.nodup_append, List.mem_append, List.mem_cons, List.cons_append] at h ⊢
  grind

theorem nodup_rr {r ib : Nat} {a b1 b2 : List Nat} (h : (r :: (a ++ (ib :: (b1 ++ b2)))).Nodup) :
    (r :: ((ib :: (a ++ b1)) ++ b2)).Nodup := by
  simp only [List.nodup_cons, List.nodup_append, List.mem_append, List.mem_cons, List.cons_append] at h ⊢
  grind

/-- one root slide keeps the view (same rows at the same leaves), rotates the tree of rows, keeps identities distinct -/
theorem view_rootStep {m : Matrix} {t : T} {bv : BV} (hv : View m t bv) (hid : (ids t).Nodup) (s : Step) :
    ∃ bv', View m (rootStep s t) bv' ∧ Rot bv bv' ∧ (ids (rootStep s t)).Nodup := by
  cases hv with
  | leaf h => exact ⟨_, by cases s <;> exact .leaf h, .refl _, by cases s <;> exact hid⟩
  | @node i x l s0 a b ba bb hva hvb =>
    cases s with
    | LL =>
      cases hva with
      | leaf h => exact ⟨_, .node (.leaf h) hvb, .refl _, hid⟩
      | node h1 h2 =>
        refine ⟨_, .node h1 (.node h2 hvb), .ll _ _ _, ?_⟩
        simp only [rootStep, ids_node2] at hid ⊢
        exact nodup_ll hid
    | LR =>
      cases hva with
      | leaf h => exact ⟨_, .node (.leaf h) hvb, .refl _, hid⟩
      | node h1 h2 =>
        refine ⟨_, .node (.node h1 hvb) h2, .lr _ _ _, ?_⟩
        simp only [rootStep, ids_node2] at hid ⊢
        exact nodup_lr hid
    | RL =>
      cases hvb with
      | leaf h => exact ⟨_, .node hva (.leaf h), .refl _, hid⟩
      | node h1 h2 =>
        refine ⟨_, .node (.node hva h2) h1, .rl _ _ _, ?_⟩
        simp only [rootStep, ids_node2] at hid ⊢
        exact nodup_rl hid
    | RR =>
      cases hvb with
      | leaf h => exact ⟨_, .node hva (.leaf h), .refl _, hid⟩
      | node h1 h2 =>
        refine ⟨_, .node (.node hva h1) h2, .rr _ _ _, ?_⟩
        simp only [rootStep, ids_node2] at hid ⊢
        exact nodup_rr hid

/-- any sequence of root slides: still viewed, identities distinct, every character's count unchanged -/
theorem view_reroot {m : Matrix} {n : Nat} (hm : RectM m n) : ∀ (path : List Step) {t : T} {bv : BV},
    View m t bv → (ids t).Nodup →
    ∃ bv', View m (reroot path t) bv' ∧ (ids (reroot path t)).Nodup ∧
      ∀ c, c < n → (fitch (col c bv)).2 = (fitch (col c bv')).2
  | [], t, bv, hv, hid => ⟨bv, hv, hid, fun _ _ => rfl⟩
  | s :: path, t, bv, hv, hid => by
    obtain ⟨bv1, hv1, hrot, hid1⟩ := view_rootStep hv hid s
    obtain ⟨bv2, hv2, hid2, heq⟩ := view_reroot hm path hv1 hid1
    refine ⟨bv2, by simpa [reroot] using hv2, by simpa [reroot] using hid2, ?_⟩
    intro c hc
    rw [← heq c hc]
    exact fitch_rot (Rot.map _ hrot) ((view_rect hv hm).2 c hc)

/-- two successful calls whose per-character Fitch counts agree return the same score and per-character list -/
theorem same_result {m : Matrix} {n : Nat} {t t' : T} {bv bv' : BV} (hv : ViewU m t bv) (hv' : ViewU m t' bv')
    (hm : RectM m n) (hid : (ids t).Nodup) (hid' : (ids t').Nodup) (w : Option (List Nat)) (hw : WOk w n)
    (heq : ∀ c, c < n → (fitch (col c bv)).2 = (fitch (col c bv')).2) (attrs attrs' : Attrs) :
    ∃ st st', parsimony m w attrs t = .ok st ∧ parsimony m w attrs' t' = .ok st' ∧
      st.score = st'.score ∧ st.bychar = st'.bychar := by
  obtain ⟨st, hp, hl, hb, hs⟩ := call_spec hv hm hid w hw attrs
  obtain ⟨st', hp', hl', hb', hs'⟩ := call_spec hv' hm hid' w hw attrs'
  have e : st.bychar = st'.bychar :=
    ext_getD n _ _ hl hl' (fun c hc => by rw [hb c hc, hb' c hc, heq c hc])
  exact ⟨st, st', hp, hp', by rw [hs, hs', e], e⟩

/-- any sequence of root slides keeps the view and the distinctness of identities (no matrix-shape hypothesis) -/
theorem view_reroot_view {m : Matrix} : ∀ (path : List Step) {t : T} {bv : BV}, View m t bv → (ids t).Nodup →
    ∃ bv', View m (reroot path t) bv' ∧ (ids (reroot path t)).Nodup
  | [], _, bv, hv, hid => ⟨bv, hv, hid⟩
  | s :: path, _, _, hv, hid => by
    obtain ⟨bv1, hv1, _, hid1⟩ := view_rootStep hv hid s
    obtain ⟨bv2, hv2, hid2⟩ := view_reroot_view path hv1 hid1
    exact ⟨bv2, by simpa [reroot] using hv2, by simpa [reroot] using hid2⟩

theorem reroot_snoc (path : List Step) (s : Step) (t : T) : reroot (path ++ [s]) t = rootStep s (reroot path t) := by
  simp [reroot, List.foldl_append]

/-- number of changes of an assignment around a trifurcating root with state `s` -/
def changes3 (s : Nat) (x y z : A) : Nat :=
  changes x + changes y + changes z + d x.root s + d y.root s + d z.root s

/-- the Fitch count of `((a, b), c)` is the minimum number of changes of the tree with the trifurcating root `(a, b, c)` -/
theorem tri_min (a b c : B) (ha : NonEmptyLeaves a) (hb : NonEmptyLeaves b) (hc : NonEmptyLeaves c) :
    (∀ s x y z, Valid a x → Valid b y → Valid c z → (fitch (.node (.node a b) c)).2 ≤ changes3 s x y z) ∧
    (∃ s x y z, Valid a x ∧ Valid b y ∧ Valid c z ∧ changes3 s x y z = (fitch (.node (.node a b) c)).2) := by
  have hmin := fitch_minimal (.node (.node a b) c) ⟨⟨ha, hb⟩, hc⟩
  have lower : ∀ s x y z, Valid a x → Valid b y → Valid c z → (fitch (.node (.node a b) c)).2 ≤ changes3 s x y z := by
    intro s x y z hx hy hz
    have := hmin.1 (.node s (.node s x y) z) ⟨⟨hx, hy⟩, hz⟩
    simp only [changes, root_node, d_self] at this
    simp only [changes3]; omega
  refine ⟨lower, ?_⟩
  obtain ⟨asg, hv, hc'⟩ := hmin.2
  cases asg with
  | leaf s => simp [Valid] at hv
  | node r inner γ =>
    cases inner with
    | leaf s => simp [Valid] at hv
    | node y α β =>
      simp only [Valid] at hv
      refine ⟨y, α, β, γ, hv.1.1, hv.1.2, hv.2, ?_⟩
      have lo := lower y α β γ hv.1.1 hv.1.2 hv.2
      have tri := d_triangle γ.root r y
      have hcomm := d_comm y r
      simp only [changes, root_node] at hc'
      simp only [changes3] at lo ⊢
      omega

theorem symbolSet_nonzero (htab : ∀ a, a ∈ C16Alphabets.alphabets → ∀ e, e ∈ a.2 → e.2.1 ≠ 0 ∧ e.2.2 ≠ 0)
    (alph : String) (g : Bool) (c : Char) (v : SS) (h : symbolSet alph g c = some v) : v ≠ 0 := by
  unfold symbolSet at h
  split at h
  · cases h
  · rename_i nm tab hf
    have ha := List.mem_of_find?_eq_some hf
    split at h
    · cases h
    · rename_i sym full miss he
      have hmem := List.mem_of_find?_eq_some he
      have := htab _ ha _ hmem
      cases h
      cases g
      · simpa using this.1
      · simpa using this.2

end Aux
open Aux

/-- **Specification of one call** (clause a, weighted sum over characters).  On a fully bifurcating tree whose nodes are
distinct objects and whose leaf taxa all have rows, `parsimony_score` succeeds — whatever `state_sets` attributes the
nodes carried before the call — its per-character list has one entry per character, entry `c` being the weight of `c` times
the Fitch count of character `c`, and the returned score is the weighted sum over the characters. -/
theorem score_spec {m : Matrix} {n : Nat} {t : T} {bv : BV} (hv : ViewU m t bv) (hm : RectM m n)
    (hid : (ids t).Nodup) (w : Option (List Nat)) (hw : WOk w n) (attrs : Attrs) :
    ∃ st, parsimony m w attrs t = .ok st ∧ st.bychar.length = n ∧
      (∀ c, c < n → st.bychar.getD c 0 = wt w c * (fitch (col c bv)).2) ∧
      st.score = sumTo n (fun c => wt w c * (fitch (col c bv)).2) := by
  obtain ⟨st, hp, hl, hb, hs⟩ := call_spec hv hm hid w hw attrs
  refine ⟨st, hp, hl, hb, ?_⟩
  rw [hs, sumL_eq_sumTo, hl]
  exact sumTo_congr n _ _ hb

/-- **Minimality** (clause a).  The returned score is the minimum, over all families of assignments of states to all nodes
(one assignment per character, each agreeing with the leaf state sets: ambiguity codes and gaps are state sets), of the
weighted number of state changes along edges: no family costs less, and some family costs exactly the score. -/
theorem score_minimal {m : Matrix} {n : Nat} {t : T} {bv : BV} (hv : ViewU m t bv) (hm : RectM m n)
    (hid : (ids t).Nodup) (w : Option (List Nat)) (hw : WOk w n) (attrs : Attrs) :
    ∃ st, parsimony m w attrs t = .ok st ∧
      (∀ asg : Nat → A, (∀ c, c < n → Valid (col c bv) (asg c)) →
        st.score ≤ sumTo n (fun c => wt w c * changes (asg c))) ∧
      (∃ asg : Nat → A, (∀ c, c < n → Valid (col c bv) (asg c)) ∧
        sumTo n (fun c => wt w c * changes (asg c)) = st.score) := by
  obtain ⟨st, hp, _, _, hs⟩ := score_spec hv hm hid w hw attrs
  have hne := (viewU_rect hv hm).2
  refine ⟨st, hp, ?_, ?_⟩
  · intro asg hval
    rw [hs]
    apply sumTo_le
    intro c hc
    exact Nat.mul_le_mul_left _ ((fitch_minimal (col c bv) (hne c hc)).1 (asg c) (hval c hc))
  · have hex : ∀ c, ∃ a : A, c < n → Valid (col c bv) a ∧ changes a = (fitch (col c bv)).2 := by
      intro c
      by_cases hc : c < n
      · obtain ⟨a, ha1, ha2⟩ := (fitch_minimal (col c bv) (hne c hc)).2
        exact ⟨a, fun _ => ⟨ha1, ha2⟩⟩
      · exact ⟨.leaf 0, fun h => absurd h hc⟩
    refine ⟨fun c => Classical.choose (hex c), fun c hc => (Classical.choose_spec (hex c) hc).1, ?_⟩
    rw [hs]
    apply sumTo_congr
    intro c hc
    rw [(Classical.choose_spec (hex c) hc).2]

/-- **Per-character scores add up to the total** (clause a). -/
theorem bychar_sum {m : Matrix} {n : Nat} {t : T} {bv : BV} (hv : ViewU m t bv) (hm : RectM m n)
    (hid : (ids t).Nodup) (w : Option (List Nat)) (hw : WOk w n) (attrs : Attrs) (st : St)
    (h : parsimony m w attrs t = .ok st) : st.score = sumL st.bychar := by
  obtain ⟨st', hp, _, _, hs⟩ := call_spec hv hm hid w hw attrs
  rw [h] at hp
  cases hp
  exact hs

/-- **History independence, one call** (clause c).  Whatever attributes the nodes carry — left by any earlier scoring calls
with any matrices, or copied from another tree object by `clone` — the call returns what it returns on a fresh copy
(no attributes). -/
theorem history_independent {m : Matrix} {n : Nat} {t : T} {bv : BV} (hv : ViewU m t bv) (hm : RectM m n)
    (hid : (ids t).Nodup) (w : Option (List Nat)) (hw : WOk w n) (attrs : Attrs) :
    ∃ st st0, parsimony m w attrs t = .ok st ∧ parsimony m w [] t = .ok st0 ∧
      st.score = st0.score ∧ st.bychar = st0.bychar :=
  same_result hv hv hm hid hid w hw (fun _ _ => rfl) attrs []

/-- **History independence for every input** (clause c, refinement).  For ANY tree whose nodes are distinct objects
(polytomies, unary nodes, leaves without rows included), any matrix and any weights: what a call lets its caller observe —
the exception class, or the score and per-character list — does not depend on the attributes stored on the nodes. -/
theorem result_independent_of_attrs (m : Matrix) (w : Option (List Nat)) {t : T} (hid : (ids t).Nodup)
    (attrs attrs' : Attrs) : obs (parsimony m w attrs t) = obs (parsimony m w attrs' t) := by
  rw [parsimony_obs m w attrs hid, parsimony_obs m w attrs' hid]

/-- **History independence, whole histories** (clause c).  In any history of scoring calls (with any matrices, failing calls
included) and clonings on tree objects of one topology, every call lets its caller observe exactly what the same call
observes on a fresh copy of the tree on which nothing was ever scored (`refHist`). -/
theorem history_eq_fresh (t : T) (hid : (ids t).Nodup) : ∀ (ops : List Op) (objs : List Attrs),
    (runHist t objs ops).map Res.toObs = refHist t objs.length ops
  | [], _ => rfl
  | .clone j :: rest, objs => by
    by_cases hj : j < objs.length
    · simp only [runHist, List.getElem?_eq_getElem hj, List.map_cons, refHist, hj, if_true, Res.toObs]
      rw [history_eq_fresh t hid rest (objs ++ [objs[j]])]
      simp
    · have e1 : objs[j]? = none := List.getElem?_eq_none (by omega)
      simp only [runHist, e1, List.map_cons, refHist, hj, if_false, Res.toObs]
      rw [history_eq_fresh t hid rest objs]
  | .score j m w :: rest, objs => by
    by_cases hj : j < objs.length
    · have hind := result_independent_of_attrs m w hid objs[j] []
      simp only [runHist, List.getElem?_eq_getElem hj, refHist, hj, if_true]
      cases hp : parsimony m w objs[j] t with
      | error e =>
        rw [hp] at hind
        rw [← hind]
        simp only [List.map_cons, Res.toObs, obs]
        rw [history_eq_fresh t hid rest objs]
      | ok st =>
        rw [hp] at hind
        rw [← hind]
        simp only [List.map_cons, Res.toObs, obs]
        rw [history_eq_fresh t hid rest (objs.set j st.attrs)]
        simp
    · have e1 : objs[j]? = none := List.getElem?_eq_none (by omega)
      simp only [runHist, e1, List.map_cons, refHist, hj, if_false, Res.toObs]
      rw [history_eq_fresh t hid rest objs]

/-- corollary: the observable results of a history do not depend on the attributes the objects start with -/
theorem history_results_independent (t : T) (hid : (ids t).Nodup) (ops : List Op) (objs objs' : List Attrs)
    (hlen : objs.length = objs'.length) :
    (runHist t objs ops).map Res.toObs = (runHist t objs' ops).map Res.toObs := by
  rw [history_eq_fresh t hid ops objs, history_eq_fresh t hid ops objs', hlen]

/-- **Child order independence** (clause b).  Two copies that differ by exchanging the children of any set of nodes (and
possibly in node identities, edge lengths, labels) get the same score and the same per-character list. -/
theorem child_order_independent {m : Matrix} {n : Nat} {t t' : T} {bv : BV} (hv : View m t bv) (hsw : SwapT t t')
    (hm : RectM m n) (hid : (ids t).Nodup) (hid' : (ids t').Nodup) (w : Option (List Nat)) (hw : WOk w n)
    (attrs attrs' : Attrs) :
    ∃ st st', parsimony m w attrs t = .ok st ∧ parsimony m w attrs' t' = .ok st' ∧
      st.score = st'.score ∧ st.bychar = st'.bychar := by
  obtain ⟨bv', hv', hs⟩ := view_swap hsw hv
  refine same_result (.rooted hv) (.rooted hv') hm hid hid' w hw (fun c _ => ?_) attrs attrs'
  have e : fitch (col c bv) = fitch (col c bv') := fitch_sw (Sw.map _ hs)
  rw [e]

/-- **Root position independence** (clause b).  `reroot path t` slides the root of the bifurcating tree along `path` (each
step moves it onto one of the four edges next to the current root edge).  Score and per-character list are the same after
every sequence of slides; `reroot_reaches_every_edge` shows that every edge of the tree is reached by some sequence.  (The
harness's re-rooted copies are built by the same slides and compared with `reroot` through the driver.) -/
theorem root_position_independent {m : Matrix} {n : Nat} {t : T} {bv : BV} (hv : View m t bv) (hm : RectM m n)
    (hid : (ids t).Nodup) (w : Option (List Nat)) (hw : WOk w n) (path : List Step) (attrs attrs' : Attrs) :
    ∃ st st', parsimony m w attrs t = .ok st ∧ parsimony m w attrs' (reroot path t) = .ok st' ∧
      st.score = st'.score ∧ st.bychar = st'.bychar := by
  obtain ⟨bv', hv', hid', heq⟩ := view_reroot hm path hv hid
  exact same_result (.rooted hv) (.rooted hv') hm hid hid' w hw heq attrs attrs'


/-- **Minimality for the unrooted form** (clause a).  For a tree with a basal trifurcation `(a, b, c)` the returned score is the
minimum, over all families of assignments (one state for the trifurcating root and one assignment for each of the three
subtrees, per character), of the weighted number of changes along the edges of that tree. -/
theorem score_minimal_unrooted {m : Matrix} {n : Nat} {i : Nat} {x : Option Nat} {l : Option Frac} {s : Option String}
    {a b c : T} {ba bb bc : BV} (ha : View m a ba) (hb : View m b bb) (hc : View m c bc) (hm : RectM m n)
    (hid : (ids (.node i x l s [a, b, c])).Nodup) (w : Option (List Nat)) (hw : WOk w n) (attrs : Attrs) :
    ∃ st, parsimony m w attrs (.node i x l s [a, b, c]) = .ok st ∧
      (∀ (root : Nat → Nat) (xa xb xc : Nat → A),
        (∀ k, k < n → Valid (col k ba) (xa k) ∧ Valid (col k bb) (xb k) ∧ Valid (col k bc) (xc k)) →
        st.score ≤ sumTo n (fun k => wt w k * changes3 (root k) (xa k) (xb k) (xc k))) ∧
      (∃ (root : Nat → Nat) (xa xb xc : Nat → A),
        (∀ k, k < n → Valid (col k ba) (xa k) ∧ Valid (col k bb) (xb k) ∧ Valid (col k bc) (xc k)) ∧
        sumTo n (fun k => wt w k * changes3 (root k) (xa k) (xb k) (xc k)) = st.score) := by
  obtain ⟨st, hp, _, _, hs⟩ := score_spec (.unrooted ha hb hc) hm hid w hw attrs
  have na := (view_rect ha hm).2
  have nb := (view_rect hb hm).2
  have nc := (view_rect hc hm).2
  refine ⟨st, hp, ?_, ?_⟩
  · intro root xa xb xc hval
    rw [hs]
    apply sumTo_le
    intro k hk
    have hv := hval k hk
    exact Nat.mul_le_mul_left _ ((tri_min _ _ _ (na k hk) (nb k hk) (nc k hk)).1 (root k) _ _ _ hv.1 hv.2.1 hv.2.2)
  · have hex : ∀ k, ∃ q : Nat × A × A × A, k < n →
        Valid (col k ba) q.2.1 ∧ Valid (col k bb) q.2.2.1 ∧ Valid (col k bc) q.2.2.2 ∧
        changes3 q.1 q.2.1 q.2.2.1 q.2.2.2 = (fitch (col k (.node (.node ba bb) bc))).2 := by
      intro k
      by_cases hk : k < n
      · obtain ⟨r, x1, x2, x3, h1, h2, h3, h4⟩ := (tri_min _ _ _ (na k hk) (nb k hk) (nc k hk)).2
        exact ⟨(r, x1, x2, x3), fun _ => ⟨h1, h2, h3, h4⟩⟩
      · exact ⟨(0, .leaf 0, .leaf 0, .leaf 0), fun h => absurd h hk⟩
    refine ⟨fun k => (Classical.choose (hex k)).1, fun k => (Classical.choose (hex k)).2.1,
      fun k => (Classical.choose (hex k)).2.2.1, fun k => (Classical.choose (hex k)).2.2.2, ?_, ?_⟩
    · intro k hk
      have := Classical.choose_spec (hex k) hk
      exact ⟨this.1, this.2.1, this.2.2.1⟩
    · rw [hs]
      apply sumTo_congr
      intro k hk
      rw [(Classical.choose_spec (hex k) hk).2.2.2]

/-- **Every root position is reached** (clause b, completeness of the root slides).  For every proper descendant subtree `v` of a
bifurcating tree — i.e. for every edge, the one above `v` — some sequence of root slides puts the root on that edge: `v`, with
everything below it unchanged, becomes a child of the root.  Together with `root_position_independent`: the score is the same
with the root on any edge. -/
theorem reroot_reaches_every_edge {m : Matrix} {t : T} {bv : BV} (hv : View m t bv) (hid : (ids t).Nodup) {v : T}
    (hb : Below v t) : ∃ path, v ∈ (reroot path t).cs := by
  induction hb with
  | child h => exact ⟨[], by simpa [reroot] using h⟩
  | @deeper v w t hbw hvw ih =>
    obtain ⟨p, hw⟩ := ih hv hid
    obtain ⟨bv', hv', _⟩ := view_reroot_view p hv hid
    generalize hreq : reroot p t = t' at hw hv'
    have key : ∃ st, v ∈ (rootStep st t').cs := by
      cases hv' with
      | leaf _ => simp [T.cs] at hw
      | @node r x l s0 a b ba bb hva hvb =>
        simp only [T.cs, List.mem_cons, List.not_mem_nil, or_false] at hw
        rcases hw with rfl | rfl
        · cases hva with
          | leaf _ => simp [T.cs] at hvw
          | node h1 h2 =>
            simp only [T.cs, List.mem_cons, List.not_mem_nil, or_false] at hvw
            rcases hvw with rfl | rfl
            · exact ⟨.LL, by simp [rootStep, T.cs]⟩
            · exact ⟨.LR, by simp [rootStep, T.cs]⟩
        · cases hvb with
          | leaf _ => simp [T.cs] at hvw
          | node h1 h2 =>
            simp only [T.cs, List.mem_cons, List.not_mem_nil, or_false] at hvw
            rcases hvw with rfl | rfl
            · exact ⟨.RL, by simp [rootStep, T.cs]⟩
            · exact ⟨.RR, by simp [rootStep, T.cs]⟩
    obtain ⟨st, hst⟩ := key
    exact ⟨p ++ [st], by rw [reroot_snoc, hreq]; exact hst⟩

/-- **The generated symbol tables denote state sets** (clause a, "ambiguity codes treated as state sets and gaps as missing data
when so requested"; a statement about the whole finite table regenerated from `charstatemodel.py`, not a sample): in every
alphabet, no symbol denotes the empty set in either gap mode; with gaps as missing the gap symbol denotes what the missing-data
symbol `?` denotes, every other symbol loses exactly the gap state, and `?` without gaps-as-missing is that set plus the gap state. -/
theorem table_ok : C16Alphabets.alphabets.all (fun a =>
    match a.2.find? (fun e => e.1 == 45), a.2.find? (fun e => e.1 == 63) with
    | some (_, gap, _), some (_, qfull, qmiss) =>
      qmiss &&& gap == 0 && qfull == (qmiss ||| gap) &&
      a.2.all (fun e => e.2.1 != 0 && e.2.2 != 0 &&
        (if e.1 == 45 then e.2.2 == qmiss else e.2.2 == (e.2.1 &&& qmiss)))
    | _, _ => false) = true := by decide

theorem table_nonzero : ∀ a, a ∈ C16Alphabets.alphabets → ∀ e, e ∈ a.2 → e.2.1 ≠ 0 ∧ e.2.2 ≠ 0 := by decide

/-- every list of state sets the driver builds from symbols (`rowOfSymbols`, the only source of matrices) is free of empty
sets, so every rectangular matrix the driver accepts satisfies `RectM` -/
theorem rowOfSymbols_nonzero (alph : String) (g : Bool) : ∀ (syms : List Char) (row : Row),
    rowOfSymbols alph g syms = some row → ∀ v, v ∈ row → v ≠ 0
  | [], row, h => by
    simp [rowOfSymbols] at h
    subst h
    intro v hv; cases hv
  | c :: cs, row, h => by
    simp only [rowOfSymbols, List.mapM_cons] at h
    cases h1 : symbolSet alph g c with
    | none => simp [h1] at h
    | some v1 =>
      cases h2 : List.mapM (symbolSet alph g) cs with
      | none => simp [h1, h2] at h
      | some vs =>
        simp [h1, h2] at h
        subst h
        intro v hv
        rcases List.mem_cons.mp hv with rfl | hv'
        · exact symbolSet_nonzero table_nonzero alph g c _ h1
        · exact rowOfSymbols_nonzero alph g cs vs h2 v hv'

/-! ### the hypotheses are satisfiable; the functions compute -/

/-- `((t0,t1),t2)` with two characters -/
def exTree : T :=
  .node 0 none none none [.node 1 none none none [.node 2 (some 0) none none [], .node 3 (some 1) none none []],
                          .node 4 (some 2) none none []]
def exMatrix : Matrix := [(0, [1, 3]), (1, [2, 3]), (2, [1, 4])]
def exRows : BV := .node (.node (.leaf [1, 3]) (.leaf [2, 3])) (.leaf [1, 4])

example : View exMatrix exTree exRows := .node (.node (.leaf rfl) (.leaf rfl)) (.leaf rfl)
example : (ids exTree).Nodup := by decide
example : WOk (some [2, 5]) 2 := rfl
example : RectM exMatrix 2 := by
  intro k row h
  simp only [exMatrix, getAttr] at h
  split at h
  · cases h; decide
  · split at h
    · cases h; decide
    · split at h
      · cases h; decide
      · cases h
example : SwapT exTree (.node 9 none none none [.node 8 (some 2) none none [],
    .node 7 none none none [.node 6 (some 1) none none [], .node 5 (some 0) none none []]]) :=
  .swap (.swap .leaf .leaf) .leaf
example : (match parsimony exMatrix (some [2, 5]) [(2, [7, 7, 7])] exTree with
    | .ok st => some (st.score, st.bychar) | .error _ => none) = some (7, [2, 5]) := by decide
example : (match parsimony exMatrix none [] (reroot [.LL] exTree) with
    | .ok st => some (st.score, st.bychar) | .error _ => none) = some (2, [1, 1]) := by decide

/-- the unrooted form `(t0, t1, t2)` -/
def exTri : T :=
  .node 0 none none none [.node 1 (some 0) none none [], .node 2 (some 1) none none [], .node 3 (some 2) none none []]

example : ViewU exMatrix exTri exRows := .unrooted (.leaf rfl) (.leaf rfl) (.leaf rfl)
example : ViewU exMatrix exTree exRows := .rooted (.node (.node (.leaf rfl) (.leaf rfl)) (.leaf rfl))
example : (ids exTri).Nodup := by decide
example : Below (.node 2 (some 0) none none []) exTree :=
  .deeper (w := .node 1 none none none [.node 2 (some 0) none none [], .node 3 (some 1) none none []])
    (.child (by simp [exTree, T.cs])) (by simp [T.cs])
example : (match parsimony exMatrix none [(1, [9, 9])] exTri with
    | .ok st => some (st.score, st.bychar) | .error _ => none) = some (2, [1, 1]) := by decide
/-- a weight list that is too short raises IndexError exactly when a character past its end changes -/
example : (match parsimony exMatrix (some [2]) [] exTree with
    | .ok _ => "ok" | .error e => e.name) = "IndexError" := by decide
example : (match parsimony [(0, [1, 3]), (1, [2, 3]), (2, [1, 3])] (some [2]) [] exTree with
    | .ok st => some (st.score, st.bychar) | .error _ => none) = some (2, [2, 0]) := by decide
/-- histories with a failing call (no row for taxon 2) between good ones are inside `history_eq_fresh` -/
example : (refHist exTree 1 [.score 0 exMatrix none, .score 0 [(0, [1]), (1, [1])] none, .clone 0, .score 1 exMatrix none]).length = 4 := by
  decide

end DendroModel.C16
