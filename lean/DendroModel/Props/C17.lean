import DendroModel.Model.C17
import DendroModel.Theory.C17Perm
/-! C17 — property theorems about the definitions that `drv_c17` executes (`Model/C17.lean`).
Numbers are read in ℚ through `Frac.toRat`; `WFT t` says every edge length of `t` is a fraction with non-zero
denominator (all values arriving over the protocol are).  Specification vocabulary (`Theory/C17*.lean`):
`tipDists v` distances from `v` to each descendant tip (`None` length = 0), `Within ε t` all root-to-tip path
lengths agree within `ε`, `fage v` the age `calc_node_ages` assigns without forcing, `annot t` the tree with
`fage` written at every node, `LocalOK ε t` every node's other children agree with its first child within `ε`,
`Iso t u` equality up to the order of children anywhere.

* `ages_spec`, `ages_exact_spec`, `age_is_tip_distance`, `reject_iff_local`, `accepted_bound`, `reject_beyond_bound`,
  `reject_only_beyond_precision`,
  `check_disabled_spec`, `force_max_spec`, `force_min_spec`, `force_both_spec` — clause (a)/(b) for ages
* `lengths_from_ages_roundtrip_partial`, `lineages_spec`, `leaf_depths_spec`, `minmax_spec` — clause (a)
* `length_eq_def`, `sackin_eq_def`, `nbar_eq_def`, `colless_eq_def`, `b1_eq_def`, `treeness_eq_def`, `gamma_loop_eq_sums`,
  `gamma_eq_def_partial` — clause (c)
* `stats_perm_invariant_partial` — child-order independence of all statistics except gamma (tested only). -/
namespace DendroModel.C17.Aux
open DendroModel DendroModel.C17

theorem checking_some {cfg : Cfg} {p : Frac} (h : cfg.checking = some p) :
    cfg.forceMax = false ∧ cfg.forceMin = false := by
  unfold Cfg.checking at h
  cases h1 : cfg.forceMax <;> cases h2 : cfg.forceMin <;> simp [h1, h2] at h ⊢

theorem calcNodeAges_nonforce {cfg : Cfg} (h1 : cfg.forceMax = false) (h2 : cfg.forceMin = false) (t : T) :
    calcNodeAges cfg t = if allWithin cfg.checking t then .ok (annot t) else .error .ultra := by
  simp [calcNodeAges, h1, calcAges_nonforce cfg h1 h2 t]

mutual
theorem annot_ages : ∀ t : T, (annot t).ages = (T.nodes t).map (fun v => (v.id, fage v))
  | .node i x l s cs => by simp [annot, AT.ages, T.nodes, annotL_ages cs, T.id]
theorem annotL_ages : ∀ cs : List T, AT.agesL (annotL cs) = (T.nodesL cs).map (fun v => (v.id, fage v))
  | [] => by simp [annotL, AT.agesL, T.nodesL]
  | c :: cs => by simp [annotL, AT.agesL, T.nodesL, annot_ages c, annotL_ages cs]
end

mutual
theorem annotP_ages (pick) : ∀ t : T, (annotP pick t).ages = (T.nodes t).map (fun v => (v.id, page pick v))
  | .node i x l s cs => by simp [annotP, AT.ages, T.nodes, annotPL_ages pick cs, T.id]
theorem annotPL_ages (pick) : ∀ cs : List T, AT.agesL (annotPL pick cs) = (T.nodesL cs).map (fun v => (v.id, page pick v))
  | [] => by simp [annotPL, AT.agesL, T.nodesL]
  | c :: cs => by simp [annotPL, AT.agesL, T.nodesL, annotP_ages pick c, annotPL_ages pick cs]
end

mutual
theorem nodes_inherit {ε : ℚ} : ∀ t : T, WFT t → Within ε t → ∀ v ∈ T.nodes t, WFT v ∧ Within ε v
  | .node i x l s cs, hw, hε, v, hv => by
    rw [nodes_node] at hv
    rcases List.mem_cons.mp hv with rfl | hv'
    · exact ⟨hw, hε⟩
    · exact nodesL_inherit cs hw.2 (fun k hk => Within_child hε hk) v hv'
theorem nodesL_inherit {ε : ℚ} : ∀ cs : List T, WFTL cs → (∀ k ∈ cs, Within ε k) → ∀ v ∈ T.nodesL cs, WFT v ∧ Within ε v
  | [], _, _, v, hv => by simp [T.nodesL] at hv
  | c :: cs, hw, hε, v, hv => by
    simp only [T.nodesL, List.mem_append] at hv
    rcases hv with hv | hv
    · exact nodes_inherit c hw.1 (hε c List.mem_cons_self) v hv
    · exact nodesL_inherit cs hw.2 (fun k hk => hε k (List.mem_cons_of_mem _ hk)) v hv
end

mutual
theorem nodes_wft : ∀ t : T, WFT t → ∀ v ∈ T.nodes t, WFT v
  | .node i x l s cs, hw, v, hv => by
    rw [nodes_node] at hv
    rcases List.mem_cons.mp hv with rfl | hv'
    · exact hw
    · exact nodesL_wft cs hw.2 v hv'
theorem nodesL_wft : ∀ cs : List T, WFTL cs → ∀ v ∈ T.nodesL cs, WFT v
  | [], _, v, hv => by simp [T.nodesL] at hv
  | c :: cs, hw, v, hv => by
    simp only [T.nodesL, List.mem_append] at hv
    rcases hv with hv | hv
    · exact nodes_wft c hw.1 v hv
    · exact nodesL_wft cs hw.2 v hv
end

mutual
theorem depths_spec : ∀ (t : T) (d : Frac), d.WF → WFT t → NoNone t →
    ∃ r, depths d t = .ok r ∧ (r.filter (·.2.1)).map (fun p => p.2.2.toRat) = (tipDists t).map (· + d.toRat) ∧
      ∀ p ∈ r, p.2.2.WF
  | .node i x l s [], d, hd, _, _ => ⟨[(i, true, d)], by simp [depths, depthsL], by simp [tipDists], by simpa using hd⟩
  | .node i x l s (c :: cs), d, hd, hw, hn => by
    obtain ⟨r, hr, hl, hwf⟩ := depthsL_spec (c :: cs) d hd hw.2 hn
    refine ⟨(i, false, d) :: r, by simp [depths, hr], by simpa [tipDists] using hl, ?_⟩
    intro p hp
    rcases List.mem_cons.mp hp with rfl | hp'
    · exact hd
    · exact hwf p hp'
theorem depthsL_spec : ∀ (cs : List T) (d : Frac), d.WF → WFTL cs → NoNoneL cs →
    ∃ r, depthsL d cs = .ok r ∧ (r.filter (·.2.1)).map (fun p => p.2.2.toRat) = (tipDistsL cs).map (· + d.toRat) ∧
      ∀ p ∈ r, p.2.2.WF
  | [], d, _, _, _ => ⟨[], by simp [depthsL], by simp [tipDistsL], by simp⟩
  | c :: cs, d, hd, hw, hn => by
    obtain ⟨⟨l, hl⟩, hnc, hncs⟩ := hn
    have hlw : l.WF := by have := WFT_len hw.1; rw [hl] at this; exact this
    obtain ⟨r1, hr1, h1, w1⟩ := depths_spec c (l + d) (Frac.add_wf _ _) hw.1 hnc
    obtain ⟨r2, hr2, h2, w2⟩ := depthsL_spec cs d hd hw.2 hncs
    refine ⟨r1 ++ r2, by simp [depthsL, hl, hr1, hr2], ?_, ?_⟩
    swap
    · intro p hp
      rcases List.mem_append.mp hp with h | h
      · exact w1 p h
      · exact w2 p h
    rw [List.filter_append, List.map_append, h1, h2, Frac.add_toRat hlw hd]
    simp only [tipDistsL, List.map_append, List.map_map, qlen, hl, olen]
    congr 1
    apply List.map_congr_left
    intro a _; simp only [Function.comp]; ring
end

def isBif (v : T) : Bool := v.cs.length == 2

mutual
theorem specAges_annot : ∀ t : T,
    (specAges (annot t)).1.Perm (((T.nodes t).filter isBif).map fage) ∧
    (specAges (annot t)).2 = ((T.nodes t).filter (fun v => !isBif v)).length
  | .node i x l s cs => by
    obtain ⟨h1, h2⟩ := specAgesL_annot cs
    have hlen : (annotL cs).length = cs.length := by
      clear h1 h2; induction cs with
      | nil => rfl
      | cons c cs ih => simp [annotL, ih]
    have hb0 : isBif (.node i x l s cs) = (cs.length == 2) := rfl
    simp only [annot, specAges, hlen, nodes_node, List.filter_cons, hb0]
    by_cases hb : (cs.length == 2) = true
    · simp only [hb, if_true, Bool.not_true, Bool.false_eq_true, if_false, List.map_cons]
      exact ⟨(List.perm_append_comm).trans (h1.cons _), h2⟩
    · simp only [hb, if_false, Bool.false_eq_true, Bool.not_false, if_true, List.length_cons]
      exact ⟨h1, by rw [h2]⟩
theorem specAgesL_annot : ∀ cs : List T,
    (specAgesL (annotL cs)).1.Perm (((T.nodesL cs).filter isBif).map fage) ∧
    (specAgesL (annotL cs)).2 = ((T.nodesL cs).filter (fun v => !isBif v)).length
  | [] => by simp [annotL, specAgesL, T.nodesL]
  | c :: cs => by
    obtain ⟨h1, h2⟩ := specAges_annot c
    obtain ⟨g1, g2⟩ := specAgesL_annot cs
    simp only [annotL, specAgesL, T.nodesL, List.filter_append, List.map_append, List.length_append]
    exact ⟨h1.append g1, by rw [h2, g2]⟩
end

theorem gammaSignedSq_spec {num tt : Frac} {n : Nat} (hn : num.WF) (ht : tt.WF) {r : Frac}
    (h : gammaSignedSq (num, tt, n) = .ok r) :
    tt.toRat ≠ 0 ∧ r.toRat = (if num.toRat < 0 then -1 else 1) * (num.toRat ^ 2 * (12 * ((n - 2 : ℕ) : ℚ)) / tt.toRat ^ 2) := by
  unfold gammaSignedSq at h
  simp only at h
  split at h
  · cases h
  · rename_i hz
    have hz' : tt.toRat ≠ 0 := fun h0 => hz ((Frac.isZero_iff ht).mpr h0)
    simp only [Except.ok.injEq] at h
    have hsq : (Frac.div (num * num * Frac.ofNat (12 * (n - 2))) (tt * tt)).toRat
        = num.toRat ^ 2 * (12 * ((n - 2 : ℕ) : ℚ)) / tt.toRat ^ 2 := by
      rw [Frac.div_toRat (Frac.mul_wf _ _) (Frac.mul_wf _ _), Frac.mul_toRat (Frac.mul_wf _ _) (Frac.ofNat_wf _),
        Frac.mul_toRat hn hn, Frac.mul_toRat ht ht, Frac.ofNat_toRat]
      push_cast; ring
    refine ⟨hz', ?_⟩
    by_cases hlt : Frac.lt num Frac.zero = true
    · have := (Frac.lt_iff hn Frac.zero_wf).mp hlt
      rw [Frac.zero_toRat] at this
      simp only [hlt, if_true] at h
      rw [← h, Frac.neg_toRat, hsq]; simp [this]
    · have hf : Frac.lt num Frac.zero = false := by simpa using hlt
      have := (Frac.lt_false_iff hn Frac.zero_wf).mp hf
      rw [Frac.zero_toRat] at this
      simp only [hf, Bool.false_eq_true, if_false] at h
      rw [← h, hsq]; simp [not_lt.mpr this]

end DendroModel.C17.Aux

namespace DendroModel.C17
open DendroModel DendroModel.C17.Aux

/-! ## clause (a)/(b): ages and the ultrametricity check -/

/-- Acceptance within the precision: if all root-to-tip path lengths agree within the precision `p` in force
(no forcing option), `calc_node_ages` succeeds, and every node's age differs from its distance to *each* of its
descendant tips by at most `p`. -/
theorem ages_spec {cfg : Cfg} {p : Frac} (t : T) (hw : WFT t) (hp : p.WF) (hc : cfg.checking = some p)
    (hu : Within p.toRat t) :
    calcNodeAges cfg t = .ok (annot t) ∧
    (annot t).ages = (T.nodes t).map (fun v => (v.id, fage v)) ∧
    ∀ v ∈ T.nodes t, ∀ d ∈ tipDists v, |(fage v).toRat - d| ≤ p.toRat := by
  obtain ⟨h1, h2⟩ := checking_some hc
  have hloc : allWithin (some p) t = true := (allWithin_iff hp t hw).mpr (LocalOK_of_Within t hu)
  refine ⟨by rw [calcNodeAges_nonforce h1 h2, hc, hloc]; rfl, annot_ages t, ?_⟩
  intro v hv d hd
  obtain ⟨hwv, huv⟩ := nodes_inherit t hw hu v hv
  rw [fage_toRat v hwv]
  exact huv _ (fageQ_mem v) _ hd

/-- On an exactly ultrametric tree every node's age *equals* its distance to every descendant tip, whatever
non-negative precision is in force. -/
theorem ages_exact_spec {cfg : Cfg} {p : Frac} (t : T) (hw : WFT t) (hp : p.WF) (hc : cfg.checking = some p)
    (hu : Within 0 t) :
    calcNodeAges cfg t = .ok (annot t) ∧ ∀ v ∈ T.nodes t, ∀ d ∈ tipDists v, (fage v).toRat = d := by
  have hp0 : 0 ≤ p.toRat := checking_nonneg hp hc
  have hu' : Within p.toRat t := fun d hd d' hd' => le_trans (hu d hd d' hd') hp0
  refine ⟨(ages_spec t hw hp hc hu').1, ?_⟩
  intro v hv d hd
  obtain ⟨hwv, huv⟩ := nodes_inherit t hw hu v hv
  rw [fage_toRat v hwv]
  have := huv _ (fageQ_mem v) _ hd
  have h0 := abs_nonpos_iff.mp this
  linarith

/-- Whenever `calc_node_ages` succeeds without a forcing option (check in force or disabled), the result is the
tree annotated with first-child-chain ages, and every node's age is the length of an actual path to one of its
descendant tips. -/
theorem age_is_tip_distance {cfg : Cfg} (t : T) (hw : WFT t) (h1 : cfg.forceMax = false) (h2 : cfg.forceMin = false)
    {a : AT} (h : calcNodeAges cfg t = .ok a) :
    a = annot t ∧ a.ages = (T.nodes t).map (fun v => (v.id, fage v)) ∧
    ∀ v ∈ T.nodes t, (fage v).toRat ∈ tipDists v := by
  rw [calcNodeAges_nonforce h1 h2] at h
  have ha : a = annot t := by
    split at h
    · exact (Except.ok.inj h).symm
    · cases h
  refine ⟨ha, by rw [ha]; exact annot_ages t, ?_⟩
  intro v hv
  rw [fage_toRat v (nodes_wft t hw v hv)]; exact fageQ_mem v

/-- The exact acceptance criterion of the code, in ℚ: with the check in force the run is rejected with an
ultrametricity error iff at some node some other child's (first-child-chain age + length) differs from the first
child's by more than `p`, and otherwise succeeds with the first-child-chain ages.  (This is the code's *local*
comparison; what it means for path lengths is `ages_spec`, `accepted_bound`, `reject_beyond_bound` and
`reject_only_beyond_precision`.) -/
theorem reject_iff_local {cfg : Cfg} {p : Frac} (t : T) (hw : WFT t) (hp : p.WF) (hc : cfg.checking = some p) :
    (calcNodeAges cfg t = .error .ultra ↔ ¬ LocalOK p.toRat t) ∧
    (calcNodeAges cfg t = .ok (annot t) ↔ LocalOK p.toRat t) := by
  obtain ⟨h1, h2⟩ := checking_some hc
  rw [calcNodeAges_nonforce h1 h2, hc, ← allWithin_iff hp t hw]
  by_cases h : allWithin (some p) t = true <;> simp [h]

/-- Whatever is accepted is close to ultrametric: if `calc_node_ages` succeeds with the check in force at precision
`p`, then at every node the assigned age differs from the distance to each descendant tip by at most
`height · p` (deviations can accumulate by at most `p` per level). -/
theorem accepted_bound {cfg : Cfg} {p : Frac} (t : T) (hw : WFT t) (hp : p.WF) (hc : cfg.checking = some p)
    {a : AT} (h : calcNodeAges cfg t = .ok a) :
    a = annot t ∧ ∀ v ∈ T.nodes t, ∀ d ∈ tipDists v, |(fage v).toRat - d| ≤ (height v : ℚ) * p.toRat := by
  obtain ⟨h1, h2⟩ := checking_some hc
  have ha := (age_is_tip_distance t hw h1 h2 h).1
  have hloc : LocalOK p.toRat t := ((reject_iff_local t hw hp hc).2).mp (by rw [h, ha])
  refine ⟨ha, ?_⟩
  intro v hv d hd
  rw [fage_toRat v (nodes_wft t hw v hv)]
  exact localOK_bound (checking_nonneg hp hc) v (LocalOK_nodes t hloc v hv) d hd

/-- Sufficient condition for rejection in terms of path lengths: two root-to-tip paths differing by more than
`2 · height · p` force an ultrametricity error.  (The literal "differ by more than `p` ⇒ rejected" is false of the
code: `((A:1,B:2):1,C:1)` at `p = 1` is accepted — see the example below and the known finding.) -/
theorem reject_beyond_bound {cfg : Cfg} {p : Frac} (t : T) (hw : WFT t) (hp : p.WF) (hc : cfg.checking = some p)
    {d d' : ℚ} (hd : d ∈ tipDists t) (hd' : d' ∈ tipDists t) (hfar : 2 * (height t : ℚ) * p.toRat < |d - d'|) :
    calcNodeAges cfg t = .error .ultra := by
  obtain ⟨h1, h2⟩ := checking_some hc
  rw [calcNodeAges_nonforce h1 h2]
  split
  · rename_i hall
    exfalso
    have hok : calcNodeAges cfg t = .ok (annot t) := by rw [calcNodeAges_nonforce h1 h2, if_pos hall]
    have hb := (accepted_bound t hw hp hc hok).2 t (by cases t; simp [T.nodes])
    have b1 := hb d hd
    have b2 := hb d' hd'
    have : |d - d'| ≤ 2 * (height t : ℚ) * p.toRat := by
      have e : d - d' = ((fage t).toRat - d') - ((fage t).toRat - d) := by ring
      rw [e]
      calc |((fage t).toRat - d') - ((fage t).toRat - d)|
          ≤ |(fage t).toRat - d'| + |(fage t).toRat - d| := abs_sub _ _
        _ ≤ (height t : ℚ) * p.toRat + (height t : ℚ) * p.toRat := add_le_add b2 b1
        _ = 2 * (height t : ℚ) * p.toRat := by ring
    linarith
  · rfl

/-- A tree is rejected only if its root-to-tip paths really differ by more than the precision. -/
theorem reject_only_beyond_precision {cfg : Cfg} {p : Frac} (t : T) (hw : WFT t) (hp : p.WF)
    (hc : cfg.checking = some p) (hr : calcNodeAges cfg t = .error .ultra) : ¬ Within p.toRat t := by
  intro hu
  rw [(ages_spec t hw hp hc hu).1] at hr
  cases hr

/-- With the check disabled (`None`, `False`, negative precision) and no forcing, no tree is rejected. -/
theorem check_disabled_spec {cfg : Cfg} (t : T) (h1 : cfg.forceMax = false) (h2 : cfg.forceMin = false)
    (hc : cfg.checking = none) : calcNodeAges cfg t = .ok (annot t) := by
  rw [calcNodeAges_nonforce h1 h2, hc, allWithin_none]; rfl

/-- `is_force_max_age`: every node's age is the largest distance to a descendant tip. -/
theorem force_max_spec (prec : Option Frac) (t : T) (hw : WFT t) (hn : NoNone t) :
    calcNodeAges ⟨prec, true, false⟩ t = .ok (annotP maxList t) ∧
    (annotP maxList t).ages = (T.nodes t).map (fun v => (v.id, page maxList v)) ∧
    ∀ v ∈ T.nodes t, (page maxList v).toRat ∈ tipDists v ∧ ∀ d ∈ tipDists v, d ≤ (page maxList v).toRat := by
  have hf : Forcing ⟨prec, true, false⟩ maxList := Or.inl ⟨rfl, rfl⟩
  refine ⟨by simp [calcNodeAges, calcAges_forcing hf t hn], annotP_ages maxList t, ?_⟩
  intro v hv
  exact page_spec picks_max v (nodes_wft t hw v hv)

/-- `is_force_min_age`: every node's age is the smallest distance to a descendant tip. -/
theorem force_min_spec (prec : Option Frac) (t : T) (hw : WFT t) (hn : NoNone t) :
    calcNodeAges ⟨prec, false, true⟩ t = .ok (annotP minList t) ∧
    (annotP minList t).ages = (T.nodes t).map (fun v => (v.id, page minList v)) ∧
    ∀ v ∈ T.nodes t, (page minList v).toRat ∈ tipDists v ∧ ∀ d ∈ tipDists v, (page minList v).toRat ≤ d := by
  have hf : Forcing ⟨prec, false, true⟩ minList := Or.inr ⟨rfl, rfl, rfl⟩
  refine ⟨by simp [calcNodeAges, calcAges_forcing hf t hn], annotP_ages minList t, ?_⟩
  intro v hv
  exact page_spec picks_min v (nodes_wft t hw v hv)

/-- The defaults found in the current source (`constants.DEFAULT_ULTRAMETRICITY_PRECISION`, `prec` of
`pybus_harvey_gamma`; regenerated on every run) are well-formed and non-negative, i.e. they do enable the check. -/
theorem default_precision_enables_check :
    defaultPrec.WF ∧ (⟨some defaultPrec, false, false⟩ : Cfg).checking = some defaultPrec ∧
    gammaDefaultPrec.WF ∧ (⟨some gammaDefaultPrec, false, false⟩ : Cfg).checking = some gammaDefaultPrec := by
  refine ⟨Frac.mk'_wf _ _, ?_, Frac.mk'_wf _ _, ?_⟩ <;> decide

/-- both forcing options at once are refused -/
theorem force_both_spec (prec : Option Frac) (t : T) : calcNodeAges ⟨prec, true, true⟩ t = .error .value := by
  simp [calcNodeAges]

/-- Setting edge lengths from the ages computed on an exactly ultrametric tree with non-negative lengths (minimum
length `None` or ≤ 0, either error flag) restores every edge length (`None` read as 0); ids and order are kept.
`_partial`: exact ultrametricity only — on a tree that is merely within a precision `p > 0` the lengths of
non-first children come back changed by up to `p` (covered by the correspondence and the oracle only). -/
theorem lengths_from_ages_roundtrip_partial {cfg : Cfg} {p : Frac} (minLen : Option Frac) (errNeg : Bool) (t : T)
    (hw : WFT t) (hp : p.WF) (hc : cfg.checking = some p) (hu : Within 0 t)
    (hnn : NonNeg t) (hm : MinOK minLen) :
    ∃ a a', calcNodeAges cfg t = .ok a ∧ setLens minLen errNeg a = .ok a' ∧ atLens a' = tLens t := by
  refine ⟨annot t, ?_⟩
  have hcalc := (ages_exact_spec t hw hp hc hu).1
  have hloc : LocalOK 0 t := LocalOK_of_Within t hu
  match t, hw, hloc, hnn, hcalc with
  | .node i x l s cs, hw, hloc, hnn, hcalc =>
    have hlocL : LocalOKL 0 cs := by
      match cs, hloc with
      | [], _ => simp [LocalOKL]
      | c :: cs', hl => exact hl.1
    have hpar : ∀ k ∈ cs, (fage (.node i x l s cs)).toRat = fageQ k + qlen k.len := by
      intro k hk
      rw [fage_toRat _ hw]
      match cs, hk, hloc with
      | c :: cs', hk, hl => exact LocalOK_zero_children hl k hk
    obtain ⟨r, hr, hl⟩ := setLensL_exact hm errNeg cs (fage (.node i x l s cs)) (fage_wf _) hw.2 hlocL hnn hpar
    refine ⟨.node i (fage (.node i x l s cs)) l r, hcalc, ?_, ?_⟩
    · simp only [annot, setLens, hr]
    · simp only [atLens, tLens, hl]

/-- The number of lineages at distance `d` from the root is the number of edges whose tail is closer than `d`
and whose head is at `d` or beyond (all edges below the root of positive length). -/
theorem lineages_spec (d : Frac) (hd : d.WF) (t : T) (hpos : Pos t) :
    numLineagesAt d t = .ok ((edgesL 0 t.cs).countP (fun e => decide (e.1 < d.toRat ∧ d.toRat ≤ e.2))) := by
  cases t with
  | node i x l s cs =>
    have := lineagesL_spec hd cs Frac.zero Frac.zero_wf hpos
    simpa [numLineagesAt, T.cs, Frac.zero_toRat] using this

/-- Root distances: the distance accumulated from the root downwards (`resolve_node_depths`,
`calc_node_root_distances`) arrives at every leaf with the length of the root-to-tip path computed from the tips
upwards, leaves in left-to-right order (no `None` length below the root). -/
theorem leaf_depths_spec (t : T) (hw : WFT t) (hn : NoNone t) :
    ∃ r, rootDepths t = .ok r ∧ (r.filter (·.2.1)).map (fun p => p.2.2.toRat) = tipDists t := by
  obtain ⟨r, hr, hl, _⟩ := depths_spec t Frac.zero Frac.zero_wf hw hn
  exact ⟨r, hr, by simpa [Frac.zero_toRat] using hl⟩

/-- `minmax_leaf_distance_from_root` / `max_distance_from_root`: the two values are root-to-tip path lengths and
bound every root-to-tip path length from below and above (no `None` length below the root). -/
theorem minmax_spec (t : T) (hw : WFT t) (hn : NoNone t) :
    ∃ mn mx, minmaxLeafDist t = .ok (mn, mx) ∧ mn.toRat ∈ tipDists t ∧ mx.toRat ∈ tipDists t ∧
      ∀ d ∈ tipDists t, mn.toRat ≤ d ∧ d ≤ mx.toRat := by
  obtain ⟨r, hr, hl, hwf⟩ := depths_spec t Frac.zero Frac.zero_wf hw hn
  have hmap : ((r.filter (·.2.1)).map (·.2.2)).map Frac.toRat = tipDists t := by
    rw [List.map_map]
    have : (Frac.toRat ∘ fun (x : Nat × Bool × Frac) => x.2.2) = fun p => p.2.2.toRat := rfl
    rw [this]; simpa [Frac.zero_toRat] using hl
  have hL : ∀ x ∈ (r.filter (·.2.1)).map (·.2.2), x.WF := by
    intro x hx
    obtain ⟨p, hp, rfl⟩ := List.mem_map.mp hx
    exact hwf p (List.mem_filter.mp hp).1
  cases hc : (r.filter (·.2.1)).map (·.2.2) with
  | nil => rw [hc] at hmap; exact absurd hmap.symm (tipDists_ne_nil t)
  | cons x xs =>
    rw [hc] at hmap hL
    have hx := hL x List.mem_cons_self
    have hxs : ∀ y ∈ xs, y.WF := fun y hy => hL y (List.mem_cons_of_mem _ hy)
    refine ⟨minList x xs, maxList x xs, by simp [minmaxLeafDist, rootDepths, hr, hc], ?_, ?_, ?_⟩
    · rw [← hmap]; exact List.mem_map.mpr ⟨_, minList_mem xs x, rfl⟩
    · rw [← hmap]; exact List.mem_map.mpr ⟨_, maxList_mem xs x, rfl⟩
    · intro d hd
      rw [← hmap] at hd
      obtain ⟨y, hy, rfl⟩ := List.mem_map.mp hd
      exact ⟨minList_le xs x hx hxs y hy, maxList_ge xs x hx hxs y hy⟩

/-! ## clause (c): statistics equal their definitions -/

/-- `Tree.length` is the sum over all nodes of the edge length (`None` = 0). -/
theorem length_eq_def (t : T) (hw : WFT t) :
    (C17.length t).toRat = ((T.nodes t).map (fun v => qlen v.len)).sum := (length_spec t hw).2

/-- The leaf loop of `sackin_index`/`N_bar` (count the ancestors of every leaf) yields the number of leaves and
Sackin's index in its other textbook form: the sum over internal nodes of the number of leaves below. -/
theorem sackin_eq_def (t : T) : leafAnc 0 t = (nLeaves t, sackinDef t) := by
  simpa using leafAnc_spec t 0

/-- N-bar is Sackin's index divided by the number of leaves, and `sackin_index` offers: raw, per leaf, Yule
(`(S − 2n Σ_{j=2}^{n} 1/j)/n`) and (squared) PDA (`S²/n³`). -/
theorem nbar_eq_def (t : T) :
    nBar t = fdiv (Frac.ofNat (sackinDef t)) (Frac.ofNat (nLeaves t)) ∧
    sackin .none t = .ok (Frac.ofNat (sackinDef t)) ∧
    sackin .mean t = nBar t ∧
    sackin .yule t = fdiv (Frac.ofNat (sackinDef t) - Frac.ofNat (2 * nLeaves t) * harmonicFrom2 (nLeaves t))
      (Frac.ofNat (nLeaves t)) ∧
    sackin .pdaSq t = fdiv (Frac.ofNat (sackinDef t * sackinDef t)) (Frac.ofNat (nLeaves t * nLeaves t * nLeaves t)) := by
  simp [nBar, sackin, sackin_eq_def]

/-- the harmonic part of the Yule normalisation: `Σ_{j=2}^{n} 1/j` -/
theorem harmonic_eq_def : ∀ n : Nat, (harmonicFrom2 n).WF ∧
    (harmonicFrom2 n).toRat = ∑ j ∈ Finset.Icc 2 n, (1 : ℚ) / j
  | 0 => by simp [harmonicFrom2, Frac.zero_wf, Frac.zero_toRat]
  | 1 => by simp [harmonicFrom2, Frac.zero_wf, Frac.zero_toRat]
  | n + 2 => by
    obtain ⟨h1, h2⟩ := harmonic_eq_def (n + 1)
    refine ⟨Frac.add_wf _ _, ?_⟩
    have hs : ∑ j ∈ Finset.Icc 2 (n + 1 + 1), (1 : ℚ) / j
        = ∑ j ∈ Finset.Icc 2 (n + 1), (1 : ℚ) / j + 1 / ((n + 1 + 1 : ℕ) : ℚ) :=
      Finset.sum_Icc_succ_top (by omega) _
    rw [harmonicFrom2, Frac.add_toRat h1 (Frac.mk'_wf _ _), Frac.mk'_toRat _ (by omega), h2, hs]
    · simp
    · omega

/-- Colless: the post-order accumulation succeeds exactly on strictly bifurcating trees and then yields the leaf
count and `Σ_{internal v} |leaves(right) − leaves(left)|`; the `max` normalisation is `2 I / ((n−1)(n−2))`. -/
theorem colless_eq_def (t : T) :
    collessAcc t = (if binary t then .ok (nLeaves t, collessDef t) else .error .nonbinary) ∧
    (binary t = true → colless .none t = .ok (Frac.ofNat (collessDef t))) ∧
    (binary t = true → 3 ≤ nLeaves t →
      ∃ r, colless .max t = .ok r ∧ r.toRat = 2 * (collessDef t : ℚ) / (((nLeaves t : ℚ) - 1) * ((nLeaves t : ℚ) - 2))) := by
  refine ⟨collessAcc_spec t, ?_, ?_⟩
  · intro hb; simp [colless, collessAcc_spec t, hb]
  · intro hb hn
    have hden : ((nLeaves t : Int) * ((nLeaves t : Int) - 3) + 2) ≠ 0 := by nlinarith
    refine ⟨_, by simp [colless, collessAcc_spec t, hb, hden]; rfl, ?_⟩
    rw [Frac.mul_toRat (Frac.ofNat_wf _) (Frac.div_wf _ _), Frac.div_toRat (Frac.ofInt_wf _) (Frac.ofInt_wf _),
      Frac.ofNat_toRat, Frac.ofInt_toRat, Frac.ofInt_toRat]
    have h1 : ((nLeaves t : ℚ) - 1) ≠ 0 := by
      have : (3 : ℚ) ≤ (nLeaves t : ℚ) := by exact_mod_cast hn
      intro h; linarith
    have h2 : ((nLeaves t : ℚ) - 2) ≠ 0 := by
      have : (3 : ℚ) ≤ (nLeaves t : ℚ) := by exact_mod_cast hn
      intro h; linarith
    have h3 : (((nLeaves t : Int) * ((nLeaves t : Int) - 3) + 2 : Int) : ℚ) = ((nLeaves t : ℚ) - 1) * ((nLeaves t : ℚ) - 2) := by
      push_cast; ring
    rw [h3]; push_cast; field_simp

/-- B1 is the sum over the internal nodes other than the root of 1 / (number of edges to the farthest tip below). -/
theorem b1_eq_def (t : T) :
    (b1 t).toRat = (((T.nodesL t.cs).filter (fun v => !v.isLeaf)).map (fun v => (1 : ℚ) / (height v : ℚ))).sum :=
  (b1AccL_spec t.cs).2.2

/-- Treeness is the summed length of internal edges over the summed length of all edges below the root. -/
theorem treeness_eq_def (t : T) (hw : WFT t) (hn : NoNone t) :
    (extLenL t.cs + intLenL t.cs = 0 → treeness t = .error .zerodiv) ∧
    (extLenL t.cs + intLenL t.cs ≠ 0 →
      ∃ r, treeness t = .ok r ∧ r.toRat = intLenL t.cs / (extLenL t.cs + intLenL t.cs)) := by
  cases t with
  | node n x l s cs =>
    simp only [T.cs]
    obtain ⟨i, e, h, hi, he, hiq, heq⟩ := treenessAccL_spec cs hw.2 hn
    have hsum : (e + i).toRat = extLenL cs + intLenL cs := by rw [Frac.add_toRat he hi, hiq, heq]
    have hz := Frac.isZero_iff (Frac.add_wf e i)
    constructor
    · intro h0
      have : (e + i).isZero = true := hz.mpr (by rw [hsum]; exact h0)
      simp [treeness, T.cs, h, fdiv, this]
    · intro h0
      have : (e + i).isZero = false := by
        cases hb : (e + i).isZero with
        | false => rfl
        | true => exact absurd (by rw [← hsum]; exact hz.mp hb) h0
      refine ⟨Frac.div i (e + i), by simp [treeness, T.cs, h, fdiv, this], ?_⟩
      rw [Frac.div_toRat hi (Frac.add_wf _ _), hsum, hiq]

/-- Pybus–Harvey gamma, the loop alone (any list of intervals): its two accumulators compute `T' = Σ_{k} (k+2) g_k` and the double sum
`Σ_{i} Σ_{k ≤ i} (k+2) g_k` over the intervals handed to it (indices from 0 here, i.e. `g_k` of the paper is
`gs[k-2]`). -/
theorem gamma_loop_eq_sums (gs : List Frac) (hg : ∀ g ∈ gs, g.WF) :
    (gammaLoop 2 gs Frac.zero Frac.zero).1.toRat
      = ∑ j ∈ Finset.range gs.length, ((2 + j : ℕ) : ℚ) * (gs.map Frac.toRat).getD j 0 ∧
    (gammaLoop 2 gs Frac.zero Frac.zero).2.toRat
      = ∑ m ∈ Finset.range gs.length, ∑ j ∈ Finset.range (m + 1), ((2 + j : ℕ) : ℚ) * (gs.map Frac.toRat).getD j 0 := by
  obtain ⟨_, _, h3, h4⟩ := gammaLoop_spec gs 2 Frac.zero Frac.zero hg Frac.zero_wf Frac.zero_wf
  rw [h3, h4, Frac.zero_toRat, wsum_eq_sum, dsum_eq_sum]
  simp

/-- Pybus–Harvey gamma end to end.  If `pybus_harvey_gamma` returns a value then, with `S` the ages of the
bifurcating nodes sorted in descending order and `g_j = S_j − S_{j+1}` (`S_len = 0`) the waiting times between
consecutive speciation events, `n` the number of non-bifurcating nodes (the leaves, on a binary tree):
`T = Σ_{j=0}^{n-2} (j+2) g_j`, the numerator is `(1/(n−2)) Σ_{m<n−2} Σ_{j≤m} (j+2) g_j − T/2`, and the returned value
is `sign(num) · num² · 12(n−2) / T²` (= `γ·|γ|`; the square root stays outside the model).
`_partial`: not proved that `g_j` is the time during which the tree has `j+2` lineages (`num_lineages_at`), nor that
`S`'s node ages are tip distances here (that is `ages_exact_spec`). -/
theorem gamma_eq_def_partial (prec : Option Frac) (t : T) {r : Frac} (h : gamma prec t = .ok r) :
    ∃ (num tt : Frac) (n : Nat),
      (sortDesc (specAges (annot t)).1).Perm (((T.nodes t).filter isBif).map fage) ∧
      Desc (sortDesc (specAges (annot t)).1) ∧
      (∀ j, ((intervals (sortDesc (specAges (annot t)).1)).map Frac.toRat).getD j 0
        = ((sortDesc (specAges (annot t)).1).map Frac.toRat).getD j 0
          - ((sortDesc (specAges (annot t)).1).map Frac.toRat).getD (j + 1) 0) ∧
      n = ((T.nodes t).filter (fun v => !isBif v)).length ∧
      ((intervals (sortDesc (specAges (annot t)).1)).map Frac.toRat).length + 1 = n ∧ 3 ≤ n ∧
      tt.toRat = ∑ j ∈ Finset.range ((intervals (sortDesc (specAges (annot t)).1)).map Frac.toRat).length,
        ((2 + j : ℕ) : ℚ) * ((intervals (sortDesc (specAges (annot t)).1)).map Frac.toRat).getD j 0 ∧
      num.toRat = (∑ m ∈ Finset.range ((intervals (sortDesc (specAges (annot t)).1)).dropLast.map Frac.toRat).length,
          ∑ j ∈ Finset.range (m + 1),
            ((2 + j : ℕ) : ℚ) * ((intervals (sortDesc (specAges (annot t)).1)).dropLast.map Frac.toRat).getD j 0)
          / ((n : ℚ) - 2) - tt.toRat / 2 ∧
      tt.toRat ≠ 0 ∧
      r.toRat = (if num.toRat < 0 then -1 else 1) * (num.toRat ^ 2 * (12 * ((n - 2 : ℕ) : ℚ)) / tt.toRat ^ 2) := by
  unfold gamma at h
  rw [calcNodeAges_nonforce rfl rfl] at h
  by_cases hall : allWithin (Cfg.checking ⟨prec, false, false⟩) t = true
  · rw [if_pos hall] at h
    simp only at h
    cases hg : gammaParts (annot t) with
    | error e => rw [hg] at h; cases h
    | ok parts =>
      obtain ⟨num, tt, n⟩ := parts
      rw [hg] at h
      simp only at h
      obtain ⟨hperm, hcount⟩ := specAges_annot t
      have hwfS : ∀ x ∈ (specAges (annot t)).1, x.WF := by
        intro x hx
        obtain ⟨v, _, rfl⟩ := List.mem_map.mp (hperm.subset hx)
        exact fage_wf v
      obtain ⟨hn, hlen, hn3, htt, hnum⟩ := gammaParts_spec (annot t) hwfS hg
      obtain ⟨wn, wt⟩ := gammaParts_wf (annot t) hg
      obtain ⟨hz, hr⟩ := gammaSignedSq_spec wn wt h
      have hwfSorted : ∀ x ∈ sortDesc (specAges (annot t)).1, x.WF :=
        fun x hx => hwfS x ((sortDesc_perm _).subset hx)
      refine ⟨num, tt, n, (sortDesc_perm _).trans hperm, sortDesc_desc _ hwfS,
        intervals_getD _ hwfSorted, by rw [hn, hcount], hlen, hn3, ?_, ?_, hz, hr⟩
      · rw [htt, wsum_eq_sum]
      · rw [hnum, dsum_eq_sum]
  · rw [if_neg hall] at h
    cases h

/-! ## child-order independence -/

/-- Reordering children anywhere in the tree changes none of: leaf count and Sackin's index (hence N-bar and every
Sackin normalisation), Colless (all normalisations, including the out-of-domain verdict), B1, tree length,
treeness.  `_partial`: the Pybus–Harvey gamma is missing (its ages are child-order independent only on exactly
ultrametric trees; covered by the correspondence/oracle only). -/
theorem stats_perm_invariant_partial {t u : T} (h : Iso t u) :
    (∀ norm, sackin norm t = sackin norm u) ∧ nBar t = nBar u ∧
    (∀ norm, colless norm t = colless norm u) ∧
    (b1 t).toRat = (b1 u).toRat ∧
    (WFT t → WFT u ∧ (C17.length t).toRat = (C17.length u).toRat) ∧
    (WFT t → NoNone t →
      (treeness t = .error .zerodiv ∧ treeness u = .error .zerodiv) ∨
      (∃ r r', treeness t = .ok r ∧ treeness u = .ok r' ∧ r.toRat = r'.toRat)) := by
  have hla : leafAnc 0 t = leafAnc 0 u := congrFun (leafAncStat.invariant h) 0
  have hnl : nLeaves t = nLeaves u := nLeavesStat.invariant h
  have hcol : collessAcc t = collessAcc u := by
    rw [collessAcc_spec, collessAcc_spec, (colless_iso h).1, (colless_iso h).2, hnl]
  have hb1 := b1Stat.invariantL h
  have htr := treenessStat.invariantL h
  simp only [b1Stat, treenessStat, Prod.mk.injEq] at hb1 htr
  refine ⟨fun norm => by simp only [sackin, hla], by simp only [nBar, hla],
    fun norm => by simp only [colless, hcol], ?_, ?_, ?_⟩
  · rw [b1_eq_def, b1_eq_def]; exact hb1.2
  · intro hw
    have hwe : WFT t = WFT u := wftStat.invariant h
    have hwu : WFT u := by rw [← hwe]; exact hw
    exact ⟨hwu, by rw [(length_spec t hw).2, (length_spec u hwu).2]; exact lengthStat.invariant h⟩
  · intro hw hn
    have hwe : WFT t = WFT u := wftStat.invariant h
    have hwu : WFT u := by rw [← hwe]; exact hw
    have hnu : NoNone u := by
      have hL : NoNoneL t.cs = NoNoneL u.cs := noNoneStat.invariantL h
      cases t; cases u
      simp only [NoNone, T.cs] at hn hL ⊢
      rw [← hL]; exact hn
    obtain ⟨t0, t1⟩ := treeness_eq_def t hw hn
    obtain ⟨u0, u1⟩ := treeness_eq_def u hwu hnu
    by_cases hz : extLenL t.cs + intLenL t.cs = 0
    · exact Or.inl ⟨t0 hz, u0 (by rw [← htr.1, ← htr.2]; exact hz)⟩
    · obtain ⟨r, hr, hrq⟩ := t1 hz
      obtain ⟨r', hr', hrq'⟩ := u1 (by rw [← htr.1, ← htr.2]; exact hz)
      exact Or.inr ⟨r, r', hr, hr', by rw [hrq, hrq', htr.1, htr.2]⟩

/-! ## non-vacuity: the hypotheses above are satisfiable -/

/-- `((A:1,B:1):1,C:2)` -/
def exTree : T :=
  .node 0 none none none
    [.node 1 none (some ⟨1, 1⟩) none [.node 2 (some 0) (some ⟨1, 1⟩) none [], .node 3 (some 1) (some ⟨1, 1⟩) none []],
     .node 4 (some 2) (some ⟨2, 1⟩) none []]

example : WFT exTree ∧ NoNone exTree ∧ Pos exTree ∧ NonNeg exTree ∧ Within 0 exTree ∧ MinOK (some Frac.zero) ∧
    (⟨some Frac.zero, false, false⟩ : Cfg).checking = some Frac.zero := by
  refine ⟨by simp [exTree, WFT, WFTL, olen, Frac.WF, Frac.zero], ?_, ?_, ?_, ?_, ?_, by decide⟩
  · simp [exTree, NoNone, NoNoneL, T.len]
  · simp [exTree, Pos, PosL, T.len, Frac.WF, Frac.toRat]
  · simp [exTree, NonNeg, NonNegL, T.len, qlen, olen, Frac.toRat]
  · intro d hd d' hd'
    simp [exTree, tipDists, tipDistsL, T.len, qlen, olen, Frac.toRat] at hd hd'
    rcases hd with rfl | rfl | rfl <;> rcases hd' with rfl | rfl | rfl <;> norm_num
  · intro m hm; cases hm; exact ⟨Frac.zero_wf, by simp [Frac.zero_toRat]⟩

/-- a child-shuffled copy -/
example : Iso exTree (.node 0 none none none
    [.node 4 (some 2) (some ⟨2, 1⟩) none [],
     .node 1 none (some ⟨1, 1⟩) none [.node 2 (some 0) (some ⟨1, 1⟩) none [], .node 3 (some 1) (some ⟨1, 1⟩) none []]]) :=
  Iso.swap 0 none none none [] _ _ []

/-- accumulated drift: `((A:1,B:2):1,C:1)` at precision 1 is accepted although its root-to-tip paths (2, 3, 1) differ
by 2 — `accepted_bound` allows `height · p = 2` (known finding `ultrametricity-drift-accumulates`) -/
example : ∃ a, calcNodeAges ⟨some Frac.one, false, false⟩
    (.node 0 none none none
      [.node 1 none (some ⟨1, 1⟩) none [.node 2 (some 0) (some ⟨1, 1⟩) none [], .node 3 (some 1) (some ⟨2, 1⟩) none []],
       .node 4 (some 2) (some ⟨1, 1⟩) none []]) = .ok a := ⟨_, rfl⟩

/-- `gamma` really returns a value: `((A:1,B:1):1,C:2)` gives γ·|γ| = −3/25 at precision 0 -/
example : gamma (some Frac.zero) exTree = .ok ⟨-3, 25⟩ := by rfl

/-- rejection really happens: `(A:1,B:3)` at precision 1 -/
example : calcNodeAges ⟨some Frac.one, false, false⟩
    (.node 0 none none none [.node 1 (some 0) (some ⟨1, 1⟩) none [], .node 2 (some 1) (some ⟨3, 1⟩) none []])
    = .error .ultra := by rfl

end DendroModel.C17
