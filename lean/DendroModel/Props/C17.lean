import DendroModel.Model.C17
import DendroModel.Theory.C17Perm
/-! C17 — property theorems about the definitions that `drv_c17` executes (`Model/C17.lean`).
Numbers are read in ℚ through `Frac.toRat`; `WFT t` says every edge length of `t` is a fraction with non-zero
denominator (all values arriving over the protocol are).  Specification vocabulary (`Theory/C17*.lean`):
`tipDists v` distances from `v` to each descendant tip (`None` length = 0), `Within ε t` all root-to-tip path
lengths agree within `ε`, `fage v` the age `calc_node_ages` assigns without forcing, `annot t` the tree with
`fage` written at every node, `LocalOK ε t` every node's other children agree with its first child within `ε`,
`Iso t u` equality up to the order of children anywhere.

* `ages_spec`, `ages_exact_spec`, `age_is_tip_distance`, `reject_spec`, `reject_only_beyond_precision`,
  `check_disabled_spec`, `force_max_spec`, `force_min_spec`, `force_both_spec` — clause (a)/(b) for ages
* `lengths_from_ages_roundtrip`, `lineages_spec`, `leaf_depths_spec` — clause (a)
* `length_eq_def`, `sackin_eq_def`, `nbar_eq_def`, `colless_eq_def`, `b1_eq_def`, `treeness_eq_def`, `gamma_eq_def` — clause (c)
* `stats_perm_invariant_partial` — child-order independence of all statistics except gamma (tested only). -/
namespace DendroModel.C17.Aux
open DendroModel DendroModel.C17

theorem checking_some {cfg : Cfg} {p : Frac} (h : cfg.checking = some p) :
    cfg.forceMax = false ∧ cfg.forceMin = false := by
  unfold Cfg.checking at h
  cases h1 : cfg.forceMax <;> cases h2 : cfg.forceMin <;> simp [h1, h2] at h ⊢

theorem calcNodeAges_nonforce {cfg : Cfg} (h1 : cfg.forceMax = false) (h2 : cfg.forceMin = false) (t : T) :
    calcNodeAges cfg t = if allWithin cfg.checking t then .ok (annot t) else .error .ultra := by
  simp [calcNodeAges, h1, calcAges_nonforce cfg h1 h2 t]

mutual
theorem annot_ages : ∀ t : T, (annot t).ages = (T.nodes t).map (fun v => (v.id, fage v))
  | .node i x l s cs => by simp [annot, AT.ages, T.nodes, annotL_ages cs, T.id]
theorem annotL_ages : ∀ cs : List T, AT.agesL (annotL cs) = (T.nodesL cs).map (fun v => (v.id, fage v))
  | [] => by simp [annotL, AT.agesL, T.nodesL]
  | c :: cs => by simp [annotL, AT.agesL, T.nodesL, annot_ages c, annotL_ages cs]
end

mutual
theorem annotP_ages (pick) : ∀ t : T, (annotP pick t).ages = (T.nodes t).map (fun v => (v.id, page pick v))
  | .node i x l s cs => by simp [annotP, AT.ages, T.nodes, annotPL_ages pick cs, T.id]
theorem annotPL_ages (pick) : ∀ cs : List T, AT.agesL (annotPL pick cs) = (T.nodesL cs).map (fun v => (v.id, page pick v))
  | [] => by simp [annotPL, AT.agesL, T.nodesL]
  | c :: cs => by simp [annotPL, AT.agesL, T.nodesL, annotP_ages pick c, annotPL_ages pick cs]
end

mutual
theorem nodes_inherit {ε : ℚ} : ∀ t : T, WFT t → Within ε t → ∀ v ∈ T.nodes t, WFT v ∧ Within ε v
  | .node i x l s cs, hw, hε, v, hv => by
    rw [nodes_node] at hv
    rcases List.mem_cons.mp hv with rfl | hv'
    · exact ⟨hw, hε⟩
    · exact nodesL_inherit cs hw.2 (fun k hk => Within_child hε hk) v hv'
theorem nodesL_inherit {ε : ℚ} : ∀ cs : List T, WFTL cs → (∀ k ∈ cs, Within ε k) → ∀ v ∈ T.nodesL cs, WFT v ∧ Within ε v
  | [], _, _, v, hv => by simp [T.nodesL] at hv
  | c :: cs, hw, hε, v, hv => by
    simp only [T.nodesL, List.mem_append] at hv
    rcases hv with hv | hv
    · exact nodes_inherit c hw.1 (hε c List.mem_cons_self) v hv
    · exact nodesL_inherit cs hw.2 (fun k hk => hε k (List.mem_cons_of_mem _ hk)) v hv
end

mutual
theorem nodes_wft : ∀ t : T, WFT t → ∀ v ∈ T.nodes t, WFT v
  | .node i x l s cs, hw, v, hv => by
    rw [nodes_node] at hv
    rcases List.mem_cons.mp hv with rfl | hv'
    · exact hw
    · exact nodesL_wft cs hw.2 v hv'
theorem nodesL_wft : ∀ cs : List T, WFTL cs → ∀ v ∈ T.nodesL cs, WFT v
  | [], _, v, hv => by simp [T.nodesL] at hv
  | c :: cs, hw, v, hv => by
    simp only [T.nodesL, List.mem_append] at hv
    rcases hv with hv | hv
    · exact nodes_wft c hw.1 v hv
    · exact nodesL_wft cs hw.2 v hv
end

mutual
theorem depths_spec : ∀ (t : T) (d : Frac), d.WF → WFT t → NoNone t →
    ∃ r, depths d t = .ok r ∧ (r.filter (·.2.1)).map (fun p => p.2.2.toRat) = (tipDists t).map (· + d.toRat)
  | .node i x l s [], d, _, _, _ => ⟨[(i, true, d)], by simp [depths, depthsL], by simp [tipDists]⟩
  | .node i x l s (c :: cs), d, hd, hw, hn => by
    obtain ⟨r, hr, hl⟩ := depthsL_spec (c :: cs) d hd hw.2 hn
    exact ⟨(i, false, d) :: r, by simp [depths, hr], by simpa [tipDists] using hl⟩
theorem depthsL_spec : ∀ (cs : List T) (d : Frac), d.WF → WFTL cs → NoNoneL cs →
    ∃ r, depthsL d cs = .ok r ∧ (r.filter (·.2.1)).map (fun p => p.2.2.toRat) = (tipDistsL cs).map (· + d.toRat)
  | [], d, _, _, _ => ⟨[], by simp [depthsL], by simp [tipDistsL]⟩
  | c :: cs, d, hd, hw, hn => by
    obtain ⟨⟨l, hl⟩, hnc, hncs⟩ := hn
    have hlw : l.WF := by have := WFT_len hw.1; rw [hl] at this; exact this
    obtain ⟨r1, hr1, h1⟩ := depths_spec c (l + d) (Frac.add_wf _ _) hw.1 hnc
    obtain ⟨r2, hr2, h2⟩ := depthsL_spec cs d hd hw.2 hncs
    refine ⟨r1 ++ r2, by simp [depthsL, hl, hr1, hr2], ?_⟩
    rw [List.filter_append, List.map_append, h1, h2, Frac.add_toRat hlw hd]
    simp only [tipDistsL, List.map_append, List.map_map, qlen, hl, olen]
    congr 1
    apply List.map_congr_left
    intro a _; simp only [Function.comp]; ring
end

end DendroModel.C17.Aux

namespace DendroModel.C17
open DendroModel DendroModel.C17.Aux

/-! ## clause (a)/(b): ages and the ultrametricity check -/

/-- Acceptance within the precision: if all root-to-tip path lengths agree within the precision `p` in force
(no forcing option), `calc_node_ages` succeeds, and every node's age differs from its distance to *each* of its
descendant tips by at most `p`. -/
theorem ages_spec {cfg : Cfg} {p : Frac} (t : T) (hw : WFT t) (hp : p.WF) (hc : cfg.checking = some p)
    (hu : Within p.toRat t) :
    calcNodeAges cfg t = .ok (annot t) ∧
    (annot t).ages = (T.nodes t).map (fun v => (v.id, fage v)) ∧
    ∀ v ∈ T.nodes t, ∀ d ∈ tipDists v, |(fage v).toRat - d| ≤ p.toRat := by
  obtain ⟨h1, h2⟩ := checking_some hc
  have hloc : allWithin (some p) t = true := (allWithin_iff hp t hw).mpr (LocalOK_of_Within t hu)
  refine ⟨by rw [calcNodeAges_nonforce h1 h2, hc, hloc]; rfl, annot_ages t, ?_⟩
  intro v hv d hd
  obtain ⟨hwv, huv⟩ := nodes_inherit t hw hu v hv
  rw [fage_toRat v hwv]
  exact huv _ (fageQ_mem v) _ hd

/-- On an exactly ultrametric tree every node's age *equals* its distance to every descendant tip, whatever
non-negative precision is in force. -/
theorem ages_exact_spec {cfg : Cfg} {p : Frac} (t : T) (hw : WFT t) (hp : p.WF) (hc : cfg.checking = some p)
    (hp0 : 0 ≤ p.toRat) (hu : Within 0 t) :
    calcNodeAges cfg t = .ok (annot t) ∧ ∀ v ∈ T.nodes t, ∀ d ∈ tipDists v, (fage v).toRat = d := by
  have hu' : Within p.toRat t := fun d hd d' hd' => le_trans (hu d hd d' hd') hp0
  refine ⟨(ages_spec t hw hp hc hu').1, ?_⟩
  intro v hv d hd
  obtain ⟨hwv, huv⟩ := nodes_inherit t hw hu v hv
  rw [fage_toRat v hwv]
  have := huv _ (fageQ_mem v) _ hd
  have h0 := abs_nonpos_iff.mp this
  linarith

/-- Whenever ages are assigned without forcing, a node's age is the length of an actual path to one of its
descendant tips (the first-child chain). -/
theorem age_is_tip_distance (v : T) (hw : WFT v) : (fage v).toRat ∈ tipDists v := by
  rw [fage_toRat v hw]; exact fageQ_mem v

/-- Acceptance and rejection on both sides of every precision: with the check in force the run is rejected with
an ultrametricity error iff at some node some other child's (age + length) differs from the first child's by
more than `p`, and otherwise succeeds with the first-child-chain ages. -/
theorem reject_spec {cfg : Cfg} {p : Frac} (t : T) (hw : WFT t) (hp : p.WF) (hc : cfg.checking = some p) :
    (calcNodeAges cfg t = .error .ultra ↔ ¬ LocalOK p.toRat t) ∧
    (calcNodeAges cfg t = .ok (annot t) ↔ LocalOK p.toRat t) := by
  obtain ⟨h1, h2⟩ := checking_some hc
  rw [calcNodeAges_nonforce h1 h2, hc, ← allWithin_iff hp t hw]
  by_cases h : allWithin (some p) t = true <;> simp [h]

/-- A tree is rejected only if its root-to-tip paths really differ by more than the precision. -/
theorem reject_only_beyond_precision {cfg : Cfg} {p : Frac} (t : T) (hw : WFT t) (hp : p.WF)
    (hc : cfg.checking = some p) (hr : calcNodeAges cfg t = .error .ultra) : ¬ Within p.toRat t := by
  intro hu
  rw [(ages_spec t hw hp hc hu).1] at hr
  cases hr

/-- With the check disabled (`None`, `False`, negative precision) and no forcing, no tree is rejected. -/
theorem check_disabled_spec {cfg : Cfg} (t : T) (h1 : cfg.forceMax = false) (h2 : cfg.forceMin = false)
    (hc : cfg.checking = none) : calcNodeAges cfg t = .ok (annot t) := by
  rw [calcNodeAges_nonforce h1 h2, hc, allWithin_none]; rfl

/-- `is_force_max_age`: every node's age is the largest distance to a descendant tip. -/
theorem force_max_spec (prec : Option Frac) (t : T) (hw : WFT t) (hn : NoNone t) :
    calcNodeAges ⟨prec, true, false⟩ t = .ok (annotP maxList t) ∧
    (annotP maxList t).ages = (T.nodes t).map (fun v => (v.id, page maxList v)) ∧
    ∀ v ∈ T.nodes t, (page maxList v).toRat ∈ tipDists v ∧ ∀ d ∈ tipDists v, d ≤ (page maxList v).toRat := by
  have hf : Forcing ⟨prec, true, false⟩ maxList := Or.inl ⟨rfl, rfl⟩
  refine ⟨by simp [calcNodeAges, calcAges_forcing hf t hn], annotP_ages maxList t, ?_⟩
  intro v hv
  exact page_spec picks_max v (nodes_wft t hw v hv)

/-- `is_force_min_age`: every node's age is the smallest distance to a descendant tip. -/
theorem force_min_spec (prec : Option Frac) (t : T) (hw : WFT t) (hn : NoNone t) :
    calcNodeAges ⟨prec, false, true⟩ t = .ok (annotP minList t) ∧
    (annotP minList t).ages = (T.nodes t).map (fun v => (v.id, page minList v)) ∧
    ∀ v ∈ T.nodes t, (page minList v).toRat ∈ tipDists v ∧ ∀ d ∈ tipDists v, (page minList v).toRat ≤ d := by
  have hf : Forcing ⟨prec, false, true⟩ minList := Or.inr ⟨rfl, rfl, rfl⟩
  refine ⟨by simp [calcNodeAges, calcAges_forcing hf t hn], annotP_ages minList t, ?_⟩
  intro v hv
  exact page_spec picks_min v (nodes_wft t hw v hv)

/-- The defaults found in the current source (`constants.DEFAULT_ULTRAMETRICITY_PRECISION`, `prec` of
`pybus_harvey_gamma`; regenerated on every run) are well-formed and non-negative, i.e. they do enable the check. -/
theorem default_precision_enables_check :
    defaultPrec.WF ∧ (⟨some defaultPrec, false, false⟩ : Cfg).checking = some defaultPrec ∧
    gammaDefaultPrec.WF ∧ (⟨some gammaDefaultPrec, false, false⟩ : Cfg).checking = some gammaDefaultPrec := by
  refine ⟨Frac.mk'_wf _ _, ?_, Frac.mk'_wf _ _, ?_⟩ <;> decide

/-- both forcing options at once are refused -/
theorem force_both_spec (prec : Option Frac) (t : T) : calcNodeAges ⟨prec, true, true⟩ t = .error .value := by
  simp [calcNodeAges]

/-- Setting edge lengths from the ages computed on an exactly ultrametric tree with non-negative lengths (minimum
length `None` or ≤ 0, either error flag) restores every edge length (`None` read as 0); ids and order are kept. -/
theorem lengths_from_ages_roundtrip {cfg : Cfg} {p : Frac} (minLen : Option Frac) (errNeg : Bool) (t : T)
    (hw : WFT t) (hp : p.WF) (hc : cfg.checking = some p) (hp0 : 0 ≤ p.toRat) (hu : Within 0 t)
    (hnn : NonNeg t) (hm : MinOK minLen) :
    ∃ a a', calcNodeAges cfg t = .ok a ∧ setLens minLen errNeg a = .ok a' ∧ atLens a' = tLens t := by
  refine ⟨annot t, ?_⟩
  have hcalc := (ages_exact_spec t hw hp hc hp0 hu).1
  have hloc : LocalOK 0 t := LocalOK_of_Within t hu
  match t, hw, hloc, hnn, hcalc with
  | .node i x l s cs, hw, hloc, hnn, hcalc =>
    have hlocL : LocalOKL 0 cs := by
      match cs, hloc with
      | [], _ => simp [LocalOKL]
      | c :: cs', hl => exact hl.1
    have hpar : ∀ k ∈ cs, (fage (.node i x l s cs)).toRat = fageQ k + qlen k.len := by
      intro k hk
      rw [fage_toRat _ hw]
      match cs, hk, hloc with
      | c :: cs', hk, hl => exact LocalOK_zero_children hl k hk
    obtain ⟨r, hr, hl⟩ := setLensL_exact hm errNeg cs (fage (.node i x l s cs)) (fage_wf _) hw.2 hlocL hnn hpar
    refine ⟨.node i (fage (.node i x l s cs)) l r, hcalc, ?_, ?_⟩
    · simp only [annot, setLens, hr]
    · simp only [atLens, tLens, hl]

/-- The number of lineages at distance `d` from the root is the number of edges whose tail is closer than `d`
and whose head is at `d` or beyond (all edges below the root of positive length). -/
theorem lineages_spec (d : Frac) (hd : d.WF) (t : T) (hpos : Pos t) :
    numLineagesAt d t = .ok ((edgesL 0 t.cs).countP (fun e => decide (e.1 < d.toRat ∧ d.toRat ≤ e.2))) := by
  cases t with
  | node i x l s cs =>
    have := lineagesL_spec hd cs Frac.zero Frac.zero_wf hpos
    simpa [numLineagesAt, T.cs, Frac.zero_toRat] using this

/-- Root distances: the distance accumulated from the root downwards (`resolve_node_depths`,
`calc_node_root_distances`) arrives at every leaf with the length of the root-to-tip path computed from the tips
upwards, leaves in left-to-right order (no `None` length below the root). -/
theorem leaf_depths_spec (t : T) (hw : WFT t) (hn : NoNone t) :
    ∃ r, rootDepths t = .ok r ∧ (r.filter (·.2.1)).map (fun p => p.2.2.toRat) = tipDists t := by
  obtain ⟨r, hr, hl⟩ := depths_spec t Frac.zero Frac.zero_wf hw hn
  exact ⟨r, hr, by simpa [Frac.zero_toRat] using hl⟩

/-! ## clause (c): statistics equal their definitions -/

/-- `Tree.length` is the sum over all nodes of the edge length (`None` = 0). -/
theorem length_eq_def (t : T) (hw : WFT t) :
    (C17.length t).toRat = ((T.nodes t).map (fun v => qlen v.len)).sum := (length_spec t hw).2

/-- The leaf loop of `sackin_index`/`N_bar` (count the ancestors of every leaf) yields the number of leaves and
Sackin's index in its other textbook form: the sum over internal nodes of the number of leaves below. -/
theorem sackin_eq_def (t : T) : leafAnc 0 t = (nLeaves t, sackinDef t) := by
  simpa using leafAnc_spec t 0

/-- N-bar is Sackin's index divided by the number of leaves, and `sackin_index` offers: raw, per leaf, Yule
(`(S − 2n Σ_{j=2}^{n} 1/j)/n`) and (squared) PDA (`S²/n³`). -/
theorem nbar_eq_def (t : T) :
    nBar t = fdiv (Frac.ofNat (sackinDef t)) (Frac.ofNat (nLeaves t)) ∧
    sackin .none t = .ok (Frac.ofNat (sackinDef t)) ∧
    sackin .mean t = nBar t ∧
    sackin .yule t = fdiv (Frac.ofNat (sackinDef t) - Frac.ofNat (2 * nLeaves t) * harmonicFrom2 (nLeaves t))
      (Frac.ofNat (nLeaves t)) ∧
    sackin .pdaSq t = fdiv (Frac.ofNat (sackinDef t * sackinDef t)) (Frac.ofNat (nLeaves t * nLeaves t * nLeaves t)) := by
  simp [nBar, sackin, sackin_eq_def]

/-- the harmonic part of the Yule normalisation: `Σ_{j=2}^{n} 1/j` -/
theorem harmonic_eq_def : ∀ n : Nat, (harmonicFrom2 n).WF ∧
    (harmonicFrom2 n).toRat = ∑ j ∈ Finset.Icc 2 n, (1 : ℚ) / j
  | 0 => by simp [harmonicFrom2, Frac.zero_wf, Frac.zero_toRat]
  | 1 => by simp [harmonicFrom2, Frac.zero_wf, Frac.zero_toRat]
  | n + 2 => by
    obtain ⟨h1, h2⟩ := harmonic_eq_def (n + 1)
    refine ⟨Frac.add_wf _ _, ?_⟩
    have hs : ∑ j ∈ Finset.Icc 2 (n + 1 + 1), (1 : ℚ) / j
        = ∑ j ∈ Finset.Icc 2 (n + 1), (1 : ℚ) / j + 1 / ((n + 1 + 1 : ℕ) : ℚ) :=
      Finset.sum_Icc_succ_top (by omega) _
    rw [harmonicFrom2, Frac.add_toRat h1 (Frac.mk'_wf _ _), Frac.mk'_toRat _ (by omega), h2, hs]
    · simp
    · omega

/-- Colless: the post-order accumulation succeeds exactly on strictly bifurcating trees and then yields the leaf
count and `Σ_{internal v} |leaves(right) − leaves(left)|`; the `max` normalisation is `2 I / ((n−1)(n−2))`. -/
theorem colless_eq_def (t : T) :
    collessAcc t = (if binary t then .ok (nLeaves t, collessDef t) else .error .nonbinary) ∧
    (binary t = true → colless .none t = .ok (Frac.ofNat (collessDef t))) ∧
    (binary t = true → 3 ≤ nLeaves t →
      ∃ r, colless .max t = .ok r ∧ r.toRat = 2 * (collessDef t : ℚ) / (((nLeaves t : ℚ) - 1) * ((nLeaves t : ℚ) - 2))) := by
  refine ⟨collessAcc_spec t, ?_, ?_⟩
  · intro hb; simp [colless, collessAcc_spec t, hb]
  · intro hb hn
    have hden : ((nLeaves t : Int) * ((nLeaves t : Int) - 3) + 2) ≠ 0 := by nlinarith
    refine ⟨_, by simp [colless, collessAcc_spec t, hb, hden]; rfl, ?_⟩
    rw [Frac.mul_toRat (Frac.ofNat_wf _) (Frac.div_wf _ _), Frac.div_toRat (Frac.ofInt_wf _) (Frac.ofInt_wf _),
      Frac.ofNat_toRat, Frac.ofInt_toRat, Frac.ofInt_toRat]
    have h1 : ((nLeaves t : ℚ) - 1) ≠ 0 := by
      have : (3 : ℚ) ≤ (nLeaves t : ℚ) := by exact_mod_cast hn
      intro h; linarith
    have h2 : ((nLeaves t : ℚ) - 2) ≠ 0 := by
      have : (3 : ℚ) ≤ (nLeaves t : ℚ) := by exact_mod_cast hn
      intro h; linarith
    have h3 : (((nLeaves t : Int) * ((nLeaves t : Int) - 3) + 2 : Int) : ℚ) = ((nLeaves t : ℚ) - 1) * ((nLeaves t : ℚ) - 2) := by
      push_cast; ring
    rw [h3]; push_cast; field_simp

/-- B1 is the sum over the internal nodes other than the root of 1 / (number of edges to the farthest tip below). -/
theorem b1_eq_def (t : T) :
    (b1 t).toRat = (((T.nodesL t.cs).filter (fun v => !v.isLeaf)).map (fun v => (1 : ℚ) / (height v : ℚ))).sum :=
  (b1AccL_spec t.cs).2.2

/-- Treeness is the summed length of internal edges over the summed length of all edges below the root. -/
theorem treeness_eq_def (t : T) (hw : WFT t) (hn : NoNone t) :
    (extLenL t.cs + intLenL t.cs = 0 → treeness t = .error .zerodiv) ∧
    (extLenL t.cs + intLenL t.cs ≠ 0 →
      ∃ r, treeness t = .ok r ∧ r.toRat = intLenL t.cs / (extLenL t.cs + intLenL t.cs)) := by
  cases t with
  | node n x l s cs =>
    simp only [T.cs]
    obtain ⟨i, e, h, hi, he, hiq, heq⟩ := treenessAccL_spec cs hw.2 hn
    have hsum : (e + i).toRat = extLenL cs + intLenL cs := by rw [Frac.add_toRat he hi, hiq, heq]
    have hz := Frac.isZero_iff (Frac.add_wf e i)
    constructor
    · intro h0
      have : (e + i).isZero = true := hz.mpr (by rw [hsum]; exact h0)
      simp [treeness, T.cs, h, fdiv, this]
    · intro h0
      have : (e + i).isZero = false := by
        cases hb : (e + i).isZero with
        | false => rfl
        | true => exact absurd (by rw [← hsum]; exact hz.mp hb) h0
      refine ⟨Frac.div i (e + i), by simp [treeness, T.cs, h, fdiv, this], ?_⟩
      rw [Frac.div_toRat hi (Frac.add_wf _ _), hsum, hiq]

/-- Pybus–Harvey gamma: the loop with its two accumulators computes `T' = Σ_{k} (k+2) g_k` and the double sum
`Σ_{i} Σ_{k ≤ i} (k+2) g_k` over the intervals handed to it (indices from 0 here, i.e. `g_k` of the paper is
`gs[k-2]`). -/
theorem gamma_eq_def (gs : List Frac) (hg : ∀ g ∈ gs, g.WF) :
    (gammaLoop 2 gs Frac.zero Frac.zero).1.toRat
      = ∑ j ∈ Finset.range gs.length, ((2 + j : ℕ) : ℚ) * (gs.map Frac.toRat).getD j 0 ∧
    (gammaLoop 2 gs Frac.zero Frac.zero).2.toRat
      = ∑ m ∈ Finset.range gs.length, ∑ j ∈ Finset.range (m + 1), ((2 + j : ℕ) : ℚ) * (gs.map Frac.toRat).getD j 0 := by
  obtain ⟨_, _, h3, h4⟩ := gammaLoop_spec gs 2 Frac.zero Frac.zero hg Frac.zero_wf Frac.zero_wf
  rw [h3, h4, Frac.zero_toRat, wsum_eq_sum, dsum_eq_sum]
  simp

/-! ## child-order independence -/

/-- Reordering children anywhere in the tree changes none of: leaf count and Sackin's index (hence N-bar and every
Sackin normalisation), Colless (all normalisations, including the out-of-domain verdict), B1, tree length,
treeness.  `_partial`: the Pybus–Harvey gamma is missing (its ages are child-order independent only on exactly
ultrametric trees; covered by the correspondence/oracle only). -/
theorem stats_perm_invariant_partial {t u : T} (h : Iso t u) :
    (∀ norm, sackin norm t = sackin norm u) ∧ nBar t = nBar u ∧
    (∀ norm, colless norm t = colless norm u) ∧
    (b1 t).toRat = (b1 u).toRat ∧
    (WFT t → WFT u ∧ (C17.length t).toRat = (C17.length u).toRat) ∧
    (intLenL t.cs / (extLenL t.cs + intLenL t.cs) = intLenL u.cs / (extLenL u.cs + intLenL u.cs)) := by
  have hla : leafAnc 0 t = leafAnc 0 u := congrFun (leafAncStat.invariant h) 0
  have hnl : nLeaves t = nLeaves u := nLeavesStat.invariant h
  have hcol : collessAcc t = collessAcc u := by
    rw [collessAcc_spec, collessAcc_spec, (colless_iso h).1, (colless_iso h).2, hnl]
  have hb1 := b1Stat.invariantL h
  have htr := treenessStat.invariantL h
  simp only [b1Stat, treenessStat, Prod.mk.injEq] at hb1 htr
  refine ⟨fun norm => by simp only [sackin, hla], by simp only [nBar, hla],
    fun norm => by simp only [colless, hcol], ?_, ?_, ?_⟩
  · rw [b1_eq_def, b1_eq_def]; exact hb1.2
  · intro hw
    have hwe : WFT t = WFT u := wftStat.invariant h
    have hwu : WFT u := by rw [← hwe]; exact hw
    exact ⟨hwu, by rw [(length_spec t hw).2, (length_spec u hwu).2]; exact lengthStat.invariant h⟩
  · rw [htr.1, htr.2]

/-! ## non-vacuity: the hypotheses above are satisfiable -/

/-- `((A:1,B:1):1,C:2)` -/
def exTree : T :=
  .node 0 none none none
    [.node 1 none (some ⟨1, 1⟩) none [.node 2 (some 0) (some ⟨1, 1⟩) none [], .node 3 (some 1) (some ⟨1, 1⟩) none []],
     .node 4 (some 2) (some ⟨2, 1⟩) none []]

example : WFT exTree ∧ NoNone exTree ∧ Pos exTree ∧ NonNeg exTree ∧ Within 0 exTree ∧ MinOK (some Frac.zero) ∧
    (⟨some Frac.zero, false, false⟩ : Cfg).checking = some Frac.zero := by
  refine ⟨by simp [exTree, WFT, WFTL, olen, Frac.WF, Frac.zero], ?_, ?_, ?_, ?_, ?_, by decide⟩
  · simp [exTree, NoNone, NoNoneL, T.len]
  · simp [exTree, Pos, PosL, T.len, Frac.WF, Frac.toRat]
  · simp [exTree, NonNeg, NonNegL, T.len, qlen, olen, Frac.toRat]
  · intro d hd d' hd'
    simp [exTree, tipDists, tipDistsL, T.len, qlen, olen, Frac.toRat] at hd hd'
    rcases hd with rfl | rfl | rfl <;> rcases hd' with rfl | rfl | rfl <;> norm_num
  · intro m hm; cases hm; exact ⟨Frac.zero_wf, by simp [Frac.zero_toRat]⟩

/-- a child-shuffled copy -/
example : Iso exTree (.node 0 none none none
    [.node 4 (some 2) (some ⟨2, 1⟩) none [],
     .node 1 none (some ⟨1, 1⟩) none [.node 2 (some 0) (some ⟨1, 1⟩) none [], .node 3 (some 1) (some ⟨1, 1⟩) none []]]) :=
  Iso.swap 0 none none none [] _ _ []

/-- rejection really happens: `(A:1,B:3)` at precision 1 -/
example : calcNodeAges ⟨some Frac.one, false, false⟩
    (.node 0 none none none [.node 1 (some 0) (some ⟨1, 1⟩) none [], .node 2 (some 1) (some ⟨3, 1⟩) none []])
    = .error .ultra := by rfl

end DendroModel.C17
