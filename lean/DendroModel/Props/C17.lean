import DendroModel.Model.C17
import DendroModel.Theory.C17Perm
import DendroModel.Theory.C17Ext
import DendroModel.Theory.C17Gamma
import DendroModel.Theory.C17Final
import DendroModel.Theory.C17Lists
import DendroModel.Gen.C17Kernels
/-! C17 — property theorems about the definitions that `drv_c17` executes (`Model/C17.lean`).
Numbers are read in ℚ through `Frac.toRat`; `WFT t` says every edge length of `t` is a fraction with non-zero
denominator (all values arriving over the protocol are).  Specification vocabulary (`Theory/C17*.lean`):
`tipDists v` distances from `v` to each descendant tip (`None` length = 0), `Within ε t` all root-to-tip path
lengths agree within `ε`, `fage v` the age `calc_node_ages` assigns without forcing, `annot t` the tree with
`fage` written at every node, `LocalOK ε t` every node's other children agree with its first child within `ε`,
`Iso t u` equality up to the order of children anywhere.

* `ages_spec`, `ages_exact_spec`, `age_is_tip_distance`, `reject_iff_local`, `accepted_bound`, `reject_beyond_bound`,
  `reject_only_beyond_precision`,
  `check_disabled_spec`, `force_max_spec`, `force_min_spec`, `force_both_spec` — clause (a)/(b) for ages
* `lengths_from_ages_roundtrip_partial` (exact), `lengths_from_ages_within`, `lengths_from_ages_roundtrip`, `lineages_spec_all`, `lineages_spec`, `leaf_depths_spec`, `node_depths_spec`, `minmax_spec`, `resolve_ages_spec`,
  `returned_list_spec`, `set_lengths_spec`, `with_ages_wellformed`, `lineages_between_speciations`,
  `lineages_between_speciations_all` — clause (a)
* `length_eq_def`, `sackin_eq_def`, `nbar_eq_def`, `colless_eq_def`, `b1_eq_def`, `treeness_eq_def`, `gamma_loop_eq_sums`,
  `colless_yule_rational`, `pda_yule_norms_spec`, `gamma_eq_def_partial`, `gamma_succeeds`, `gamma_eq_def` (with `lineages_between_speciations`) — clause (c)
* `stats_perm_invariant_partial` (all but gamma), `gamma_perm_invariant`, `stats_perm_invariant` — child-order independence.
* tie A (`Gen/C17Kernels.lean`, regenerated from treemeasure.py / _tree.py on every run): `bridge_b1`, `bridge_colless_loop`,
  `bridge_colless_norms`, `bridge_norm_tables`, `bridge_euler`, `bridge_sackin`, `bridge_treeness`, `bridge_gamma_loop`,
  `bridge_gamma_ret`, `bridge_setlen`, `bridge_ultra`, `bridge_lineages_depths` — the regenerated kernels equal the model's.
* list forms and `Node` methods: `node_ages_sorted_spec`, `node_ages_sorted_any` (any configuration, forcing included), `coal_intervals_spec`, `root_distance_list_spec`,
  `distance_from_tip_spec`, `distance_from_root_spec`. -/
namespace DendroModel.C17.Aux
open DendroModel DendroModel.C17

theorem checking_some {cfg : Cfg} {p : Frac} (h : cfg.checking = some p) :
    cfg.forceMax = false ∧ cfg.forceMin = false := by
  unfold Cfg.checking at h
  cases h1 : cfg.forceMax <;> cases h2 : cfg.forceMin <;> simp [h1, h2] at h ⊢

theorem calcNodeAges_nonforce {cfg : Cfg} (h1 : cfg.forceMax = false) (h2 : cfg.forceMin = false) (t : T) :
    calcNodeAges cfg t = if allWithin cfg.checking t then .ok (annot t) else .error .ultra := by
  simp [calcNodeAges, h1, calcAges_nonforce cfg h1 h2 t]

mutual
theorem annot_ages : ∀ t : T, (annot t).ages = (T.nodes t).map (fun v => (v.id, fage v))
  | .node i x l s cs => by simp [annot, AT.ages, T.nodes, annotL_ages cs, T.id]
theorem annotL_ages : ∀ cs : List T, AT.agesL (annotL cs) = (T.nodesL cs).map (fun v => (v.id, fage v))
  | [] => by simp [annotL, AT.agesL, T.nodesL]
  | c :: cs => by simp [annotL, AT.agesL, T.nodesL, annot_ages c, annotL_ages cs]
end

mutual
theorem annotP_ages (pick) : ∀ t : T, (annotP pick t).ages = (T.nodes t).map (fun v => (v.id, page pick v))
  | .node i x l s cs => by simp [annotP, AT.ages, T.nodes, annotPL_ages pick cs, T.id]
theorem annotPL_ages (pick) : ∀ cs : List T, AT.agesL (annotPL pick cs) = (T.nodesL cs).map (fun v => (v.id, page pick v))
  | [] => by simp [annotPL, AT.agesL, T.nodesL]
  | c :: cs => by simp [annotPL, AT.agesL, T.nodesL, annotP_ages pick c, annotPL_ages pick cs]
end

mutual
theorem nodes_inherit {ε : ℚ} : ∀ t : T, WFT t → Within ε t → ∀ v ∈ T.nodes t, WFT v ∧ Within ε v
  | .node i x l s cs, hw, hε, v, hv => by
    rw [nodes_node] at hv
    rcases List.mem_cons.mp hv with rfl | hv'
    · exact ⟨hw, hε⟩
    · exact nodesL_inherit cs hw.2 (fun k hk => Within_child hε hk) v hv'
theorem nodesL_inherit {ε : ℚ} : ∀ cs : List T, WFTL cs → (∀ k ∈ cs, Within ε k) → ∀ v ∈ T.nodesL cs, WFT v ∧ Within ε v
  | [], _, _, v, hv => by simp [T.nodesL] at hv
  | c :: cs, hw, hε, v, hv => by
    simp only [T.nodesL, List.mem_append] at hv
    rcases hv with hv | hv
    · exact nodes_inherit c hw.1 (hε c List.mem_cons_self) v hv
    · exact nodesL_inherit cs hw.2 (fun k hk => hε k (List.mem_cons_of_mem _ hk)) v hv
end

mutual
theorem nodes_wft : ∀ t : T, WFT t → ∀ v ∈ T.nodes t, WFT v
  | .node i x l s cs, hw, v, hv => by
    rw [nodes_node] at hv
    rcases List.mem_cons.mp hv with rfl | hv'
    · exact hw
    · exact nodesL_wft cs hw.2 v hv'
theorem nodesL_wft : ∀ cs : List T, WFTL cs → ∀ v ∈ T.nodesL cs, WFT v
  | [], _, v, hv => by simp [T.nodesL] at hv
  | c :: cs, hw, v, hv => by
    simp only [T.nodesL, List.mem_append] at hv
    rcases hv with hv | hv
    · exact nodes_wft c hw.1 v hv
    · exact nodesL_wft cs hw.2 v hv
end

mutual
theorem depths_spec : ∀ (t : T) (d : Frac), d.WF → WFT t → NoNone t →
    ∃ r, depths d t = .ok r ∧ (r.filter (·.2.1)).map (fun p => p.2.2.toRat) = (tipDists t).map (· + d.toRat) ∧
      ∀ p ∈ r, p.2.2.WF
  | .node i x l s [], d, hd, _, _ => ⟨[(i, true, d)], by simp [depths, depthsL], by simp [tipDists], by simpa using hd⟩
  | .node i x l s (c :: cs), d, hd, hw, hn => by
    obtain ⟨r, hr, hl, hwf⟩ := depthsL_spec (c :: cs) d hd hw.2 hn
    refine ⟨(i, false, d) :: r, by simp [depths, hr], by simpa [tipDists] using hl, ?_⟩
    intro p hp
    rcases List.mem_cons.mp hp with rfl | hp'
    · exact hd
    · exact hwf p hp'
theorem depthsL_spec : ∀ (cs : List T) (d : Frac), d.WF → WFTL cs → NoNoneL cs →
    ∃ r, depthsL d cs = .ok r ∧ (r.filter (·.2.1)).map (fun p => p.2.2.toRat) = (tipDistsL cs).map (· + d.toRat) ∧
      ∀ p ∈ r, p.2.2.WF
  | [], d, _, _, _ => ⟨[], by simp [depthsL], by simp [tipDistsL], by simp⟩
  | c :: cs, d, hd, hw, hn => by
    obtain ⟨⟨l, hl⟩, hnc, hncs⟩ := hn
    have hlw : l.WF := by have := WFT_len hw.1; rw [hl] at this; exact this
    obtain ⟨r1, hr1, h1, w1⟩ := depths_spec c (l + d) (Frac.add_wf _ _) hw.1 hnc
    obtain ⟨r2, hr2, h2, w2⟩ := depthsL_spec cs d hd hw.2 hncs
    refine ⟨r1 ++ r2, by simp [depthsL, hl, hr1, hr2], ?_, ?_⟩
    swap
    · intro p hp
      rcases List.mem_append.mp hp with h | h
      · exact w1 p h
      · exact w2 p h
    rw [List.filter_append, List.map_append, h1, h2, Frac.add_toRat hlw hd]
    simp only [tipDistsL, List.map_append, List.map_map, qlen, hl, olen]
    congr 1
    apply List.map_congr_left
    intro a _; simp only [Function.comp]; ring
end

mutual
theorem binary_nodes : ∀ t : T, binary t = true → ∀ v ∈ T.nodes t, isBif v = !v.isLeaf
  | .node i x l s [], _, v, hv => by
    simp only [T.nodes, T.nodesL, List.mem_singleton] at hv
    subst hv; rfl
  | .node i x l s [a], hb, _, _ => by simp [binary] at hb
  | .node i x l s (a :: b :: c :: r), hb, _, _ => by simp [binary] at hb
  | .node i x l s [a, b], hb, v, hv => by
    simp only [binary, Bool.and_eq_true] at hb
    simp only [T.nodes, T.nodesL, List.append_nil, List.mem_cons, List.mem_append] at hv
    rcases hv with rfl | hv | hv
    · rfl
    · exact binary_nodes a hb.1 v hv
    · exact binary_nodes b hb.2 v hv
end

mutual
theorem specAges_annot : ∀ t : T,
    (specAges (annot t)).1.Perm (((T.nodes t).filter isBif).map fage) ∧
    (specAges (annot t)).2 = ((T.nodes t).filter (fun v => !isBif v)).length
  | .node i x l s cs => by
    obtain ⟨h1, h2⟩ := specAgesL_annot cs
    have hlen : (annotL cs).length = cs.length := by
      clear h1 h2; induction cs with
      | nil => rfl
      | cons c cs ih => simp [annotL, ih]
    have hb0 : isBif (.node i x l s cs) = (cs.length == 2) := rfl
    simp only [annot, specAges, hlen, nodes_node, List.filter_cons, hb0]
    by_cases hb : (cs.length == 2) = true
    · simp only [hb, if_true, Bool.not_true, Bool.false_eq_true, if_false, List.map_cons]
      exact ⟨(List.perm_append_comm).trans (h1.cons _), h2⟩
    · simp only [hb, if_false, Bool.false_eq_true, Bool.not_false, if_true, List.length_cons]
      exact ⟨h1, by rw [h2]⟩
theorem specAgesL_annot : ∀ cs : List T,
    (specAgesL (annotL cs)).1.Perm (((T.nodesL cs).filter isBif).map fage) ∧
    (specAgesL (annotL cs)).2 = ((T.nodesL cs).filter (fun v => !isBif v)).length
  | [] => by simp [annotL, specAgesL, T.nodesL]
  | c :: cs => by
    obtain ⟨h1, h2⟩ := specAges_annot c
    obtain ⟨g1, g2⟩ := specAgesL_annot cs
    simp only [annotL, specAgesL, T.nodesL, List.filter_append, List.map_append, List.length_append]
    exact ⟨h1.append g1, by rw [h2, g2]⟩
end

theorem gammaSignedSq_spec {num tt : Frac} {n : Nat} (hn : num.WF) (ht : tt.WF) {r : Frac}
    (h : gammaSignedSq (num, tt, n) = .ok r) :
    tt.toRat ≠ 0 ∧ r.toRat = (if num.toRat < 0 then -1 else 1) * (num.toRat ^ 2 * (12 * ((n - 2 : ℕ) : ℚ)) / tt.toRat ^ 2) := by
  unfold gammaSignedSq at h
  simp only at h
  split at h
  · cases h
  · rename_i hz
    have hz' : tt.toRat ≠ 0 := fun h0 => hz ((Frac.isZero_iff ht).mpr h0)
    simp only [Except.ok.injEq] at h
    have hsq : (Frac.div (num * num * Frac.ofNat (12 * (n - 2))) (tt * tt)).toRat
        = num.toRat ^ 2 * (12 * ((n - 2 : ℕ) : ℚ)) / tt.toRat ^ 2 := by
      rw [Frac.div_toRat (Frac.mul_wf _ _) (Frac.mul_wf _ _), Frac.mul_toRat (Frac.mul_wf _ _) (Frac.ofNat_wf _),
        Frac.mul_toRat hn hn, Frac.mul_toRat ht ht, Frac.ofNat_toRat]
      push_cast; ring
    refine ⟨hz', ?_⟩
    by_cases hlt : Frac.lt num Frac.zero = true
    · have := (Frac.lt_iff hn Frac.zero_wf).mp hlt
      rw [Frac.zero_toRat] at this
      simp only [hlt, if_true] at h
      rw [← h, Frac.neg_toRat, hsq]; simp [this]
    · have hf : Frac.lt num Frac.zero = false := by simpa using hlt
      have := (Frac.lt_false_iff hn Frac.zero_wf).mp hf
      rw [Frac.zero_toRat] at this
      simp only [hf, Bool.false_eq_true, if_false] at h
      rw [← h, hsq]; simp [not_lt.mpr this]

theorem checking_prec {prec : Option Frac} {p : Frac} (h : Cfg.checking ⟨prec, false, false⟩ = some p) : prec = some p := by
  unfold Cfg.checking at h
  simp only [Bool.or_self, Bool.false_eq_true, if_false] at h
  cases prec with
  | none => cases h
  | some q =>
    simp only at h
    split at h
    · cases h
    · exact congrArg some (Option.some.inj h)

theorem accept_exact (prec : Option Frac) (hprec : ∀ p, prec = some p → p.WF) (t : T) (hw : WFT t) (hu : Within 0 t) :
    calcNodeAges ⟨prec, false, false⟩ t = .ok (annot t) := by
  cases hc : Cfg.checking ⟨prec, false, false⟩ with
  | none => rw [calcNodeAges_nonforce rfl rfl, hc, allWithin_none]; rfl
  | some p =>
    have hp : p.WF := hprec p (checking_prec hc)
    have hp0 := checking_nonneg hp hc
    have hloc : allWithin (some p) t = true :=
      (allWithin_iff hp t hw).mpr (LocalOK_of_Within t (fun d hd d' hd' => le_trans (hu d hd d' hd') hp0))
    rw [calcNodeAges_nonforce rfl rfl, hc, hloc]; rfl

theorem specAges_values (t : T) (hw : WFT t) :
    ((specAges (annot t)).1.map Frac.toRat).Perm (bifAges t) ∧ (∀ x ∈ (specAges (annot t)).1, x.WF) ∧
    (specAges (annot t)).2 = nonBifStat.f t := by
  obtain ⟨hperm, hcount⟩ := specAges_annot t
  refine ⟨?_, ?_, hcount⟩
  · have h1 := hperm.map Frac.toRat
    have h2 : (((T.nodes t).filter isBif).map fage).map Frac.toRat = bifAges t := by
      rw [List.map_map]
      apply List.map_congr_left
      intro v hv
      exact fage_toRat v (nodes_wft t hw v (List.mem_filter.mp hv).1)
    rw [h2] at h1; exact h1
  · intro x hx
    obtain ⟨v, _, rfl⟩ := List.mem_map.mp (hperm.subset hx)
    exact fage_wf v

theorem gamma_unfold (prec : Option Frac) (hprec : ∀ p, prec = some p → p.WF) (t : T) (hw : WFT t) (hu : Within 0 t) :
    gamma prec t = (match gammaParts (annot t) with
      | .error e => .error e
      | .ok p => gammaSignedSq p) := by
  unfold gamma; rw [accept_exact prec hprec t hw hu]; rfl

theorem nLeaves_pos : ∀ t : T, 0 < nLeaves t
  | .node _ _ _ _ [] => by simp [nLeaves]
  | .node _ _ _ _ (c :: cs) => by
    have := nLeaves_pos c
    simp only [nLeaves, nLeavesL]; omega

theorem fdiv_ok {a b : Frac} (ha : a.WF) (hb : b.WF) (h0 : b.toRat ≠ 0) :
    ∃ r, fdiv a b = .ok r ∧ r.toRat = a.toRat / b.toRat := by
  have hz : b.isZero = false := by
    cases hbz : b.isZero with
    | false => rfl
    | true => exact absurd ((Frac.isZero_iff hb).mp hbz) h0
  exact ⟨Frac.div a b, by simp [fdiv, hz], Frac.div_toRat ha hb⟩

mutual
theorem withAges_awf (tbl : List (Nat × Frac)) (h : ∀ p ∈ tbl, p.2.WF) : ∀ t : T, AWF (withAges tbl t)
  | .node i x l s cs => by
    refine ⟨?_, withAgesL_awf tbl h cs⟩
    unfold lookup
    cases hf : tbl.find? (fun p => p.1 == i) with
    | none => exact Frac.zero_wf
    | some p => exact h p (List.mem_of_find?_eq_some hf)
theorem withAgesL_awf (tbl : List (Nat × Frac)) (h : ∀ p ∈ tbl, p.2.WF) : ∀ cs : List T, AWFL (withAgesL tbl cs)
  | [] => by simp [withAgesL, AWFL]
  | c :: cs => ⟨withAges_awf tbl h c, withAgesL_awf tbl h cs⟩
end

end DendroModel.C17.Aux

namespace DendroModel.C17
open DendroModel DendroModel.C17.Aux

/-! ## clause (a)/(b): ages and the ultrametricity check -/

/-- Acceptance within the precision: if all root-to-tip path lengths agree within the precision `p` in force
(no forcing option), `calc_node_ages` succeeds, and every node's age differs from its distance to *each* of its
descendant tips by at most `p`. -/
theorem ages_spec {cfg : Cfg} {p : Frac} (t : T) (hw : WFT t) (hp : p.WF) (hc : cfg.checking = some p)
    (hu : Within p.toRat t) :
    calcNodeAges cfg t = .ok (annot t) ∧
    (annot t).ages = (T.nodes t).map (fun v => (v.id, fage v)) ∧
    ∀ v ∈ T.nodes t, ∀ d ∈ tipDists v, |(fage v).toRat - d| ≤ p.toRat := by
  obtain ⟨h1, h2⟩ := checking_some hc
  have hloc : allWithin (some p) t = true := (allWithin_iff hp t hw).mpr (LocalOK_of_Within t hu)
  refine ⟨by rw [calcNodeAges_nonforce h1 h2, hc, hloc]; rfl, annot_ages t, ?_⟩
  intro v hv d hd
  obtain ⟨hwv, huv⟩ := nodes_inherit t hw hu v hv
  rw [fage_toRat v hwv]
  exact huv _ (fageQ_mem v) _ hd

/-- On an exactly ultrametric tree every node's age *equals* its distance to every descendant tip, whatever
non-negative precision is in force. -/
theorem ages_exact_spec {cfg : Cfg} {p : Frac} (t : T) (hw : WFT t) (hp : p.WF) (hc : cfg.checking = some p)
    (hu : Within 0 t) :
    calcNodeAges cfg t = .ok (annot t) ∧ ∀ v ∈ T.nodes t, ∀ d ∈ tipDists v, (fage v).toRat = d := by
  have hp0 : 0 ≤ p.toRat := checking_nonneg hp hc
  have hu' : Within p.toRat t := fun d hd d' hd' => le_trans (hu d hd d' hd') hp0
  refine ⟨(ages_spec t hw hp hc hu').1, ?_⟩
  intro v hv d hd
  obtain ⟨hwv, huv⟩ := nodes_inherit t hw hu v hv
  rw [fage_toRat v hwv]
  have := huv _ (fageQ_mem v) _ hd
  have h0 := abs_nonpos_iff.mp this
  linarith

/-- Whenever `calc_node_ages` succeeds without a forcing option (check in force or disabled), the result is the
tree annotated with first-child-chain ages, and every node's age is the length of an actual path to one of its
descendant tips. -/
theorem age_is_tip_distance {cfg : Cfg} (t : T) (hw : WFT t) (h1 : cfg.forceMax = false) (h2 : cfg.forceMin = false)
    {a : AT} (h : calcNodeAges cfg t = .ok a) :
    a = annot t ∧ a.ages = (T.nodes t).map (fun v => (v.id, fage v)) ∧
    ∀ v ∈ T.nodes t, (fage v).toRat ∈ tipDists v := by
  rw [calcNodeAges_nonforce h1 h2] at h
  have ha : a = annot t := by
    split at h
    · exact (Except.ok.inj h).symm
    · cases h
  refine ⟨ha, by rw [ha]; exact annot_ages t, ?_⟩
  intro v hv
  rw [fage_toRat v (nodes_wft t hw v hv)]; exact fageQ_mem v

/-- The exact acceptance criterion of the code, in ℚ: with the check in force the run is rejected with an
ultrametricity error iff at some node some other child's (first-child-chain age + length) differs from the first
child's by more than `p`, and otherwise succeeds with the first-child-chain ages.  (This is the code's *local*
comparison; what it means for path lengths is `ages_spec`, `accepted_bound`, `reject_beyond_bound` and
`reject_only_beyond_precision`.) -/
theorem reject_iff_local {cfg : Cfg} {p : Frac} (t : T) (hw : WFT t) (hp : p.WF) (hc : cfg.checking = some p) :
    (calcNodeAges cfg t = .error .ultra ↔ ¬ LocalOK p.toRat t) ∧
    (calcNodeAges cfg t = .ok (annot t) ↔ LocalOK p.toRat t) := by
  obtain ⟨h1, h2⟩ := checking_some hc
  rw [calcNodeAges_nonforce h1 h2, hc, ← allWithin_iff hp t hw]
  by_cases h : allWithin (some p) t = true <;> simp [h]

/-- Whatever is accepted is close to ultrametric: if `calc_node_ages` succeeds with the check in force at precision
`p`, then at every node the assigned age differs from the distance to each descendant tip by at most
`height · p` (deviations can accumulate by at most `p` per level). -/
theorem accepted_bound {cfg : Cfg} {p : Frac} (t : T) (hw : WFT t) (hp : p.WF) (hc : cfg.checking = some p)
    {a : AT} (h : calcNodeAges cfg t = .ok a) :
    a = annot t ∧ ∀ v ∈ T.nodes t, ∀ d ∈ tipDists v, |(fage v).toRat - d| ≤ (height v : ℚ) * p.toRat := by
  obtain ⟨h1, h2⟩ := checking_some hc
  have ha := (age_is_tip_distance t hw h1 h2 h).1
  have hloc : LocalOK p.toRat t := ((reject_iff_local t hw hp hc).2).mp (by rw [h, ha])
  refine ⟨ha, ?_⟩
  intro v hv d hd
  rw [fage_toRat v (nodes_wft t hw v hv)]
  exact localOK_bound (checking_nonneg hp hc) v (LocalOK_nodes t hloc v hv) d hd

/-- Sufficient condition for rejection in terms of path lengths: two root-to-tip paths differing by more than
`2 · height · p` force an ultrametricity error.  (The literal "differ by more than `p` ⇒ rejected" is false of the
code: `((A:1,B:2):1,C:1)` at `p = 1` is accepted — see the example below and the known finding.) -/
theorem reject_beyond_bound {cfg : Cfg} {p : Frac} (t : T) (hw : WFT t) (hp : p.WF) (hc : cfg.checking = some p)
    {d d' : ℚ} (hd : d ∈ tipDists t) (hd' : d' ∈ tipDists t) (hfar : 2 * (height t : ℚ) * p.toRat < |d - d'|) :
    calcNodeAges cfg t = .error .ultra := by
  obtain ⟨h1, h2⟩ := checking_some hc
  rw [calcNodeAges_nonforce h1 h2]
  split
  · rename_i hall
    exfalso
    have hok : calcNodeAges cfg t = .ok (annot t) := by rw [calcNodeAges_nonforce h1 h2, if_pos hall]
    have hb := (accepted_bound t hw hp hc hok).2 t (by cases t; simp [T.nodes])
    have b1 := hb d hd
    have b2 := hb d' hd'
    have : |d - d'| ≤ 2 * (height t : ℚ) * p.toRat := by
      have e : d - d' = ((fage t).toRat - d') - ((fage t).toRat - d) := by ring
      rw [e]
      calc |((fage t).toRat - d') - ((fage t).toRat - d)|
          ≤ |(fage t).toRat - d'| + |(fage t).toRat - d| := abs_sub _ _
        _ ≤ (height t : ℚ) * p.toRat + (height t : ℚ) * p.toRat := add_le_add b2 b1
        _ = 2 * (height t : ℚ) * p.toRat := by ring
    linarith
  · rfl

/-- A tree is rejected only if its root-to-tip paths really differ by more than the precision. -/
theorem reject_only_beyond_precision {cfg : Cfg} {p : Frac} (t : T) (hw : WFT t) (hp : p.WF)
    (hc : cfg.checking = some p) (hr : calcNodeAges cfg t = .error .ultra) : ¬ Within p.toRat t := by
  intro hu
  rw [(ages_spec t hw hp hc hu).1] at hr
  cases hr

/-- With the check disabled (`None`, `False`, negative precision) and no forcing, no tree is rejected. -/
theorem check_disabled_spec {cfg : Cfg} (t : T) (h1 : cfg.forceMax = false) (h2 : cfg.forceMin = false)
    (hc : cfg.checking = none) : calcNodeAges cfg t = .ok (annot t) := by
  rw [calcNodeAges_nonforce h1 h2, hc, allWithin_none]; rfl

/-- `is_force_max_age`: every node's age is the largest distance to a descendant tip. -/
theorem force_max_spec (prec : Option Frac) (t : T) (hw : WFT t) (hn : NoNone t) :
    calcNodeAges ⟨prec, true, false⟩ t = .ok (annotP maxList t) ∧
    (annotP maxList t).ages = (T.nodes t).map (fun v => (v.id, page maxList v)) ∧
    ∀ v ∈ T.nodes t, (page maxList v).toRat ∈ tipDists v ∧ ∀ d ∈ tipDists v, d ≤ (page maxList v).toRat := by
  have hf : Forcing ⟨prec, true, false⟩ maxList := Or.inl ⟨rfl, rfl⟩
  refine ⟨by simp [calcNodeAges, calcAges_forcing hf t hn], annotP_ages maxList t, ?_⟩
  intro v hv
  exact page_spec picks_max v (nodes_wft t hw v hv)

/-- `is_force_min_age`: every node's age is the smallest distance to a descendant tip. -/
theorem force_min_spec (prec : Option Frac) (t : T) (hw : WFT t) (hn : NoNone t) :
    calcNodeAges ⟨prec, false, true⟩ t = .ok (annotP minList t) ∧
    (annotP minList t).ages = (T.nodes t).map (fun v => (v.id, page minList v)) ∧
    ∀ v ∈ T.nodes t, (page minList v).toRat ∈ tipDists v ∧ ∀ d ∈ tipDists v, (page minList v).toRat ≤ d := by
  have hf : Forcing ⟨prec, false, true⟩ minList := Or.inr ⟨rfl, rfl, rfl⟩
  refine ⟨by simp [calcNodeAges, calcAges_forcing hf t hn], annotP_ages minList t, ?_⟩
  intro v hv
  exact page_spec picks_min v (nodes_wft t hw v hv)

/-- The defaults found in the current source (`constants.DEFAULT_ULTRAMETRICITY_PRECISION`, `prec` of
`pybus_harvey_gamma`; regenerated on every run) are well-formed and non-negative, i.e. they do enable the check. -/
theorem default_precision_enables_check :
    defaultPrec.WF ∧ (⟨some defaultPrec, false, false⟩ : Cfg).checking = some defaultPrec ∧
    gammaDefaultPrec.WF ∧ (⟨some gammaDefaultPrec, false, false⟩ : Cfg).checking = some gammaDefaultPrec := by
  refine ⟨Frac.mk'_wf _ _, ?_, Frac.mk'_wf _ _, ?_⟩ <;> decide

/-- both forcing options at once are refused -/
theorem force_both_spec (prec : Option Frac) (t : T) : calcNodeAges ⟨prec, true, true⟩ t = .error .value := by
  simp [calcNodeAges]

/-- Setting edge lengths from the ages computed on an exactly ultrametric tree with non-negative lengths (minimum
length `None` or ≤ 0, either error flag) restores every edge length (`None` read as 0); ids and order are kept.
`_partial`: exact ultrametricity only — on a tree that is merely within a precision `p > 0` the lengths of
non-first children come back changed by up to `p` (covered by the correspondence and the oracle only). -/
theorem lengths_from_ages_roundtrip_partial {cfg : Cfg} {p : Frac} (minLen : Option Frac) (errNeg : Bool) (t : T)
    (hw : WFT t) (hp : p.WF) (hc : cfg.checking = some p) (hu : Within 0 t)
    (hnn : NonNeg t) (hm : MinOK minLen) :
    ∃ a a', calcNodeAges cfg t = .ok a ∧ setLens minLen errNeg a = .ok a' ∧ atLens a' = tLens t := by
  refine ⟨annot t, ?_⟩
  have hcalc := (ages_exact_spec t hw hp hc hu).1
  have hloc : LocalOK 0 t := LocalOK_of_Within t hu
  match t, hw, hloc, hnn, hcalc with
  | .node i x l s cs, hw, hloc, hnn, hcalc =>
    have hlocL : LocalOKL 0 cs := by
      match cs, hloc with
      | [], _ => simp [LocalOKL]
      | c :: cs', hl => exact hl.1
    have hpar : ∀ k ∈ cs, (fage (.node i x l s cs)).toRat = fageQ k + qlen k.len := by
      intro k hk
      rw [fage_toRat _ hw]
      match cs, hk, hloc with
      | c :: cs', hk, hl => exact LocalOK_zero_children hl k hk
    obtain ⟨r, hr, hl⟩ := setLensL_exact hm errNeg cs (fage (.node i x l s cs)) (fage_wf _) hw.2 hlocL hnn hpar
    refine ⟨.node i (fage (.node i x l s cs)) l r, hcalc, ?_, ?_⟩
    · simp only [annot, setLens, hr]
    · simp only [atLens, tLens, hl]

/-- Lengths from ages within the precision: whenever `calc_node_ages` ACCEPTS a tree with non-negative edge lengths at
precision `p` (no forcing) and `set_edge_lengths_from_node_ages` then runs with a minimum length that is `None` or
≤ 0 (the error flag only together with a minimum of 0, as by default), it succeeds, keeps ids and order, and every
edge length comes back within `p` of the original (`None` read as 0; first children exactly; the seed's untouched). -/
theorem lengths_from_ages_within {cfg : Cfg} {p : Frac} (minLen : Option Frac) (errNeg : Bool) (t : T)
    (hw : WFT t) (hp : p.WF) (hc : cfg.checking = some p) (hnn : NonNeg t) (hm : MinOK minLen)
    (hneg : NegOK minLen errNeg) {a : AT} (h : calcNodeAges cfg t = .ok a) :
    ∃ a', setLens minLen errNeg a = .ok a' ∧ List.Forall₂ (LensClose p.toRat) (atLens a') (tLens t) := by
  obtain ⟨h1, h2⟩ := checking_some hc
  have ha := (age_is_tip_distance t hw h1 h2 h).1
  have hloc : LocalOK p.toRat t := ((reject_iff_local t hw hp hc).2).mp (by rw [h, ha])
  have hp0 := checking_nonneg hp hc
  subst ha
  match t, hw, hloc, hnn with
  | .node i x l s cs, hw, hloc, hnn =>
    have hlocL : LocalOKL p.toRat cs := by
      match cs, hloc with
      | [], _ => simp [LocalOKL]
      | c :: cs', hl => exact hl.1
    have hpar : ∀ k ∈ cs, |(fage (.node i x l s cs)).toRat - (fageQ k + qlen k.len)| ≤ p.toRat := by
      intro k hk
      rw [fage_toRat _ hw]
      match cs, hk, hloc with
      | c :: cs', hk, hl =>
        rcases List.mem_cons.mp hk with rfl | hk'
        · simpa [fageQ] using hp0
        · simpa [fageQ] using hl.2 k hk'
    obtain ⟨r, hr, hl⟩ := setLensL_within hm hneg hp0 cs (fage (.node i x l s cs)) (fage_wf _) hw.2 hlocL hnn hpar
    refine ⟨.node i (fage (.node i x l s cs)) l r, by simp only [annot, setLens, hr], ?_⟩
    simp only [atLens, tLens]
    exact List.Forall₂.cons ⟨rfl, by simpa using hp0⟩ hl

/-- Lengths from ages, both halves of the clause for the options under which it can hold — non-negative original
lengths, minimum length `None` or ≤ 0, and the error flag only together with minimum 0 (the defaults are minimum 0.0,
flag off; with the flag and no minimum a within-precision tree may legitimately raise ValueError): an accepted tree
gets every length back within the precision
(`lengths_from_ages_within`), and an exactly ultrametric one gets them back exactly
(`lengths_from_ages_roundtrip_partial`, which this supersedes). -/
theorem lengths_from_ages_roundtrip {cfg : Cfg} {p : Frac} (minLen : Option Frac) (errNeg : Bool) (t : T)
    (hw : WFT t) (hp : p.WF) (hc : cfg.checking = some p) (hnn : NonNeg t) (hm : MinOK minLen) :
    (NegOK minLen errNeg → ∀ a, calcNodeAges cfg t = .ok a →
      ∃ a', setLens minLen errNeg a = .ok a' ∧ List.Forall₂ (LensClose p.toRat) (atLens a') (tLens t)) ∧
    (Within 0 t → ∃ a a', calcNodeAges cfg t = .ok a ∧ setLens minLen errNeg a = .ok a' ∧ atLens a' = tLens t) :=
  ⟨fun hneg _ h => lengths_from_ages_within minLen errNeg t hw hp hc hnn hm hneg h,
   fun hu => lengths_from_ages_roundtrip_partial minLen errNeg t hw hp hc hu hnn hm⟩

/-- The number of lineages at distance `d` from the root is the number of edges whose tail is closer than `d`
and whose head is at `d` or beyond (all edges below the root of positive length). -/
theorem lineages_spec (d : Frac) (hd : d.WF) (t : T) (hpos : Pos t) :
    numLineagesAt d t = .ok ((edgesL 0 t.cs).countP (fun e => decide (e.1 < d.toRat ∧ d.toRat ≤ e.2))) := by
  cases t with
  | node i x l s cs =>
    have := lineagesL_spec hd cs Frac.zero Frac.zero_wf hpos
    simpa [numLineagesAt, T.cs, Frac.zero_toRat] using this

/-- What `num_lineages_at` counts on ANY edge lengths (zero and negative ones included; no `None` below the root): the
edges whose head is exactly at distance `d`, or whose tail is closer than `d` and whose head is at `d` or beyond.  With
positive lengths the first disjunct is subsumed (`lineages_spec`); a zero-length edge lying exactly at `d` is counted. -/
theorem lineages_spec_all (d : Frac) (hd : d.WF) (t : T) (hw : WFT t) (hn : NoNone t) :
    numLineagesAt d t = .ok ((edgesL 0 t.cs).countP
      (fun e => decide (e.2 = d.toRat ∨ (e.1 < d.toRat ∧ d.toRat ≤ e.2)))) := by
  cases t with
  | node i x l s cs =>
    have := lineagesL_all hd cs Frac.zero Frac.zero_wf hw.2 hn
    simpa [numLineagesAt, T.cs, Frac.zero_toRat] using this

/-- Root distances: the distance accumulated from the root downwards (`resolve_node_depths`,
`calc_node_root_distances`) arrives at every leaf with the length of the root-to-tip path computed from the tips
upwards, leaves in left-to-right order (no `None` length below the root). -/
theorem leaf_depths_spec (t : T) (hw : WFT t) (hn : NoNone t) :
    ∃ r, rootDepths t = .ok r ∧ (r.filter (·.2.1)).map (fun p => p.2.2.toRat) = tipDists t := by
  obtain ⟨r, hr, hl, _⟩ := depths_spec t Frac.zero Frac.zero_wf hw hn
  exact ⟨r, hr, by simpa [Frac.zero_toRat] using hl⟩

/-- `minmax_leaf_distance_from_root` / `max_distance_from_root`: the two values are root-to-tip path lengths and
bound every root-to-tip path length from below and above (no `None` length below the root). -/
theorem minmax_spec (t : T) (hw : WFT t) (hn : NoNone t) :
    ∃ mn mx, minmaxLeafDist t = .ok (mn, mx) ∧ mn.toRat ∈ tipDists t ∧ mx.toRat ∈ tipDists t ∧
      ∀ d ∈ tipDists t, mn.toRat ≤ d ∧ d ≤ mx.toRat := by
  obtain ⟨r, hr, hl, hwf⟩ := depths_spec t Frac.zero Frac.zero_wf hw hn
  have hmap : ((r.filter (·.2.1)).map (·.2.2)).map Frac.toRat = tipDists t := by
    rw [List.map_map]
    have : (Frac.toRat ∘ fun (x : Nat × Bool × Frac) => x.2.2) = fun p => p.2.2.toRat := rfl
    rw [this]; simpa [Frac.zero_toRat] using hl
  have hL : ∀ x ∈ (r.filter (·.2.1)).map (·.2.2), x.WF := by
    intro x hx
    obtain ⟨p, hp, rfl⟩ := List.mem_map.mp hx
    exact hwf p (List.mem_filter.mp hp).1
  cases hc : (r.filter (·.2.1)).map (·.2.2) with
  | nil => rw [hc] at hmap; exact absurd hmap.symm (tipDists_ne_nil t)
  | cons x xs =>
    rw [hc] at hmap hL
    have hx := hL x List.mem_cons_self
    have hxs : ∀ y ∈ xs, y.WF := fun y hy => hL y (List.mem_cons_of_mem _ hy)
    refine ⟨minList x xs, maxList x xs, by simp [minmaxLeafDist, rootDepths, hr, hc], ?_, ?_, ?_⟩
    · rw [← hmap]; exact List.mem_map.mpr ⟨_, minList_mem xs x, rfl⟩
    · rw [← hmap]; exact List.mem_map.mpr ⟨_, maxList_mem xs x, rfl⟩
    · intro d hd
      rw [← hmap] at hd
      obtain ⟨y, hy, rfl⟩ := List.mem_map.mp hd
      exact ⟨minList_le xs x hx hxs y hy, maxList_ge xs x hx hxs y hy⟩

/-- Root distances of ALL nodes (`resolve_node_depths`, `calc_node_root_distances`): the value accumulated from the
root downwards is, for every node `v` (ids, leaf flags and pre-order kept), the length of the path from the root to
`v` as built from `v` upwards (`below`); `below` lists exactly the nodes of the tree, and that distance plus the
distance from `v` to any of its tips is a root-to-tip path length. -/
theorem node_depths_spec (t : T) (hw : WFT t) (hn : NoNone t) :
    ∃ r, rootDepths t = .ok r ∧
      r.map (fun p => (p.1, p.2.1, p.2.2.toRat)) = (below t).map (fun q => (q.1.id, q.1.isLeaf, q.2)) ∧
      (below t).map (·.1) = T.nodes t ∧
      ∀ q ∈ below t, ∀ y ∈ tipDists q.1, q.2 + y ∈ tipDists t := by
  obtain ⟨r, hr, hl⟩ := depths_all t Frac.zero Frac.zero_wf hw hn
  exact ⟨r, hr, by simpa [Frac.zero_toRat] using hl, below_fst t, below_tip t⟩

/-- Lineages between speciation events (Pybus & Harvey's reading of the intervals).  On a strictly bifurcating,
exactly ultrametric tree with positive edge lengths, let `S` be the ages of the bifurcating nodes sorted in
descending order (as `pybus_harvey_gamma` sorts them) and `H` the root's age.  At every distance `d` from the root
with `H − S_j < d ≤ H − S_{j+1}` (`S_len = 0`; `0 < d ≤ H`), `num_lineages_at d` is exactly `j + 2`: the interval
`g_j = S_j − S_{j+1}` of `gamma_eq_def` is the time during which `j + 2` lineages exist. -/
theorem lineages_between_speciations (t : T) (hw : WFT t) (hb : binary t = true) (hpos : Pos t) (hu : Within 0 t)
    (d : Frac) (hd : d.WF) (hd0 : 0 < d.toRat) (hdH : d.toRat ≤ (fage t).toRat) (j : Nat)
    (hj : j < ((sortDesc (specAges (annot t)).1).map Frac.toRat).length)
    (hlo : (fage t).toRat - ((sortDesc (specAges (annot t)).1).map Frac.toRat).getD j 0 < d.toRat)
    (hhi : d.toRat ≤ (fage t).toRat - ((sortDesc (specAges (annot t)).1).map Frac.toRat).getD (j + 1) 0) :
    numLineagesAt d t = .ok (j + 2) := by
  obtain ⟨hperm, _⟩ := specAges_annot t
  have hwfS : ∀ x ∈ (specAges (annot t)).1, x.WF := by
    intro x hx
    obtain ⟨v, _, rfl⟩ := List.mem_map.mp (hperm.subset hx)
    exact fage_wf v
  have hH : (fage t).toRat = fageQ t := fage_toRat t hw
  have htip : ∀ x ∈ tipDists t, (0 : ℚ) + x = (fage t).toRat := by
    intro x hx
    have := abs_nonpos_iff.mp (hu x hx (fageQ t) (fageQ_mem t))
    rw [hH]; linarith
  -- the count over the sorted list equals the count over the internal nodes
  have hcount : ((sortDesc (specAges (annot t)).1).map Frac.toRat).countP
        (fun a => decide ((fage t).toRat - d.toRat < a))
      = (T.nodes t).countP (fun v => !v.isLeaf && decide ((fage t).toRat - d.toRat < fageQ v)) := by
    have hp2 : ((sortDesc (specAges (annot t)).1).map Frac.toRat).Perm
        ((((T.nodes t).filter isBif).map fage).map Frac.toRat) := ((sortDesc_perm _).trans hperm).map _
    rw [hp2.countP_eq, List.countP_map, List.countP_map, List.countP_filter]
    apply List.countP_congr
    intro v hv
    have hvq : (fage v).toRat = fageQ v := fage_toRat v (nodes_wft t hw v hv)
    simp only [Function.comp, hvq, binary_nodes t hb v hv, Bool.and_eq_true, decide_eq_true_eq]
    exact ⟨fun h => ⟨h.2, h.1⟩, fun h => ⟨h.2, h.1⟩⟩
  have hdesc : ((sortDesc (specAges (annot t)).1).map Frac.toRat).Pairwise (fun a b => b ≤ a) :=
    List.pairwise_map.mpr (sortDesc_desc _ hwfS)
  have hS := countP_desc _ j ((fage t).toRat - d.toRat) hdesc hj (by linarith) (fun _ => by linarith)
  cases t with
  | node i x l s cs =>
    cases cs with
    | nil => simp [annot, annotL, specAges, specAgesL, sortDesc] at hj
    | cons c cs =>
      have hc := cross_count d.toRat (fage (.node i x l s (c :: cs))).toRat hdH (.node i x l s (c :: cs)) 0 hb hpos htip
      have hi := intBefore_ages d.toRat (fage (.node i x l s (c :: cs))).toRat (.node i x l s (c :: cs)) 0 htip
      rw [lineages_spec d hd _ hpos]
      have : (fun e : ℚ × ℚ => decide (e.1 < d.toRat ∧ d.toRat ≤ e.2)) = crossQ d.toRat := rfl
      rw [this, hc, hi, ← hcount, hS]
      simp [T.isLeaf, T.cs, hd0]

/-- The list `calc_node_ages` returns (`node_ages`, `internal_node_ages` sort it): exactly the ages of all nodes, or of
the internal nodes only when so requested — as a multiset — whatever ages the nodes carry; and for the trees produced
without / with a forcing option those are the `(is_leaf, age)` pairs of the tree's nodes. -/
theorem returned_list_spec (io : Bool) :
    (∀ a : AT, (a.returned io).Perm (((flagged a).filter (fun p => !io || !p.1)).map (·.2))) ∧
    (∀ t : T, flagged (annot t) = (T.nodes t).map (fun v => (v.isLeaf, fage v))) ∧
    (∀ pick (t : T), flagged (annotP pick t) = (T.nodes t).map (fun v => (v.isLeaf, page pick v))) :=
  ⟨returned_perm io, flagged_annot, flagged_annotP⟩

/-- `resolve_node_ages`: every node's age is `m − (its distance from the root)` where `m` is the largest distance of any
node from the root (ids and pre-order kept; no `None` length below the root). -/
theorem resolve_ages_spec (t : T) (hw : WFT t) (hn : NoNone t) :
    ∃ r, ∃ m : ℚ, resolveAges t = .ok r ∧ m ∈ (below t).map (·.2) ∧ (∀ x ∈ (below t).map (·.2), x ≤ m) ∧
      r.map (fun p => (p.1, p.2.toRat)) = (below t).map (fun q => (q.1.id, m - q.2)) := by
  obtain ⟨r0, hr0, hE⟩ := depths_all t Frac.zero Frac.zero_wf hw hn
  obtain ⟨r1, hr1, _, hwf⟩ := depths_spec t Frac.zero Frac.zero_wf hw hn
  have : r1 = r0 := by rw [hr0] at hr1; exact (Except.ok.inj hr1).symm
  subst this
  simp only [Frac.zero_toRat, add_zero] at hE
  have hD : r1.map (fun p => p.2.2.toRat) = (below t).map (·.2) := by
    have := congrArg (List.map (fun (z : Nat × Bool × ℚ) => z.2.2)) hE
    rw [List.map_map, List.map_map] at this
    exact this
  cases hr : r1 with
  | nil =>
    rw [hr] at hE
    cases t with
    | node i x l s cs => simp [below] at hE
  | cons x xs =>
    rw [hr] at hD hwf hE hr0
    have hx := hwf x List.mem_cons_self
    have hxs : ∀ y ∈ xs.map (·.2.2), y.WF := by
      intro y hy
      obtain ⟨p, hp, rfl⟩ := List.mem_map.mp hy
      exact hwf p (List.mem_cons_of_mem _ hp)
    have hmw : (maxList x.2.2 (xs.map (·.2.2))).WF := by
      rcases List.mem_cons.mp (maxList_mem (xs.map (·.2.2)) x.2.2) with h | h
      · rw [h]; exact hx
      · exact hxs _ h
    have hall : (x.2.2 :: xs.map (·.2.2)).map Frac.toRat = (below t).map (·.2) := by
      rw [← hD]; simp [List.map_map, Function.comp]
    refine ⟨(x :: xs).map (fun p => (p.1, maxList x.2.2 (xs.map (·.2.2)) - p.2.2)),
      (maxList x.2.2 (xs.map (·.2.2))).toRat, by simp [resolveAges, rootDepths, hr0], ?_, ?_, ?_⟩
    · rw [← hall]; exact List.mem_map.mpr ⟨_, maxList_mem _ _, rfl⟩
    · intro y hy
      rw [← hall] at hy
      obtain ⟨z, hz, rfl⟩ := List.mem_map.mp hy
      exact maxList_ge _ _ hx hxs z hz
    · have := congrArg (List.map (fun (z : Nat × Bool × ℚ) =>
        (z.1, (maxList x.2.2 (xs.map (·.2.2))).toRat - z.2.2))) hE
      simp only [List.map_map] at this ⊢
      refine Eq.trans ?_ (this.trans rfl)
      apply List.map_congr_left
      intro p hp
      simp only [Function.comp, Prod.mk.injEq, true_and]
      exact Frac.sub_toRat hmw (hwf p hp)

/-- `set_edge_lengths_from_node_ages` on ARBITRARY ages (`age` attributes set by any means), every minimum length and
both settings of the error flag: each node below the seed gets `parent age − age`, raised to the minimum when one is
given (ids and pre-order kept, the seed's length untouched); with `error_on_negative_edge_lengths` the call raises
ValueError exactly when one of those documented lengths is negative. -/
theorem set_lengths_spec (minLen : Option Frac) (hm : ∀ m, minLen = some m → m.WF) (errNeg : Bool) (a : AT) (hw : AWF a) :
    ((errNeg = true ∧ ∃ x ∈ specLensL (minLen.map Frac.toRat) a.age.toRat a.cs, x.2 < 0) →
      setLens minLen errNeg a = .error .value) ∧
    (¬ (errNeg = true ∧ ∃ x ∈ specLensL (minLen.map Frac.toRat) a.age.toRat a.cs, x.2 < 0) →
      ∃ a', setLens minLen errNeg a = .ok a' ∧
        atLens a' = (a.id, qlen a.len) :: specLensL (minLen.map Frac.toRat) a.age.toRat a.cs) := by
  cases a with
  | node i ag l cs =>
    obtain ⟨h1, h2⟩ := setLensL_spec hm errNeg cs ag hw.1 hw.2
    simp only [AT.age, AT.cs, AT.id, AT.len]
    refine ⟨fun h => by simp [setLens, h1 h], fun h => ?_⟩
    obtain ⟨r, hr, hl⟩ := h2 h
    exact ⟨.node i ag l r, by simp [setLens, hr], by simp [atLens, hl]⟩

/-- Lineages between speciation events on ANY non-negative edge lengths, boundaries included.  As
`lineages_between_speciations`, but zero-length edges are allowed (no `None` below the root): at every `0 < d ≤ H` with
`H − S_j < d ≤ H − S_{j+1}` (so `d` may sit exactly ON the speciation event `H − S_{j+1}`, and tied ages simply give
empty stretches) `num_lineages_at d` is `j + 2` plus the number of zero-length edges lying exactly at distance `d` —
which is what the code's extra test `root_distance == d` adds; with positive lengths that number is 0. -/
theorem lineages_between_speciations_all (t : T) (hw : WFT t) (hnn : NoNone t) (hb : binary t = true) (hpos : NonNeg t)
    (hu : Within 0 t)
    (d : Frac) (hd : d.WF) (hd0 : 0 < d.toRat) (hdH : d.toRat ≤ (fage t).toRat) (j : Nat)
    (hj : j < ((sortDesc (specAges (annot t)).1).map Frac.toRat).length)
    (hlo : (fage t).toRat - ((sortDesc (specAges (annot t)).1).map Frac.toRat).getD j 0 < d.toRat)
    (hhi : d.toRat ≤ (fage t).toRat - ((sortDesc (specAges (annot t)).1).map Frac.toRat).getD (j + 1) 0) :
    numLineagesAt d t = .ok (j + 2 + (edgesL 0 t.cs).countP (zeroAt d.toRat)) := by
  obtain ⟨hperm, _⟩ := specAges_annot t
  have hwfS : ∀ x ∈ (specAges (annot t)).1, x.WF := by
    intro x hx
    obtain ⟨v, _, rfl⟩ := List.mem_map.mp (hperm.subset hx)
    exact fage_wf v
  have hH : (fage t).toRat = fageQ t := fage_toRat t hw
  have htip : ∀ x ∈ tipDists t, (0 : ℚ) + x = (fage t).toRat := by
    intro x hx
    have := abs_nonpos_iff.mp (hu x hx (fageQ t) (fageQ_mem t))
    rw [hH]; linarith
  -- the count over the sorted list equals the count over the internal nodes
  have hcount : ((sortDesc (specAges (annot t)).1).map Frac.toRat).countP
        (fun a => decide ((fage t).toRat - d.toRat < a))
      = (T.nodes t).countP (fun v => !v.isLeaf && decide ((fage t).toRat - d.toRat < fageQ v)) := by
    have hp2 : ((sortDesc (specAges (annot t)).1).map Frac.toRat).Perm
        ((((T.nodes t).filter isBif).map fage).map Frac.toRat) := ((sortDesc_perm _).trans hperm).map _
    rw [hp2.countP_eq, List.countP_map, List.countP_map, List.countP_filter]
    apply List.countP_congr
    intro v hv
    have hvq : (fage v).toRat = fageQ v := fage_toRat v (nodes_wft t hw v hv)
    simp only [Function.comp, hvq, binary_nodes t hb v hv, Bool.and_eq_true, decide_eq_true_eq]
    exact ⟨fun h => ⟨h.2, h.1⟩, fun h => ⟨h.2, h.1⟩⟩
  have hdesc : ((sortDesc (specAges (annot t)).1).map Frac.toRat).Pairwise (fun a b => b ≤ a) :=
    List.pairwise_map.mpr (sortDesc_desc _ hwfS)
  have hS := countP_desc _ j ((fage t).toRat - d.toRat) hdesc hj (by linarith) (fun _ => by linarith)
  cases t with
  | node i x l s cs =>
    cases cs with
    | nil => simp [annot, annotL, specAges, specAgesL, sortDesc] at hj
    | cons c cs =>
      have hc := cross_count_all d.toRat (fage (.node i x l s (c :: cs))).toRat hdH (.node i x l s (c :: cs)) 0 hb hpos htip
      have hi := intBefore_ages d.toRat (fage (.node i x l s (c :: cs))).toRat (.node i x l s (c :: cs)) 0 htip
      rw [lineages_spec_all d hd _ hw hnn]
      have : (fun e : ℚ × ℚ => decide (e.2 = d.toRat ∨ (e.1 < d.toRat ∧ d.toRat ≤ e.2))) = crossAll d.toRat := rfl
      rw [this, hc, hi, ← hcount, hS]
      simp [T.isLeaf, T.cs, hd0]

/-! ## clause (c): statistics equal their definitions -/

/-- `Tree.length` is the sum over all nodes of the edge length (`None` = 0). -/
theorem length_eq_def (t : T) (hw : WFT t) :
    (C17.length t).toRat = ((T.nodes t).map (fun v => qlen v.len)).sum := (length_spec t hw).2

/-- The leaf loop of `sackin_index`/`N_bar` (count the ancestors of every leaf) yields the number of leaves and
Sackin's index in its other textbook form: the sum over internal nodes of the number of leaves below. -/
theorem sackin_eq_def (t : T) : leafAnc 0 t = (nLeaves t, sackinDef t) := by
  simpa using leafAnc_spec t 0

/-- N-bar is Sackin's index divided by the number of leaves, and `sackin_index` offers: raw, per leaf, Yule
(`(S − 2n Σ_{j=2}^{n} 1/j)/n`) and (squared) PDA (`S²/n³`). -/
theorem nbar_eq_def (t : T) :
    nBar t = fdiv (Frac.ofNat (sackinDef t)) (Frac.ofNat (nLeaves t)) ∧
    sackin .none t = .ok (Frac.ofNat (sackinDef t)) ∧
    sackin .mean t = nBar t ∧
    sackin .yule t = fdiv (Frac.ofNat (sackinDef t) - Frac.ofNat (2 * nLeaves t) * harmonicFrom2 (nLeaves t))
      (Frac.ofNat (nLeaves t)) ∧
    sackin .pdaSq t = fdiv (Frac.ofNat (sackinDef t * sackinDef t)) (Frac.ofNat (nLeaves t * nLeaves t * nLeaves t)) := by
  simp [nBar, sackin, sackin_eq_def]

/-- the harmonic part of the Yule normalisation: `Σ_{j=2}^{n} 1/j` -/
theorem harmonic_eq_def : ∀ n : Nat, (harmonicFrom2 n).WF ∧
    (harmonicFrom2 n).toRat = ∑ j ∈ Finset.Icc 2 n, (1 : ℚ) / j
  | 0 => by simp [harmonicFrom2, Frac.zero_wf, Frac.zero_toRat]
  | 1 => by simp [harmonicFrom2, Frac.zero_wf, Frac.zero_toRat]
  | n + 2 => by
    obtain ⟨h1, h2⟩ := harmonic_eq_def (n + 1)
    refine ⟨Frac.add_wf _ _, ?_⟩
    have hs : ∑ j ∈ Finset.Icc 2 (n + 1 + 1), (1 : ℚ) / j
        = ∑ j ∈ Finset.Icc 2 (n + 1), (1 : ℚ) / j + 1 / ((n + 1 + 1 : ℕ) : ℚ) :=
      Finset.sum_Icc_succ_top (by omega) _
    rw [harmonicFrom2, Frac.add_toRat h1 (Frac.mk'_wf _ _), Frac.mk'_toRat _ (by omega), h2, hs]
    · simp
    · omega

/-- Colless: the post-order accumulation succeeds exactly on strictly bifurcating trees and then yields the leaf
count and `Σ_{internal v} |leaves(right) − leaves(left)|`; the `max` normalisation is `2 I / ((n−1)(n−2))`. -/
theorem colless_eq_def (t : T) :
    collessAcc t = (if binary t then .ok (nLeaves t, collessDef t) else .error .nonbinary) ∧
    (binary t = true → colless .none t = .ok (Frac.ofNat (collessDef t))) ∧
    (binary t = true → 3 ≤ nLeaves t →
      ∃ r, colless .max t = .ok r ∧ r.toRat = 2 * (collessDef t : ℚ) / (((nLeaves t : ℚ) - 1) * ((nLeaves t : ℚ) - 2))) := by
  refine ⟨collessAcc_spec t, ?_, ?_⟩
  · intro hb; simp [colless, collessAcc_spec t, hb]
  · intro hb hn
    have hden : ((nLeaves t : Int) * ((nLeaves t : Int) - 3) + 2) ≠ 0 := by nlinarith
    refine ⟨_, by simp [colless, collessAcc_spec t, hb, hden]; rfl, ?_⟩
    rw [Frac.mul_toRat (Frac.ofNat_wf _) (Frac.div_wf _ _), Frac.div_toRat (Frac.ofInt_wf _) (Frac.ofInt_wf _),
      Frac.ofNat_toRat, Frac.ofInt_toRat, Frac.ofInt_toRat]
    have h1 : ((nLeaves t : ℚ) - 1) ≠ 0 := by
      have : (3 : ℚ) ≤ (nLeaves t : ℚ) := by exact_mod_cast hn
      intro h; linarith
    have h2 : ((nLeaves t : ℚ) - 2) ≠ 0 := by
      have : (3 : ℚ) ≤ (nLeaves t : ℚ) := by exact_mod_cast hn
      intro h; linarith
    have h3 : (((nLeaves t : Int) * ((nLeaves t : Int) - 3) + 2 : Int) : ℚ) = ((nLeaves t : ℚ) - 1) * ((nLeaves t : ℚ) - 2) := by
      push_cast; ring
    rw [h3]; push_cast; field_simp

/-- Colless, Yule normalisation: everything but the evaluation of the logarithms.  With `lnN` standing for `ln n` and `k`
for `γ − 1 − ln 2` (handed in as numbers), the value on a strictly bifurcating tree is `I/n − lnN − k`, i.e.
`(I − n ln n − n(γ − 1 − ln 2))/n` as published (Blum, François & Janson 2006). -/
theorem colless_yule_rational (lnN k : Frac) (hl : lnN.WF) (hk : k.WF) (t : T) (hb : binary t = true) :
    ∃ r, collessYuleWith lnN k t = .ok r ∧
      r.toRat = (collessDef t : ℚ) / (nLeaves t : ℚ) - lnN.toRat - k.toRat := by
  have hn : ((nLeaves t : ℕ) : ℚ) ≠ 0 := by exact_mod_cast (Nat.pos_iff_ne_zero.mp (nLeaves_pos t))
  have hwf : (Frac.ofNat (collessDef t) - Frac.ofNat (nLeaves t) * lnN - Frac.ofNat (nLeaves t) * k).WF := Frac.sub_wf _ _
  obtain ⟨r, hr, hq⟩ := fdiv_ok hwf (Frac.ofNat_wf (nLeaves t)) (by rw [Frac.ofNat_toRat]; exact hn)
  refine ⟨r, by simp [collessYuleWith, collessAcc_spec t, hb, hr], ?_⟩
  rw [hq, Frac.sub_toRat (Frac.sub_wf _ _) (Frac.mul_wf _ _), Frac.sub_toRat (Frac.ofNat_wf _) (Frac.mul_wf _ _),
    Frac.mul_toRat (Frac.ofNat_wf _) hl, Frac.mul_toRat (Frac.ofNat_wf _) hk, Frac.ofNat_toRat, Frac.ofNat_toRat]
  field_simp

/-- The PDA normalisations, everything but the square root: the model's value is the square `I²/n³` (Colless, on a
strictly bifurcating tree) resp. `S²/n³` (Sackin), i.e. the published `I/n^{3/2}`, `S/n^{3/2}` squared; and the Yule
normalisation of Sackin is `S/n − 2 Σ_{j=2}^{n} 1/j`, its mean normalisation `S/n`. -/
theorem pda_yule_norms_spec (t : T) :
    (binary t = true → ∃ r, colless .pdaSq t = .ok r ∧ r.toRat = (collessDef t : ℚ) ^ 2 / (nLeaves t : ℚ) ^ 3) ∧
    (∃ r, sackin .pdaSq t = .ok r ∧ r.toRat = (sackinDef t : ℚ) ^ 2 / (nLeaves t : ℚ) ^ 3) ∧
    (∃ r, sackin .yule t = .ok r ∧
      r.toRat = (sackinDef t : ℚ) / (nLeaves t : ℚ) - 2 * ∑ j ∈ Finset.Icc 2 (nLeaves t), (1 : ℚ) / j) ∧
    (∃ r, sackin .mean t = .ok r ∧ r.toRat = (sackinDef t : ℚ) / (nLeaves t : ℚ)) := by
  have hn : ((nLeaves t : ℕ) : ℚ) ≠ 0 := by exact_mod_cast (Nat.pos_iff_ne_zero.mp (nLeaves_pos t))
  have hn3 : ((nLeaves t * nLeaves t * nLeaves t : ℕ) : ℚ) ≠ 0 := by push_cast; positivity
  obtain ⟨hH, hHq⟩ := harmonic_eq_def (nLeaves t)
  refine ⟨fun hb => ?_, ?_, ?_, ?_⟩
  · obtain ⟨r, hr, hq⟩ := fdiv_ok (Frac.ofNat_wf (collessDef t * collessDef t))
      (Frac.ofNat_wf (nLeaves t * nLeaves t * nLeaves t)) (by rw [Frac.ofNat_toRat]; exact hn3)
    refine ⟨r, by simp [colless, collessAcc_spec t, hb, hr], ?_⟩
    rw [hq, Frac.ofNat_toRat, Frac.ofNat_toRat]; push_cast; ring
  · obtain ⟨r, hr, hq⟩ := fdiv_ok (Frac.ofNat_wf (sackinDef t * sackinDef t))
      (Frac.ofNat_wf (nLeaves t * nLeaves t * nLeaves t)) (by rw [Frac.ofNat_toRat]; exact hn3)
    refine ⟨r, by simp [sackin, sackin_eq_def, hr], ?_⟩
    rw [hq, Frac.ofNat_toRat, Frac.ofNat_toRat]; push_cast; ring
  · have hwf : (Frac.ofNat (sackinDef t) - Frac.ofNat (2 * nLeaves t) * harmonicFrom2 (nLeaves t)).WF := Frac.sub_wf _ _
    obtain ⟨r, hr, hq⟩ := fdiv_ok hwf (Frac.ofNat_wf (nLeaves t)) (by rw [Frac.ofNat_toRat]; exact hn)
    refine ⟨r, by simp [sackin, sackin_eq_def, hr], ?_⟩
    rw [hq, Frac.sub_toRat (Frac.ofNat_wf _) (Frac.mul_wf _ _), Frac.mul_toRat (Frac.ofNat_wf _) hH, hHq,
      Frac.ofNat_toRat, Frac.ofNat_toRat, Frac.ofNat_toRat]
    push_cast; field_simp
  · obtain ⟨r, hr, hq⟩ := fdiv_ok (Frac.ofNat_wf (sackinDef t)) (Frac.ofNat_wf (nLeaves t))
      (by rw [Frac.ofNat_toRat]; exact hn)
    exact ⟨r, by simp [sackin, sackin_eq_def, hr], by rw [hq, Frac.ofNat_toRat, Frac.ofNat_toRat]⟩

/-- The ages handed to `set_edge_lengths_from_node_ages` through the protocol: attaching a table of well-formed ages to a
tree yields well-formed `age` attributes on every node (a missing id reads as 0), which is the hypothesis of
`set_lengths_spec`; so that theorem applies to every `setlen` line the driver accepts. -/
theorem with_ages_wellformed (tbl : List (Nat × Frac)) (h : ∀ p ∈ tbl, p.2.WF) (t : T) : AWF (withAges tbl t) :=
  withAges_awf tbl h t

/-- B1 is the sum over the internal nodes other than the root of 1 / (number of edges to the farthest tip below). -/
theorem b1_eq_def (t : T) :
    (b1 t).toRat = (((T.nodesL t.cs).filter (fun v => !v.isLeaf)).map (fun v => (1 : ℚ) / (height v : ℚ))).sum :=
  (b1AccL_spec t.cs).2.2

/-- Treeness is the summed length of internal edges over the summed length of all edges below the root. -/
theorem treeness_eq_def (t : T) (hw : WFT t) (hn : NoNone t) :
    (extLenL t.cs + intLenL t.cs = 0 → treeness t = .error .zerodiv) ∧
    (extLenL t.cs + intLenL t.cs ≠ 0 →
      ∃ r, treeness t = .ok r ∧ r.toRat = intLenL t.cs / (extLenL t.cs + intLenL t.cs)) := by
  cases t with
  | node n x l s cs =>
    simp only [T.cs]
    obtain ⟨i, e, h, hi, he, hiq, heq⟩ := treenessAccL_spec cs hw.2 hn
    have hsum : (e + i).toRat = extLenL cs + intLenL cs := by rw [Frac.add_toRat he hi, hiq, heq]
    have hz := Frac.isZero_iff (Frac.add_wf e i)
    constructor
    · intro h0
      have : (e + i).isZero = true := hz.mpr (by rw [hsum]; exact h0)
      simp [treeness, T.cs, h, fdiv, this]
    · intro h0
      have : (e + i).isZero = false := by
        cases hb : (e + i).isZero with
        | false => rfl
        | true => exact absurd (by rw [← hsum]; exact hz.mp hb) h0
      refine ⟨Frac.div i (e + i), by simp [treeness, T.cs, h, fdiv, this], ?_⟩
      rw [Frac.div_toRat hi (Frac.add_wf _ _), hsum, hiq]

/-- Pybus–Harvey gamma, the loop alone (any list of intervals): its two accumulators compute `T' = Σ_{k} (k+2) g_k` and the double sum
`Σ_{i} Σ_{k ≤ i} (k+2) g_k` over the intervals handed to it (indices from 0 here, i.e. `g_k` of the paper is
`gs[k-2]`). -/
theorem gamma_loop_eq_sums (gs : List Frac) (hg : ∀ g ∈ gs, g.WF) :
    (gammaLoop 2 gs Frac.zero Frac.zero).1.toRat
      = ∑ j ∈ Finset.range gs.length, ((2 + j : ℕ) : ℚ) * (gs.map Frac.toRat).getD j 0 ∧
    (gammaLoop 2 gs Frac.zero Frac.zero).2.toRat
      = ∑ m ∈ Finset.range gs.length, ∑ j ∈ Finset.range (m + 1), ((2 + j : ℕ) : ℚ) * (gs.map Frac.toRat).getD j 0 := by
  obtain ⟨_, _, h3, h4⟩ := gammaLoop_spec gs 2 Frac.zero Frac.zero hg Frac.zero_wf Frac.zero_wf
  rw [h3, h4, Frac.zero_toRat, wsum_eq_sum, dsum_eq_sum]
  simp

/-- Pybus–Harvey gamma end to end.  If `pybus_harvey_gamma` returns a value then, with `S` the ages of the
bifurcating nodes sorted in descending order and `g_j = S_j − S_{j+1}` (`S_len = 0`) the waiting times between
consecutive speciation events, `n` the number of non-bifurcating nodes (the leaves, on a binary tree):
`T = Σ_{j=0}^{n-2} (j+2) g_j`, the numerator is `(1/(n−2)) Σ_{m<n−2} Σ_{j≤m} (j+2) g_j − T/2`, and the returned value
is `sign(num) · num² · 12(n−2) / T²` (the square root stays outside the model; this is `γ·|γ|` when `T > 0`, which
`gamma_succeeds` proves on the statistic's domain — for `T < 0` the sign of γ would be the opposite).
`_partial`: not proved that `g_j` is the time during which the tree has `j+2` lineages (`num_lineages_at`), nor that
`S`'s node ages are tip distances here (that is `ages_exact_spec`). -/
theorem gamma_eq_def_partial (prec : Option Frac) (t : T) {r : Frac} (h : gamma prec t = .ok r) :
    ∃ (num tt : Frac) (n : Nat),
      (sortDesc (specAges (annot t)).1).Perm (((T.nodes t).filter isBif).map fage) ∧
      Desc (sortDesc (specAges (annot t)).1) ∧
      (∀ j, ((intervals (sortDesc (specAges (annot t)).1)).map Frac.toRat).getD j 0
        = ((sortDesc (specAges (annot t)).1).map Frac.toRat).getD j 0
          - ((sortDesc (specAges (annot t)).1).map Frac.toRat).getD (j + 1) 0) ∧
      n = ((T.nodes t).filter (fun v => !isBif v)).length ∧
      ((intervals (sortDesc (specAges (annot t)).1)).map Frac.toRat).length + 1 = n ∧ 3 ≤ n ∧
      tt.toRat = ∑ j ∈ Finset.range ((intervals (sortDesc (specAges (annot t)).1)).map Frac.toRat).length,
        ((2 + j : ℕ) : ℚ) * ((intervals (sortDesc (specAges (annot t)).1)).map Frac.toRat).getD j 0 ∧
      num.toRat = (∑ m ∈ Finset.range ((intervals (sortDesc (specAges (annot t)).1)).dropLast.map Frac.toRat).length,
          ∑ j ∈ Finset.range (m + 1),
            ((2 + j : ℕ) : ℚ) * ((intervals (sortDesc (specAges (annot t)).1)).dropLast.map Frac.toRat).getD j 0)
          / ((n : ℚ) - 2) - tt.toRat / 2 ∧
      tt.toRat ≠ 0 ∧
      r.toRat = (if num.toRat < 0 then -1 else 1) * (num.toRat ^ 2 * (12 * ((n - 2 : ℕ) : ℚ)) / tt.toRat ^ 2) := by
  unfold gamma at h
  rw [calcNodeAges_nonforce rfl rfl] at h
  by_cases hall : allWithin (Cfg.checking ⟨prec, false, false⟩) t = true
  · rw [if_pos hall] at h
    simp only at h
    cases hg : gammaParts (annot t) with
    | error e => rw [hg] at h; cases h
    | ok parts =>
      obtain ⟨num, tt, n⟩ := parts
      rw [hg] at h
      simp only at h
      obtain ⟨hperm, hcount⟩ := specAges_annot t
      have hwfS : ∀ x ∈ (specAges (annot t)).1, x.WF := by
        intro x hx
        obtain ⟨v, _, rfl⟩ := List.mem_map.mp (hperm.subset hx)
        exact fage_wf v
      obtain ⟨hn, hlen, hn3, htt, hnum⟩ := gammaParts_spec (annot t) hwfS hg
      obtain ⟨wn, wt⟩ := gammaParts_wf (annot t) hg
      obtain ⟨hz, hr⟩ := gammaSignedSq_spec wn wt h
      have hwfSorted : ∀ x ∈ sortDesc (specAges (annot t)).1, x.WF :=
        fun x hx => hwfS x ((sortDesc_perm _).subset hx)
      refine ⟨num, tt, n, (sortDesc_perm _).trans hperm, sortDesc_desc _ hwfS,
        intervals_getD _ hwfSorted, by rw [hn, hcount], hlen, hn3, ?_, ?_, hz, hr⟩
      · rw [htt, wsum_eq_sum]
      · rw [hnum, dsum_eq_sum]
  · rw [if_neg hall] at h
    cases h

/-- Pybus–Harvey gamma equals its published definition.  On a strictly bifurcating, exactly ultrametric tree with
positive edge lengths, whenever `pybus_harvey_gamma` returns a value (it does, with `n` = number of leaves, as soon as
there are ≥ 3 leaves: `gamma_succeeds`): everything `gamma_eq_def_partial` states (sorted
speciation ages `S`, `g_j = S_j − S_{j+1}`, `T = Σ (j+2) g_j`, the double sum, `γ·|γ| = sign(num)·num²·12(n−2)/T²`), and
`g_j` is exactly the stretch of distances from the root on which `num_lineages_at` counts `j + 2` lineages. -/
theorem gamma_eq_def (prec : Option Frac) (t : T) (hw : WFT t) (hb : binary t = true) (hpos : Pos t) (hu : Within 0 t)
    {r : Frac} (h : gamma prec t = .ok r) :
    (∃ (num tt : Frac) (n : Nat),
      (sortDesc (specAges (annot t)).1).Perm (((T.nodes t).filter isBif).map fage) ∧
      Desc (sortDesc (specAges (annot t)).1) ∧
      (∀ j, ((intervals (sortDesc (specAges (annot t)).1)).map Frac.toRat).getD j 0
        = ((sortDesc (specAges (annot t)).1).map Frac.toRat).getD j 0
          - ((sortDesc (specAges (annot t)).1).map Frac.toRat).getD (j + 1) 0) ∧
      n = ((T.nodes t).filter (fun v => !isBif v)).length ∧
      ((intervals (sortDesc (specAges (annot t)).1)).map Frac.toRat).length + 1 = n ∧ 3 ≤ n ∧
      tt.toRat = ∑ j ∈ Finset.range ((intervals (sortDesc (specAges (annot t)).1)).map Frac.toRat).length,
        ((2 + j : ℕ) : ℚ) * ((intervals (sortDesc (specAges (annot t)).1)).map Frac.toRat).getD j 0 ∧
      num.toRat = (∑ m ∈ Finset.range ((intervals (sortDesc (specAges (annot t)).1)).dropLast.map Frac.toRat).length,
          ∑ j ∈ Finset.range (m + 1),
            ((2 + j : ℕ) : ℚ) * ((intervals (sortDesc (specAges (annot t)).1)).dropLast.map Frac.toRat).getD j 0)
          / ((n : ℚ) - 2) - tt.toRat / 2 ∧
      tt.toRat ≠ 0 ∧
      r.toRat = (if num.toRat < 0 then -1 else 1) * (num.toRat ^ 2 * (12 * ((n - 2 : ℕ) : ℚ)) / tt.toRat ^ 2)) ∧
    ∀ (d : Frac) (j : Nat), d.WF → 0 < d.toRat → d.toRat ≤ (fage t).toRat →
      j < ((sortDesc (specAges (annot t)).1).map Frac.toRat).length →
      (fage t).toRat - ((sortDesc (specAges (annot t)).1).map Frac.toRat).getD j 0 < d.toRat →
      d.toRat ≤ (fage t).toRat - ((sortDesc (specAges (annot t)).1).map Frac.toRat).getD (j + 1) 0 →
      numLineagesAt d t = .ok (j + 2) :=
  ⟨gamma_eq_def_partial prec t h,
   fun d j hd hd0 hdH hj hlo hhi => lineages_between_speciations t hw hb hpos hu d hd hd0 hdH j hj hlo hhi⟩

/-- `pybus_harvey_gamma` SUCCEEDS on its whole domain: on every strictly bifurcating, exactly ultrametric tree with
positive edge lengths and at least three leaves (any well-formed precision, or none), a value is returned; the `n` of the
formula is the number of leaves and there are `n − 1` speciation ages (the code's `assert len(g) == n - 1` passes), and
`T > 0` so that the sign convention of `gamma_eq_def` is the sign of γ.  This discharges the `gamma … = .ok r`
hypothesis of `gamma_eq_def`. -/
theorem gamma_succeeds (prec : Option Frac) (hprec : ∀ p, prec = some p → p.WF) (t : T) (hw : WFT t)
    (hb : binary t = true) (h3 : 3 ≤ nLeaves t) (hpos : Pos t) (hu : Within 0 t) :
    ∃ r, gamma prec t = .ok r ∧ (specAges (annot t)).2 = nLeaves t ∧ (specAges (annot t)).1.length + 1 = nLeaves t := by
  obtain ⟨hperm, hcount⟩ := specAges_annot t
  obtain ⟨c1, c2⟩ := binary_counts t hb
  have hlen : (specAges (annot t)).1.length + 1 = nLeaves t := by
    rw [hperm.length_eq, List.length_map]; exact c1
  have hn : (specAges (annot t)).2 = nLeaves t := by rw [hcount]; exact c2
  have hwfS : ∀ x ∈ (specAges (annot t)).1, x.WF := by
    intro x hx
    obtain ⟨v, _, rfl⟩ := List.mem_map.mp (hperm.subset hx)
    exact fage_wf v
  have hwS : ∀ x ∈ sortDesc (specAges (annot t)).1, x.WF := fun x hx => hwfS x ((sortDesc_perm _).subset hx)
  rw [gamma_unfold prec hprec t hw hu]
  rcases gammaParts_cases (annot t) hwfS with ⟨t1, _⟩ | ⟨_, t2, _⟩ | ⟨_, _, t3, _⟩ | ⟨t1, _, _, num, tt, tg, wn, wt, htt, _⟩
  · rw [t1] at hlen; simp at hlen; omega
  · exact absurd (hlen.trans hn.symm) t2
  · omega
  · rw [tg]
    simp only
    have hTpos : 0 < tt.toRat := by
      rw [htt, intervals_map _ hwS]
      apply wsum_intervalsQ_pos _ 2 (by omega)
      · intro h0
        have : (sortDesc (specAges (annot t)).1).length = 0 := by
          have := congrArg List.length h0; simpa using this
        rw [(sortDesc_perm _).length_eq] at this
        exact t1 (List.eq_nil_of_length_eq_zero this)
      · exact List.pairwise_map.mpr (sortDesc_desc _ hwfS)
      · intro a ha
        obtain ⟨y, hy, rfl⟩ := List.mem_map.mp ha
        obtain ⟨v, hv, rfl⟩ := List.mem_map.mp (hperm.subset ((sortDesc_perm _).subset hy))
        obtain ⟨hvn, hvb⟩ := List.mem_filter.mp hv
        rw [fage_toRat v (nodes_wft t hw v hvn)]
        apply fageQ_pos v (Pos_nodes t hpos v hvn)
        cases v with
        | node i x l s cs =>
          cases cs with
          | nil => simp [isBif, T.cs] at hvb
          | cons c cs => rfl
    rcases gammaSignedSq_cases (specAges (annot t)).2 wn wt with ⟨z, _⟩ | ⟨_, r, gr, _⟩
    · exact absurd z (ne_of_gt hTpos)
    · exact ⟨r, gr, hn, hlen⟩

/-! ## child-order independence -/

/-- Reordering children anywhere in the tree changes none of: leaf count and Sackin's index (hence N-bar and every
Sackin normalisation), Colless (all normalisations, including the out-of-domain verdict), B1, tree length,
treeness.  `_partial`: the Pybus–Harvey gamma is missing (its ages are child-order independent only on exactly
ultrametric trees; covered by the correspondence/oracle only). -/
theorem stats_perm_invariant_partial {t u : T} (h : Iso t u) :
    (∀ norm, sackin norm t = sackin norm u) ∧ nBar t = nBar u ∧
    (∀ norm, colless norm t = colless norm u) ∧
    (b1 t).toRat = (b1 u).toRat ∧
    (WFT t → WFT u ∧ (C17.length t).toRat = (C17.length u).toRat) ∧
    (WFT t → NoNone t →
      (treeness t = .error .zerodiv ∧ treeness u = .error .zerodiv) ∨
      (∃ r r', treeness t = .ok r ∧ treeness u = .ok r' ∧ r.toRat = r'.toRat)) := by
  have hla : leafAnc 0 t = leafAnc 0 u := congrFun (leafAncStat.invariant h) 0
  have hnl : nLeaves t = nLeaves u := nLeavesStat.invariant h
  have hcol : collessAcc t = collessAcc u := by
    rw [collessAcc_spec, collessAcc_spec, (colless_iso h).1, (colless_iso h).2, hnl]
  have hb1 := b1Stat.invariantL h
  have htr := treenessStat.invariantL h
  simp only [b1Stat, treenessStat, Prod.mk.injEq] at hb1 htr
  refine ⟨fun norm => by simp only [sackin, hla], by simp only [nBar, hla],
    fun norm => by simp only [colless, hcol], ?_, ?_, ?_⟩
  · rw [b1_eq_def, b1_eq_def]; exact hb1.2
  · intro hw
    have hwe : WFT t = WFT u := wftStat.invariant h
    have hwu : WFT u := by rw [← hwe]; exact hw
    exact ⟨hwu, by rw [(length_spec t hw).2, (length_spec u hwu).2]; exact lengthStat.invariant h⟩
  · intro hw hn
    have hwe : WFT t = WFT u := wftStat.invariant h
    have hwu : WFT u := by rw [← hwe]; exact hw
    have hnu : NoNone u := by
      have hL : NoNoneL t.cs = NoNoneL u.cs := noNoneStat.invariantL h
      cases t; cases u
      simp only [NoNone, T.cs] at hn hL ⊢
      rw [← hL]; exact hn
    obtain ⟨t0, t1⟩ := treeness_eq_def t hw hn
    obtain ⟨u0, u1⟩ := treeness_eq_def u hwu hnu
    by_cases hz : extLenL t.cs + intLenL t.cs = 0
    · exact Or.inl ⟨t0 hz, u0 (by rw [← htr.1, ← htr.2]; exact hz)⟩
    · obtain ⟨r, hr, hrq⟩ := t1 hz
      obtain ⟨r', hr', hrq'⟩ := u1 (by rw [← htr.1, ← htr.2]; exact hz)
      exact Or.inr ⟨r, r', hr, hr', by rw [hrq, hrq', htr.1, htr.2]⟩

/-- Child-order independence of the Pybus–Harvey gamma: on an exactly ultrametric tree, reordering children anywhere
leaves the outcome of `pybus_harvey_gamma` unchanged — the same refusal, or the same value (`γ·|γ|` as a rational). -/
theorem gamma_perm_invariant (prec : Option Frac) (hprec : ∀ p, prec = some p → p.WF) {t u : T} (h : Iso t u)
    (hw : WFT t) (hu : Within 0 t) :
    (∀ e, gamma prec t = .error e → gamma prec u = .error e) ∧
    (∀ r, gamma prec t = .ok r → ∃ r', gamma prec u = .ok r' ∧ r'.toRat = r.toRat) := by
  have hwe : WFT t = WFT u := wftStat.invariant h
  have hwu : WFT u := by rw [← hwe]; exact hw
  have huu : Within 0 u := within_of_perm hu (tipDists_iso h)
  obtain ⟨pt, wt_, nt⟩ := specAges_values t hw
  obtain ⟨pu, wu_, nu⟩ := specAges_values u hwu
  have hn : (specAges (annot t)).2 = (specAges (annot u)).2 := by
    rw [nt, nu]; exact nonBifStat.invariant h
  have hpp : ((specAges (annot t)).1.map Frac.toRat).Perm ((specAges (annot u)).1.map Frac.toRat) :=
    (pt.trans (bifAges_iso h hu)).trans pu.symm
  have hlen : (specAges (annot t)).1.length = (specAges (annot u)).1.length := by
    simpa using hpp.length_eq
  have hS := sortDesc_map_eq wt_ wu_ hpp
  have hwS : ∀ x ∈ sortDesc (specAges (annot t)).1, x.WF := fun x hx => wt_ x ((sortDesc_perm _).subset hx)
  have hwS' : ∀ x ∈ sortDesc (specAges (annot u)).1, x.WF := fun x hx => wu_ x ((sortDesc_perm _).subset hx)
  have hg : (intervals (sortDesc (specAges (annot t)).1)).map Frac.toRat
      = (intervals (sortDesc (specAges (annot u)).1)).map Frac.toRat := by
    rw [intervals_map _ hwS, intervals_map _ hwS', hS]
  have hgd : ((intervals (sortDesc (specAges (annot t)).1)).dropLast).map Frac.toRat
      = ((intervals (sortDesc (specAges (annot u)).1)).dropLast).map Frac.toRat := by
    rw [List.map_dropLast, List.map_dropLast, hg]
  have hnil : (specAges (annot t)).1 = [] ↔ (specAges (annot u)).1 = [] := by
    constructor <;> intro h0
    · exact List.eq_nil_of_length_eq_zero (by rw [← hlen, h0]; rfl)
    · exact List.eq_nil_of_length_eq_zero (by rw [hlen, h0]; rfl)
  rw [gamma_unfold prec hprec t hw hu, gamma_unfold prec hprec u hwu huu]
  have same_err : ∀ k : Err, (∀ e, (Except.error k : Except Err Frac) = .error e → (Except.error k : Except Err Frac) = .error e) ∧
      (∀ r, (Except.error k : Except Err Frac) = .ok r → ∃ r', (Except.error k : Except Err Frac) = .ok r' ∧ r'.toRat = r.toRat) :=
    fun k => ⟨fun e he => he, fun r hr => (by cases hr)⟩
  rcases gammaParts_cases (annot t) wt_ with ⟨t1, tg⟩ | ⟨t1, t2, tg⟩ | ⟨t1, t2, t3, tg⟩ | ⟨t1, t2, t3, num, tt, tg, wn, wt, htt, hnum⟩
  · rcases gammaParts_cases (annot u) wu_ with ⟨_, ug⟩ | ⟨u1, _⟩ | ⟨u1, _⟩ | ⟨u1, _⟩
    · rw [tg, ug]; exact same_err _
    all_goals exact absurd (hnil.mp t1) u1
  · rcases gammaParts_cases (annot u) wu_ with ⟨u1, _⟩ | ⟨_, _, ug⟩ | ⟨_, u2, _⟩ | ⟨_, u2, _⟩
    · exact absurd (hnil.mpr u1) t1
    · rw [tg, ug]; exact same_err _
    all_goals (exfalso; omega)
  · rcases gammaParts_cases (annot u) wu_ with ⟨u1, _⟩ | ⟨_, u2, _⟩ | ⟨_, _, _, ug⟩ | ⟨_, _, u3, _⟩
    · exact absurd (hnil.mpr u1) t1
    · exfalso; omega
    · rw [tg, ug]; exact same_err _
    · exfalso; omega
  · rcases gammaParts_cases (annot u) wu_ with ⟨u1, _⟩ | ⟨_, u2, _⟩ | ⟨_, _, u3, _⟩ | ⟨_, _, _, num', tt', ug, wn', wt', htt', hnum'⟩
    · exact absurd (hnil.mpr u1) t1
    · exfalso; omega
    · exfalso; omega
    · rw [tg, ug]
      simp only
      have ett : tt'.toRat = tt.toRat := by rw [htt', htt, hg]
      have enum : num'.toRat = num.toRat := by rw [hnum', hnum, hgd, hn, ett]
      rcases gammaSignedSq_cases (specAges (annot t)).2 wn wt with ⟨z, gz⟩ | ⟨z, r, gr, hr⟩
      · rcases gammaSignedSq_cases (specAges (annot u)).2 wn' wt' with ⟨_, gz'⟩ | ⟨z', _⟩
        · rw [gz, gz']; exact same_err _
        · exact absurd (ett.trans z) z'
      · rcases gammaSignedSq_cases (specAges (annot u)).2 wn' wt' with ⟨z', _⟩ | ⟨_, r', gr', hr'⟩
        · exact absurd (ett.symm.trans z') z
        · rw [gr, gr']
          refine ⟨fun e he => (by cases he), fun r0 hr0 => ⟨r', rfl, ?_⟩⟩
          have : r0 = r := (Except.ok.inj hr0).symm
          rw [this, hr', hr, enum, ett, hn]

/-- Child-order independence of every statistic of the property: everything in `stats_perm_invariant_partial` (Sackin in
all normalisations, N-bar, Colless in all normalisations, B1, tree length, treeness — as the functions the driver runs) and
the Pybus–Harvey gamma (`gamma_perm_invariant`; its definition presupposes an exactly ultrametric tree). -/
theorem stats_perm_invariant {t u : T} (h : Iso t u) :
    ((∀ norm, sackin norm t = sackin norm u) ∧ nBar t = nBar u ∧
    (∀ norm, colless norm t = colless norm u) ∧
    (b1 t).toRat = (b1 u).toRat ∧
    (WFT t → WFT u ∧ (C17.length t).toRat = (C17.length u).toRat) ∧
    (WFT t → NoNone t →
      (treeness t = .error .zerodiv ∧ treeness u = .error .zerodiv) ∨
      (∃ r r', treeness t = .ok r ∧ treeness u = .ok r' ∧ r.toRat = r'.toRat))) ∧
    (∀ prec : Option Frac, (∀ p, prec = some p → p.WF) → WFT t → Within 0 t →
      (∀ e, gamma prec t = .error e → gamma prec u = .error e) ∧
      (∀ r, gamma prec t = .ok r → ∃ r', gamma prec u = .ok r' ∧ r'.toRat = r.toRat)) :=
  ⟨stats_perm_invariant_partial h, fun prec hprec hw hu => gamma_perm_invariant prec hprec h hw hu⟩

/-! ## non-vacuity: the hypotheses above are satisfiable -/

/-- `((A:1,B:1):1,C:2)` -/
def exTree : T :=
  .node 0 none none none
    [.node 1 none (some ⟨1, 1⟩) none [.node 2 (some 0) (some ⟨1, 1⟩) none [], .node 3 (some 1) (some ⟨1, 1⟩) none []],
     .node 4 (some 2) (some ⟨2, 1⟩) none []]

example : WFT exTree ∧ NoNone exTree ∧ Pos exTree ∧ NonNeg exTree ∧ Within 0 exTree ∧ MinOK (some Frac.zero) ∧
    (⟨some Frac.zero, false, false⟩ : Cfg).checking = some Frac.zero := by
  refine ⟨by simp [exTree, WFT, WFTL, olen, Frac.WF, Frac.zero], ?_, ?_, ?_, ?_, ?_, by decide⟩
  · simp [exTree, NoNone, NoNoneL, T.len]
  · simp [exTree, Pos, PosL, T.len, Frac.WF, Frac.toRat]
  · simp [exTree, NonNeg, NonNegL, T.len, qlen, olen, Frac.toRat]
  · intro d hd d' hd'
    simp [exTree, tipDists, tipDistsL, T.len, qlen, olen, Frac.toRat] at hd hd'
    rcases hd with rfl | rfl | rfl <;> rcases hd' with rfl | rfl | rfl <;> norm_num
  · intro m hm; cases hm; exact ⟨Frac.zero_wf, by simp [Frac.zero_toRat]⟩

end DendroModel.C17

namespace DendroModel.C17.Aux
open DendroModel DendroModel.C17
/-- the example tree meets the hypotheses used throughout (kept as a lemma so that the examples below can instantiate the
theorems themselves) -/
theorem exTree_hyps : WFT exTree ∧ NoNone exTree ∧ Pos exTree ∧ NonNeg exTree ∧ Within 0 exTree := by
  refine ⟨by simp [exTree, WFT, WFTL, olen, Frac.WF, Frac.zero], ?_, ?_, ?_, ?_⟩
  · simp [exTree, NoNone, NoNoneL, T.len]
  · simp [exTree, Pos, PosL, T.len, Frac.WF, Frac.toRat]
  · simp [exTree, NonNeg, NonNegL, T.len, qlen, olen, Frac.toRat]
  · intro d hd d' hd'
    simp [exTree, tipDists, tipDistsL, T.len, qlen, olen, Frac.toRat] at hd hd'
    rcases hd with rfl | rfl | rfl <;> rcases hd' with rfl | rfl | rfl <;> norm_num
end DendroModel.C17.Aux

namespace DendroModel.C17
open DendroModel DendroModel.C17.Aux

/-- `lineages_between_speciations` instantiated: on `exTree` (`S = [2, 1]`, `H = 2`), `j = 0`, `d = 1/2` -/
example : numLineagesAt ⟨1, 2⟩ exTree = .ok 2 := by
  obtain ⟨hw, _, hpos, _, hu⟩ := exTree_hyps
  have hS : (sortDesc (specAges (annot exTree)).1).map Frac.toRat = [2, 1] := by
    have : sortDesc (specAges (annot exTree)).1 = [⟨2, 1⟩, ⟨1, 1⟩] := by rfl
    rw [this]; norm_num [Frac.toRat]
  have hH : (fage exTree).toRat = 2 := by
    have : fage exTree = ⟨2, 1⟩ := by rfl
    rw [this]; norm_num [Frac.toRat]
  have hd : (⟨1, 2⟩ : Frac).toRat = 1 / 2 := by norm_num [Frac.toRat]
  exact lineages_between_speciations exTree hw rfl hpos hu ⟨1, 2⟩ (by simp [Frac.WF]) (by rw [hd]; norm_num)
    (by rw [hd, hH]; norm_num) 0 (by rw [hS]; simp) (by rw [hS, hH, hd]; norm_num) (by rw [hS, hH, hd]; norm_num)

/-- `gamma_succeeds` instantiated on `exTree` (3 leaves) -/
example : ∃ r, gamma (some Frac.zero) exTree = .ok r ∧ (specAges (annot exTree)).2 = 3 := by
  obtain ⟨hw, _, hpos, _, hu⟩ := exTree_hyps
  obtain ⟨r, hr, hn, _⟩ := gamma_succeeds (some Frac.zero) (fun p hp => by cases hp; exact Frac.zero_wf) exTree hw rfl
    (by decide) hpos hu
  exact ⟨r, hr, hn⟩

/-- `reject_beyond_bound` instantiated: `(A:1,B:4)` at precision 1 has height 1 and two paths differing by 3 > 2·1·1 -/
example : calcNodeAges ⟨some Frac.one, false, false⟩
    (.node 0 none none none [.node 1 (some 0) (some ⟨1, 1⟩) none [], .node 2 (some 1) (some ⟨4, 1⟩) none []])
    = .error .ultra := by
  apply reject_beyond_bound (p := Frac.one) (d := 1) (d' := 4) _ _ (by simp [Frac.WF, Frac.one]) (by decide)
  · simp [tipDists, tipDistsL, T.len, qlen, olen, Frac.toRat]
  · simp [tipDists, tipDistsL, T.len, qlen, olen, Frac.toRat]
  · norm_num [height, heightL, Frac.toRat, Frac.one]
  · simp [WFT, WFTL, olen, Frac.WF, Frac.zero]

/-- `lineages_spec_all` instantiated on a zero-length edge: a root with one child at distance 0, asked at `d = 0`: the
code counts that edge (head exactly at `d`) -/
example : numLineagesAt Frac.zero (.node 0 none none none [.node 1 (some 0) (some Frac.zero) none []]) = .ok 1 := by
  rw [lineages_spec_all Frac.zero Frac.zero_wf _ (by simp [WFT, WFTL, olen, Frac.WF, Frac.zero])
    (by simp [NoNone, NoNoneL, T.len])]
  simp [T.cs, edgesL, qlen, olen, Frac.toRat, Frac.zero]

/-- `colless_yule_rational` and `pda_yule_norms_spec` instantiated on `exTree` (binary, 3 leaves, Colless 1, Sackin 5) -/
example : (∃ r, collessYuleWith ⟨1, 1⟩ ⟨1, 2⟩ exTree = .ok r ∧ r.toRat = (1 : ℚ) / 3 - 1 - 1 / 2) ∧
    (∃ r, colless .pdaSq exTree = .ok r ∧ r.toRat = (1 : ℚ) ^ 2 / 3 ^ 3) := by
  have hI : collessDef exTree = 1 := by decide
  have hn : nLeaves exTree = 3 := by decide
  constructor
  · obtain ⟨r, hr, hq⟩ := colless_yule_rational ⟨1, 1⟩ ⟨1, 2⟩ (by simp [Frac.WF]) (by simp [Frac.WF]) exTree rfl
    exact ⟨r, hr, by rw [hq, hI, hn]; norm_num [Frac.toRat]⟩
  · obtain ⟨r, hr, hq⟩ := (pda_yule_norms_spec exTree).1 rfl
    exact ⟨r, hr, by rw [hq, hI, hn]; norm_num⟩

/-- `with_ages_wellformed` + `set_lengths_spec` apply to a table as the driver builds it -/
example : AWF (withAges [(0, ⟨2, 1⟩), (1, ⟨1, 1⟩)] exTree) :=
  with_ages_wellformed _ (by intro p hp; simp at hp; rcases hp with rfl | rfl <;> simp [Frac.WF]) exTree

/-- `((A:1,B:1):0,C:1)`: a zero-length internal edge -/
def exZero : T :=
  .node 0 none none none
    [.node 1 none (some ⟨0, 1⟩) none [.node 2 (some 0) (some ⟨1, 1⟩) none [], .node 3 (some 1) (some ⟨1, 1⟩) none []],
     .node 4 (some 2) (some ⟨1, 1⟩) none []]

/-- `lineages_between_speciations_all` instantiated on a tree WITH a zero-length edge (`S = [1, 1]`, `H = 1`), `j = 1`,
`d = 1`: three lineages, no zero-length edge at distance 1 -/
example : numLineagesAt ⟨1, 1⟩ exZero = .ok 3 := by
  have hS : (sortDesc (specAges (annot exZero)).1).map Frac.toRat = [1, 1] := by
    have : sortDesc (specAges (annot exZero)).1 = [⟨1, 1⟩, ⟨1, 1⟩] := by rfl
    rw [this]; norm_num [Frac.toRat]
  have hH : (fage exZero).toRat = 1 := by
    have : fage exZero = ⟨1, 1⟩ := by rfl
    rw [this]; norm_num [Frac.toRat]
  have hd : (⟨1, 1⟩ : Frac).toRat = 1 := by norm_num [Frac.toRat]
  have hw : WFT exZero := by simp [exZero, WFT, WFTL, olen, Frac.WF, Frac.zero]
  have hn : NoNone exZero := by simp [exZero, NoNone, NoNoneL, T.len]
  have hnn : NonNeg exZero := by simp [exZero, NonNeg, NonNegL, T.len, qlen, olen, Frac.toRat]
  have hu : Within 0 exZero := by
    intro d hd d' hd'
    simp [exZero, tipDists, tipDistsL, T.len, qlen, olen, Frac.toRat] at hd hd'
    rcases hd with rfl | rfl | rfl <;> rcases hd' with rfl | rfl | rfl <;> norm_num
  have := lineages_between_speciations_all exZero hw hn rfl hnn hu
    ⟨1, 1⟩ (by simp [Frac.WF]) (by rw [hd]; norm_num) (by rw [hd, hH]) 1 (by rw [hS]; simp)
    (by rw [hS, hH, hd]; norm_num) (by rw [hS, hH, hd]; norm_num)
  rw [this]
  simp [exZero, T.cs, edgesL, zeroAt, qlen, olen, Frac.toRat]

/-- a child-shuffled copy -/
example : Iso exTree (.node 0 none none none
    [.node 4 (some 2) (some ⟨2, 1⟩) none [],
     .node 1 none (some ⟨1, 1⟩) none [.node 2 (some 0) (some ⟨1, 1⟩) none [], .node 3 (some 1) (some ⟨1, 1⟩) none []]]) :=
  Iso.swap 0 none none none [] _ _ []

/-- accumulated drift: `((A:1,B:2):1,C:1)` at precision 1 is accepted although its root-to-tip paths (2, 3, 1) differ
by 2 — `accepted_bound` allows `height · p = 2` (known finding `ultrametricity-drift-accumulates`) -/
example : ∃ a, calcNodeAges ⟨some Frac.one, false, false⟩
    (.node 0 none none none
      [.node 1 none (some ⟨1, 1⟩) none [.node 2 (some 0) (some ⟨1, 1⟩) none [], .node 3 (some 1) (some ⟨2, 1⟩) none []],
       .node 4 (some 2) (some ⟨1, 1⟩) none []]) = .ok a := ⟨_, rfl⟩

/-- `gamma` really returns a value: `((A:1,B:1):1,C:2)` gives γ·|γ| = −3/25 at precision 0 -/
example : gamma (some Frac.zero) exTree = .ok ⟨-3, 25⟩ := by rfl

/-- the hypotheses of `lineages_between_speciations` / `gamma_eq_def` are satisfiable: `exTree` = `((A:1,B:1):1,C:2)` is
binary (and well-formed, positive, exactly ultrametric by the example above), `S = [2, 1]`, `H = 2`, so `j = 0` with
`d = 1/2` meets `H − S_0 = 0 < d ≤ 1 = H − S_1` -/
example : binary exTree = true ∧ (sortDesc (specAges (annot exTree)).1).map Frac.toRat = [2, 1] ∧
    (fage exTree).toRat = 2 ∧ gamma (some Frac.zero) exTree = .ok ⟨-3, 25⟩ := by
  refine ⟨rfl, ?_, ?_, rfl⟩
  · have : sortDesc (specAges (annot exTree)).1 = [⟨2, 1⟩, ⟨1, 1⟩] := by rfl
    rw [this]; norm_num [Frac.toRat]
  · have : fage exTree = ⟨2, 1⟩ := by rfl
    rw [this]; norm_num [Frac.toRat]

/-- the side conditions on the options of `set_edge_lengths_from_node_ages` hold for its defaults (minimum 0.0, no error
flag), for minimum 0 with the flag, and for no minimum without it -/
example : NegOK (some Frac.zero) false ∧ NegOK (some Frac.zero) true ∧ NegOK none false := by
  refine ⟨fun h => (by cases h), fun _ => ⟨Frac.zero, rfl, (by simp [Frac.zero_toRat])⟩, fun h => (by cases h)⟩

/-- `AWF` (every age attribute a well-formed fraction) is satisfiable, and the error branch of `set_lengths_spec` is real:
parent age 1, child age 2, no minimum, error flag set -/
example : AWF (.node 0 ⟨1, 1⟩ none [.node 1 ⟨2, 1⟩ none []]) ∧
    setLens none true (.node 0 ⟨1, 1⟩ none [.node 1 ⟨2, 1⟩ none []]) = .error .value := by
  have haw : AWF (.node 0 ⟨1, 1⟩ none [.node 1 ⟨2, 1⟩ none []]) := by simp [AWF, AWFL, Frac.WF]
  refine ⟨haw, (set_lengths_spec none (fun m h => by cases h) true _ haw).1 ⟨rfl, (1, -1), ?_, by norm_num⟩⟩
  simp [specLensL, newLenQ, AT.age, AT.cs, Frac.toRat]; norm_num

/-- rejection really happens: `(A:1,B:3)` at precision 1 -/
example : calcNodeAges ⟨some Frac.one, false, false⟩
    (.node 0 none none none [.node 1 (some 0) (some ⟨1, 1⟩) none [], .node 2 (some 1) (some ⟨3, 1⟩) none []])
    = .error .ultra := by rfl

end DendroModel.C17

namespace DendroModel.C17.Aux
open DendroModel DendroModel.C17

theorem kabs_eq (x : ℚ) : C17Kernels.kabs x = |x| := by
  unfold C17Kernels.kabs
  split
  · rename_i h; exact (abs_of_neg h).symm
  · rename_i h; exact (abs_of_nonneg (not_lt.mp h)).symm

theorem absDiff_cast (a b : Nat) : ((absDiff a b : ℕ) : ℚ) = |(b : ℚ) - (a : ℚ)| := by
  unfold absDiff
  split
  · rename_i h
    rw [Nat.cast_sub h, abs_of_nonneg]
    have : (a : ℚ) ≤ b := by exact_mod_cast h
    linarith
  · rename_i h
    have h' : b ≤ a := by omega
    rw [Nat.cast_sub h', abs_of_nonpos]
    · ring
    · have : (b : ℚ) ≤ a := by exact_mod_cast h'
      linarith

/-- the regenerated clamp of `set_edge_lengths_from_node_ages` (applied only when a minimum is given) -/
def clampK (m : Option ℚ) (e : ℚ) : ℚ :=
  match m with
  | some m => if C17Kernels.setlenClampTest e m then C17Kernels.setlenClampVal e m else e
  | none => e

theorem clampK_eq (m : Option ℚ) (pa a : ℚ) : clampK m (C17Kernels.setlenRaw pa a) = newLenQ m pa a := by
  cases m with
  | none => simp [clampK, newLenQ, C17Kernels.setlenRaw]
  | some m =>
    simp only [clampK, newLenQ]
    cases hb : C17Kernels.setlenClampTest (C17Kernels.setlenRaw pa a) m
    · have hb' := of_decide_eq_false hb
      simp only [C17Kernels.setlenRaw] at hb'
      simp only [Bool.false_eq_true, if_false, C17Kernels.setlenRaw]
      rw [max_eq_right (by linarith)]
    · have hb' := of_decide_eq_true hb
      simp only [C17Kernels.setlenRaw] at hb'
      simp only [if_true, C17Kernels.setlenClampVal, C17Kernels.setlenRaw]
      rw [max_eq_left (by linarith)]

end DendroModel.C17.Aux

namespace DendroModel.C17
open DendroModel DendroModel.C17.Aux



/-! ## tie A: the kernels regenerated from the current source (`Gen/C17Kernels.lean`) equal the model's -/

/-- B1: the regenerated loop step is the model's: the root is skipped, the accumulator starts at 0, a leaf carries 0, an
internal node whose children's maximum is `m` carries `m + 1` and adds `1/(m + 1)`. -/
theorem bridge_b1 :
    C17Kernels.b1SkipsRoot = true ∧ (b1AccL []).2.toRat = C17Kernels.b1Init ∧
    (∀ i x l s, (((b1Acc (.node i x l s [])).1 : ℕ) : ℚ) = C17Kernels.b1Leaf ∧
      (b1Acc (.node i x l s [])).2.toRat = C17Kernels.b1Init) ∧
    (∀ i x l s c cs, (((b1Acc (.node i x l s (c :: cs))).1 : ℕ) : ℚ) = C17Kernels.b1Node ((b1AccL (c :: cs)).1 : ℚ) ∧
      (b1Acc (.node i x l s (c :: cs))).2.toRat
        = C17Kernels.b1Acc (b1AccL (c :: cs)).2.toRat ((b1AccL (c :: cs)).1 : ℚ)) := by
  refine ⟨by decide, by simp [b1AccL, Frac.zero_toRat, C17Kernels.b1Init], ?_, ?_⟩
  · intro i x l s
    simp [b1Acc, Frac.zero_toRat, C17Kernels.b1Leaf, C17Kernels.b1Init]
  · intro i x l s c cs
    obtain ⟨_, h2, _⟩ := b1AccL_spec (c :: cs)
    constructor
    · simp only [b1Acc, C17Kernels.b1Node]; push_cast; ring
    · simp only [b1Acc, C17Kernels.b1Acc]
      rw [Frac.add_toRat h2 (Frac.mk'_wf _ _), Frac.mk'_toRat _ (Nat.succ_ne_zero _)]
      push_cast; ring

/-- Colless, the loop: arity 2, a leaf counts 1, a node with children (child 0, child 1) of `la`, `lb` leaves counts
`lb + la` and adds `|lb − la|`. -/
theorem bridge_colless_loop :
    C17Kernels.collessArity = 2 ∧
    (∀ i x l s, ∃ n c, collessAcc (.node i x l s []) = .ok (n, c) ∧ (n : ℚ) = C17Kernels.collessLeaf ∧ c = 0 ∧
      C17Kernels.collessLeafCount 0 = 1) ∧
    (∀ i x l s a b la ca lb cb, collessAcc a = .ok (la, ca) → collessAcc b = .ok (lb, cb) →
      ∃ n c, collessAcc (.node i x l s [a, b]) = .ok (n, c) ∧ (n : ℚ) = C17Kernels.collessNode la lb ∧
        (c : ℚ) = C17Kernels.collessAcc ((ca + cb : ℕ) : ℚ) la lb) := by
  refine ⟨rfl, ?_, ?_⟩
  · intro i x l s
    exact ⟨1, 0, by simp [collessAcc], by simp [C17Kernels.collessLeaf], rfl, by simp [C17Kernels.collessLeafCount]⟩
  · intro i x l s a b la ca lb cb ha hb
    refine ⟨lb + la, ca + cb + absDiff lb la, by simp [collessAcc, ha, hb], ?_, ?_⟩
    · simp only [C17Kernels.collessNode]; push_cast; ring
    · simp only [C17Kernels.collessAcc, kabs_eq]; push_cast; rw [absDiff_cast, abs_sub_comm]

/-- Colless, the normalisations: whenever the model returns a value it is the regenerated formula applied to Colless'
index and the leaf count — `max` and raw exactly; `yule` with the two logarithms and Euler's constant handed in
(`k = euler − 1 − ln 2`); `pda` as `collessPdaRat² · collessPdaRad` (the value is `collessPdaRat · √collessPdaRad`). -/
theorem bridge_colless_norms (t : T) :
    (∀ r, colless .none t = .ok r → r.toRat = C17Kernels.collessRaw (collessDef t) (nLeaves t)) ∧
    (∀ r, colless .max t = .ok r → r.toRat = C17Kernels.collessMax (collessDef t) (nLeaves t)) ∧
    (∀ r, colless .pdaSq t = .ok r →
      r.toRat = C17Kernels.collessPdaRat (collessDef t) (nLeaves t) ^ 2 * C17Kernels.collessPdaRad (collessDef t) (nLeaves t)) ∧
    (∀ (lnN k : Frac) (ln2 euler : ℚ) r, lnN.WF → k.WF → k.toRat = euler - 1 - ln2 → collessYuleWith lnN k t = .ok r →
      r.toRat = C17Kernels.collessYule (collessDef t) (nLeaves t) lnN.toRat ln2 euler) := by
  have hn : ((nLeaves t : ℕ) : ℚ) ≠ 0 := by exact_mod_cast (Nat.pos_iff_ne_zero.mp (nLeaves_pos t))
  by_cases hb : binary t = true
  · refine ⟨?_, ?_, ?_, ?_⟩
    · intro r h
      rw [(colless_eq_def t).2.1 hb] at h
      cases h; simp [C17Kernels.collessRaw, Frac.ofNat_toRat]
    · intro r h
      simp only [colless, collessAcc_spec t, hb, if_true] at h
      split at h
      · cases h
      · cases h
        rw [Frac.mul_toRat (Frac.ofNat_wf _) (Frac.div_wf _ _), Frac.div_toRat (Frac.ofInt_wf _) (Frac.ofInt_wf _),
          Frac.ofNat_toRat, Frac.ofInt_toRat, Frac.ofInt_toRat]
        simp only [C17Kernels.collessMax]; push_cast; first | ring | (field_simp; ring)
    · intro r h
      obtain ⟨r', hr', hq⟩ := (pda_yule_norms_spec t).1 hb
      rw [hr'] at h; cases h
      rw [hq]; simp only [C17Kernels.collessPdaRat, C17Kernels.collessPdaRad]; first | (field_simp; ring) | field_simp
    · intro lnN k ln2 euler r hl hk hke h
      obtain ⟨r', hr', hq⟩ := colless_yule_rational lnN k hl hk t hb
      rw [hr'] at h; cases h
      rw [hq, hke]; simp only [C17Kernels.collessYule]; first | (field_simp; ring) | field_simp
  · have hb' : binary t = false := by simpa using hb
    refine ⟨?_, ?_, ?_, ?_⟩ <;> intros <;> simp_all [colless, collessYuleWith, collessAcc_spec t]

/-- The `normalize` argument of `colless_tree_imbalance` / `sackin_index`: which literal selects which branch of the current
source, and the defaults — the mapping the correspondence relies on when it sends `colless max` for the default call and
for `True`, `sackin mean` for the default call, `none` for `None`/`False`. -/
theorem bridge_norm_tables :
    C17Kernels.collessNormTable = [("yule", "yule"), ("pda", "pda"), ("max", "max"), ("True", "max"), ("None", "raw"),
      ("False", "raw"), ("bogus", "refuse")] ∧ C17Kernels.collessDefault = "max" ∧
    C17Kernels.sackinNormTable = [("yule", "yule"), ("pda", "pda"), ("max", "refuse"), ("True", "true"), ("None", "raw"),
      ("False", "raw"), ("bogus", "refuse")] ∧ C17Kernels.sackinDefault = "true" := by
  refine ⟨rfl, rfl, rfl, rfl⟩

/-- `EULERS_CONSTANT` of the current source is Euler's constant to 14 digits. -/
theorem bridge_euler :
    (57721566490153 : ℚ) / 10 ^ 14 < (C17Kernels.eulerNum : ℚ) / C17Kernels.eulerDen ∧
    (C17Kernels.eulerNum : ℚ) / C17Kernels.eulerDen < (57721566490154 : ℚ) / 10 ^ 14 := by
  norm_num [C17Kernels.eulerNum, C17Kernels.eulerDen]

/-- Sackin / N-bar: the leaf loop counts one per leaf and one per proper ancestor (the leaf itself excluded); the harmonic
sum of the Yule normalisation runs over `2 ≤ j < n + 1` with term `1/j`; and every value the model returns is the
regenerated formula applied to Sackin's index `S` and the leaf count `n`. -/
theorem bridge_sackin (t : T) :
    (∀ c : ℚ, C17Kernels.sackinLeafInc c = c + 1 ∧ C17Kernels.sackinAncInc c = c + 1 ∧
      C17Kernels.nbarLeafInc c = c + 1 ∧ C17Kernels.nbarAncInc c = c + 1) ∧
    C17Kernels.sackinAncInclusive = false ∧ C17Kernels.nbarAncInclusive = false ∧
    (∀ n : ℚ, C17Kernels.sackinHarmLo n = 2 ∧ C17Kernels.sackinHarmHi n = n + 1) ∧
    (∀ r, sackin .none t = .ok r → r.toRat = C17Kernels.sackinRaw (sackinDef t) (nLeaves t)) ∧
    (∀ r, sackin .mean t = .ok r → r.toRat = C17Kernels.sackinTrue (sackinDef t) (nLeaves t)) ∧
    (∀ r, nBar t = .ok r → r.toRat = C17Kernels.nbarRet (sackinDef t) (nLeaves t)) ∧
    (∀ r, sackin .yule t = .ok r → r.toRat = C17Kernels.sackinYule (sackinDef t) (nLeaves t)
      (∑ j ∈ Finset.Icc 2 (nLeaves t), C17Kernels.sackinHarmTerm (j : ℚ))) ∧
    (∀ r, sackin .pdaSq t = .ok r →
      r.toRat = C17Kernels.sackinPdaRat (sackinDef t) (nLeaves t) ^ 2 * C17Kernels.sackinPdaRad (sackinDef t) (nLeaves t)) := by
  have hn : ((nLeaves t : ℕ) : ℚ) ≠ 0 := by exact_mod_cast (Nat.pos_iff_ne_zero.mp (nLeaves_pos t))
  obtain ⟨_, ⟨rp, hrp, hqp⟩, ⟨ry, hry, hqy⟩, ⟨rm, hrm, hqm⟩⟩ := pda_yule_norms_spec t
  refine ⟨?_, rfl, rfl, ?_, ?_, ?_, ?_, ?_, ?_⟩
  · intro c
    refine ⟨?_, ?_, ?_, ?_⟩ <;>
      simp only [C17Kernels.sackinLeafInc, C17Kernels.sackinAncInc, C17Kernels.nbarLeafInc, C17Kernels.nbarAncInc] <;>
      first | rfl | ring
  · intro n
    refine ⟨?_, ?_⟩ <;> simp only [C17Kernels.sackinHarmLo, C17Kernels.sackinHarmHi] <;> first | rfl | ring
  · intro r h
    rw [(nbar_eq_def t).2.1] at h; cases h
    simp [C17Kernels.sackinRaw, Frac.ofNat_toRat]
  · intro r h
    rw [hrm] at h; cases h; rw [hqm]; simp [C17Kernels.sackinTrue]
  · intro r h
    rw [← (nbar_eq_def t).2.2.1, hrm] at h; cases h; rw [hqm]; simp [C17Kernels.nbarRet]
  · intro r h
    rw [hry] at h; cases h; rw [hqy]
    simp only [C17Kernels.sackinYule, C17Kernels.sackinHarmTerm]; first | (field_simp; ring) | field_simp
  · intro r h
    rw [hrp] at h; cases h; rw [hqp]
    simp only [C17Kernels.sackinPdaRat, C17Kernels.sackinPdaRad]; first | (field_simp; ring) | field_simp

/-- treeness: the root is skipped; below it a leaf's length goes to `external`, any other node's to `internal`; the result
is `internal / (external + internal)`. -/
theorem bridge_treeness :
    C17Kernels.treenessSkipsRoot = true ∧
    (∀ n x (l : Frac) s cs (i e : Frac), i.WF → e.WF → l.WF → treenessAccL cs = .ok (i, e) →
      ∃ i' e', treenessAcc (.node n x (some l) s cs) = .ok (i', e') ∧
        i'.toRat = (if cs.isEmpty then C17Kernels.treenessLeafInt e.toRat i.toRat l.toRat
                    else C17Kernels.treenessNodeInt e.toRat i.toRat l.toRat) ∧
        e'.toRat = (if cs.isEmpty then C17Kernels.treenessLeafExt e.toRat i.toRat l.toRat
                    else C17Kernels.treenessNodeExt e.toRat i.toRat l.toRat)) ∧
    (∀ t : T, WFT t → NoNone t → ∀ r, treeness t = .ok r →
      r.toRat = C17Kernels.treenessRet (intLenL t.cs) (extLenL t.cs)) := by
  refine ⟨rfl, ?_, ?_⟩
  · intro n x l s cs i e hi he hl h
    by_cases hc : cs.isEmpty = true
    · refine ⟨i, e + l, by simp [treenessAcc, h, hc], by simp [hc, C17Kernels.treenessLeafInt], ?_⟩
      simp [hc, C17Kernels.treenessLeafExt, Frac.add_toRat he hl]
    · have hc' : cs.isEmpty = false := by simpa using hc
      refine ⟨i + l, e, by simp [treenessAcc, h, hc'], ?_, by simp [hc', C17Kernels.treenessNodeExt]⟩
      simp [hc', C17Kernels.treenessNodeInt, Frac.add_toRat hi hl]
  · intro t hw hn r h
    obtain ⟨h0, h1⟩ := treeness_eq_def t hw hn
    by_cases hz : extLenL t.cs + intLenL t.cs = 0
    · rw [h0 hz] at h; cases h
    · obtain ⟨r', hr', hq⟩ := h1 hz
      rw [hr'] at h; cases h
      rw [hq]; simp only [C17Kernels.treenessRet] <;> first | rfl | (congr 1; ring) | (field_simp; ring)

/-- Pybus–Harvey gamma, the loops: bifurcating nodes (arity 2) are the speciation events, every other node is counted;
ages are sorted in descending order; an interval is `older − age`, the last one the youngest age itself; the
accumulation loop runs over `2 ≤ i < n` reading `g[i − 2]`, and one round of the model's `gammaLoop` is the regenerated
round; the last interval read is `g[n − 2]`. -/
theorem bridge_gamma_loop :
    C17Kernels.gammaSpecArity = 2 ∧ C17Kernels.gammaSortDesc = true ∧
    (∀ n : ℚ, C17Kernels.gammaCountInc n = n + 1 ∧ C17Kernels.gammaLoopLo n = 2 ∧ C17Kernels.gammaLoopHi n = n ∧
      C17Kernels.gammaLoopIdx n = n - 2 ∧ C17Kernels.gammaLastIdx n = n - 2) ∧
    C17Kernels.gammaTInit = 0 ∧ C17Kernels.gammaAccumInit = 0 ∧
    (∀ a b r : Frac, a.WF → b.WF → (intervals (a :: b :: [r])).head? = some (a - b) ∧
      (a - b).toRat = C17Kernels.gammaInterval a.toRat b.toRat ∧ C17Kernels.gammaNextOlder a.toRat b.toRat = b.toRat) ∧
    (∀ a : Frac, intervals [a] = [a] ∧ C17Kernels.gammaLast a.toRat = a.toRat) ∧
    (∀ (i : Nat) (g : Frac) (gs : List Frac) (tt acc : Frac), g.WF → tt.WF → acc.WF →
      ∃ tt' acc', gammaLoop i (g :: gs) tt acc = gammaLoop (i + 1) gs tt' acc' ∧
        tt'.toRat = C17Kernels.gammaLoopT tt.toRat acc.toRat i g.toRat ∧
        acc'.toRat = C17Kernels.gammaLoopAccum tt.toRat acc.toRat i g.toRat) := by
  refine ⟨rfl, rfl, ?_, rfl, rfl, ?_, ?_, ?_⟩
  · intro n
    refine ⟨?_, ?_, ?_, ?_, ?_⟩ <;>
      simp only [C17Kernels.gammaCountInc, C17Kernels.gammaLoopLo, C17Kernels.gammaLoopHi, C17Kernels.gammaLoopIdx,
        C17Kernels.gammaLastIdx] <;> first | rfl | ring
  · intro a b r ha hb
    exact ⟨by simp [intervals], by simp [C17Kernels.gammaInterval, Frac.sub_toRat ha hb], rfl⟩
  · intro a; exact ⟨rfl, rfl⟩
  · intro i g gs tt acc hg ht ha
    have hm : (Frac.ofNat i * g).WF := Frac.mul_wf _ _
    have ht' : (tt + Frac.ofNat i * g).WF := Frac.add_wf _ _
    refine ⟨tt + Frac.ofNat i * g, acc + (tt + Frac.ofNat i * g), by simp [gammaLoop], ?_, ?_⟩
    · rw [Frac.add_toRat ht hm, Frac.mul_toRat (Frac.ofNat_wf i) hg, Frac.ofNat_toRat]
      simp only [C17Kernels.gammaLoopT] <;> first | rfl | ring
    · rw [Frac.add_toRat ha ht', Frac.add_toRat ht hm, Frac.mul_toRat (Frac.ofNat_wf i) hg, Frac.ofNat_toRat]
      simp only [C17Kernels.gammaLoopAccum] <;> first | rfl | ring

/-- Pybus–Harvey gamma, the closing formula.  With `T`, `accum` as the loop leaves them, `g` the last interval and
`tt = T + n g` the model's total: the model's numerator `accum/(n−2) − tt/2` and its signed square
`sign(num) · num² · 12 (n−2) / tt²` are the regenerated return value `gammaRetRat · √gammaRetRad`, squared with its sign
(for `tt > 0`, which `gamma_succeeds` proves on the domain). -/
theorem bridge_gamma_ret (T accum n g : ℚ) (hn : n - 2 ≠ 0) (hT : 0 < T + n * g) :
    C17Kernels.gammaTotal T n g = T + n * g ∧
    C17Kernels.gammaRetRat T accum n g ^ 2 * C17Kernels.gammaRetRad T accum n g
      = (accum / (n - 2) - (T + n * g) / 2) ^ 2 * (12 * (n - 2)) / (T + n * g) ^ 2 ∧
    (C17Kernels.gammaRetRat T accum n g < 0 ↔ accum / (n - 2) - (T + n * g) / 2 < 0) := by
  have hT' : T + n * g ≠ 0 := ne_of_gt hT
  refine ⟨rfl, ?_, ?_⟩
  · simp only [C17Kernels.gammaRetRat, C17Kernels.gammaRetRad]; first | (field_simp; ring) | field_simp
  · simp only [C17Kernels.gammaRetRat, mul_one]
    rw [div_neg_iff]
    constructor
    · rintro (⟨_, h⟩ | ⟨h, _⟩)
      · linarith
      · exact h
    · intro h; exact Or.inr ⟨h, hT⟩

/-- `set_edge_lengths_from_node_ages`, one edge: the model's `newLen` is the regenerated difference, clamp test, clamp value
and negativity test; the defaults of the current source are minimum 0, no error. -/
theorem bridge_setlen (minLen : Option Frac) (hm : ∀ m, minLen = some m → m.WF) (errNeg : Bool) (pa a : Frac)
    (hpa : pa.WF) (ha : a.WF) :
    C17Kernels.setlenDefaultMin = 0 ∧ C17Kernels.setlenDefaultErr = false ∧
    (errNeg = true ∧ C17Kernels.setlenNegTest
        (clampK (minLen.map Frac.toRat) (C17Kernels.setlenRaw pa.toRat a.toRat)) = true →
      newLen minLen errNeg pa a = .error .value) ∧
    (¬ (errNeg = true ∧ C17Kernels.setlenNegTest
        (clampK (minLen.map Frac.toRat) (C17Kernels.setlenRaw pa.toRat a.toRat)) = true) →
      ∃ r, newLen minLen errNeg pa a = .ok r ∧
        r.toRat = clampK (minLen.map Frac.toRat) (C17Kernels.setlenRaw pa.toRat a.toRat)) := by
  refine ⟨rfl, rfl, ?_⟩
  obtain ⟨h1, h2⟩ := newLen_spec hm errNeg hpa ha
  simp only [clampK_eq, C17Kernels.setlenNegTest, decide_eq_true_eq]
  refine ⟨fun h => h1 h, fun h => ?_⟩
  obtain ⟨e, he, _, hq⟩ := h2 h
  exact ⟨e, he, hq⟩

/-- `calc_node_ages`, the comparisons: a numeric precision disables the check iff the regenerated test says so; the age from
the first child and the age another child would give are the regenerated sums; a child is rejected iff the regenerated
deviation exceeds the precision by the regenerated comparison. -/
theorem bridge_ultra (p age : Frac) (hp : p.WF) (hage : age.WF) (c : AT) (hc : c.age.WF) (hl : (olen c.len).WF) :
    (Cfg.checking ⟨some p, false, false⟩ = if C17Kernels.precSkips p.toRat then none else some p) ∧
    (c.age + olen c.len).toRat = C17Kernels.ultraFirst c.age.toRat (olen c.len).toRat ∧
    (∀ cs, othersWithin p age (c :: cs) =
      (if C17Kernels.ultraRejects
            (C17Kernels.ultraDev age.toRat (C17Kernels.ultraOther c.age.toRat (olen c.len).toRat)) p.toRat
       then false else othersWithin p age cs)) := by
  refine ⟨?_, ?_, ?_⟩
  · simp only [Cfg.checking, Bool.or_self, Bool.false_eq_true, if_false, C17Kernels.precSkips]
    by_cases h : Frac.lt p Frac.zero = true
    · have := (Frac.lt_iff hp Frac.zero_wf).mp h
      rw [Frac.zero_toRat] at this
      simp [h, this]
    · have hf : Frac.lt p Frac.zero = false := by simpa using h
      have := (Frac.lt_false_iff hp Frac.zero_wf).mp hf
      rw [Frac.zero_toRat] at this
      simp [hf, not_lt.mpr this]
  · simp [C17Kernels.ultraFirst, Frac.add_toRat hc hl]
  · intro cs
    have hs : (c.age + olen c.len).WF := Frac.add_wf _ _
    have hd : (age - (c.age + olen c.len)).WF := Frac.sub_wf _ _
    have hq : (Frac.abs (age - (c.age + olen c.len))).toRat
        = C17Kernels.ultraDev age.toRat (C17Kernels.ultraOther c.age.toRat (olen c.len).toRat) := by
      rw [Frac.abs_toRat, Frac.sub_toRat hage hs, Frac.add_toRat hc hl]
      simp [C17Kernels.ultraDev, C17Kernels.ultraOther, kabs_eq]
    simp only [othersWithin, C17Kernels.ultraRejects, decide_eq_true_eq]
    by_cases h : Frac.lt p (Frac.abs (age - (c.age + olen c.len))) = true
    · have := (Frac.lt_iff hp (Frac.abs_wf hd)).mp h
      rw [hq] at this
      simp [h, this]
    · have hf : Frac.lt p (Frac.abs (age - (c.age + olen c.len))) = false := by simpa using h
      have := (Frac.lt_false_iff hp (Frac.abs_wf hd)).mp hf
      rw [hq] at this
      simp [hf, not_lt.mpr this]

/-- `num_lineages_at`, `calc_node_root_distances`, `resolve_node_depths`, `resolve_node_ages`: the model's edge test and
steps are the regenerated ones. -/
theorem bridge_lineages_depths (d prd rd l : Frac) (hd : d.WF) (hprd : prd.WF) (hrd : rd.WF) (hl : l.WF) :
    crosses d prd rd = C17Kernels.lineageCounts rd.toRat prd.toRat d.toRat ∧
    (∀ k : ℚ, C17Kernels.lineageInc k = k + 1) ∧
    C17Kernels.rootDistRoot = 0 ∧ C17Kernels.depthRoot = 0 ∧
    (l + prd).toRat = C17Kernels.rootDistStep l.toRat prd.toRat ∧
    (l + prd).toRat = C17Kernels.depthStep l.toRat prd.toRat ∧
    (d - rd).toRat = C17Kernels.resolveAge d.toRat rd.toRat := by
  refine ⟨?_, fun k => rfl, rfl, rfl, ?_, ?_, ?_⟩
  · rw [Bool.eq_iff_iff]
    simp only [crosses, C17Kernels.lineageCounts, Bool.or_eq_true, Bool.and_eq_true, decide_eq_true_eq,
      Frac.beq_iff hrd hd, Frac.le_iff hd hrd, Frac.lt_iff hprd hd, ge_iff_le]
  · simp [C17Kernels.rootDistStep, Frac.add_toRat hl hprd]
  · simp [C17Kernels.depthStep, Frac.add_toRat hl hprd]
  · simp [C17Kernels.resolveAge, Frac.sub_toRat hd hrd]



/-! ## list forms and the `Node` methods -/

/-- `Tree.node_ages` / `Tree.internal_node_ages`: they fail exactly when `calc_node_ages` fails (same error); the list is a
permutation of what `calc_node_ages` returns; and without a forcing option it is ascending and is exactly the ages
(first-child chain distances) of all nodes, or of the internal nodes when so requested. -/
theorem node_ages_sorted_spec (cfg : Cfg) (io : Bool) (t : T) :
    (∀ e, nodeAges cfg io t = .error e ↔ calcNodeAges cfg t = .error e) ∧
    (∀ r, nodeAges cfg io t = .ok r → ∃ a, calcNodeAges cfg t = .ok a ∧ r.Perm (a.returned io)) ∧
    (cfg.forceMax = false → cfg.forceMin = false → ∀ r, nodeAges cfg io t = .ok r →
      r.Pairwise (fun x y => x.toRat ≤ y.toRat) ∧
      r.Perm (((T.nodes t).filter (fun v => !io || !v.isLeaf)).map fage)) := by
  refine ⟨?_, ?_, ?_⟩
  · intro e
    unfold nodeAges
    cases calcNodeAges cfg t <;> simp
  · intro r h
    unfold nodeAges at h
    cases hc : calcNodeAges cfg t with
    | error e => rw [hc] at h; cases h
    | ok a =>
      rw [hc] at h
      simp only [Except.ok.injEq] at h
      exact ⟨a, rfl, h ▸ sortAsc_perm _⟩
  · intro h1 h2 r h
    unfold nodeAges at h
    rw [calcNodeAges_nonforce h1 h2] at h
    by_cases hall : allWithin cfg.checking t = true
    · rw [if_pos hall] at h
      simp only [Except.ok.injEq] at h
      have hp : ((annot t).returned io).Perm (((T.nodes t).filter (fun v => !io || !v.isLeaf)).map fage) := by
        have := returned_perm io (annot t)
        rw [flagged_annot, List.filter_map, List.map_map] at this
        exact this
      have hwf : ∀ y ∈ (annot t).returned io, y.WF := by
        intro y hy
        obtain ⟨v, _, rfl⟩ := List.mem_map.mp (hp.subset hy)
        exact fage_wf v
      subst h
      exact ⟨sortAsc_asc _ hwf, (sortAsc_perm _).trans hp⟩
    · rw [if_neg hall] at h
      cases h

/-- `Tree.coalescence_intervals`: the intervals are the first (smallest) age followed by the differences of consecutive
sorted ages: their running sums give back the sorted ages of `node_ages()`, and every difference is non-negative. -/
theorem coal_intervals_spec (t : T) (r : List Frac) (h : coalIntervals t = .ok r) :
    ∃ ages, nodeAges ⟨some defaultPrec, false, false⟩ false t = .ok ages ∧
      runSum 0 (r.map Frac.toRat) = ages.map Frac.toRat ∧ ∀ y ∈ r.tail, 0 ≤ y.toRat := by
  unfold coalIntervals at h
  cases hn : nodeAges ⟨some defaultPrec, false, false⟩ false t with
  | error e => rw [hn] at h; cases h
  | ok ages =>
    rw [hn] at h
    obtain ⟨hasc, hperm⟩ := (node_ages_sorted_spec ⟨some defaultPrec, false, false⟩ false t).2.2 rfl rfl ages hn
    have hwf : ∀ y ∈ ages, y.WF := by
      intro y hy
      obtain ⟨v, _, rfl⟩ := List.mem_map.mp (hperm.subset hy)
      exact fage_wf v
    cases ages with
    | nil => cases h
    | cons a as =>
      simp only [Except.ok.injEq] at h
      subst h
      have ha := hwf a List.mem_cons_self
      have has : ∀ y ∈ as, y.WF := fun y hy => hwf y (List.mem_cons_of_mem _ hy)
      refine ⟨a :: as, rfl, ?_, ?_⟩
      · simp only [List.map_cons, runSum, zero_add]
        rw [runSum_diffsFrom as a ha has]
      · exact diffsFrom_nonneg as a ha has hasc

/-- The list `calc_node_root_distances` returns (pre-order; leaves only or every node) holds the lengths of the paths from the
root (`below`), and `max_distance_from_root` is the larger value of `minmax_leaf_distance_from_root`. -/
theorem root_distance_list_spec (t : T) (hw : WFT t) (hn : NoNone t) (lo : Bool) :
    (∃ r, rootDistList lo t = .ok r ∧
      r.map Frac.toRat = ((below t).filter (fun q => !lo || q.1.isLeaf)).map (·.2)) ∧
    maxDistFromRoot t = (match minmaxLeafDist t with
      | .ok p => .ok p.2
      | .error e => .error e) := by
  obtain ⟨r, hr, hl⟩ := depths_all t Frac.zero Frac.zero_wf hw hn
  constructor
  · refine ⟨(r.filter (fun p => !lo || p.2.1)).map (·.2.2), by simp [rootDistList, rootDepths, hr], ?_⟩
    have h2 := congrArg (List.map (fun p : Nat × Bool × ℚ => (p.2.1, p.2.2))) hl
    simp only [List.map_map, Frac.zero_toRat, add_zero] at h2
    have e1 : (r.filter (fun p => !lo || p.2.1)).map (fun p => p.2.2.toRat)
        = ((r.map (fun p => (p.2.1, p.2.2.toRat))).filter (fun b => !lo || b.1)).map (·.2) := by
      rw [List.filter_map, List.map_map]; rfl
    have e2 : ((below t).filter (fun q => !lo || q.1.isLeaf)).map (·.2)
        = (((below t).map (fun q => (q.1.isLeaf, q.2))).filter (fun b => !lo || b.1)).map (·.2) := by
      rw [List.filter_map, List.map_map]; rfl
    rw [List.map_map, e2]
    have e3 : (Frac.toRat ∘ fun (x : Nat × Bool × Frac) => x.2.2) = fun p => p.2.2.toRat := rfl
    rw [e3, e1]
    congr 2
  · unfold maxDistFromRoot rootDistList minmaxLeafDist
    simp only [rootDepths, hr, Bool.not_true, Bool.false_or]
    cases (r.filter (·.2.1)).map (·.2.2) <;> rfl

/-- `Node.distance_from_tip()` (fresh nodes): the largest distance to a tip below, for every node (`None` length = 0). -/
theorem distance_from_tip_spec (t : T) (hw : WFT t) :
    distFromTip t = (T.nodes t).map (fun v => (v.id, page maxList v)) ∧
    ∀ v ∈ T.nodes t, (tipMax v).toRat ∈ tipDists v ∧ ∀ d ∈ tipDists v, d ≤ (tipMax v).toRat := by
  constructor
  · simp [distFromTip, tipMax_eq_page]
  · intro v hv
    rw [tipMax_eq_page]
    exact page_spec picks_max v (nodes_wft t hw v hv)

/-- `Node.distance_from_root()` (no `None` length below the root): every node answers with the length of its path from the
root PLUS the seed's own edge length (`None` = 0) — the walk up the `parent_node` chain includes the node without
parent.  On a seed without length (or of length 0) this is the distance from the root. -/
theorem distance_from_root_spec (t : T) (hw : WFT t) (hn : NoNone t) :
    (distFromRoot t).map (fun p => (p.1, exRat p.2)) = (below t).map (fun q => (q.1.id, some (q.2 + qlen t.len))) := by
  cases t with
  | node i x l s cs =>
    have hlw : (olen l).WF := hw.1
    have hanc : (olen l + Frac.zero).WF := Frac.add_wf _ _
    obtain ⟨rc, hrc, hl⟩ := depthsL_all cs (olen l + Frac.zero) hanc hw.2 hn
    have hd := distRootL_eq_depths cs (olen l + Frac.zero) l rc hrc
    have h2 := congrArg (List.map (fun p : Nat × Bool × ℚ => (p.1, some p.2.2))) hl
    simp only [List.map_map] at h2
    have hq : (olen l + Frac.zero).toRat = qlen l := by
      rw [Frac.add_toRat hlw Frac.zero_wf, Frac.zero_toRat, add_zero]; rfl
    simp only [distFromRoot, distRoot, below, List.map_cons, hd, List.map_map, T.len, T.id, zero_add]
    congr 1
    · cases l <;> simp [exRat, qlen, olen, Frac.zero_toRat]
    · rw [hq] at h2
      exact h2

/-! ### non-vacuity of the bridge / list-form theorems -/

/-- `bridge_colless_norms`, `bridge_sackin`, `bridge_treeness` on `exTree`: the model does return values there -/
example : (∃ r, colless .max exTree = .ok r) ∧ (∃ r, colless .pdaSq exTree = .ok r) ∧ (∃ r, sackin .yule exTree = .ok r) ∧
    (∃ r, nBar exTree = .ok r) ∧ (∃ r, treeness exTree = .ok r) ∧
    (∃ r, collessYuleWith ⟨1, 1⟩ ⟨-1, 2⟩ exTree = .ok r) ∧ (⟨-1, 2⟩ : Frac).toRat = (1 : ℚ) / 2 - 1 - 0 :=
  ⟨⟨_, rfl⟩, ⟨_, rfl⟩, ⟨_, rfl⟩, ⟨_, rfl⟩, ⟨_, rfl⟩, ⟨_, rfl⟩, by norm_num [Frac.toRat]⟩

/-- `bridge_gamma_ret`: `T = 1`, `accum = 1`, `n = 3`, last interval `1` -/
example : (3 : ℚ) - 2 ≠ 0 ∧ (0 : ℚ) < 1 + 3 * 1 := by norm_num

/-- `bridge_setlen` / `bridge_ultra` / `bridge_lineages_depths`: well-formed fractions exist, a minimum can be given -/
example : (∀ m, (some Frac.zero : Option Frac) = some m → m.WF) ∧ (⟨2, 1⟩ : Frac).WF ∧ (⟨1, 2⟩ : Frac).WF := by
  refine ⟨?_, by simp [Frac.WF], by simp [Frac.WF]⟩
  intro m hm; cases hm; exact Frac.zero_wf

/-- `node_ages_sorted_spec`, `coal_intervals_spec` on `exTree`: ages 0,0,0,1,2 and intervals 0,0,0,1,1 -/
example : nodeAges ⟨some Frac.zero, false, false⟩ false exTree = .ok [⟨0, 1⟩, ⟨0, 1⟩, ⟨0, 1⟩, ⟨1, 1⟩, ⟨2, 1⟩] ∧
    nodeAges ⟨some Frac.zero, false, false⟩ true exTree = .ok [⟨1, 1⟩, ⟨2, 1⟩] ∧
    coalIntervals exTree = .ok [⟨0, 1⟩, ⟨0, 1⟩, ⟨0, 1⟩, ⟨1, 1⟩, ⟨1, 1⟩] := ⟨rfl, rfl, rfl⟩

/-- `root_distance_list_spec`, `distance_from_tip_spec`, `distance_from_root_spec`: `exTree` meets `WFT` and `NoNone`
(`exTree_hyps`); the seed's own length is included by `distance_from_root` -/
example : distFromRoot (.node 0 none (some ⟨3, 1⟩) none [.node 1 (some 0) (some ⟨1, 1⟩) none []])
    = [(0, .ok ⟨3, 1⟩), (1, .ok ⟨4, 1⟩)] ∧ maxDistFromRoot exTree = .ok ⟨2, 1⟩ ∧
    rootDistList false exTree = .ok [⟨0, 1⟩, ⟨1, 1⟩, ⟨2, 1⟩, ⟨2, 1⟩, ⟨2, 1⟩] := ⟨rfl, rfl, rfl⟩

/-- Every age `calc_node_ages` assigns — under ANY configuration: checking, disabled, either forcing option — is a well-formed
number, so `node_ages` / `internal_node_ages` return an ASCENDING list under every configuration (not only without
forcing, as in `node_ages_sorted_spec`), and `set_lengths_spec` applies to every tree `calc_node_ages` produces. -/
theorem node_ages_sorted_any (cfg : Cfg) (io : Bool) (t : T) :
    (∀ a, calcNodeAges cfg t = .ok a → AWF a) ∧
    (∀ r, nodeAges cfg io t = .ok r → r.Pairwise (fun x y => x.toRat ≤ y.toRat)) := by
  have h1 : ∀ a, calcNodeAges cfg t = .ok a → AWF a := by
    intro a h
    unfold calcNodeAges at h
    split at h
    · cases h
    · exact calcAges_awf cfg t a h
  refine ⟨h1, ?_⟩
  intro r h
  unfold nodeAges at h
  cases hc : calcNodeAges cfg t with
  | error e => rw [hc] at h; cases h
  | ok a =>
    rw [hc] at h
    simp only [Except.ok.injEq] at h
    subst h
    exact sortAsc_asc _ (returned_wf io a (h1 a hc))

/-- `node_ages_sorted_any` under a forcing option on a non-ultrametric tree `(A:1,B:3)`: ages 0,0,3 sorted -/
example : nodeAges ⟨none, true, false⟩ false
    (.node 0 none none none [.node 1 (some 0) (some ⟨1, 1⟩) none [], .node 2 (some 1) (some ⟨3, 1⟩) none []])
    = .ok [⟨0, 1⟩, ⟨0, 1⟩, ⟨3, 1⟩] := rfl

/-- Polytomies: EVERY non-first child is compared with the first, not only the last.  `(A:1,B:3,C:1)` with precision 1: the
deviating MIDDLE child makes `calc_node_ages` reject (`reject_iff_local`: `LocalOK` fails at the root), while `(A:1,B:1,C:1)`
is accepted. -/
example : calcNodeAges ⟨some Frac.one, false, false⟩
      (.node 0 none none none [.node 1 (some 0) (some ⟨1, 1⟩) none [], .node 2 (some 1) (some ⟨3, 1⟩) none [],
        .node 3 (some 2) (some ⟨1, 1⟩) none []]) = .error .ultra ∧
    (∃ a, calcNodeAges ⟨some Frac.one, false, false⟩
      (.node 0 none none none [.node 1 (some 0) (some ⟨1, 1⟩) none [], .node 2 (some 1) (some ⟨1, 1⟩) none [],
        .node 3 (some 2) (some ⟨1, 1⟩) none []]) = .ok a) := ⟨rfl, ⟨_, rfl⟩⟩

/-- `reject_iff_local` instantiated on that trifurcation: its hypotheses hold and it yields `¬ LocalOK 1` from the rejection -/
example : ¬ LocalOK (Frac.one).toRat
    (.node 0 none none none [.node 1 (some 0) (some ⟨1, 1⟩) none [], .node 2 (some 1) (some ⟨3, 1⟩) none [],
      .node 3 (some 2) (some ⟨1, 1⟩) none []]) :=
  ((reject_iff_local (cfg := ⟨some Frac.one, false, false⟩) (p := Frac.one) _
    (by simp [WFT, WFTL, olen, Frac.WF, Frac.zero]) (by simp [Frac.WF, Frac.one]) (by decide)).1).mp rfl

end DendroModel.C17
