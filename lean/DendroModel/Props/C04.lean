import DendroModel.Model.C04
import DendroModel.Props.C01
import Mathlib.Data.Finset.SymmDiff
import Mathlib.Data.Finset.Card
import Mathlib.Data.List.Dedup
import Mathlib.Algebra.BigOperators.Group.Finset.Basic
import Mathlib.Algebra.Order.BigOperators.Group.Finset
import Mathlib.Tactic
import Mathlib.Data.Real.Sqrt
import Mathlib.Algebra.Order.BigOperators.Ring.Finset
/-! C04 — property theorems about the distance computations of `Model/C04.lean`. -/
namespace DendroModel.C04.Aux
open DendroModel DendroModel.C04

theorem mem_dedup (l : List Int) (x : Int) : x ∈ dedup l ↔ x ∈ l := by
  induction l with
  | nil => simp [dedup]
  | cons y ys ih =>
    simp only [dedup]
    split
    · rename_i h
      simp only [List.contains_eq_mem, decide_eq_true_eq] at h
      rw [ih, List.mem_cons]
      constructor
      · intro hx; exact Or.inr hx
      · rintro (rfl | hx)
        · exact h
        · exact hx
    · rw [List.mem_cons, List.mem_cons, ih]

theorem nodup_dedup (l : List Int) : (dedup l).Nodup := by
  induction l with
  | nil => simp [dedup]
  | cons y ys ih =>
    simp only [dedup]
    split
    · exact ih
    · rename_i h
      simp only [List.contains_eq_mem, decide_eq_true_eq] at h
      exact List.nodup_cons.mpr ⟨fun hm => h ((mem_dedup ys y).mp hm), ih⟩

theorem one_sided (a b : List Int) :
    ((dedup b).filter (fun s => !a.contains s)).length = (b.toFinset \ a.toFinset).card := by
  have hn : ((dedup b).filter (fun s => !a.contains s)).Nodup := (nodup_dedup b).filter _
  rw [← List.toFinset_card_of_nodup hn]
  congr 1
  ext x
  simp [mem_dedup]

/-! ### split → length maps -/
def keys (m : List (Int × EdgeRec)) : List Int := m.map (·.1)

/-- the length a tree assigns to a split: that of its edge, `None` as 0; 0 when the tree lacks the split -/
def lenAt (m : List (Int × EdgeRec)) (s : Int) : Rat :=
  match lookup m s with
  | some e => e.len.getD 0
  | none => 0

theorem absR_eq (x : Rat) : absR x = |x| := by
  unfold absR
  split
  · rename_i h; rw [abs_of_neg h]
  · rename_i h; rw [abs_of_nonneg (not_lt.mp h)]

theorem lookup_none_iff (m : List (Int × EdgeRec)) (k : Int) : lookup m k = none ↔ k ∉ keys m := by
  unfold lookup keys
  simp only [Option.map_eq_none_iff, List.find?_eq_none, List.mem_map, not_exists, not_and]
  constructor
  · intro h p hp hk; exact h p hp (by simp [hk])
  · intro h p hp hk; exact h p hp (by simpa using hk)

theorem lookup_of_mem {m : List (Int × EdgeRec)} (hn : (keys m).Nodup) {p : Int × EdgeRec} (hp : p ∈ m) :
    lookup m p.1 = some p.2 := by
  induction m with
  | nil => cases hp
  | cons q rest ih =>
    simp only [keys, List.map_cons, List.nodup_cons] at hn
    rcases List.mem_cons.mp hp with rfl | hp'
    · simp [lookup]
    · have hne : q.1 ≠ p.1 := by
        intro he; apply hn.1; rw [he]; exact List.mem_map.mpr ⟨p, hp', rfl⟩
      have := ih hn.2 hp'
      unfold lookup at this ⊢
      rw [List.find?_cons_of_neg]
      · exact this
      · simpa using hne

theorem lookup_some_mem {m : List (Int × EdgeRec)} {k : Int} {e : EdgeRec} (h : lookup m k = some e) : (k, e) ∈ m := by
  unfold lookup at h
  simp only [Option.map_eq_some_iff] at h
  obtain ⟨p, hp, rfl⟩ := h
  have h1 := List.find?_some hp
  have h2 := List.mem_of_find?_eq_some hp
  simp only [beq_iff_eq] at h1
  rw [← h1]; exact h2

theorem keys_dictSet (d : List (Int × EdgeRec)) (k : Int) (v : EdgeRec) :
    keys (dictSet d k v) = if k ∈ keys d then keys d else keys d ++ [k] := by
  induction d with
  | nil => simp [dictSet, keys]
  | cons q rest ih =>
    simp only [dictSet]
    by_cases h : q.1 = k
    · simp [h, keys]
    · have h' : (q.1 == k) = false := by simpa using h
      simp only [h', Bool.false_eq_true, if_false]
      simp only [keys, List.map_cons, List.mem_cons] at ih ⊢
      rw [ih]
      have hk : ¬ k = q.1 := fun e => h e.symm
      by_cases hm : k ∈ List.map (fun x => x.1) rest
      · simp [hm]
      · simp [hm, hk]

theorem nodup_dictSet (d : List (Int × EdgeRec)) (k : Int) (v : EdgeRec) (h : (keys d).Nodup) :
    (keys (dictSet d k v)).Nodup := by
  rw [keys_dictSet]
  split
  · exact h
  · rename_i hk
    exact List.Nodup.append h (by simp) (by simpa using hk)

theorem nodup_edgeMap (es : List EdgeRec) : (keys (edgeMap es)).Nodup := by
  unfold edgeMap
  suffices ∀ d : List (Int × EdgeRec), (keys d).Nodup → (keys (es.foldl (fun d e => dictSet d e.split e) d)).Nodup from
    this [] (by simp [keys])
  induction es with
  | nil => intro d h; exact h
  | cons e rest ih => intro d h; exact ih _ (nodup_dictSet d e.split e h)

theorem keys_edgeMap (es : List EdgeRec) (x : Int) : x ∈ keys (edgeMap es) ↔ x ∈ es.map (·.split) := by
  unfold edgeMap
  suffices ∀ d : List (Int × EdgeRec), x ∈ keys (es.foldl (fun d e => dictSet d e.split e) d) ↔ x ∈ keys d ∨ x ∈ es.map (·.split) by
    simpa [keys] using this []
  induction es with
  | nil => intro d; simp
  | cons e rest ih =>
    intro d
    simp only [List.foldl_cons, ih, keys_dictSet, List.map_cons, List.mem_cons]
    split <;> rename_i hk
    · constructor
      · rintro (h | h); exact Or.inl h; exact Or.inr (Or.inr h)
      · rintro (h | rfl | h); exact Or.inl h; exact Or.inl hk; exact Or.inr h
    · simp only [List.mem_append, List.mem_singleton]; tauto

/-- refusal: some split shared by the two trees carries a missing value on a non-root edge, in either tree -/
def Refused (m1 m2 : List (Int × EdgeRec)) : Prop :=
  ∃ k e1 e2, lookup m1 k = some e1 ∧ lookup m2 k = some e2 ∧ (e1.bad = true ∨ e2.bad = true)

theorem refused_symm (m1 m2 : List (Int × EdgeRec)) : Refused m1 m2 → Refused m2 m1 := by
  rintro ⟨k, e1, e2, h1, h2, h⟩
  exact ⟨k, e2, e1, h2, h1, h.symm⟩

theorem entry_none_iff (m2 : List (Int × EdgeRec)) (p : Int × EdgeRec) :
    entry m2 p = none ↔ ∃ e2, lookup m2 p.1 = some e2 ∧ (p.2.bad = true ∨ e2.bad = true) := by
  unfold entry
  cases h : lookup m2 p.1 with
  | none => simp
  | some e2 =>
    simp only [Option.some.injEq, exists_eq_left']
    cases p.2.bad <;> cases e2.bad <;> simp

theorem entry_some (m1 m2 : List (Int × EdgeRec)) (hn : (keys m1).Nodup) (p : Int × EdgeRec) (hp : p ∈ m1)
    (d : Rat × Rat) (h : entry m2 p = some d) : d = (lenAt m1 p.1, lenAt m2 p.1) := by
  have h1 : lenAt m1 p.1 = p.2.len.getD 0 := by unfold lenAt; rw [lookup_of_mem hn hp]
  rw [h1]
  unfold entry at h
  unfold lenAt
  cases h2 : lookup m2 p.1 with
  | none => rw [h2] at h; simp only [Option.some.injEq] at h; exact h.symm
  | some e2 =>
    rw [h2] at h
    simp only at h
    by_cases hb : (p.2.bad || e2.bad) = true
    · simp [hb] at h
    · simp [hb] at h; exact h.symm

theorem pass1_none_iff (m2 : List (Int × EdgeRec)) : ∀ l : List (Int × EdgeRec),
    pass1 m2 l = none ↔ ∃ p ∈ l, entry m2 p = none
  | [] => by simp [pass1]
  | p :: rest => by
    have ih := pass1_none_iff m2 rest
    simp only [pass1, List.mem_cons, exists_eq_or_imp]
    cases h1 : entry m2 p with
    | none => simp
    | some d =>
      cases h2 : pass1 m2 rest with
      | none => simp only [true_iff, reduceCtorEq, false_or]; exact ih.mp h2
      | some ds =>
        simp only [reduceCtorEq, false_or, false_iff]
        intro hex; rw [ih.mpr hex] at h2; cases h2

theorem pass1_some (m1 m2 : List (Int × EdgeRec)) (hn : (keys m1).Nodup) : ∀ (l : List (Int × EdgeRec)),
    (∀ p ∈ l, p ∈ m1) → ∀ ds, pass1 m2 l = some ds → ds = l.map (fun p => (lenAt m1 p.1, lenAt m2 p.1))
  | [], _, ds, h => by simp [pass1] at h; simp [h]
  | p :: rest, hsub, ds, h => by
    simp only [pass1] at h
    cases h1 : entry m2 p with
    | none => rw [h1] at h; cases h
    | some d =>
      cases h2 : pass1 m2 rest with
      | none => rw [h1, h2] at h; cases h
      | some ds' =>
        rw [h1, h2] at h
        simp only [Option.some.injEq] at h
        rw [← h, entry_some m1 m2 hn p (hsub p (by simp)) d h1,
          pass1_some m1 m2 hn rest (fun q hq => hsub q (by simp [hq])) ds' h2]
        simp

theorem lengthDiffs_none_iff (m1 m2 : List (Int × EdgeRec)) (hn : (keys m1).Nodup) :
    lengthDiffs m1 m2 = none ↔ Refused m1 m2 := by
  unfold lengthDiffs
  rw [Option.map_eq_none_iff, pass1_none_iff]
  constructor
  · rintro ⟨p, hp, he⟩
    obtain ⟨e2, h2, hb⟩ := (entry_none_iff m2 p).mp he
    exact ⟨p.1, p.2, e2, lookup_of_mem hn hp, h2, hb⟩
  · rintro ⟨k, e1, e2, h1, h2, hb⟩
    exact ⟨(k, e1), lookup_some_mem h1, (entry_none_iff m2 (k, e1)).mpr ⟨e2, h2, hb⟩⟩

/-- the per-split term list the two passes produce, as one sum over the union of the two key sets -/
theorem sum_two_passes (m1 m2 : List (Int × EdgeRec)) (hn1 : (keys m1).Nodup) (hn2 : (keys m2).Nodup)
    (g : Rat → Rat → Rat) (ds : List (Rat × Rat)) (h : lengthDiffs m1 m2 = some ds) :
    (ds.map (fun p => g p.1 p.2)).sum
      = ∑ k ∈ (keys m1).toFinset ∪ (keys m2).toFinset, g (lenAt m1 k) (lenAt m2 k) := by
  unfold lengthDiffs at h
  rw [Option.map_eq_some_iff] at h
  obtain ⟨d1, hd1, rfl⟩ := h
  have e1 := pass1_some m1 m2 hn1 m1 (fun p hp => hp) d1 hd1
  subst e1
  -- second pass: keys of m2 outside m1
  have e2 : pass2 m1 m2 = ((keys m2).filter (fun k => k ∉ keys m1)).map (fun k => ((0 : Rat), lenAt m2 k)) := by
    unfold pass2 keys
    rw [List.filter_map, List.map_map]
    have hf : (m2.filter (fun p => (lookup m1 p.1).isNone)) = m2.filter ((fun k => decide (k ∉ List.map (fun x => x.1) m1)) ∘ fun x => x.1) := by
      apply List.filter_congr
      intro p _
      have := lookup_none_iff m1 p.1
      unfold keys at this
      cases hl : lookup m1 p.1 with
      | none => simpa using this.mp hl
      | some e =>
        have hmem := lookup_some_mem hl
        have : p.1 ∈ List.map (fun x => x.1) m1 := List.mem_map.mpr ⟨(p.1, e), hmem, rfl⟩
        simp [this]
    rw [hf]
    apply List.map_congr_left
    intro p hp
    have hp' := (List.mem_filter.mp hp).1
    simp only [Function.comp]
    unfold lenAt
    have := lookup_of_mem hn2 hp'
    unfold keys at this
    rw [this]
  rw [e2, List.map_append, List.sum_append, List.map_map, List.map_map]
  rw [← Finset.union_sdiff_self_eq_union, Finset.sum_union Finset.disjoint_sdiff]
  congr 1
  · rw [List.sum_toFinset _ hn1]
    unfold keys; rw [List.map_map]; rfl
  · have hnf : ((keys m2).filter (fun k => k ∉ keys m1)).Nodup := hn2.filter _
    have hset : (keys m2).toFinset \ (keys m1).toFinset = ((keys m2).filter (fun k => k ∉ keys m1)).toFinset := by
      ext x; simp [and_comm]
    rw [hset, List.sum_toFinset _ hnf]
    apply congrArg
    apply List.map_congr_left
    intro k hk
    have hk' := (List.mem_filter.mp hk).2
    simp only [decide_eq_true_eq] at hk'
    simp only [Function.comp]
    unfold lenAt
    rw [(lookup_none_iff m1 k).mpr hk']

theorem lenAt_zero_of_not_mem (m : List (Int × EdgeRec)) (k : Int) (h : k ∉ keys m) : lenAt m k = 0 := by
  unfold lenAt; rw [(lookup_none_iff m k).mpr h]

/-- Minkowski's inequality for finite sums (from Cauchy–Schwarz) -/
theorem minkowski (s : Finset Int) (x y : Int → ℝ) :
    Real.sqrt (∑ k ∈ s, (x k + y k) ^ 2) ≤ Real.sqrt (∑ k ∈ s, x k ^ 2) + Real.sqrt (∑ k ∈ s, y k ^ 2) := by
  have hA : 0 ≤ ∑ k ∈ s, x k ^ 2 := Finset.sum_nonneg (fun _ _ => sq_nonneg _)
  have hB : 0 ≤ ∑ k ∈ s, y k ^ 2 := Finset.sum_nonneg (fun _ _ => sq_nonneg _)
  have hP : ∑ k ∈ s, x k * y k ≤ Real.sqrt (∑ k ∈ s, x k ^ 2) * Real.sqrt (∑ k ∈ s, y k ^ 2) := by
    have hcs := Finset.sum_mul_sq_le_sq_mul_sq s x y
    calc ∑ k ∈ s, x k * y k ≤ |∑ k ∈ s, x k * y k| := le_abs_self _
      _ = Real.sqrt ((∑ k ∈ s, x k * y k) ^ 2) := (Real.sqrt_sq_eq_abs _).symm
      _ ≤ Real.sqrt ((∑ k ∈ s, x k ^ 2) * ∑ k ∈ s, y k ^ 2) := Real.sqrt_le_sqrt hcs
      _ = _ := Real.sqrt_mul hA _
  have hsum : ∑ k ∈ s, (x k + y k) ^ 2 = (∑ k ∈ s, x k ^ 2) + 2 * (∑ k ∈ s, x k * y k) + ∑ k ∈ s, y k ^ 2 := by
    simp only [add_sq, Finset.sum_add_distrib, Finset.mul_sum]
    congr 2
    apply Finset.sum_congr rfl; intro k _; ring
  rw [hsum, Real.sqrt_le_left (by positivity)]
  nlinarith [Real.sq_sqrt hA, Real.sq_sqrt hB, Real.sqrt_nonneg (∑ k ∈ s, x k ^ 2), Real.sqrt_nonneg (∑ k ∈ s, y k ^ 2)]

end DendroModel.C04.Aux

namespace DendroModel.C04
open DendroModel DendroModel.C04.Aux

/-- false positives / false negatives are the sizes of the two one-sided differences of the split sets -/
theorem fpfn_spec (ref cmp : List Int) :
    (fpfn ref cmp).1 = (cmp.toFinset \ ref.toFinset).card ∧ (fpfn ref cmp).2 = (ref.toFinset \ cmp.toFinset).card :=
  ⟨one_sided ref cmp, one_sided cmp ref⟩

/-- the symmetric-difference distance is the number of splits present in exactly one of the trees -/
theorem rf_eq_card_symmDiff (a b : List Int) : rf a b = (symmDiff a.toFinset b.toFinset).card := by
  unfold rf
  rw [(fpfn_spec a b).1, (fpfn_spec a b).2, symmDiff_def, Finset.sup_eq_union, Finset.card_union_of_disjoint, Nat.add_comm]
  exact disjoint_sdiff_sdiff

theorem rf_symm (a b : List Int) : rf a b = rf b a := by
  rw [rf_eq_card_symmDiff, rf_eq_card_symmDiff, symmDiff_comm]

/-- zero between equal split sets — in particular between a tree and any re-drawing of it
    (`C01.rooted_splits_iff_topology`, `C01.unrooted_splits_invariant_under_inversion`, `C01.suppress_keeps_masks`) -/
theorem rf_zero_iff (a b : List Int) : rf a b = 0 ↔ ∀ x, x ∈ a ↔ x ∈ b := by
  rw [rf_eq_card_symmDiff, Finset.card_eq_zero, ← Finset.bot_eq_empty, symmDiff_eq_bot]
  constructor
  · intro h x; rw [← List.mem_toFinset, h, List.mem_toFinset]
  · intro h; ext x; simp [h x]

/-- triangle inequality -/
theorem rf_triangle (a b c : List Int) : rf a c ≤ rf a b + rf b c := by
  simp only [rf_eq_card_symmDiff]
  calc (symmDiff a.toFinset c.toFinset).card
      ≤ (symmDiff a.toFinset b.toFinset ∪ symmDiff b.toFinset c.toFinset).card :=
        Finset.card_le_card (by
          have := symmDiff_triangle a.toFinset b.toFinset c.toFinset
          simpa using this)
    _ ≤ _ := Finset.card_union_le _ _

/-- the distance is a function of the split *sets*: any two encodings listing the same splits (other order, repeated
    entries, another drawing of the same topology) give the same value -/
theorem rf_congr (a a' b b' : List Int) (ha : ∀ x, x ∈ a ↔ x ∈ a') (hb : ∀ x, x ∈ b ↔ x ∈ b') : rf a b = rf a' b' := by
  have e1 : a.toFinset = a'.toFinset := by ext x; simp [ha x]
  have e2 : b.toFinset = b'.toFinset := by ext x; simp [hb x]
  rw [rf_eq_card_symmDiff, rf_eq_card_symmDiff, e1, e2]

/-- `find_missing_bipartitions` lists exactly the reference splits absent from the comparison tree -/
theorem missing_spec (ref cmp : List Int) (x : Int) : x ∈ missing ref cmp ↔ x ∈ ref ∧ x ∉ cmp := by
  simp [missing]

/-! ### weighted Robinson–Foulds and Euclidean distance -/

/-- the split → edge map of an encoding has one entry per distinct split, and exactly the encoding's splits as keys -/
theorem edgeMap_keys (es : List EdgeRec) :
    (keys (edgeMap es)).Nodup ∧ ∀ x, x ∈ keys (edgeMap es) ↔ x ∈ es.map (·.split) :=
  ⟨nodup_edgeMap es, keys_edgeMap es⟩

/-- weighted RF = L1 norm of the per-split length differences, an absent split counting as length 0 -/
theorem wrf_eq_l1 (m1 m2 : List (Int × EdgeRec)) (hn1 : (keys m1).Nodup) (hn2 : (keys m2).Nodup) (w : Rat)
    (h : wrf m1 m2 = some w) :
    w = ∑ k ∈ (keys m1).toFinset ∪ (keys m2).toFinset, |lenAt m1 k - lenAt m2 k| := by
  unfold wrf at h
  rw [Option.map_eq_some_iff] at h
  obtain ⟨ds, hds, rfl⟩ := h
  have := sum_two_passes m1 m2 hn1 hn2 (fun a b => absR (a - b)) ds hds
  unfold wrfOf; rw [this]
  apply Finset.sum_congr rfl; intro k _; exact absR_eq _

/-- squared Euclidean distance = squared L2 norm of the per-split length differences -/
theorem euclidSq_eq_l2sq (m1 m2 : List (Int × EdgeRec)) (hn1 : (keys m1).Nodup) (hn2 : (keys m2).Nodup) (w : Rat)
    (h : euclidSq m1 m2 = some w) :
    w = ∑ k ∈ (keys m1).toFinset ∪ (keys m2).toFinset, (lenAt m1 k - lenAt m2 k) ^ 2 := by
  unfold euclidSq at h
  rw [Option.map_eq_some_iff] at h
  obtain ⟨ds, hds, rfl⟩ := h
  have := sum_two_passes m1 m2 hn1 hn2 (fun a b => (a - b) * (a - b)) ds hds
  unfold euclidSqOf; rw [this]
  apply Finset.sum_congr rfl; intro k _; ring

/-- trees with missing edge lengths are refused for both argument orders or for neither: refusal happens exactly when
    a split shared by the two trees has a missing value on a non-root edge in either of them -/
theorem defined_symm (m1 m2 : List (Int × EdgeRec)) (hn1 : (keys m1).Nodup) (hn2 : (keys m2).Nodup) :
    ((wrf m1 m2).isSome ↔ (wrf m2 m1).isSome) ∧ ((euclidSq m1 m2).isSome ↔ (euclidSq m2 m1).isSome)
    ∧ (wrf m1 m2 = none ↔ Refused m1 m2) := by
  have key : lengthDiffs m1 m2 = none ↔ lengthDiffs m2 m1 = none := by
    rw [lengthDiffs_none_iff m1 m2 hn1, lengthDiffs_none_iff m2 m1 hn2]
    exact ⟨refused_symm m1 m2, refused_symm m2 m1⟩
  have hs : (lengthDiffs m1 m2).isSome ↔ (lengthDiffs m2 m1).isSome := by
    cases h1 : lengthDiffs m1 m2 <;> cases h2 : lengthDiffs m2 m1 <;> simp_all
  refine ⟨?_, ?_, ?_⟩
  · unfold wrf; simpa using hs
  · unfold euclidSq; simpa using hs
  · unfold wrf; rw [Option.map_eq_none_iff]; exact lengthDiffs_none_iff m1 m2 hn1

/-- symmetric in value -/
theorem wrf_symm (m1 m2 : List (Int × EdgeRec)) (hn1 : (keys m1).Nodup) (hn2 : (keys m2).Nodup) :
    wrf m1 m2 = wrf m2 m1 := by
  have hd := (defined_symm m1 m2 hn1 hn2).1
  cases h12 : wrf m1 m2 with
  | none =>
    cases h21 : wrf m2 m1 with
    | none => rfl
    | some w => rw [h12, h21] at hd; simp at hd
  | some w =>
    cases h21 : wrf m2 m1 with
    | none => rw [h12, h21] at hd; simp at hd
    | some w' =>
      rw [wrf_eq_l1 m1 m2 hn1 hn2 w h12, wrf_eq_l1 m2 m1 hn2 hn1 w' h21, Finset.union_comm]
      congr 1
      apply Finset.sum_congr rfl; intro k _; exact abs_sub_comm _ _

/-- zero on equal inputs (whenever defined) -/
theorem wrf_self (m : List (Int × EdgeRec)) (hn : (keys m).Nodup) (w : Rat) (h : wrf m m = some w) : w = 0 := by
  rw [wrf_eq_l1 m m hn hn w h]; simp

/-- triangle inequality (whenever the three distances are defined) -/
theorem wrf_triangle (m1 m2 m3 : List (Int × EdgeRec)) (hn1 : (keys m1).Nodup) (hn2 : (keys m2).Nodup)
    (hn3 : (keys m3).Nodup) (a b c : Rat) (hab : wrf m1 m2 = some a) (hbc : wrf m2 m3 = some b)
    (hac : wrf m1 m3 = some c) : c ≤ a + b := by
  rw [wrf_eq_l1 m1 m2 hn1 hn2 a hab, wrf_eq_l1 m2 m3 hn2 hn3 b hbc, wrf_eq_l1 m1 m3 hn1 hn3 c hac]
  set K := (keys m1).toFinset ∪ (keys m2).toFinset ∪ (keys m3).toFinset with hK
  have ext : ∀ (x y : List (Int × EdgeRec)), (keys x).toFinset ∪ (keys y).toFinset ⊆ K →
      ∑ k ∈ (keys x).toFinset ∪ (keys y).toFinset, |lenAt x k - lenAt y k| = ∑ k ∈ K, |lenAt x k - lenAt y k| := by
    intro x y hsub
    apply Finset.sum_subset hsub
    intro k _ hk
    simp only [Finset.mem_union, List.mem_toFinset, not_or] at hk
    rw [lenAt_zero_of_not_mem x k hk.1, lenAt_zero_of_not_mem y k hk.2]; simp
  rw [ext m1 m2 (by intro k; simp [hK]; tauto), ext m2 m3 (by intro k; simp [hK]; tauto),
    ext m1 m3 (by intro k; simp [hK]; tauto), ← Finset.sum_add_distrib]
  apply Finset.sum_le_sum
  intro k _
  have : lenAt m1 k - lenAt m3 k = (lenAt m1 k - lenAt m2 k) + (lenAt m2 k - lenAt m3 k) := by ring
  rw [this]; exact abs_add_le _ _

/-- the distances depend on the trees only through their split → length functions -/
theorem wrf_congr (m1 m1' m2 : List (Int × EdgeRec)) (hn1 : (keys m1).Nodup) (hn1' : (keys m1').Nodup)
    (hn2 : (keys m2).Nodup) (hk : ∀ x, x ∈ keys m1 ↔ x ∈ keys m1') (hl : ∀ x, lenAt m1 x = lenAt m1' x)
    (w w' : Rat) (h : wrf m1 m2 = some w) (h' : wrf m1' m2 = some w') : w = w' := by
  rw [wrf_eq_l1 m1 m2 hn1 hn2 w h, wrf_eq_l1 m1' m2 hn1' hn2 w' h']
  have : (keys m1).toFinset = (keys m1').toFinset := by ext x; simp [hk x]
  rw [this]
  apply Finset.sum_congr rfl; intro k _; rw [hl k]

/-- triangle inequality for the Euclidean distance (square roots taken in ℝ; the model computes the squares in ℚ) -/
theorem euclid_triangle (m1 m2 m3 : List (Int × EdgeRec)) (hn1 : (keys m1).Nodup) (hn2 : (keys m2).Nodup)
    (hn3 : (keys m3).Nodup) (a b c : Rat) (hab : euclidSq m1 m2 = some a) (hbc : euclidSq m2 m3 = some b)
    (hac : euclidSq m1 m3 = some c) : Real.sqrt (c : ℝ) ≤ Real.sqrt (a : ℝ) + Real.sqrt (b : ℝ) := by
  rw [euclidSq_eq_l2sq m1 m2 hn1 hn2 a hab, euclidSq_eq_l2sq m2 m3 hn2 hn3 b hbc, euclidSq_eq_l2sq m1 m3 hn1 hn3 c hac]
  set K := (keys m1).toFinset ∪ (keys m2).toFinset ∪ (keys m3).toFinset with hK
  have ext : ∀ (x y : List (Int × EdgeRec)), (keys x).toFinset ∪ (keys y).toFinset ⊆ K →
      ∑ k ∈ (keys x).toFinset ∪ (keys y).toFinset, (lenAt x k - lenAt y k) ^ 2 = ∑ k ∈ K, (lenAt x k - lenAt y k) ^ 2 := by
    intro x y hsub
    apply Finset.sum_subset hsub
    intro k _ hk
    simp only [Finset.mem_union, List.mem_toFinset, not_or] at hk
    rw [lenAt_zero_of_not_mem x k hk.1, lenAt_zero_of_not_mem y k hk.2]; simp
  rw [ext m1 m2 (by intro k; simp [hK]; tauto), ext m2 m3 (by intro k; simp [hK]; tauto),
    ext m1 m3 (by intro k; simp [hK]; tauto)]
  push_cast
  have := minkowski K (fun k => ((lenAt m1 k : ℚ) : ℝ) - (lenAt m2 k : ℝ)) (fun k => ((lenAt m2 k : ℚ) : ℝ) - (lenAt m3 k : ℝ))
  simpa using this

end DendroModel.C04
