import DendroModel.Model.C04
import DendroModel.Model.C04State
import DendroModel.Model.C04Root
import DendroModel.Model.C04Diffs
import DendroModel.Gen.C04Kernels
import DendroModel.Model.C07
import DendroModel.Props.C01
import DendroModel.Theory.C04Bridge
import DendroModel.Theory.C04Nodup
import DendroModel.Theory.C04Seed
import DendroModel.Theory.C04Sum
import DendroModel.Theory.C04UNodup
import Mathlib.Data.Finset.SymmDiff
import Mathlib.Data.Finset.Card
import Mathlib.Data.List.Dedup
import Mathlib.Algebra.BigOperators.Group.Finset.Basic
import Mathlib.Algebra.Order.BigOperators.Group.Finset
import Mathlib.Tactic
import Mathlib.Data.Real.Sqrt
import Mathlib.Algebra.Order.BigOperators.Ring.Finset
/-! C04 — property theorems about the distance computations of `Model/C04.lean`. -/
namespace DendroModel.C04.Aux
open DendroModel DendroModel.C04

theorem mem_dedup (l : List Int) (x : Int) : x ∈ dedup l ↔ x ∈ l := by
  induction l with
  | nil => simp [dedup]
  | cons y ys ih =>
    simp only [dedup]
    split
    · rename_i h
      simp only [List.contains_eq_mem, decide_eq_true_eq] at h
      rw [ih, List.mem_cons]
      constructor
      · intro hx; exact Or.inr hx
      · rintro (rfl | hx)
        · exact h
        · exact hx
    · rw [List.mem_cons, List.mem_cons, ih]

theorem nodup_dedup (l : List Int) : (dedup l).Nodup := by
  induction l with
  | nil => simp [dedup]
  | cons y ys ih =>
    simp only [dedup]
    split
    · exact ih
    · rename_i h
      simp only [List.contains_eq_mem, decide_eq_true_eq] at h
      exact List.nodup_cons.mpr ⟨fun hm => h ((mem_dedup ys y).mp hm), ih⟩

theorem one_sided (a b : List Int) :
    ((dedup b).filter (fun s => !a.contains s)).length = (b.toFinset \ a.toFinset).card := by
  have hn : ((dedup b).filter (fun s => !a.contains s)).Nodup := (nodup_dedup b).filter _
  rw [← List.toFinset_card_of_nodup hn]
  congr 1
  ext x
  simp [mem_dedup]

/-! ### split → length maps -/
def keys (m : List (Int × EdgeRec)) : List Int := m.map (·.1)

/-- the length a tree assigns to a split: that of its edge; 0 when the tree lacks the split.
    Totalisation, stated explicitly: a missing length (`None`) counts as 0 here (`getD 0`).  That is what the code does where it
    does not refuse — on the seed edge and on a split the other tree lacks (`treecompare._get_length_diffs`: `elen = 0`) — so in
    `wrf_eq_l1` / `euclidSq_eq_l2sq` "L1/L2 norm" means: of the length functions with `None` read as 0; on a shared non-root split
    a `None` never reaches the sum because the pair is refused (`defined_symm`). -/
def lenAt (m : List (Int × EdgeRec)) (s : Int) : Rat :=
  match lookup m s with
  | some e => e.len.getD 0
  | none => 0

theorem absR_eq (x : Rat) : absR x = |x| := by
  unfold absR
  split
  · rename_i h; rw [abs_of_neg h]
  · rename_i h; rw [abs_of_nonneg (not_lt.mp h)]

theorem lookup_none_iff (m : List (Int × EdgeRec)) (k : Int) : lookup m k = none ↔ k ∉ keys m := by
  unfold lookup keys
  simp only [Option.map_eq_none_iff, List.find?_eq_none, List.mem_map, not_exists, not_and]
  constructor
  · intro h p hp hk; exact h p hp (by simp [hk])
  · intro h p hp hk; exact h p hp (by simpa using hk)

theorem lookup_of_mem {m : List (Int × EdgeRec)} (hn : (keys m).Nodup) {p : Int × EdgeRec} (hp : p ∈ m) :
    lookup m p.1 = some p.2 := by
  induction m with
  | nil => cases hp
  | cons q rest ih =>
    simp only [keys, List.map_cons, List.nodup_cons] at hn
    rcases List.mem_cons.mp hp with rfl | hp'
    · simp [lookup]
    · have hne : q.1 ≠ p.1 := by
        intro he; apply hn.1; rw [he]; exact List.mem_map.mpr ⟨p, hp', rfl⟩
      have := ih hn.2 hp'
      unfold lookup at this ⊢
      rw [List.find?_cons_of_neg]
      · exact this
      · simpa using hne

theorem lookup_some_mem {m : List (Int × EdgeRec)} {k : Int} {e : EdgeRec} (h : lookup m k = some e) : (k, e) ∈ m := by
  unfold lookup at h
  simp only [Option.map_eq_some_iff] at h
  obtain ⟨p, hp, rfl⟩ := h
  have h1 := List.find?_some hp
  have h2 := List.mem_of_find?_eq_some hp
  simp only [beq_iff_eq] at h1
  rw [← h1]; exact h2

theorem keys_dictSet (d : List (Int × EdgeRec)) (k : Int) (v : EdgeRec) :
    keys (dictSet d k v) = if k ∈ keys d then keys d else keys d ++ [k] := by
  induction d with
  | nil => simp [dictSet, keys]
  | cons q rest ih =>
    simp only [dictSet]
    by_cases h : q.1 = k
    · simp [h, keys]
    · have h' : (q.1 == k) = false := by simpa using h
      simp only [h', Bool.false_eq_true, if_false]
      simp only [keys, List.map_cons, List.mem_cons] at ih ⊢
      rw [ih]
      have hk : ¬ k = q.1 := fun e => h e.symm
      by_cases hm : k ∈ List.map (fun x => x.1) rest
      · simp [hm]
      · simp [hm, hk]

theorem nodup_dictSet (d : List (Int × EdgeRec)) (k : Int) (v : EdgeRec) (h : (keys d).Nodup) :
    (keys (dictSet d k v)).Nodup := by
  rw [keys_dictSet]
  split
  · exact h
  · rename_i hk
    exact List.Nodup.append h (by simp) (by simpa using hk)

theorem nodup_edgeMap (es : List EdgeRec) : (keys (edgeMap es)).Nodup := by
  unfold edgeMap
  suffices ∀ d : List (Int × EdgeRec), (keys d).Nodup → (keys (es.foldl (fun d e => dictSet d e.split e) d)).Nodup from
    this [] (by simp [keys])
  induction es with
  | nil => intro d h; exact h
  | cons e rest ih => intro d h; exact ih _ (nodup_dictSet d e.split e h)

theorem keys_edgeMap (es : List EdgeRec) (x : Int) : x ∈ keys (edgeMap es) ↔ x ∈ es.map (·.split) := by
  unfold edgeMap
  suffices ∀ d : List (Int × EdgeRec), x ∈ keys (es.foldl (fun d e => dictSet d e.split e) d) ↔ x ∈ keys d ∨ x ∈ es.map (·.split) by
    simpa [keys] using this []
  induction es with
  | nil => intro d; simp
  | cons e rest ih =>
    intro d
    simp only [List.foldl_cons, ih, keys_dictSet, List.map_cons, List.mem_cons]
    split <;> rename_i hk
    · constructor
      · rintro (h | h); exact Or.inl h; exact Or.inr (Or.inr h)
      · rintro (h | rfl | h); exact Or.inl h; exact Or.inl hk; exact Or.inr h
    · simp only [List.mem_append, List.mem_singleton]; tauto

/-- refusal: some split shared by the two trees carries a missing value on a non-root edge, in either tree -/
def Refused (m1 m2 : List (Int × EdgeRec)) : Prop :=
  ∃ k e1 e2, lookup m1 k = some e1 ∧ lookup m2 k = some e2 ∧ (e1.bad = true ∨ e2.bad = true)

theorem refused_symm (m1 m2 : List (Int × EdgeRec)) : Refused m1 m2 → Refused m2 m1 := by
  rintro ⟨k, e1, e2, h1, h2, h⟩
  exact ⟨k, e2, e1, h2, h1, h.symm⟩

theorem entry_none_iff (m2 : List (Int × EdgeRec)) (p : Int × EdgeRec) :
    entry m2 p = none ↔ ∃ e2, lookup m2 p.1 = some e2 ∧ (p.2.bad = true ∨ e2.bad = true) := by
  unfold entry
  cases h : lookup m2 p.1 with
  | none => simp
  | some e2 =>
    simp only [Option.some.injEq, exists_eq_left']
    cases p.2.bad <;> cases e2.bad <;> simp

theorem entry_some (m1 m2 : List (Int × EdgeRec)) (hn : (keys m1).Nodup) (p : Int × EdgeRec) (hp : p ∈ m1)
    (d : Rat × Rat) (h : entry m2 p = some d) : d = (lenAt m1 p.1, lenAt m2 p.1) := by
  have h1 : lenAt m1 p.1 = p.2.len.getD 0 := by unfold lenAt; rw [lookup_of_mem hn hp]
  rw [h1]
  unfold entry at h
  unfold lenAt
  cases h2 : lookup m2 p.1 with
  | none => rw [h2] at h; simp only [Option.some.injEq] at h; exact h.symm
  | some e2 =>
    rw [h2] at h
    simp only at h
    by_cases hb : (p.2.bad || e2.bad) = true
    · simp [hb] at h
    · simp [hb] at h; exact h.symm

theorem pass1_none_iff (m2 : List (Int × EdgeRec)) : ∀ l : List (Int × EdgeRec),
    pass1 m2 l = none ↔ ∃ p ∈ l, entry m2 p = none
  | [] => by simp [pass1]
  | p :: rest => by
    have ih := pass1_none_iff m2 rest
    simp only [pass1, List.mem_cons, exists_eq_or_imp]
    cases h1 : entry m2 p with
    | none => simp
    | some d =>
      cases h2 : pass1 m2 rest with
      | none => simp only [true_iff, reduceCtorEq, false_or]; exact ih.mp h2
      | some ds =>
        simp only [reduceCtorEq, false_or, false_iff]
        intro hex; rw [ih.mpr hex] at h2; cases h2

theorem pass1_some (m1 m2 : List (Int × EdgeRec)) (hn : (keys m1).Nodup) : ∀ (l : List (Int × EdgeRec)),
    (∀ p ∈ l, p ∈ m1) → ∀ ds, pass1 m2 l = some ds → ds = l.map (fun p => (lenAt m1 p.1, lenAt m2 p.1))
  | [], _, ds, h => by simp [pass1] at h; simp [h]
  | p :: rest, hsub, ds, h => by
    simp only [pass1] at h
    cases h1 : entry m2 p with
    | none => rw [h1] at h; cases h
    | some d =>
      cases h2 : pass1 m2 rest with
      | none => rw [h1, h2] at h; cases h
      | some ds' =>
        rw [h1, h2] at h
        simp only [Option.some.injEq] at h
        rw [← h, entry_some m1 m2 hn p (hsub p (by simp)) d h1,
          pass1_some m1 m2 hn rest (fun q hq => hsub q (by simp [hq])) ds' h2]
        simp

theorem lengthDiffs_none_iff (m1 m2 : List (Int × EdgeRec)) (hn : (keys m1).Nodup) :
    lengthDiffs m1 m2 = none ↔ Refused m1 m2 := by
  unfold lengthDiffs
  rw [Option.map_eq_none_iff, pass1_none_iff]
  constructor
  · rintro ⟨p, hp, he⟩
    obtain ⟨e2, h2, hb⟩ := (entry_none_iff m2 p).mp he
    exact ⟨p.1, p.2, e2, lookup_of_mem hn hp, h2, hb⟩
  · rintro ⟨k, e1, e2, h1, h2, hb⟩
    exact ⟨(k, e1), lookup_some_mem h1, (entry_none_iff m2 (k, e1)).mpr ⟨e2, h2, hb⟩⟩

/-- the per-split term list the two passes produce, as one sum over the union of the two key sets -/
theorem sum_two_passes (m1 m2 : List (Int × EdgeRec)) (hn1 : (keys m1).Nodup) (hn2 : (keys m2).Nodup)
    (g : Rat → Rat → Rat) (ds : List (Rat × Rat)) (h : lengthDiffs m1 m2 = some ds) :
    (ds.map (fun p => g p.1 p.2)).sum
      = ∑ k ∈ (keys m1).toFinset ∪ (keys m2).toFinset, g (lenAt m1 k) (lenAt m2 k) := by
  unfold lengthDiffs at h
  rw [Option.map_eq_some_iff] at h
  obtain ⟨d1, hd1, rfl⟩ := h
  have e1 := pass1_some m1 m2 hn1 m1 (fun p hp => hp) d1 hd1
  subst e1
  -- second pass: keys of m2 outside m1
  have e2 : pass2 m1 m2 = ((keys m2).filter (fun k => k ∉ keys m1)).map (fun k => ((0 : Rat), lenAt m2 k)) := by
    unfold pass2 keys
    rw [List.filter_map, List.map_map]
    have hf : (m2.filter (fun p => (lookup m1 p.1).isNone)) = m2.filter ((fun k => decide (k ∉ List.map (fun x => x.1) m1)) ∘ fun x => x.1) := by
      apply List.filter_congr
      intro p _
      have := lookup_none_iff m1 p.1
      unfold keys at this
      cases hl : lookup m1 p.1 with
      | none => simpa using this.mp hl
      | some e =>
        have hmem := lookup_some_mem hl
        have : p.1 ∈ List.map (fun x => x.1) m1 := List.mem_map.mpr ⟨(p.1, e), hmem, rfl⟩
        simp [this]
    rw [hf]
    apply List.map_congr_left
    intro p hp
    have hp' := (List.mem_filter.mp hp).1
    simp only [Function.comp]
    unfold lenAt
    have := lookup_of_mem hn2 hp'
    unfold keys at this
    rw [this]
  rw [e2, List.map_append, List.sum_append, List.map_map, List.map_map]
  rw [← Finset.union_sdiff_self_eq_union, Finset.sum_union Finset.disjoint_sdiff]
  congr 1
  · rw [List.sum_toFinset _ hn1]
    unfold keys; rw [List.map_map]; rfl
  · have hnf : ((keys m2).filter (fun k => k ∉ keys m1)).Nodup := hn2.filter _
    have hset : (keys m2).toFinset \ (keys m1).toFinset = ((keys m2).filter (fun k => k ∉ keys m1)).toFinset := by
      ext x; simp [and_comm]
    rw [hset, List.sum_toFinset _ hnf]
    apply congrArg
    apply List.map_congr_left
    intro k hk
    have hk' := (List.mem_filter.mp hk).2
    simp only [decide_eq_true_eq] at hk'
    simp only [Function.comp]
    unfold lenAt
    rw [(lookup_none_iff m1 k).mpr hk']

theorem lenAt_zero_of_not_mem (m : List (Int × EdgeRec)) (k : Int) (h : k ∉ keys m) : lenAt m k = 0 := by
  unfold lenAt; rw [(lookup_none_iff m k).mpr h]

/-- Minkowski's inequality for finite sums (from Cauchy–Schwarz) -/
theorem minkowski (s : Finset Int) (x y : Int → ℝ) :
    Real.sqrt (∑ k ∈ s, (x k + y k) ^ 2) ≤ Real.sqrt (∑ k ∈ s, x k ^ 2) + Real.sqrt (∑ k ∈ s, y k ^ 2) := by
  have hA : 0 ≤ ∑ k ∈ s, x k ^ 2 := Finset.sum_nonneg (fun _ _ => sq_nonneg _)
  have hB : 0 ≤ ∑ k ∈ s, y k ^ 2 := Finset.sum_nonneg (fun _ _ => sq_nonneg _)
  have hP : ∑ k ∈ s, x k * y k ≤ Real.sqrt (∑ k ∈ s, x k ^ 2) * Real.sqrt (∑ k ∈ s, y k ^ 2) := by
    have hcs := Finset.sum_mul_sq_le_sq_mul_sq s x y
    calc ∑ k ∈ s, x k * y k ≤ |∑ k ∈ s, x k * y k| := le_abs_self _
      _ = Real.sqrt ((∑ k ∈ s, x k * y k) ^ 2) := (Real.sqrt_sq_eq_abs _).symm
      _ ≤ Real.sqrt ((∑ k ∈ s, x k ^ 2) * ∑ k ∈ s, y k ^ 2) := Real.sqrt_le_sqrt hcs
      _ = _ := Real.sqrt_mul hA _
  have hsum : ∑ k ∈ s, (x k + y k) ^ 2 = (∑ k ∈ s, x k ^ 2) + 2 * (∑ k ∈ s, x k * y k) + ∑ k ∈ s, y k ^ 2 := by
    simp only [add_sq, Finset.sum_add_distrib, Finset.mul_sum]
    congr 2
    apply Finset.sum_congr rfl; intro k _; ring
  rw [hsum, Real.sqrt_le_left (by positivity)]
  nlinarith [Real.sq_sqrt hA, Real.sq_sqrt hB, Real.sqrt_nonneg (∑ k ∈ s, x k ^ 2), Real.sqrt_nonneg (∑ k ∈ s, y k ^ 2)]

end DendroModel.C04.Aux

namespace DendroModel.C04
open DendroModel DendroModel.C04.Aux

/-- false positives / false negatives are the sizes of the two one-sided differences of the split sets -/
theorem fpfn_spec (ref cmp : List Int) :
    (fpfn ref cmp).1 = (cmp.toFinset \ ref.toFinset).card ∧ (fpfn ref cmp).2 = (ref.toFinset \ cmp.toFinset).card :=
  ⟨one_sided ref cmp, one_sided cmp ref⟩

/-- the symmetric-difference distance is the number of splits present in exactly one of the trees -/
theorem rf_eq_card_symmDiff (a b : List Int) : rf a b = (symmDiff a.toFinset b.toFinset).card := by
  unfold rf
  rw [(fpfn_spec a b).1, (fpfn_spec a b).2, symmDiff_def, Finset.sup_eq_union, Finset.card_union_of_disjoint, Nat.add_comm]
  exact disjoint_sdiff_sdiff

theorem rf_symm (a b : List Int) : rf a b = rf b a := by
  rw [rf_eq_card_symmDiff, rf_eq_card_symmDiff, symmDiff_comm]

/-- zero exactly between equal split SETS (a statement about two lists of integers, nothing more).  That the split sets of two
    trees are equal iff the trees are re-drawings of one another is composed with this lemma elsewhere:
    `rf_zero_iff_topology` (rooted) and `rf_zero_iff_unrooted_topology` (not rooted). -/
theorem rf_zero_iff (a b : List Int) : rf a b = 0 ↔ ∀ x, x ∈ a ↔ x ∈ b := by
  rw [rf_eq_card_symmDiff, Finset.card_eq_zero, ← Finset.bot_eq_empty, symmDiff_eq_bot]
  constructor
  · intro h x; rw [← List.mem_toFinset, h, List.mem_toFinset]
  · intro h; ext x; simp [h x]

/-- triangle inequality -/
theorem rf_triangle (a b c : List Int) : rf a c ≤ rf a b + rf b c := by
  simp only [rf_eq_card_symmDiff]
  calc (symmDiff a.toFinset c.toFinset).card
      ≤ (symmDiff a.toFinset b.toFinset ∪ symmDiff b.toFinset c.toFinset).card :=
        Finset.card_le_card (by
          have := symmDiff_triangle a.toFinset b.toFinset c.toFinset
          simpa using this)
    _ ≤ _ := Finset.card_union_le _ _

/-- the distance is a function of the split *sets*: any two encodings listing the same splits (other order, repeated
    entries, another drawing of the same topology) give the same value -/
theorem rf_congr (a a' b b' : List Int) (ha : ∀ x, x ∈ a ↔ x ∈ a') (hb : ∀ x, x ∈ b ↔ x ∈ b') : rf a b = rf a' b' := by
  have e1 : a.toFinset = a'.toFinset := by ext x; simp [ha x]
  have e2 : b.toFinset = b'.toFinset := by ext x; simp [hb x]
  rw [rf_eq_card_symmDiff, rf_eq_card_symmDiff, e1, e2]

/-- `find_missing_bipartitions` lists exactly the reference splits absent from the comparison tree (little more than the
    definition of `missing` as a filter; kept as the membership form the other theorems use) -/
theorem missing_spec (ref cmp : List Int) (x : Int) : x ∈ missing ref cmp ↔ x ∈ ref ∧ x ∉ cmp := by
  simp [missing]

/-! ### weighted Robinson–Foulds and Euclidean distance -/

/-- the split → edge map of an encoding has one entry per distinct split, and exactly the encoding's splits as keys -/
theorem edgeMap_keys (es : List EdgeRec) :
    (keys (edgeMap es)).Nodup ∧ ∀ x, x ∈ keys (edgeMap es) ↔ x ∈ es.map (·.split) :=
  ⟨nodup_edgeMap es, keys_edgeMap es⟩

/-- weighted RF = L1 norm of the per-split length differences, an absent split counting as length 0 -/
theorem wrf_eq_l1 (m1 m2 : List (Int × EdgeRec)) (hn1 : (keys m1).Nodup) (hn2 : (keys m2).Nodup) (w : Rat)
    (h : wrf m1 m2 = some w) :
    w = ∑ k ∈ (keys m1).toFinset ∪ (keys m2).toFinset, |lenAt m1 k - lenAt m2 k| := by
  unfold wrf at h
  rw [Option.map_eq_some_iff] at h
  obtain ⟨ds, hds, rfl⟩ := h
  have := sum_two_passes m1 m2 hn1 hn2 (fun a b => absR (a - b)) ds hds
  unfold wrfOf; rw [this]
  apply Finset.sum_congr rfl; intro k _; exact absR_eq _

/-- squared Euclidean distance = squared L2 norm of the per-split length differences -/
theorem euclidSq_eq_l2sq (m1 m2 : List (Int × EdgeRec)) (hn1 : (keys m1).Nodup) (hn2 : (keys m2).Nodup) (w : Rat)
    (h : euclidSq m1 m2 = some w) :
    w = ∑ k ∈ (keys m1).toFinset ∪ (keys m2).toFinset, (lenAt m1 k - lenAt m2 k) ^ 2 := by
  unfold euclidSq at h
  rw [Option.map_eq_some_iff] at h
  obtain ⟨ds, hds, rfl⟩ := h
  have := sum_two_passes m1 m2 hn1 hn2 (fun a b => (a - b) * (a - b)) ds hds
  unfold euclidSqOf; rw [this]
  apply Finset.sum_congr rfl; intro k _; ring

/-- trees with missing edge lengths are refused for both argument orders or for neither: refusal happens exactly when
    a split shared by the two trees has a missing value on a non-root edge in either of them -/
theorem defined_symm (m1 m2 : List (Int × EdgeRec)) (hn1 : (keys m1).Nodup) (hn2 : (keys m2).Nodup) :
    ((wrf m1 m2).isSome ↔ (wrf m2 m1).isSome) ∧ ((euclidSq m1 m2).isSome ↔ (euclidSq m2 m1).isSome)
    ∧ (wrf m1 m2 = none ↔ Refused m1 m2) := by
  have key : lengthDiffs m1 m2 = none ↔ lengthDiffs m2 m1 = none := by
    rw [lengthDiffs_none_iff m1 m2 hn1, lengthDiffs_none_iff m2 m1 hn2]
    exact ⟨refused_symm m1 m2, refused_symm m2 m1⟩
  have hs : (lengthDiffs m1 m2).isSome ↔ (lengthDiffs m2 m1).isSome := by
    cases h1 : lengthDiffs m1 m2 <;> cases h2 : lengthDiffs m2 m1 <;> simp_all
  refine ⟨?_, ?_, ?_⟩
  · unfold wrf; simpa using hs
  · unfold euclidSq; simpa using hs
  · unfold wrf; rw [Option.map_eq_none_iff]; exact lengthDiffs_none_iff m1 m2 hn1

/-- symmetric in value -/
theorem wrf_symm (m1 m2 : List (Int × EdgeRec)) (hn1 : (keys m1).Nodup) (hn2 : (keys m2).Nodup) :
    wrf m1 m2 = wrf m2 m1 := by
  have hd := (defined_symm m1 m2 hn1 hn2).1
  cases h12 : wrf m1 m2 with
  | none =>
    cases h21 : wrf m2 m1 with
    | none => rfl
    | some w => rw [h12, h21] at hd; simp at hd
  | some w =>
    cases h21 : wrf m2 m1 with
    | none => rw [h12, h21] at hd; simp at hd
    | some w' =>
      rw [wrf_eq_l1 m1 m2 hn1 hn2 w h12, wrf_eq_l1 m2 m1 hn2 hn1 w' h21, Finset.union_comm]
      congr 1
      apply Finset.sum_congr rfl; intro k _; exact abs_sub_comm _ _

/-- zero on equal inputs (whenever defined) -/
theorem wrf_self (m : List (Int × EdgeRec)) (hn : (keys m).Nodup) (w : Rat) (h : wrf m m = some w) : w = 0 := by
  rw [wrf_eq_l1 m m hn hn w h]; simp

/-- triangle inequality (whenever the three distances are defined) -/
theorem wrf_triangle (m1 m2 m3 : List (Int × EdgeRec)) (hn1 : (keys m1).Nodup) (hn2 : (keys m2).Nodup)
    (hn3 : (keys m3).Nodup) (a b c : Rat) (hab : wrf m1 m2 = some a) (hbc : wrf m2 m3 = some b)
    (hac : wrf m1 m3 = some c) : c ≤ a + b := by
  rw [wrf_eq_l1 m1 m2 hn1 hn2 a hab, wrf_eq_l1 m2 m3 hn2 hn3 b hbc, wrf_eq_l1 m1 m3 hn1 hn3 c hac]
  set K := (keys m1).toFinset ∪ (keys m2).toFinset ∪ (keys m3).toFinset with hK
  have ext : ∀ (x y : List (Int × EdgeRec)), (keys x).toFinset ∪ (keys y).toFinset ⊆ K →
      ∑ k ∈ (keys x).toFinset ∪ (keys y).toFinset, |lenAt x k - lenAt y k| = ∑ k ∈ K, |lenAt x k - lenAt y k| := by
    intro x y hsub
    apply Finset.sum_subset hsub
    intro k _ hk
    simp only [Finset.mem_union, List.mem_toFinset, not_or] at hk
    rw [lenAt_zero_of_not_mem x k hk.1, lenAt_zero_of_not_mem y k hk.2]; simp
  rw [ext m1 m2 (by intro k; simp [hK]; tauto), ext m2 m3 (by intro k; simp [hK]; tauto),
    ext m1 m3 (by intro k; simp [hK]; tauto), ← Finset.sum_add_distrib]
  apply Finset.sum_le_sum
  intro k _
  have : lenAt m1 k - lenAt m3 k = (lenAt m1 k - lenAt m2 k) + (lenAt m2 k - lenAt m3 k) := by ring
  rw [this]; exact abs_add_le _ _

/-- the distances depend on the trees only through their split → length functions -/
theorem wrf_congr (m1 m1' m2 : List (Int × EdgeRec)) (hn1 : (keys m1).Nodup) (hn1' : (keys m1').Nodup)
    (hn2 : (keys m2).Nodup) (hk : ∀ x, x ∈ keys m1 ↔ x ∈ keys m1') (hl : ∀ x, lenAt m1 x = lenAt m1' x)
    (w w' : Rat) (h : wrf m1 m2 = some w) (h' : wrf m1' m2 = some w') : w = w' := by
  rw [wrf_eq_l1 m1 m2 hn1 hn2 w h, wrf_eq_l1 m1' m2 hn1' hn2 w' h']
  have : (keys m1).toFinset = (keys m1').toFinset := by ext x; simp [hk x]
  rw [this]
  apply Finset.sum_congr rfl; intro k _; rw [hl k]

/-- triangle inequality for the Euclidean distance (square roots taken in ℝ; the model computes the squares in ℚ) -/
theorem euclid_triangle (m1 m2 m3 : List (Int × EdgeRec)) (hn1 : (keys m1).Nodup) (hn2 : (keys m2).Nodup)
    (hn3 : (keys m3).Nodup) (a b c : Rat) (hab : euclidSq m1 m2 = some a) (hbc : euclidSq m2 m3 = some b)
    (hac : euclidSq m1 m3 = some c) : Real.sqrt (c : ℝ) ≤ Real.sqrt (a : ℝ) + Real.sqrt (b : ℝ) := by
  rw [euclidSq_eq_l2sq m1 m2 hn1 hn2 a hab, euclidSq_eq_l2sq m2 m3 hn2 hn3 b hbc, euclidSq_eq_l2sq m1 m3 hn1 hn3 c hac]
  set K := (keys m1).toFinset ∪ (keys m2).toFinset ∪ (keys m3).toFinset with hK
  have ext : ∀ (x y : List (Int × EdgeRec)), (keys x).toFinset ∪ (keys y).toFinset ⊆ K →
      ∑ k ∈ (keys x).toFinset ∪ (keys y).toFinset, (lenAt x k - lenAt y k) ^ 2 = ∑ k ∈ K, (lenAt x k - lenAt y k) ^ 2 := by
    intro x y hsub
    apply Finset.sum_subset hsub
    intro k _ hk
    simp only [Finset.mem_union, List.mem_toFinset, not_or] at hk
    rw [lenAt_zero_of_not_mem x k hk.1, lenAt_zero_of_not_mem y k hk.2]; simp
  rw [ext m1 m2 (by intro k; simp [hK]; tauto), ext m2 m3 (by intro k; simp [hK]; tauto),
    ext m1 m3 (by intro k; simp [hK]; tauto)]
  push_cast
  have := minkowski K (fun k => ((lenAt m1 k : ℚ) : ℝ) - (lenAt m2 k : ℝ)) (fun k => ((lenAt m2 k : ℚ) : ℝ) - (lenAt m3 k : ℝ))
  simpa using this

end DendroModel.C04

/-! ## strengthening after audit H: bridges to the driver's `edgeRecs`, Euclid corollaries, child-order invariance -/
namespace DendroModel.C04.Aux
open DendroModel DendroModel.C04

theorem refused_congr_left {m1 m1' m2 : List (Int × EdgeRec)} (h : ∀ k, lookup m1 k = lookup m1' k) :
    Refused m1 m2 ↔ Refused m1' m2 := by
  constructor
  · rintro ⟨k, e1, e2, h1, h2, hb⟩; exact ⟨k, e1, e2, by rw [← h k]; exact h1, h2, hb⟩
  · rintro ⟨k, e1, e2, h1, h2, hb⟩; exact ⟨k, e1, e2, by rw [h k]; exact h1, h2, hb⟩

theorem keys_of_lookup_eq {m1 m1' : List (Int × EdgeRec)} (h : ∀ k, lookup m1 k = lookup m1' k) (x : Int) :
    x ∈ keys m1 ↔ x ∈ keys m1' := by
  have a := lookup_none_iff m1 x
  have b := lookup_none_iff m1' x
  rw [h x] at a
  constructor
  · intro hx; by_contra hn; exact (a.mp (b.mpr hn)) hx
  · intro hx; by_contra hn; exact (b.mp (a.mpr hn)) hx

theorem lenAt_of_lookup_eq {m1 m1' : List (Int × EdgeRec)} (h : ∀ k, lookup m1 k = lookup m1' k) (x : Int) :
    lenAt m1 x = lenAt m1' x := by unfold lenAt; rw [h x]

/-- both distances are functions of the first tree's split → edge *lookup function* only (not of the order of the map) -/
theorem lengthDiffs_sum_congr_left (g : Rat → Rat → Rat) (m1 m1' m2 : List (Int × EdgeRec))
    (hn1 : (keys m1).Nodup) (hn1' : (keys m1').Nodup) (hn2 : (keys m2).Nodup) (h : ∀ k, lookup m1 k = lookup m1' k) :
    (lengthDiffs m1 m2).map (fun ds => (ds.map (fun p => g p.1 p.2)).sum)
      = (lengthDiffs m1' m2).map (fun ds => (ds.map (fun p => g p.1 p.2)).sum) := by
  cases h1 : lengthDiffs m1 m2 with
  | none =>
    have : lengthDiffs m1' m2 = none :=
      (lengthDiffs_none_iff m1' m2 hn1').mpr ((refused_congr_left h).mp ((lengthDiffs_none_iff m1 m2 hn1).mp h1))
    rw [this]
  | some ds =>
    cases h2 : lengthDiffs m1' m2 with
    | none =>
      exfalso
      have := (lengthDiffs_none_iff m1 m2 hn1).mpr ((refused_congr_left h).mpr ((lengthDiffs_none_iff m1' m2 hn1').mp h2))
      rw [h1] at this; cases this
    | some ds' =>
      simp only [Option.map_some]
      rw [sum_two_passes m1 m2 hn1 hn2 g ds h1, sum_two_passes m1' m2 hn1' hn2 g ds' h2]
      have hk : (keys m1).toFinset = (keys m1').toFinset := by ext x; simp [keys_of_lookup_eq h x]
      rw [hk]
      congr 1
      apply Finset.sum_congr rfl; intro k _; rw [lenAt_of_lookup_eq h k]

theorem wrf_congr_lookup (m1 m1' m2 : List (Int × EdgeRec))
    (hn1 : (keys m1).Nodup) (hn1' : (keys m1').Nodup) (hn2 : (keys m2).Nodup) (h : ∀ k, lookup m1 k = lookup m1' k) :
    wrf m1 m2 = wrf m1' m2 :=
  lengthDiffs_sum_congr_left (fun a b => absR (a - b)) m1 m1' m2 hn1 hn1' hn2 h

theorem euclidSq_congr_lookup (m1 m1' m2 : List (Int × EdgeRec))
    (hn1 : (keys m1).Nodup) (hn1' : (keys m1').Nodup) (hn2 : (keys m2).Nodup) (h : ∀ k, lookup m1 k = lookup m1' k) :
    euclidSq m1 m2 = euclidSq m1' m2 :=
  lengthDiffs_sum_congr_left (fun a b => (a - b) * (a - b)) m1 m1' m2 hn1 hn1' hn2 h

/-- sample trees for the non-vacuity examples: `((t0:1, t1:2):1/2, t2:3)` drawn in two child orders, and a different topology -/
def exA : T := .node 0 none none none [.node 1 none (some ⟨1, 2⟩) none [.node 2 (some 0) (some ⟨1, 1⟩) none [], .node 3 (some 1) (some ⟨2, 1⟩) none []],
  .node 4 (some 2) (some ⟨3, 1⟩) none []]
def exB : T := .node 0 none none none [.node 4 (some 2) (some ⟨3, 1⟩) none [],
  .node 1 none (some ⟨1, 2⟩) none [.node 2 (some 0) (some ⟨1, 1⟩) none [], .node 3 (some 1) (some ⟨2, 1⟩) none []]]
def exC : T := .node 0 none none none [.node 1 none (some ⟨1, 2⟩) none [.node 2 (some 0) (some ⟨1, 1⟩) none [], .node 3 (some 2) (some ⟨2, 1⟩) none []],
  .node 4 (some 1) (some ⟨3, 1⟩) none []]

theorem exAB : CIso exA exB := CIso.swap 0 none none none [] _ _ []

end DendroModel.C04.Aux

namespace DendroModel.C04
open DendroModel DendroModel.C04.Aux

/-! ### the split lists the driver feeds to `fpfn` / `missing` / `edgeMap` -/

/-- the split list of `edgeRecs` (what the driver runs) is the split column of `C01.encode` with default flags -/
theorem edgeRecs_splits_eq_encode (r : Option Bool) (t : T) :
    (edgeRecs r t).map (·.split) = (C01.encode r true true t).map (·.2) := edgeRecs_splits r t

/-- … and on a rooted tree: the leafset masks of the tree after unifurcation suppression, in post-order -/
theorem edgeRecs_splits_rooted_eq_masks (t : T) :
    (edgeRecs (some true) t).map (·.split) = (T.masksPost (T.sup t)).map Int.ofNat := edgeRecs_splits_rooted t

example : (edgeRecs (some true) exA).map (·.split) = [1, 2, 3, 4, 7] := by decide

/-- **RF is zero exactly between re-drawings (rooted)**: on the split lists the driver computes for two well-formed rooted
    trees, the symmetric-difference distance is 0 iff the trees are the same topology up to child order once
    unifurcations are suppressed.  (composition of `rf_zero_iff`, the `edgeRecs` bridge, `C01.suppress_keeps_masks`
    and `C01.rooted_splits_iff_topology`) -/
theorem rf_zero_iff_topology (t u : T)
    (hgt : Hier.Good (T.toH t)) (ht0 : T.mask t ≠ 0) (hgu : Hier.Good (T.toH u)) (hu0 : T.mask u ≠ 0) :
    rf ((edgeRecs (some true) t).map (·.split)) ((edgeRecs (some true) u).map (·.split)) = 0
      ↔ Hier.Iso (Hier.sup (T.toH t)) (Hier.sup (T.toH u)) := by
  rw [rf_zero_iff, edgeRecs_splits_rooted, edgeRecs_splits_rooted, ← C01.rooted_splits_iff_topology t u hgt ht0 hgu hu0]
  have key : ∀ (v : T) (x : Nat), Int.ofNat x ∈ (T.masksPost (T.sup v)).map Int.ofNat ↔ x ∈ T.masksPost v := by
    intro v x
    rw [← (C01.suppress_keeps_masks v).2.2 x]
    simp only [List.mem_map]
    constructor
    · rintro ⟨m, hm, he⟩; rw [← Int.ofNat.inj he]; exact hm
    · intro hx; exact ⟨x, hx, rfl⟩
  constructor
  · intro h x; rw [← key t x, ← key u x]; exact h _
  · intro h y
    constructor
    · intro hy
      obtain ⟨m, _, rfl⟩ := List.mem_map.mp hy
      exact (key u m).mpr ((h m).mp ((key t m).mp hy))
    · intro hy
      obtain ⟨m, _, rfl⟩ := List.mem_map.mp hy
      exact (key t m).mpr ((h m).mpr ((key u m).mp hy))

example : Hier.Good (T.toH exA) ∧ T.mask exA ≠ 0 ∧ Hier.Good (T.toH exB) ∧ T.mask exB ≠ 0 := by
  simp [exA, exB, T.toH, T.toHL, Hier.Good, Hier.GoodL, Hier.mask, Hier.maskL, T.mask, T.maskL]
example : rf ((edgeRecs (some true) exA).map (·.split)) ((edgeRecs (some true) exB).map (·.split)) = 0 := by decide
example : rf ((edgeRecs (some true) exA).map (·.split)) ((edgeRecs (some true) exC).map (·.split)) = 2 := by decide

/-- the pair `(false positives, false negatives)` depends on the two split *sets* only -/
theorem fpfn_congr (a a' b b' : List Int) (ha : ∀ x, x ∈ a ↔ x ∈ a') (hb : ∀ x, x ∈ b ↔ x ∈ b') : fpfn a b = fpfn a' b' := by
  have e1 : a.toFinset = a'.toFinset := by ext x; simp [ha x]
  have e2 : b.toFinset = b'.toFinset := by ext x; simp [hb x]
  apply Prod.ext
  · rw [(fpfn_spec a b).1, (fpfn_spec a' b').1, e1, e2]
  · rw [(fpfn_spec a b).2, (fpfn_spec a' b').2, e1, e2]

/-- **re-drawing a rooted tree changes no unweighted distance**: if `t'` is `t` up to child order and unifurcations, then
    false positives / negatives (hence RF) against any third tree `u` (of any rooting state) are the same for `t` and
    `t'`, in both argument positions, and `find_missing_bipartitions` lists the same splits -/
theorem fpfn_redraw_rooted (t t' u : T) (r : Option Bool)
    (hgt : Hier.Good (T.toH t)) (ht0 : T.mask t ≠ 0) (hgt' : Hier.Good (T.toH t')) (ht0' : T.mask t' ≠ 0)
    (h : Hier.Iso (Hier.sup (T.toH t)) (Hier.sup (T.toH t'))) :
    fpfn ((edgeRecs (some true) t).map (·.split)) ((edgeRecs r u).map (·.split))
        = fpfn ((edgeRecs (some true) t').map (·.split)) ((edgeRecs r u).map (·.split))
    ∧ fpfn ((edgeRecs r u).map (·.split)) ((edgeRecs (some true) t).map (·.split))
        = fpfn ((edgeRecs r u).map (·.split)) ((edgeRecs (some true) t').map (·.split))
    ∧ (∀ x, x ∈ missing ((edgeRecs (some true) t).map (·.split)) ((edgeRecs r u).map (·.split))
          ↔ x ∈ missing ((edgeRecs (some true) t').map (·.split)) ((edgeRecs r u).map (·.split))) := by
  have hs := (rf_zero_iff _ _).mp ((rf_zero_iff_topology t t' hgt ht0 hgt' ht0').mpr h)
  refine ⟨fpfn_congr _ _ _ _ hs (fun _ => Iff.rfl), fpfn_congr _ _ _ _ (fun _ => Iff.rfl) hs, ?_⟩
  intro x; rw [missing_spec, missing_spec, hs x]

/-! ### Euclidean distance: the corollaries that `wrf` already had -/

/-- symmetric in value and definedness -/
theorem euclidSq_symm (m1 m2 : List (Int × EdgeRec)) (hn1 : (keys m1).Nodup) (hn2 : (keys m2).Nodup) :
    euclidSq m1 m2 = euclidSq m2 m1 := by
  have hd := (defined_symm m1 m2 hn1 hn2).2.1
  cases h12 : euclidSq m1 m2 with
  | none =>
    cases h21 : euclidSq m2 m1 with
    | none => rfl
    | some w => rw [h12, h21] at hd; simp at hd
  | some w =>
    cases h21 : euclidSq m2 m1 with
    | none => rw [h12, h21] at hd; simp at hd
    | some w' =>
      rw [euclidSq_eq_l2sq m1 m2 hn1 hn2 w h12, euclidSq_eq_l2sq m2 m1 hn2 hn1 w' h21, Finset.union_comm]
      congr 1
      apply Finset.sum_congr rfl; intro k _; ring

/-- zero on equal inputs (whenever defined) -/
theorem euclidSq_self (m : List (Int × EdgeRec)) (hn : (keys m).Nodup) (w : Rat) (h : euclidSq m m = some w) : w = 0 := by
  rw [euclidSq_eq_l2sq m m hn hn w h]; simp

/-- depends on the trees only through their split → length functions -/
theorem euclidSq_congr (m1 m1' m2 : List (Int × EdgeRec)) (hn1 : (keys m1).Nodup) (hn1' : (keys m1').Nodup)
    (hn2 : (keys m2).Nodup) (hk : ∀ x, x ∈ keys m1 ↔ x ∈ keys m1') (hl : ∀ x, lenAt m1 x = lenAt m1' x)
    (w w' : Rat) (h : euclidSq m1 m2 = some w) (h' : euclidSq m1' m2 = some w') : w = w' := by
  rw [euclidSq_eq_l2sq m1 m2 hn1 hn2 w h, euclidSq_eq_l2sq m1' m2 hn1' hn2 w' h']
  have : (keys m1).toFinset = (keys m1').toFinset := by ext x; simp [hk x]
  rw [this]
  apply Finset.sum_congr rfl; intro k _; rw [hl k]

/-- identity of indiscernibles, as far as it holds: a defined distance is 0 iff the two trees assign the same length to
    every split (a split carried only by zero-length / length-less edges is indistinguishable from an absent one) -/
theorem dist_zero_iff (m1 m2 : List (Int × EdgeRec)) (hn1 : (keys m1).Nodup) (hn2 : (keys m2).Nodup) :
    (∀ w, wrf m1 m2 = some w → (w = 0 ↔ ∀ k, lenAt m1 k = lenAt m2 k))
    ∧ (∀ w, euclidSq m1 m2 = some w → (w = 0 ↔ ∀ k, lenAt m1 k = lenAt m2 k)) := by
  have out : ∀ k, k ∉ (keys m1).toFinset ∪ (keys m2).toFinset → lenAt m1 k = lenAt m2 k := by
    intro k hk
    simp only [Finset.mem_union, List.mem_toFinset, not_or] at hk
    rw [lenAt_zero_of_not_mem m1 k hk.1, lenAt_zero_of_not_mem m2 k hk.2]
  constructor
  · intro w h
    rw [wrf_eq_l1 m1 m2 hn1 hn2 w h, Finset.sum_eq_zero_iff_of_nonneg (fun _ _ => abs_nonneg _)]
    constructor
    · intro hz k
      by_cases hk : k ∈ (keys m1).toFinset ∪ (keys m2).toFinset
      · exact sub_eq_zero.mp (abs_eq_zero.mp (hz k hk))
      · exact out k hk
    · intro he k _; rw [he k]; simp
  · intro w h
    rw [euclidSq_eq_l2sq m1 m2 hn1 hn2 w h, Finset.sum_eq_zero_iff_of_nonneg (fun _ _ => sq_nonneg _)]
    constructor
    · intro hz k
      by_cases hk : k ∈ (keys m1).toFinset ∪ (keys m2).toFinset
      · exact sub_eq_zero.mp (pow_eq_zero_iff (two_ne_zero) |>.mp (hz k hk))
      · exact out k hk
    · intro he k _; rw [he k]; simp

/-- the squared distance the model computes is non-negative, and its real square root is 0 iff it is 0.  This is ALL that is stated
    here about the root: the model has no square root (the driver prints the square, the harness takes the root of the
    model's value before comparing), so "symmetric / zero / congruent" are proved for `euclidSq` only and transfer to
    `euclidean_distance` on the assumption — checked by the correspondence, not proved — that the code returns `√` of this
    value; the triangle inequality is the one theorem stated on the roots themselves (`euclid_triangle`). -/
theorem euclidSq_nonneg (m1 m2 : List (Int × EdgeRec)) (hn1 : (keys m1).Nodup) (hn2 : (keys m2).Nodup) (w : Rat)
    (h : euclidSq m1 m2 = some w) : 0 ≤ w ∧ (Real.sqrt (w : ℝ) = 0 ↔ w = 0) := by
  have h0 : 0 ≤ w := by
    rw [euclidSq_eq_l2sq m1 m2 hn1 hn2 w h]; exact Finset.sum_nonneg (fun _ _ => sq_nonneg _)
  refine ⟨h0, ?_⟩
  rw [Real.sqrt_eq_zero (by exact_mod_cast h0), Rat.cast_eq_zero]
example : (euclidSq (edgeMap (edgeRecs (some true) exA)) (edgeMap (edgeRecs (some true) exC))).isSome = true := by decide

example : (keys (edgeMap (edgeRecs (some true) exA))).Nodup := (edgeMap_keys _).1
example : (wrf (edgeMap (edgeRecs (some true) exA)) (edgeMap (edgeRecs (some true) exC))).isSome = true := by decide

/-! ### child order -/

/-- **reordering children changes no unweighted distance** (any rooting state; `_partial`: for a tree that is not rooted the
    seed must not be bifurcating, i.e. the case in which `encode_bipartitions` collapses the basal bifurcation — and which
    child it keeps depends on the order — is not covered; moving the seed is not covered either) -/
theorem fpfn_child_order_partial (r r2 : Option Bool) (t t' u : T) (h : CIso t t') (hr : r = some true ∨ t.cs.length ≠ 2) :
    fpfn ((edgeRecs r t).map (·.split)) ((edgeRecs r2 u).map (·.split))
        = fpfn ((edgeRecs r t').map (·.split)) ((edgeRecs r2 u).map (·.split))
    ∧ fpfn ((edgeRecs r2 u).map (·.split)) ((edgeRecs r t).map (·.split))
        = fpfn ((edgeRecs r2 u).map (·.split)) ((edgeRecs r t').map (·.split))
    ∧ rf ((edgeRecs r t).map (·.split)) ((edgeRecs r t').map (·.split)) = 0
    ∧ (∀ x, x ∈ missing ((edgeRecs r t).map (·.split)) ((edgeRecs r2 u).map (·.split))
          ↔ x ∈ missing ((edgeRecs r t').map (·.split)) ((edgeRecs r2 u).map (·.split))) := by
  have hs : ∀ x, x ∈ (edgeRecs r t).map (·.split) ↔ x ∈ (edgeRecs r t').map (·.split) :=
    fun x => ((ciso_edgeRecs h r hr).map _).mem_iff
  refine ⟨fpfn_congr _ _ _ _ hs (fun _ => Iff.rfl), fpfn_congr _ _ _ _ (fun _ => Iff.rfl) hs, (rf_zero_iff _ _).mpr hs, ?_⟩
  intro x; rw [missing_spec, missing_spec, hs x]

/-- **reordering children changes neither weighted RF nor the Euclidean distance, nor whether they are defined**, against
    any third tree and in both argument positions, and both are 0 (when defined) between the two drawings — provided the
    tree's splits are pairwise distinct (`hn`; otherwise the split → edge map keeps only the last edge of a repeated split
    and the value does depend on the order: the known finding `basal-bifurcation-survives-encoding`).
    `_partial`: as for `fpfn_child_order_partial`, a not-rooted tree with a bifurcating seed and seed moves are not covered;
    nor is the insertion of unifurcations (which needs `Frac` addition to be exact, a fact about `addLen` not proved here).
    SUPERSEDED: `hn` is discharged in `dist_child_order_rooted` / `dist_child_order_unrooted`; unifurcation insertion and seed
    moves are covered by `dist_redraw_rooted` / `dist_redraw_unrooted`. -/
theorem dist_child_order_partial (r r2 : Option Bool) (t t' u : T) (h : CIso t t') (hr : r = some true ∨ t.cs.length ≠ 2)
    (hn : ((edgeRecs r t).map (·.split)).Nodup) :
    wrf (edgeMap (edgeRecs r t)) (edgeMap (edgeRecs r2 u)) = wrf (edgeMap (edgeRecs r t')) (edgeMap (edgeRecs r2 u))
    ∧ wrf (edgeMap (edgeRecs r2 u)) (edgeMap (edgeRecs r t)) = wrf (edgeMap (edgeRecs r2 u)) (edgeMap (edgeRecs r t'))
    ∧ euclidSq (edgeMap (edgeRecs r t)) (edgeMap (edgeRecs r2 u)) = euclidSq (edgeMap (edgeRecs r t')) (edgeMap (edgeRecs r2 u))
    ∧ euclidSq (edgeMap (edgeRecs r2 u)) (edgeMap (edgeRecs r t)) = euclidSq (edgeMap (edgeRecs r2 u)) (edgeMap (edgeRecs r t'))
    ∧ (∀ w, wrf (edgeMap (edgeRecs r t)) (edgeMap (edgeRecs r t')) = some w → w = 0)
    ∧ (∀ w, euclidSq (edgeMap (edgeRecs r t)) (edgeMap (edgeRecs r t')) = some w → w = 0) := by
  have hl := lookup_edgeMap_perm (ciso_edgeRecs h r hr) hn
  have n1 := nodup_edgeMap (edgeRecs r t)
  have n1' := nodup_edgeMap (edgeRecs r t')
  have n2 := nodup_edgeMap (edgeRecs r2 u)
  have w1 := wrf_congr_lookup _ _ (edgeMap (edgeRecs r2 u)) n1 n1' n2 hl
  have e1 := euclidSq_congr_lookup _ _ (edgeMap (edgeRecs r2 u)) n1 n1' n2 hl
  refine ⟨w1, ?_, e1, ?_, ?_, ?_⟩
  · rw [wrf_symm _ _ n2 n1, w1, wrf_symm _ _ n1' n2]
  · rw [euclidSq_symm _ _ n2 n1, e1, euclidSq_symm _ _ n1' n2]
  · intro w hw
    rw [wrf_symm _ _ n1 n1', ← wrf_congr_lookup _ _ (edgeMap (edgeRecs r t)) n1 n1' n1 hl] at hw
    exact wrf_self _ n1 w hw
  · intro w hw
    rw [euclidSq_symm _ _ n1 n1', ← euclidSq_congr_lookup _ _ (edgeMap (edgeRecs r t)) n1 n1' n1 hl] at hw
    exact euclidSq_self _ n1 w hw

example : CIso exA exB ∧ ((edgeRecs (some true) exA).map (·.split)).Nodup := ⟨exAB, by decide⟩
example : CIso exA exB ∧ ((some false : Option Bool) = some true ∨ exA.cs.length ≠ 2 → False) := ⟨exAB, by decide⟩

end DendroModel.C04

namespace DendroModel.C04.Aux
open DendroModel DendroModel.C04

/-- the splits the driver lists for a tree that is not rooted: every clade of the encoded tree, normalised within the
    tree's own leafset on its lowest bit -/
theorem splits_unrooted_mem (r : Option Bool) (hr : r ≠ some true) (t : T) (x : Int) :
    x ∈ (edgeRecs r t).map (·.split) ↔
      ∃ m ∈ Hier.clades (T.toH (C01.encodeTree r true true t)),
        x = ((Hier.norm (Hier.mask (T.toH (C01.encodeTree r true true t)))
              (Lsb.lsb (Hier.mask (T.toH (C01.encodeTree r true true t)))) m : Nat) : Int) := by
  have hb : (r == some true) = false := by
    cases r with
    | none => rfl
    | some b => cases b <;> simp_all
  rw [edgeRecs_splits]
  simp only [C01.encode, List.map_map, List.mem_map, Function.comp, hb, C01.split_spec, C01.Aux.toH_mask]
  constructor
  · rintro ⟨m, hm, rfl⟩; exact ⟨m, (C01.Aux.toH_clades _ m).mpr hm, by simp⟩
  · rintro ⟨m, hm, rfl⟩; exact ⟨m, (C01.Aux.toH_clades _ m).mp hm, by simp⟩

end DendroModel.C04.Aux

namespace DendroModel.C04
open DendroModel DendroModel.C04.Aux

/-- **moving the seed of an unrooted tree by one edge keeps RF at 0** (`_partial`: one inversion step, stated on the
    mask-labelled views of the two encoded trees; `reseed_at` iterates this step.  Not covered: the composition over a
    path of inversions, and the weighted distances) — the driver's split lists of two trees that are not rooted and
    whose encoded forms differ by making child `node ds` of the seed the new seed have symmetric difference 0 -/
theorem rf_zero_seed_move_partial (r r' : Option Bool) (hr : r ≠ some true) (hr' : r' ≠ some true) (t t' : T)
    (pre ds post : List Hier.T)
    (ht : T.toH (C01.encodeTree r true true t) = .node (pre ++ .node ds :: post))
    (ht' : T.toH (C01.encodeTree r' true true t') = Hier.invertAt pre ds post)
    (hg : Hier.GoodL (pre ++ .node ds :: post)) :
    rf ((edgeRecs r t).map (·.split)) ((edgeRecs r' t').map (·.split)) = 0 := by
  rw [rf_zero_iff]
  intro x
  rw [splits_unrooted_mem r hr, splits_unrooted_mem r' hr', ht, ht']
  set L := Hier.maskL (pre ++ .node ds :: post) with hL
  have hL' : Hier.mask (Hier.invertAt pre ds post) = L := by
    simp only [Hier.invertAt, Hier.mask]; exact Hier.maskL_invert pre ds post
  have hLm : Hier.mask (.node (pre ++ .node ds :: post)) = L := by simp [Hier.mask, hL]
  rw [hL', hLm]
  have hpos : 0 < L := by
    have hmem : Hier.T.node ds ∈ pre ++ .node ds :: post := by simp
    have h0 := (Hier.goodL_mem hg hmem).2
    have hsub := Hier.bits_maskL_subset_of_mem hmem
    rcases Nat.eq_zero_or_pos L with hz | hp
    · exfalso; apply h0; apply Hier.bits_inj
      rw [Hier.bits_zero]; rw [← hL, hz, Hier.bits_zero] at hsub; exact Set.subset_empty_iff.mp hsub
    · exact hp
  obtain ⟨k, hk, hkL, _⟩ := C01.lsb_spec L hpos
  have hlo : Hier.bits (Lsb.lsb L) ⊆ Hier.bits L := by
    rw [hk, Hier.bits_shift]; intro i hi; rw [Set.mem_singleton_iff] at hi; subst hi; exact hkL
  have hsingle : ∀ a, Hier.bits (Lsb.lsb L) ⊆ Hier.bits a ∨ Disjoint (Hier.bits (Lsb.lsb L)) (Hier.bits a) := by
    intro a
    rw [hk, Hier.bits_shift]
    by_cases h : k ∈ Hier.bits a
    · left; intro i hi; rw [Set.mem_singleton_iff] at hi; subst hi; exact h
    · right; exact Set.disjoint_singleton_left.mpr h
  have hne : Lsb.lsb L ≠ 0 := by rw [hk]; exact Hier.shift_ne_zero k
  have hinv := Hier.usplits_invert (Lsb.lsb L) pre ds post hg hlo hsingle hne
  simp only [Hier.usplits, Hier.invertAt, Hier.maskL_invert, ← hL, List.mem_map] at hinv
  simp only [Hier.clades, Hier.invertAt, Hier.maskL_invert, ← hL, List.mem_cons, exists_eq_or_imp]
  constructor
  · rintro (h | ⟨m, hm, rfl⟩)
    · exact Or.inl h
    · obtain ⟨a, ha, hea⟩ := (hinv _).mpr ⟨m, hm, rfl⟩
      exact Or.inr ⟨a, ha, by rw [hea]⟩
  · rintro (h | ⟨m, hm, rfl⟩)
    · exact Or.inl h
    · obtain ⟨a, ha, hea⟩ := (hinv _).mp ⟨m, hm, rfl⟩
      exact Or.inr ⟨a, ha, by rw [hea]⟩

end DendroModel.C04

namespace DendroModel.C04
open DendroModel DendroModel.C04.Aux
/-- sample: the unrooted tree `((t0,t1),t2,t3)` and the same tree seeded at the inner vertex, `(t0,t1,(t2,t3))` -/
def Aux.exU : T := .node 0 none none none [.node 1 none none none [.node 2 (some 0) none none [], .node 3 (some 1) none none []],
  .node 4 (some 2) none none [], .node 5 (some 3) none none []]
def Aux.exV : T := .node 0 none none none [.node 2 (some 0) none none [], .node 3 (some 1) none none [],
  .node 1 none none none [.node 4 (some 2) none none [], .node 5 (some 3) none none []]]
example : T.toH (C01.encodeTree (some false) true true exU) = .node ([] ++ .node [.leaf 0, .leaf 1] :: [.leaf 2, .leaf 3])
    ∧ T.toH (C01.encodeTree (some false) true true exV) = Hier.invertAt [] [.leaf 0, .leaf 1] [.leaf 2, .leaf 3]
    ∧ Hier.GoodL ([] ++ .node [.leaf 0, .leaf 1] :: [.leaf 2, .leaf 3]) := by
  refine ⟨rfl, rfl, ?_⟩
  simp [Hier.GoodL, Hier.Good, Hier.mask, Hier.maskL]
example : (edgeRecs (some false) exU).map (·.split) = [14, 2, 12, 4, 8, 0] := by decide
example : (edgeRecs (some false) exV).map (·.split) = [14, 2, 4, 8, 12, 0] := by decide
end DendroModel.C04

/-! ## extension round: distinct rooted splits, paths of seed moves -/
namespace DendroModel.C04
open DendroModel DendroModel.C04.Aux

/-- **no two edges of a well-formed rooted tree induce the same split**: the split list the driver computes for a rooted
    tree is duplicate-free (so the split → edge map loses no edge, and the `Nodup` hypotheses below are dischargeable) -/
theorem rooted_splits_nodup (t : T) (hg : Hier.Good (T.toH t)) (h0 : T.mask t ≠ 0) :
    ((edgeRecs (some true) t).map (·.split)).Nodup := by
  rw [edgeRecs_splits_rooted]
  exact (masksPost_sup_nodup t hg h0).map (fun _ _ h => Int.ofNat.inj h)

example : Hier.Good (T.toH exA) ∧ T.mask exA ≠ 0 := by
  simp [exA, T.toH, T.toHL, Hier.Good, Hier.GoodL, Hier.mask, Hier.maskL, T.mask, T.maskL]

/-- **reordering the children of a well-formed rooted tree changes no weighted distance** — `dist_child_order_partial` for
    rooted trees with its `Nodup` hypothesis discharged by `rooted_splits_nodup` (full for the child-order clause, rooted) -/
theorem dist_child_order_rooted (r2 : Option Bool) (t t' u : T) (h : CIso t t')
    (hg : Hier.Good (T.toH t)) (h0 : T.mask t ≠ 0) :
    wrf (edgeMap (edgeRecs (some true) t)) (edgeMap (edgeRecs r2 u)) = wrf (edgeMap (edgeRecs (some true) t')) (edgeMap (edgeRecs r2 u))
    ∧ wrf (edgeMap (edgeRecs r2 u)) (edgeMap (edgeRecs (some true) t)) = wrf (edgeMap (edgeRecs r2 u)) (edgeMap (edgeRecs (some true) t'))
    ∧ euclidSq (edgeMap (edgeRecs (some true) t)) (edgeMap (edgeRecs r2 u)) = euclidSq (edgeMap (edgeRecs (some true) t')) (edgeMap (edgeRecs r2 u))
    ∧ euclidSq (edgeMap (edgeRecs r2 u)) (edgeMap (edgeRecs (some true) t)) = euclidSq (edgeMap (edgeRecs r2 u)) (edgeMap (edgeRecs (some true) t'))
    ∧ (∀ w, wrf (edgeMap (edgeRecs (some true) t)) (edgeMap (edgeRecs (some true) t')) = some w → w = 0)
    ∧ (∀ w, euclidSq (edgeMap (edgeRecs (some true) t)) (edgeMap (edgeRecs (some true) t')) = some w → w = 0) :=
  dist_child_order_partial (some true) r2 t t' u h (Or.inl rfl) (rooted_splits_nodup t hg h0)

/-- the driver's split list of a tree that is not rooted, as a set: the normalised clades of its encoded form -/
theorem splits_unrooted_nsplits (r : Option Bool) (hr : r ≠ some true) (t : T) (x : Int) :
    x ∈ (edgeRecs r t).map (·.split) ↔
      ∃ s ∈ Hier.nsplits (Lsb.lsb (Hier.mask (T.toH (C01.encodeTree r true true t)))) (T.toH (C01.encodeTree r true true t)),
        x = ((s : Nat) : Int) := by
  rw [splits_unrooted_mem r hr]
  simp only [Hier.nsplits, List.mem_map]
  constructor
  · rintro ⟨m, hm, rfl⟩; exact ⟨_, ⟨m, hm, rfl⟩, rfl⟩
  · rintro ⟨s, ⟨m, hm, rfl⟩, rfl⟩; exact ⟨m, hm, rfl⟩

/-- **a path of seed moves between the ENCODED forms keeps every unweighted distance** (`rf_zero_seed_move_partial` iterated).
    Read the hypothesis `hp` carefully: it is a path of `Hier.SeedStep`s between the mask-labelled views of the two trees AFTER
    the encoder's basal collapse and unifurcation suppression; nothing here shows that moving the seed of the tree as drawn
    (or `Tree.reseed_at`) produces such a path.  For the statement about trees as drawn — any seed position, any child order,
    bifurcating seeds included — use `rf_zero_iff_unrooted_topology` / `fpfn_redraw_unrooted`, which supersede this theorem.
    Conclusion: RF between the two is 0, and false positives / negatives and the missing-split set against any third tree are
    the same for both, in both argument positions. -/
theorem fpfn_seed_path (r r' r2 : Option Bool) (hr : r ≠ some true) (hr' : r' ≠ some true) (t t' u : T)
    (hg : Hier.Good (T.toH (C01.encodeTree r true true t)))
    (h0 : Hier.mask (T.toH (C01.encodeTree r true true t)) ≠ 0)
    (hp : Relation.ReflTransGen Hier.SeedStep (T.toH (C01.encodeTree r true true t)) (T.toH (C01.encodeTree r' true true t'))) :
    rf ((edgeRecs r t).map (·.split)) ((edgeRecs r' t').map (·.split)) = 0
    ∧ fpfn ((edgeRecs r t).map (·.split)) ((edgeRecs r2 u).map (·.split))
        = fpfn ((edgeRecs r' t').map (·.split)) ((edgeRecs r2 u).map (·.split))
    ∧ fpfn ((edgeRecs r2 u).map (·.split)) ((edgeRecs r t).map (·.split))
        = fpfn ((edgeRecs r2 u).map (·.split)) ((edgeRecs r' t').map (·.split))
    ∧ (∀ x, x ∈ missing ((edgeRecs r t).map (·.split)) ((edgeRecs r2 u).map (·.split))
          ↔ x ∈ missing ((edgeRecs r' t').map (·.split)) ((edgeRecs r2 u).map (·.split))) := by
  set a := T.toH (C01.encodeTree r true true t) with ha
  set b := T.toH (C01.encodeTree r' true true t') with hb
  have hpos : 0 < Hier.mask a := Nat.pos_of_ne_zero h0
  obtain ⟨k, hk, hkL, _⟩ := C01.lsb_spec (Hier.mask a) hpos
  have hlo : Hier.bits (Lsb.lsb (Hier.mask a)) ⊆ Hier.bits (Hier.mask a) := by
    rw [hk, Hier.bits_shift]; intro i hi; rw [Set.mem_singleton_iff] at hi; subst hi; exact hkL
  have hsingle : ∀ x, Hier.bits (Lsb.lsb (Hier.mask a)) ⊆ Hier.bits x ∨ Disjoint (Hier.bits (Lsb.lsb (Hier.mask a))) (Hier.bits x) := by
    intro x
    rw [hk, Hier.bits_shift]
    by_cases h : k ∈ Hier.bits x
    · left; intro i hi; rw [Set.mem_singleton_iff] at hi; subst hi; exact h
    · right; exact Set.disjoint_singleton_left.mpr h
  have hne : Lsb.lsb (Hier.mask a) ≠ 0 := by rw [hk]; exact Hier.shift_ne_zero k
  obtain ⟨_, hm, hs⟩ := Hier.path_nsplits hp hg (Lsb.lsb (Hier.mask a)) hlo hsingle hne
  have hset : ∀ x, x ∈ (edgeRecs r t).map (·.split) ↔ x ∈ (edgeRecs r' t').map (·.split) := by
    intro x
    rw [splits_unrooted_nsplits r hr, splits_unrooted_nsplits r' hr', ← ha, ← hb, hm]
    constructor
    · rintro ⟨s, h1, rfl⟩; exact ⟨s, (hs s).mpr h1, rfl⟩
    · rintro ⟨s, h1, rfl⟩; exact ⟨s, (hs s).mp h1, rfl⟩
  refine ⟨(rf_zero_iff _ _).mpr hset, fpfn_congr _ _ _ _ hset (fun _ => Iff.rfl), fpfn_congr _ _ _ _ (fun _ => Iff.rfl) hset, ?_⟩
  intro x; rw [missing_spec, missing_spec, hset x]

/-- sample path of two seed moves: `((t0,t1),t2,(t3,t4))` → `(t0,t1,(t2,(t3,t4)))` … seen from `(t3,t4,(t2,(t0,t1)))` -/
example : Relation.ReflTransGen Hier.SeedStep
    (T.toH (C01.encodeTree (some false) true true exU))
    (T.toH (C01.encodeTree (some false) true true exV)) :=
  Relation.ReflTransGen.single (Hier.SeedStep.mk [] [.leaf 0, .leaf 1] [.leaf 2, .leaf 3] (by simp))
example : Hier.Good (T.toH (C01.encodeTree (some false) true true exU)) ∧ Hier.mask (T.toH (C01.encodeTree (some false) true true exU)) ≠ 0 := by
  refine ⟨?_, by decide⟩
  show Hier.Good (.node [.node [.leaf 0, .leaf 1], .leaf 2, .leaf 3])
  simp [Hier.GoodL, Hier.Good, Hier.mask, Hier.maskL]

end DendroModel.C04

namespace DendroModel.C04.Aux
open DendroModel DendroModel.C04

/-! ### re-drawings of a tree: child order and unifurcation insertion -/

/-- the same tree drawn differently: children reordered anywhere, and unifurcations inserted on edges with the edge's
    length split between the two parts (as rationals, a missing length counting 0) -/
inductive Redraw : T → T → Prop
  | refl (t : T) : Redraw t t
  | symm {a b : T} : Redraw a b → Redraw b a
  | trans {a b c : T} : Redraw a b → Redraw b c → Redraw a c
  | swap (i x l s) (pre : List T) (a b : T) (post : List T) :
      Redraw (.node i x l s (pre ++ a :: b :: post)) (.node i x l s (pre ++ b :: a :: post))
  | child (i x l s) (pre : List T) (c c' : T) (post : List T) :
      Redraw c c' → Redraw (.node i x l s (pre ++ c :: post)) (.node i x l s (pre ++ c' :: post))
  | unif (c : T) (i' : Nat) (x' : Option Nat) (s' : Option String) (l1 l2 : Option Frac) :
      qlen c.len = qlen l1 + qlen l2 → Redraw c (.node i' x' l2 s' [c.withLen l1])

theorem ciso_redraw {t u : T} (h : CIso t u) : Redraw t u := by
  induction h with
  | refl t => exact Redraw.refl t
  | swap i x l s pre a b post => exact Redraw.swap i x l s pre a b post
  | child i x l s pre c c' post _ ih => exact Redraw.child i x l s pre c c' post ih
  | trans _ _ ih1 ih2 => exact ih1.trans ih2

theorem masksPost_eq (t : T) : T.masksPost t = T.masksPostL t.cs ++ [t.mask] := by
  cases t with
  | node i x l s cs => simp [T.masksPost, T.cs]

theorem masksPostL_append' : ∀ a b : List T, T.masksPostL (a ++ b) = T.masksPostL a ++ T.masksPostL b
  | [], b => by simp [T.masksPostL]
  | c :: a, b => by simp [T.masksPostL, masksPostL_append' a b]

/-- what a re-drawing keeps: the leafset, the total length carried by the edges of every leafset, the set of leafsets -/
theorem redraw_inv {t u : T} (h : Redraw t u) :
    t.mask = u.mask ∧ (∀ (P : Nat → Bool) (b : Bool), psum P (edgesPost b t) = psum P (edgesPost b u))
      ∧ (∀ m, m ∈ T.masksPost t ↔ m ∈ T.masksPost u) := by
  induction h with
  | refl t => exact ⟨rfl, fun _ _ => rfl, fun _ => Iff.rfl⟩
  | symm _ ih => exact ⟨ih.1.symm, fun P b => (ih.2.1 P b).symm, fun m => (ih.2.2 m).symm⟩
  | trans _ _ ih1 ih2 =>
    exact ⟨ih1.1.trans ih2.1, fun P b => (ih1.2.1 P b).trans (ih2.2.1 P b), fun m => (ih1.2.2 m).trans (ih2.2.2 m)⟩
  | swap i x l s pre a b post =>
    have hm := ciso_mask (CIso.swap i x l s pre a b post)
    refine ⟨hm, ?_, ?_⟩
    · intro P r
      rw [edgesPost_node, edgesPost_node, psum_append, psum_append, hm, edgesPostL_append, edgesPostL_append]
      simp only [edgesPostL, psum_append]
      ring
    · intro m
      rw [masksPost_eq, masksPost_eq, hm]
      simp only [T.cs, masksPostL_append', T.masksPostL, List.mem_append, List.mem_singleton]
      tauto
  | child i x l s pre c c' post _ ih =>
    have hm : T.mask (.node i x l s (pre ++ c :: post)) = T.mask (.node i x l s (pre ++ c' :: post)) := by
      rw [mask_of_ne_nil _ _ _ _ (by simp), mask_of_ne_nil _ _ _ _ (by simp), maskL_append, maskL_append]
      simp only [T.maskL, ih.1]
    refine ⟨hm, ?_, ?_⟩
    · intro P r
      rw [edgesPost_node, edgesPost_node, psum_append, psum_append, hm, edgesPostL_append, edgesPostL_append]
      simp only [edgesPostL, psum_append, ih.2.1 P false]
    · intro m
      rw [masksPost_eq, masksPost_eq, hm]
      simp only [T.cs, masksPostL_append', T.masksPostL, List.mem_append, List.mem_singleton, ih.2.2 m]
  | unif c i' x' s' l1 l2 hq =>
    have hm : T.mask (.node i' x' l2 s' [c.withLen l1]) = c.mask := by simp [T.mask, T.maskL, withLen_mask']
    refine ⟨hm.symm, ?_, ?_⟩
    · intro P r
      rw [edgesPost_node, hm, edgesPost_eq r c]
      simp only [edgesPostL, List.append_nil]
      rw [edgesPost_eq false (c.withLen l1), withLen_cs, withLen_len, withLen_mask']
      simp only [psum_append, psum_single]
      by_cases hp : P c.mask <;> simp [hp]
      rw [hq]; ring
    · intro m
      rw [masksPost_eq (.node i' x' l2 s' [c.withLen l1]), hm]
      simp only [T.cs, T.masksPostL, List.append_nil]
      rw [masksPost_eq (c.withLen l1), withLen_cs, withLen_mask', masksPost_eq c]
      simp only [List.mem_append, List.mem_singleton]
      tauto

/-! ### the driver's split → length function is the per-split length total of the tree as drawn -/

theorem lenAt_edgeMap_snoc (es : List EdgeRec) (e : EdgeRec) (k : Int) :
    lenAt (edgeMap (es ++ [e])) k = if k = e.split then e.len.getD 0 else lenAt (edgeMap es) k := by
  unfold lenAt
  rw [lookup_edgeMap_snoc]
  by_cases h : k = e.split <;> simp [h]

theorem lenAt_edgeMap_eq_sum : ∀ (es : List EdgeRec), (es.map (·.split)).Nodup → ∀ k : Int,
    lenAt (edgeMap es) k = ((es.filter (fun e => e.split == k)).map (fun e => e.len.getD 0)).sum := by
  intro es
  induction es using List.reverseRecOn with
  | nil => intro _ k; simp [edgeMap, lenAt, lookup]
  | append_singleton init last ih =>
    intro hn k
    rw [List.map_append, List.nodup_append] at hn
    obtain ⟨hn1, _, hdis⟩ := hn
    rw [lenAt_edgeMap_snoc, List.filter_append, List.map_append, List.sum_append]
    by_cases hk : k = last.split
    · subst hk
      have hnil : init.filter (fun e => e.split == last.split) = [] := by
        rw [List.filter_eq_nil_iff]
        intro e he hk
        simp only [beq_iff_eq] at hk
        exact hdis e.split (List.mem_map.mpr ⟨e, he, rfl⟩) last.split (by simp) hk
      simp [hnil]
    · have hk' : ¬ last.split = k := fun e => hk e.symm
      simp [hk, hk', ih hn1 k]

theorem psum_false (P : Nat → Bool) (es : List (Nat × Option Frac × Bool)) (h : ∀ m, P m = false) : psum P es = 0 := by
  unfold psum
  rw [List.filter_eq_nil_iff.mpr (by intro e _; simp [h e.1])]
  simp

end DendroModel.C04.Aux

namespace DendroModel.C04
open DendroModel DendroModel.C04.Aux

/-- **the length the driver's split → edge map assigns to a split is the total length of the edges of the tree AS DRAWN that
    induce it** (missing lengths counting 0): unifurcation suppression merges lengths by adding them (`addLen`), and with
    pairwise distinct splits the map loses no edge.  Any rooting state without basal collapse (`hr`); lengths with non-zero
    denominators (`hw`, true of everything `Frac.parse` produces). -/
theorem lenAt_eq_split_sum (r : Option Bool) (t : T) (hr : r = some true ∨ t.cs.length ≠ 2) (hw : WFT t)
    (hn : ((edgeRecs r t).map (·.split)).Nodup) (k : Int) :
    lenAt (edgeMap (edgeRecs r t)) k
      = psum (fun m => C01.splitOf (r == some true) t.mask m == k) (edgesPost true t) := by
  rw [lenAt_edgeMap_eq_sum _ hn k, ← psum_sup _ t true hw]
  unfold edgeRecs psum
  simp only [encodeTree_sup r t hr, sup_mask']
  rw [List.filter_map, List.map_map]
  rfl

/-- … for a well-formed rooted tree, with nothing left to assume about the splits: the length at leafset `m` is the total
    length of the drawn edges whose leafset is `m`; at an integer that is no leafset it is 0 -/
theorem lenAt_eq_split_sum_rooted (t : T) (hg : Hier.Good (T.toH t)) (h0 : T.mask t ≠ 0) (hw : WFT t) :
    (∀ m : Nat, lenAt (edgeMap (edgeRecs (some true) t)) (m : Int) = psum (fun m' => m' == m) (edgesPost true t))
    ∧ (∀ n : Nat, lenAt (edgeMap (edgeRecs (some true) t)) (Int.negSucc n) = 0) := by
  have key := lenAt_eq_split_sum (some true) t (Or.inl rfl) hw (rooted_splits_nodup t hg h0)
  constructor
  · intro m
    rw [key]
    congr 1
    funext m'
    simp [C01.splitOf]
  · intro n
    rw [key]
    apply psum_false
    intro m
    simp [C01.splitOf]

/-- **re-drawing a well-formed rooted tree — children reordered, unifurcations inserted with the length split — changes no
    weighted distance** (this is `dist_child_order_partial` without its restrictions, for rooted trees): against any third
    tree, in both argument positions, the values of weighted RF and of the squared Euclidean distance agree whenever both are
    defined, and both are 0 between the two drawings whenever defined.  (Definedness itself can differ only through a
    missing length being replaced by an explicit 0 part or vice versa, which `Redraw.unif` permits.) -/
theorem dist_redraw_rooted (r2 : Option Bool) (t t' u : T) (h : Redraw t t')
    (hg : Hier.Good (T.toH t)) (h0 : T.mask t ≠ 0) (hw : WFT t)
    (hg' : Hier.Good (T.toH t')) (h0' : T.mask t' ≠ 0) (hw' : WFT t') :
    (∀ w w', wrf (edgeMap (edgeRecs (some true) t)) (edgeMap (edgeRecs r2 u)) = some w →
        wrf (edgeMap (edgeRecs (some true) t')) (edgeMap (edgeRecs r2 u)) = some w' → w = w')
    ∧ (∀ w w', wrf (edgeMap (edgeRecs r2 u)) (edgeMap (edgeRecs (some true) t)) = some w →
        wrf (edgeMap (edgeRecs r2 u)) (edgeMap (edgeRecs (some true) t')) = some w' → w = w')
    ∧ (∀ w w', euclidSq (edgeMap (edgeRecs (some true) t)) (edgeMap (edgeRecs r2 u)) = some w →
        euclidSq (edgeMap (edgeRecs (some true) t')) (edgeMap (edgeRecs r2 u)) = some w' → w = w')
    ∧ (∀ w w', euclidSq (edgeMap (edgeRecs r2 u)) (edgeMap (edgeRecs (some true) t)) = some w →
        euclidSq (edgeMap (edgeRecs r2 u)) (edgeMap (edgeRecs (some true) t')) = some w' → w = w')
    ∧ (∀ w, wrf (edgeMap (edgeRecs (some true) t)) (edgeMap (edgeRecs (some true) t')) = some w → w = 0)
    ∧ (∀ w, euclidSq (edgeMap (edgeRecs (some true) t)) (edgeMap (edgeRecs (some true) t')) = some w → w = 0) := by
  obtain ⟨_, hps, hms⟩ := redraw_inv h
  have n1 := nodup_edgeMap (edgeRecs (some true) t)
  have n1' := nodup_edgeMap (edgeRecs (some true) t')
  have n2 := nodup_edgeMap (edgeRecs r2 u)
  have hl : ∀ k, lenAt (edgeMap (edgeRecs (some true) t)) k = lenAt (edgeMap (edgeRecs (some true) t')) k := by
    intro k
    obtain ⟨a1, a2⟩ := lenAt_eq_split_sum_rooted t hg h0 hw
    obtain ⟨b1, b2⟩ := lenAt_eq_split_sum_rooted t' hg' h0' hw'
    cases k with
    | ofNat m => rw [show Int.ofNat m = (m : Int) from rfl, a1 m, b1 m, hps]
    | negSucc n => rw [a2 n, b2 n]
  have hk : ∀ x, x ∈ keys (edgeMap (edgeRecs (some true) t)) ↔ x ∈ keys (edgeMap (edgeRecs (some true) t')) := by
    intro x
    rw [keys_edgeMap, keys_edgeMap, edgeRecs_splits_rooted, edgeRecs_splits_rooted]
    simp only [List.mem_map]
    constructor
    · rintro ⟨m, hm, rfl⟩
      exact ⟨m, (C01.suppress_keeps_masks t').2.2 m |>.mpr ((hms m).mp ((C01.suppress_keeps_masks t).2.2 m |>.mp hm)), rfl⟩
    · rintro ⟨m, hm, rfl⟩
      exact ⟨m, (C01.suppress_keeps_masks t).2.2 m |>.mpr ((hms m).mpr ((C01.suppress_keeps_masks t').2.2 m |>.mp hm)), rfl⟩
  refine ⟨?_, ?_, ?_, ?_, ?_, ?_⟩
  · intro w w' hw1 hw2; exact wrf_congr _ _ _ n1 n1' n2 hk hl w w' hw1 hw2
  · intro w w' hw1 hw2
    rw [wrf_symm _ _ n2 n1] at hw1; rw [wrf_symm _ _ n2 n1'] at hw2
    exact wrf_congr _ _ _ n1 n1' n2 hk hl w w' hw1 hw2
  · intro w w' hw1 hw2; exact euclidSq_congr _ _ _ n1 n1' n2 hk hl w w' hw1 hw2
  · intro w w' hw1 hw2
    rw [euclidSq_symm _ _ n2 n1] at hw1; rw [euclidSq_symm _ _ n2 n1'] at hw2
    exact euclidSq_congr _ _ _ n1 n1' n2 hk hl w w' hw1 hw2
  · intro w hw1; exact ((dist_zero_iff _ _ n1 n1').1 w hw1).mpr hl
  · intro w hw1; exact ((dist_zero_iff _ _ n1 n1').2 w hw1).mpr hl

/-- sample: `exA` with a unifurcation inserted above the clade `(t0,t1)`, its length 1/2 split as 1/4 + 1/4, children reordered -/
def Aux.exA' : T := .node 0 none none none [.node 4 (some 2) (some ⟨3, 1⟩) none [],
  .node 9 none (some ⟨1, 4⟩) none [.node 1 none (some ⟨1, 4⟩) none [.node 2 (some 0) (some ⟨1, 1⟩) none [], .node 3 (some 1) (some ⟨2, 1⟩) none []]]]
example : Redraw exA exA' :=
  (Redraw.child 0 none none none [] _ _ [_]
    (Redraw.unif (.node 1 none (some ⟨1, 2⟩) none [.node 2 (some 0) (some ⟨1, 1⟩) none [], .node 3 (some 1) (some ⟨2, 1⟩) none []])
      9 none none (some ⟨1, 4⟩) (some ⟨1, 4⟩) (by simp [qlen, fracToRat, T.len]; norm_num [Rat.mkRat_eq_div]))).trans
  (Redraw.swap 0 none none none [] _ _ [])
example : WFT exA ∧ WFT exA' := by simp [exA, exA', WFT, WFTL, OWF]
example : Hier.Good (T.toH exA') ∧ T.mask exA' ≠ 0 := by
  simp [exA', T.toH, T.toHL, Hier.Good, Hier.GoodL, Hier.mask, Hier.maskL, T.mask, T.maskL]

end DendroModel.C04

namespace DendroModel.C04.Aux
open DendroModel DendroModel.C04

/-- one seed move on a model tree: the seed's internal child `D = node j y lj sj ds` becomes the seed; the old seed, with its
    remaining children, hangs below it as last child and carries the length `lj` of the edge that was turned around; the
    (meaningless, for an unrooted tree) length `l` of the seed edge stays on the seed -/
def invertT (i : Nat) (x : Option Nat) (l : Option Frac) (s : Option String) (pre : List T)
    (j : Nat) (y : Option Nat) (lj : Option Frac) (sj : Option String) (ds post : List T) : T :=
  .node j y l sj (ds ++ [.node i x lj s (pre ++ post)])

theorem invert_mask (i x l s) (pre : List T) (j y lj sj) (ds post : List T) (hds : ds ≠ []) (hpp : pre ++ post ≠ []) :
    (invertT i x l s pre j y lj sj ds post).mask = T.mask (.node i x l s (pre ++ .node j y lj sj ds :: post)) := by
  unfold invertT
  rw [mask_of_ne_nil _ _ _ _ (by simp), mask_of_ne_nil _ _ _ _ (by simp), maskL_append, maskL_append]
  simp only [T.maskL, Nat.or_zero]
  rw [mask_of_ne_nil _ _ _ _ hpp, mask_of_ne_nil _ _ _ _ hds, maskL_append]
  ac_rfl

/-- a seed move keeps the total drawn length of every class of leafsets that does not separate the turned-around edge's two
    sides — in particular of every normalised split -/
theorem psum_invert (P : Nat → Bool) (i x l s) (pre : List T) (j y lj sj) (ds post : List T) (hds : ds ≠ []) (hpp : pre ++ post ≠ [])
    (hP : P (T.maskL ds) = P (T.maskL (pre ++ post))) :
    psum P (edgesPost true (invertT i x l s pre j y lj sj ds post))
      = psum P (edgesPost true (.node i x l s (pre ++ .node j y lj sj ds :: post))) := by
  have hm := invert_mask i x l s pre j y lj sj ds post hds hpp
  rw [edgesPost_node true i x l s, ← hm]
  unfold invertT at hm ⊢
  rw [edgesPost_node, hm]
  simp only [edgesPostL_append, edgesPostL, edgesPost_node, psum_append, psum_single, List.append_nil,
    mask_of_ne_nil _ _ _ _ hpp, mask_of_ne_nil _ _ _ _ hds, hP]
  ring

end DendroModel.C04.Aux

namespace DendroModel.C04.Aux
open DendroModel DendroModel.C04

theorem splitOf_invert (L a b : Nat) (hL : L = a ||| b) (hd : a &&& b = 0) (h0 : L ≠ 0) :
    C01.splitOf false L a = C01.splitOf false L b := by
  rw [C01.split_spec, C01.split_spec]
  simp only [Bool.false_eq_true, if_false]
  have hpos : 0 < L := Nat.pos_of_ne_zero h0
  obtain ⟨k, hk, hkL, _⟩ := C01.lsb_spec L hpos
  have hlo : Hier.bits (Lsb.lsb L) ⊆ Hier.bits L := by
    rw [hk, Hier.bits_shift]; intro i hi; rw [Set.mem_singleton_iff] at hi; subst hi; exact hkL
  have hsingle : ∀ x, Hier.bits (Lsb.lsb L) ⊆ Hier.bits x ∨ Disjoint (Hier.bits (Lsb.lsb L)) (Hier.bits x) := by
    intro x
    rw [hk, Hier.bits_shift]
    by_cases h : k ∈ Hier.bits x
    · left; intro i hi; rw [Set.mem_singleton_iff] at hi; subst hi; exact h
    · right; exact Set.disjoint_singleton_left.mpr h
  have hne : Lsb.lsb L ≠ 0 := by rw [hk]; exact Hier.shift_ne_zero k
  have haL : Hier.bits a ⊆ Hier.bits L := by rw [hL, Hier.bits_or]; exact Set.subset_union_left
  have hb : b = Hier.sdiff L a := by
    apply Hier.bits_inj
    rw [Hier.bits_sdiff, hL, Hier.bits_or]
    have hdj := (Hier.and_eq_zero_iff a b).mp hd
    ext i
    simp only [Set.mem_sdiff, Set.mem_union]
    constructor
    · intro hi; exact ⟨Or.inr hi, fun ha => (Set.disjoint_left.mp hdj) ha hi⟩
    · rintro ⟨hi | hi, hn⟩
      · exact absurd hi hn
      · exact hi
  rw [hb, Hier.norm_compl L (Lsb.lsb L) a haL hlo hsingle hne]

/-- membership in the driver's split list, through the leafsets of the tree as drawn -/
theorem mem_splits_iff (r : Option Bool) (t : T) (hr : r = some true ∨ t.cs.length ≠ 2) (x : Int) :
    x ∈ (edgeRecs r t).map (·.split) ↔ ∃ m ∈ T.masksPost t, C01.splitOf (r == some true) t.mask m = x := by
  rw [edgeRecs_splits]
  simp only [C01.encode, encodeTree_sup r t hr, sup_mask', List.map_map, List.mem_map, Function.comp]
  constructor
  · rintro ⟨m, hm, rfl⟩; exact ⟨m, ((C01.suppress_keeps_masks t).2.2 m).mp hm, rfl⟩
  · rintro ⟨m, hm, rfl⟩; exact ⟨m, ((C01.suppress_keeps_masks t).2.2 m).mpr hm, rfl⟩

end DendroModel.C04.Aux

namespace DendroModel.C04
open DendroModel DendroModel.C04.Aux

/-- **one seed move of an unrooted tree changes no weighted distance** (`_partial`).  `t'` is `t` with the seed's internal child
    `D` made the seed (`invertT`: the turned-around edge keeps its length); neither drawing has a bifurcating seed (so no basal
    collapse); siblings' leafsets are disjoint (`hdis`).  Then the split → length functions of the two coincide, hence wRF and
    Euclid² against any third tree agree whenever both are defined and are 0 between the two drawings.
    Missing for the full clause: the two `Nodup` hypotheses are assumed, not derived (for a rooted tree they follow from
    `rooted_splits_nodup`; the analogue for normalised splits of a tree whose seed has ≥ 3 children is not proved here), and
    the iteration along a path is proved for the unweighted distances only (`fpfn_seed_path`).
    SUPERSEDED by `dist_seed_move` (both `Nodup` hypotheses discharged) and `dist_redraw_unrooted` (whole paths). -/
theorem dist_seed_move_partial (r r2 : Option Bool) (hr : r ≠ some true) (u : T)
    (i : Nat) (x : Option Nat) (l : Option Frac) (s : Option String) (pre : List T)
    (j : Nat) (y : Option Nat) (lj : Option Frac) (sj : Option String) (ds post : List T)
    (hds : ds ≠ []) (hpp : pre ++ post ≠ [])
    (h3 : (pre ++ T.node j y lj sj ds :: post).length ≠ 2) (h3' : ds.length ≠ 1)
    (hdis : T.maskL ds &&& T.maskL (pre ++ post) = 0)
    (h0 : T.mask (.node i x l s (pre ++ .node j y lj sj ds :: post)) ≠ 0)
    (hw : WFT (.node i x l s (pre ++ .node j y lj sj ds :: post))) (hw' : WFT (invertT i x l s pre j y lj sj ds post))
    (hn : ((edgeRecs r (.node i x l s (pre ++ .node j y lj sj ds :: post))).map (·.split)).Nodup)
    (hn' : ((edgeRecs r (invertT i x l s pre j y lj sj ds post)).map (·.split)).Nodup) :
    (∀ k, lenAt (edgeMap (edgeRecs r (.node i x l s (pre ++ .node j y lj sj ds :: post)))) k
          = lenAt (edgeMap (edgeRecs r (invertT i x l s pre j y lj sj ds post))) k)
    ∧ (∀ w w', wrf (edgeMap (edgeRecs r (.node i x l s (pre ++ .node j y lj sj ds :: post)))) (edgeMap (edgeRecs r2 u)) = some w →
        wrf (edgeMap (edgeRecs r (invertT i x l s pre j y lj sj ds post))) (edgeMap (edgeRecs r2 u)) = some w' → w = w')
    ∧ (∀ w w', euclidSq (edgeMap (edgeRecs r (.node i x l s (pre ++ .node j y lj sj ds :: post)))) (edgeMap (edgeRecs r2 u)) = some w →
        euclidSq (edgeMap (edgeRecs r (invertT i x l s pre j y lj sj ds post))) (edgeMap (edgeRecs r2 u)) = some w' → w = w')
    ∧ (∀ w, wrf (edgeMap (edgeRecs r (.node i x l s (pre ++ .node j y lj sj ds :: post))))
          (edgeMap (edgeRecs r (invertT i x l s pre j y lj sj ds post))) = some w → w = 0)
    ∧ (∀ w, euclidSq (edgeMap (edgeRecs r (.node i x l s (pre ++ .node j y lj sj ds :: post))))
          (edgeMap (edgeRecs r (invertT i x l s pre j y lj sj ds post))) = some w → w = 0) := by
  set t : T := .node i x l s (pre ++ .node j y lj sj ds :: post) with ht
  set t' : T := invertT i x l s pre j y lj sj ds post with ht'
  have hb : (r == some true) = false := by
    cases r with
    | none => rfl
    | some b => cases b <;> simp_all
  have hrt : r = some true ∨ t.cs.length ≠ 2 := Or.inr (by simpa [ht, T.cs] using h3)
  have hrt' : r = some true ∨ t'.cs.length ≠ 2 := Or.inr (by simp [ht', invertT, T.cs]; omega)
  have hm : t'.mask = t.mask := invert_mask i x l s pre j y lj sj ds post hds hpp
  have hLeq : t.mask = T.maskL ds ||| T.maskL (pre ++ post) := by
    rw [ht, mask_of_ne_nil _ _ _ _ (by simp), maskL_append, maskL_append]
    simp only [T.maskL]
    rw [mask_of_ne_nil _ _ _ _ hds]
    ac_rfl
  have hF : C01.splitOf false t.mask (T.maskL ds) = C01.splitOf false t.mask (T.maskL (pre ++ post)) :=
    splitOf_invert t.mask _ _ hLeq hdis h0
  have hl : ∀ k, lenAt (edgeMap (edgeRecs r t)) k = lenAt (edgeMap (edgeRecs r t')) k := by
    intro k
    rw [lenAt_eq_split_sum r t hrt hw hn k, lenAt_eq_split_sum r t' hrt' hw' hn' k, hm, hb]
    exact (psum_invert _ i x l s pre j y lj sj ds post hds hpp (by rw [hF])).symm
  have hk : ∀ z, z ∈ keys (edgeMap (edgeRecs r t)) ↔ z ∈ keys (edgeMap (edgeRecs r t')) := by
    intro z
    rw [keys_edgeMap, keys_edgeMap, mem_splits_iff r t hrt, mem_splits_iff r t' hrt', hm, hb]
    have hD : T.mask (.node j y lj sj ds) = T.maskL ds := mask_of_ne_nil _ _ _ _ hds
    have hR : T.mask (.node i x lj s (pre ++ post)) = T.maskL (pre ++ post) := mask_of_ne_nil _ _ _ _ hpp
    have hm' : T.mask (.node j y l sj (ds ++ [.node i x lj s (pre ++ post)])) = t.mask := hm
    simp only [ht, ht', invertT, masksPost_eq, T.cs, masksPostL_append', T.masksPostL, List.append_nil, List.mem_append,
      List.mem_singleton, hD, hR, hm']
    constructor
    · rintro ⟨m, hmm, rfl⟩
      rcases hmm with (h | (h | h) | h) | h
      · exact ⟨m, Or.inl (Or.inr (Or.inl (Or.inl h))), rfl⟩
      · exact ⟨m, Or.inl (Or.inl h), rfl⟩
      · subst h; exact ⟨T.maskL (pre ++ post), Or.inl (Or.inr (Or.inr rfl)), hF.symm⟩
      · exact ⟨m, Or.inl (Or.inr (Or.inl (Or.inr h))), rfl⟩
      · exact ⟨m, Or.inr h, rfl⟩
    · rintro ⟨m, hmm, rfl⟩
      rcases hmm with (h | (h | h) | h) | h
      · exact ⟨m, Or.inl (Or.inr (Or.inl (Or.inl h))), rfl⟩
      · exact ⟨m, Or.inl (Or.inl h), rfl⟩
      · exact ⟨m, Or.inl (Or.inr (Or.inr h)), rfl⟩
      · subst h; exact ⟨T.maskL ds, Or.inl (Or.inr (Or.inl (Or.inr rfl))), hF⟩
      · exact ⟨m, Or.inr h, rfl⟩
  have n1 := nodup_edgeMap (edgeRecs r t)
  have n1' := nodup_edgeMap (edgeRecs r t')
  have n2 := nodup_edgeMap (edgeRecs r2 u)
  refine ⟨hl, ?_, ?_, ?_, ?_⟩
  · intro w w' hw1 hw2; exact wrf_congr _ _ _ n1 n1' n2 hk hl w w' hw1 hw2
  · intro w w' hw1 hw2; exact euclidSq_congr _ _ _ n1 n1' n2 hk hl w w' hw1 hw2
  · intro w hw1; exact ((dist_zero_iff _ _ n1 n1').1 w hw1).mpr hl
  · intro w hw1; exact ((dist_zero_iff _ _ n1 n1').2 w hw1).mpr hl

end DendroModel.C04

namespace DendroModel.C04
open DendroModel DendroModel.C04.Aux
/-- non-vacuity of `dist_seed_move_partial`: `exU = ((t0,t1),t2,t3)` and the move to its inner vertex -/
example :
    let ds : List T := [.node 2 (some 0) none none [], .node 3 (some 1) none none []]
    let post : List T := [.node 4 (some 2) none none [], .node 5 (some 3) none none []]
    exU = .node 0 none none none ([] ++ .node 1 none none none ds :: post)
    ∧ T.maskL ds &&& T.maskL ([] ++ post) = 0 ∧ T.mask exU ≠ 0
    ∧ WFT exU ∧ WFT (invertT 0 none none none [] 1 none none none ds post)
    ∧ ((edgeRecs (some false) exU).map (·.split)).Nodup
    ∧ ((edgeRecs (some false) (invertT 0 none none none [] 1 none none none ds post)).map (·.split)).Nodup := by
  refine ⟨rfl, by decide, by decide, ?_, ?_, by decide, by decide⟩
  · simp [exU, WFT, WFTL, OWF]
  · simp [invertT, WFT, WFTL, OWF]
end DendroModel.C04

/-! ## staleness switch, namespace refusal, histories (Model/C04State.lean)
The definitions below are executed by the driver: `sdist` runs `fpfnCall` / `missingCall` on two tree objects with given stored
encodings, `hist` runs a whole history through `step` / `run` (edits, calls with either flag, `weightedCall`) and prints every
call's answer; the harness sends every generated history (with the library's own in-place re-drawing of its arguments handed
to the model as edits) and compares answer by answer.  The theorems of this section are true by construction of `step` and of
the `if`s in the call functions — they record what the model says; that the LIBRARY behaves like the model is what the
correspondence checks, not what is proved. -/
namespace DendroModel.C04.Aux
open DendroModel DendroModel.C04

/-- the two current structures after a history: only the edits matter -/
def curAfter : List Ev → (Option Bool × T) × (Option Bool × T) → (Option Bool × T) × (Option Bool × T)
  | [], c => c
  | .editA t :: evs, c => curAfter evs ((c.1.1, t), c.2)
  | .editB t :: evs, c => curAfter evs (c.1, (c.2.1, t))
  | .rootA r t :: evs, c => curAfter evs ((r, t), c.2)
  | .rootB r t :: evs, c => curAfter evs (c.1, (r, t))
  | .fpfn _ :: evs, c => curAfter evs c
  | .missing _ :: evs, c => curAfter evs c
  | .weighted :: evs, c => curAfter evs c

theorem prepare_fields (u : Bool) (o : TreeObj) :
    (o.prepare u).ns = o.ns ∧ (o.prepare u).rooted = o.rooted ∧ (o.prepare u).cur = o.cur := by
  unfold TreeObj.prepare TreeObj.encode
  cases u <;> cases o.enc <;> simp

theorem step_fields (st : TreeObj × TreeObj) (e : Ev) :
    (step st e).1.ns = st.1.ns ∧ (step st e).2.ns = st.2.ns
    ∧ (((step st e).1.rooted, (step st e).1.cur), ((step st e).2.rooted, (step st e).2.cur))
        = curAfter [e] ((st.1.rooted, st.1.cur), (st.2.rooted, st.2.cur)) := by
  cases e with
  | editA t => simp [step, TreeObj.edit, curAfter]
  | editB t => simp [step, TreeObj.edit, curAfter]
  | rootA r t => simp [step, TreeObj.reroot, curAfter]
  | rootB r t => simp [step, TreeObj.reroot, curAfter]
  | fpfn u =>
    simp only [step, fpfnCall, curAfter]
    split <;> simp [prepare_fields]
  | missing u =>
    simp only [step, missingCall, curAfter]
    split <;> simp [prepare_fields]
  | weighted =>
    simp only [step, weightedCall, curAfter]
    split <;> simp [TreeObj.encode]

theorem curAfter_cons (e : Ev) (evs : List Ev) (c : (Option Bool × T) × (Option Bool × T)) :
    curAfter (e :: evs) c = curAfter evs (curAfter [e] c) := by
  cases e <;> simp [curAfter]

theorem run_fields : ∀ (evs : List Ev) (st : TreeObj × TreeObj),
    (run evs st).1.ns = st.1.ns ∧ (run evs st).2.ns = st.2.ns
    ∧ (((run evs st).1.rooted, (run evs st).1.cur), ((run evs st).2.rooted, (run evs st).2.cur))
        = curAfter evs ((st.1.rooted, st.1.cur), (st.2.rooted, st.2.cur))
  | [], st => by simp [run, curAfter]
  | e :: evs, st => by
    obtain ⟨a1, a2, a5⟩ := step_fields st e
    obtain ⟨b1, b2, b5⟩ := run_fields evs (step st e)
    have : run (e :: evs) st = run evs (step st e) := rfl
    rw [this, curAfter_cons, ← a5]
    exact ⟨b1.trans a1, b2.trans a2, b5⟩

end DendroModel.C04.Aux

namespace DendroModel.C04
open DendroModel DendroModel.C04.Aux

/-- **with default arguments the result reflects the current structures, never the stored encoding**: the value (and the
    refusal) of a call with `is_bipartitions_updated=False` is a function of the two namespaces, rooting flags and CURRENT
    structures alone — whatever encodings the tree objects carry -/
theorem default_call_ignores_stored_encoding (a b : TreeObj) :
    (fpfnCall false a b).1 = (if a.ns != b.ns then none else some (fpfn a.fresh b.fresh))
    ∧ (missingCall false a b).1 = (if a.ns != b.ns then none else some (missing a.fresh b.fresh))
    ∧ (weightedCall a b).1 = (if a.ns != b.ns then none else
        some (wrf (edgeMap (edgeRecs a.rooted a.cur)) (edgeMap (edgeRecs b.rooted b.cur)),
              euclidSq (edgeMap (edgeRecs a.rooted a.cur)) (edgeMap (edgeRecs b.rooted b.cur)))) := by
  refine ⟨?_, ?_, ?_⟩
  · unfold fpfnCall; split <;> simp [TreeObj.prepare, TreeObj.encode, TreeObj.splits]
  · unfold missingCall; split <;> simp [TreeObj.prepare, TreeObj.encode, TreeObj.splits]
  · unfold weightedCall; split <;> simp

/-- **for all interleavings of structural edits and rooting-state changes with distance calls**: after ANY history of edits (of
    either tree), changes of a tree's rooting flag (with whatever re-drawing comes with them) and calls (of any of the functions,
    with either value of `is_bipartitions_updated`), a call with default arguments on two trees over one namespace returns exactly
    the value of the two CURRENT (rooting flag, structure) pairs (`curAfter`: the last edit / rooting change of each tree, or its
    initial state) — the stored encodings, however stale and under whatever earlier flag they were made, are never used -/
theorem history_default_call_is_fresh (evs : List Ev) (a b : TreeObj) (hns : a.ns = b.ns) :
    let c := curAfter evs ((a.rooted, a.cur), (b.rooted, b.cur))
    (fpfnCall false (run evs (a, b)).1 (run evs (a, b)).2).1
        = some (fpfn ((edgeRecs c.1.1 c.1.2).map (·.split)) ((edgeRecs c.2.1 c.2.2).map (·.split)))
    ∧ (missingCall false (run evs (a, b)).1 (run evs (a, b)).2).1
        = some (missing ((edgeRecs c.1.1 c.1.2).map (·.split)) ((edgeRecs c.2.1 c.2.2).map (·.split)))
    ∧ (weightedCall (run evs (a, b)).1 (run evs (a, b)).2).1
        = some (wrf (edgeMap (edgeRecs c.1.1 c.1.2)) (edgeMap (edgeRecs c.2.1 c.2.2)),
                euclidSq (edgeMap (edgeRecs c.1.1 c.1.2)) (edgeMap (edgeRecs c.2.1 c.2.2))) := by
  intro c
  obtain ⟨h1, h2, h5⟩ := run_fields evs (a, b)
  simp only at h1 h2 h5
  have hr1 : (run evs (a, b)).1.rooted = c.1.1 := congrArg (fun p => p.1.1) h5
  have hc1 : (run evs (a, b)).1.cur = c.1.2 := congrArg (fun p => p.1.2) h5
  have hr2 : (run evs (a, b)).2.rooted = c.2.1 := congrArg (fun p => p.2.1) h5
  have hc2 : (run evs (a, b)).2.cur = c.2.2 := congrArg (fun p => p.2.2) h5
  have hne : ((run evs (a, b)).1.ns != (run evs (a, b)).2.ns) = false := by rw [h1, h2, hns]; simp
  obtain ⟨d1, d2, d3⟩ := default_call_ignores_stored_encoding (run evs (a, b)).1 (run evs (a, b)).2
  rw [d1, d2, d3, hne]
  simp only [Bool.false_eq_true, if_false, TreeObj.fresh, hr1, hr2, hc1, hc2]
  refine ⟨?_, ?_, ?_⟩ <;> first | rfl | trivial

/-- **trees over different namespaces are refused** by every function, whatever the flag and the stored encodings; trees over
    one namespace never are (for that reason) -/
theorem namespace_refusal (u : Bool) (a b : TreeObj) :
    ((fpfnCall u a b).1 = none ↔ a.ns ≠ b.ns) ∧ ((missingCall u a b).1 = none ↔ a.ns ≠ b.ns)
    ∧ ((weightedCall a b).1 = none ↔ a.ns ≠ b.ns) := by
  refine ⟨?_, ?_, ?_⟩
  · unfold fpfnCall; by_cases h : a.ns = b.ns <;> simp [h]
  · unfold missingCall; by_cases h : a.ns = b.ns <;> simp [h]
  · unfold weightedCall; by_cases h : a.ns = b.ns <;> simp [h]

/-- the switch is real: with `is_bipartitions_updated=True` two already-encoded trees are compared on their STORED encodings -/
theorem updated_call_uses_stored_encoding (a b : TreeObj) (hns : a.ns = b.ns) (l1 l2 : List Int)
    (h1 : a.enc = some l1) (h2 : b.enc = some l2) :
    (fpfnCall true a b).1 = some (fpfn l1 l2) ∧ (missingCall true a b).1 = some (missing l1 l2) := by
  constructor
  · unfold fpfnCall; simp [hns, TreeObj.prepare, TreeObj.splits, h1, h2]
  · unfold missingCall; simp [hns, TreeObj.prepare, TreeObj.splits, h1, h2]

/-- non-vacuity: after encoding `exA` against itself and then editing the first tree into `exC`, the default call sees the
    edit (RF 2) while `is_bipartitions_updated=True` still answers from the stored encoding (RF 0) -/
example :
    let st := run [.fpfn false, .editA exC] (⟨0, some true, exA, none⟩, ⟨0, some true, exA, none⟩)
    (fpfnCall false st.1 st.2).1 = some (1, 1) ∧ (fpfnCall true st.1 st.2).1 = some (0, 0) := by decide
example : (fpfnCall false ⟨0, some true, exA, none⟩ ⟨1, some true, exA, none⟩).1 = none := by decide
/-- non-vacuity, rooting change: `exU` against its re-drawing `exV`, both encoded as ROOTED trees (RF 2: the clades differ), then
    both flags set to unrooted: the default call answers for the current flag (RF 0), `is_bipartitions_updated=True` still from the
    encodings made under the old flag (RF 2) -/
example :
    let st := run [.fpfn false, .rootA (some false) exU, .rootB (some false) exV] (⟨0, some true, exU, none⟩, ⟨0, some true, exV, none⟩)
    (fpfnCall false st.1 st.2).1 = some (0, 0) ∧ (fpfnCall true st.1 st.2).1 = some (1, 1) := by decide

end DendroModel.C04

/-! ## final round: the unrooted half of "zero between re-drawings" -/
namespace DendroModel.C04.Aux
open DendroModel DendroModel.C04
/-- a rooting flag that is unset behaves as unrooted everywhere in the encoder -/
theorem edgeRecs_not_rooted (r : Option Bool) (hr : r ≠ some true) (t : T) : edgeRecs r t = edgeRecs (some false) t := by
  cases r with
  | none => rfl
  | some b => cases b with
    | false => rfl
    | true => exact absurd rfl hr
end DendroModel.C04.Aux
namespace DendroModel.C04
open DendroModel DendroModel.C04.Aux

/-- **RF is zero exactly between re-drawings (not rooted)**: for two well-formed trees that are not rooted, over the same ≥ 3
    taxa, the symmetric-difference distance on the split lists the driver computes is 0 iff they are the same UNROOTED
    topology — the same tree up to child order once unifurcations are suppressed and both are re-seeded at the node their
    lowest leaf `k` hangs from (`C01.canonU`).  No restriction on the seed: bifurcating seeds (basal collapse, whichever
    child it keeps), any seed position, any child order, inserted unifurcations are all covered.  Composition of `rf_zero_iff`,
    `edgeRecs_splits_eq_encode` and `C01.encode_unrooted_iff_topology`; supersedes `rf_zero_seed_move_partial`,
    `fpfn_seed_path` and the not-rooted half of `fpfn_child_order_partial`. -/
theorem rf_zero_iff_unrooted_topology (r r' : Option Bool) (hr : r ≠ some true) (hr' : r' ≠ some true) (t u : T)
    (hgt : Hier.Good (T.toH t)) (hgu : Hier.Good (T.toH u)) (hL : t.mask = u.mask) (h3 : C01.Bridge.ThreeTaxa t.mask)
    (k : Nat) (hk : Lsb.lsb t.mask = 1 <<< k) :
    rf ((edgeRecs r t).map (·.split)) ((edgeRecs r' u).map (·.split)) = 0
      ↔ Hier.Iso (C01.canonU k (Hier.sup (T.toH t))) (C01.canonU k (Hier.sup (T.toH u))) := by
  rw [edgeRecs_not_rooted r hr, edgeRecs_not_rooted r' hr', rf_zero_iff, edgeRecs_splits_eq_encode, edgeRecs_splits_eq_encode]
  exact C01.encode_unrooted_iff_topology true true true true t u hgt hgu hL h3 k hk

/-- **re-drawing a tree that is not rooted changes no unweighted distance**: same unrooted topology ⇒ false positives /
    negatives (hence RF) and the missing-split set against any third tree are the same, in both argument positions -/
theorem fpfn_redraw_unrooted (r r' r2 : Option Bool) (hr : r ≠ some true) (hr' : r' ≠ some true) (t t' u : T)
    (hgt : Hier.Good (T.toH t)) (hgt' : Hier.Good (T.toH t')) (hL : t.mask = t'.mask) (h3 : C01.Bridge.ThreeTaxa t.mask)
    (k : Nat) (hk : Lsb.lsb t.mask = 1 <<< k)
    (h : Hier.Iso (C01.canonU k (Hier.sup (T.toH t))) (C01.canonU k (Hier.sup (T.toH t')))) :
    fpfn ((edgeRecs r t).map (·.split)) ((edgeRecs r2 u).map (·.split))
        = fpfn ((edgeRecs r' t').map (·.split)) ((edgeRecs r2 u).map (·.split))
    ∧ fpfn ((edgeRecs r2 u).map (·.split)) ((edgeRecs r t).map (·.split))
        = fpfn ((edgeRecs r2 u).map (·.split)) ((edgeRecs r' t').map (·.split))
    ∧ (∀ x, x ∈ missing ((edgeRecs r t).map (·.split)) ((edgeRecs r2 u).map (·.split))
          ↔ x ∈ missing ((edgeRecs r' t').map (·.split)) ((edgeRecs r2 u).map (·.split))) := by
  have hs := (rf_zero_iff _ _).mp ((rf_zero_iff_unrooted_topology r r' hr hr' t t' hgt hgt' hL h3 k hk).mpr h)
  refine ⟨fpfn_congr _ _ _ _ hs (fun _ => Iff.rfl), fpfn_congr _ _ _ _ (fun _ => Iff.rfl) hs, ?_⟩
  intro x; rw [missing_spec, missing_spec, hs x]

end DendroModel.C04

namespace DendroModel.C04
open DendroModel DendroModel.C04.Aux
/-- sample with a BIFURCATING seed (basal collapse): `((t0,t1),(t2,t3))`, the same unrooted tree as `exU` and `exV` -/
def Aux.exW : T := .node 0 none none none [.node 1 none none none [.node 2 (some 0) none none [], .node 3 (some 1) none none []],
  .node 6 none none none [.node 4 (some 2) none none [], .node 5 (some 3) none none []]]
example : Hier.Good (T.toH exU) ∧ Hier.Good (T.toH exW) ∧ exU.mask = exW.mask ∧ C01.Bridge.ThreeTaxa exU.mask
    ∧ Lsb.lsb exU.mask = 1 <<< 0 := by
  refine ⟨?_, ?_, by decide, ⟨0, 1, 2, ?_, ?_, ?_, by decide, by decide, by decide⟩, by decide⟩
  · simp [exU, T.toH, T.toHL, Hier.Good, Hier.GoodL, Hier.mask, Hier.maskL]
  · simp [exW, T.toH, T.toHL, Hier.Good, Hier.GoodL, Hier.mask, Hier.maskL]
  all_goals (show _ ∈ Hier.bits _; simp [Hier.bits]; decide)
example : rf ((edgeRecs (some false) exU).map (·.split)) ((edgeRecs none exW).map (·.split)) = 0 := by decide
example : (edgeRecs (some false) exW).map (·.split) = [14, 2, 12, 4, 8, 0] := by decide
end DendroModel.C04

/-! ## last round: distinct unrooted splits; weighted distances along paths of re-drawing steps -/

namespace DendroModel.C04.Aux
open DendroModel DendroModel.C04

/-- the normalised splits of a model tree whose mask-labelled view is well formed and unifurcation-free and whose seed has
    at least three children are pairwise distinct -/
theorem unrooted_masks_nodup (t2 : T) (hg : Hier.Good (T.toH t2)) (hn : Hier.NoUnif (T.toH t2)) (h3 : 3 ≤ t2.cs.length) :
    ((T.masksPost t2).map (fun m => C01.splitOf false t2.mask m)).Nodup := by
  match t2, hg, hn, h3 with
  | .node i x l s (c :: cs), hg, hn, h3 =>
    have hlen : 3 ≤ (T.toHL (c :: cs)).length := by rw [C01.Aux.toHL_length]; exact h3
    have hH : T.toH (.node i x l s (c :: cs)) = .node (T.toHL (c :: cs)) := rfl
    rw [hH] at hg hn
    simp only [Hier.Good] at hg
    simp only [Hier.NoUnif] at hn
    have key := Hier.nsplits_nodup (Lsb.lsb (T.mask (.node i x l s (c :: cs)))) hg hn.2 hlen
    have hF : (fun m => C01.splitOf false (T.mask (.node i x l s (c :: cs))) m)
        = (fun m => Int.ofNat (Hier.norm (T.mask (.node i x l s (c :: cs))) (Lsb.lsb (T.mask (.node i x l s (c :: cs)))) m)) := by
      funext m; rw [C01.split_spec]; simp
    rw [hF, show (fun m => Int.ofNat (Hier.norm (T.mask (.node i x l s (c :: cs))) (Lsb.lsb (T.mask (.node i x l s (c :: cs)))) m))
        = Int.ofNat ∘ (Hier.norm (T.mask (.node i x l s (c :: cs))) (Lsb.lsb (T.mask (.node i x l s (c :: cs))))) from rfl, ← List.map_map]
    apply List.Nodup.map (fun _ _ h => Int.ofNat.inj h)
    rw [((masksPost_perm (.node i x l s (c :: cs))).map _).nodup_iff, hH]
    have hm : Hier.mask (.node (T.toHL (c :: cs))) = T.mask (.node i x l s (c :: cs)) := by rw [← hH, C01.Aux.toH_mask]
    unfold Hier.nsplits at key
    rw [hm] at key
    exact key

end DendroModel.C04.Aux

namespace DendroModel.C04
open DendroModel DendroModel.C04.Aux

/-- **no two edges of a well-formed tree that is not rooted induce the same split, once its seed has at least three children**
    (no basal collapse involved: `hr`; the collapse case is `unrooted_splits_nodup`).  The `Nodup` hypothesis of
    `dist_child_order_partial` / `dist_seed_move_partial` / `lenAt_eq_split_sum` is hereby a theorem. -/
theorem unrooted_splits_nodup_nocollapse (r : Option Bool) (hr : r ≠ some true) (t : T) (hc : t.cs.length ≠ 2)
    (hg : Hier.Good (T.toH t)) (h0 : T.mask t ≠ 0) (hdeg : 3 ≤ (T.sup t).cs.length) :
    ((edgeRecs r t).map (·.split)).Nodup := by
  have hb : (r == some true) = false := by
    cases r with
    | none => rfl
    | some b => cases b <;> simp_all
  rw [edgeRecs_splits]
  simp only [C01.encode, encodeTree_sup r t (Or.inr hc), List.map_map, hb]
  have := unrooted_masks_nodup (T.sup t) (by rw [C01.Aux.sup_toH]; exact Hier.sup_good _ hg)
    (by rw [C01.Aux.sup_toH]; exact Hier.sup_noUnif _ hg (by rw [C01.Aux.toH_mask]; exact h0)) hdeg
  exact this

end DendroModel.C04

namespace DendroModel.C04.Aux
open DendroModel DendroModel.C04

theorem toHL_append : ∀ a b : List T, T.toHL (a ++ b) = T.toHL a ++ T.toHL b
  | [], b => by simp [T.toHL]
  | c :: a, b => by simp [T.toHL, toHL_append a b]

theorem toH_of_cs (t : T) (h : 1 ≤ t.cs.length) : T.toH t = .node (T.toHL t.cs) := by
  match t, h with
  | .node i x l s (c :: cs), _ => rfl

/-- opening up a basal bifurcation keeps the mask-labelled view well formed -/
theorem good_collapse (t : T) (hg : Hier.Good (T.toH t)) : Hier.Good (T.toH t.collapseBasal) := by
  match t, hg with
  | .node i x l s [a, b], hg =>
    have hH : T.toH (.node i x l s [a, b]) = .node [T.toH a, T.toH b] := rfl
    rw [hH] at hg
    simp only [Hier.Good, Hier.GoodL, Hier.maskL, Nat.or_zero] at hg
    obtain ⟨ga, a0, dab, gb, b0, _, _⟩ := hg
    simp only [T.collapseBasal]
    by_cases hb : b.cs.length ≥ 2
    · rw [if_pos hb]
      have hbH := toH_of_cs b (by omega)
      have : T.toH (.node i x l s (a.withLen (tryAdd a.len b.len) :: b.cs)) = .node (T.toH a :: T.toHL b.cs) := by
        simp [T.toH, T.toHL, C01.Aux.withLen_toH]
      rw [this]
      rw [hbH] at gb dab
      simp only [Hier.Good, Hier.mask] at gb dab
      simp only [Hier.Good, Hier.GoodL]
      exact ⟨ga, a0, dab, gb⟩
    · rw [if_neg hb]
      by_cases ha : a.cs.length ≥ 2
      · rw [if_pos ha]
        have haH := toH_of_cs a (by omega)
        have hne : a.cs ++ [b.withLen (tryAdd b.len a.len)] ≠ [] := by simp
        have : T.toH (.node i x l s (a.cs ++ [b.withLen (tryAdd b.len a.len)])) = .node (T.toHL a.cs ++ [T.toH b]) := by
          rw [toH_of_cs _ (by simp [T.cs])]
          simp [T.cs, toHL_append, T.toHL, C01.Aux.withLen_toH]
        rw [this]
        rw [haH] at ga dab
        simp only [Hier.Good, Hier.mask] at ga dab
        simp only [Hier.Good]
        apply Hier.goodL_snoc ga gb b0
        intro c hc
        have hsub := Hier.bits_maskL_subset_of_mem hc
        rw [Hier.and_eq_zero_iff]
        exact Set.disjoint_of_subset_left hsub ((Hier.and_eq_zero_iff _ _).mp dab)
      · rw [if_neg ha]; rw [hH]; simp only [Hier.Good, Hier.GoodL, Hier.maskL, Nat.or_zero]; exact ⟨ga, a0, dab, gb, b0, by simp, trivial⟩
  | .node i x l s [], hg => simpa [T.collapseBasal] using hg
  | .node i x l s [a], hg => simpa [T.collapseBasal] using hg
  | .node i x l s (a :: b :: c :: rest), hg => simpa [T.collapseBasal] using hg

end DendroModel.C04.Aux

namespace DendroModel.C04
open DendroModel DendroModel.C04.Aux

/-- **no two edges of a well-formed tree that is not rooted induce the same split, as soon as its seed has at least three
    children after encoding** (basal collapse included).  This is the fact the known finding `basal-bifurcation-survives-encoding`
    is the exception to: with a seed that is still bifurcating after encoding the two basal edges share their split. -/
theorem unrooted_splits_nodup (r : Option Bool) (hr : r ≠ some true) (t : T)
    (hg : Hier.Good (T.toH t)) (h0 : T.mask t ≠ 0) (hdeg : 3 ≤ (C01.encodeTree r true true t).cs.length) :
    ((edgeRecs r t).map (·.split)).Nodup := by
  have hb : (r == some true) = false := by
    cases r with
    | none => rfl
    | some b => cases b <;> simp_all
  rw [edgeRecs_splits]
  simp only [C01.encode, List.map_map, hb]
  -- the tree before suppression
  obtain ⟨t1, ht1, hg1, hm1⟩ : ∃ t1, C01.encodeTree r true true t = T.sup t1 ∧ Hier.Good (T.toH t1) ∧ t1.mask ≠ 0 := by
    unfold C01.encodeTree
    by_cases hc : t.cs.length = 2
    · refine ⟨t.collapseBasal, by simp [hc, hr], good_collapse t hg, ?_⟩
      rw [C01.Bridge.collapse_mask]; exact h0
    · exact ⟨t, by simp [hc], hg, h0⟩
  rw [ht1] at hdeg ⊢
  exact unrooted_masks_nodup (T.sup t1) (by rw [C01.Aux.sup_toH]; exact Hier.sup_good _ hg1)
    (by rw [C01.Aux.sup_toH]; exact Hier.sup_noUnif _ hg1 (by rw [C01.Aux.toH_mask]; exact hm1)) hdeg

example : 3 ≤ (C01.encodeTree (some false) true true exW).cs.length ∧ 3 ≤ (C01.encodeTree none true true exU).cs.length := by decide

end DendroModel.C04

namespace DendroModel.C04
open DendroModel DendroModel.C04.Aux

/-- **reordering the children of a well-formed tree that is not rooted changes no weighted distance** — `dist_child_order_partial`
    with its `Nodup` hypothesis discharged by `unrooted_splits_nodup`.  Hypotheses, exactly: the seed is not bifurcating as drawn
    (`hc`: no basal collapse, whose choice of the kept child depends on the order — that case is covered, for values, by
    `dist_redraw_unrooted`) and has at least three children once unifurcations are suppressed (`hdeg`; with two, the two basal
    edges share a split and the claim is FALSE: known finding `basal-bifurcation-survives-encoding`). -/
theorem dist_child_order_unrooted (r r2 : Option Bool) (hr : r ≠ some true) (t t' u : T) (h : CIso t t') (hc : t.cs.length ≠ 2)
    (hg : Hier.Good (T.toH t)) (h0 : T.mask t ≠ 0) (hdeg : 3 ≤ (T.sup t).cs.length) :
    wrf (edgeMap (edgeRecs r t)) (edgeMap (edgeRecs r2 u)) = wrf (edgeMap (edgeRecs r t')) (edgeMap (edgeRecs r2 u))
    ∧ wrf (edgeMap (edgeRecs r2 u)) (edgeMap (edgeRecs r t)) = wrf (edgeMap (edgeRecs r2 u)) (edgeMap (edgeRecs r t'))
    ∧ euclidSq (edgeMap (edgeRecs r t)) (edgeMap (edgeRecs r2 u)) = euclidSq (edgeMap (edgeRecs r t')) (edgeMap (edgeRecs r2 u))
    ∧ euclidSq (edgeMap (edgeRecs r2 u)) (edgeMap (edgeRecs r t)) = euclidSq (edgeMap (edgeRecs r2 u)) (edgeMap (edgeRecs r t'))
    ∧ (∀ w, wrf (edgeMap (edgeRecs r t)) (edgeMap (edgeRecs r t')) = some w → w = 0)
    ∧ (∀ w, euclidSq (edgeMap (edgeRecs r t)) (edgeMap (edgeRecs r t')) = some w → w = 0) :=
  dist_child_order_partial r r2 t t' u h (Or.inr hc)
    (unrooted_splits_nodup r hr t hg h0 (by rw [encodeTree_sup r t (Or.inr hc)]; exact hdeg))

example : exU.cs.length ≠ 2 ∧ 3 ≤ (T.sup exU).cs.length ∧ Hier.Good (T.toH exU) ∧ T.mask exU ≠ 0 := by
  refine ⟨by decide, by decide, ?_, by decide⟩
  simp [exU, T.toH, T.toHL, Hier.Good, Hier.GoodL, Hier.mask, Hier.maskL]

end DendroModel.C04

namespace DendroModel.C04.Aux
open DendroModel DendroModel.C04

/-- the per-split length table of a tree that is not rooted, read off the tree AS DRAWN: total length of the drawn edges whose
    leafset normalises to `k` (this is the table the Python oracle builds from scratch) -/
def usum (t : T) (k : Int) : Rat := psum (fun m => C01.splitOf false t.mask m == k) (edgesPost true t)

/-- re-drawings of a tree that is not rooted: everything `Redraw` allows (children reordered, unifurcations inserted with the
    length split, anywhere in the tree), plus moving the seed to an internal child of the seed (`invertT`), in any sequence -/
inductive URedraw : T → T → Prop
  | redraw {a b : T} : Redraw a b → URedraw a b
  | move (i : Nat) (x : Option Nat) (l : Option Frac) (s : Option String) (pre : List T)
      (j : Nat) (y : Option Nat) (lj : Option Frac) (sj : Option String) (ds post : List T)
      (hds : ds ≠ []) (hpp : pre ++ post ≠ []) (hdis : T.maskL ds &&& T.maskL (pre ++ post) = 0) :
      URedraw (.node i x l s (pre ++ .node j y lj sj ds :: post)) (invertT i x l s pre j y lj sj ds post)
  | symm {a b : T} : URedraw a b → URedraw b a
  | trans {a b c : T} : URedraw a b → URedraw b c → URedraw a c

theorem uredraw_mask {a b : T} (h : URedraw a b) : a.mask = b.mask := by
  induction h with
  | redraw h => exact (redraw_inv h).1
  | move i x l s pre j y lj sj ds post hds hpp _ => exact (invert_mask i x l s pre j y lj sj ds post hds hpp).symm
  | symm _ ih => exact ih.symm
  | trans _ _ ih1 ih2 => exact ih1.trans ih2

/-- the set of normalised splits of the tree as drawn -/
def USet (t : T) (z : Int) : Prop := ∃ m ∈ T.masksPost t, C01.splitOf false t.mask m = z

theorem move_inv (i : Nat) (x : Option Nat) (l : Option Frac) (s : Option String) (pre : List T)
    (j : Nat) (y : Option Nat) (lj : Option Frac) (sj : Option String) (ds post : List T)
    (hds : ds ≠ []) (hpp : pre ++ post ≠ []) (hdis : T.maskL ds &&& T.maskL (pre ++ post) = 0)
    (h0 : T.mask (.node i x l s (pre ++ .node j y lj sj ds :: post)) ≠ 0) :
    (∀ k, usum (.node i x l s (pre ++ .node j y lj sj ds :: post)) k = usum (invertT i x l s pre j y lj sj ds post) k)
    ∧ (∀ z, USet (.node i x l s (pre ++ .node j y lj sj ds :: post)) z ↔ USet (invertT i x l s pre j y lj sj ds post) z) := by
  set t : T := .node i x l s (pre ++ .node j y lj sj ds :: post) with ht
  set t' : T := invertT i x l s pre j y lj sj ds post with ht'
  have hm : t'.mask = t.mask := invert_mask i x l s pre j y lj sj ds post hds hpp
  have hLeq : t.mask = T.maskL ds ||| T.maskL (pre ++ post) := by
    rw [ht, mask_of_ne_nil _ _ _ _ (by simp), maskL_append, maskL_append]
    simp only [T.maskL]
    rw [mask_of_ne_nil _ _ _ _ hds]
    ac_rfl
  have hF : C01.splitOf false t.mask (T.maskL ds) = C01.splitOf false t.mask (T.maskL (pre ++ post)) :=
    splitOf_invert t.mask _ _ hLeq hdis h0
  constructor
  · intro k
    unfold usum
    rw [hm]
    exact (psum_invert _ i x l s pre j y lj sj ds post hds hpp (by rw [hF])).symm
  · intro z
    unfold USet
    rw [hm]
    have hD : T.mask (.node j y lj sj ds) = T.maskL ds := mask_of_ne_nil _ _ _ _ hds
    have hR : T.mask (.node i x lj s (pre ++ post)) = T.maskL (pre ++ post) := mask_of_ne_nil _ _ _ _ hpp
    have hm' : T.mask (.node j y l sj (ds ++ [.node i x lj s (pre ++ post)])) = t.mask := hm
    simp only [ht, ht', invertT, masksPost_eq, T.cs, masksPostL_append', T.masksPostL, List.append_nil, List.mem_append,
      List.mem_singleton, hD, hR, hm']
    constructor
    · rintro ⟨m, hmm, rfl⟩
      rcases hmm with (h | (h | h) | h) | h
      · exact ⟨m, Or.inl (Or.inr (Or.inl (Or.inl h))), rfl⟩
      · exact ⟨m, Or.inl (Or.inl h), rfl⟩
      · subst h; exact ⟨T.maskL (pre ++ post), Or.inl (Or.inr (Or.inr rfl)), hF.symm⟩
      · exact ⟨m, Or.inl (Or.inr (Or.inl (Or.inr h))), rfl⟩
      · exact ⟨m, Or.inr h, rfl⟩
    · rintro ⟨m, hmm, rfl⟩
      rcases hmm with (h | (h | h) | h) | h
      · exact ⟨m, Or.inl (Or.inr (Or.inl (Or.inl h))), rfl⟩
      · exact ⟨m, Or.inl (Or.inl h), rfl⟩
      · exact ⟨m, Or.inl (Or.inr (Or.inr h)), rfl⟩
      · subst h; exact ⟨T.maskL ds, Or.inl (Or.inr (Or.inl (Or.inr rfl))), hF⟩
      · exact ⟨m, Or.inr h, rfl⟩

/-- what any sequence of re-drawing steps keeps: the per-split length table and the split set of the tree as drawn -/
theorem uredraw_inv {a b : T} (h : URedraw a b) : a.mask ≠ 0 →
    (∀ k, usum a k = usum b k) ∧ (∀ z, USet a z ↔ USet b z) := by
  induction h with
  | redraw h =>
    intro _
    obtain ⟨hm, hp, hs⟩ := redraw_inv h
    refine ⟨fun k => ?_, fun z => ?_⟩
    · unfold usum; rw [← hm]; exact hp _ true
    · unfold USet; rw [← hm]
      constructor
      · rintro ⟨m, h1, rfl⟩; exact ⟨m, (hs m).mp h1, rfl⟩
      · rintro ⟨m, h1, rfl⟩; exact ⟨m, (hs m).mpr h1, rfl⟩
  | move i x l s pre j y lj sj ds post hds hpp hdis =>
    intro h0; exact move_inv i x l s pre j y lj sj ds post hds hpp hdis h0
  | symm hab ih =>
    intro h0
    have := ih (by rw [uredraw_mask hab]; exact h0)
    exact ⟨fun k => (this.1 k).symm, fun z => (this.2 z).symm⟩
  | trans hab _ ih1 ih2 =>
    intro h0
    have i1 := ih1 h0
    have i2 := ih2 (by rw [← uredraw_mask hab]; exact h0)
    exact ⟨fun k => (i1.1 k).trans (i2.1 k), fun z => (i1.2 z).trans (i2.2 z)⟩

end DendroModel.C04.Aux

namespace DendroModel.C04
open DendroModel DendroModel.C04.Aux

/-- the driver's split → length function of a well-formed tree that is not rooted IS the drawn per-split table `usum` (seed not
    bifurcating as drawn, at least three children after suppression; nothing assumed about the splits) -/
theorem lenAt_eq_usum (r : Option Bool) (hr : r ≠ some true) (t : T) (hc : t.cs.length ≠ 2)
    (hg : Hier.Good (T.toH t)) (h0 : T.mask t ≠ 0) (hw : WFT t) (hdeg : 3 ≤ (T.sup t).cs.length) (k : Int) :
    lenAt (edgeMap (edgeRecs r t)) k = usum t k := by
  have hb : (r == some true) = false := by
    cases r with
    | none => rfl
    | some b => cases b <;> simp_all
  have hn := unrooted_splits_nodup r hr t hg h0 (by rw [encodeTree_sup r t (Or.inr hc)]; exact hdeg)
  rw [lenAt_eq_split_sum r t (Or.inr hc) hw hn k, hb]; rfl

/-- **re-drawing a tree that is not rooted changes no weighted distance** — the weighted analogue of `fpfn_redraw_unrooted`,
    along a whole path: `t'` is reached from `t` by ANY sequence of child reorderings, unifurcation insertions (length split) and
    seed moves (`URedraw`; intermediate drawings are unconstrained).  For the two end drawings: well formed, lengths with
    non-zero denominators, seed not bifurcating as drawn and with ≥ 3 children after suppression.  Then the split → length
    functions coincide; wRF and Euclid² against any third tree agree, in both argument positions, whenever both are defined;
    and both are 0 between the two drawings whenever defined.  (Definedness can differ only as in `dist_redraw_rooted`.) -/
theorem dist_redraw_unrooted (r r' r2 : Option Bool) (hr : r ≠ some true) (hr' : r' ≠ some true) (t t' u : T) (h : URedraw t t')
    (hc : t.cs.length ≠ 2) (hg : Hier.Good (T.toH t)) (h0 : T.mask t ≠ 0) (hw : WFT t) (hdeg : 3 ≤ (T.sup t).cs.length)
    (hc' : t'.cs.length ≠ 2) (hg' : Hier.Good (T.toH t')) (hw' : WFT t') (hdeg' : 3 ≤ (T.sup t').cs.length) :
    (∀ k, lenAt (edgeMap (edgeRecs r t)) k = lenAt (edgeMap (edgeRecs r' t')) k)
    ∧ (∀ w w', wrf (edgeMap (edgeRecs r t)) (edgeMap (edgeRecs r2 u)) = some w →
        wrf (edgeMap (edgeRecs r' t')) (edgeMap (edgeRecs r2 u)) = some w' → w = w')
    ∧ (∀ w w', wrf (edgeMap (edgeRecs r2 u)) (edgeMap (edgeRecs r t)) = some w →
        wrf (edgeMap (edgeRecs r2 u)) (edgeMap (edgeRecs r' t')) = some w' → w = w')
    ∧ (∀ w w', euclidSq (edgeMap (edgeRecs r t)) (edgeMap (edgeRecs r2 u)) = some w →
        euclidSq (edgeMap (edgeRecs r' t')) (edgeMap (edgeRecs r2 u)) = some w' → w = w')
    ∧ (∀ w w', euclidSq (edgeMap (edgeRecs r2 u)) (edgeMap (edgeRecs r t)) = some w →
        euclidSq (edgeMap (edgeRecs r2 u)) (edgeMap (edgeRecs r' t')) = some w' → w = w')
    ∧ (∀ w, wrf (edgeMap (edgeRecs r t)) (edgeMap (edgeRecs r' t')) = some w → w = 0)
    ∧ (∀ w, euclidSq (edgeMap (edgeRecs r t)) (edgeMap (edgeRecs r' t')) = some w → w = 0) := by
  have hm := uredraw_mask h
  have h0' : T.mask t' ≠ 0 := by rw [← hm]; exact h0
  obtain ⟨htab, hset⟩ := uredraw_inv h h0
  have hb : ∀ q : Option Bool, q ≠ some true → (q == some true) = false := by
    intro q hq
    cases q with
    | none => rfl
    | some b => cases b <;> simp_all
  have hl : ∀ k, lenAt (edgeMap (edgeRecs r t)) k = lenAt (edgeMap (edgeRecs r' t')) k := by
    intro k
    rw [lenAt_eq_usum r hr t hc hg h0 hw hdeg k, lenAt_eq_usum r' hr' t' hc' hg' h0' hw' hdeg' k]; exact htab k
  have hk : ∀ z, z ∈ keys (edgeMap (edgeRecs r t)) ↔ z ∈ keys (edgeMap (edgeRecs r' t')) := by
    intro z
    rw [keys_edgeMap, keys_edgeMap, mem_splits_iff r t (Or.inr hc), mem_splits_iff r' t' (Or.inr hc'), hb r hr, hb r' hr']
    exact hset z
  have n1 := nodup_edgeMap (edgeRecs r t)
  have n1' := nodup_edgeMap (edgeRecs r' t')
  have n2 := nodup_edgeMap (edgeRecs r2 u)
  refine ⟨hl, ?_, ?_, ?_, ?_, ?_, ?_⟩
  · intro w w' hw1 hw2; exact wrf_congr _ _ _ n1 n1' n2 hk hl w w' hw1 hw2
  · intro w w' hw1 hw2
    rw [wrf_symm _ _ n2 n1] at hw1; rw [wrf_symm _ _ n2 n1'] at hw2
    exact wrf_congr _ _ _ n1 n1' n2 hk hl w w' hw1 hw2
  · intro w w' hw1 hw2; exact euclidSq_congr _ _ _ n1 n1' n2 hk hl w w' hw1 hw2
  · intro w w' hw1 hw2
    rw [euclidSq_symm _ _ n2 n1] at hw1; rw [euclidSq_symm _ _ n2 n1'] at hw2
    exact euclidSq_congr _ _ _ n1 n1' n2 hk hl w w' hw1 hw2
  · intro w hw1; exact ((dist_zero_iff _ _ n1 n1').1 w hw1).mpr hl
  · intro w hw1; exact ((dist_zero_iff _ _ n1 n1').2 w hw1).mpr hl

end DendroModel.C04

namespace DendroModel.C04
open DendroModel DendroModel.C04.Aux

/-- **one seed move of a well-formed tree that is not rooted changes no weighted distance** — `dist_seed_move_partial` with both
    `Nodup` hypotheses discharged (`unrooted_splits_nodup`); an instance of `dist_redraw_unrooted` -/
theorem dist_seed_move (r r2 : Option Bool) (hr : r ≠ some true) (u : T)
    (i : Nat) (x : Option Nat) (l : Option Frac) (s : Option String) (pre : List T)
    (j : Nat) (y : Option Nat) (lj : Option Frac) (sj : Option String) (ds post : List T)
    (hds : ds ≠ []) (hpp : pre ++ post ≠ [])
    (h3 : (pre ++ T.node j y lj sj ds :: post).length ≠ 2) (h3' : ds.length ≠ 1)
    (hdis : T.maskL ds &&& T.maskL (pre ++ post) = 0)
    (h0 : T.mask (.node i x l s (pre ++ .node j y lj sj ds :: post)) ≠ 0)
    (hg : Hier.Good (T.toH (.node i x l s (pre ++ .node j y lj sj ds :: post))))
    (hg' : Hier.Good (T.toH (invertT i x l s pre j y lj sj ds post)))
    (hw : WFT (.node i x l s (pre ++ .node j y lj sj ds :: post))) (hw' : WFT (invertT i x l s pre j y lj sj ds post))
    (hdeg : 3 ≤ (T.sup (.node i x l s (pre ++ .node j y lj sj ds :: post))).cs.length)
    (hdeg' : 3 ≤ (T.sup (invertT i x l s pre j y lj sj ds post)).cs.length) :
    (∀ k, lenAt (edgeMap (edgeRecs r (.node i x l s (pre ++ .node j y lj sj ds :: post)))) k
          = lenAt (edgeMap (edgeRecs r (invertT i x l s pre j y lj sj ds post))) k)
    ∧ (∀ w w', wrf (edgeMap (edgeRecs r (.node i x l s (pre ++ .node j y lj sj ds :: post)))) (edgeMap (edgeRecs r2 u)) = some w →
        wrf (edgeMap (edgeRecs r (invertT i x l s pre j y lj sj ds post))) (edgeMap (edgeRecs r2 u)) = some w' → w = w')
    ∧ (∀ w w', euclidSq (edgeMap (edgeRecs r (.node i x l s (pre ++ .node j y lj sj ds :: post)))) (edgeMap (edgeRecs r2 u)) = some w →
        euclidSq (edgeMap (edgeRecs r (invertT i x l s pre j y lj sj ds post))) (edgeMap (edgeRecs r2 u)) = some w' → w = w')
    ∧ (∀ w, wrf (edgeMap (edgeRecs r (.node i x l s (pre ++ .node j y lj sj ds :: post))))
          (edgeMap (edgeRecs r (invertT i x l s pre j y lj sj ds post))) = some w → w = 0)
    ∧ (∀ w, euclidSq (edgeMap (edgeRecs r (.node i x l s (pre ++ .node j y lj sj ds :: post))))
          (edgeMap (edgeRecs r (invertT i x l s pre j y lj sj ds post))) = some w → w = 0) := by
  obtain ⟨a, b, _, c, _, d, e⟩ := dist_redraw_unrooted r r r2 hr hr _ _ u
    (URedraw.move i x l s pre j y lj sj ds post hds hpp hdis)
    (by simpa [T.cs] using h3) hg h0 hw hdeg (by simp [invertT, T.cs]; omega) hg' hw' hdeg'
  exact ⟨a, b, c, d, e⟩

/-- non-vacuity of `dist_redraw_unrooted`: a two-step path — the seed of `exU = ((t0,t1),t2,t3)` moved to its inner vertex,
    then two children of the new seed swapped — with every hypothesis on the two end drawings checked -/
example :
    let ds : List T := [.node 2 (some 0) none none [], .node 3 (some 1) none none []]
    let post : List T := [.node 4 (some 2) none none [], .node 5 (some 3) none none []]
    let mid : T := invertT 0 none none none [] 1 none none none ds post
    let fin : T := .node 1 none none none ([] ++ (.node 3 (some 1) none none [] : T) :: .node 2 (some 0) none none [] :: [.node 0 none none none post])
    URedraw exU fin ∧ exU.cs.length ≠ 2 ∧ fin.cs.length ≠ 2 ∧ 3 ≤ (T.sup exU).cs.length ∧ 3 ≤ (T.sup fin).cs.length
      ∧ WFT exU ∧ WFT fin ∧ Hier.Good (T.toH fin) ∧ mid = mid := by
  refine ⟨?_, by decide, by decide, by decide, by decide, ?_, ?_, ?_, rfl⟩
  · exact (URedraw.move 0 none none none [] 1 none none none _ _ (by simp) (by simp) (by decide)).trans
      (URedraw.redraw (Redraw.swap 1 none none none [] _ _ _))
  · simp [exU, WFT, WFTL, OWF]
  · simp [WFT, WFTL, OWF]
  · simp [T.toH, T.toHL, Hier.Good, Hier.GoodL, Hier.mask, Hier.maskL]

end DendroModel.C04

/-! ## `invertT` and the `reseed_at` model of C07 -/

namespace DendroModel.C04.Aux
open DendroModel DendroModel.C04

mutual
theorem inv_none (tgt : Nat) : ∀ (c : T) (l : Option Frac) (ups : List T), T.find? tgt c = none → C07.inv tgt c l ups = none
  | .node i x l0 s cs, l, ups, h => by
    simp only [T.find?] at h
    by_cases e : (tgt == i) = true
    · simp [e] at h
    · simp only [e, Bool.false_eq_true, if_false] at h
      have e' : (i == tgt) = false := by
        simp only [beq_iff_eq] at e ⊢
        simpa using fun h' : i = tgt => e h'.symm
      simp only [C07.inv, e', Bool.false_eq_true, if_false]
      exact invL_none tgt cs i x s l [] ups h
theorem invL_none (tgt : Nat) : ∀ (cs : List T) (i : Nat) (x : Option Nat) (s : Option String) (l : Option Frac) (pre ups : List T),
    T.findL? tgt cs = none → C07.invL tgt i x s l pre cs ups = none
  | [], _, _, _, _, _, _, _ => by simp [C07.invL]
  | c :: cs, i, x, s, l, pre, ups, h => by
    simp only [T.findL?] at h
    cases hc : T.find? tgt c with
    | some r => rw [hc] at h; cases h
    | none =>
      rw [hc] at h
      simp only [C07.invL, inv_none tgt c l _ hc]
      exact invL_none tgt cs i x s l _ ups h
end

theorem invL_skip (tgt i : Nat) (x : Option Nat) (s : Option String) (l : Option Frac) (ups rest : List T) :
    ∀ (a pre0 : List T), T.findL? tgt a = none →
      C07.invL tgt i x s l pre0 (a ++ rest) ups = C07.invL tgt i x s l (pre0 ++ a) rest ups
  | [], pre0, _ => by simp
  | c :: a, pre0, h => by
    simp only [T.findL?] at h
    cases hc : T.find? tgt c with
    | some r => rw [hc] at h; cases h
    | none =>
      rw [hc] at h
      simp only [List.cons_append, C07.invL, inv_none tgt c l _ hc]
      rw [invL_skip tgt i x s l ups rest a (pre0 ++ [c]) h]
      simp

end DendroModel.C04.Aux

namespace DendroModel.C04
open DendroModel DendroModel.C04.Aux

/-- **`invertT` is what `Tree.reseed_at` does on the tree as drawn, for a move along one edge**: the chain-of-inversions model of
    `reseed_at` + `Edge.invert` that C07 runs and compares with the library (`C07.invertTo`), asked to make the seed's child with
    id `j` the seed, returns exactly `invertT` (ids distinct: the seed is not `j` and no earlier sibling subtree contains `j`).
    A deeper target is a chain of such moves, each again of this form on the tree the previous one produced (`C07.inv` recurses
    into the child with the old seed appended as `ups`); that iteration is not restated here. -/
theorem reseed_one_edge_is_invertT (i : Nat) (x : Option Nat) (l : Option Frac) (s : Option String) (pre : List T)
    (j : Nat) (y : Option Nat) (lj : Option Frac) (sj : Option String) (ds post : List T)
    (hij : i ≠ j) (hpre : T.findL? j pre = none) :
    C07.invertTo j (.node i x l s (pre ++ .node j y lj sj ds :: post)) = invertT i x l s pre j y lj sj ds post := by
  have e : (i == j) = false := by simpa using hij
  unfold C07.invertTo
  simp only [C07.inv, e, Bool.false_eq_true, if_false, T.len]
  rw [invL_skip j i x s l [] _ pre [] hpre]
  simp [C07.invL, C07.inv, invertT, T.len]

example : C07.invertTo 1 exU = invertT 0 none none none [] 1 none none none
    [.node 2 (some 0) none none [], .node 3 (some 1) none none []] [.node 4 (some 2) none none [], .node 5 (some 3) none none []] :=
  reseed_one_edge_is_invertT 0 none none none [] 1 none none none _ _ (by decide) rfl

end DendroModel.C04

/-! # round ext-3: tie A bridges (`Gen/C04Kernels.lean`), the square root, the per-split intermediate result -/

namespace DendroModel.C04.Aux
open DendroModel DendroModel.C04 DendroModel.C04Kernels

/-- the value a generated `Src` stands for, given the two lengths (with `None` read as 0) -/
def srcVal (a b : Rat) : Src → Rat
  | .first => a
  | .second => b
  | .zero => 0

/-- one generated loop outcome as a value: a crash has no counterpart in the model (outer `none`), a refusal is `some none` -/
def outVal (a b : Rat) : Out → Option (Option (Rat × Rat))
  | .refuse => some none
  | .crash => none
  | .pair x y => some (some (srcVal a b x, srcVal a b y))

theorem kdedup_eq : ∀ l : List Int, kdedup l = dedup l
  | [] => rfl
  | x :: xs => by simp only [kdedup, dedup, kdedup_eq xs]

theorem kabs_eq (x : Rat) : kabs x = absR x := rfl

theorem sum_map_congr {α : Type} (f g : α → Rat) : ∀ l : List α, (∀ x, f x = g x) → (l.map f).sum = (l.map g).sum := by
  intro l h
  have : f = g := funext h
  rw [this]

end DendroModel.C04.Aux

namespace DendroModel.C04
open DendroModel DendroModel.C04.Aux DendroModel.C04Kernels

/-! ## tie A: the kernels regenerated from `treecompare.py` (`Gen/C04Kernels.lean`) are the model's -/

/-- `symmetric_difference` as written in the source is the model's `rf` of the pair `false_positives_and_negatives` returns,
    called on the same two trees in the same order with the flag handed on -/
theorem gen_rf (a b : List Int) :
    (rf a b : Int) = rfOf ((fpfn a b).1 : Int) ((fpfn a b).2 : Int) ∧ rfArgsInOrder = true ∧ rfPassesFlag = true := by
  refine ⟨?_, by decide, by decide⟩
  simp only [rf, rfOf]
  push_cast
  ring

/-- the pair `false_positives_and_negatives` returns in the source is the model's `fpfn` (orientation of both set differences
    and the order of the two counts) -/
theorem gen_fpfn (ref cmp : List Int) : fpfnK ref cmp = fpfn ref cmp := by
  simp [fpfnK, fpfn, kdiff, kdedup_eq]

/-- the list `find_missing_bipartitions` builds in the source is the model's `missing` (tree walked, polarity, order) -/
theorem gen_missing (ref cmp : List Int) : missingK ref cmp = missing ref cmp := by
  simp [missingK, missing]

/-- `dist_fn` of `weighted_robinson_foulds_distance` in the source is the model's `wrfOf`, with no outer square root -/
theorem gen_wrf (ds : List (Rat × Rat)) :
    wrfOf ds = (ds.map (fun p => wrfTerm p.1 p.2)).sum ∧ wrfOuterSqrt = false := by
  refine ⟨?_, by decide⟩
  unfold wrfOf
  apply sum_map_congr
  intro p
  simp only [wrfTerm, kabs_eq, absR_eq] <;> first | rfl | exact abs_sub_comm _ _ | (congr 1; ring)

/-- `dist_fn` of `euclidean_distance` in the source is the square root of the model's `euclidSqOf` -/
theorem gen_euclid (ds : List (Rat × Rat)) :
    euclidSqOf ds = (ds.map (fun p => euclidTerm p.1 p.2)).sum ∧ euclidOuterSqrt = true := by
  refine ⟨?_, by decide⟩
  unfold euclidSqOf
  apply sum_map_congr
  intro p
  simp only [euclidTerm, kpow] <;> ring

/-- one iteration of the first loop of `_get_length_diffs`, as decided by the source, is the model's `entry`: never a crash; refused
    exactly when the model refuses; otherwise the same pair of lengths -/
theorem gen_entry (m2 : List (Int × EdgeRec)) (p : Int × EdgeRec) :
    outVal (p.2.len.getD 0) (((lookup m2 p.1).bind (·.len)).getD 0)
      (loop1 p.2.len.isNone p.2.isRoot (lookup m2 p.1).isSome
        (match lookup m2 p.1 with | some e => e.len.isNone | none => false)
        (match lookup m2 p.1 with | some e => e.isRoot | none => false))
    = some (entry m2 p) := by
  obtain ⟨k, ⟨s, l, r⟩⟩ := p
  unfold entry
  cases h : lookup m2 k with
  | none => cases l <;> cases r <;> simp [loop1, outVal, srcVal]
  | some e =>
    obtain ⟨s2, l2, r2⟩ := e
    cases l <;> cases r <;> cases l2 <;> cases r2 <;> simp [loop1, outVal, srcVal, EdgeRec.bad]

/-- one iteration of the second loop, as decided by the source, is what the model's `pass2` appends -/
theorem gen_pass2 (m1 m2 : List (Int × EdgeRec)) :
    (pass2 m1 m2).map (fun d => some (some d))
      = (m2.filter (fun p => (lookup m1 p.1).isNone)).map (fun p => outVal 0 (p.2.len.getD 0) (loop2 p.2.len.isNone p.2.isRoot)) := by
  unfold pass2
  rw [List.map_map]
  apply List.map_congr_left
  rintro ⟨k, ⟨s, l, r⟩⟩ _
  cases l <;> cases r <;> simp [loop2, outVal, srcVal]

/-- the re-encoding protocol of the three functions that carry it, as decided by the source, is the model's `prepare`
    (for both trees alike), and `_get_length_diffs` with default arguments re-encodes both trees whatever their state -/
theorem gen_prepare (u : Bool) (o : TreeObj) :
    (o.prepare u = if prepA_fpfn u o.enc.isNone then o.encode else o)
    ∧ (o.prepare u = if prepB_fpfn u o.enc.isNone then o.encode else o)
    ∧ (o.prepare u = if prepA_missing u o.enc.isNone then o.encode else o)
    ∧ (o.prepare u = if prepB_missing u o.enc.isNone then o.encode else o)
    ∧ (∀ n, prepA_diffs false n = true ∧ prepB_diffs false n = true) := by
  obtain ⟨ns, r, c, e⟩ := o
  refine ⟨?_, ?_, ?_, ?_, by decide⟩ <;>
    cases u <;> cases e <;> simp [TreeObj.prepare, prepA_fpfn, prepB_fpfn, prepA_missing, prepB_missing]

/-- the namespace identity check, as decided by the source: each of the three functions refuses exactly when the two namespace
    objects differ, which is when the model's calls refuse -/
theorem gen_namespace (u : Bool) (a b : TreeObj) :
    ((fpfnCall u a b).1 = none ↔ nsRefuses_fpfn (a.ns == b.ns) = true)
    ∧ ((missingCall u a b).1 = none ↔ nsRefuses_missing (a.ns == b.ns) = true)
    ∧ ((weightedCall a b).1 = none ↔ nsRefuses_diffs (a.ns == b.ns) = true) := by
  cases hb : (a.ns == b.ns)
  · have h : a.ns ≠ b.ns := by simpa using hb
    simp [fpfnCall, missingCall, weightedCall, nsRefuses_fpfn, nsRefuses_missing, nsRefuses_diffs, h]
  · have h : a.ns = b.ns := by simpa using hb
    simp [fpfnCall, missingCall, weightedCall, nsRefuses_fpfn, nsRefuses_missing, nsRefuses_diffs, h]

/-- a function whose value does not depend on the order of its two trees (`rf_symm`, `wrf_symm`, `euclid_symm`): an alias may
    hand the trees on in either order -/
def Aux.symmetricCallee (f : String) : Bool :=
  f == "symmetric_difference" || f == "weighted_robinson_foulds_distance" || f == "euclidean_distance"

/-- the delegating entry points of the source: each returns the value of the function the harness judges it against, on the same
    two trees (`Tree.x(other)` = `treecompare.x(self, other)`; in the same order unless the callee is symmetric), flags handed on
    where they exist -/
theorem gen_aliases :
    aliases.map (fun a => (a.1, a.2.1, decide (a.2.2.1 = .inOrder) || symmetricCallee a.2.1, a.2.2.2)) = [
      ("unweighted_robinson_foulds_distance", "symmetric_difference", true, [("is_bipartitions_updated", "is_bipartitions_updated")]),
      ("robinson_foulds_distance", "weighted_robinson_foulds_distance", true, [("edge_weight_attr", "edge_weight_attr")]),
      ("Tree.symmetric_difference", "symmetric_difference", true, []),
      ("Tree.false_positives_and_negatives", "false_positives_and_negatives", true, []),
      ("Tree.robinson_foulds_distance", "weighted_robinson_foulds_distance", true, []),
      ("Tree.euclidean_distance", "euclidean_distance", true, [])] := by
  decide

example : outVal 3 5 (loop1 false false true false false) = some (some (3, 5)) := by decide
example : outVal 3 0 (loop1 false false true true false) = some none := by decide

end DendroModel.C04

namespace DendroModel.C04.Aux
open DendroModel DendroModel.C04

theorem isqrtF_spec : ∀ f n : Nat, n ≤ f → isqrtF f n ^ 2 ≤ n ∧ n < (isqrtF f n + 1) ^ 2
  | 0, n, h => by
    have : n = 0 := by omega
    subst this; simp [isqrtF]
  | f + 1, n, h => by
    unfold isqrtF
    by_cases h2 : n < 2
    · simp only [h2, if_true]
      interval_cases n <;> simp
    · simp only [h2, if_false]
      have ih := isqrtF_spec f (n / 4) (by omega)
      generalize isqrtF f (n / 4) = s0 at ih ⊢
      have h4 : 4 * (n / 4) ≤ n := Nat.mul_div_le n 4
      have h4' : n < 4 * (n / 4) + 4 := by omega
      obtain ⟨i1, i2⟩ := ih
      by_cases ht : (2 * s0 + 1) * (2 * s0 + 1) ≤ n
      · simp only [ht, if_true]
        constructor
        · nlinarith
        · nlinarith
      · simp only [ht, if_false]
        constructor
        · nlinarith
        · nlinarith

theorem isqrt_spec (n : Nat) : isqrt n ^ 2 ≤ n ∧ n < (isqrt n + 1) ^ 2 := isqrtF_spec n n le_rfl

end DendroModel.C04.Aux

namespace DendroModel.C04
open DendroModel DendroModel.C04.Aux

/-- **the fixed-point root the driver prints brackets the real square root**: for `w ≥ 0`,
    `rootFix k w / 2^k ≤ √w < (rootFix k w + 1) / 2^k` -/
theorem rootFix_bracket (k : Nat) (w : Rat) (h0 : 0 ≤ w) :
    ((rootFix k w : ℕ) : ℝ) / 2 ^ k ≤ Real.sqrt (w : ℝ) ∧ Real.sqrt (w : ℝ) < (((rootFix k w : ℕ) : ℝ) + 1) / 2 ^ k := by
  have hnum : 0 ≤ w.num := Rat.num_nonneg.mpr h0
  have hdpos : (0 : ℝ) < (w.den : ℝ) := by exact_mod_cast w.den_pos
  have hA : ((w.num.toNat : ℕ) : ℝ) = (w.num : ℝ) := by
    have : ((w.num.toNat : ℕ) : ℤ) = w.num := Int.toNat_of_nonneg hnum
    exact_mod_cast congrArg (fun z : ℤ => (z : ℝ)) this
  have hw : (w : ℝ) = ((w.num.toNat : ℕ) : ℝ) / (w.den : ℝ) := by rw [hA]; exact Rat.cast_def w
  unfold rootFix
  set A := w.num.toNat with hAdef
  set d := w.den with hd
  set N := A * 4 ^ k / d with hN
  obtain ⟨s1, s2⟩ := isqrt_spec N
  set s := isqrt N with hs
  have n1 : N * d ≤ A * 4 ^ k := Nat.div_mul_le_self _ _
  have n2 : A * 4 ^ k < d * (N + 1) := Nat.lt_mul_div_succ _ w.den_pos
  have r1 : ((N : ℕ) : ℝ) * d ≤ A * 4 ^ k := by exact_mod_cast n1
  have r2 : ((A : ℕ) : ℝ) * 4 ^ k < d * (N + 1) := by exact_mod_cast n2
  have q1 : ((s : ℕ) : ℝ) ^ 2 ≤ N := by exact_mod_cast s1
  have q2 : ((N : ℕ) : ℝ) + 1 ≤ (s + 1) ^ 2 := by exact_mod_cast Nat.succ_le_of_lt s2
  have p2 : (0 : ℝ) < 2 ^ k := by positivity
  have p4 : ((2 : ℝ) ^ k) ^ 2 = 4 ^ k := by rw [← pow_mul, mul_comm, pow_mul]; norm_num
  have hwk : (w : ℝ) * 4 ^ k = ((A : ℕ) : ℝ) * 4 ^ k / d := by rw [hw]; ring
  have lo : ((N : ℕ) : ℝ) ≤ (w : ℝ) * 4 ^ k := by rw [hwk, le_div_iff₀ hdpos]; exact r1
  have hi : (w : ℝ) * 4 ^ k < (N : ℝ) + 1 := by rw [hwk, div_lt_iff₀ hdpos]; linarith
  constructor
  · apply Real.le_sqrt_of_sq_le
    rw [div_pow, p4, div_le_iff₀ (by positivity)]
    linarith
  · rw [Real.sqrt_lt' (by positivity), div_pow, p4, lt_div_iff₀ (by positivity)]
    linarith

example : rootFix 4 2 = 22 ∧ isqrt 1000000 = 1000 ∧ isqrt 99 = 9 := by decide

end DendroModel.C04

namespace DendroModel.C04.Aux
open DendroModel DendroModel.C04

/-- `euclidean_distance` itself: the real square root of the exact sum of squares the model computes (`gen_euclid`: that is how
    the source composes it — `math.sqrt` around the sum); `none` = refused -/
noncomputable def euclid (m1 m2 : List (Int × EdgeRec)) : Option ℝ := (euclidSq m1 m2).map (fun w => Real.sqrt ((w : ℚ) : ℝ))

theorem euclid_some {m1 m2 : List (Int × EdgeRec)} {x : ℝ} (h : euclid m1 m2 = some x) :
    ∃ w : Rat, euclidSq m1 m2 = some w ∧ x = Real.sqrt ((w : ℚ) : ℝ) := by
  unfold euclid at h
  rw [Option.map_eq_some_iff] at h
  obtain ⟨w, hw, rfl⟩ := h
  exact ⟨w, hw, rfl⟩

end DendroModel.C04.Aux

namespace DendroModel.C04
open DendroModel DendroModel.C04.Aux

/-! ## the Euclidean distance itself (square root taken in ℝ) -/

/-- Euclidean distance = L2 norm of the per-split length differences, an absent split counting as length 0 -/
theorem euclid_eq_l2 (m1 m2 : List (Int × EdgeRec)) (hn1 : (keys m1).Nodup) (hn2 : (keys m2).Nodup) (x : ℝ)
    (h : euclid m1 m2 = some x) :
    x = Real.sqrt (∑ k ∈ (keys m1).toFinset ∪ (keys m2).toFinset, (((lenAt m1 k : ℚ) : ℝ) - ((lenAt m2 k : ℚ) : ℝ)) ^ 2) := by
  obtain ⟨w, hw, rfl⟩ := euclid_some h
  rw [euclidSq_eq_l2sq m1 m2 hn1 hn2 w hw]
  push_cast
  rfl

/-- symmetric in value and in whether it is defined -/
theorem euclid_symm (m1 m2 : List (Int × EdgeRec)) (hn1 : (keys m1).Nodup) (hn2 : (keys m2).Nodup) :
    euclid m1 m2 = euclid m2 m1 := by
  unfold euclid; rw [euclidSq_symm m1 m2 hn1 hn2]

/-- non-negative; zero exactly between equal split → length functions (in particular between a tree and itself) -/
theorem euclid_zero_iff (m1 m2 : List (Int × EdgeRec)) (hn1 : (keys m1).Nodup) (hn2 : (keys m2).Nodup) (x : ℝ)
    (h : euclid m1 m2 = some x) : 0 ≤ x ∧ (x = 0 ↔ ∀ k, lenAt m1 k = lenAt m2 k) := by
  obtain ⟨w, hw, rfl⟩ := euclid_some h
  refine ⟨Real.sqrt_nonneg _, ?_⟩
  rw [(euclidSq_nonneg m1 m2 hn1 hn2 w hw).2]
  exact (dist_zero_iff m1 m2 hn1 hn2).2 w hw

theorem euclid_self (m : List (Int × EdgeRec)) (hn : (keys m).Nodup) (x : ℝ) (h : euclid m m = some x) : x = 0 :=
  ((euclid_zero_iff m m hn hn x h).2).mpr (fun _ => rfl)

/-- triangle inequality, on the distances themselves -/
theorem euclid_root_triangle (m1 m2 m3 : List (Int × EdgeRec)) (hn1 : (keys m1).Nodup) (hn2 : (keys m2).Nodup)
    (hn3 : (keys m3).Nodup) (a b c : ℝ) (hab : euclid m1 m2 = some a) (hbc : euclid m2 m3 = some b)
    (hac : euclid m1 m3 = some c) : c ≤ a + b := by
  obtain ⟨wa, ha, rfl⟩ := euclid_some hab
  obtain ⟨wb, hb, rfl⟩ := euclid_some hbc
  obtain ⟨wc, hc, rfl⟩ := euclid_some hac
  exact euclid_triangle m1 m2 m3 hn1 hn2 hn3 wa wb wc ha hb hc

/-- depends on the first tree only through its split → length function -/
theorem euclid_congr (m1 m1' m2 : List (Int × EdgeRec)) (hn1 : (keys m1).Nodup) (hn1' : (keys m1').Nodup)
    (hn2 : (keys m2).Nodup) (hk : ∀ x, x ∈ keys m1 ↔ x ∈ keys m1') (hl : ∀ x, lenAt m1 x = lenAt m1' x)
    (x x' : ℝ) (h : euclid m1 m2 = some x) (h' : euclid m1' m2 = some x') : x = x' := by
  obtain ⟨w, hw, rfl⟩ := euclid_some h
  obtain ⟨w', hw', rfl⟩ := euclid_some h'
  rw [euclidSq_congr m1 m1' m2 hn1 hn1' hn2 hk hl w w' hw hw']

/-- whatever is proved about the exact squares transfers to the distances: equal squares give equal distances, a zero square a
    zero distance -/
theorem euclid_of_sq (a a' b b' : List (Int × EdgeRec)) :
    ((∀ w w', euclidSq a b = some w → euclidSq a' b' = some w' → w = w') →
        ∀ x x', euclid a b = some x → euclid a' b' = some x' → x = x')
    ∧ ((∀ w, euclidSq a b = some w → w = 0) → ∀ x, euclid a b = some x → x = 0) := by
  constructor
  · intro hp x x' hx hx'
    obtain ⟨w, hw1, rfl⟩ := euclid_some hx
    obtain ⟨w', hw2, rfl⟩ := euclid_some hx'
    rw [hp w w' hw1 hw2]
  · intro hz x hx
    obtain ⟨w, hw1, rfl⟩ := euclid_some hx
    rw [hz w hw1]; simp

/-- **re-drawing a rooted tree changes no Euclidean distance** (children reordered, unifurcations inserted with the length split):
    `dist_redraw_rooted` on the distance itself, against any third tree in both argument positions, and 0 between the drawings -/
theorem euclid_redraw_rooted (r2 : Option Bool) (t t' u : T) (h : Redraw t t')
    (hg : Hier.Good (T.toH t)) (h0 : T.mask t ≠ 0) (hw : WFT t)
    (hg' : Hier.Good (T.toH t')) (h0' : T.mask t' ≠ 0) (hw' : WFT t') :
    (∀ x x', euclid (edgeMap (edgeRecs (some true) t)) (edgeMap (edgeRecs r2 u)) = some x →
        euclid (edgeMap (edgeRecs (some true) t')) (edgeMap (edgeRecs r2 u)) = some x' → x = x')
    ∧ (∀ x x', euclid (edgeMap (edgeRecs r2 u)) (edgeMap (edgeRecs (some true) t)) = some x →
        euclid (edgeMap (edgeRecs r2 u)) (edgeMap (edgeRecs (some true) t')) = some x' → x = x')
    ∧ (∀ x, euclid (edgeMap (edgeRecs (some true) t)) (edgeMap (edgeRecs (some true) t')) = some x → x = 0) := by
  obtain ⟨_, _, k3, k4, _, k6⟩ := dist_redraw_rooted r2 t t' u h hg h0 hw hg' h0' hw'
  exact ⟨(euclid_of_sq _ _ _ _).1 k3, (euclid_of_sq _ _ _ _).1 k4, (euclid_of_sq (edgeMap (edgeRecs (some true) t)) (edgeMap (edgeRecs (some true) t)) (edgeMap (edgeRecs (some true) t')) (edgeMap (edgeRecs (some true) t'))).2 k6⟩

/-- **re-drawing a tree that is not rooted changes no Euclidean distance** (any sequence of child reorderings, unifurcation
    insertions and seed moves): `dist_redraw_unrooted` on the distance itself -/
theorem euclid_redraw_unrooted (r r' r2 : Option Bool) (hr : r ≠ some true) (hr' : r' ≠ some true) (t t' u : T) (h : URedraw t t')
    (hc : t.cs.length ≠ 2) (hg : Hier.Good (T.toH t)) (h0 : T.mask t ≠ 0) (hw : WFT t) (hdeg : 3 ≤ (T.sup t).cs.length)
    (hc' : t'.cs.length ≠ 2) (hg' : Hier.Good (T.toH t')) (hw' : WFT t') (hdeg' : 3 ≤ (T.sup t').cs.length) :
    (∀ x x', euclid (edgeMap (edgeRecs r t)) (edgeMap (edgeRecs r2 u)) = some x →
        euclid (edgeMap (edgeRecs r' t')) (edgeMap (edgeRecs r2 u)) = some x' → x = x')
    ∧ (∀ x x', euclid (edgeMap (edgeRecs r2 u)) (edgeMap (edgeRecs r t)) = some x →
        euclid (edgeMap (edgeRecs r2 u)) (edgeMap (edgeRecs r' t')) = some x' → x = x')
    ∧ (∀ x, euclid (edgeMap (edgeRecs r t)) (edgeMap (edgeRecs r' t')) = some x → x = 0) := by
  obtain ⟨_, _, _, k4, k5, _, k7⟩ := dist_redraw_unrooted r r' r2 hr hr' t t' u h hc hg h0 hw hdeg hc' hg' hw' hdeg'
  exact ⟨(euclid_of_sq _ _ _ _).1 k4, (euclid_of_sq _ _ _ _).1 k5, (euclid_of_sq (edgeMap (edgeRecs r t)) (edgeMap (edgeRecs r t)) (edgeMap (edgeRecs r' t')) (edgeMap (edgeRecs r' t'))).2 k7⟩

/-- **the number the driver prints brackets the Euclidean distance**: with `w` the exact square and `s = rootFix k w` the printed
    fixed-point root, `s / 2^k ≤ euclidean distance < (s + 1) / 2^k` -/
theorem euclid_bracket (m1 m2 : List (Int × EdgeRec)) (hn1 : (keys m1).Nodup) (hn2 : (keys m2).Nodup) (k : Nat) (w : Rat)
    (h : euclidSq m1 m2 = some w) :
    ∃ x, euclid m1 m2 = some x ∧ ((rootFix k w : ℕ) : ℝ) / 2 ^ k ≤ x ∧ x < (((rootFix k w : ℕ) : ℝ) + 1) / 2 ^ k := by
  refine ⟨Real.sqrt ((w : ℚ) : ℝ), by simp [euclid, h], ?_⟩
  exact rootFix_bracket k w (euclidSq_nonneg m1 m2 hn1 hn2 w h).1

example : (euclid (edgeMap (edgeRecs (some true) exA)) (edgeMap (edgeRecs (some true) exC))).isSome = true := by
  unfold euclid; rw [Option.isSome_map]; decide

end DendroModel.C04

namespace DendroModel.C04.Aux
open DendroModel DendroModel.C04

theorem pass1K_values (m2 : List (Int × EdgeRec)) : ∀ l : List (Int × EdgeRec),
    (pass1K m2 l).map (List.map (fun t => t.2)) = pass1 m2 l
  | [] => by simp [pass1K, pass1]
  | p :: rest => by
    have ih := pass1K_values m2 rest
    simp only [pass1K, pass1]
    cases h1 : entry m2 p with
    | none => simp
    | some d =>
      cases h2 : pass1K m2 rest with
      | none => rw [h2] at ih; simp at ih; simp [← ih]
      | some ks => rw [h2] at ih; simp at ih; simp [← ih]

theorem pass1K_some (m1 m2 : List (Int × EdgeRec)) (hn : (keys m1).Nodup) : ∀ (l : List (Int × EdgeRec)),
    (∀ p ∈ l, p ∈ m1) → ∀ ks, pass1K m2 l = some ks → ks = l.map (fun p => (p.1, lenAt m1 p.1, lenAt m2 p.1))
  | [], _, ks, h => by simp [pass1K] at h; simp [h]
  | p :: rest, hsub, ks, h => by
    simp only [pass1K] at h
    cases h1 : entry m2 p with
    | none => rw [h1] at h; cases h
    | some d =>
      cases h2 : pass1K m2 rest with
      | none => rw [h1, h2] at h; cases h
      | some ks' =>
        rw [h1, h2] at h
        simp only [Option.some.injEq] at h
        rw [← h, entry_some m1 m2 hn p (hsub p (by simp)) d h1,
          pass1K_some m1 m2 hn rest (fun q hq => hsub q (by simp [hq])) ks' h2]
        simp

end DendroModel.C04.Aux

namespace DendroModel.C04
open DendroModel DendroModel.C04.Aux

/-- the keyed intermediate result the driver prints is `lengthDiffs` (what `wrf` / `euclidSq` sum over) with the split kept -/
theorem lengthDiffsK_values (m1 m2 : List (Int × EdgeRec)) :
    (lengthDiffsK m1 m2).map (List.map (fun t => t.2)) = lengthDiffs m1 m2 := by
  unfold lengthDiffsK lengthDiffs
  rw [← pass1K_values m2 m1]
  cases pass1K m2 m1 with
  | none => rfl
  | some ks => simp [pass2K, pass2]

/-- **the per-split dictionary of `_get_length_diffs`**: defined exactly when the distances are; then it has exactly one entry for
    every split of either tree, and the entry of split `k` is (length of `k` in tree 1, length of `k` in tree 2), an absent split
    counting as 0 -/
theorem lengthDiffsK_spec (m1 m2 : List (Int × EdgeRec)) (hn1 : (keys m1).Nodup) (hn2 : (keys m2).Nodup) :
    ((lengthDiffsK m1 m2).isSome ↔ (wrf m1 m2).isSome)
    ∧ ∀ l, lengthDiffsK m1 m2 = some l →
        (l.map (·.1)).Nodup ∧ (∀ k, k ∈ l.map (·.1) ↔ k ∈ keys m1 ∨ k ∈ keys m2)
        ∧ ∀ t ∈ l, t.2 = (lenAt m1 t.1, lenAt m2 t.1) := by
  constructor
  · have := lengthDiffsK_values m1 m2
    unfold wrf
    rw [← this]
    cases lengthDiffsK m1 m2 <;> simp
  · intro l h
    unfold lengthDiffsK at h
    rw [Option.map_eq_some_iff] at h
    obtain ⟨k1, hk1, rfl⟩ := h
    have e1 := pass1K_some m1 m2 hn1 m1 (fun p hp => hp) k1 hk1
    subst e1
    have hf : ∀ p ∈ m2.filter (fun p => (lookup m1 p.1).isNone), p ∈ m2 ∧ p.1 ∉ keys m1 := by
      intro p hp
      obtain ⟨hp2, hp1⟩ := List.mem_filter.mp hp
      refine ⟨hp2, ?_⟩
      rw [← lookup_none_iff]
      cases hl : lookup m1 p.1 with
      | none => rfl
      | some e => rw [hl] at hp1; simp at hp1
    have hk2 : (pass2K m1 m2).map (·.1) = (m2.filter (fun p => (lookup m1 p.1).isNone)).map (·.1) := by
      unfold pass2K; rw [List.map_map]; rfl
    have hk1' : (m1.map (fun p => (p.1, lenAt m1 p.1, lenAt m2 p.1))).map (·.1) = keys m1 := by
      unfold keys; rw [List.map_map]; rfl
    refine ⟨?_, ?_, ?_⟩
    · rw [List.map_append, hk1', hk2, List.nodup_append]
      refine ⟨hn1, ?_, ?_⟩
      · exact (hn2.sublist (List.Sublist.map _ List.filter_sublist))
      · intro a ha b hb hab
        subst hab
        obtain ⟨p, hp, rfl⟩ := List.mem_map.mp hb
        exact (hf p hp).2 ha
    · intro k
      rw [List.map_append, hk1', hk2, List.mem_append]
      constructor
      · rintro (h | h)
        · exact Or.inl h
        · obtain ⟨p, hp, rfl⟩ := List.mem_map.mp h
          exact Or.inr (List.mem_map.mpr ⟨p, (hf p hp).1, rfl⟩)
      · rintro (h | h)
        · exact Or.inl h
        · by_cases hin : k ∈ keys m1
          · exact Or.inl hin
          · right
            obtain ⟨p, hp, rfl⟩ := List.mem_map.mp h
            refine List.mem_map.mpr ⟨p, List.mem_filter.mpr ⟨hp, ?_⟩, rfl⟩
            rw [(lookup_none_iff m1 p.1).mpr hin]; rfl
    · intro t ht
      rcases List.mem_append.mp ht with h | h
      · obtain ⟨p, _, rfl⟩ := List.mem_map.mp h; rfl
      · unfold pass2K at h
        obtain ⟨p, hp, rfl⟩ := List.mem_map.mp h
        obtain ⟨hp2, hp1⟩ := hf p hp
        simp only
        rw [lenAt_zero_of_not_mem m1 p.1 hp1]
        unfold lenAt
        rw [lookup_of_mem hn2 hp2]

example : (lengthDiffsK (edgeMap (edgeRecs (some true) exA)) (edgeMap (edgeRecs (some true) exC))).isSome = true := by decide

end DendroModel.C04

/-! ## round ext-3: the basal collapse — weighted distances of a tree that is not rooted, drawn with a bifurcating seed -/

namespace DendroModel.C04.Aux
open DendroModel DendroModel.C04

theorem wft_cs : ∀ t : T, WFT t → WFTL t.cs
  | .node _ _ _ _ _, h => by simp only [WFT] at h; exact h.2
theorem wft_len : ∀ t : T, WFT t → OWF t.len
  | .node _ _ _ _ _, h => by simp only [WFT] at h; exact h.1
theorem wft_withLen : ∀ (t : T) (l : Option Frac), WFT t → OWF l → WFT (t.withLen l)
  | .node _ _ _ _ _, l, h, hl => by simp only [T.withLen, WFT] at h ⊢; exact ⟨hl, h.2⟩
theorem wftL_append : ∀ a b : List T, WFTL (a ++ b) ↔ WFTL a ∧ WFTL b
  | [], b => by simp [WFTL]
  | c :: a, b => by simp [WFTL, wftL_append a b, and_assoc]

/-- opening up a basal bifurcation keeps lengths well formed -/
theorem wft_collapse (t : T) (hw : WFT t) : WFT t.collapseBasal := by
  match t, hw with
  | .node i x l s [a, b], hw =>
    simp only [WFT, WFTL] at hw
    obtain ⟨hl, ha, hb, _⟩ := hw
    simp only [T.collapseBasal]
    by_cases h2 : b.cs.length ≥ 2
    · rw [if_pos h2]
      simp only [WFT, WFTL]
      exact ⟨hl, wft_withLen a _ ha (owf_addLen _ _ (wft_len a ha) (wft_len b hb)), wft_cs b hb⟩
    · rw [if_neg h2]
      by_cases h1 : a.cs.length ≥ 2
      · rw [if_pos h1]
        simp only [WFT]
        refine ⟨hl, (wftL_append _ _).mpr ⟨wft_cs a ha, ?_⟩⟩
        simp only [WFTL]
        exact ⟨wft_withLen b _ hb (owf_addLen _ _ (wft_len b hb) (wft_len a ha)), trivial⟩
      · rw [if_neg h1]; simp only [WFT, WFTL]; exact ⟨hl, ha, hb, trivial⟩
  | .node i x l s [], hw => simpa [T.collapseBasal] using hw
  | .node i x l s [a], hw => simpa [T.collapseBasal] using hw
  | .node i x l s (a :: b :: c :: rest), hw => simpa [T.collapseBasal] using hw

theorem exists_split_iff {A B : List Nat} (f : Nat → Int) (x y : Nat) (hB : ∀ m, m ∈ B ↔ m ∈ A ∨ m = y) (hx : x ∈ A)
    (hxy : f x = f y) (z : Int) : (∃ m ∈ A, f m = z) ↔ (∃ m ∈ B, f m = z) := by
  constructor
  · rintro ⟨m, hm, rfl⟩; exact ⟨m, (hB m).mpr (Or.inl hm), rfl⟩
  · rintro ⟨m, hm, rfl⟩
    rcases (hB m).mp hm with h | h
    · exact ⟨m, h, rfl⟩
    · subst h; exact ⟨x, hx, hxy⟩

/-- **opening up a basal bifurcation keeps the per-split length table and the split set of the tree as drawn**: the dissolved
    edge and the edge that absorbs its length are the two basal edges, which induce one and the same split -/
theorem collapse_inv (t : T) (hg : Hier.Good (T.toH t)) (h0 : t.mask ≠ 0) (hw : WFT t) :
    (∀ k, usum t.collapseBasal k = usum t k) ∧ (∀ z, USet t.collapseBasal z ↔ USet t z) := by
  match t, hg, h0, hw with
  | .node i x l s [a, b], hg, h0, hw =>
    have hH : T.toH (.node i x l s [a, b]) = .node [T.toH a, T.toH b] := rfl
    rw [hH] at hg
    simp only [Hier.Good, Hier.GoodL, Hier.maskL, Nat.or_zero, C01.Aux.toH_mask] at hg
    obtain ⟨_, _, dab, _, _, _, _⟩ := hg
    simp only [WFT, WFTL] at hw
    obtain ⟨_, ha, hb, _⟩ := hw
    have hm := C01.Bridge.collapse_mask (.node i x l s [a, b])
    have hL : T.mask (.node i x l s [a, b]) = a.mask ||| b.mask := by simp [T.mask, T.maskL]
    have hF : C01.splitOf false (T.mask (.node i x l s [a, b])) a.mask = C01.splitOf false (T.mask (.node i x l s [a, b])) b.mask :=
      splitOf_invert _ _ _ hL dab h0
    have hFb : ∀ k, (C01.splitOf false (T.mask (.node i x l s [a, b])) a.mask == k)
        = (C01.splitOf false (T.mask (.node i x l s [a, b])) b.mask == k) := by intro k; rw [hF]
    unfold usum USet
    rw [hm]
    by_cases h2 : b.cs.length ≥ 2
    · have hc : T.collapseBasal (.node i x l s [a, b]) = .node i x l s (a.withLen (addLen a.len b.len) :: b.cs) := by
        simp only [T.collapseBasal, if_pos h2, tryAdd]
      rw [hc] at hm ⊢
      constructor
      · intro k
        rw [edgesPost_node, edgesPost_node]
        simp only [edgesPostL, List.append_nil]
        rw [edgesPost_eq false (a.withLen _), withLen_cs, withLen_len, withLen_mask', edgesPost_eq false a, edgesPost_eq false b]
        simp only [psum_append, psum_single, qlen_addLen _ _ (wft_len a ha) (wft_len b hb), hm, hFb k]
        split <;> ring
      · intro z
        have e1 : T.masksPost (.node i x l s (a.withLen (addLen a.len b.len) :: b.cs))
            = T.masksPostL a.cs ++ a.mask :: (T.masksPostL b.cs ++ [T.mask (.node i x l s [a, b])]) := by
          rw [masksPost_eq, hm]; simp only [T.cs, T.masksPostL]
          rw [masksPost_eq (a.withLen _), withLen_cs, withLen_mask']
          try simp only [List.append_assoc, List.cons_append, List.nil_append]
          try rfl
        have e2 : T.masksPost (.node i x l s [a, b])
            = T.masksPostL a.cs ++ a.mask :: (T.masksPostL b.cs ++ [b.mask, T.mask (.node i x l s [a, b])]) := by
          rw [masksPost_eq]; simp only [T.cs, T.masksPostL]
          rw [masksPost_eq a, masksPost_eq b]
          try simp only [List.append_assoc, List.cons_append, List.nil_append]
          try rfl
        rw [e1, e2]
        exact exists_split_iff _ a.mask b.mask (by intro m; simp; tauto) (by simp) hF z
    · by_cases h1 : a.cs.length ≥ 2
      · have hc : T.collapseBasal (.node i x l s [a, b]) = .node i x l s (a.cs ++ [b.withLen (addLen b.len a.len)]) := by
          simp only [T.collapseBasal, if_neg h2, if_pos h1, tryAdd]
        rw [hc] at hm ⊢
        constructor
        · intro k
          rw [edgesPost_node, edgesPost_node, edgesPostL_append]
          simp only [edgesPostL, List.append_nil]
          rw [edgesPost_eq false (b.withLen _), withLen_cs, withLen_len, withLen_mask', edgesPost_eq false a, edgesPost_eq false b]
          simp only [psum_append, psum_single, qlen_addLen _ _ (wft_len b hb) (wft_len a ha), hm, hFb k]
          split <;> ring
        · intro z
          have e1 : T.masksPost (.node i x l s (a.cs ++ [b.withLen (addLen b.len a.len)]))
              = T.masksPostL a.cs ++ (T.masksPostL b.cs ++ [b.mask, T.mask (.node i x l s [a, b])]) := by
            rw [masksPost_eq, hm]; simp only [T.cs, masksPostL_append', T.masksPostL]
            rw [masksPost_eq (b.withLen _), withLen_cs, withLen_mask']
            try simp only [List.append_assoc, List.cons_append, List.nil_append]
            try rfl
          have e2 : T.masksPost (.node i x l s [a, b])
              = T.masksPostL a.cs ++ a.mask :: (T.masksPostL b.cs ++ [b.mask, T.mask (.node i x l s [a, b])]) := by
            rw [masksPost_eq]; simp only [T.cs, T.masksPostL]
            rw [masksPost_eq a, masksPost_eq b]
            try simp only [List.append_assoc, List.cons_append, List.nil_append]
            try rfl
          rw [e1, e2]
          exact exists_split_iff _ b.mask a.mask (by intro m; simp; tauto) (by simp) hF.symm z
      · have hc : T.collapseBasal (.node i x l s [a, b]) = .node i x l s [a, b] := by
          simp only [T.collapseBasal, if_neg h2, if_neg h1]
        rw [hc]
        exact ⟨fun _ => rfl, fun _ => Iff.rfl⟩
  | .node i x l s [], _, _, _ => exact ⟨fun _ => rfl, fun _ => Iff.rfl⟩
  | .node i x l s [a], _, _, _ => exact ⟨fun _ => rfl, fun _ => Iff.rfl⟩
  | .node i x l s (a :: b :: c :: rest), _, _, _ => exact ⟨fun _ => rfl, fun _ => Iff.rfl⟩

end DendroModel.C04.Aux

namespace DendroModel.C04.Aux
open DendroModel DendroModel.C04

theorem collapse_of_ne_two (t : T) (h : t.cs.length ≠ 2) : t.collapseBasal = t := by
  match t, h with
  | .node i x l s [], _ => rfl
  | .node i x l s [a], _ => rfl
  | .node i x l s [a, b], h => exact absurd rfl h
  | .node i x l s (a :: b :: c :: rest), _ => rfl

/-- default encoding of a tree that is not rooted: open up the basal bifurcation (if there is one), then suppress unifurcations -/
theorem encodeTree_collapse (r : Option Bool) (hr : r ≠ some true) (t : T) :
    C01.encodeTree r true true t = T.sup t.collapseBasal := by
  unfold C01.encodeTree
  by_cases hc : t.cs.length = 2
  · simp [hc, hr]
  · simp [hc, collapse_of_ne_two t hc]

theorem sup_cs_length_two (t : T) (h : t.cs.length = 2) : (T.sup t).cs.length = 2 := by
  match t, h with
  | .node i x l s cs, h =>
    simp only [T.cs] at h
    rw [sup_node_many i x l s cs (by omega)]
    simp only [T.cs, supL_length]; exact h

/-- everything the weighted theorems need about a tree that is not rooted whose seed has ≥ 3 children AFTER ENCODING, whatever
    the drawing (a bifurcating seed included): the driver's edge records are those of the collapsed drawing, which is not
    bifurcating, well formed, and has the same per-split table and split set as the tree as drawn -/
theorem enc_facts (r : Option Bool) (hr : r ≠ some true) (t : T)
    (hdeg : 3 ≤ (C01.encodeTree r true true t).cs.length) :
    edgeRecs r t = edgeRecs r t.collapseBasal ∧ t.collapseBasal.cs.length ≠ 2 ∧ 3 ≤ (T.sup t.collapseBasal).cs.length := by
  have henc := encodeTree_collapse r hr t
  rw [henc] at hdeg
  have hc' : t.collapseBasal.cs.length ≠ 2 := by
    intro h2; rw [sup_cs_length_two _ h2] at hdeg; omega
  refine ⟨?_, hc', hdeg⟩
  unfold edgeRecs
  rw [henc, encodeTree_sup r t.collapseBasal (Or.inr hc')]

end DendroModel.C04.Aux

namespace DendroModel.C04
open DendroModel DendroModel.C04.Aux

/-- the driver's split → length function of a well-formed tree that is not rooted IS the per-split table of the tree as drawn —
    `lenAt_eq_usum` without its restriction on the drawing: the seed may be bifurcating as drawn (`collapse_basal_bifurcation`
    dissolves one basal edge and adds its length to the other, and the two induce the same split); what is needed is ≥ 3 children
    at the seed after encoding (otherwise: known finding `basal-bifurcation-survives-encoding`) -/
theorem lenAt_eq_usum_any_seed (r : Option Bool) (hr : r ≠ some true) (t : T)
    (hg : Hier.Good (T.toH t)) (h0 : T.mask t ≠ 0) (hw : WFT t) (hdeg : 3 ≤ (C01.encodeTree r true true t).cs.length) (k : Int) :
    lenAt (edgeMap (edgeRecs r t)) k = usum t k := by
  obtain ⟨hrec, hc', hd'⟩ := enc_facts r hr t hdeg
  rw [hrec, lenAt_eq_usum r hr t.collapseBasal hc' (good_collapse t hg) (by rw [C01.Bridge.collapse_mask]; exact h0)
    (wft_collapse t hw) hd' k]
  exact (collapse_inv t hg h0 hw).1 k

/-- … and its split set is the set of normalised splits of the tree as drawn -/
theorem mem_splits_any_seed (r : Option Bool) (hr : r ≠ some true) (t : T)
    (hg : Hier.Good (T.toH t)) (h0 : T.mask t ≠ 0) (hw : WFT t) (hdeg : 3 ≤ (C01.encodeTree r true true t).cs.length) (z : Int) :
    z ∈ (edgeRecs r t).map (·.split) ↔ USet t z := by
  obtain ⟨hrec, hc', _⟩ := enc_facts r hr t hdeg
  have hb : (r == some true) = false := by
    cases r with
    | none => rfl
    | some b => cases b <;> simp_all
  rw [hrec, mem_splits_iff r t.collapseBasal (Or.inr hc'), hb]
  exact (collapse_inv t hg h0 hw).2 z

/-- **re-drawing a tree that is not rooted changes no weighted distance — any drawing, a bifurcating seed included**:
    `dist_redraw_unrooted` with the restriction "seed not bifurcating as drawn" removed from both end drawings.  `t'` is reached
    from `t` by any sequence of child reorderings, unifurcation insertions / removals (length split) and seed moves (`URedraw`);
    both end drawings are well formed and their seeds have ≥ 3 children after encoding (`hdeg`, `hdeg'` — exactly the trees outside
    the known finding `basal-bifurcation-survives-encoding`).  Then the split → length functions coincide; wRF, Euclid² against any
    third tree agree in both argument positions whenever both are defined; both are 0 between the two drawings whenever defined. -/
theorem dist_redraw_unrooted_any_seed (r r' r2 : Option Bool) (hr : r ≠ some true) (hr' : r' ≠ some true) (t t' u : T)
    (h : URedraw t t')
    (hg : Hier.Good (T.toH t)) (h0 : T.mask t ≠ 0) (hw : WFT t) (hdeg : 3 ≤ (C01.encodeTree r true true t).cs.length)
    (hg' : Hier.Good (T.toH t')) (hw' : WFT t') (hdeg' : 3 ≤ (C01.encodeTree r' true true t').cs.length) :
    (∀ k, lenAt (edgeMap (edgeRecs r t)) k = lenAt (edgeMap (edgeRecs r' t')) k)
    ∧ (∀ w w', wrf (edgeMap (edgeRecs r t)) (edgeMap (edgeRecs r2 u)) = some w →
        wrf (edgeMap (edgeRecs r' t')) (edgeMap (edgeRecs r2 u)) = some w' → w = w')
    ∧ (∀ w w', wrf (edgeMap (edgeRecs r2 u)) (edgeMap (edgeRecs r t)) = some w →
        wrf (edgeMap (edgeRecs r2 u)) (edgeMap (edgeRecs r' t')) = some w' → w = w')
    ∧ (∀ w w', euclidSq (edgeMap (edgeRecs r t)) (edgeMap (edgeRecs r2 u)) = some w →
        euclidSq (edgeMap (edgeRecs r' t')) (edgeMap (edgeRecs r2 u)) = some w' → w = w')
    ∧ (∀ w w', euclidSq (edgeMap (edgeRecs r2 u)) (edgeMap (edgeRecs r t)) = some w →
        euclidSq (edgeMap (edgeRecs r2 u)) (edgeMap (edgeRecs r' t')) = some w' → w = w')
    ∧ (∀ w, wrf (edgeMap (edgeRecs r t)) (edgeMap (edgeRecs r' t')) = some w → w = 0)
    ∧ (∀ w, euclidSq (edgeMap (edgeRecs r t)) (edgeMap (edgeRecs r' t')) = some w → w = 0) := by
  have hm := uredraw_mask h
  have h0' : T.mask t' ≠ 0 := by rw [← hm]; exact h0
  obtain ⟨htab, hset⟩ := uredraw_inv h h0
  have hl : ∀ k, lenAt (edgeMap (edgeRecs r t)) k = lenAt (edgeMap (edgeRecs r' t')) k := by
    intro k
    rw [lenAt_eq_usum_any_seed r hr t hg h0 hw hdeg k, lenAt_eq_usum_any_seed r' hr' t' hg' h0' hw' hdeg' k]; exact htab k
  have hk : ∀ z, z ∈ keys (edgeMap (edgeRecs r t)) ↔ z ∈ keys (edgeMap (edgeRecs r' t')) := by
    intro z
    rw [keys_edgeMap, keys_edgeMap, mem_splits_any_seed r hr t hg h0 hw hdeg, mem_splits_any_seed r' hr' t' hg' h0' hw' hdeg']
    exact hset z
  have n1 := nodup_edgeMap (edgeRecs r t)
  have n1' := nodup_edgeMap (edgeRecs r' t')
  have n2 := nodup_edgeMap (edgeRecs r2 u)
  refine ⟨hl, ?_, ?_, ?_, ?_, ?_, ?_⟩
  · intro w w' hw1 hw2; exact wrf_congr _ _ _ n1 n1' n2 hk hl w w' hw1 hw2
  · intro w w' hw1 hw2
    rw [wrf_symm _ _ n2 n1] at hw1; rw [wrf_symm _ _ n2 n1'] at hw2
    exact wrf_congr _ _ _ n1 n1' n2 hk hl w w' hw1 hw2
  · intro w w' hw1 hw2; exact euclidSq_congr _ _ _ n1 n1' n2 hk hl w w' hw1 hw2
  · intro w w' hw1 hw2
    rw [euclidSq_symm _ _ n2 n1] at hw1; rw [euclidSq_symm _ _ n2 n1'] at hw2
    exact euclidSq_congr _ _ _ n1 n1' n2 hk hl w w' hw1 hw2
  · intro w hw1; exact ((dist_zero_iff _ _ n1 n1').1 w hw1).mpr hl
  · intro w hw1; exact ((dist_zero_iff _ _ n1 n1').2 w hw1).mpr hl

/-- … and no Euclidean distance (`dist_redraw_unrooted_any_seed` on the distance itself) -/
theorem euclid_redraw_unrooted_any_seed (r r' r2 : Option Bool) (hr : r ≠ some true) (hr' : r' ≠ some true) (t t' u : T)
    (h : URedraw t t')
    (hg : Hier.Good (T.toH t)) (h0 : T.mask t ≠ 0) (hw : WFT t) (hdeg : 3 ≤ (C01.encodeTree r true true t).cs.length)
    (hg' : Hier.Good (T.toH t')) (hw' : WFT t') (hdeg' : 3 ≤ (C01.encodeTree r' true true t').cs.length) :
    (∀ x x', euclid (edgeMap (edgeRecs r t)) (edgeMap (edgeRecs r2 u)) = some x →
        euclid (edgeMap (edgeRecs r' t')) (edgeMap (edgeRecs r2 u)) = some x' → x = x')
    ∧ (∀ x x', euclid (edgeMap (edgeRecs r2 u)) (edgeMap (edgeRecs r t)) = some x →
        euclid (edgeMap (edgeRecs r2 u)) (edgeMap (edgeRecs r' t')) = some x' → x = x')
    ∧ (∀ x, euclid (edgeMap (edgeRecs r t)) (edgeMap (edgeRecs r' t')) = some x → x = 0) := by
  obtain ⟨_, _, _, k4, k5, _, k7⟩ := dist_redraw_unrooted_any_seed r r' r2 hr hr' t t' u h hg h0 hw hdeg hg' hw' hdeg'
  exact ⟨(euclid_of_sq _ _ _ _).1 k4, (euclid_of_sq _ _ _ _).1 k5,
    (euclid_of_sq (edgeMap (edgeRecs r t)) (edgeMap (edgeRecs r t)) (edgeMap (edgeRecs r' t')) (edgeMap (edgeRecs r' t'))).2 k7⟩

/-- non-vacuity: `exW = ((t0,t1),(t2,t3))` is drawn with a BIFURCATING seed; moving the seed to its first child gives
    `(t0,t1,[(t2,t3)])` (a seed of degree 3 over a unifurcation).  Every hypothesis of `dist_redraw_unrooted_any_seed` holds for
    this pair, and `exW` is outside the scope of `dist_redraw_unrooted` (`hc` fails). -/
example :
    let ds : List T := [.node 2 (some 0) none none [], .node 3 (some 1) none none []]
    let post : List T := [.node 6 none none none [.node 4 (some 2) none none [], .node 5 (some 3) none none []]]
    let fin : T := invertT 0 none none none [] 1 none none none ds post
    URedraw exW fin ∧ exW.cs.length = 2 ∧ Hier.Good (T.toH exW) ∧ T.mask exW ≠ 0 ∧ WFT exW
      ∧ 3 ≤ (C01.encodeTree (some false) true true exW).cs.length
      ∧ Hier.Good (T.toH fin) ∧ WFT fin ∧ 3 ≤ (C01.encodeTree none true true fin).cs.length := by
  refine ⟨?_, by decide, ?_, by decide, ?_, by decide, ?_, ?_, by decide⟩
  · exact URedraw.move 0 none none none [] 1 none none none _ _ (by simp) (by simp) (by decide)
  · simp [exW, T.toH, T.toHL, Hier.Good, Hier.GoodL, Hier.mask, Hier.maskL]
  · simp [exW, WFT, WFTL, OWF]
  · simp [invertT, T.toH, T.toHL, Hier.Good, Hier.GoodL, Hier.mask, Hier.maskL]
  · simp [invertT, WFT, WFTL, OWF]

end DendroModel.C04

/-! # wave 2 -/

namespace DendroModel.C04.Aux
open DendroModel DendroModel.C04

theorem dictSet_of_not_mem : ∀ (d : List (Int × EdgeRec)) (k : Int) (v : EdgeRec), k ∉ keys d → dictSet d k v = d ++ [(k, v)]
  | [], k, v, _ => rfl
  | (k', v') :: rest, k, v, h => by
    simp only [keys, List.map_cons, List.mem_cons, not_or] at h
    have hne : (k' == k) = false := by simpa using fun e : k' = k => h.1 e.symm
    simp only [dictSet, hne, Bool.false_eq_true, if_false, List.cons_append]
    rw [dictSet_of_not_mem rest k v h.2]

end DendroModel.C04.Aux

namespace DendroModel.C04
open DendroModel DendroModel.C04.Aux

/-! ## the iteration structure around the generated kernels is irrelevant on duplicate-free split lists -/

/-- **"a later edge with an equal bipartition replaces the earlier one" never happens when no two edges share a split**: the
    split → edge dictionary `Tree.bipartition_edge_map` is then just the edge list, keyed, in encoding order -/
theorem edgeMap_of_nodup : ∀ es : List EdgeRec, (es.map (·.split)).Nodup → edgeMap es = es.map (fun e => (e.split, e)) := by
  intro es
  induction es using List.reverseRecOn with
  | nil => intro _; rfl
  | append_singleton init last ih =>
    intro hn
    rw [List.map_append, List.nodup_append] at hn
    obtain ⟨hn1, _, hdis⟩ := hn
    rw [edgeMap_snoc, ih hn1, dictSet_of_not_mem, List.map_append]; · rfl
    intro hk
    simp only [keys, List.map_map, List.mem_map, Function.comp] at hk
    obtain ⟨e, he, hs⟩ := hk
    exact hdis e.split (List.mem_map.mpr ⟨e, he, rfl⟩) last.split (by simp) hs

/-- **the order in which the edges enter the dictionaries (post-order of the drawing, Python dict order, which pass visits a split)
    does not matter**: for an edge list without duplicate splits, ANY permutation of it gives the same weighted RF and the same
    squared Euclidean distance, in both argument positions, including whether they are defined — so the hand-written loops of the
    model (`edgeMap`, `pass1`, `pass2`) compute a function of the SET of (split, length, is-root) records only -/
theorem dist_order_irrelevant (es es' : List EdgeRec) (hp : es.Perm es') (hn : (es.map (·.split)).Nodup)
    (m2 : List (Int × EdgeRec)) (hn2 : (keys m2).Nodup) :
    wrf (edgeMap es) m2 = wrf (edgeMap es') m2 ∧ wrf m2 (edgeMap es) = wrf m2 (edgeMap es')
    ∧ euclidSq (edgeMap es) m2 = euclidSq (edgeMap es') m2 ∧ euclidSq m2 (edgeMap es) = euclidSq m2 (edgeMap es') := by
  have hl := lookup_edgeMap_perm hp hn
  have n1 := nodup_edgeMap es
  have n1' := nodup_edgeMap es'
  refine ⟨wrf_congr_lookup _ _ _ n1 n1' hn2 hl, ?_, euclidSq_congr_lookup _ _ _ n1 n1' hn2 hl, ?_⟩
  · rw [wrf_symm _ _ hn2 n1, wrf_symm _ _ hn2 n1']; exact wrf_congr_lookup _ _ _ n1 n1' hn2 hl
  · rw [euclidSq_symm _ _ hn2 n1, euclidSq_symm _ _ hn2 n1']; exact euclidSq_congr_lookup _ _ _ n1 n1' hn2 hl

/-- … and the same for the unweighted functions, with no hypothesis at all: they see the split lists as sets -/
theorem fpfn_order_irrelevant (a a' b : List Int) (hp : a.Perm a') : fpfn a b = fpfn a' b ∧ fpfn b a = fpfn b a' :=
  ⟨fpfn_congr a a' b b (fun _ => hp.mem_iff) (fun _ => Iff.rfl), fpfn_congr b b a a' (fun _ => Iff.rfl) (fun _ => hp.mem_iff)⟩

example : ((edgeRecs (some true) exA).map (·.split)).Nodup ∧ (edgeRecs (some true) exA).Perm (edgeRecs (some true) exA).reverse :=
  ⟨by decide, (List.reverse_perm _).symm⟩

/-- `is_bipartitions_updated=True` is sound when it is true: on two tree objects whose stored encodings ARE those of their current
    structures the flagged call returns what the default call returns -/
theorem updated_call_on_current_encoding (a b : TreeObj) (ha : a.enc = some a.fresh) (hb : b.enc = some b.fresh) :
    (fpfnCall true a b).1 = (fpfnCall false a b).1 ∧ (missingCall true a b).1 = (missingCall false a b).1 := by
  constructor
  · unfold fpfnCall; split <;> simp [TreeObj.prepare, TreeObj.encode, TreeObj.splits, ha, hb]
  · unfold missingCall; split <;> simp [TreeObj.prepare, TreeObj.encode, TreeObj.splits, ha, hb]

example : (⟨0, some true, exA, none⟩ : TreeObj).encode.enc = some (⟨0, some true, exA, none⟩ : TreeObj).encode.fresh := rfl

/-- the weighted functions follow the SAME re-encoding protocol as the unweighted ones (generated tables of `_get_length_diffs`
    and of `false_positives_and_negatives` coincide): with `is_bipartitions_updated=True` only a never-encoded tree is encoded.
    This is what lets a weighted flagged call be replayed in the model's histories as a flagged call for its effect on the state. -/
theorem gen_prepare_weighted (u n : Bool) :
    C04Kernels.prepA_diffs u n = C04Kernels.prepA_fpfn u n ∧ C04Kernels.prepB_diffs u n = C04Kernels.prepB_fpfn u n := by
  cases u <;> cases n <;> decide

end DendroModel.C04

namespace DendroModel.C04.Aux
open DendroModel DendroModel.C04

theorem lookup_edgeMap_mem : ∀ (es : List EdgeRec) (k : Int) (e : EdgeRec), lookup (edgeMap es) k = some e → e ∈ es ∧ e.split = k := by
  intro es
  induction es using List.reverseRecOn with
  | nil => intro k e h; simp [edgeMap, lookup] at h
  | append_singleton init last ih =>
    intro k e h
    rw [lookup_edgeMap_snoc] at h
    by_cases hk : k = last.split
    · rw [if_pos hk] at h
      cases h
      exact ⟨by simp, hk.symm⟩
    · rw [if_neg hk] at h
      obtain ⟨h1, h2⟩ := ih k e h
      exact ⟨by simp [h1], h2⟩

end DendroModel.C04.Aux

namespace DendroModel.C04
open DendroModel DendroModel.C04.Aux

/-- **a refusal needs a missing length** (the clause the oracle judges refusals by): two trees none of whose non-seed edges lacks a
    length are never refused, by either weighted function, in either argument order — and conversely a refusal exhibits a split
    shared by the two trees whose edge, in one of them, is a non-seed edge without length -/
theorem defined_of_no_missing_length (es1 es2 : List EdgeRec) :
    ((∀ e ∈ es1, e.bad = false) → (∀ e ∈ es2, e.bad = false) →
        (wrf (edgeMap es1) (edgeMap es2)).isSome ∧ (euclidSq (edgeMap es1) (edgeMap es2)).isSome)
    ∧ (wrf (edgeMap es1) (edgeMap es2) = none →
        ∃ k, k ∈ es1.map (·.split) ∧ k ∈ es2.map (·.split) ∧ ((∃ e ∈ es1, e.split = k ∧ e.bad = true) ∨ (∃ e ∈ es2, e.split = k ∧ e.bad = true))) := by
  have n1 := nodup_edgeMap es1
  have n2 := nodup_edgeMap es2
  have key : wrf (edgeMap es1) (edgeMap es2) = none →
      ∃ k, k ∈ es1.map (·.split) ∧ k ∈ es2.map (·.split) ∧ ((∃ e ∈ es1, e.split = k ∧ e.bad = true) ∨ (∃ e ∈ es2, e.split = k ∧ e.bad = true)) := by
    intro h
    obtain ⟨k, e1, e2, h1, h2, hb⟩ := ((defined_symm _ _ n1 n2).2.2).mp h
    obtain ⟨m1, s1⟩ := lookup_edgeMap_mem es1 k e1 h1
    obtain ⟨m2, s2⟩ := lookup_edgeMap_mem es2 k e2 h2
    refine ⟨k, List.mem_map.mpr ⟨e1, m1, s1⟩, List.mem_map.mpr ⟨e2, m2, s2⟩, ?_⟩
    rcases hb with hb | hb
    · exact Or.inl ⟨e1, m1, s1, hb⟩
    · exact Or.inr ⟨e2, m2, s2, hb⟩
  refine ⟨?_, key⟩
  intro hg1 hg2
  have hw : (wrf (edgeMap es1) (edgeMap es2)).isSome := by
    cases h : wrf (edgeMap es1) (edgeMap es2) with
    | some w => rfl
    | none =>
      obtain ⟨k, _, _, hb⟩ := key h
      rcases hb with ⟨e, he, _, hb⟩ | ⟨e, he, _, hb⟩
      · rw [hg1 e he] at hb; cases hb
      · rw [hg2 e he] at hb; cases hb
  refine ⟨hw, ?_⟩
  unfold wrf at hw; unfold euclidSq
  cases h : lengthDiffs (edgeMap es1) (edgeMap es2) <;> simp_all

example : ∀ e ∈ edgeRecs (some true) exA, e.bad = false := by decide

end DendroModel.C04
