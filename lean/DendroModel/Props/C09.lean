import DendroModel.Model.C09
/-! C09 — property theorems about the model the driver `drv_c09` executes.
Helper lemmas live in `DendroModel.C09.Aux`; every theorem directly inside `DendroModel.C09` is an obligation. -/
namespace DendroModel.C09.Aux
open DendroModel.C09

theorem foldl_err (cfg : RCfg) (l : List Char) (st : RS) (e : Err) (h : st.err = some e) :
    l.foldl (stepChar cfg) st = st := by
  induction l generalizing st with
  | nil => rfl
  | cons c cs ih =>
    have : stepChar cfg st c = st := by unfold stepChar; rw [h]
    simp [List.foldl, this, ih st h]

/-- characters accumulate inside an open group -/
theorem foldl_group (cfg : RCfg) (p : Bool) (ms : List Char) (out : List Cell) (acc : List Char)
    (h : ∀ m ∈ ms, isWs m = false ∧ m ≠ (if p then ')' else '}')) :
    ms.foldl (stepChar cfg) ⟨out, some (p, acc), none⟩ = ⟨out, some (p, acc ++ ms), none⟩ := by
  induction ms generalizing acc with
  | nil => simp
  | cons m ms ih =>
    have hm := h m (by simp)
    have hstep : stepChar cfg ⟨out, some (p, acc), none⟩ m = ⟨out, some (p, acc ++ [m]), none⟩ := by
      unfold stepChar
      simp [hm.1, hm.2]
    rw [List.foldl_cons, hstep, ih (acc ++ [m]) (fun x hx => h x (by simp [hx]))]
    simp

theorem setRow_fresh (acc : Acc) (l : Str) (cells : List Cell) (h : findRow acc l = none) :
    setRow acc l cells = acc ++ [(l, some cells)] := by
  induction acc with
  | nil => simp [setRow]
  | cons p ps ih =>
    unfold findRow at h
    by_cases hp : lower p.1 == lower l
    · simp [List.find?, hp] at h
    · have h' : findRow ps l = none := by
        unfold findRow
        simpa [List.find?, hp] using h
      simp [setRow, hp, ih h']

theorem dropWhile_replicate_blank (k : Nat) (s : Str) (h : (s.head?.map isBlank).getD false = false) :
    (List.replicate k ' ' ++ s).dropWhile isBlank = s := by
  induction k with
  | zero =>
    cases s with
    | nil => simp
    | cons c cs => simp at h; simp [List.dropWhile, h]
  | succ k ih => simp [List.replicate_succ, List.dropWhile, isBlank, ih]

theorem splitRun_label (label rest : Str) (h : ∀ c ∈ label, isBlank c = false) :
    splitRun false (label ++ ' ' :: rest) = some (label, rest.dropWhile isBlank) := by
  induction label with
  | nil => simp [splitRun, isBlank]
  | cons c cs ih =>
    have hc := h c (by simp)
    simp [splitRun, hc, ih (fun x hx => h x (by simp [hx]))]

theorem rstrip_pad (l : Str) (k : Nat) (h : (l.getLast?.map isWs).getD false = false) :
    rstrip (l ++ List.replicate k ' ') = l := by
  unfold rstrip
  rw [List.reverse_append, List.reverse_replicate]
  have : (List.replicate k ' ' ++ l.reverse).dropWhile isWs = l.reverse := by
    induction k with
    | zero =>
      cases hl : l.reverse with
      | nil => simp
      | cons c cs =>
        have : l.getLast? = some c := by
          rw [List.getLast?_eq_head?_reverse, hl]; rfl
        simp [this] at h
        simp [List.dropWhile, h]
    | succ k ih => simp [List.replicate_succ, List.dropWhile, isWs, ih]
  rw [this, List.reverse_reverse]

theorem lstrip_id (l : Str) (h : (l.head?.map isWs).getD false = false) : lstrip l = l := by
  unfold lstrip
  cases l with
  | nil => rfl
  | cons c cs => simp at h; simp [List.dropWhile, h]

theorem setAt_end (v : List (Option α)) (x : α) : setAt v v.length x = v ++ [some x] := by
  simp [setAt]

theorem nexml_fold (chars : List Nat) (colId : Nat → Nat) (cells : List α) (k : Nat) (v : List (Option α))
    (hv : v.length = k) (h : ∀ j, j < k + cells.length → chars.idxOf (colId j) = j) :
    (((List.range' k cells.length).map colId).zip cells).foldl (fun v c => setAt v (chars.idxOf c.1) c.2) v
      = v ++ cells.map some := by
  induction cells generalizing k v with
  | nil => simp
  | cons c cs ih =>
    have hk : chars.idxOf (colId k) = k := h k (by simp)
    simp only [List.length_cons, List.range'_succ, List.map_cons, List.zip_cons_cons, List.foldl_cons]
    rw [hk, ← hv, setAt_end]
    rw [ih (v.length + 1) (v ++ [some c]) (by simp) (fun j hj => h j (by simp at hj ⊢; omega))]
    simp

theorem filter_range_unique (p : Nat → Bool) (n b : Nat) (hb : b < n) (hp : ∀ i, i < n → (p i = true ↔ i = b)) :
    (List.range n).filter p = [b] := by
  induction n with
  | zero => omega
  | succ n ih =>
    rw [List.range_succ, List.filter_append]
    by_cases hbn : b = n
    · subst hbn
      have h1 : (List.range b).filter p = [] := by
        apply List.filter_eq_nil_iff.mpr
        intro i hi
        have hi' : i < b := List.mem_range.mp hi
        have := hp i (by omega)
        intro hpi
        have := this.mp hpi
        omega
      have h2 : p b = true := (hp b (by omega)).mpr rfl
      simp [h1, h2]
    · have h1 := ih (by omega) (fun i hi => hp i (by omega))
      have h2 : p n = false := by
        cases hpn : p n with
        | false => rfl
        | true => have := (hp n (by omega)).mp hpn; omega
      simp [h1, h2]

end DendroModel.C09.Aux

namespace DendroModel.C09
open DendroModel.Alphabets DendroModel.C09.Aux

/-! ### symbols -/

/-- every canonical symbol of every generated state alphabet denotes itself (`alphabet[str(state)] is state`) -/
theorem symbol_roundtrip :
    ∀ sp ∈ [dna, rna, nucleotide, protein, binary, standardDefault],
      ∀ c ∈ canonSyms (mkStates sp), lookup (mkStates sp) c = some c := by
  decide

/-- the generated alphabets are case-insensitive: the lower-case form of a symbol denotes the same state -/
theorem symbol_case_insensitive :
    ∀ sp ∈ [dna, rna, nucleotide, protein, binary, standardDefault],
      ∀ c ∈ canonSyms (mkStates sp), lookup (mkStates sp) c.toLower = some c := by
  decide

/-- every ambiguity code of the generated alphabets is found again from its member set written as a `{..}` token,
unless an earlier code has the same member set -/
theorem ambiguity_token_roundtrip :
    ∀ sp ∈ [dna, rna, protein],
      ∀ p ∈ sp.ambig, resolveMulti (mkStates sp) false p.2 = some (.sym p.1) := by
  decide

/-! ### NEXUS FORMAT -/

/-- the FORMAT terms the writer emits for each fixed data type (generated from `_compose_format_terms`) parse back to
that data type with gap `-`, missing `?`, match character `.`, not interleaved -/
theorem format_roundtrip :
    ∀ dt ∈ ["dna".toList, "rna".toList, "nucleotide".toList, "protein".toList],
      parseFormatText ("FORMAT ".toList ++ formatOf dt dna ++ [';'])
        = some ⟨dt, [], ['-'], ['?'], ['.'], false⟩ := by
  decide

/-! ### NEXUS rows -/

/-- a cell the (repaired) writer can emit and the reader takes back: a symbol that denotes itself and is not
white space, a bracket, `;` or a match character; or a symbol-less multistate whose members resolve to itself -/
def CellOk (al : List St) (matchChars : List Char) : Cell → Prop
  | .sym c => lookup al c = some c ∧ isWs c = false ∧ c ≠ '{' ∧ c ≠ '(' ∧ c ≠ ';' ∧ c ∉ matchChars
  | .multi p ms => resolveMulti al p ms = some (.multi p ms) ∧ ∀ m ∈ ms, isWs m = false ∧ m ≠ (if p then ')' else '}')

theorem cells_fold (cfg : RCfg) (cells : List Cell) (out : List Cell)
    (hok : ∀ c ∈ cells, CellOk cfg.al cfg.matchChars c)
    (hn : cfg.have_ + out.length + cells.length ≤ cfg.nchar) :
    (renderCells cells).foldl (stepChar cfg) ⟨out, none, none⟩ = ⟨out ++ cells, none, none⟩ := by
  induction cells generalizing out with
  | nil => simp [renderCells]
  | cons c cs ih =>
    have hc := hok c (by simp)
    have hlt : ¬ (cfg.have_ + out.length ≥ cfg.nchar) := by simp at hn ⊢; omega
    have hrest : cfg.have_ + (out ++ [c]).length + cs.length ≤ cfg.nchar := by simp at hn ⊢; omega
    simp only [renderCells, List.foldl_append]
    cases c with
    | sym ch =>
      obtain ⟨h1, h2, h3, h4, h5, h6⟩ := hc
      have hstep : stepChar cfg ⟨out, none, none⟩ ch = ⟨out ++ [Cell.sym ch], none, none⟩ := by
        unfold stepChar pushCell
        simp [h1, h2, h3, h4, h5, h6, hlt]
      simp only [renderCell, List.foldl_cons, List.foldl_nil, hstep]
      rw [ih (out ++ [Cell.sym ch]) (fun x hx => hok x (by simp [hx])) hrest]
      simp
    | multi p ms =>
      obtain ⟨h1, h2⟩ := hc
      cases p with
      | true =>
        have hopen : stepChar cfg ⟨out, none, none⟩ '(' = ⟨out, some (true, []), none⟩ := by
          unfold stepChar; simp [isWs]
        have hclose : stepChar cfg ⟨out, some (true, [] ++ ms), none⟩ ')' = ⟨out ++ [Cell.multi true ms], none, none⟩ := by
          unfold stepChar pushCell
          simp [h1, hlt]
        simp only [renderCell, List.foldl_cons, List.foldl_append, List.foldl_nil, hopen]
        rw [foldl_group cfg true ms out [] h2, hclose]
        rw [ih (out ++ [Cell.multi true ms]) (fun x hx => hok x (by simp [hx])) hrest]
        simp
      | false =>
        have hopen : stepChar cfg ⟨out, none, none⟩ '{' = ⟨out, some (false, []), none⟩ := by
          unfold stepChar; simp [isWs]
        have hclose : stepChar cfg ⟨out, some (false, [] ++ ms), none⟩ '}' = ⟨out ++ [Cell.multi false ms], none, none⟩ := by
          unfold stepChar pushCell
          simp [h1, hlt]
        simp only [renderCell, List.foldl_cons, List.foldl_append, List.foldl_nil, hopen]
        rw [foldl_group cfg false ms out [] h2, hclose]
        rw [ih (out ++ [Cell.multi false ms]) (fun x hx => hok x (by simp [hx])) hrest]
        simp

/-- `_read_character_states` applied to the text the writer produces for a row returns the row's cells, one by one,
including symbol-less `{..}` / `(..)` cells, whenever the declared NCHAR leaves room for them -/
theorem cells_roundtrip (cfg : RCfg) (cells : List Cell)
    (hok : ∀ c ∈ cells, CellOk cfg.al cfg.matchChars c)
    (hn : cfg.have_ + cells.length ≤ cfg.nchar) :
    readStates cfg (renderCells cells) = .ok cells := by
  unfold readStates
  have := cells_fold cfg cells [] hok (by simpa using hn)
  simp [this]

/-- row level of the matrix accumulation (the whole-matrix statement is checked by the correspondence only): a row
for a label not seen yet, written by the (repaired) writer, is read back and appended with exactly its cells -/
theorem nexus_row_roundtrip_partial (cfg : NxCfg) (acc : Acc) (first : Option Str) (label : Str) (cells : List Cell)
    (hfresh : findRow acc label = none) (hroom : cfg.ntax = 0 ∨ acc.length < cfg.ntax)
    (hok : ∀ c ∈ cells, CellOk cfg.al cfg.matchChars c) (hlen : cells.length = cfg.nchar) :
    nxStep cfg (.ok (acc, first)) (label, renderCells cells)
      = .ok (acc ++ [(label, some cells)], some (first.getD label)) := by
  have hrs := cells_roundtrip ⟨cfg.al, cfg.matchChars, first.bind (fun l => (findRow acc l).bind id), cfg.nchar, 0⟩
    cells hok (by simp [hlen])
  have hroom' : (cfg.ntax == 0 || decide (acc.length < cfg.ntax)) = true := by
    rcases hroom with h | h <;> simp [h]
  simp [nxStep, hfresh, hroom', hrs, hlen, setRow_fresh acc label cells hfresh]

/-! ### PHYLIP -/

/-- sequence part of a PHYLIP line: canonical symbols read back as themselves -/
theorem phylip_sequence_roundtrip (al : List St) (s : Str)
    (h : ∀ c ∈ s, lookup al c = some c ∧ isBlank c = false) : phSeq al s = .ok s := by
  induction s with
  | nil => rfl
  | cons c cs ih =>
    have hc := h c (by simp)
    simp [phSeq, hc.1, hc.2, ih (fun x hx => h x (by simp [hx]))]

/-- relaxed PHYLIP: the line the writer produces (label padded to the longest label, two spaces, sequence) splits back
into the label and the sequence, for every label without blanks (`LabelAdmissible` for the relaxed variant) -/
theorem phylip_relaxed_line_roundtrip (label seq : Str) (width : Nat)
    (hl : ∀ c ∈ label, isBlank c = false) (hs : (seq.head?.map isBlank).getD false = false) :
    splitRun false (ljust width label ++ [' ', ' '] ++ seq) = some (label, seq) := by
  have : ljust width label ++ [' ', ' '] ++ seq
      = label ++ ' ' :: (List.replicate (width - label.length + 1) ' ' ++ seq) := by
    simp [ljust, List.replicate_succ, List.append_assoc]
    induction (width - label.length) with
    | zero => simp
    | succ k ih => simp [List.replicate_succ, ih]
  rw [this, splitRun_label label _ hl, dropWhile_replicate_blank _ _ hs]

/-- strict PHYLIP: the first ten columns, stripped, give back every label of at most ten characters that does not
start or end with white space, and the sequence starts at column eleven -/
theorem phylip_strict_line_roundtrip (label seq : Str) (hlen : label.length ≤ 10)
    (h1 : (label.head?.map isWs).getD false = false) (h2 : (label.getLast?.map isWs).getD false = false) :
    strip ((ljust 10 (label.take 10) ++ seq).take 10) = label ∧ (ljust 10 (label.take 10) ++ seq).drop 10 = seq := by
  have ht : label.take 10 = label := List.take_of_length_le hlen
  have hl : (ljust 10 label).length = 10 := by simp [ljust]; omega
  rw [ht]
  constructor
  · rw [List.take_append_of_le_length (by omega), List.take_of_length_le (by omega)]
    unfold strip ljust
    by_cases he : label = []
    · subst he; simp [lstrip, rstrip, isWs]
    · have : lstrip (label ++ List.replicate (10 - label.length) ' ') = label ++ List.replicate (10 - label.length) ' ' := by
        apply lstrip_id
        cases label with
        | nil => exact absurd rfl he
        | cons c cs => simpa using h1
      rw [this, rstrip_pad label _ h2]
  · rw [List.drop_append_of_le_length (by omega), List.drop_of_length_le (by omega)]; simp

/-! ### FASTA -/

/-- the sequence lines of a FASTA record (wrapped every 70 symbols) read back as the unwrapped sequence -/
theorem fasta_wrap_roundtrip (al : List St) (s : Str) (col : Nat)
    (h : ∀ c ∈ s, lookup al c = some c ∧ isWs c = false) : faSeq al (wrap70 col s) = .ok s := by
  induction s generalizing col with
  | nil => rfl
  | cons c cs ih =>
    have hc := h c (by simp)
    have hr := fun k => ih k (fun x hx => h x (by simp [hx]))
    have hws : isWs c = false := hc.2
    have hnl : isWs '\n' = true := by decide
    by_cases h70 : col = 70
    · have e : wrap70 col (c :: cs) = '\n' :: c :: wrap70 1 cs := by simp [wrap70, h70]
      rw [e]
      simp [faSeq, hnl, hws, hc.1, hr]
    · have e : wrap70 col (c :: cs) = c :: wrap70 (col + 1) cs := by simp [wrap70, h70]
      rw [e]
      simp [faSeq, hws, hc.1, hr]

/-! ### NeXML (abstract document) -/

/-- one `<char>` id per column index, listed in the format section in column order ⇒ every row reads back unshifted
and without `None` padding, whatever the row lengths. (The defect was precisely a writer violating the hypothesis: a
fresh id per cell puts row i's ids at positions i·m … i·m+m−1.)  `_partial`: XML text and id generation are abstracted. -/
theorem nexml_columns_partial (chars : List Nat) (colId : Nat → Nat) (cells : List α)
    (h : ∀ j, j < cells.length → chars.idxOf (colId j) = j) :
    nexmlReadRow chars (nexmlWriteRow colId cells) = cells.map some := by
  unfold nexmlReadRow nexmlWriteRow
  rw [List.range_eq_range']
  simpa using nexml_fold chars colId cells 0 [] rfl (by simpa using h)

/-! ### TITLE / LINK -/

/-- reading: a LINK naming the title of block `b` resolves to `b` when the written titles are pairwise distinct
without regard to case -/
theorem resolve_distinct (ts : List Str) (b : Nat) (hb : b < ts.length)
    (hd : ∀ i j, i < ts.length → j < ts.length → (ts[i]?).map upper = (ts[j]?).map upper → i = j) :
    resolve (ts.map some) (ts[b]?) = .ok b := by
  have hget : ts[b]? = some ts[b] := List.getElem?_eq_getElem hb
  have : (List.range (ts.map some).length).filter (titleMatches (ts.map some) ts[b]) = [b] := by
    apply filter_range_unique _ _ b (by simpa using hb)
    intro i hi
    have hi' : i < ts.length := by simpa using hi
    have hgi : ts[i]? = some ts[i] := List.getElem?_eq_getElem hi'
    unfold titleMatches
    simp only [List.getElem?_map, hgi, Option.map_some, Option.bind_some, id]
    constructor
    · intro he
      have he' : upper ts[i] = upper ts[b] := by simpa using he
      exact hd i b hi' hb (by simp [hgi, hget, he'])
    · intro he; subst he; simp
  rw [hget]
  simp only [resolve, this]

/-- `suppress_block_titles` None (more than one namespace) or False: titles are written, and every block's LINK resolves
to the block's own namespace, provided the written titles are pairwise distinct up to case (the writer's
de-duplication is exercised by the correspondence; it is a hypothesis here) -/
theorem title_link_resolves (sup : Option Bool) (labels : List Str) (blocks : List Nat)
    (hs : sup = some false ∨ (sup = none ∧ labels.length > 1))
    (hlen : (assignTitles [] labels).length = labels.length)
    (hb : ∀ b ∈ blocks, b < labels.length)
    (hd : ∀ i j, i < (assignTitles [] labels).length → j < (assignTitles [] labels).length →
      ((assignTitles [] labels)[i]?).map upper = ((assignTitles [] labels)[j]?).map upper → i = j) :
    readLinks (writeLinks sup labels blocks) = blocks.map .ok := by
  have hl : linkBlocks sup labels.length = true := by
    rcases hs with h | ⟨h, h'⟩ <;> simp [linkBlocks, h] <;> omega
  unfold readLinks writeLinks
  simp only [hl, if_true, List.map_map]
  apply List.map_congr_left
  intro b hbm
  have hb' : b < (assignTitles [] labels).length := by rw [hlen]; exact hb b hbm
  simpa [Function.comp] using resolve_distinct (assignTitles [] labels) b hb' hd

/-- a single namespace written without titles (the default) is what every block attaches to -/
theorem single_namespace_resolves (label : Str) (blocks : List Nat) :
    readLinks (writeLinks none [label] blocks) = blocks.map (fun _ => .ok 0) := by
  simp [readLinks, writeLinks, linkBlocks, resolve]

/-! ### non-vacuity: the hypotheses are satisfiable on concrete data -/
example : CellOk (mkStates dna) ['.'] (.sym 'R') := by unfold CellOk; decide
example : CellOk (mkStates (specStd ['0', '1', '2'] (some '-') (some '?'))) ['.'] (.multi true ['1', '2']) := by
  unfold CellOk; decide
example : (readStates ⟨mkStates dna, ['.'], none, 4, 0⟩ "AC-?".toList).toOption
    = some [.sym 'A', .sym 'C', .sym '-', .sym '?'] := by decide
example : nexmlReadRow [7, 8, 9] (nexmlWriteRow (· + 7) ['a', 'b']) = [some 'a', some 'b'] := by decide
example : (readLinks (writeLinks (some false) ["X".toList, "x".toList] [1, 0])).map Except.toOption = [some 1, some 0] := by
  decide
example : assignTitles [] ["X".toList, "x".toList] = ["X".toList, "x.1".toList] := by decide
/-- the defect, on the abstract document: a fresh id per cell shifts the second row -/
example : nexmlReadRow [0, 1, 2, 3] [(2, 'c'), (3, 'd')] = [none, none, some 'c', some 'd'] := by decide

end DendroModel.C09
