import DendroModel.Model.C09
import Std.Data.String.ToNat
/-! C09 — property theorems about the model the driver `drv_c09` executes.
Helper lemmas live in `DendroModel.C09.Aux`; every theorem directly inside `DendroModel.C09` is an obligation. -/
namespace DendroModel.C09.Aux
open DendroModel.C09

theorem foldl_err (cfg : RCfg) (l : List Char) (st : RS) (e : Err) (h : st.err = some e) :
    l.foldl (stepChar cfg) st = st := by
  induction l generalizing st with
  | nil => rfl
  | cons c cs ih =>
    have : stepChar cfg st c = st := by unfold stepChar; rw [h]
    simp [List.foldl, this, ih st h]

/-- characters accumulate inside an open group -/
theorem foldl_group (cfg : RCfg) (p : Bool) (ms : List Char) (out : List Cell) (acc : List Char)
    (h : ∀ m ∈ ms, isWs m = false ∧ m ≠ (if p then ')' else '}')) :
    ms.foldl (stepChar cfg) ⟨out, some (p, acc), none⟩ = ⟨out, some (p, acc ++ ms), none⟩ := by
  induction ms generalizing acc with
  | nil => simp
  | cons m ms ih =>
    have hm := h m (by simp)
    have hstep : stepChar cfg ⟨out, some (p, acc), none⟩ m = ⟨out, some (p, acc ++ [m]), none⟩ := by
      unfold stepChar
      simp [hm.1, hm.2]
    rw [List.foldl_cons, hstep, ih (acc ++ [m]) (fun x hx => h x (by simp [hx]))]
    simp

theorem setRow_fresh {α : Type} (acc : List (Str × Option α)) (l : Str) (cells : α) (h : findRow acc l = none) :
    setRow acc l cells = acc ++ [(l, some cells)] := by
  induction acc with
  | nil => simp [setRow]
  | cons p ps ih =>
    unfold findRow at h
    by_cases hp : lower p.1 == lower l
    · simp [List.find?, hp] at h
    · have h' : findRow ps l = none := by
        unfold findRow
        simpa [List.find?, hp] using h
      simp [setRow, hp, ih h']

theorem findRow_none {α : Type} (acc : List (Str × Option α)) (l : Str) (h : ∀ p ∈ acc, (lower p.1 == lower l) = false) : findRow acc l = none := by
  unfold findRow
  rw [List.find?_eq_none.mpr (by intro p hp; simp [h p hp])]
  rfl

theorem findRow_append {α : Type} (pre rest : List (Str × Option α)) (l : Str) (h : ∀ p ∈ pre, (lower p.1 == lower l) = false) :
    findRow (pre ++ rest) l = findRow rest l := by
  induction pre with
  | nil => rfl
  | cons p ps ih =>
    have hp := h p (by simp)
    have := ih (fun q hq => h q (by simp [hq]))
    unfold findRow at this ⊢
    simp only [List.cons_append, List.find?_cons, hp]
    exact this

theorem setRow_append {α : Type} (pre rest : List (Str × Option α)) (l : Str) (c : α) (h : ∀ p ∈ pre, (lower p.1 == lower l) = false) :
    setRow (pre ++ rest) l c = pre ++ setRow rest l c := by
  induction pre with
  | nil => rfl
  | cons p ps ih =>
    have hp := h p (by simp)
    simp [setRow, hp, ih (fun q hq => h q (by simp [hq]))]

theorem accRows_someRows {α : Type} (m : List (Str × α)) : accRows (m.map (fun r => (r.1, some r.2))) = m := by
  induction m with
  | nil => rfl
  | cons r rs ih =>
    unfold accRows at ih ⊢
    simp [List.filterMap_cons, ih]

theorem dropWhile_replicate_blank (k : Nat) (s : Str) (h : (s.head?.map isBlank).getD false = false) :
    (List.replicate k ' ' ++ s).dropWhile isBlank = s := by
  induction k with
  | zero =>
    cases s with
    | nil => simp
    | cons c cs => simp at h; simp [List.dropWhile, h]
  | succ k ih => simp [List.replicate_succ, List.dropWhile, isBlank, ih]

theorem splitRun_label (label rest : Str) (h : ∀ c ∈ label, isBlank c = false) :
    splitRun false (label ++ ' ' :: rest) = some (label, rest.dropWhile isBlank) := by
  induction label with
  | nil => simp [splitRun, isBlank]
  | cons c cs ih =>
    have hc := h c (by simp)
    simp [splitRun, hc, ih (fun x hx => h x (by simp [hx]))]

theorem rstrip_pad (l : Str) (k : Nat) (h : (l.getLast?.map isWs).getD false = false) :
    rstrip (l ++ List.replicate k ' ') = l := by
  unfold rstrip
  rw [List.reverse_append, List.reverse_replicate]
  have : (List.replicate k ' ' ++ l.reverse).dropWhile isWs = l.reverse := by
    induction k with
    | zero =>
      cases hl : l.reverse with
      | nil => simp
      | cons c cs =>
        have : l.getLast? = some c := by
          rw [List.getLast?_eq_head?_reverse, hl]; rfl
        simp [this] at h
        simp [List.dropWhile, h]
    | succ k ih => simp [List.replicate_succ, List.dropWhile, isWs, ih]
  rw [this, List.reverse_reverse]

theorem lstrip_id (l : Str) (h : (l.head?.map isWs).getD false = false) : lstrip l = l := by
  unfold lstrip
  cases l with
  | nil => rfl
  | cons c cs => simp at h; simp [List.dropWhile, h]

theorem setAt_end (v : List (Option α)) (x : α) : setAt v v.length x = v ++ [some x] := by
  simp [setAt]

theorem nexml_fold (chars : List Nat) (colId : Nat → Nat) (cells : List α) (k : Nat) (v : List (Option α))
    (hv : v.length = k) (h : ∀ j, j < k + cells.length → colId j ∈ chars ∧ chars.idxOf (colId j) = j) :
    (((List.range' k cells.length).map colId).zip cells).foldl
        (fun v c => v.bind (fun v => if chars.contains c.1 then some (setAt v (chars.idxOf c.1) c.2) else none)) (some v)
      = some (v ++ cells.map some) := by
  induction cells generalizing k v with
  | nil => simp
  | cons c cs ih =>
    have hk := h k (by simp)
    simp only [List.length_cons, List.range'_succ, List.map_cons, List.zip_cons_cons, List.foldl_cons]
    have hc : chars.contains (colId k) = true := by simpa using hk.1
    simp only [Option.bind_some, hc, if_true]
    rw [hk.2, ← hv, setAt_end]
    rw [ih (v.length + 1) (v ++ [some c]) (by simp) (fun j hj => h j (by simp at hj ⊢; omega))]
    simp

theorem filter_range_unique (p : Nat → Bool) (n b : Nat) (hb : b < n) (hp : ∀ i, i < n → (p i = true ↔ i = b)) :
    (List.range n).filter p = [b] := by
  induction n with
  | zero => omega
  | succ n ih =>
    rw [List.range_succ, List.filter_append]
    by_cases hbn : b = n
    · subst hbn
      have h1 : (List.range b).filter p = [] := by
        apply List.filter_eq_nil_iff.mpr
        intro i hi
        have hi' : i < b := List.mem_range.mp hi
        have := hp i (by omega)
        intro hpi
        have := this.mp hpi
        omega
      have h2 : p b = true := (hp b (by omega)).mpr rfl
      simp [h1, h2]
    · have h1 := ih (by omega) (fun i hi => hp i (by omega))
      have h2 : p n = false := by
        cases hpn : p n with
        | false => rfl
        | true => have := (hp n (by omega)).mp hpn; omega
      simp [h1, h2]

/-! NeXML column ids -/
theorem range_union (k n : Nat) :
    List.range k ++ (List.range n).filter (fun i => !(List.range k).contains i) = List.range (max k n) := by
  induction n with
  | zero => simp
  | succ n ih =>
    rw [List.range_succ, List.filter_append, ← List.append_assoc, ih]
    by_cases h : n < k
    · have e1 : max k n = k := by omega
      have e2 : max k (n + 1) = k := by omega
      simp [h, e1, e2]
    · have e1 : max k n = n := by omega
      have e2 : max k (n + 1) = n + 1 := by omega
      have h' : k ≤ n := by omega
      simp [h', e1, e2, List.range_succ]

theorem nexmlChars_fold (lens : List Nat) : ∀ k,
    lens.foldl (fun acc n => acc ++ (List.range n).filter (fun i => !acc.contains i)) (List.range k)
      = List.range (lens.foldl max k) := by
  induction lens with
  | nil => intro k; rfl
  | cons n ns ih =>
    intro k
    simp only [List.foldl_cons]
    rw [range_union, ih]

theorem idxOf_range (n j : Nat) (h : j < n) : (List.range n).idxOf j = j := by
  induction n with
  | zero => omega
  | succ n ih =>
    rw [List.range_succ, List.idxOf_append]
    by_cases hj : j < n
    · simp [hj, ih hj]
    · have : j = n := by omega
      subst this
      simp

theorem le_foldl_max (lens : List Nat) : ∀ k, k ≤ lens.foldl max k ∧ ∀ n ∈ lens, n ≤ lens.foldl max k := by
  induction lens with
  | nil => intro k; simp
  | cons a as ih =>
    intro k
    obtain ⟨h1, h2⟩ := ih (max k a)
    simp only [List.foldl_cons, List.mem_cons]
    refine ⟨by omega, ?_⟩
    intro n hn
    rcases hn with rfl | hn
    · omega
    · exact h2 n hn


/-! title de-duplication: pigeonhole -/
theorem natStr_inj {i j : Nat} (h : natStr i = natStr j) : i = j := by
  unfold natStr at h
  have : toString i = toString j := String.toList_inj.mp h
  exact Nat.repr_injective this

theorem natStr_digits (n : Nat) : ∀ c ∈ natStr n, c.isDigit = true := by
  intro c hc
  unfold natStr at hc
  have : (toString n).toList = Nat.toDigits 10 n := by
    show (Nat.repr n).toList = _
    simp [Nat.repr]
  rw [this] at hc
  exact Nat.isDigit_of_mem_toDigits (by decide) (by decide) hc

theorem toUpper_digit (c : Char) (h : c.isDigit = true) : c.toUpper = c := by
  simp [Char.isDigit] at h
  unfold Char.toUpper
  have h2 := h.2
  have : ¬ (c.val ≥ 97 ∧ c.val ≤ 122) := by
    intro ⟨h1, _⟩
    have a : (97 : UInt32) ≤ c.val := h1
    have b : c.val ≤ (57 : UInt32) := h2
    have := UInt32.le_trans a b
    exact absurd this (by decide)
  simp [this]

def hit (used : List Str) (c : Str) : Bool := used.any (fun u => tkey u == tkey c)

/-- the candidates `freshTitle` examines, in order -/
def cands (orig : Str) : Nat → Nat → Str → List Str
  | _, 0, _ => []
  | idx, f + 1, cand => cand :: cands orig (idx + 1) f (orig ++ ['.'] ++ natStr idx)

theorem freshTitle_first (used : List Str) (orig : Str) (fuel : Nat) : ∀ (idx : Nat) (cand : Str),
    (∃ c ∈ cands orig idx fuel cand, hit used c = false) → hit used (freshTitle used orig idx fuel cand) = false := by
  induction fuel with
  | zero => intro idx cand ⟨c, hc, _⟩; simp [cands] at hc
  | succ f ih =>
    intro idx cand ⟨c, hc, hf⟩
    unfold freshTitle
    by_cases hh : hit used cand = true
    · have hh' : (used.any fun u => tkey u == tkey cand) = true := hh
      simp only [hh', if_true]
      apply ih
      simp only [cands, List.mem_cons] at hc
      rcases hc with rfl | hc
      · rw [hh] at hf; cases hf
      · exact ⟨c, hc, hf⟩
    · have hh' : (used.any fun u => tkey u == tkey cand) = false := by
        simpa [hit] using hh
      simp only [hh']
      simpa [hit] using hh

theorem upper_natStr (n : Nat) : upper (natStr n) = natStr n := by
  unfold upper
  have := natStr_digits n
  generalize natStr n = l at this
  induction l with
  | nil => rfl
  | cons c cs ih =>
    simp [toUpper_digit c (this c (by simp)), ih (fun x hx => this x (by simp [hx]))]

theorem u2s_natStr (n : Nat) : u2s (natStr n) = natStr n := by
  unfold u2s
  have := natStr_digits n
  generalize natStr n = l at this
  induction l with
  | nil => rfl
  | cons c cs ih =>
    have hc : c ≠ '_' := by
      intro h; have := this c (by simp); rw [h] at this; exact absurd this (by decide)
    have ih' := ih (fun x hx => this x (by simp [hx]))
    simp only [List.map_cons, beq_iff_eq, hc, if_false]
    simp only [beq_iff_eq] at ih'
    rw [ih']

theorem upper_cand (orig : Str) (idx : Nat) :
    upper (orig ++ ['.'] ++ natStr idx) = upper orig ++ ['.'] ++ natStr idx := by
  have h := upper_natStr idx
  unfold upper at h ⊢
  have hd : Char.toUpper '.' = '.' := by decide
  simp only [List.map_append, List.map_cons, List.map_nil, h, hd]

theorem u2s_append (a b : Str) : u2s (a ++ b) = u2s a ++ u2s b := by simp [u2s]

theorem tkey_cand (orig : Str) (idx : Nat) :
    tkey (orig ++ ['.'] ++ natStr idx) = tkey orig ++ ['.'] ++ natStr idx := by
  unfold tkey
  rw [upper_cand, u2s_append, u2s_append, u2s_natStr]
  rfl

theorem upper_length (s : Str) : (upper s).length = s.length := by simp [upper]
theorem tkey_length (s : Str) : (tkey s).length = s.length := by simp [tkey, u2s, upper]

theorem cands_upper (orig : Str) (f : Nat) : ∀ idx, ∀ c ∈ cands orig (idx + 1) f (orig ++ ['.'] ++ natStr idx),
    ∃ j, idx ≤ j ∧ tkey c = tkey orig ++ ['.'] ++ natStr j := by
  induction f with
  | zero => intro idx c hc; simp [cands] at hc
  | succ f ih =>
    intro idx c hc
    simp only [cands, List.mem_cons] at hc
    rcases hc with rfl | hc
    · exact ⟨idx, Nat.le_refl _, tkey_cand orig idx⟩
    · obtain ⟨j, hj, he⟩ := ih (idx + 1) c hc
      exact ⟨j, by omega, he⟩

theorem cands_nodup_tail (orig : Str) (f : Nat) : ∀ idx,
    ((cands orig (idx + 1) f (orig ++ ['.'] ++ natStr idx)).map tkey).Nodup := by
  induction f with
  | zero => intro idx; simp [cands]
  | succ f ih =>
    intro idx
    simp only [cands, List.map_cons, List.nodup_cons]
    refine ⟨?_, ih (idx + 1)⟩
    intro hmem
    obtain ⟨c, hc, he⟩ := List.mem_map.mp hmem
    obtain ⟨j, hj, hj'⟩ := cands_upper orig f (idx + 1) c hc
    rw [tkey_cand orig idx, hj'] at he
    have := natStr_inj (List.append_cancel_left he)
    omega

theorem cands_nodup (l : Str) (f : Nat) : ((cands l 1 f l).map tkey).Nodup := by
  cases f with
  | zero => simp [cands]
  | succ f =>
    simp only [cands, List.map_cons, List.nodup_cons]
    refine ⟨?_, cands_nodup_tail l f 1⟩
    intro hmem
    obtain ⟨c, hc, he⟩ := List.mem_map.mp hmem
    obtain ⟨j, _, hj'⟩ := cands_upper l f 1 c hc
    have := congrArg List.length (he.symm.trans hj')
    simp at this

theorem cands_length (orig : Str) (f : Nat) : ∀ idx cand, (cands orig idx f cand).length = f := by
  induction f with
  | zero => intros; rfl
  | succ f ih => intro idx cand; simp [cands, ih]

/-- pigeonhole: pairwise case-distinct candidates cannot all collide with the used titles if there are more of them -/
theorem exists_fresh (used l : List Str) (hn : (l.map tkey).Nodup) (hlen : used.length < l.length) :
    ∃ c ∈ l, hit used c = false := by
  apply Classical.byContradiction
  intro hno
  have hall : ∀ c ∈ l, hit used c = true := by
    intro c hc
    cases h : hit used c with
    | true => rfl
    | false => exact absurd ⟨c, hc, h⟩ hno
  have hsub : l.map tkey ⊆ used.map tkey := by
    intro x hx
    obtain ⟨c, hc, rfl⟩ := List.mem_map.mp hx
    have := hall c hc
    simp only [hit, List.any_eq_true, beq_iff_eq] at this
    obtain ⟨u, hu, he⟩ := this
    exact List.mem_map.mpr ⟨u, hu, he⟩
  have := List.Nodup.length_le_of_subset hn hsub
  simp at this
  omega

theorem freshTitle_fresh (used : List Str) (l : Str) :
    hit used (freshTitle used l 1 (used.length + 1) l) = false :=
  freshTitle_first used l _ 1 l (exists_fresh used _ (cands_nodup l _) (by simp [cands_length]))


end DendroModel.C09.Aux

namespace DendroModel.C09
open DendroModel.Alphabets DendroModel.C09.Aux

/-! ### symbols -/

/-- every canonical symbol of every generated state alphabet denotes itself (`alphabet[str(state)] is state`) -/
theorem symbol_roundtrip :
    ∀ sp ∈ [dna, rna, nucleotide, protein, binary, standardDefault],
      ∀ c ∈ canonSyms (mkStates sp), lookup (mkStates sp) c = some c := by
  decide

/-- the generated alphabets are case-insensitive: the lower-case form of a symbol denotes the same state -/
theorem symbol_case_insensitive :
    ∀ sp ∈ [dna, rna, nucleotide, protein, binary, standardDefault],
      ∀ c ∈ canonSyms (mkStates sp), lookup (mkStates sp) c.toLower = some c := by
  decide

/-- every ambiguity code of the generated alphabets (nucleotide included) is found again from its member set written
as a `{..}` token: no two codes of one alphabet share a member set -/
theorem ambiguity_token_roundtrip :
    ∀ sp ∈ [dna, rna, nucleotide, protein],
      ∀ p ∈ sp.ambig, resolveMulti (mkStates sp) false p.2 = some (.sym p.1) := by
  decide

/-- declared symbol synonyms (`X` for `N` in the nucleotide alphabets) denote the canonical symbol, and the gap /
missing symbols are symbols of their alphabets -/
theorem symbol_synonyms :
    ∀ sp ∈ [dna, rna, nucleotide, protein, binary, standardDefault],
      (∀ p ∈ sp.syn, lookup (mkStates sp) p.1 = some p.2) ∧
      (∀ g ∈ sp.gap.toList ++ sp.missing.toList, lookup (mkStates sp) g = some g) := by
  decide

/-! ### NEXUS FORMAT -/

/-- the FORMAT terms the writer emits for each fixed data type (generated from `_compose_format_terms`) parse back to
that data type with gap `-`, missing `?`, match character `.`, not interleaved -/
theorem format_roundtrip :
    ∀ dt ∈ ["dna".toList, "rna".toList, "nucleotide".toList, "protein".toList],
      parseFormatText ("FORMAT ".toList ++ formatOf dt dna ++ [';'])
        = some ⟨dt, [], ['-'], ['?'], ['.'], false⟩ := by
  decide

/-- the FORMAT statement composed for a standard alphabet parses back to type `standard`, the same symbol set (gap
included, as written), gap `-`, missing `?`, not interleaved; and in the alphabet rebuilt from it every symbol, the gap
and the missing symbol denote themselves -/
def stdFormatOk (syms : Str) : Bool :=
  match parseFormatText ("FORMAT ".toList ++ formatOf "standard".toList (specStd syms (some '-') (some '?')) ++ [';']) with
  | none => false
  | some f =>
    f.dataType == "standard".toList && canonSet f.symbols == canonSet (syms ++ ['-']) && f.gap == ['-'] &&
    f.missing == ['?'] && !f.interleave &&
    match alphabetOfFmt f with
    | none => false
    | some al => (syms ++ ['-', '?']).all (fun c => lookup al c == some c)

/-- STANDARD matrices: the FORMAT statement composed for an alphabet (`SYMBOLS="…"` with the gap among the symbols,
`MISSING=?`) parses back to the standard type with the same symbol set, and `_build_state_alphabet` rebuilds an
alphabet in which every symbol denotes itself.  `_partial`: proved for the default alphabet and the custom symbol
sets the generator uses (a finite list, by evaluation). The parsing half for an ARBITRARY symbol string is
`format_standard_roundtrip` below; what stays finite here is "every symbol of the rebuilt alphabet denotes itself". -/
theorem format_standard_roundtrip_partial :
    ∀ syms ∈ ["0123456789".toList, "01".toList, "10".toList, "012".toList, "0123".toList, "ABC".toList, "01234567".toList],
      stdFormatOk syms = true := by
  decide

/-! ### NEXUS rows -/

/-- what a written cell reads back as: a symbol as itself, a symbol-less multistate with its member set in canonical
order (the writer keeps the state's own member order, e.g. `(20)`; the state read back is the set {0,2}) -/
def readsAs : Cell → Cell
  | .sym c => .sym c
  | .multi p ms => .multi p (canonSet ms)

/-- a cell the (repaired) writer can emit and the reader takes back: a symbol that denotes itself and is not
white space, a bracket, `;` or a match character; or a symbol-less multistate, members in any order, whose member
set is not the set of a coded state of the alphabet -/
def CellOk (al : List St) (matchChars : List Char) : Cell → Prop
  | .sym c => lookup al c = some c ∧ isWs c = false ∧ c ≠ '{' ∧ c ≠ '(' ∧ c ≠ ';' ∧ c ∉ matchChars
  | .multi p ms => resolveMulti al p ms = some (.multi p (canonSet ms)) ∧
      ∀ m ∈ ms, isWs m = false ∧ m ≠ (if p then ')' else '}')

theorem cells_fold (cfg : RCfg) (cells : List Cell) (out : List Cell)
    (hok : ∀ c ∈ cells, CellOk cfg.al cfg.matchChars c)
    (hn : cfg.have_ + out.length + cells.length ≤ cfg.nchar) :
    (renderCells cells).foldl (stepChar cfg) ⟨out, none, none⟩ = ⟨out ++ cells.map readsAs, none, none⟩ := by
  induction cells generalizing out with
  | nil => simp [renderCells]
  | cons c cs ih =>
    have hc := hok c (by simp)
    have hlt : ¬ (cfg.have_ + out.length ≥ cfg.nchar) := by simp at hn ⊢; omega
    have hrest : ∀ x : Cell, cfg.have_ + (out ++ [x]).length + cs.length ≤ cfg.nchar := by
      intro x; simp at hn ⊢; omega
    simp only [renderCells, List.foldl_append]
    cases c with
    | sym ch =>
      obtain ⟨h1, h2, h3, h4, h5, h6⟩ := hc
      have hstep : stepChar cfg ⟨out, none, none⟩ ch = ⟨out ++ [Cell.sym ch], none, none⟩ := by
        unfold stepChar pushCell
        simp [h1, h2, h3, h4, h5, h6, hlt]
      simp only [renderCell, List.foldl_cons, List.foldl_nil, hstep]
      rw [ih (out ++ [Cell.sym ch]) (fun x hx => hok x (by simp [hx])) (hrest _)]
      simp [readsAs]
    | multi p ms =>
      obtain ⟨h1, h2⟩ := hc
      cases p with
      | true =>
        have hopen : stepChar cfg ⟨out, none, none⟩ '(' = ⟨out, some (true, []), none⟩ := by
          unfold stepChar; simp [isWs]
        have hclose : stepChar cfg ⟨out, some (true, [] ++ ms), none⟩ ')' = ⟨out ++ [Cell.multi true (canonSet ms)], none, none⟩ := by
          unfold stepChar pushCell
          simp [h1, hlt]
        simp only [renderCell, List.foldl_cons, List.foldl_append, List.foldl_nil, hopen]
        rw [foldl_group cfg true ms out [] h2, hclose]
        rw [ih (out ++ [Cell.multi true (canonSet ms)]) (fun x hx => hok x (by simp [hx])) (hrest _)]
        simp [readsAs]
      | false =>
        have hopen : stepChar cfg ⟨out, none, none⟩ '{' = ⟨out, some (false, []), none⟩ := by
          unfold stepChar; simp [isWs]
        have hclose : stepChar cfg ⟨out, some (false, [] ++ ms), none⟩ '}' = ⟨out ++ [Cell.multi false (canonSet ms)], none, none⟩ := by
          unfold stepChar pushCell
          simp [h1, hlt]
        simp only [renderCell, List.foldl_cons, List.foldl_append, List.foldl_nil, hopen]
        rw [foldl_group cfg false ms out [] h2, hclose]
        rw [ih (out ++ [Cell.multi false (canonSet ms)]) (fun x hx => hok x (by simp [hx])) (hrest _)]
        simp [readsAs]

/-- `_read_character_states` applied to the text the writer produces for a row returns the row's cells, one by one,
including symbol-less `{..}` / `(..)` cells whatever the order in which the writer lists their members (they read
back as the same member *set*, `readsAs`), whenever the declared NCHAR leaves room for them -/
theorem cells_roundtrip (cfg : RCfg) (cells : List Cell)
    (hok : ∀ c ∈ cells, CellOk cfg.al cfg.matchChars c)
    (hn : cfg.have_ + cells.length ≤ cfg.nchar) :
    readStates cfg (renderCells cells) = .ok (cells.map readsAs) := by
  unfold readStates
  have := cells_fold cfg cells [] hok (by simpa using hn)
  simp [this]

/-- cells as they read back, row by row -/
def normM (m : Matrix) : Matrix := m.map (fun r => (r.1, r.2.map readsAs))
def someRows {α : Type} (m : List (Str × α)) : List (Str × Option α) := m.map (fun r => (r.1, some r.2))
def noneRows {α : Type} (m : List (Str × α)) : List (Str × Option α) := m.map (fun r => (r.1, none))

/-- one MATRIX row on either entry path of `_process_discrete_matrix_data`: the label is new (DATA block, taxa
created on the fly, room left under NTAX) or names a taxon of the TAXA block that has no sequence yet -/
theorem nexus_row_step (cfg : NxCfg) (acc : Acc) (first : Option Str) (label : Str) (cells : List Cell)
    (hk : (findRow acc label = none ∧ (cfg.ntax = 0 ∨ acc.length < cfg.ntax)) ∨ findRow acc label = some none)
    (hi : cfg.interleave = false)
    (hok : ∀ c ∈ cells, CellOk cfg.al cfg.matchChars c) (hlen : cells.length = cfg.nchar) :
    nxStep cfg (.ok (acc, first)) (label, renderCells cells)
      = .ok (setRow acc label (cells.map readsAs), some (first.getD label)) := by
  have hrs := cells_roundtrip ⟨cfg.al, cfg.matchChars, first.bind (fun l => (findRow acc l).bind id), cfg.nchar, 0⟩
    cells hok (by simp [hlen])
  rcases hk with ⟨hf, hroom⟩ | hf
  · have hroom' : (cfg.ntax == 0 || decide (acc.length < cfg.ntax)) = true := by
      rcases hroom with h | h <;> simp [h]
    simp [nxStep, hf, hroom', hrs, hlen, hi]
  · simp [nxStep, hf, hrs, hlen, hi]

/-- DATA-block path: the fold over the written rows, started from the rows already read -/
theorem nexus_fold_data (cfg : NxCfg) (hi : cfg.interleave = false) :
    ∀ (m P : Matrix) (first : Option Str),
      ((P ++ m).map (fun r => lower r.1)).Nodup →
      (∀ r ∈ m, ∀ c ∈ r.2, CellOk cfg.al cfg.matchChars c) → (∀ r ∈ m, r.2.length = cfg.nchar) →
      (cfg.ntax = 0 ∨ (P ++ m).length ≤ cfg.ntax) →
      ∃ f, (nxRows m).foldl (nxStep cfg) (.ok (someRows P, first)) = .ok (someRows (P ++ normM m), f) := by
  intro m
  induction m with
  | nil => intro P first _ _ _ _; exact ⟨first, by simp [nxRows, normM]⟩
  | cons r rs ih =>
    intro P first hnd hok hlen hnt
    have hfresh : findRow (someRows P) r.1 = none := by
      apply findRow_none
      intro p hp
      simp only [someRows, List.mem_map] at hp
      obtain ⟨q, hq, rfl⟩ := hp
      simp only [List.map_append, List.map_cons] at hnd
      have := (List.nodup_append.mp hnd).2.2 (lower q.1) (List.mem_map.mpr ⟨q, hq, rfl⟩) (lower r.1) (by simp)
      simpa using this
    have hroom : cfg.ntax = 0 ∨ (someRows P).length < cfg.ntax := by
      rcases hnt with h | h
      · exact Or.inl h
      · right; simp [someRows] at h ⊢; omega
    have hstep := nexus_row_step cfg (someRows P) first r.1 r.2 (Or.inl ⟨hfresh, hroom⟩) hi
      (hok r (by simp)) (hlen r (by simp))
    have hset : setRow (someRows P) r.1 (r.2.map readsAs) = someRows (P ++ [(r.1, r.2.map readsAs)]) := by
      rw [setRow_fresh _ _ _ hfresh]; simp [someRows]
    obtain ⟨f, hf⟩ := ih (P ++ [(r.1, r.2.map readsAs)]) (some (first.getD r.1))
      (by simpa [List.map_append] using hnd)
      (fun x hx => hok x (by simp [hx])) (fun x hx => hlen x (by simp [hx]))
      (by simpa [List.length_append, Nat.add_assoc, Nat.add_comm] using hnt)
    refine ⟨f, ?_⟩
    simp only [nxRows, List.map_cons, List.foldl_cons] at hf ⊢
    rw [hstep, hset, hf]
    simp [normM]

/-- TAXA + CHARACTERS path: the namespace already lists every label, rows fill it in order -/
theorem nexus_fold_taxa (cfg : NxCfg) (hi : cfg.interleave = false) :
    ∀ (m P : Matrix) (first : Option Str),
      ((P ++ m).map (fun r => lower r.1)).Nodup →
      (∀ r ∈ m, ∀ c ∈ r.2, CellOk cfg.al cfg.matchChars c) → (∀ r ∈ m, r.2.length = cfg.nchar) →
      ∃ f, (nxRows m).foldl (nxStep cfg) (.ok (someRows P ++ noneRows m, first))
        = .ok (someRows (P ++ normM m), f) := by
  intro m
  induction m with
  | nil => intro P first _ _ _; exact ⟨first, by simp [nxRows, normM, noneRows]⟩
  | cons r rs ih =>
    intro P first hnd hok hlen
    have hpre : ∀ p ∈ someRows P, (lower p.1 == lower r.1) = false := by
      intro p hp
      simp only [someRows, List.mem_map] at hp
      obtain ⟨q, hq, rfl⟩ := hp
      simp only [List.map_append, List.map_cons] at hnd
      have := (List.nodup_append.mp hnd).2.2 (lower q.1) (List.mem_map.mpr ⟨q, hq, rfl⟩) (lower r.1) (by simp)
      simpa using this
    have hfind : findRow (someRows P ++ noneRows (r :: rs)) r.1 = some none := by
      rw [findRow_append _ _ _ hpre]; simp [noneRows, findRow]
    have hstep := nexus_row_step cfg (someRows P ++ noneRows (r :: rs)) first r.1 r.2 (Or.inr hfind) hi
      (hok r (by simp)) (hlen r (by simp))
    have hset : setRow (someRows P ++ noneRows (r :: rs)) r.1 (r.2.map readsAs)
        = someRows (P ++ [(r.1, r.2.map readsAs)]) ++ noneRows rs := by
      rw [setRow_append _ _ _ _ hpre]; simp [noneRows, someRows, setRow]
    obtain ⟨f, hf⟩ := ih (P ++ [(r.1, r.2.map readsAs)]) (some (first.getD r.1))
      (by simpa [List.map_append] using hnd)
      (fun x hx => hok x (by simp [hx])) (fun x hx => hlen x (by simp [hx]))
    refine ⟨f, ?_⟩
    simp only [nxRows, List.map_cons, List.foldl_cons] at hf ⊢
    rw [hstep, hset, hf]
    simp [normM]

/-- **whole matrix, sequential NEXUS.**  What the (repaired) writer lays out for a matrix — one row per taxon, all
rows of the declared length, labels distinct up to case — is read back as the same taxa in the same order with the
same cells (`normM`: symbol-less multistates as member sets), both when a TAXA block has listed the labels and when the
MATRIX is in a DATA block and creates them.  Not covered here (correspondence only): interleaved pages, match
characters, rows in another order than TAXLABELS, label tokenisation (C02). -/
theorem nexus_matrix_roundtrip (cfg : NxCfg) (m : Matrix) (hi : cfg.interleave = false)
    (hlab : (m.map (fun r => lower r.1)).Nodup)
    (hok : ∀ r ∈ m, ∀ c ∈ r.2, CellOk cfg.al cfg.matchChars c)
    (hlen : ∀ r ∈ m, r.2.length = cfg.nchar) (hnt : cfg.ntax = 0 ∨ m.length ≤ cfg.ntax) :
    nxRead cfg (m.map (·.1)) (nxRows m) = .ok (normM m) ∧ nxRead cfg [] (nxRows m) = .ok (normM m) := by
  constructor
  · obtain ⟨f, hf⟩ := nexus_fold_taxa cfg hi m [] none (by simpa using hlab) hok hlen
    have h0 : (m.map (·.1)).map (fun t => ((t, none) : Str × Option (List Cell))) = someRows [] ++ noneRows m := by
      simp [someRows, noneRows]
    unfold nxRead
    rw [h0, hf]
    simp only [List.nil_append]
    exact congrArg Except.ok (accRows_someRows (normM m))
  · obtain ⟨f, hf⟩ := nexus_fold_data cfg hi m [] none (by simpa using hlab) hok hlen (by simpa using hnt)
    unfold nxRead
    simp only [List.map_nil]
    have : (.ok (([] : Acc), (none : Option Str)) : Except Err (Acc × Option Str)) = .ok (someRows [], none) := by
      simp [someRows]
    rw [this, hf]
    simp only [List.nil_append]
    exact congrArg Except.ok (accRows_someRows (normM m))

/-! ### PHYLIP -/

/-- sequence part of a PHYLIP line: canonical symbols read back as themselves -/
theorem phylip_sequence_roundtrip (al : List St) (s : Str)
    (h : ∀ c ∈ s, lookup al c = some c ∧ isBlank c = false) : phSeq al s = .ok s := by
  induction s with
  | nil => rfl
  | cons c cs ih =>
    have hc := h c (by simp)
    simp [phSeq, hc.1, hc.2, ih (fun x hx => h x (by simp [hx]))]

/-- `_partial`: a fragment (the `re.split` step `splitRun false` of `phTaxon` on the line `phWrite` lays out). The whole file
is `phylip_relaxed_roundtrip` below (labels without any blank as written; every underscore option pair) and
`phylip_multispace_roundtrip` (multispace delimiter, labels with single inner blanks); what remains without a theorem is the reader's
interleaved paging (`phInterleaved`), which the writer never produces.
Relaxed PHYLIP: the line the writer produces (label padded to the longest label, two spaces, sequence) splits back
into the label and the sequence, for every label without blanks (`LabelAdmissible` for the relaxed variant) -/
theorem phylip_relaxed_line_roundtrip_partial (label seq : Str) (width : Nat)
    (hl : ∀ c ∈ label, isBlank c = false) (hs : (seq.head?.map isBlank).getD false = false) :
    splitRun false (ljust width label ++ [' ', ' '] ++ seq) = some (label, seq) := by
  have : ljust width label ++ [' ', ' '] ++ seq
      = label ++ ' ' :: (List.replicate (width - label.length + 1) ' ' ++ seq) := by
    simp [ljust, List.replicate_succ, List.append_assoc]
    induction (width - label.length) with
    | zero => simp
    | succ k ih => simp [List.replicate_succ, ih]
  rw [this, splitRun_label label _ hl, dropWhile_replicate_blank _ _ hs]

/-- `_partial`: a fragment (the column split of the strict branch of `phTaxon`, written out on `phWrite`'s strict line
layout `ljust 10 (label.take 10) ++ seq`); composed into the whole file in `phylip_strict_roundtrip` below.
Strict PHYLIP: the first ten columns, stripped, give back every label of at most ten characters that does not
start or end with white space, and the sequence starts at column eleven -/
theorem phylip_strict_line_roundtrip_partial (label seq : Str) (hlen : label.length ≤ 10)
    (h1 : (label.head?.map isWs).getD false = false) (h2 : (label.getLast?.map isWs).getD false = false) :
    strip ((ljust 10 (label.take 10) ++ seq).take 10) = label ∧ (ljust 10 (label.take 10) ++ seq).drop 10 = seq := by
  have ht : label.take 10 = label := List.take_of_length_le hlen
  have hl : (ljust 10 label).length = 10 := by simp [ljust]; omega
  rw [ht]
  constructor
  · rw [List.take_append_of_le_length (by omega), List.take_of_length_le (by omega)]
    unfold strip ljust
    by_cases he : label = []
    · subst he; simp [lstrip, rstrip, isWs]
    · have : lstrip (label ++ List.replicate (10 - label.length) ' ') = label ++ List.replicate (10 - label.length) ' ' := by
        apply lstrip_id
        cases label with
        | nil => exact absurd rfl he
        | cons c cs => simpa using h1
      rw [this, rstrip_pad label _ h2]
  · rw [List.drop_append_of_le_length (by omega), List.drop_of_length_le (by omega)]; simp

/-! ### FASTA -/

/-- `_partial`: states the symbol lookup over the wrapped text as a whole (`faSeq` skips the inserted line breaks); the
executed path `faRead ∘ splitLines` strips and appends line by line; that composition, with names and records, is
`fasta_roundtrip` below.
The sequence lines of a FASTA record (wrapped every 70 symbols) read back as the unwrapped sequence -/
theorem fasta_wrap_roundtrip_partial (al : List St) (s : Str) (col : Nat)
    (h : ∀ c ∈ s, lookup al c = some c ∧ isWs c = false) : faSeq al (wrap70 col s) = .ok s := by
  induction s generalizing col with
  | nil => rfl
  | cons c cs ih =>
    have hc := h c (by simp)
    have hr := fun k => ih k (fun x hx => h x (by simp [hx]))
    have hws : isWs c = false := hc.2
    have hnl : isWs '\n' = true := by decide
    by_cases h70 : col = 70
    · have e : wrap70 col (c :: cs) = '\n' :: c :: wrap70 1 cs := by simp [wrap70, h70]
      rw [e]
      simp [faSeq, hnl, hws, hc.1, hr]
    · have e : wrap70 col (c :: cs) = c :: wrap70 (col + 1) cs := by simp [wrap70, h70]
      rw [e]
      simp [faSeq, hws, hc.1, hr]

/-! ### NeXML (abstract document) -/

/-- one `<char>` id per column index, listed in the format section in column order ⇒ every row reads back unshifted
and without `None` padding, whatever the row lengths. (The defect was precisely a writer violating the hypothesis: a
fresh id per cell puts row i's ids at positions i·m … i·m+m−1.)  `_partial`: XML text and id generation are abstracted. -/
theorem nexml_columns_partial (chars : List Nat) (colId : Nat → Nat) (cells : List α)
    (h : ∀ j, j < cells.length → colId j ∈ chars ∧ chars.idxOf (colId j) = j) :
    nexmlReadRow chars (nexmlWriteRow colId cells) = some (cells.map some) := by
  unfold nexmlReadRow nexmlWriteRow
  rw [List.range_eq_range']
  simpa using nexml_fold chars colId cells 0 [] rfl (by simpa using h)

/-- **whole matrix, NeXML (abstract document).**  The repaired `_write_format_section` (`nexmlChars`: the `<char>` id of
a cell depends on its column index only; ids are listed in order of first use) followed by the reader's `set_at`
placement gives back every row unshifted and without `None` padding — for any row lengths, ragged matrices
included.  XML text, state ids and id strings are abstracted (checked by the correspondence on the real XML). -/
theorem nexml_matrix_columns (rows : List (List α)) :
    ∀ r ∈ rows, nexmlReadRow (nexmlChars id (rows.map List.length)) (nexmlWriteRow id r) = some (r.map some) := by
  intro r hr
  have hc : nexmlChars id (rows.map List.length) = List.range ((rows.map List.length).foldl max 0) := by
    unfold nexmlChars
    simpa using nexmlChars_fold (rows.map List.length) 0
  apply nexml_columns_partial
  intro j hj
  have hle : r.length ≤ (rows.map List.length).foldl max 0 :=
    (le_foldl_max _ 0).2 _ (List.mem_map.mpr ⟨r, hr, rfl⟩)
  rw [hc]
  exact ⟨by simp; omega, idxOf_range _ _ (by simp; omega)⟩

/-! ### TITLE / LINK -/

/-- reading: a LINK naming the title of block `b` resolves to `b` when the written titles are pairwise distinct
without regard to case -/
theorem resolve_distinct (ts : List Str) (b : Nat) (hb : b < ts.length)
    (hd : ∀ i j, i < ts.length → j < ts.length → (ts[i]?).map upper = (ts[j]?).map upper → i = j) :
    resolve (ts.map some) (ts[b]?) = .ok b := by
  have hget : ts[b]? = some ts[b] := List.getElem?_eq_getElem hb
  have : (List.range (ts.map some).length).filter (titleMatches (ts.map some) ts[b]) = [b] := by
    apply filter_range_unique _ _ b (by simpa using hb)
    intro i hi
    have hi' : i < ts.length := by simpa using hi
    have hgi : ts[i]? = some ts[i] := List.getElem?_eq_getElem hi'
    unfold titleMatches
    simp only [List.getElem?_map, hgi, Option.map_some, Option.bind_some, id]
    constructor
    · intro he
      have he' : upper ts[i] = upper ts[b] := by simpa using he
      exact hd i b hi' hb (by simp [hgi, hget, he'])
    · intro he; subst he; simp
  rw [hget]
  simp only [resolve, this]

/-- `_get_block_title` de-duplication: one title per block, none colliding (up to case) with a title already in use,
and pairwise distinct up to case — the fuel `used.length + 1` of `freshTitle` always suffices (pigeonhole over the
candidates `l`, `l.1`, `l.2`, …) -/
theorem assignTitles_distinct : ∀ (labels used : List Str),
    (assignTitles used labels).length = labels.length ∧
    (∀ t ∈ assignTitles used labels, hit used t = false) ∧ ((assignTitles used labels).map tkey).Nodup := by
  intro labels
  induction labels with
  | nil => intro used; simp [assignTitles]
  | cons l ls ih =>
    intro used
    have hf := freshTitle_fresh used l
    obtain ⟨h1, h2, h3⟩ := ih (used ++ [freshTitle used l 1 (used.length + 1) l])
    simp only [assignTitles, List.length_cons, List.mem_cons, List.map_cons, List.nodup_cons]
    refine ⟨by simp [h1], ?_, ?_, h3⟩
    · intro t ht
      rcases ht with rfl | ht
      · exact hf
      · have := h2 t ht
        simp only [hit, List.any_append, Bool.or_eq_false_iff] at this
        exact this.1
    · intro hmem
      obtain ⟨t, ht, he⟩ := List.mem_map.mp hmem
      have := h2 t ht
      simp only [hit, List.any_append, Bool.or_eq_false_iff, List.any_cons, List.any_nil, Bool.or_false] at this
      have h' := this.2
      simp [he] at h'

/-- `suppress_block_titles` None (more than one namespace) or False: titles are written, and every block's LINK resolves
to the block's own namespace — for arbitrary namespace labels (equal, or differing only in case): the writer's
de-duplication makes the titles distinct for the case-insensitive reader -/
theorem title_link_resolves (sup : Option Bool) (labels : List Str) (blocks : List Nat)
    (hs : sup = some false ∨ (sup = none ∧ labels.length > 1))
    (hb : ∀ b ∈ blocks, b < labels.length) :
    readLinks (writeLinks sup labels blocks) = blocks.map .ok := by
  obtain ⟨hlen, _, hnd⟩ := assignTitles_distinct labels []
  have hd : ∀ i j, i < (assignTitles [] labels).length → j < (assignTitles [] labels).length →
      ((assignTitles [] labels)[i]?).map upper = ((assignTitles [] labels)[j]?).map upper → i = j := by
    intro i j hi hj he
    have : ((assignTitles [] labels).map tkey)[i]? = ((assignTitles [] labels).map tkey)[j]? := by
      have he' := congrArg (Option.map u2s) he
      have hk : tkey = fun x => u2s (upper x) := rfl
      simpa [List.getElem?_map, hk, Function.comp_def] using he'
    exact (List.getElem?_inj (by simpa using hi) hnd).mp this
  have hl : linkBlocks sup labels.length = true := by
    rcases hs with h | ⟨h, h'⟩ <;> simp [linkBlocks, h] <;> omega
  unfold readLinks writeLinks
  simp only [hl, if_true, List.map_map]
  apply List.map_congr_left
  intro b hbm
  have hb' : b < (assignTitles [] labels).length := by rw [hlen]; exact hb b hbm
  simpa [Function.comp] using resolve_distinct (assignTitles [] labels) b hb' hd

/-- a single namespace written without titles (the default) is what every block attaches to (an evaluation of the
definitions: the no-title branch of `_get_taxon_namespace`) -/
theorem single_namespace_resolves (label : Str) (blocks : List Nat) :
    readLinks (writeLinks none [label] blocks) = blocks.map (fun _ => .ok 0) := by
  simp [readLinks, writeLinks, linkBlocks, resolve]

/-! ### non-vacuity: the hypotheses are satisfiable on concrete data -/
example : CellOk (mkStates dna) ['.'] (.sym 'R') := by unfold CellOk; decide
example : CellOk (mkStates (specStd ['0', '1', '2'] (some '-') (some '?'))) ['.'] (.multi true ['1', '2']) := by
  unfold CellOk; decide
example : (readStates ⟨mkStates dna, ['.'], none, 4, 0⟩ "AC-?".toList).toOption
    = some [.sym 'A', .sym 'C', .sym '-', .sym '?'] := by decide
example : nexmlReadRow [7, 8, 9] (nexmlWriteRow (· + 7) ['a', 'b']) = some [some 'a', some 'b'] := by decide
example : (readLinks (writeLinks (some false) ["X".toList, "x".toList] [1, 0])).map Except.toOption = [some 1, some 0] := by
  decide
example : assignTitles [] ["X".toList, "x".toList] = ["X".toList, "x.1".toList] := by decide
/-- the defect, on the abstract document: a fresh id per cell shifts the second row -/
example : nexmlReadRow [0, 1, 2, 3] [(2, 'c'), (3, 'd')] = some [none, none, some 'c', some 'd'] := by decide
/-- a cell naming an undefined `<char>` is refused -/
example : nexmlReadRow [0, 1] [(0, 'c'), (5, 'd')] = none := by decide

end DendroModel.C09

/-! ## whole-file PHYLIP -/
namespace DendroModel.C09.Aux

/-! header -/
theorem natStr_toDigits (n : Nat) : natStr n = Nat.toDigits 10 n := by
  unfold natStr
  show (Nat.repr n).toList = _
  exact Nat.toList_repr

theorem natStr_ne_nil (n : Nat) : natStr n ≠ [] := by
  rw [natStr_toDigits]; exact Nat.toDigits_ne_nil

theorem digitsVal_natStr (n : Nat) : digitsVal (natStr n) = n := by
  have h := @Nat.ofDigitChars_ten_toDigits n
  rw [Nat.ofDigitChars_eq_foldl] at h
  rw [natStr_toDigits]
  unfold digitsVal
  have : (fun (n : Nat) (c : Char) => n * 10 + (c.toNat - 48)) = (fun sofar c => 10 * sofar + (c.toNat - '0'.toNat)) := by
    funext a c
    have : '0'.toNat = 48 := by decide
    rw [this, Nat.mul_comm]
  rw [this]; exact h

theorem allDigits_natStr (n : Nat) : allDigits (natStr n) = true := by
  unfold allDigits
  have h1 := natStr_ne_nil n
  have h2 := natStr_digits n
  simp only [Bool.and_eq_true, Bool.not_eq_true', List.all_eq_true]
  refine ⟨?_, h2⟩
  cases h : natStr n with
  | nil => exact absurd h h1
  | cons _ _ => rfl

theorem isWs_digit (c : Char) (h : c.isDigit = true) : isWs c = false := by
  simp [Char.isDigit] at h
  unfold isWs
  have h1 := h.1
  have ne : ∀ d : Char, d.val < 48 → c ≠ d := by
    intro d hd he; subst he
    exact absurd (UInt32.lt_of_lt_of_le hd h1) (by simp [UInt32.lt_irrefl])
  simp [ne ' ' (by decide), ne '\t' (by decide), ne '\n' (by decide), ne '\r' (by decide)]

def wsStep (c : Char) (acc : List Str) : List Str :=
  if isWs c then [] :: acc else match acc with
    | [] => [[c]]
    | t :: ts => (c :: t) :: ts

theorem wsWords_eq (s : Str) : wsWords s = (s.foldr wsStep [[]]).filter (fun t => !t.isEmpty) := rfl

theorem foldr_word (b : Str) (t : Str) (ts : List Str) (h : ∀ c ∈ b, isWs c = false) :
    b.foldr wsStep (t :: ts) = (b ++ t) :: ts := by
  induction b with
  | nil => rfl
  | cons c cs ih =>
    simp [List.foldr, ih (fun x hx => h x (by simp [hx])), wsStep, h c (by simp)]

theorem wsWords_two (a b : Str) (ha : ∀ c ∈ a, isWs c = false) (hb : ∀ c ∈ b, isWs c = false)
    (ha0 : a ≠ []) (hb0 : b ≠ []) : wsWords (a ++ [' '] ++ b) = [a, b] := by
  rw [wsWords_eq, List.append_assoc, List.foldr_append, List.singleton_append, List.foldr_cons, foldr_word b [] [] hb]
  have : wsStep ' ' [b ++ []] = [[], b] := by simp [wsStep, isWs]
  rw [this, foldr_word a [] [b] ha]
  cases a with
  | nil => exact absurd rfl ha0
  | cons x xs =>
    cases b with
    | nil => exact absurd rfl hb0
    | cons y ys => simp


/-! rows -/
theorem phFind_none (rows : List (Str × Str)) (l : Str) (h : ∀ p ∈ rows, (lower p.1 == lower l) = false) :
    phFind rows l = none := by
  unfold phFind
  rw [List.find?_eq_none.mpr (by intro p hp; simp [h p hp])]
  rfl

theorem phFind_last (rows : List (Str × Str)) (l x : Str) (h : ∀ p ∈ rows, (lower p.1 == lower l) = false) :
    phFind (rows ++ [(l, x)]) l = some x := by
  induction rows with
  | nil => simp [phFind]
  | cons p ps ih =>
    have hp := h p (by simp)
    have := ih (fun q hq => h q (by simp [hq]))
    unfold phFind at this ⊢
    simp only [List.cons_append, List.find?_cons, hp]
    exact this

theorem phSet_last (rows : List (Str × Str)) (l x y : Str) (h : ∀ p ∈ rows, (lower p.1 == lower l) = false) :
    phSet (rows ++ [(l, x)]) l y = rows ++ [(l, y)] := by
  induction rows with
  | nil => simp [phSet]
  | cons p ps ih =>
    have hp := h p (by simp)
    simp [phSet, hp, ih (fun q hq => h q (by simp [hq]))]

theorem rstrip_id (l : Str) (h : (l.getLast?.map isWs).getD false = false) : rstrip l = l := by
  have := rstrip_pad l 0 h
  simpa using this

theorem getLast?_append_ne (a b : Str) (hb : b ≠ []) : (a ++ b).getLast? = b.getLast? := by
  rw [List.getLast?_append]
  cases h : b.getLast? with
  | none => exact absurd (List.getLast?_eq_none_iff.mp h) hb
  | some x => rfl

/-- the fold of `_parse_sequential` over the written row lines, abstracting how a line is laid out (`mk`) -/
theorem phSequential_rows (cfg : PhCfg) (mk : Str × Str → Str) (ntax nchar : Nat) :
    ∀ (R P : List (Str × Str)),
      (∀ r ∈ R, r.2.length = nchar) → 0 < nchar → (P ++ R).length ≤ ntax →
      ((P ++ R).map (fun r => lower r.1)).Nodup →
      (∀ r ∈ R, rstrip (mk r) = mk r ∧ mk r ≠ []) →
      (∀ r ∈ R, ∀ st : PhSt, phFind st.rows r.1 = none → st.processed + 1 ≤ st.ntax →
        phTaxon cfg st (mk r) = .ok ({ st with rows := st.rows ++ [(r.1, [])], processed := st.processed + 1 }, r.1, r.2)) →
      (∀ r ∈ R, phSeq cfg.al r.2 = .ok r.2) →
      phSequential cfg ⟨P, P.length, ntax, nchar⟩ none (R.map mk ++ [[]]) = .ok ⟨P ++ R, (P ++ R).length, ntax, nchar⟩ := by
  intro R
  induction R with
  | nil => intro P _ _ _ _ _ _ _; simp [phSequential, rstrip]
  | cons r rs ih =>
    intro P hlen hpos hnt hnd hmk htax hseq
    have hpre : ∀ p ∈ P, (lower p.1 == lower r.1) = false := by
      intro p hp
      simp only [List.map_append, List.map_cons] at hnd
      have := (List.nodup_append.mp hnd).2.2 (lower p.1) (List.mem_map.mpr ⟨p, hp, rfl⟩) (lower r.1) (by simp)
      simpa using this
    have h1 := hmk r (by simp)
    have h2 := htax r (by simp) ⟨P, P.length, ntax, nchar⟩ (phFind_none P r.1 hpre)
      (by simp at hnt ⊢; omega)
    have h3 := hseq r (by simp)
    have hl := hlen r (by simp)
    have hne : (mk r).isEmpty = false := by
      cases h : mk r with
      | nil => exact absurd h h1.2
      | cons _ _ => rfl
    have hstep : phSequential cfg ⟨P, P.length, ntax, nchar⟩ none ((r :: rs).map mk ++ [[]])
        = phSequential cfg ⟨P ++ [r], (P ++ [r]).length, ntax, nchar⟩ none (rs.map mk ++ [[]]) := by
      simp only [List.map_cons, List.cons_append]
      rw [phSequential]
      simp only [h1.1, hne, h2, phAppend, h3, phFind_last P r.1 [] hpre, phSet_last P r.1 [] _ hpre]
      simp [hl, phFind_last P r.1 r.2 hpre]
    rw [hstep, ih (P ++ [r]) (fun x hx => hlen x (by simp [hx])) hpos (by simpa using hnt) (by simpa using hnd)
      (fun x hx => hmk x (by simp [hx])) (fun x hx => htax x (by simp [hx])) (fun x hx => hseq x (by simp [hx]))]
    simp

end DendroModel.C09.Aux

namespace DendroModel.C09.Aux

theorem isBlank_of_isWs {c : Char} (h : isWs c = false) : isBlank c = false := by
  unfold isWs at h; unfold isBlank
  simp only [Bool.or_eq_false_iff] at h ⊢
  exact ⟨h.1.1.1, h.1.1.2⟩

theorem splitRun_two (two : Bool) (label rest : Str) (h : ∀ c ∈ label, isBlank c = false) :
    splitRun two (label ++ ' ' :: ' ' :: rest) = some (label, rest.dropWhile isBlank) := by
  induction label with
  | nil => cases two <;> simp [splitRun, isBlank, List.dropWhile]
  | cons c cs ih =>
    have hc := h c (by simp)
    simp [splitRun, hc, ih (fun x hx => h x (by simp [hx]))]

theorem strip_id (l : Str) (h1 : (l.head?.map isWs).getD false = false) (h2 : (l.getLast?.map isWs).getD false = false) :
    strip l = l := by
  unfold strip; rw [lstrip_id l h1, rstrip_id l h2]

theorem head_nows (l : Str) (h : ∀ c ∈ l, isWs c = false) : (l.head?.map isWs).getD false = false := by
  cases l with
  | nil => rfl
  | cons c cs => simp [h c (by simp)]

theorem last_nows (l : Str) (h : ∀ c ∈ l, isWs c = false) : (l.getLast?.map isWs).getD false = false := by
  cases hl : l.getLast? with
  | none => rfl
  | some c => simp [h c (List.mem_of_getLast? hl)]

theorem ljust_line (w : Nat) (wl seq : Str) :
    ljust w wl ++ [' ', ' '] ++ seq = wl ++ ' ' :: ' ' :: (List.replicate (w - wl.length) ' ' ++ seq) := by
  unfold ljust
  have : ∀ k, List.replicate k ' ' ++ [' ', ' '] = ' ' :: ' ' :: List.replicate k ' ' := by
    intro k
    induction k with
    | zero => rfl
    | succ k ih => simp [List.replicate_succ, ih]
  simp only [List.append_assoc]
  rw [← List.append_assoc (List.replicate _ ' '), this]
  simp

theorem maxLen_const {α} (ls : List (List α)) (n : Nat) (h : ∀ l ∈ ls, l.length = n) (hne : ls ≠ []) : maxLen ls = n := by
  induction ls with
  | nil => exact absurd rfl hne
  | cons l rest ih =>
    cases rest with
    | nil => simp [maxLen, h l (by simp)]
    | cons l2 r2 =>
      have := ih (fun x hx => h x (by simp [hx])) (by simp)
      simp only [maxLen] at this ⊢
      rw [h l (by simp)]; omega

end DendroModel.C09.Aux

namespace DendroModel.C09
open DendroModel.C09.Aux

/-- label as written (`spaces_to_underscores`) and as read (`underscores_to_spaces`) -/
def wlab (spacesToUnderscores : Bool) (l : Str) : Str := if spacesToUnderscores then s2u l else l
def rlab (underscoresToSpaces : Bool) (l : Str) : Str := if underscoresToSpaces then u2s l else l

/-- a sequence the PHYLIP / FASTA writers emit by symbol: every symbol denotes itself and is not white space -/
def SeqOk (al : List St) (s : Str) : Prop := ∀ c ∈ s, lookup al c = some c ∧ isWs c = false

/-- label admissible for relaxed PHYLIP under the option pair: as written it is non-empty and free of white space,
and the reader's underscore option maps it back -/
def RelaxedLabelOk (w r : Bool) (l : Str) : Prop :=
  (∀ c ∈ wlab w l, isWs c = false) ∧ wlab w l ≠ [] ∧ rlab r (wlab w l) = l

/-- label admissible for strict PHYLIP: as written at most ten characters, non-empty, no white space at either end
(inner blanks are fine), and the reader's underscore option maps it back -/
def StrictLabelOk (w r : Bool) (l : Str) : Prop :=
  (wlab w l).length ≤ 10 ∧ wlab w l ≠ [] ∧ ((wlab w l).head?.map isWs).getD false = false ∧
  ((wlab w l).getLast?.map isWs).getD false = false ∧ rlab r (wlab w l) = l

theorem phTaxon_relaxed (cfg : PhCfg) (hs : cfg.strict = false) (w : Bool) (width : Nat) (l seq : Str)
    (hl : RelaxedLabelOk w cfg.underscoresToSpaces l) (hq : (seq.head?.map isBlank).getD false = false)
    (st : PhSt) (hf : phFind st.rows l = none) (hc : st.processed + 1 ≤ st.ntax) :
    phTaxon cfg st (ljust width (wlab w l) ++ [' ', ' '] ++ seq)
      = .ok ({ st with rows := st.rows ++ [(l, [])], processed := st.processed + 1 }, l, seq) := by
  obtain ⟨h1, h2, h3⟩ := hl
  have hsp := splitRun_two cfg.multispace (wlab w l) (List.replicate (width - (wlab w l).length) ' ' ++ seq)
    (fun c hc => isBlank_of_isWs (h1 c hc))
  rw [dropWhile_replicate_blank _ _ hq] at hsp
  have hstrip : strip (wlab w l) = wlab w l := strip_id _ (head_nows _ h1) (last_nows _ h1)
  have hne : (wlab w l).isEmpty = false := by
    cases h : wlab w l with
    | nil => exact absurd h h2
    | cons _ _ => rfl
  have hr : (if cfg.underscoresToSpaces = true then u2s (wlab w l) else wlab w l) = l := by
    simpa [rlab] using h3
  have hc' : ¬ (st.processed + 1 > st.ntax) := by omega
  unfold phTaxon
  simp only [hs, ljust_line, hsp]
  simp [hstrip, h2, hr, hf, hc']

theorem phTaxon_strict (cfg : PhCfg) (hs : cfg.strict = true) (w : Bool) (l seq : Str)
    (hl : StrictLabelOk w cfg.underscoresToSpaces l)
    (st : PhSt) (hf : phFind st.rows l = none) (hc : st.processed + 1 ≤ st.ntax) :
    phTaxon cfg st (ljust 10 ((wlab w l).take 10) ++ seq)
      = .ok ({ st with rows := st.rows ++ [(l, [])], processed := st.processed + 1 }, l, seq) := by
  obtain ⟨h0, h2, h4, h5, h3⟩ := hl
  obtain ⟨ha, hb⟩ := phylip_strict_line_roundtrip_partial (wlab w l) seq h0 h4 h5
  have hstrip : strip (wlab w l) = wlab w l := strip_id _ h4 h5
  have hne : (wlab w l).isEmpty = false := by
    cases h : wlab w l with
    | nil => exact absurd h h2
    | cons _ _ => rfl
  have hr : (if cfg.underscoresToSpaces = true then u2s (wlab w l) else wlab w l) = l := by
    simpa [rlab] using h3
  have hc' : ¬ (st.processed + 1 > st.ntax) := by omega
  unfold phTaxon
  simp only [hs, if_true, ha, hb]
  simp [hstrip, h2, hr, hf, hc']

end DendroModel.C09

namespace DendroModel.C09
open DendroModel.C09.Aux

theorem phSeq_ok (al : List St) (s : Str) (h : SeqOk al s) : phSeq al s = .ok s :=
  phylip_sequence_roundtrip al s (fun c hc => ⟨(h c hc).1, isBlank_of_isWs (h c hc).2⟩)

/-- reading the header the writer composes -/
theorem phRead_header (cfg : PhCfg) (n k : Nat) (body : List Str) (hn : n ≠ 0) (hk : k ≠ 0) (hb : 2 ≤ body.length) :
    phRead cfg ((natStr n ++ [' '] ++ natStr k) :: body) =
      match (if cfg.interleaved then phInterleaved cfg ⟨[], 0, n, k⟩ false (-1) body else phSequential cfg ⟨[], 0, n, k⟩ none body) with
      | .error e => .error e
      | .ok st => if st.processed != n then .error .count
                  else if st.rows.all (fun r => r.2.length == k) then .ok st.rows else .error .count := by
  have hw := wsWords_two (natStr n) (natStr k) (fun c hc => isWs_digit c (natStr_digits n c hc))
    (fun c hc => isWs_digit c (natStr_digits k c hc)) (natStr_ne_nil n) (natStr_ne_nil k)
  unfold phRead
  have hl : ¬ ((natStr n ++ [' '] ++ natStr k) :: body).length ≤ 2 := by simp; omega
  simp only [hl, if_false, hw, allDigits_natStr, digitsVal_natStr]
  simp [hn, hk]
  rfl

/-- **whole file, relaxed PHYLIP (sequential).**  For every matrix with at least one row, rows of one positive length,
symbols that denote themselves, labels distinct up to case and admissible for the option pair
(`spaces_to_underscores` on writing, `underscores_to_spaces` / `multispace_delimiter` on reading — any combination for
which `RelaxedLabelOk` holds: the label AS WRITTEN has no blank at all — for labels with single inner blanks under
`multispace_delimiter` see `phylip_multispace_roundtrip`), reading the lines the writer produces gives back the same taxa
in the same order with the same sequences.  Explicit hypotheses: at least one row, all rows of one positive length. -/
theorem phylip_relaxed_roundtrip (cfg : PhCfg) (w : Bool) (rows : List (Str × Str))
    (hs : cfg.strict = false) (hi : cfg.interleaved = false) (hne : rows ≠ [])
    (hlen : ∀ r ∈ rows, r.2.length = maxLen (rows.map (·.2))) (hpos : 0 < maxLen (rows.map (·.2)))
    (hnd : (rows.map (fun r => lower r.1)).Nodup)
    (hlab : ∀ r ∈ rows, RelaxedLabelOk w cfg.underscoresToSpaces r.1) (hseq : ∀ r ∈ rows, SeqOk cfg.al r.2) :
    phRead cfg (phWrite false w rows ++ [[]]) = .ok rows := by
  let ml := maxLen (rows.map (fun r => wlab w r.1))
  let mk : Str × Str → Str := fun r => ljust ml (wlab w r.1) ++ [' ', ' '] ++ r.2
  have hw : phWrite false w rows ++ [[]]
      = (natStr rows.length ++ [' '] ++ natStr (maxLen (rows.map (·.2)))) :: (rows.map mk ++ [[]]) := by
    simp [phWrite, mk, ml, wlab, Function.comp_def]
  have hrl : rows.length ≠ 0 := by cases rows with
    | nil => exact absurd rfl hne
    | cons _ _ => simp
  rw [hw, phRead_header cfg _ _ _ hrl (by omega) (by cases rows with
    | nil => exact absurd rfl hne
    | cons _ _ => simp)]
  have hnonempty : ∀ r ∈ rows, r.2 ≠ [] := by
    intro r hr h; have := hlen r hr; rw [h] at this; simp at this; omega
  have hfold := phSequential_rows cfg mk rows.length (maxLen (rows.map (·.2))) rows [] hlen hpos (by simp) (by simpa using hnd)
    (by
      intro r hr
      have hq := hseq r hr
      have hne' := hnonempty r hr
      constructor
      · apply rstrip_id
        rw [show mk r = (ljust ml (wlab w r.1) ++ [' ', ' ']) ++ r.2 from rfl, getLast?_append_ne _ _ hne']
        exact last_nows _ (fun c hc => (hq c hc).2)
      · intro h
        have := congrArg List.length h
        simp [mk] at this)
    (by
      intro r hr st hf hc
      exact phTaxon_relaxed cfg hs w ml r.1 r.2 (hlab r hr)
        (by have := head_nows r.2 (fun c hc => (hseq r hr c hc).2)
            cases h : r.2 with
            | nil => rfl
            | cons c cs => simp [isBlank_of_isWs ((hseq r hr) c (by simp [h])).2]) st hf hc)
    (fun r hr => phSeq_ok cfg.al r.2 (hseq r hr))
  simp only [hi, Bool.false_eq_true, if_false]
  have h0 : (⟨[], 0, rows.length, maxLen (rows.map (·.2))⟩ : PhSt) = ⟨[], ([] : List (Str × Str)).length, rows.length, maxLen (rows.map (·.2))⟩ := rfl
  rw [h0, hfold]
  have hall : (rows.all fun r => r.2.length == maxLen (rows.map (·.2))) = true := by
    simp only [List.all_eq_true, beq_iff_eq]; exact hlen
  simp [hall]

/-- **whole file, strict PHYLIP (sequential).**  Same statement for the ten-column layout, for labels of at most ten
characters without white space at either end (`StrictLabelOk`; inner blanks allowed). -/
theorem phylip_strict_roundtrip (cfg : PhCfg) (w : Bool) (rows : List (Str × Str))
    (hs : cfg.strict = true) (hi : cfg.interleaved = false) (hne : rows ≠ [])
    (hlen : ∀ r ∈ rows, r.2.length = maxLen (rows.map (·.2))) (hpos : 0 < maxLen (rows.map (·.2)))
    (hnd : (rows.map (fun r => lower r.1)).Nodup)
    (hlab : ∀ r ∈ rows, StrictLabelOk w cfg.underscoresToSpaces r.1) (hseq : ∀ r ∈ rows, SeqOk cfg.al r.2) :
    phRead cfg (phWrite true w rows ++ [[]]) = .ok rows := by
  let mk : Str × Str → Str := fun r => ljust 10 ((wlab w r.1).take 10) ++ r.2
  have hml : maxLen (rows.map (fun r => ljust 10 ((wlab w r.1).take 10))) = 10 := by
    apply maxLen_const
    · intro l hl
      obtain ⟨r, _, rfl⟩ := List.mem_map.mp hl
      simp [ljust]; omega
    · cases rows with
      | nil => exact absurd rfl hne
      | cons _ _ => simp
  have hid : ∀ x : Str, x.length = 10 → ljust 10 x = x := by
    intro x hx; simp [ljust, hx]
  have hlj : ∀ r : Str × Str, ljust 10 (ljust 10 ((wlab w r.1).take 10)) = ljust 10 ((wlab w r.1).take 10) := by
    intro r
    apply hid
    simp [ljust]; omega
  have hw : phWrite true w rows ++ [[]]
      = (natStr rows.length ++ [' '] ++ natStr (maxLen (rows.map (·.2)))) :: (rows.map mk ++ [[]]) := by
    show ((natStr rows.length ++ [' '] ++ natStr (maxLen (rows.map (·.2)))) ::
      rows.map (fun r => ljust (maxLen (rows.map (fun r => ljust 10 ((wlab w r.1).take 10))))
        (ljust 10 ((wlab w r.1).take 10)) ++ [] ++ r.2)) ++ [[]] = _
    rw [hml]
    have : rows.map (fun r => ljust 10 (ljust 10 ((wlab w r.1).take 10)) ++ [] ++ r.2) = rows.map mk := by
      apply List.map_congr_left
      intro r _
      rw [hlj]; simp [mk]
    rw [this]; rfl
  have hrl : rows.length ≠ 0 := by cases rows with
    | nil => exact absurd rfl hne
    | cons _ _ => simp
  rw [hw, phRead_header cfg _ _ _ hrl (by omega) (by cases rows with
    | nil => exact absurd rfl hne
    | cons _ _ => simp)]
  have hnonempty : ∀ r ∈ rows, r.2 ≠ [] := by
    intro r hr h; have := hlen r hr; rw [h] at this; simp at this; omega
  have hfold := phSequential_rows cfg mk rows.length (maxLen (rows.map (·.2))) rows [] hlen hpos (by simp) (by simpa using hnd)
    (by
      intro r hr
      have hq := hseq r hr
      have hne' := hnonempty r hr
      constructor
      · apply rstrip_id
        rw [show mk r = ljust 10 ((wlab w r.1).take 10) ++ r.2 from rfl, getLast?_append_ne _ _ hne']
        exact last_nows _ (fun c hc => (hq c hc).2)
      · intro h
        have := congrArg List.length h
        simp [mk] at this
        exact hne' this.2)
    (fun r hr st hf hc => phTaxon_strict cfg hs w r.1 r.2 (hlab r hr) st hf hc)
    (fun r hr => phSeq_ok cfg.al r.2 (hseq r hr))
  simp only [hi, Bool.false_eq_true, if_false]
  have h0 : (⟨[], 0, rows.length, maxLen (rows.map (·.2))⟩ : PhSt) = ⟨[], ([] : List (Str × Str)).length, rows.length, maxLen (rows.map (·.2))⟩ := rfl
  rw [h0, hfold]
  have hall : (rows.all fun r => r.2.length == maxLen (rows.map (·.2))) = true := by
    simp only [List.all_eq_true, beq_iff_eq]; exact hlen
  simp [hall]

end DendroModel.C09


/-! ## whole-file FASTA -/

namespace DendroModel.C09.Aux

theorem rstrip_id0 (l : Str) (h : (l.getLast?.map isWs).getD false = false) : rstrip l = l := by
  have := rstrip_pad l 0 h
  simpa using this

theorem strip_id0 (l : Str) (h1 : (l.head?.map isWs).getD false = false) (h2 : (l.getLast?.map isWs).getD false = false) :
    strip l = l := by
  unfold strip; rw [lstrip_id l h1, rstrip_id0 l h2]

theorem strip_id' (l : Str) (h : ∀ c ∈ l, isWs c = false) : strip l = l := by
  apply strip_id0
  · cases l with
    | nil => rfl
    | cons c cs => simp [h c (by simp)]
  · cases hl : l.getLast? with
    | none => rfl
    | some c => simp [h c (List.mem_of_getLast? hl)]

theorem splitLines_ne_nil (s : Str) : splitLines s ≠ [] := by
  induction s with
  | nil => simp [splitLines]
  | cons c cs ih =>
    unfold splitLines
    cases h : splitLines cs with
    | nil => simp
    | cons l ls => by_cases hc : c = '\n' <;> simp [hc]

/-- prepend characters to the first line -/
def preFirst (pre : Str) : List Str → List Str
  | [] => [pre]
  | l :: ls => (pre ++ l) :: ls

theorem splitLines_cons_nl (s : Str) : splitLines ('\n' :: s) = [] :: splitLines s := by
  rw [splitLines]
  cases h : splitLines s with
  | nil => exact absurd h (splitLines_ne_nil s)
  | cons l ls => simp

theorem splitLines_cons_ne (c : Char) (s : Str) (hc : c ≠ '\n') : splitLines (c :: s) = preFirst [c] (splitLines s) := by
  rw [splitLines]
  cases h : splitLines s with
  | nil => exact absurd h (splitLines_ne_nil s)
  | cons l ls => simp [hc, preFirst]

theorem preFirst_preFirst (a b : Str) (ls : List Str) (h : ls ≠ []) : preFirst a (preFirst b ls) = preFirst (a ++ b) ls := by
  cases ls with
  | nil => exact absurd rfl h
  | cons l r => simp [preFirst]

theorem splitLines_line (a rest : Str) (h : ∀ c ∈ a, c ≠ '\n') : splitLines (a ++ '\n' :: rest) = a :: splitLines rest := by
  induction a with
  | nil => simp [splitLines_cons_nl]
  | cons c cs ih =>
    rw [List.cons_append, splitLines_cons_ne c _ (h c (by simp)), ih (fun x hx => h x (by simp [hx]))]
    simp [preFirst]

theorem phSet_same (rows : List (Str × Str)) (l x : Str) (h : phFind rows l = some x) : phSet rows l x = rows := by
  induction rows with
  | nil => simp [phFind] at h
  | cons p ps ih =>
    unfold phFind at h
    by_cases hp : (lower p.1 == lower l) = true
    · simp [List.find?, hp] at h
      simp [phSet, hp, ← h]
    · have hp' : (lower p.1 == lower l) = false := by simpa using hp
      have h' : phFind ps l = some x := by unfold phFind; simpa [List.find?, hp'] using h
      simp [phSet, hp', ih h']

theorem phFind_phSet (rows : List (Str × Str)) (l x y : Str) (h : phFind rows l = some x) :
    phFind (phSet rows l y) l = some y := by
  induction rows with
  | nil => simp [phFind] at h
  | cons p ps ih =>
    unfold phFind at h
    by_cases hp : (lower p.1 == lower l) = true
    · simp [phSet, hp, phFind, List.find?]
    · have hp' : (lower p.1 == lower l) = false := by simpa using hp
      have h' : phFind ps l = some x := by unfold phFind; simpa [List.find?, hp'] using h
      have := ih h'
      unfold phFind at this ⊢
      simp [phSet, hp', List.find?, this]

theorem phSet_phSet (rows : List (Str × Str)) (l x y : Str) : phSet (phSet rows l x) l y = phSet rows l y := by
  induction rows with
  | nil => simp [phSet]
  | cons p ps ih =>
    by_cases hp : (lower p.1 == lower l) = true
    · simp [phSet, hp]
    · have hp' : (lower p.1 == lower l) = false := by simpa using hp
      simp [phSet, hp', ih]

end DendroModel.C09.Aux

namespace DendroModel.C09
open DendroModel.C09.Aux

/-- a symbol the FASTA writer emits and the reader takes back: denotes itself, not white space, not `>` -/
def FaSymOk (al : List St) (c : Char) : Prop := lookup al c = some c ∧ isWs c = false ∧ c ≠ '>'

/-- a FASTA name: survives `strip`, has no line break -/
def FaNameOk (n : Str) : Prop :=
  (n.head?.map isWs).getD false = false ∧ (n.getLast?.map isWs).getD false = false ∧ ∀ c ∈ n, c ≠ '\n'

end DendroModel.C09

namespace DendroModel.C09.Aux
open DendroModel.C09

theorem faSeq_ok (al : List St) (s : Str) (h : ∀ c ∈ s, FaSymOk al c) : faSeq al s = .ok s := by
  induction s with
  | nil => rfl
  | cons c cs ih =>
    have hc := h c (by simp)
    simp [faSeq, hc.1, hc.2.1, ih (fun x hx => h x (by simp [hx]))]

/-- one sequence line (possibly empty) of the current record -/
theorem faRead_line (al : List St) (rows : List (Str × Str)) (lab acc pre : Str) (rest : List Str)
    (hf : phFind rows lab = some acc) (hp : ∀ c ∈ pre, FaSymOk al c) :
    faRead al rows (some lab) (pre :: rest) = faRead al (phSet rows lab (acc ++ pre)) (some lab) rest := by
  have hstrip : strip pre = pre :=
    strip_id' pre (fun c hc => (hp c hc).2.1)
  cases pre with
  | nil =>
    rw [faRead]
    simp [strip, lstrip, rstrip, phSet_same rows lab acc hf]
  | cons c cs =>
    have hc := hp c (by simp)
    rw [faRead]
    simp only [hstrip]
    have hne : (c :: cs).isEmpty = false := rfl
    simp only [hne, Bool.false_eq_true, if_false]
    split
    · rename_i name heq
      simp at heq
      exact absurd heq.1 hc.2.2
    · simp [faSeq_ok al (c :: cs) hp, hf]

end DendroModel.C09.Aux

namespace DendroModel.C09.Aux
open DendroModel.C09

def symbolsOf (t : Str) : Str := t.filter (fun c => c != '\n')

theorem isWs_nl_of_ok {al : List St} {c : Char} (h : FaSymOk al c) : c ≠ '\n' := by
  intro he; subst he
  have := h.2.1
  simp [isWs] at this

/-- the lines of a block of sequence text (symbols and line breaks) of the current record, up to its closing line break -/
theorem faRead_block (al : List St) (lab : Str) (u : Str) :
    ∀ (t : Str) (rows : List (Str × Str)) (acc pre : Str),
      (∀ c ∈ t, c = '\n' ∨ FaSymOk al c) → (∀ c ∈ pre, FaSymOk al c) → phFind rows lab = some acc →
      faRead al rows (some lab) (preFirst pre (splitLines (t ++ '\n' :: u)))
        = faRead al (phSet rows lab (acc ++ pre ++ symbolsOf t)) (some lab) (splitLines u) := by
  intro t
  induction t with
  | nil =>
    intro rows acc pre _ hp hf
    simp only [List.nil_append, splitLines_cons_nl, preFirst, List.append_nil, symbolsOf, List.filter_nil]
    exact faRead_line al rows lab acc pre _ hf hp
  | cons c cs ih =>
    intro rows acc pre ht hp hf
    rcases ht c (by simp) with hc | hc
    · subst hc
      simp only [List.cons_append, splitLines_cons_nl, preFirst, List.append_nil]
      rw [faRead_line al rows lab acc pre _ hf hp]
      have hcs := splitLines_ne_nil (cs ++ '\n' :: u)
      have : splitLines (cs ++ '\n' :: u) = preFirst [] (splitLines (cs ++ '\n' :: u)) := by
        cases h : splitLines (cs ++ '\n' :: u) with
        | nil => exact absurd h hcs
        | cons l ls => simp [preFirst]
      rw [this, ih (phSet rows lab (acc ++ pre)) (acc ++ pre) [] (fun x hx => ht x (by simp [hx])) (by simp)
        (phFind_phSet rows lab acc _ hf), phSet_phSet]
      simp [symbolsOf]
    · have hne := isWs_nl_of_ok hc
      simp only [List.cons_append]
      rw [splitLines_cons_ne c _ hne, preFirst_preFirst _ _ _ (splitLines_ne_nil _)]
      rw [ih rows acc (pre ++ [c]) (fun x hx => ht x (by simp [hx]))
        (by intro x hx; simp at hx; rcases hx with hx | hx; exact hp x hx; exact hx ▸ hc) hf]
      have : symbolsOf (c :: cs) = c :: symbolsOf cs := by simp [symbolsOf, hne]
      simp [this]

theorem wrap70_block (al : List St) (s : Str) (h : ∀ c ∈ s, FaSymOk al c) :
    ∀ col, (∀ c ∈ wrap70 col s, c = '\n' ∨ FaSymOk al c) ∧ symbolsOf (wrap70 col s) = s := by
  induction s with
  | nil => intro col; simp [wrap70, symbolsOf]
  | cons c cs ih =>
    intro col
    have hc := h c (by simp)
    have hne := isWs_nl_of_ok hc
    by_cases h70 : col = 70
    · have e : wrap70 col (c :: cs) = '\n' :: c :: wrap70 1 cs := by simp [wrap70, h70]
      obtain ⟨h1, h2⟩ := ih (fun x hx => h x (by simp [hx])) 1
      rw [e]
      refine ⟨?_, ?_⟩
      · intro x hx
        simp at hx
        rcases hx with hx | hx | hx
        · exact Or.inl hx
        · exact Or.inr (hx ▸ hc)
        · exact h1 x hx
      · simp [symbolsOf, hne] at h2 ⊢; exact h2
    · have e : wrap70 col (c :: cs) = c :: wrap70 (col + 1) cs := by simp [wrap70, h70]
      obtain ⟨h1, h2⟩ := ih (fun x hx => h x (by simp [hx])) (col + 1)
      rw [e]
      refine ⟨?_, ?_⟩
      · intro x hx
        simp at hx
        rcases hx with hx | hx
        · exact Or.inr (hx ▸ hc)
        · exact h1 x hx
      · simp [symbolsOf, hne] at h2 ⊢; exact h2

end DendroModel.C09.Aux

namespace DendroModel.C09
open DendroModel.C09.Aux

/-- the records of the writer's text, read one after the other -/
theorem fasta_fold (al : List St) : ∀ (R P : List (Str × Str)) (cur : Option Str),
    ((P ++ R).map (fun r => lower r.1)).Nodup →
    (∀ r ∈ R, FaNameOk r.1 ∧ r.2 ≠ [] ∧ ∀ c ∈ r.2, FaSymOk al c) →
    (∀ lab, cur = some lab → ∃ q, phFind P lab = some q ∧ q ≠ []) →
    faRead al P cur (splitLines (faWrite R)) = .ok (P ++ R) := by
  intro R
  induction R with
  | nil =>
    intro P cur _ _ _
    simp [faWrite, splitLines, faRead, strip, lstrip, rstrip]
  | cons r rs ih =>
    intro P cur hnd hok hcur
    obtain ⟨⟨hn1, hn2, hn3⟩, hne, hsym⟩ := hok r (by simp)
    have hpre : ∀ p ∈ P, (lower p.1 == lower r.1) = false := by
      intro p hp
      simp only [List.map_append, List.map_cons] at hnd
      have := (List.nodup_append.mp hnd).2.2 (lower p.1) (List.mem_map.mpr ⟨p, hp, rfl⟩) (lower r.1) (by simp)
      simpa using this
    have hfw : faWrite (r :: rs) = ('>' :: r.1) ++ '\n' :: (wrap70 0 r.2 ++ '\n' :: ('\n' :: faWrite rs)) := by
      simp [faWrite]
    have hhead : ∀ c ∈ ('>' :: r.1), c ≠ '\n' := by
      intro c hc
      simp at hc
      rcases hc with hc | hc
      · subst hc; decide
      · exact hn3 c hc
    rw [hfw, splitLines_line _ _ hhead]
    -- the header line
    have hstrip : strip ('>' :: r.1) = '>' :: r.1 := by
      apply strip_id0
      · simp [isWs]
      · cases hl : r.1 with
        | nil => simp [isWs]
        | cons c cs =>
          have : ('>' :: c :: cs).getLast? = (c :: cs).getLast? := by simp [List.getLast?_cons_cons]
          rw [this, ← hl]; exact hn2
    have hsn : strip r.1 = r.1 := strip_id0 _ hn1 hn2
    have hfind : phFind P r.1 = none := by
      unfold phFind
      rw [List.find?_eq_none.mpr (by intro p hp; simp [hpre p hp])]; rfl
    have hcheck : ((cur.bind (phFind P)).map (·.isEmpty) == some true) = false := by
      cases cur with
      | none => rfl
      | some lab =>
        obtain ⟨q, hq, hq'⟩ := hcur lab rfl
        cases q with
        | nil => exact absurd rfl hq'
        | cons _ _ => simp [hq]
    have hstep1 : faRead al P cur (('>' :: r.1) :: splitLines (wrap70 0 r.2 ++ '\n' :: ('\n' :: faWrite rs)))
        = faRead al (P ++ [(r.1, [])]) (some r.1) (splitLines (wrap70 0 r.2 ++ '\n' :: ('\n' :: faWrite rs))) := by
      conv => lhs; unfold faRead
      simp only [hstrip]
      simp [hsn, hfind]
      intro h
      exfalso
      cases cur with
      | none => simp at h
      | some lab =>
        obtain ⟨q, hq, hq'⟩ := hcur lab rfl
        cases q with
        | nil => exact hq' rfl
        | cons _ _ => simp [hq] at h
    rw [hstep1]
    -- the sequence block
    obtain ⟨hb1, hb2⟩ := wrap70_block al r.2 hsym 0
    have hpf : splitLines (wrap70 0 r.2 ++ '\n' :: ('\n' :: faWrite rs))
        = preFirst [] (splitLines (wrap70 0 r.2 ++ '\n' :: ('\n' :: faWrite rs))) := by
      cases h : splitLines (wrap70 0 r.2 ++ '\n' :: ('\n' :: faWrite rs)) with
      | nil => exact absurd h (splitLines_ne_nil _)
      | cons l ls => simp [preFirst]
    have hlast : phFind (P ++ [(r.1, [])]) r.1 = some [] := by
      have : ∀ (rows : List (Str × Str)), (∀ p ∈ rows, (lower p.1 == lower r.1) = false) →
          phFind (rows ++ [(r.1, ([] : Str))]) r.1 = some [] := by
        intro rows h
        induction rows with
        | nil => simp [phFind]
        | cons p ps ih2 =>
          have hp := h p (by simp)
          have := ih2 (fun q hq => h q (by simp [hq]))
          unfold phFind at this ⊢
          simp only [List.cons_append, List.find?_cons, hp]
          exact this
      exact this P hpre
    have hsetlast : phSet (P ++ [(r.1, [])]) r.1 r.2 = P ++ [r] := by
      have : ∀ (rows : List (Str × Str)), (∀ p ∈ rows, (lower p.1 == lower r.1) = false) →
          phSet (rows ++ [(r.1, ([] : Str))]) r.1 r.2 = rows ++ [r] := by
        intro rows h
        induction rows with
        | nil => simp [phSet]
        | cons p ps ih2 =>
          have hp := h p (by simp)
          simp [phSet, hp, ih2 (fun q hq => h q (by simp [hq]))]
      exact this P hpre
    rw [hpf, faRead_block al r.1 ('\n' :: faWrite rs) (wrap70 0 r.2) (P ++ [(r.1, [])]) [] [] hb1 (by simp) hlast]
    simp only [List.nil_append, List.append_nil, hb2, hsetlast, splitLines_cons_nl]
    -- the blank line closing the record
    have hblank : faRead al (P ++ [r]) (some r.1) ([] :: splitLines (faWrite rs))
        = faRead al (P ++ [r]) (some r.1) (splitLines (faWrite rs)) := by
      rw [faRead]; simp [strip, lstrip, rstrip]
    rw [hblank, ih (P ++ [r]) (some r.1) (by simpa using hnd) (fun x hx => hok x (by simp [hx]))
      (by
        intro lab hl
        cases hl
        refine ⟨r.2, ?_, hne⟩
        have := phFind_phSet (P ++ [(r.1, [])]) r.1 [] r.2 hlast
        rwa [hsetlast] at this)]
    simp

/-- **whole file, FASTA.**  For every matrix whose names survive `strip` and have no line break, are distinct up to case,
and whose sequences are non-empty and made of symbols that denote themselves (not white space, not `>`), reading the
text the writer produces (names on `>` lines, sequences wrapped every 70 symbols, two line breaks after each record)
line by line gives back the same taxa in the same order with the same sequences. -/
theorem fasta_roundtrip (al : List St) (rows : List (Str × Str))
    (hnd : (rows.map (fun r => lower r.1)).Nodup)
    (hok : ∀ r ∈ rows, FaNameOk r.1 ∧ r.2 ≠ [] ∧ ∀ c ∈ r.2, FaSymOk al c) :
    faRead al [] none (splitLines (faWrite rows)) = .ok rows := by
  have := fasta_fold al rows [] none (by simpa using hnd) hok (by intro lab h; cases h)
  simpa using this

end DendroModel.C09

namespace DendroModel.C09
open DendroModel.Alphabets
/-! ### non-vacuity of the whole-file statements -/
example : RelaxedLabelOk true true "Homo sapiens".toList := by unfold RelaxedLabelOk; decide
example : RelaxedLabelOk false false "t1".toList := by unfold RelaxedLabelOk; decide
example : StrictLabelOk false false "Mus m 2".toList := by unfold StrictLabelOk; decide
example : SeqOk (mkStates dna) "AC-?N".toList := by unfold SeqOk; decide
example : FaNameOk "a b>c".toList ∧ ∀ c ∈ "ACGT-".toList, FaSymOk (mkStates dna) c := by
  unfold FaNameOk FaSymOk; decide
example : (phRead ⟨mkStates dna, false, false, true, true⟩
    (phWrite false true [("Homo sapiens".toList, "AC-".toList), ("t2".toList, "?NR".toList)] ++ [[]])).toOption
    = some [("Homo sapiens".toList, "AC-".toList), ("t2".toList, "?NR".toList)] := by decide
example : (faRead (mkStates dna) [] none (splitLines (faWrite [("a b".toList, "ACGT".toList), ("c".toList, "-".toList)]))).toOption
    = some [("a b".toList, "ACGT".toList), ("c".toList, "-".toList)] := by decide
end DendroModel.C09

/-! ## STANDARD FORMAT for arbitrary symbol strings -/

namespace DendroModel.C09.Aux

def tokStep (c : Char) (r : List Str) : List Str :=
  if isWs c then [] :: r
  else if captured.contains c then [] :: [c] :: [] :: r
  else match r with
    | [] => [[c]]
    | t :: ts => (c :: t) :: ts

theorem tokens_foldr (s : Str) : tokens s = s.foldr tokStep [] := by
  induction s with
  | nil => rfl
  | cons c cs ih => simp only [tokens, List.foldr_cons, tokStep, ih] <;> rfl

theorem tokens_append (a b : Str) : tokens (a ++ b) = a.foldr tokStep (tokens b) := by
  rw [tokens_foldr, List.foldr_append, ← tokens_foldr]

theorem foldr_plain (w : Str) (t : Str) (ts : List Str) (h : ∀ c ∈ w, isWs c = false ∧ captured.contains c = false) :
    w.foldr tokStep (t :: ts) = (w ++ t) :: ts := by
  induction w with
  | nil => rfl
  | cons c cs ih =>
    have hc := h c (by simp)
    have h2 : c ∉ captured := by simpa using hc.2
    simp [List.foldr, ih (fun x hx => h x (by simp [hx])), tokStep, hc.1, h2]

theorem mem_insertC (x c : Char) (l : List Char) : x ∈ insertC c l → x = c ∨ x ∈ l := by
  induction l with
  | nil => simp [insertC]
  | cons d ds ih =>
    unfold insertC
    split
    · simp
    · split
      · intro h; exact Or.inr h
      · intro h
        simp at h
        rcases h with h | h
        · exact Or.inr (by simp [h])
        · rcases ih h with h | h
          · exact Or.inl h
          · exact Or.inr (by simp [h])

theorem mem_canonSet (x : Char) (l : List Char) : x ∈ canonSet l → x ∈ l := by
  induction l with
  | nil => simp [canonSet]
  | cons c cs ih =>
    intro h
    unfold canonSet at h
    simp only [List.foldr_cons] at h
    rcases mem_insertC x c _ h with h | h
    · simp [h]
    · exact List.mem_cons_of_mem _ (ih h)

theorem insertC_ne_nil (c : Char) (l : List Char) : insertC c l ≠ [] := by
  cases l with
  | nil => simp [insertC]
  | cons d ds =>
    unfold insertC
    split
    · simp
    · split <;> simp

end DendroModel.C09.Aux

namespace DendroModel.C09
open DendroModel.C09.Aux DendroModel.Alphabets

/-- symbols a STANDARD alphabet can declare in `SYMBOLS="…"`: not white space, not a NEXUS punctuation character, and
unchanged by upper-casing (the reader upper-cases the FORMAT statement) -/
def SymsOk (syms : Str) : Prop := ∀ c ∈ syms, isWs c = false ∧ captured.contains c = false ∧ c.toUpper = c

theorem format_standard_text (syms : Str) :
    "FORMAT ".toList ++ formatOf "standard".toList (specStd syms (some '-') (some '?')) ++ [';']
      = "FORMAT DATATYPE=STANDARD SYMBOLS=\"".toList ++ (canonSet (syms ++ ['-']) ++ "\" MISSING=?;".toList) := by
  have hfind : formatTerms.find? (fun p => p.1.toList == "standard".toList) = none := by decide
  unfold formatOf
  rw [hfind]
  simp [specStd, fundAll]

theorem parse_symbols_text (S : Str)
    (hS : ∀ c ∈ S, isWs c = false ∧ captured.contains c = false ∧ c.toUpper = c) (hne : S ≠ []) :
    parseFormatText ("FORMAT DATATYPE=STANDARD SYMBOLS=\"".toList ++ (S ++ "\" MISSING=?;".toList))
      = some ⟨"standard".toList, S, ['-'], ['?'], ['.'], false⟩ := by
  have hup : upper S = S := by
    unfold upper
    clear hne
    induction S with
    | nil => rfl
    | cons c cs ih => simp [(hS c (by simp)).2.2, ih (fun x hx => hS x (by simp [hx]))]
  have hupper : upper ("FORMAT DATATYPE=STANDARD SYMBOLS=\"".toList ++ (S ++ "\" MISSING=?;".toList))
      = "FORMAT DATATYPE=STANDARD SYMBOLS=\"".toList ++ (S ++ "\" MISSING=?;".toList) := by
    have h1 : upper "FORMAT DATATYPE=STANDARD SYMBOLS=\"".toList = "FORMAT DATATYPE=STANDARD SYMBOLS=\"".toList := by decide
    have h2 : upper "\" MISSING=?;".toList = "\" MISSING=?;".toList := by decide
    have : ∀ a b : Str, upper (a ++ b) = upper a ++ upper b := by intro a b; simp [upper]
    rw [this, this, h1, h2, hup]
  have htail : tokens "\" MISSING=?;".toList
      = [[], ['"'], [], [], "MISSING".toList, ['='], [], "?".toList, [';'], []] := by decide
  have htok : toks ("FORMAT DATATYPE=STANDARD SYMBOLS=\"".toList ++ (S ++ "\" MISSING=?;".toList))
      = ["FORMAT".toList, "DATATYPE".toList, ['='], "STANDARD".toList, "SYMBOLS".toList, ['='], ['"'], S, ['"'],
         "MISSING".toList, ['='], "?".toList, [';']] := by
    unfold toks
    rw [tokens_append, tokens_append, htail, foldr_plain S _ _ (fun c hc => ⟨(hS c hc).1, (hS c hc).2.1⟩)]
    have hSe : S.isEmpty = false := by
      cases S with
      | nil => exact absurd rfl hne
      | cons _ _ => rfl
    simp [List.foldr, tokStep, isWs, captured, hSe]
  have hq : (S == ['"']) = false := by
    cases S with
    | nil => rfl
    | cons c cs =>
      have := (hS c (by simp)).2.1
      have hc : c ≠ '"' := by intro he; subst he; simp [captured] at this
      simp [hc]
  have hinf : isInfix S [] = false := by
    cases S with
    | nil => exact absurd rfl hne
    | cons c cs => simp [isInfix]
  unfold parseFormatText
  rw [hupper, htok]
  have hloop : ∀ rest : List Str, symbolsLoop [] (S :: ['"'] :: rest) = some (S, rest) := by
    intro rest
    simp [symbolsLoop, hq, hinf]
  have step1 : parseFormat 14 Fmt.init
      ["FORMAT".toList, "DATATYPE".toList, ['='], "STANDARD".toList, "SYMBOLS".toList, ['='], ['"'], S, ['"'],
         "MISSING".toList, ['='], "?".toList, [';']]
      = match symbolsLoop [] (S :: ['"'] :: ["MISSING".toList, ['='], "?".toList, [';']]) with
        | some (s, r) => parseFormat 11 { Fmt.init with dataType := "standard".toList, symbols := s } r
        | none => none := rfl
  show parseFormat 14 Fmt.init _ = _
  rw [step1, hloop]
  rfl

/-- **STANDARD FORMAT, arbitrary symbol strings.**  For every symbol string of a custom standard alphabet (`SymsOk`), the
FORMAT statement the writer composes (`DATATYPE=STANDARD SYMBOLS="<symbols and gap>" MISSING=?`) is tokenised and parsed
by `_parse_format_statement` to exactly: type `standard`, the same symbol set, gap `-`, missing `?`, match character
`.`, not interleaved.  This is the PARSING half, for symbols unchanged by upper-casing (`SymsOk`; a lower-case symbol is
upper-cased by the reader, i.e. content changes — outside the hypothesis).  That every symbol of the rebuilt alphabet
denotes itself is `standard_symbols_denote_themselves`. -/
theorem format_standard_roundtrip (syms : Str) (h : SymsOk syms) :
    parseFormatText ("FORMAT ".toList ++ formatOf "standard".toList (specStd syms (some '-') (some '?')) ++ [';'])
      = some ⟨"standard".toList, canonSet (syms ++ ['-']), ['-'], ['?'], ['.'], false⟩ := by
  have hS : ∀ c ∈ canonSet (syms ++ ['-']), isWs c = false ∧ captured.contains c = false ∧ c.toUpper = c := by
    intro c hc
    have := mem_canonSet c _ hc
    simp only [List.mem_append, List.mem_singleton] at this
    rcases this with hm | hm
    · exact h c hm
    · subst hm; decide
  have hne : canonSet (syms ++ ['-']) ≠ [] := by
    cases syms with
    | nil => simp [canonSet, insertC]
    | cons c cs => simp only [canonSet, List.cons_append, List.foldr_cons]; exact insertC_ne_nil _ _
  rw [format_standard_text]
  exact parse_symbols_text _ hS hne

end DendroModel.C09

namespace DendroModel.C09
example : SymsOk "01AB#".toList := by unfold SymsOk; decide
/-- `convert`: what one format's reader returns, written in another format and read again, is the original content.
By construction a corollary: each hop returns the identical `rows` value, so this is the bind-composition of
`fasta_roundtrip` and `phylip_relaxed_roundtrip` under the union of their hypotheses; the model has no matrix object,
alphabet identity or construction route, so "however the matrix was built" is NOT expressed here (oracle only). -/
theorem convert_fasta_phylip_roundtrip (cfg : PhCfg) (w : Bool) (rows : List (Str × Str))
    (hs : cfg.strict = false) (hi : cfg.interleaved = false) (hne : rows ≠ [])
    (hlen : ∀ r ∈ rows, r.2.length = maxLen (rows.map (·.2))) (hpos : 0 < maxLen (rows.map (·.2)))
    (hnd : (rows.map (fun r => lower r.1)).Nodup)
    (hfa : ∀ r ∈ rows, FaNameOk r.1 ∧ r.2 ≠ [] ∧ ∀ c ∈ r.2, FaSymOk cfg.al c)
    (hlab : ∀ r ∈ rows, RelaxedLabelOk w cfg.underscoresToSpaces r.1) :
    (faRead cfg.al [] none (splitLines (faWrite rows))).bind (fun got => phRead cfg (phWrite false w got ++ [[]])) = .ok rows ∧
    (phRead cfg (phWrite false w rows ++ [[]])).bind (fun got => faRead cfg.al [] none (splitLines (faWrite got))) = .ok rows := by
  have hseq : ∀ r ∈ rows, SeqOk cfg.al r.2 := fun r hr c hc => ⟨((hfa r hr).2.2 c hc).1, ((hfa r hr).2.2 c hc).2.1⟩
  have h1 := fasta_roundtrip cfg.al rows hnd hfa
  have h2 := phylip_relaxed_roundtrip cfg w rows hs hi hne hlen hpos hnd hlab hseq
  constructor
  · rw [h1]; exact h2
  · rw [h2]; exact h1
end DendroModel.C09

/-! ## conversion chains -/

namespace DendroModel.C09
open DendroModel.C09.Aux DendroModel.Alphabets

/-- a matrix of symbols as cells, and a cell matrix as text rows (what the driver prints) -/
def symM (rows : List (Str × Str)) : Matrix := rows.map (fun r => (r.1, r.2.map Cell.sym))
def toRows (m : Matrix) : List (Str × Str) := m.map (fun r => (r.1, renderCells r.2))

theorem renderCells_sym (s : Str) : renderCells (s.map Cell.sym) = s := by
  induction s with
  | nil => rfl
  | cons c cs ih => simp [renderCells, renderCell, ih]

theorem toRows_symM (rows : List (Str × Str)) : toRows (symM rows) = rows := by
  induction rows with
  | nil => rfl
  | cons r rs ih =>
    simp only [symM, toRows, List.map_cons, List.map_map] at ih ⊢
    simp [renderCells_sym, ih]

theorem normM_symM (rows : List (Str × Str)) : normM (symM rows) = symM rows := by
  simp [normM, symM, readsAs, Function.comp_def]

/-- **conversion chain NEXUS → PHYLIP → FASTA.**  A symbol matrix written as NEXUS, read, written as relaxed PHYLIP,
read, written as FASTA and read is the matrix it started as (each hop under the admissibility conditions of its
format: the conversion "never changes its content").  A corollary by composition, for symbol-only rows (`symM`), one
shared alphabet (`pcfg.al = ncfg.al`), equal-length non-empty rows, wrap=True; construction routes are not modelled. -/
theorem convert_nexus_phylip_fasta_roundtrip (ncfg : NxCfg) (pcfg : PhCfg) (w : Bool) (rows : List (Str × Str))
    (hal : pcfg.al = ncfg.al) (hni : ncfg.interleave = false) (hnc : ncfg.nchar = maxLen (rows.map (·.2)))
    (hnt : ncfg.ntax = 0 ∨ rows.length ≤ ncfg.ntax)
    (hs : pcfg.strict = false) (hi : pcfg.interleaved = false) (hne : rows ≠ [])
    (hlen : ∀ r ∈ rows, r.2.length = maxLen (rows.map (·.2))) (hpos : 0 < maxLen (rows.map (·.2)))
    (hnd : (rows.map (fun r => lower r.1)).Nodup)
    (hfa : ∀ r ∈ rows, FaNameOk r.1 ∧ r.2 ≠ [] ∧ ∀ c ∈ r.2, FaSymOk ncfg.al c)
    (hnx : ∀ r ∈ rows, ∀ c ∈ r.2, c ≠ '{' ∧ c ≠ '(' ∧ c ≠ ';' ∧ c ∉ ncfg.matchChars)
    (hlab : ∀ r ∈ rows, RelaxedLabelOk w pcfg.underscoresToSpaces r.1) :
    (((nxRead ncfg (rows.map (·.1)) (nxRows (symM rows))).map toRows).bind
        (fun a => phRead pcfg (phWrite false w a ++ [[]]))).bind
        (fun b => faRead ncfg.al [] none (splitLines (faWrite b))) = .ok rows := by
  have hcell : ∀ r ∈ symM rows, ∀ c ∈ r.2, CellOk ncfg.al ncfg.matchChars c := by
    intro r hr c hc
    simp only [symM, List.mem_map] at hr
    obtain ⟨q, hq, rfl⟩ := hr
    simp only [List.mem_map] at hc
    obtain ⟨ch, hch, rfl⟩ := hc
    have h1 := (hfa q hq).2.2 ch hch
    have h2 := hnx q hq ch hch
    exact ⟨h1.1, h1.2.1, h2.1, h2.2.1, h2.2.2.1, h2.2.2.2⟩
  have hN := (nexus_matrix_roundtrip ncfg (symM rows) hni (by simpa [symM, Function.comp_def] using hnd) hcell
    (by intro r hr
        simp only [symM, List.mem_map] at hr
        obtain ⟨q, hq, rfl⟩ := hr
        simp [hlen q hq, hnc])
    (by simpa [symM] using hnt)).1
  have hlabels : (symM rows).map (·.1) = rows.map (·.1) := by simp [symM, Function.comp_def]
  rw [hlabels, normM_symM] at hN
  have hseq : ∀ r ∈ rows, SeqOk pcfg.al r.2 := by
    intro r hr c hc
    rw [hal]
    exact ⟨((hfa r hr).2.2 c hc).1, ((hfa r hr).2.2 c hc).2.1⟩
  have hP := phylip_relaxed_roundtrip pcfg w rows hs hi hne hlen hpos hnd hlab hseq
  have hF := fasta_roundtrip ncfg.al rows hnd hfa
  rw [hN]
  simp only [Except.map, Except.bind, toRows_symM, hP, hF]

end DendroModel.C09


/-! ## MATCHCHAR, interleaved -/

namespace DendroModel.C09
open DendroModel.C09.Aux DendroModel.Alphabets

/-! ### MATCHCHAR and interleaved NEXUS -/

/-- a row in which some cells are given by the match character (`none`) -/
def renderM (mc : Char) : List (Option Cell) → Str
  | [] => []
  | none :: r => mc :: renderM mc r
  | some c :: r => renderCell c ++ renderM mc r

/-- the cells such a row stands for: position `k` of the first sequence wherever the match character is used -/
def fillM (f : List Cell) : Nat → List (Option Cell) → List Cell
  | _, [] => []
  | k, none :: r => f.getD k (.sym '?') :: fillM f (k + 1) r
  | k, some c :: r => readsAs c :: fillM f (k + 1) r

theorem matchchar_fold (cfg : RCfg) (f : List Cell) (mc : Char) (hfirst : cfg.first = some f)
    (hmc : cfg.matchChars.contains mc = true) (hmw : isWs mc = false) (hm1 : mc ≠ '{') (hm2 : mc ≠ '(') (hm3 : mc ≠ ';') :
    ∀ (items : List (Option Cell)) (out : List Cell),
      (∀ c, some c ∈ items → CellOk cfg.al cfg.matchChars c) →
      cfg.have_ + out.length + items.length ≤ cfg.nchar → cfg.have_ + out.length + items.length ≤ f.length →
      (renderM mc items).foldl (stepChar cfg) ⟨out, none, none⟩
        = ⟨out ++ fillM f (cfg.have_ + out.length) items, none, none⟩ := by
  intro items
  induction items with
  | nil => intro out _ _ _; simp [renderM, fillM]
  | cons it rest ih =>
    intro out hok hn hf
    have hrest1 : ∀ x : Cell, cfg.have_ + (out ++ [x]).length + rest.length ≤ cfg.nchar := by
      intro x; simp at hn ⊢; omega
    have hrest2 : ∀ x : Cell, cfg.have_ + (out ++ [x]).length + rest.length ≤ f.length := by
      intro x; simp at hf ⊢; omega
    have hpos : ∀ x : Cell, cfg.have_ + (out ++ [x]).length = cfg.have_ + out.length + 1 := by
      intro x; simp; omega
    cases it with
    | none =>
      have hlt : ¬ (cfg.have_ + out.length ≥ cfg.nchar) := by simp at hn ⊢; omega
      have hidx : cfg.have_ + out.length < f.length := by simp at hf; omega
      obtain ⟨x, hx1, hx2⟩ : ∃ x, f[cfg.have_ + out.length]? = some x ∧ f.getD (cfg.have_ + out.length) (.sym '?') = x := by
        refine ⟨f[cfg.have_ + out.length], List.getElem?_eq_getElem hidx, ?_⟩
        rw [List.getD_eq_getElem?_getD, List.getElem?_eq_getElem hidx]; rfl
      have hstep : stepChar cfg ⟨out, none, none⟩ mc = ⟨out ++ [x], none, none⟩ := by
        have hmem : mc ∈ cfg.matchChars := by simpa using hmc
        unfold stepChar pushCell
        simp [hmw, hm1, hm2, hm3, hmem, hfirst, hx1, hlt]
      simp only [renderM, List.foldl_cons, hstep, fillM, hx2]
      rw [ih _ (fun c hc => hok c (by simp [hc])) (hrest1 _) (hrest2 _), hpos]
      simp
    | some c =>
      have hc := hok c (by simp)
      have h1 := cells_fold cfg [c] out (by intro x hx; simp at hx; subst hx; exact hc) (by simp at hn ⊢; omega)
      simp only [renderCells, List.append_nil, List.map_cons, List.map_nil] at h1
      simp only [renderM, List.foldl_append, h1, fillM]
      rw [ih _ (fun c hc => hok c (by simp [hc])) (hrest1 _) (hrest2 _), hpos]
      simp

/-- **MATCHCHAR.**  A row in which any cells are replaced by the match character reads as the cells of the first
sequence at those positions and as the written cells elsewhere (`_read_character_states` with `first_sequence_defined`).
Row level: the first sequence is GIVEN (`cfg.first = some f`); the statement is not lifted to `nxStep`/`nxRead`, where
`first` is looked up in the accumulator — see `nexus_matchchar_step` for the lift to one `nxStep` and
`nexus_matchchar_matrix_roundtrip` for the whole matrix. -/
theorem matchchar_row_roundtrip (cfg : RCfg) (f : List Cell) (mc : Char) (items : List (Option Cell))
    (hfirst : cfg.first = some f) (hmc : cfg.matchChars.contains mc = true)
    (hmw : isWs mc = false) (hm1 : mc ≠ '{') (hm2 : mc ≠ '(') (hm3 : mc ≠ ';')
    (hok : ∀ c, some c ∈ items → CellOk cfg.al cfg.matchChars c)
    (hn : cfg.have_ + items.length ≤ cfg.nchar) (hf : cfg.have_ + items.length ≤ f.length) :
    readStates cfg (renderM mc items) = .ok (fillM f cfg.have_ items) := by
  unfold readStates
  have := matchchar_fold cfg f mc hfirst hmc hmw hm1 hm2 hm3 items [] hok (by simpa using hn) (by simpa using hf)
  simp [this]

/-- **interleaved NEXUS, one line.**  A further chunk of a row that already has `cur` cells is appended to it.
This is the step of the interleaved reader (any row, any earlier content, any chunk that fits NCHAR); the
fold over all lines of all pages is `nexus_interleaved_matrix_roundtrip` below (which also covers the first chunk of a
row, `findRow = some none`, through `nexus_chunk_step`). -/
theorem nexus_interleaved_step (cfg : NxCfg) (acc : Acc) (first : Option Str) (label : Str) (cur cells : List Cell)
    (hk : findRow acc label = some (some cur)) (hi : cfg.interleave = true)
    (hok : ∀ c ∈ cells, CellOk cfg.al cfg.matchChars c) (hlen : cur.length + cells.length ≤ cfg.nchar) :
    nxStep cfg (.ok (acc, first)) (label, renderCells cells)
      = .ok (setRow acc label (cur ++ cells.map readsAs), some (first.getD label)) := by
  have hrs := cells_roundtrip ⟨cfg.al, cfg.matchChars, first.bind (fun l => (findRow acc l).bind id), cfg.nchar, cur.length⟩
    cells hok hlen
  simp [nxStep, hk, hrs, hi]

example : readStates ⟨mkStates dna, ['.'], some [.sym 'A', .sym 'C', .sym 'G'], 3, 0⟩ (renderM '.' [none, some (.sym 'T'), none])
    = .ok (fillM [.sym 'A', .sym 'C', .sym 'G'] 0 [none, some (.sym 'T'), none]) :=
  matchchar_row_roundtrip _ _ '.' _ rfl (by decide) (by decide) (by decide) (by decide) (by decide)
    (by intro c hc; simp at hc; subst hc; unfold CellOk; decide) (by decide) (by decide)

end DendroModel.C09

/-! ## relaxed PHYLIP, multispace delimiter: labels with inner blanks -/

namespace DendroModel.C09
open DendroModel.C09.Aux DendroModel.Alphabets

/-- no two adjacent blanks and no blank at the end (so the first run of two or more blanks of a written line is the
separator the writer put after the label) -/
def noDbl : Str → Bool
  | [] => true
  | [c] => !isBlank c
  | c :: d :: r => (!isBlank c || !isBlank d) && noDbl (d :: r)

theorem splitRun_multispace (wl rest : Str) (h : noDbl wl = true) :
    splitRun true (wl ++ ' ' :: ' ' :: rest) = some (wl, rest.dropWhile isBlank) := by
  induction wl with
  | nil => simp [splitRun, isBlank, List.dropWhile]
  | cons c cs ih =>
    cases cs with
    | nil =>
      have hc : isBlank c = false := by simpa [noDbl] using h
      have hb : isBlank ' ' = true := by decide
      simp [splitRun, hc, hb, List.dropWhile]
    | cons d r =>
      simp only [noDbl, Bool.and_eq_true, Bool.or_eq_true, Bool.not_eq_true'] at h
      have ih' := ih h.2
      simp only [List.cons_append] at ih' ⊢
      rw [splitRun]
      rcases h.1 with hc | hd
      · simp [hc, ih']
      · simp [hd, ih']

/-- label admissible for relaxed PHYLIP read with `multispace_delimiter=True`: as written it is non-empty, its only white
space is single inner blanks (no tab, no two adjacent blanks, none at either end), and the reader's underscore option
maps it back -/
def MultispaceLabelOk (w r : Bool) (l : Str) : Prop :=
  wlab w l ≠ [] ∧ (∀ c ∈ wlab w l, isWs c = true → c = ' ') ∧ noDbl (wlab w l) = true ∧
  ((wlab w l).head?.map isWs).getD false = false ∧ ((wlab w l).getLast?.map isWs).getD false = false ∧
  rlab r (wlab w l) = l

theorem phTaxon_multispace (cfg : PhCfg) (hs : cfg.strict = false) (hm : cfg.multispace = true) (w : Bool) (width : Nat)
    (l seq : Str) (hl : MultispaceLabelOk w cfg.underscoresToSpaces l) (hq : (seq.head?.map isBlank).getD false = false)
    (st : PhSt) (hf : phFind st.rows l = none) (hc : st.processed + 1 ≤ st.ntax) :
    phTaxon cfg st (ljust width (wlab w l) ++ [' ', ' '] ++ seq)
      = .ok ({ st with rows := st.rows ++ [(l, [])], processed := st.processed + 1 }, l, seq) := by
  obtain ⟨h2, _, hd, h4, h5, h3⟩ := hl
  have hsp := splitRun_multispace (wlab w l) (List.replicate (width - (wlab w l).length) ' ' ++ seq) hd
  rw [dropWhile_replicate_blank _ _ hq] at hsp
  have hstrip : strip (wlab w l) = wlab w l := strip_id _ h4 h5
  have hr : (if cfg.underscoresToSpaces = true then u2s (wlab w l) else wlab w l) = l := by
    simpa [rlab] using h3
  have hc' : ¬ (st.processed + 1 > st.ntax) := by omega
  unfold phTaxon
  simp only [hs, hm, ljust_line, hsp]
  simp [hstrip, h2, hr, hf, hc']

/-- **whole file, relaxed PHYLIP read with `multispace_delimiter=True`.**  Labels may contain single inner blanks
(`MultispaceLabelOk`): the first run of two or more blanks of each line is the separator the writer wrote. -/
theorem phylip_multispace_roundtrip (cfg : PhCfg) (w : Bool) (rows : List (Str × Str))
    (hs : cfg.strict = false) (hm : cfg.multispace = true) (hi : cfg.interleaved = false) (hne : rows ≠ [])
    (hlen : ∀ r ∈ rows, r.2.length = maxLen (rows.map (·.2))) (hpos : 0 < maxLen (rows.map (·.2)))
    (hnd : (rows.map (fun r => lower r.1)).Nodup)
    (hlab : ∀ r ∈ rows, MultispaceLabelOk w cfg.underscoresToSpaces r.1) (hseq : ∀ r ∈ rows, SeqOk cfg.al r.2) :
    phRead cfg (phWrite false w rows ++ [[]]) = .ok rows := by
  let ml := maxLen (rows.map (fun r => wlab w r.1))
  let mk : Str × Str → Str := fun r => ljust ml (wlab w r.1) ++ [' ', ' '] ++ r.2
  have hw : phWrite false w rows ++ [[]]
      = (natStr rows.length ++ [' '] ++ natStr (maxLen (rows.map (·.2)))) :: (rows.map mk ++ [[]]) := by
    simp [phWrite, mk, ml, wlab, Function.comp_def]
  have hrl : rows.length ≠ 0 := by cases rows with
    | nil => exact absurd rfl hne
    | cons _ _ => simp
  rw [hw, phRead_header cfg _ _ _ hrl (by omega) (by cases rows with
    | nil => exact absurd rfl hne
    | cons _ _ => simp)]
  have hnonempty : ∀ r ∈ rows, r.2 ≠ [] := by
    intro r hr h; have := hlen r hr; rw [h] at this; simp at this; omega
  have hfold := phSequential_rows cfg mk rows.length (maxLen (rows.map (·.2))) rows [] hlen hpos (by simp) (by simpa using hnd)
    (by
      intro r hr
      have hq := hseq r hr
      have hne' := hnonempty r hr
      constructor
      · apply rstrip_id
        rw [show mk r = (ljust ml (wlab w r.1) ++ [' ', ' ']) ++ r.2 from rfl, getLast?_append_ne _ _ hne']
        exact last_nows _ (fun c hc => (hq c hc).2)
      · intro h
        have := congrArg List.length h
        simp [mk] at this)
    (by
      intro r hr st hf hc
      exact phTaxon_multispace cfg hs hm w ml r.1 r.2 (hlab r hr)
        (by cases h : r.2 with
            | nil => rfl
            | cons c cs => simp [isBlank_of_isWs ((hseq r hr) c (by simp [h])).2]) st hf hc)
    (fun r hr => phSeq_ok cfg.al r.2 (hseq r hr))
  simp only [hi, Bool.false_eq_true, if_false]
  have h0 : (⟨[], 0, rows.length, maxLen (rows.map (·.2))⟩ : PhSt) = ⟨[], ([] : List (Str × Str)).length, rows.length, maxLen (rows.map (·.2))⟩ := rfl
  rw [h0, hfold]
  have hall : (rows.all fun r => r.2.length == maxLen (rows.map (·.2))) = true := by
    simp only [List.all_eq_true, beq_iff_eq]; exact hlen
  simp [hall]

example : MultispaceLabelOk false false "Homo sapiens 2".toList := by unfold MultispaceLabelOk; decide
example : (phRead ⟨mkStates dna, false, false, true, false⟩
    (phWrite false false [("Homo sapiens".toList, "AC-".toList), ("a b c".toList, "?NR".toList)] ++ [[]])).toOption
    = some [("Homo sapiens".toList, "AC-".toList), ("a b c".toList, "?NR".toList)] := by decide

end DendroModel.C09


/-! ## interleaved NEXUS: all pages -/

namespace DendroModel.C09
open DendroModel.C09.Aux DendroModel.Alphabets

/-- interleaved layout of a matrix: pages of the given widths; in every page one line per row, in row order, carrying
the next `w` cells of that row -/
def pageRows : Matrix → List Nat → List (Str × Str)
  | _, [] => []
  | m, w :: ws => m.map (fun r => (r.1, renderCells (r.2.take w))) ++ pageRows (m.map (fun r => (r.1, r.2.drop w))) ws

/-- one line of an interleaved MATRIX, whatever the row holds so far (nothing yet: `none`, or `some cur`) -/
theorem nexus_chunk_step (cfg : NxCfg) (acc : Acc) (first : Option Str) (label : Str) (o : Option (List Cell))
    (cells : List Cell) (hk : findRow acc label = some o) (hi : cfg.interleave = true)
    (hok : ∀ c ∈ cells, CellOk cfg.al cfg.matchChars c) (hlen : (o.getD []).length + cells.length ≤ cfg.nchar) :
    nxStep cfg (.ok (acc, first)) (label, renderCells cells)
      = .ok (setRow acc label (o.getD [] ++ cells.map readsAs), some (first.getD label)) := by
  have hrs := cells_roundtrip ⟨cfg.al, cfg.matchChars, first.bind (fun l => (findRow acc l).bind id), cfg.nchar, (o.getD []).length⟩
    cells hok hlen
  cases o with
  | none => simp [nxStep, hk] at hrs ⊢; simp [hrs, hi]
  | some cur => simp [nxStep, hk] at hrs ⊢; simp [hrs, hi]

abbrev Tr := Str × Option (List Cell) × List Cell

/-- one page: every row receives its chunk -/
theorem nexus_page_fold (cfg : NxCfg) (hi : cfg.interleave = true) :
    ∀ (R : List Tr) (Pre : Acc) (first : Option Str),
      ((Pre.map (fun p => lower p.1)) ++ R.map (fun t => lower t.1)).Nodup →
      (∀ t ∈ R, ∀ c ∈ t.2.2, CellOk cfg.al cfg.matchChars c) →
      (∀ t ∈ R, (t.2.1.getD []).length + t.2.2.length ≤ cfg.nchar) →
      ∃ f, (R.map (fun t => (t.1, renderCells t.2.2))).foldl (nxStep cfg) (.ok (Pre ++ R.map (fun t => (t.1, t.2.1)), first))
        = .ok (Pre ++ R.map (fun t => (t.1, some (t.2.1.getD [] ++ t.2.2.map readsAs))), f) := by
  intro R
  induction R with
  | nil => intro Pre first _ _ _; exact ⟨first, by simp⟩
  | cons t ts ih =>
    intro Pre first hnd hok hlen
    have hpre : ∀ p ∈ Pre, (lower p.1 == lower t.1) = false := by
      intro p hp
      simp only [List.map_cons] at hnd
      have := (List.nodup_append.mp hnd).2.2 (lower p.1) (List.mem_map.mpr ⟨p, hp, rfl⟩) (lower t.1) (by simp)
      simpa using this
    have hfind : findRow (Pre ++ (t :: ts).map (fun t => (t.1, t.2.1))) t.1 = some t.2.1 := by
      rw [findRow_append _ _ _ hpre]; simp [findRow]
    have hstep := nexus_chunk_step cfg _ first t.1 t.2.1 t.2.2 hfind hi (hok t (by simp)) (hlen t (by simp))
    have hset : setRow (Pre ++ (t :: ts).map (fun t => (t.1, t.2.1))) t.1 (t.2.1.getD [] ++ t.2.2.map readsAs)
        = (Pre ++ [(t.1, some (t.2.1.getD [] ++ t.2.2.map readsAs))]) ++ ts.map (fun t => (t.1, t.2.1)) := by
      rw [setRow_append _ _ _ _ hpre]; simp [setRow]
    obtain ⟨f, hf⟩ := ih (Pre ++ [(t.1, some (t.2.1.getD [] ++ t.2.2.map readsAs))]) (some (first.getD t.1))
      (by simpa [List.map_append, List.append_assoc] using hnd)
      (fun x hx => hok x (by simp [hx])) (fun x hx => hlen x (by simp [hx]))
    refine ⟨f, ?_⟩
    simp only [List.map_cons, List.foldl_cons] at hf hstep hset ⊢
    rw [hstep, hset, hf]
    simp

/-- all pages -/
theorem nexus_pages_fold (cfg : NxCfg) (hi : cfg.interleave = true) :
    ∀ (ws : List Nat) (T : List Tr) (first : Option Str),
      (T.map (fun t => lower t.1)).Nodup →
      (∀ t ∈ T, ∀ c ∈ t.2.2, CellOk cfg.al cfg.matchChars c) →
      (∀ t ∈ T, (t.2.1.getD []).length + t.2.2.length ≤ cfg.nchar) →
      (∀ t ∈ T, t.2.2.length ≤ ws.sum) →
      ∃ (T' : List Tr) (f : Option Str),
        (pageRows (T.map (fun t => (t.1, t.2.2))) ws).foldl (nxStep cfg) (.ok (T.map (fun t => (t.1, t.2.1)), first))
          = .ok (T'.map (fun t => (t.1, t.2.1)), f) ∧
        T'.map (fun t => (t.1, t.2.1.getD [] ++ t.2.2.map readsAs)) = T.map (fun t => (t.1, t.2.1.getD [] ++ t.2.2.map readsAs)) ∧
        (∀ t ∈ T', t.2.2 = []) ∧
        ((ws ≠ [] ∨ ∀ t ∈ T, t.2.1.isSome = true) → ∀ t ∈ T', t.2.1.isSome = true) := by
  intro ws
  induction ws with
  | nil =>
    intro T first _ _ _ hsum
    refine ⟨T, first, by simp [pageRows], rfl, ?_, ?_⟩
    · intro t ht
      have := hsum t ht
      simp at this
      exact this
    · intro h
      rcases h with h | h
      · exact absurd rfl h
      · exact h
  | cons w ws ih =>
    intro T first hnd hok hlen hsum
    -- the page
    let R : List Tr := T.map (fun t => (t.1, t.2.1, t.2.2.take w))
    obtain ⟨f1, hpage⟩ := nexus_page_fold cfg hi R [] first
      (by simpa [R, Function.comp_def] using hnd)
      (by intro t ht c hc
          simp only [R, List.mem_map] at ht
          obtain ⟨q, hq, rfl⟩ := ht
          exact hok q hq c (List.mem_of_mem_take hc))
      (by intro t ht
          simp only [R, List.mem_map] at ht
          obtain ⟨q, hq, rfl⟩ := ht
          have := hlen q hq
          simp only [List.length_take]
          omega)
    let T1 : List Tr := T.map (fun t => (t.1, some (t.2.1.getD [] ++ (t.2.2.take w).map readsAs), t.2.2.drop w))
    obtain ⟨T', f, h1, h2, h3, h4⟩ := ih T1 f1
      (by simpa [T1, Function.comp_def] using hnd)
      (by intro t ht c hc
          simp only [T1, List.mem_map] at ht
          obtain ⟨q, hq, rfl⟩ := ht
          exact hok q hq c (List.mem_of_mem_drop hc))
      (by intro t ht
          simp only [T1, List.mem_map] at ht
          obtain ⟨q, hq, rfl⟩ := ht
          have := hlen q hq
          simp only [Option.getD_some, List.length_append, List.length_map, List.length_take, List.length_drop]
          omega)
      (by intro t ht
          simp only [T1, List.mem_map] at ht
          obtain ⟨q, hq, rfl⟩ := ht
          have := hsum q hq
          simp only [List.length_drop, List.sum_cons] at this ⊢
          omega)
    refine ⟨T', f, ?_, ?_, h3, ?_⟩
    · have e1 : (T.map (fun t => (t.1, t.2.2))).map (fun r => (r.1, renderCells (r.2.take w)))
          = R.map (fun t => (t.1, renderCells t.2.2)) := by simp [R, Function.comp_def]
      have e2 : (T.map (fun t => (t.1, t.2.2))).map (fun r => (r.1, r.2.drop w)) = T1.map (fun t => (t.1, t.2.2)) := by
        simp [T1, Function.comp_def]
      have e3 : T.map (fun t => (t.1, t.2.1)) = [] ++ R.map (fun t => (t.1, t.2.1)) := by simp [R, Function.comp_def]
      have e4 : ([] : Acc) ++ R.map (fun t => (t.1, some (t.2.1.getD [] ++ t.2.2.map readsAs))) = T1.map (fun t => (t.1, t.2.1)) := by
        simp [R, T1, Function.comp_def]
      simp only [pageRows, List.foldl_append]
      rw [e1, e2, e3, hpage, e4, h1]
    · rw [h2]
      simp only [T1, List.map_map, Function.comp_def, Option.getD_some, List.append_assoc, ← List.map_append, List.take_append_drop]
    · intro _
      apply h4
      right
      intro t ht
      simp only [T1, List.mem_map] at ht
      obtain ⟨q, _, rfl⟩ := ht
      rfl

theorem accRows_all_some (T : List Tr) (h : ∀ t ∈ T, t.2.1.isSome = true) :
    accRows (T.map (fun t => (t.1, t.2.1))) = T.map (fun t => (t.1, t.2.1.getD [])) := by
  induction T with
  | nil => rfl
  | cons t ts ih =>
    have ht := h t (by simp)
    have := ih (fun x hx => h x (by simp [hx]))
    unfold accRows at this ⊢
    cases ho : t.2.1 with
    | none => rw [ho] at ht; cases ht
    | some x => simp [List.filterMap_cons, ho, this]

/-- **whole matrix, interleaved NEXUS ("interleaving does not matter").**  A matrix laid out in pages of any widths that
add up to at least the row length — one line per row and page, a TAXA block having listed the labels — is read back under
`INTERLEAVE` as the same taxa in the same order with the same cells (`normM`), provided at least one page is given. -/
theorem nexus_interleaved_matrix_roundtrip (cfg : NxCfg) (m : Matrix) (ws : List Nat) (hi : cfg.interleave = true)
    (hws : ws ≠ []) (hsum : ∀ r ∈ m, r.2.length ≤ ws.sum)
    (hlab : (m.map (fun r => lower r.1)).Nodup)
    (hok : ∀ r ∈ m, ∀ c ∈ r.2, CellOk cfg.al cfg.matchChars c)
    (hlen : ∀ r ∈ m, r.2.length ≤ cfg.nchar) :
    nxRead cfg (m.map (·.1)) (pageRows m ws) = .ok (normM m) := by
  let T : List Tr := m.map (fun r => (r.1, none, r.2))
  obtain ⟨T', f, h1, h2, h3, h4⟩ := nexus_pages_fold cfg hi ws T none
    (by simpa [T, Function.comp_def] using hlab)
    (by intro t ht c hc
        simp only [T, List.mem_map] at ht
        obtain ⟨q, hq, rfl⟩ := ht
        exact hok q hq c hc)
    (by intro t ht
        simp only [T, List.mem_map] at ht
        obtain ⟨q, hq, rfl⟩ := ht
        simpa using hlen q hq)
    (by intro t ht
        simp only [T, List.mem_map] at ht
        obtain ⟨q, hq, rfl⟩ := ht
        exact hsum q hq)
  have hT1 : T.map (fun t => (t.1, t.2.2)) = m := by simp [T, Function.comp_def]
  have hT2 : T.map (fun t => ((t.1, t.2.1) : Str × Option (List Cell))) = (m.map (·.1)).map (fun t => (t, none)) := by
    simp [T, Function.comp_def]
  have hsome := h4 (Or.inl hws)
  unfold nxRead
  rw [← hT2, ← hT1, h1]
  simp only
  rw [accRows_all_some T' hsome]
  have : T'.map (fun t => (t.1, t.2.1.getD [])) = T'.map (fun t => (t.1, t.2.1.getD [] ++ t.2.2.map readsAs)) := by
    apply List.map_congr_left
    intro t ht
    simp [h3 t ht]
  rw [this, h2]
  simp [T, normM, Function.comp_def]

end DendroModel.C09


/-! ## custom standard alphabets: every symbol denotes itself -/
namespace DendroModel.C09.Aux
theorem lower_upper_stable (d : Char) (h : d.toLower.toUpper = d.toLower) : d.toLower = d := by
  unfold Char.toLower at h ⊢
  split
  · rename_i hd
    exfalso
    rw [dif_pos hd] at h
    unfold Char.toUpper at h
    have h1 := UInt32.le_iff_toNat_le.mp hd.1
    have h2 := UInt32.le_iff_toNat_le.mp hd.2
    simp only [Char.reduceVal, UInt32.reduceToNat] at h1 h2
    split at h
    · have := congrArg (fun c : Char => c.val.toNat) h
      simp only [Char.reduceVal, UInt32.toNat_add, UInt32.toNat_sub, UInt32.reduceToNat] at this
      omega
    · rename_i hn
      apply hn
      simp only [Char.reduceVal, UInt32.le_iff_toNat_le, UInt32.toNat_add, UInt32.toNat_sub, UInt32.reduceToNat]
      omega
  · rfl

theorem lookup_of_unique (al : List St) (c : Char)
    (huniq : ∀ st ∈ al, (st.sym == some c || st.syns.contains c) = true → st.sym = some c)
    (hex : ∃ st ∈ al, (st.sym == some c || st.syns.contains c) = true) : lookup al c = some c := by
  unfold lookup lookupSt
  cases hf : al.find? (fun st => st.sym == some c || st.syns.contains c) with
  | none =>
    obtain ⟨st, hst, hp⟩ := hex
    have := List.find?_eq_none.mp hf st hst
    exact absurd hp this
  | some st =>
    have hmem := List.mem_of_find?_eq_some hf
    have hp := List.find?_some hf
    simp [huniq st hmem hp]
end DendroModel.C09.Aux

namespace DendroModel.C09
open DendroModel.C09.Aux DendroModel.Alphabets

/-- **custom standard alphabets, any symbol set.**  In the alphabet `_build_state_alphabet` builds from a non-empty list of
fundamental symbols that are unchanged by upper-casing (what `SYMBOLS="…"` yields: the reader upper-cases the statement),
with gap `-` and missing `?`, every symbol, the gap and the missing symbol denote themselves: the implicit case-variant
synonyms of a case-insensitive alphabet can never capture another symbol. -/
theorem standard_symbols_denote_themselves (F : List Char) (hne : F ≠ []) (hup : ∀ c ∈ F, c.toUpper = c) :
    ∀ c ∈ F ++ ['-', '?'], lookup (mkStates (specStd F (some '-') (some '?'))) c = some c := by
  intro c hc
  have hupD : ∀ d ∈ F ++ ['-', '?'], d.toUpper = d := by
    intro d hd
    simp only [List.mem_append, List.mem_cons, List.mem_nil_iff, or_false] at hd
    rcases hd with hd | hd | hd
    · exact hup d hd
    · subst hd; decide
    · subst hd; decide
  have hFe : F.isEmpty = false := by
    cases F with
    | nil => exact absurd rfl hne
    | cons _ _ => rfl
  have hmem : ∀ st ∈ mkStates (specStd F (some '-') (some '?')),
      ∃ d ∈ F ++ ['-', '?'], st.sym = some d ∧ st.syns = caseVar false d := by
    intro st hst
    simp only [mkStates, specStd, hFe, fundAll, synsOf, Bool.false_eq_true, if_false, Option.toList, List.filter_nil, List.map_nil,
      List.append_nil, List.mem_append, List.mem_map, List.mem_cons, List.mem_nil_iff, or_false] at hst
    rcases hst with ⟨d, hd, rfl⟩ | ⟨d, hd, rfl⟩
    · refine ⟨d, ?_, rfl, rfl⟩
      rcases hd with hd | hd
      · simp [hd]
      · simp [hd]
    · subst hd
      exact ⟨'?', by simp, rfl, rfl⟩
  apply lookup_of_unique
  · intro st hst hp
    obtain ⟨d, hd, hs, hy⟩ := hmem st hst
    rw [hs, hy] at hp
    rw [hs]
    simp only [Bool.or_eq_true, beq_iff_eq, Option.some.injEq, List.contains_eq_mem, decide_eq_true_eq] at hp
    rcases hp with hp | hp
    · rw [hp]
    · exfalso
      simp only [caseVar, Bool.false_eq_true, if_false, List.mem_filter, List.mem_cons, List.mem_nil_iff, or_false,
        bne_iff_ne, ne_eq] at hp
      obtain ⟨hcd, hne'⟩ := hp
      rcases hcd with hcd | hcd
      · exact hne' (hcd.trans (hupD d hd))
      · have hcu := hupD c hc
        rw [hcd] at hcu
        exact hne' (hcd.trans (lower_upper_stable d hcu))
  · simp only [mkStates, specStd, hFe, fundAll, synsOf, Bool.false_eq_true, if_false, Option.toList, List.filter_nil, List.map_nil,
      List.append_nil]
    simp only [List.mem_append, List.mem_cons, List.mem_nil_iff, or_false] at hc
    rcases hc with hc | hc | hc
    · exact ⟨⟨some c, .fund, [c], caseVar false c⟩, by
        simp only [List.mem_append, List.mem_map, List.mem_cons, List.mem_nil_iff, or_false]
        exact Or.inl ⟨c, Or.inl hc, rfl⟩, by simp⟩
    · exact ⟨⟨some c, .fund, [c], caseVar false c⟩, by
        simp only [List.mem_append, List.mem_map, List.mem_cons, List.mem_nil_iff, or_false]
        exact Or.inl ⟨c, Or.inr hc, rfl⟩, by simp⟩
    · subst hc
      exact ⟨⟨some '?', .ambig, F ++ ['-'], caseVar false '?'⟩, by simp, by simp⟩

example : ∀ c ∈ "AB01".toList ++ ['-', '?'], lookup (mkStates (specStd "AB01".toList (some '-') (some '?'))) c = some c :=
  standard_symbols_denote_themselves _ (by decide) (by decide)

end DendroModel.C09

namespace DendroModel.C09
open DendroModel.Alphabets
/-- a symbol-less cell whose members are NOT in canonical order is admissible and reads back as the sorted member set -/
example : CellOk (mkStates (specStd ['0', '1', '2'] (some '-') (some '?'))) ['.'] (.multi true ['2', '0']) := by
  unfold CellOk; decide
example : readsAs (.multi true ['2', '0']) = .multi true ['0', '2'] := by decide
/-- interleaved: a 2 x 5 matrix in pages of widths 2, 2, 1 -/
example : (nxRead ⟨mkStates dna, ['.'], 5, 2, true⟩ ["A".toList, "B".toList]
    (pageRows [("A".toList, "AC-GT".toList.map Cell.sym), ("B".toList, "NNRY?".toList.map Cell.sym)] [2, 2, 1])).toOption
    = some [("A".toList, "AC-GT".toList.map Cell.sym), ("B".toList, "NNRY?".toList.map Cell.sym)] := by decide
end DendroModel.C09

/-! ## continuous matrices -/

namespace DendroModel.C09
open DendroModel.C09.Aux DendroModel.Alphabets

/-- a continuous cell as a token: non-empty, no white space, a decimal number -/
def NumTokOk (t : Str) : Prop := t ≠ [] ∧ (∀ c ∈ t, isWs c = false) ∧ (parseDec t).isSome = true

theorem contRender_words (trailing : Bool) : ∀ toks : List Str, (∀ t ∈ toks, t ≠ [] ∧ ∀ c ∈ t, isWs c = false) →
    (contRender trailing toks).foldr wsStep [[]] = toks ++ (if trailing || toks.isEmpty then [[]] else []) := by
  intro toks
  induction toks with
  | nil => intro _; simp [contRender]
  | cons t ts ih =>
    intro h
    have ht := h t (by simp)
    have hts := ih (fun x hx => h x (by simp [hx]))
    cases ts with
    | nil =>
      cases trailing with
      | true =>
        simp only [contRender, if_true, List.foldr_append, List.foldr_cons, List.foldr_nil]
        have : wsStep ' ' [[]] = [[], []] := by simp [wsStep, isWs]
        rw [this, foldr_word t [] [[]] ht.2]
        simp
      | false =>
        simp only [contRender, Bool.false_eq_true, if_false]
        rw [foldr_word t [] [] ht.2]
        simp
    | cons u us =>
      simp only [contRender, List.foldr_append, List.foldr_cons] at hts ⊢
      rw [hts]
      have : wsStep ' ' ((u :: us) ++ (if (trailing || (u :: us).isEmpty) = true then [[]] else []))
          = [] :: ((u :: us) ++ (if (trailing || (u :: us).isEmpty) = true then [[]] else [])) := by
        simp [wsStep, isWs]
      rw [this, foldr_word t [] _ ht.2]
      simp

/-- **continuous rows, tokens.**  The values of a row as the NEXUS writer (every value followed by a blank) or the PHYLIP
writer (values joined by blanks) lays them out are split back into exactly the same tokens -/
theorem continuous_tokens_roundtrip (trailing : Bool) (toks : List Str) (h : ∀ t ∈ toks, t ≠ [] ∧ ∀ c ∈ t, isWs c = false) :
    wsWords (contRender trailing toks) = toks := by
  rw [wsWords_eq, contRender_words trailing toks h]
  have hne : ∀ t ∈ toks, (!t.isEmpty) = true := by
    intro t ht
    cases hh : t with
    | nil => exact absurd hh (h t ht).1
    | cons _ _ => rfl
  rw [List.filter_append, List.filter_eq_self.mpr hne]
  split <;> simp

/-- **continuous rows, values.**  A row of numbers reads back as the same sequence of decimal tokens, hence the same
numbers (`parseDec` is a function of the token) -/
theorem continuous_row_roundtrip (trailing : Bool) (toks : List Str) (h : ∀ t ∈ toks, NumTokOk t) :
    contRead (contRender trailing toks) = .ok toks := by
  unfold contRead
  rw [continuous_tokens_roundtrip trailing toks (fun t ht => ⟨(h t ht).1, (h t ht).2.1⟩)]
  have : toks.all (fun t => (parseDec t).isSome) = true := by
    simp only [List.all_eq_true]
    exact fun t ht => (h t ht).2.2
  simp [this]

example : NumTokOk "-2.25e-07".toList ∧ NumTokOk "1e+22".toList ∧ NumTokOk "3.0".toList := by
  unfold NumTokOk; decide
example : (contRead (contRender true ["1.5".toList, "-2.25e-07".toList])).toOption = some ["1.5".toList, "-2.25e-07".toList] := by
  decide
example : ((parseDec "100.0".toList).map Dec.norm) = ((parseDec "1e2".toList).map Dec.norm) := by decide

end DendroModel.C09

/-! ## NeXML data-set links -/
namespace DendroModel.C09
open DendroModel.C09.Aux DendroModel.Alphabets

theorem nexmlId_inj {i j : Nat} (h : nexmlId i = nexmlId j) : i = j := by
  unfold nexmlId at h
  exact natStr_inj (List.cons.inj h).2

/-- a reference to the id at position `b` of a duplicate-free id list resolves to `b` -/
theorem resolveOtus_nodup (ids : List Str) (b : Nat) (hb : b < ids.length) (hnd : ids.Nodup) :
    resolveOtus ids ids[b] = .ok b := by
  have : (List.range ids.length).filter (fun i => ids[i]? == some ids[b]) = [b] := by
    apply filter_range_unique _ _ b hb
    intro i hi
    have hgi : ids[i]? = some ids[i] := List.getElem?_eq_getElem hi
    simp only [hgi, beq_iff_eq, Option.some.injEq]
    constructor
    · intro he
      have : ids[i]? = ids[b]? := by rw [hgi, List.getElem?_eq_getElem hb, he]
      exact (List.getElem?_inj hi hnd).mp this
    · intro he; subst he; rfl
  simp only [resolveOtus, this]

/-- **NeXML data sets.**  Namespaces written with the ids of pairwise different counter values, every matrix / tree list
written with the id of its namespace as `otus=`: on reading, every block resolves to its own namespace. -/
theorem nexml_links_resolve (ks : List Nat) (blocks : List Nat) (hk : ks.Nodup) (hb : ∀ b ∈ blocks, b < ks.length) :
    nexmlReadRefs (nexmlWriteRefs ks blocks) = blocks.map .ok := by
  have hnd : (ks.map nexmlId).Nodup := by
    clear hb
    induction ks with
    | nil => simp
    | cons k rest ih =>
      simp only [List.nodup_cons, List.map_cons, List.mem_map, not_exists, not_and] at hk ⊢
      exact ⟨fun x hx he => hk.1 (nexmlId_inj he ▸ hx), ih hk.2⟩
  unfold nexmlReadRefs nexmlWriteRefs
  simp only [List.map_map]
  apply List.map_congr_left
  intro b hbm
  have hb' := hb b hbm
  have hb2 : b < (ks.map nexmlId).length := by simpa using hb'
  have := resolveOtus_nodup (ks.map nexmlId) b hb2 hnd
  simp only [Function.comp, List.getElem?_eq_getElem hb', Option.map_some]
  simpa using this

example : nexmlReadRefs (nexmlWriteRefs [0, 5, 9] [2, 0, 1, 1]) = [.ok 2, .ok 0, .ok 1, .ok 1] :=
  nexml_links_resolve _ _ (by decide) (by decide)

end DendroModel.C09

/-! ## STANDARD FORMAT and alphabet, arbitrary symbol strings -/
namespace DendroModel.C09.Aux

theorem mem_insertC_of (x c : Char) (l : List Char) (h : x = c ∨ x ∈ l) : x ∈ insertC c l := by
  induction l with
  | nil => simpa [insertC] using h
  | cons d ds ih =>
    unfold insertC
    split
    · simpa using h
    · split
      · rename_i hcd
        rcases h with h | h
        · subst h; rw [hcd]; simp
        · exact h
      · rcases h with h | h
        · exact List.mem_cons_of_mem _ (ih (Or.inl h))
        · simp only [List.mem_cons] at h
          rcases h with h | h
          · simp [h]
          · exact List.mem_cons_of_mem _ (ih (Or.inr h))

theorem mem_canonSet_of (x : Char) (l : List Char) (h : x ∈ l) : x ∈ canonSet l := by
  induction l with
  | nil => cases h
  | cons c cs ih =>
    unfold canonSet
    simp only [List.foldr_cons]
    simp only [List.mem_cons] at h
    rcases h with h | h
    · exact mem_insertC_of _ _ _ (Or.inl h)
    · exact mem_insertC_of _ _ _ (Or.inr (ih h))

end DendroModel.C09.Aux

namespace DendroModel.C09
open DendroModel.C09.Aux DendroModel.Alphabets

/-- **STANDARD matrices, arbitrary symbol strings, both halves.**  For every symbol string of a custom standard alphabet
(`SymsOk`, with at least one symbol other than the gap), the FORMAT statement the writer composes parses, and the alphabet
`_build_state_alphabet` rebuilds from the parsed statement is one in which every declared symbol, the gap and the
missing symbol denote themselves.  (This is `format_standard_roundtrip_partial` without the restriction to the
generator's symbol sets.) -/
theorem format_standard_alphabet_roundtrip (syms : Str) (h : SymsOk syms) (hne : ∃ c ∈ syms, c ≠ '-') :
    ∃ al, (parseFormatText ("FORMAT ".toList ++ formatOf "standard".toList (specStd syms (some '-') (some '?')) ++ [';'])).bind
        alphabetOfFmt = some al ∧ ∀ c ∈ syms ++ ['-', '?'], lookup al c = some c := by
  rw [format_standard_roundtrip syms h]
  let F := (canonSet (syms ++ ['-'])).filter (· != '-')
  have hal : alphabetOfFmt ⟨"standard".toList, canonSet (syms ++ ['-']), ['-'], ['?'], ['.'], false⟩
      = some (mkStates (specStd F (some '-') (some '?'))) := by
    simp [alphabetOfFmt, F]
  refine ⟨mkStates (specStd F (some '-') (some '?')), by simpa using hal, ?_⟩
  have hFmem : ∀ c ∈ syms, c ≠ '-' → c ∈ F := by
    intro c hc hn
    simp only [F, List.mem_filter, bne_iff_ne, ne_eq]
    exact ⟨mem_canonSet_of c _ (by simp [hc]), hn⟩
  have hFne : F ≠ [] := by
    obtain ⟨c, hc, hn⟩ := hne
    exact List.ne_nil_of_mem (hFmem c hc hn)
  have hFup : ∀ c ∈ F, c.toUpper = c := by
    intro c hc
    simp only [F, List.mem_filter] at hc
    have := mem_canonSet c _ hc.1
    simp only [List.mem_append, List.mem_singleton] at this
    rcases this with hm | hm
    · exact (h c hm).2.2
    · subst hm; decide
  have hmain := standard_symbols_denote_themselves F hFne hFup
  intro c hc
  apply hmain
  simp only [List.mem_append, List.mem_cons, List.mem_nil_iff, or_false] at hc ⊢
  rcases hc with hc | hc | hc
  · by_cases hd : c = '-'
    · exact Or.inr (Or.inl hd)
    · exact Or.inl (hFmem c hc hd)
  · exact Or.inr (Or.inl hc)
  · exact Or.inr (Or.inr hc)

example : ∃ al, (parseFormatText ("FORMAT ".toList ++ formatOf "standard".toList (specStd "XY01".toList (some '-') (some '?')) ++ [';'])).bind
    alphabetOfFmt = some al ∧ ∀ c ∈ "XY01".toList ++ ['-', '?'], lookup al c = some c :=
  format_standard_alphabet_roundtrip _ (by unfold SymsOk; decide) ⟨'X', by decide, by decide⟩

end DendroModel.C09

/-! ## MATCHCHAR inside nxStep -/
namespace DendroModel.C09
open DendroModel.C09.Aux DendroModel.Alphabets

/-- **MATCHCHAR inside the matrix reader.**  A MATRIX row (new label or a TAXA-block taxon without a sequence yet) in which
any cells are given by the match character, read by `nxStep` when the first row of the matrix — looked up in the
accumulator under the remembered first label — holds the cells `f`: the row is stored with `f`'s cells at those
positions.  One row; the fold over all rows of a matrix is `nexus_matchchar_matrix_roundtrip`. -/
theorem nexus_matchchar_step (cfg : NxCfg) (acc : Acc) (l0 label : Str) (f : List Cell) (mc : Char)
    (items : List (Option Cell))
    (hfirst : findRow acc l0 = some (some f))
    (hk : (findRow acc label = none ∧ (cfg.ntax = 0 ∨ acc.length < cfg.ntax)) ∨ findRow acc label = some none)
    (hi : cfg.interleave = false) (hmc : cfg.matchChars.contains mc = true)
    (hmw : isWs mc = false) (hm1 : mc ≠ '{') (hm2 : mc ≠ '(') (hm3 : mc ≠ ';')
    (hok : ∀ c, some c ∈ items → CellOk cfg.al cfg.matchChars c)
    (hlen : items.length = cfg.nchar) (hf : items.length ≤ f.length) :
    nxStep cfg (.ok (acc, some l0)) (label, renderM mc items)
      = .ok (setRow acc label (fillM f 0 items), some l0) := by
  have hrs := matchchar_row_roundtrip ⟨cfg.al, cfg.matchChars, some f, cfg.nchar, 0⟩ f mc items rfl hmc hmw hm1 hm2 hm3 hok
    (by simp [hlen]) (by simpa using hf)
  have hfl : (fillM f 0 items).length = items.length := by
    have : ∀ (its : List (Option Cell)) k, (fillM f k its).length = its.length := by
      intro its
      induction its with
      | nil => intro k; rfl
      | cons it r ih => intro k; cases it <;> simp [fillM, ih]
    exact this items 0
  rcases hk with ⟨hn, hroom⟩ | hn
  · have hroom' : (cfg.ntax == 0 || decide (acc.length < cfg.ntax)) = true := by
      rcases hroom with h | h <;> simp [h]
    simp [nxStep, hn, hroom', hfirst, hrs, hi, hfl, hlen]
  · simp [nxStep, hn, hfirst, hrs, hi, hfl, hlen]

example : nxStep ⟨mkStates dna, ['.'], 3, 2, false⟩ (.ok ([("A".toList, some [.sym 'A', .sym 'C', .sym 'G']), ("B".toList, none)], some "A".toList))
      ("B".toList, renderM '.' [none, some (.sym 'T'), none])
    = .ok (setRow [("A".toList, some [.sym 'A', .sym 'C', .sym 'G']), ("B".toList, none)] "B".toList
        (fillM [.sym 'A', .sym 'C', .sym 'G'] 0 [none, some (.sym 'T'), none]), some "A".toList) :=
  nexus_matchchar_step _ _ _ _ _ '.' _ (by decide) (Or.inr (by decide)) rfl (by decide) (by decide) (by decide)
    (by decide) (by decide) (by intro c hc; simp at hc; subst hc; unfold CellOk; decide) rfl (by decide)

end DendroModel.C09

/-! ## MATCHCHAR, whole matrix -/
namespace DendroModel.C09
open DendroModel.C09.Aux DendroModel.Alphabets

def noneL (ls : List Str) : Acc := ls.map (fun l => (l, none))

/-- rows with match characters, as read: the first row's cells wherever the match character stands -/
def fillRows (f : List Cell) (rest : List (Str × List (Option Cell))) : Matrix :=
  rest.map (fun r => (r.1, fillM f 0 r.2))

def renderRowsM (mc : Char) (rest : List (Str × List (Option Cell))) : List (Str × Str) :=
  rest.map (fun r => (r.1, renderM mc r.2))

theorem findRow_head (l0 : Str) (f : List Cell) (P : Matrix) (T : Acc) :
    findRow (someRows ((l0, f) :: P) ++ T) l0 = some (some f) := by
  simp [findRow, someRows]

/-- the fold over the rows after the first one; `T` is what is left of the TAXA block's empty entries
(`noneL` of the labels still to come) or nothing at all (DATA block) -/
theorem matchchar_fold_rows (cfg : NxCfg) (hi : cfg.interleave = false) (l0 : Str) (f : List Cell) (mc : Char)
    (hfl : cfg.nchar ≤ f.length)
    (hmc : cfg.matchChars.contains mc = true) (hmw : isWs mc = false) (hm1 : mc ≠ '{') (hm2 : mc ≠ '(') (hm3 : mc ≠ ';')
    (taxa : Bool) :
    ∀ (rest : List (Str × List (Option Cell))) (P : Matrix),
      ((((l0, f) :: P).map (fun r => lower r.1)) ++ rest.map (fun r => lower r.1)).Nodup →
      (∀ r ∈ rest, ∀ c, some c ∈ r.2 → CellOk cfg.al cfg.matchChars c) → (∀ r ∈ rest, r.2.length = cfg.nchar) →
      (taxa = true ∨ cfg.ntax = 0 ∨ (P.length + 1 + rest.length) ≤ cfg.ntax) →
      (renderRowsM mc rest).foldl (nxStep cfg)
          (.ok (someRows ((l0, f) :: P) ++ (if taxa then noneL (rest.map (·.1)) else []), some l0))
        = .ok (someRows ((l0, f) :: P ++ fillRows f rest), some l0) := by
  intro rest
  induction rest with
  | nil => intro P _ _ _ _; cases taxa <;> simp [renderRowsM, fillRows, noneL]
  | cons r rs ih =>
    intro P hnd hok hlen hnt
    have hpre : ∀ p ∈ someRows ((l0, f) :: P), (lower p.1 == lower r.1) = false := by
      intro p hp
      simp only [someRows, List.mem_map] at hp
      obtain ⟨q, hq, rfl⟩ := hp
      have := (List.nodup_append.mp hnd).2.2 (lower q.1) (List.mem_map.mpr ⟨q, hq, rfl⟩) (lower r.1) (by simp)
      simpa using this
    have hfirst : ∀ T, findRow (someRows ((l0, f) :: P) ++ T) l0 = some (some f) := findRow_head l0 f P
    have hnd' : ((((l0, f) :: (P ++ [(r.1, fillM f 0 r.2)])).map (fun r => lower r.1)) ++ rs.map (fun r => lower r.1)).Nodup := by
      simpa [List.map_append, List.append_assoc] using hnd
    have hrl := hlen r (by simp)
    cases taxa with
    | true =>
      have hfind : findRow (someRows ((l0, f) :: P) ++ noneL ((r :: rs).map (·.1))) r.1 = some none := by
        rw [findRow_append _ _ _ hpre]; simp [noneL, findRow]
      have hstep := nexus_matchchar_step cfg (someRows ((l0, f) :: P) ++ noneL ((r :: rs).map (·.1))) l0 r.1 f mc r.2
        (hfirst _) (Or.inr hfind) hi hmc hmw hm1 hm2 hm3 (hok r (by simp)) hrl (by omega)
      have hset : setRow (someRows ((l0, f) :: P) ++ noneL ((r :: rs).map (·.1))) r.1 (fillM f 0 r.2)
          = someRows ((l0, f) :: (P ++ [(r.1, fillM f 0 r.2)])) ++ noneL (rs.map (·.1)) := by
        rw [setRow_append _ _ _ _ hpre]; simp [noneL, someRows, setRow]
      have := ih (P ++ [(r.1, fillM f 0 r.2)]) hnd' (fun x hx => hok x (by simp [hx])) (fun x hx => hlen x (by simp [hx])) (Or.inl rfl)
      simp only [renderRowsM, List.map_cons, List.foldl_cons, if_true] at this hstep hset ⊢
      rw [hstep, hset, this]
      simp [fillRows]
    | false =>
      have hfresh : findRow (someRows ((l0, f) :: P)) r.1 = none := findRow_none _ _ hpre
      have hroom : cfg.ntax = 0 ∨ (someRows ((l0, f) :: P)).length < cfg.ntax := by
        rcases hnt with h | h | h
        · cases h
        · exact Or.inl h
        · right; simp [someRows] at h ⊢; omega
      have hstep := nexus_matchchar_step cfg (someRows ((l0, f) :: P)) l0 r.1 f mc r.2
        (by simpa using hfirst []) (Or.inl ⟨hfresh, hroom⟩) hi hmc hmw hm1 hm2 hm3 (hok r (by simp)) hrl (by omega)
      have hset : setRow (someRows ((l0, f) :: P)) r.1 (fillM f 0 r.2) = someRows ((l0, f) :: (P ++ [(r.1, fillM f 0 r.2)])) := by
        rw [setRow_fresh _ _ _ hfresh]; simp [someRows]
      have := ih (P ++ [(r.1, fillM f 0 r.2)]) hnd' (fun x hx => hok x (by simp [hx])) (fun x hx => hlen x (by simp [hx]))
        (by rcases hnt with h | h | h
            · cases h
            · exact Or.inr (Or.inl h)
            · right; right; simp at h ⊢; omega)
      simp only [renderRowsM, List.map_cons, List.foldl_cons, Bool.false_eq_true, if_false, List.append_nil] at this ⊢
      rw [hstep, hset, this]
      simp [fillRows]

/-- **whole matrix with MATCHCHAR, sequential NEXUS.**  The first row is written out; in every later row ANY cells may be
given by the match character.  Read back — TAXA block path and DATA block path — the matrix has the same taxa in the
same order, the first row's cells, and in the later rows the first row's cell wherever the match character stands and
the written cell elsewhere. -/
theorem nexus_matchchar_matrix_roundtrip (cfg : NxCfg) (r0 : Str × List Cell) (rest : List (Str × List (Option Cell))) (mc : Char)
    (hi : cfg.interleave = false)
    (hmc : cfg.matchChars.contains mc = true) (hmw : isWs mc = false) (hm1 : mc ≠ '{') (hm2 : mc ≠ '(') (hm3 : mc ≠ ';')
    (hlab : ((r0.1 :: rest.map (·.1)).map lower).Nodup)
    (hok0 : ∀ c ∈ r0.2, CellOk cfg.al cfg.matchChars c) (hlen0 : r0.2.length = cfg.nchar)
    (hok : ∀ r ∈ rest, ∀ c, some c ∈ r.2 → CellOk cfg.al cfg.matchChars c) (hlen : ∀ r ∈ rest, r.2.length = cfg.nchar)
    (hnt : cfg.ntax = 0 ∨ rest.length + 1 ≤ cfg.ntax) :
    nxRead cfg (r0.1 :: rest.map (·.1)) ((r0.1, renderCells r0.2) :: renderRowsM mc rest)
        = .ok ((r0.1, r0.2.map readsAs) :: fillRows (r0.2.map readsAs) rest) ∧
    nxRead cfg [] ((r0.1, renderCells r0.2) :: renderRowsM mc rest)
        = .ok ((r0.1, r0.2.map readsAs) :: fillRows (r0.2.map readsAs) rest) := by
  have hnd : ((((r0.1, r0.2.map readsAs) :: ([] : Matrix)).map (fun r => lower r.1)) ++ rest.map (fun r => lower r.1)).Nodup := by
    simpa [List.map_map, Function.comp_def] using hlab
  have hfl : cfg.nchar ≤ (r0.2.map readsAs).length := by simp [hlen0]
  constructor
  · have hfind : findRow ((r0.1, none) :: noneL (rest.map (·.1))) r0.1 = some none := by simp [findRow]
    have hstep := nexus_row_step cfg ((r0.1, none) :: noneL (rest.map (·.1))) none r0.1 r0.2 (Or.inr hfind) hi hok0 hlen0
    have hset : setRow ((r0.1, none) :: noneL (rest.map (·.1))) r0.1 (r0.2.map readsAs)
        = someRows ((r0.1, r0.2.map readsAs) :: []) ++ noneL (rest.map (·.1)) := by
      simp [setRow, someRows]
    have hf := matchchar_fold_rows cfg hi r0.1 (r0.2.map readsAs) mc hfl hmc hmw hm1 hm2 hm3 true rest [] hnd hok hlen (Or.inl rfl)
    unfold nxRead
    simp only [List.map_cons, List.foldl_cons]
    have h0 : (List.map (fun t => ((t, none) : Str × Option (List Cell))) (rest.map (·.1))) = noneL (rest.map (·.1)) := rfl
    rw [h0, hstep, hset]
    simp only [Option.getD_none, if_true] at hf ⊢
    rw [hf]
    exact congrArg Except.ok (accRows_someRows _)
  · have hfresh : findRow ([] : Acc) r0.1 = none := by simp [findRow]
    have hroom : cfg.ntax = 0 ∨ ([] : Acc).length < cfg.ntax := by
      rcases hnt with h | h
      · exact Or.inl h
      · right; simp; omega
    have hstep := nexus_row_step cfg [] none r0.1 r0.2 (Or.inl ⟨hfresh, hroom⟩) hi hok0 hlen0
    have hset : setRow ([] : Acc) r0.1 (r0.2.map readsAs) = someRows ((r0.1, r0.2.map readsAs) :: []) := by
      simp [setRow, someRows]
    have hf := matchchar_fold_rows cfg hi r0.1 (r0.2.map readsAs) mc hfl hmc hmw hm1 hm2 hm3 false rest [] hnd hok hlen
      (by rcases hnt with h | h
          · exact Or.inr (Or.inl h)
          · right; right; simp; omega)
    unfold nxRead
    simp only [List.map_nil, List.foldl_cons]
    rw [hstep, hset]
    simp only [Option.getD_none, Bool.false_eq_true, if_false, List.append_nil] at hf ⊢
    rw [hf]
    exact congrArg Except.ok (accRows_someRows _)

example : (nxRead ⟨mkStates dna, ['.'], 3, 3, false⟩ ["A".toList, "B".toList, "C".toList]
    (("A".toList, renderCells [.sym 'A', .sym 'C', .sym 'R']) ::
      renderRowsM '.' [("B".toList, [none, some (.sym 'T'), none]), ("C".toList, [none, none, none])])).toOption
    = some (("A".toList, [.sym 'A', .sym 'C', .sym 'R']) ::
        fillRows [.sym 'A', .sym 'C', .sym 'R'] [("B".toList, [none, some (.sym 'T'), none]), ("C".toList, [none, none, none])]) := by
  decide
end DendroModel.C09

/-! ## NeXML columns, arbitrary id scheme -/
namespace DendroModel.C09
open DendroModel.C09.Aux

theorem range_union_map (colId : Nat → Nat) (hinj : ∀ a b, colId a = colId b → a = b) (k n : Nat) :
    (List.range k).map colId ++ ((List.range n).map colId).filter (fun i => !((List.range k).map colId).contains i)
      = (List.range (max k n)).map colId := by
  rw [← range_union k n, List.map_append, List.filter_map]
  congr 2
  apply List.filter_congr
  intro i _
  have : (colId i ∈ (List.range k).map colId) ↔ i ∈ List.range k := by
    constructor
    · intro h
      obtain ⟨a, ha, he⟩ := List.mem_map.mp h
      rw [← hinj a i he]; exact ha
    · intro h; exact List.mem_map.mpr ⟨i, h, rfl⟩
  by_cases hm : i ∈ List.range k
  · simp [Function.comp, this.mpr hm, hm]
  · have hm' : ¬ colId i ∈ (List.range k).map colId := fun h => hm (this.mp h)
    simp only [Function.comp, List.contains_eq_mem, hm', hm, decide_false]

theorem nexmlChars_inj (colId : Nat → Nat) (hinj : ∀ a b, colId a = colId b → a = b) (lens : List Nat) : ∀ k,
    lens.foldl (fun acc n => acc ++ ((List.range n).map colId).filter (fun i => !acc.contains i)) ((List.range k).map colId)
      = (List.range (lens.foldl max k)).map colId := by
  induction lens with
  | nil => intro k; rfl
  | cons n ns ih =>
    intro k
    simp only [List.foldl_cons]
    rw [range_union_map colId hinj, ih]

theorem idxOf_map_inj (colId : Nat → Nat) (hinj : ∀ a b, colId a = colId b → a = b) (n j : Nat) (h : j < n) :
    ((List.range n).map colId).idxOf (colId j) = j := by
  induction n with
  | zero => omega
  | succ n ih =>
    rw [List.range_succ, List.map_append, List.idxOf_append]
    by_cases hj : j < n
    · have : colId j ∈ (List.range n).map colId := List.mem_map.mpr ⟨j, by simpa using hj, rfl⟩
      simp [this, ih hj]
    · have : j = n := by omega
      subst this
      have hn : ¬ colId j ∈ (List.range j).map colId := by
        intro hm
        obtain ⟨a, ha, he⟩ := List.mem_map.mp hm
        have := hinj a j he
        simp at ha; omega
      simp [hn]

/-- **whole matrix, NeXML, any id scheme.**  Whatever ids the writer hands out — as long as the id of a cell is a function
of its column index alone and distinct columns get distinct ids (the repaired `_write_format_section`; the ids of the
real writer are `d<counter>` strings drawn from a global counter) — the format section lists them in column order and
every row, of any length, reads back unshifted and without `None` padding. -/
theorem nexml_matrix_columns_any_ids (colId : Nat → Nat) (hinj : ∀ a b, colId a = colId b → a = b) (rows : List (List α)) :
    ∀ r ∈ rows, nexmlReadRow (nexmlChars colId (rows.map List.length)) (nexmlWriteRow colId r) = some (r.map some) := by
  intro r hr
  have hc : nexmlChars colId (rows.map List.length) = (List.range ((rows.map List.length).foldl max 0)).map colId := by
    unfold nexmlChars
    simpa using nexmlChars_inj colId hinj (rows.map List.length) 0
  apply nexml_columns_partial
  intro j hj
  have hle : r.length ≤ (rows.map List.length).foldl max 0 :=
    (le_foldl_max _ 0).2 _ (List.mem_map.mpr ⟨r, hr, rfl⟩)
  rw [hc]
  exact ⟨List.mem_map.mpr ⟨j, by simp; omega, rfl⟩, idxOf_map_inj colId hinj _ _ (by omega)⟩

example : nexmlChars (fun j => 3 * j + 7) [2, 3, 1] = [7, 10, 13] := by decide
end DendroModel.C09

/-! ## continuous matrices, whole NEXUS matrix -/
namespace DendroModel.C09
open DendroModel.C09.Aux DendroModel.Alphabets

/-- one MATRIX row of a continuous block, on either entry path -/
theorem nexus_continuous_row_step (cfg : NxCfg) (acc : List (Str × Option (List Str))) (label : Str) (toks : List Str)
    (hk : (findRow acc label = none ∧ (cfg.ntax = 0 ∨ acc.length < cfg.ntax)) ∨ findRow acc label = some none)
    (hi : cfg.interleave = false)
    (hok : ∀ t ∈ toks, NumTokOk t) (hlen : toks.length = cfg.nchar) :
    nxStepC cfg (.ok acc) (label, contRender true toks) = .ok (setRow acc label toks) := by
  have hrs := continuous_row_roundtrip true toks hok
  rcases hk with ⟨hf, hroom⟩ | hf
  · have hroom' : (cfg.ntax == 0 || decide (acc.length < cfg.ntax)) = true := by
      rcases hroom with h | h <;> simp [h]
    simp [nxStepC, hf, hroom', hrs, hlen, hi]
  · simp [nxStepC, hf, hrs, hlen, hi]

theorem nexus_continuous_fold (cfg : NxCfg) (hi : cfg.interleave = false) (taxa : Bool) :
    ∀ (m P : CMatrix),
      ((P ++ m).map (fun r => lower r.1)).Nodup →
      (∀ r ∈ m, ∀ t ∈ r.2, NumTokOk t) → (∀ r ∈ m, r.2.length = cfg.nchar) →
      (taxa = true ∨ cfg.ntax = 0 ∨ (P ++ m).length ≤ cfg.ntax) →
      (nxRowsC m).foldl (nxStepC cfg) (.ok (someRows P ++ (if taxa then noneRows m else [])))
        = .ok (someRows (P ++ m)) := by
  intro m
  induction m with
  | nil => intro P _ _ _ _; cases taxa <;> simp [nxRowsC, noneRows]
  | cons r rs ih =>
    intro P hnd hok hlen hnt
    have hpre : ∀ p ∈ someRows P, (lower p.1 == lower r.1) = false := by
      intro p hp
      simp only [someRows, List.mem_map] at hp
      obtain ⟨q, hq, rfl⟩ := hp
      simp only [List.map_append, List.map_cons] at hnd
      have := (List.nodup_append.mp hnd).2.2 (lower q.1) (List.mem_map.mpr ⟨q, hq, rfl⟩) (lower r.1) (by simp)
      simpa using this
    have hnd' : (((P ++ [r]) ++ rs).map (fun r => lower r.1)).Nodup := by simpa [List.map_append] using hnd
    cases taxa with
    | true =>
      have hfind : findRow (someRows P ++ noneRows (r :: rs)) r.1 = some none := by
        rw [findRow_append _ _ _ hpre]; simp [noneRows, findRow]
      have hstep := nexus_continuous_row_step cfg (someRows P ++ noneRows (r :: rs)) r.1 r.2 (Or.inr hfind) hi
        (hok r (by simp)) (hlen r (by simp))
      have hset : setRow (someRows P ++ noneRows (r :: rs)) r.1 r.2 = someRows (P ++ [r]) ++ noneRows rs := by
        rw [setRow_append _ _ _ _ hpre]; simp [noneRows, someRows, setRow]
      have := ih (P ++ [r]) hnd' (fun x hx => hok x (by simp [hx])) (fun x hx => hlen x (by simp [hx])) (Or.inl rfl)
      simp only [nxRowsC, List.map_cons, List.foldl_cons, if_true] at this ⊢
      rw [hstep, hset, this]
      simp
    | false =>
      have hfresh : findRow (someRows P) r.1 = none := findRow_none _ _ hpre
      have hroom : cfg.ntax = 0 ∨ (someRows P).length < cfg.ntax := by
        rcases hnt with h | h | h
        · cases h
        · exact Or.inl h
        · right; simp [someRows] at h ⊢; omega
      have hstep := nexus_continuous_row_step cfg (someRows P) r.1 r.2 (Or.inl ⟨hfresh, hroom⟩) hi
        (hok r (by simp)) (hlen r (by simp))
      have hset : setRow (someRows P) r.1 r.2 = someRows (P ++ [r]) := by
        rw [setRow_fresh _ _ _ hfresh]; simp [someRows]
      have := ih (P ++ [r]) hnd' (fun x hx => hok x (by simp [hx])) (fun x hx => hlen x (by simp [hx]))
        (by rcases hnt with h | h | h
            · cases h
            · exact Or.inr (Or.inl h)
            · right; right; simpa [List.length_append, Nat.add_assoc, Nat.add_comm] using h)
      simp only [nxRowsC, List.map_cons, List.foldl_cons, Bool.false_eq_true, if_false, List.append_nil] at this ⊢
      rw [hstep, hset, this]
      simp

/-- **whole continuous matrix, NEXUS.**  What the writer lays out for a continuous matrix — one row per taxon, every value
a decimal token followed by a blank, all rows of the declared length, labels distinct up to case — is read back as the
same taxa in the same order with the same sequence of tokens (hence the same numbers: `parseDec` is a function of the
token), on the TAXA-block path and on the DATA-block path, and passes the final NCHAR check.  The separator is
essential: `contRender` puts a blank after every value (without it the tokens fuse, see the example below). -/
theorem nexus_continuous_matrix_roundtrip (cfg : NxCfg) (m : CMatrix) (hi : cfg.interleave = false)
    (hlab : (m.map (fun r => lower r.1)).Nodup)
    (hok : ∀ r ∈ m, ∀ t ∈ r.2, NumTokOk t)
    (hlen : ∀ r ∈ m, r.2.length = cfg.nchar) (hnt : cfg.ntax = 0 ∨ m.length ≤ cfg.ntax) :
    nxReadC cfg (m.map (·.1)) (nxRowsC m) = .ok m ∧ nxReadC cfg [] (nxRowsC m) = .ok m := by
  have hall : (m.all fun r => r.2.length == cfg.nchar) = true := by
    simp only [List.all_eq_true, beq_iff_eq]; exact hlen
  constructor
  · have hf := nexus_continuous_fold cfg hi true m [] (by simpa using hlab) hok hlen (Or.inl rfl)
    have h0 : (m.map (·.1)).map (fun t => ((t, none) : Str × Option (List Str))) = someRows [] ++ noneRows m := by
      simp [someRows, noneRows]
    unfold nxReadC
    simp only [if_true] at hf
    rw [h0, hf]
    simp only [List.nil_append, someRows, accRows_someRows, hall, if_true]
  · have hf := nexus_continuous_fold cfg hi false m [] (by simpa using hlab) hok hlen
      (by rcases hnt with h | h
          · exact Or.inr (Or.inl h)
          · right; right; simpa using h)
    unfold nxReadC
    simp only [List.map_nil, Bool.false_eq_true, if_false, List.append_nil] at hf ⊢
    have : (.ok ([] : List (Str × Option (List Str))) : Except Err _) = .ok (someRows []) := by simp [someRows]
    rw [this, hf]
    simp only [List.nil_append, someRows, accRows_someRows, hall, if_true]

example : (nxReadC ⟨[], [], 3, 2, false⟩ ["a".toList, "b".toList]
    (nxRowsC [("a".toList, ["0.25".toList, "-9.125".toList, "1e-07".toList]), ("b".toList, ["3.0".toList, "0.25".toList, "5".toList])])).toOption
    = some [("a".toList, ["0.25".toList, "-9.125".toList, "1e-07".toList]), ("b".toList, ["3.0".toList, "0.25".toList, "5".toList])] := by
  decide
/-- values glued without the separator are not a row of the matrix -/
example : (nxReadC ⟨[], [], 2, 1, false⟩ ["a".toList] [("a".toList, "0.250.25".toList)]).toOption = none := by decide
end DendroModel.C09

/-! ## continuous rows, PHYLIP line -/
namespace DendroModel.C09
open DendroModel.C09.Aux DendroModel.Alphabets

/-- **continuous rows, PHYLIP line.**  The relaxed line the PHYLIP writer lays out for a continuous row — label padded to the
longest label, two blanks, the values joined by single blanks (`symbols_as_string` of a continuous sequence: the
separator a base-class sequence would drop) — splits back into the label and exactly the row's value tokens.
`_partial`: one line (`splitRun` of `phTaxon` + `contRead` = `_parse_sequence_from_line` for continuous data); the
whole continuous PHYLIP file is not modelled (`phRead` handles discrete symbols), it is compared with the code per row. -/
theorem phylip_continuous_line_roundtrip_partial (label : Str) (toks : List Str) (width : Nat)
    (hl : ∀ c ∈ label, isBlank c = false) (hok : ∀ t ∈ toks, NumTokOk t) :
    (splitRun false (ljust width label ++ [' ', ' '] ++ contRender false toks)).map (fun p => (p.1, contRead p.2))
      = some (label, .ok toks) := by
  have hs : ((contRender false toks).head?.map isBlank).getD false = false := by
    cases toks with
    | nil => simp [contRender]
    | cons t ts =>
      obtain ⟨hne, hws, _⟩ := hok t (by simp)
      cases t with
      | nil => exact absurd rfl hne
      | cons c cs =>
        have hc : isBlank c = false := isBlank_of_isWs (hws c (by simp))
        cases ts <;> simp [contRender, hc]
  rw [phylip_relaxed_line_roundtrip_partial label _ width hl hs]
  simp [continuous_row_roundtrip false toks hok]

example : (splitRun false (ljust 6 "t1".toList ++ [' ', ' '] ++ contRender false ["0.25".toList, "-9.125".toList])).map
    (fun p => (p.1, (contRead p.2).toOption)) = some ("t1".toList, some ["0.25".toList, "-9.125".toList]) := by decide
end DendroModel.C09

/-! ## PHYLIP interleaved paging -/
namespace DendroModel.C09
open DendroModel.C09.Aux DendroModel.Alphabets

/-- interleaved layout state of one row: label, characters already written, characters still to come -/
abbrev Tri := Str × Str × Str
def triStep (w : Nat) (S : List Tri) : List Tri := S.map (fun t => (t.1, t.2.1 ++ t.2.2.take w, t.2.2.drop w))
def triDone (S : List Tri) : List (Str × Str) := S.map (fun t => (t.1, t.2.1))
/-- the blocks after the first: one line per row with its next `w` characters (no label), then an empty line -/
def phPages : List Nat → List Tri → List Str
  | [], _ => []
  | w :: ws, S => S.map (fun t => t.2.2.take w) ++ [[]] ++ phPages ws (triStep w S)
def triFinal : List Nat → List Tri → List Tri
  | [], S => S
  | w :: ws, S => triFinal ws (triStep w S)

theorem phFind_mid (A B : List (Str × Str)) (l x : Str) (h : ∀ p ∈ A, (lower p.1 == lower l) = false) :
    phFind (A ++ (l, x) :: B) l = some x := by
  induction A with
  | nil => simp [phFind]
  | cons p ps ih =>
    have hp := h p (by simp)
    have := ih (fun q hq => h q (by simp [hq]))
    unfold phFind at this ⊢
    simp only [List.cons_append, List.find?_cons, hp]
    exact this

theorem phSet_mid (A B : List (Str × Str)) (l x y : Str) (h : ∀ p ∈ A, (lower p.1 == lower l) = false) :
    phSet (A ++ (l, x) :: B) l y = A ++ (l, y) :: B := by
  induction A with
  | nil => simp [phSet]
  | cons p ps ih =>
    have hp := h p (by simp)
    simp [phSet, hp, ih (fun q hq => h q (by simp [hq]))]

/-- a chunk line: symbols only, non-empty -/
def ChunkOk (al : List St) (c : Str) : Prop := c ≠ [] ∧ SeqOk al c

theorem chunk_line (al : List St) (c : Str) (h : ChunkOk al c) : rstrip c = c ∧ c.isEmpty = false := by
  constructor
  · exact rstrip_id _ (last_nows _ (fun x hx => (h.2 x hx).2))
  · cases hc : c with
    | nil => exact absurd hc h.1
    | cons _ _ => rfl

/-- one later block, read in paged mode: row `|A|`, `|A|+1`, … get their chunks appended -/
theorem ph_page_fold (cfg : PhCfg) (n k w : Nat) (rest : List Str) :
    ∀ (B : List Tri) (A : List (Str × Str)) (pr : Int), B ≠ [] →
      A.length + B.length = n →
      (if pr + 1 ≥ (n : Int) then 0 else pr + 1) = (A.length : Int) →
      ((A.map (fun r => lower r.1)) ++ B.map (fun t => lower t.1)).Nodup →
      (∀ t ∈ B, ChunkOk cfg.al (t.2.2.take w)) →
      phInterleaved cfg ⟨A ++ triDone B, n, n, k⟩ true pr (B.map (fun t => t.2.2.take w) ++ rest)
        = phInterleaved cfg ⟨A ++ triDone (triStep w B), n, n, k⟩ true ((n : Int) - 1) rest := by
  intro B
  induction B with
  | nil => intro A pr h; exact absurd rfl h
  | cons t B ih =>
    intro A pr _ hn hpr hnd hok
    have hc := hok t (by simp)
    obtain ⟨h1, h2⟩ := chunk_line cfg.al _ hc
    have hpre : ∀ p ∈ A, (lower p.1 == lower t.1) = false := by
      intro p hp
      have := (List.nodup_append.mp hnd).2.2 (lower p.1) (List.mem_map.mpr ⟨p, hp, rfl⟩) (lower t.1) (by simp)
      simpa using this
    have hget : (A ++ triDone (t :: B))[(A.length : Int).toNat]? = some (t.1, t.2.1) := by
      simp [triDone]
    have hstep : phInterleaved cfg ⟨A ++ triDone (t :: B), n, n, k⟩ true pr ((t :: B).map (fun t => t.2.2.take w) ++ rest)
        = phInterleaved cfg ⟨(A ++ [(t.1, t.2.1 ++ t.2.2.take w)]) ++ triDone B, n, n, k⟩ true (A.length : Int)
            (B.map (fun t => t.2.2.take w) ++ rest) := by
      simp only [List.map_cons, List.cons_append]
      rw [phInterleaved]
      simp only [h1, h2, hpr, hget, phAppend, phSeq_ok cfg.al _ hc.2]
      simp only [triDone, List.map_cons, phFind_mid A _ t.1 t.2.1 hpre, phSet_mid A _ t.1 t.2.1 _ hpre]
      simp
    rw [hstep]
    cases hB : B with
    | nil =>
      subst hB
      have : (A.length : Int) = (n : Int) - 1 := by simp at hn; omega
      simp [triStep, triDone, this]
    | cons u B' =>
      rw [← hB]
      have hBne : B ≠ [] := by rw [hB]; simp
      have hlt : A.length + 1 < n := by rw [hB] at hn; simp at hn; omega
      have := ih (A ++ [(t.1, t.2.1 ++ t.2.2.take w)]) (A.length : Int) hBne (by simp at hn ⊢; omega)
        (by have : ¬ ((A.length : Int) + 1 ≥ (n : Int)) := by omega
            simp [this])
        (by simpa [List.map_append, List.append_assoc] using hnd)
        (fun x hx => hok x (by simp [hx]))
      rw [this]
      simp [triStep, triDone]

/-- the first block, read before paging starts: every line carries its label (`mk label chunk`); after the last row the
reader switches to paged mode -/
theorem ph_first_page (cfg : PhCfg) (n k w : Nat) (mk : Str → Str → Str) (rest : List Str) :
    ∀ (R : List Tri) (P : List (Str × Str)) (pr : Int), R ≠ [] →
      P.length + R.length = n →
      ((P.map (fun r => lower r.1)) ++ R.map (fun t => lower t.1)).Nodup →
      (∀ t ∈ R, ChunkOk cfg.al (t.2.2.take w)) →
      (∀ t ∈ R, rstrip (mk t.1 (t.2.2.take w)) = mk t.1 (t.2.2.take w) ∧ mk t.1 (t.2.2.take w) ≠ []) →
      (∀ t ∈ R, ∀ st : PhSt, phFind st.rows t.1 = none → st.processed + 1 ≤ st.ntax →
        phTaxon cfg st (mk t.1 (t.2.2.take w))
          = .ok ({ st with rows := st.rows ++ [(t.1, [])], processed := st.processed + 1 }, t.1, t.2.2.take w)) →
      phInterleaved cfg ⟨P, P.length, n, k⟩ false pr (R.map (fun t => mk t.1 (t.2.2.take w)) ++ rest)
        = phInterleaved cfg ⟨P ++ R.map (fun t => (t.1, t.2.2.take w)), n, n, k⟩ true (-1) rest := by
  intro R
  induction R with
  | nil => intro P pr h; exact absurd rfl h
  | cons t R ih =>
    intro P pr _ hn hnd hok hmk htax
    have hc := hok t (by simp)
    have hm := hmk t (by simp)
    have hpre : ∀ p ∈ P, (lower p.1 == lower t.1) = false := by
      intro p hp
      have := (List.nodup_append.mp hnd).2.2 (lower p.1) (List.mem_map.mpr ⟨p, hp, rfl⟩) (lower t.1) (by simp)
      simpa using this
    have hne : (mk t.1 (t.2.2.take w)).isEmpty = false := by
      cases h : mk t.1 (t.2.2.take w) with
      | nil => exact absurd h hm.2
      | cons _ _ => rfl
    have ht := htax t (by simp) ⟨P, P.length, n, k⟩ (phFind_none P t.1 hpre) (by simp at hn ⊢; omega)
    cases hR : R with
    | nil =>
      subst hR
      have hlen : P.length + 1 = n := by simpa using hn
      simp only [List.map_cons, List.map_nil, List.cons_append, List.nil_append]
      rw [phInterleaved]
      simp only [hm.1, hne, ht, phAppend, phSeq_ok cfg.al _ hc.2, phFind_last P t.1 [] hpre, phSet_last P t.1 [] _ hpre]
      simp [hlen]
    | cons u R' =>
      rw [← hR]
      have hRne : R ≠ [] := by rw [hR]; simp
      have hlt : P.length + 1 < n := by rw [hR] at hn; simp at hn; omega
      have hcond : ((P ++ [(t.1, ([] : Str))]).length == n) = false := by simp; omega
      have := ih (P ++ [(t.1, t.2.2.take w)]) (if pr + 1 ≥ (n : Int) then 0 else pr + 1) hRne (by simp at hn ⊢; omega)
        (by simpa [List.map_append, List.append_assoc] using hnd)
        (fun x hx => hok x (by simp [hx])) (fun x hx => hmk x (by simp [hx])) (fun x hx => htax x (by simp [hx]))
      simp only [List.map_cons, List.cons_append]
      rw [phInterleaved]
      simp only [hm.1, hne, ht, phAppend, phSeq_ok cfg.al _ hc.2, phFind_last P t.1 [] hpre, phSet_last P t.1 [] _ hpre, hcond]
      simp only [List.length_append, List.length_cons, List.length_nil, Nat.zero_add] at this
      simp only [Bool.false_eq_true, if_false, List.nil_append, Option.getD_some]
      rw [this]
      simp

/-- every chunk of every later block is a non-empty run of symbols -/
def PagesOk (al : List St) : List Nat → List Tri → Prop
  | [], _ => True
  | w :: ws, S => (∀ t ∈ S, ChunkOk al (t.2.2.take w)) ∧ PagesOk al ws (triStep w S)

theorem triStep_labels (w : Nat) (S : List Tri) : (triStep w S).map (fun t => lower t.1) = S.map (fun t => lower t.1) := by
  simp [triStep, Function.comp_def]

/-- all later blocks -/
theorem ph_pages_fold (cfg : PhCfg) (n k : Nat) (hn0 : 0 < n) :
    ∀ (ws : List Nat) (S : List Tri) (pr : Int), S.length = n → (pr = -1 ∨ pr = (n : Int) - 1) →
      (S.map (fun t => lower t.1)).Nodup → PagesOk cfg.al ws S →
      phInterleaved cfg ⟨triDone S, n, n, k⟩ true pr (phPages ws S) = .ok ⟨triDone (triFinal ws S), n, n, k⟩ := by
  intro ws
  induction ws with
  | nil => intro S pr _ _ _ _; simp [phPages, triFinal, phInterleaved]
  | cons w ws ih =>
    intro S pr hlen hpr hnd hok
    have hSne : S ≠ [] := by intro h; rw [h] at hlen; simp at hlen; omega
    have hfold := ph_page_fold cfg n k w ([[]] ++ phPages ws (triStep w S)) S [] pr hSne (by simpa using hlen)
      (by rcases hpr with h | h <;> subst h
          · have : ¬ ((-1 : Int) + 1 ≥ (n : Int)) := by omega
            simp [this]
          · simp)
      (by simpa using hnd) hok.1
    simp only [List.nil_append] at hfold
    simp only [phPages, List.append_assoc]
    rw [hfold]
    simp only [List.singleton_append]
    rw [phInterleaved]
    simp only [rstrip, List.reverse_nil, List.dropWhile_nil, List.isEmpty_nil, if_true]
    rw [ih (triStep w S) _ (by simpa [triStep] using hlen) (Or.inr rfl) (by rw [triStep_labels]; exact hnd) hok.2]
    simp [triFinal]

/-- a matrix about to be written in blocks: nothing written yet -/
def tri0 (rows : List (Str × Str)) : List Tri := rows.map (fun r => (r.1, [], r.2))

/-- the lines of an interleaved relaxed PHYLIP file: header; first block with labels (padded to `ml`, two blanks) and the
first `w0` characters of every row; empty line; then label-less blocks of widths `ws`, each followed by an empty line -/
def phInterleavedLines (w : Bool) (ml nchar w0 : Nat) (ws : List Nat) (rows : List (Str × Str)) : List Str :=
  (natStr rows.length ++ [' '] ++ natStr nchar) ::
    ((tri0 rows).map (fun t => ljust ml (wlab w t.1) ++ [' ', ' '] ++ t.2.2.take w0) ++ [[]] ++ phPages ws (triStep w0 (tri0 rows)))

/-- **whole file, interleaved PHYLIP (`_parse_interleaved`).**  A matrix laid out in blocks of ANY widths `w0 :: ws` — labels
on the first block only, an empty line after every block — is read as: every row = the concatenation of its chunks, in
the order of the first block; the file is then accepted iff every row has exactly NCHAR characters (the final check of
`PhylipReader._read`).  Hypotheses: relaxed labels admissible for the option pair, labels distinct up to case, every chunk
a non-empty run of symbols that denote themselves (`PagesOk`). -/
theorem phylip_interleaved_read (cfg : PhCfg) (w : Bool) (rows : List (Str × Str)) (ml nchar w0 : Nat) (ws : List Nat)
    (hs : cfg.strict = false) (hi : cfg.interleaved = true) (hne : rows ≠ []) (hk : nchar ≠ 0)
    (hnd : (rows.map (fun r => lower r.1)).Nodup)
    (hlab : ∀ r ∈ rows, RelaxedLabelOk w cfg.underscoresToSpaces r.1)
    (hpages : PagesOk cfg.al (w0 :: ws) (tri0 rows)) :
    phRead cfg (phInterleavedLines w ml nchar w0 ws rows)
      = if (triDone (triFinal (w0 :: ws) (tri0 rows))).all (fun r => r.2.length == nchar)
        then .ok (triDone (triFinal (w0 :: ws) (tri0 rows))) else .error .count := by
  have hrl : rows.length ≠ 0 := by cases rows with
    | nil => exact absurd rfl hne
    | cons _ _ => simp
  have hS : (tri0 rows).length = rows.length := by simp [tri0]
  have hSne : tri0 rows ≠ [] := by intro h; rw [h] at hS; simp at hS; exact hrl hS.symm
  have hndS : ((tri0 rows).map (fun t => lower t.1)).Nodup := by simpa [tri0, Function.comp_def] using hnd
  unfold phInterleavedLines
  rw [phRead_header cfg _ _ _ hrl hk (by simp [hS]; omega)]
  simp only [hi, if_true]
  have h0 : (⟨[], 0, rows.length, nchar⟩ : PhSt) = ⟨[], ([] : List (Str × Str)).length, rows.length, nchar⟩ := rfl
  rw [h0, List.append_assoc,
    ph_first_page cfg rows.length nchar w0 (fun l c => ljust ml (wlab w l) ++ [' ', ' '] ++ c) _ (tri0 rows) [] (-1) hSne
      (by simp [hS]) (by simpa using hndS) hpages.1
      (by
        intro t ht
        have hc := hpages.1 t ht
        constructor
        · apply rstrip_id
          rw [show ljust ml (wlab w t.1) ++ [' ', ' '] ++ t.2.2.take w0 = (ljust ml (wlab w t.1) ++ [' ', ' ']) ++ t.2.2.take w0 from rfl,
            getLast?_append_ne _ _ hc.1]
          exact last_nows _ (fun c hx => (hc.2 c hx).2)
        · intro h
          have := congrArg List.length h
          simp at this)
      (by
        intro t ht st hf hc
        have hck := hpages.1 t ht
        have hr : t.1 ∈ rows.map (·.1) := by
          simp only [tri0, List.mem_map] at ht ⊢
          obtain ⟨r, hr, rfl⟩ := ht
          exact ⟨r, hr, rfl⟩
        obtain ⟨r, hr', he⟩ := List.mem_map.mp hr
        exact phTaxon_relaxed cfg hs w ml t.1 _ (he ▸ hlab r hr')
          (by cases h : t.2.2.take w0 with
              | nil => rfl
              | cons c cs => simp [isBlank_of_isWs ((hck.2) c (by simp [h])).2]) st hf hc)]
  simp only [List.nil_append, List.singleton_append]
  rw [phInterleaved]
  simp only [rstrip, List.reverse_nil, List.dropWhile_nil, List.isEmpty_nil, if_true]
  have hd : (tri0 rows).map (fun t => (t.1, t.2.2.take w0)) = triDone (triStep w0 (tri0 rows)) := by
    simp [triDone, triStep, tri0, Function.comp_def]
  rw [hd, ph_pages_fold cfg rows.length nchar (by omega) ws (triStep w0 (tri0 rows)) (-1) (by simp [triStep, hS]) (Or.inl rfl)
    (by rw [triStep_labels]; exact hndS) hpages.2]
  first
    | (simp [triFinal]; done)
    | (simp [triFinal]; rfl)

/-- accepted: three rows of five characters in blocks of widths 2, 2, 1 -/
example : (phRead ⟨mkStates dna, false, true, false, false⟩
    (phInterleavedLines false 4 5 2 [2, 1] [("t1".toList, "ACGT-".toList), ("t2".toList, "NNACG".toList), ("t3".toList, "TTT?R".toList)])).toOption
    = some [("t1".toList, "ACGT-".toList), ("t2".toList, "NNACG".toList), ("t3".toList, "TTT?R".toList)] := by decide
/-- refused: the last block is missing (widths 2, 2 of 5 characters) -/
example : (phRead ⟨mkStates dna, false, true, false, false⟩
    (phInterleavedLines false 4 5 2 [2] [("t1".toList, "ACGT-".toList), ("t2".toList, "NNACG".toList)])).toOption = none := by decide

example : triFinal [2, 1] [("a".toList, [], "ACG".toList)] = [("a".toList, "ACG".toList, [])] := by decide
end DendroModel.C09

/-! ## TITLE / LINK tokens through escaping (`escape_nexus_token`) and the tokenizer, every option setting -/
namespace DendroModel.C09
open DendroModel.C09.Aux

theorem undbl_dbl (s : Str) : undbl (dblQuotes s) = s := by
  induction s with
  | nil => rfl
  | cons c cs ih =>
    by_cases hc : c = '\''
    · subst hc
      simp [dblQuotes, undbl, ih]
    · have hb : (c == '\'') = false := by simpa using hc
      simp only [dblQuotes, hb]
      cases hd : dblQuotes cs with
      | nil => rw [hd] at ih; simp [undbl, ← ih]
      | cons d ds =>
        rw [hd] at ih
        simp [undbl, hb, ih]

theorem quoted_roundtrip (pu : Bool) (s : Str) : readToken pu ('\'' :: (dblQuotes s ++ ['\''])) = s := by
  simp [readToken, undbl_dbl]

/-- per character: the key is blind to the underscore/blank difference, before or after upper-casing -/
theorem tkey_u2s (s : Str) : tkey (u2s s) = tkey s := by
  unfold tkey upper u2s
  induction s with
  | nil => rfl
  | cons c cs ih =>
    simp only [List.map_cons, List.cons.injEq]
    refine ⟨?_, ih⟩
    by_cases hc : c = '_'
    · subst hc; decide
    · simp [hc]

theorem tkey_s2u (s : Str) : tkey (s2u s) = tkey s := by
  unfold tkey upper u2s s2u
  induction s with
  | nil => rfl
  | cons c cs ih =>
    simp only [List.map_cons, List.cons.injEq]
    refine ⟨?_, ih⟩
    by_cases hc : c = ' '
    · subst hc; decide
    · simp [hc]

theorem readToken_unquoted (pu : Bool) (t : Str) (h : t.head? ≠ some '\'') :
    readToken pu t = if pu then t else u2s t := by
  unfold readToken
  split
  · simp at h
  · rfl

theorem not_protect (s : Str) (h : needsProtect s = false) : ∀ c ∈ s, c ≠ '\t' ∧ c ≠ '\'' := by
  intro c hc
  simp only [needsProtect, List.any_eq_false] at h
  have := h c hc
  constructor
  · intro he; subst he; exact absurd this (by decide)
  · intro he; subst he; exact absurd this (by decide)

theorem tkey_spaces (s : Str) (h : ∀ c ∈ s, c ≠ '\t') :
    tkey (s.map (fun c => if c == ' ' || c == '\t' then '_' else c)) = tkey s := by
  unfold tkey upper u2s
  induction s with
  | nil => rfl
  | cons c cs ih =>
    simp only [List.map_cons, List.cons.injEq]
    refine ⟨?_, ih (fun x hx => h x (by simp [hx]))⟩
    by_cases hc : c = ' '
    · subst hc; decide
    · have ht : c ≠ '\t' := h c (by simp)
      simp [hc, ht]

/-- a written title token reads back, under either reader setting, as a title with the same key -/
theorem tkey_readToken (ps qu pu : Bool) (s : Str) : tkey (readToken pu (escToken ps qu s)) = tkey s := by
  unfold escToken
  split
  · rename_i h1
    simp only [Bool.and_eq_true, Bool.not_eq_true'] at h1
    have hp := not_protect s h1.2
    have hh : (s.map (fun c => if c == ' ' || c == '\t' then '_' else c)).head? ≠ some '\'' := by
      cases s with
      | nil => simp
      | cons c cs =>
        have := (hp c (by simp)).2
        simp only [List.map_cons, List.head?_cons, ne_eq, Option.some.injEq]
        split
        · decide
        · exact this
    rw [readToken_unquoted pu _ hh]
    cases pu
    · simp only [Bool.false_eq_true, if_false]; rw [tkey_u2s]; exact tkey_spaces s (fun c hc => (hp c hc).1)
    · simp only [if_true]; exact tkey_spaces s (fun c hc => (hp c hc).1)
  · split
    · rw [quoted_roundtrip]
    · rename_i h1 h2
      have hnp : needsProtect s = false := by
        cases h : needsProtect s with
        | false => rfl
        | true => simp [h] at h2
      have hp := not_protect s hnp
      have hh : s.head? ≠ some '\'' := by
        cases s with
        | nil => simp
        | cons c cs => simpa using (hp c (by simp)).2
      rw [readToken_unquoted pu _ hh]
      cases pu
      · simp only [Bool.false_eq_true, if_false]; exact tkey_u2s s
      · rfl

/-- default writer options (hard underscores) and default reader: the title reads back exactly -/
theorem title_token_roundtrip (ps : Bool) (s : Str) : readToken false (escToken ps true s) = s := by
  unfold escToken
  split
  · rename_i h1
    simp only [Bool.and_eq_true, Bool.not_eq_true'] at h1
    have hp := not_protect s h1.2
    have hu : ∀ c ∈ s, c ≠ '_' := by
      intro c hc he; subst he
      have := h1.1.2
      simp [hc] at this
    have hh : (s.map (fun c => if c == ' ' || c == '\t' then '_' else c)).head? ≠ some '\'' := by
      cases s with
      | nil => simp
      | cons c cs =>
        have := (hp c (by simp)).2
        simp only [List.map_cons, List.head?_cons, ne_eq, Option.some.injEq]
        split
        · decide
        · exact this
    rw [readToken_unquoted false _ hh]
    simp only [Bool.false_eq_true, if_false, u2s, List.map_map]
    clear hh h1
    induction s with
    | nil => rfl
    | cons c cs ih =>
      simp only [List.map_cons, List.cons.injEq]
      refine ⟨?_, ih (fun x hx => hp x (by simp [hx])) (fun x hx => hu x (by simp [hx]))⟩
      have h1 := (hp c (by simp)).1
      have h2 := hu c (by simp)
      by_cases hc : c = ' '
      · subst hc; decide
      · simp [hc, h1, h2]
  · split
    · rw [quoted_roundtrip]
    · rename_i h1 h2
      simp only [Bool.true_and, Bool.or_eq_true, not_or, Bool.not_eq_true] at h2
      have hp := not_protect s h2.1.1
      have hh : s.head? ≠ some '\'' := by
        cases s with
        | nil => simp
        | cons c cs => simpa using (hp c (by simp)).2
      rw [readToken_unquoted false _ hh]
      simp only [Bool.false_eq_true, if_false, u2s]
      have hu : ∀ c ∈ s, c ≠ '_' := by
        intro c hc he; subst he
        have := h2.2
        simp [hc] at this
      clear hh h1 h2
      induction s with
      | nil => rfl
      | cons c cs ih =>
        simp only [List.map_cons, List.cons.injEq]
        refine ⟨?_, ih (fun x hx => hp x (by simp [hx])) (fun x hx => hu x (by simp [hx]))⟩
        simp [hu c (by simp)]

/-- TITLE / LINK tokens written under ANY setting of `preserve_spaces` / `unquoted_underscores` and read back with or
without `preserve_underscores`: every block's LINK resolves to the block's own namespace, for arbitrary namespace
labels — equal ones, or labels differing only in letter case, in blank versus underscore, or in quote characters.
(The repaired writer keys uniqueness on `tkey`, which no combination of escaping and reading can merge.) -/
theorem title_link_resolves_escaped (ps uu pu : Bool) (sup : Option Bool) (labels : List Str) (blocks : List Nat)
    (hs : sup = some false ∨ (sup = none ∧ labels.length > 1))
    (hb : ∀ b ∈ blocks, b < labels.length) :
    readLinksE pu (writeLinksE ps uu sup labels blocks) = blocks.map .ok := by
  obtain ⟨hlen, _, hnd⟩ := assignTitles_distinct labels []
  let dec : Str → Str := fun t => readToken pu (escToken ps (!uu) t)
  have hlen' : ((assignTitles [] labels).map dec).length = labels.length := by simp [hlen]
  have hd : ∀ i j, i < ((assignTitles [] labels).map dec).length → j < ((assignTitles [] labels).map dec).length →
      (((assignTitles [] labels).map dec)[i]?).map upper = (((assignTitles [] labels).map dec)[j]?).map upper → i = j := by
    intro i j hi hj he
    have hi' : i < (assignTitles [] labels).length := by simpa using hi
    have hj' : j < (assignTitles [] labels).length := by simpa using hj
    have : ((assignTitles [] labels).map tkey)[i]? = ((assignTitles [] labels).map tkey)[j]? := by
      have he' := congrArg (Option.map u2s) he
      simp only [List.getElem?_map, List.getElem?_eq_getElem hi', List.getElem?_eq_getElem hj', Option.map_some,
        Option.some.injEq] at he' ⊢
      have e1 : u2s (upper (dec (assignTitles [] labels)[i])) = tkey (assignTitles [] labels)[i] := tkey_readToken _ _ _ _
      have e2 : u2s (upper (dec (assignTitles [] labels)[j])) = tkey (assignTitles [] labels)[j] := tkey_readToken _ _ _ _
      rw [← e1, ← e2]; exact he'
    exact (List.getElem?_inj (by simpa using hi') hnd).mp this
  have hl : linkBlocks sup labels.length = true := by
    rcases hs with h | ⟨h, h'⟩ <;> simp [linkBlocks, h] <;> omega
  unfold readLinksE writeLinksE readLinks writeLinks
  simp only [hl, if_true, List.map_map]
  apply List.map_congr_left
  intro b hbm
  have hb' : b < ((assignTitles [] labels).map dec).length := by rw [hlen']; exact hb b hbm
  have := resolve_distinct ((assignTitles [] labels).map dec) b hb' hd
  simpa [Function.comp_def, dec, List.getElem?_map] using this

example : (readLinksE false (writeLinksE true true none ["Clade A".toList, "Clade_A".toList, "clade a".toList] [2, 0, 1])).map
    Except.toOption = [some 2, some 0, some 1] := by decide
example : (writeLinksE true true none ["Clade A".toList, "Clade_A".toList] [1]).1
    = [some "'Clade A'".toList, some "Clade_A.1".toList] := by decide
example : escToken false true "it's".toList = "'it''s'".toList ∧ readToken false "'it''s'".toList = "it's".toList := by decide
end DendroModel.C09

/-! ## Tie A: kernels regenerated from the current source (`Gen/C09Consts.lean`, `Gen/Tables.lean`) equal the model's -/
namespace DendroModel.C09

/-- PHYLIP strict: the writer's slice / pad width, the reader's label and sequence columns are the model's `10`
(`phWrite`, `phTaxon`); the relaxed spacer is the model's two blanks -/
theorem bridge_phylip_widths :
    C09Consts.phylipStrictSlice = 10 ∧ C09Consts.phylipStrictPad = 10 ∧ C09Consts.phylipStrictReadLabel = 10 ∧
    C09Consts.phylipStrictReadRest = 10 ∧ C09Consts.phylipRelaxedSpacer = 2 := by decide

/-- the same, as statements about the model's functions: the strict label field of `phWrite` and the split of `phTaxon` -/
theorem bridge_phylip_strict (l line : Str) :
    ljust C09Consts.phylipStrictPad (l.take C09Consts.phylipStrictSlice) = ljust 10 (l.take 10) ∧
    (strip (line.take C09Consts.phylipStrictReadLabel), line.drop C09Consts.phylipStrictReadRest) = (strip (line.take 10), line.drop 10) :=
  ⟨rfl, rfl⟩

/-- FASTA: wrapping is on by default and breaks at the model's column (`wrap70`) -/
theorem bridge_fasta_wrap : C09Consts.fastaWrap = true ∧ C09Consts.fastaWrapWidth = 70 := by decide

/-- the DATATYPE keyword table of `_parse_format_statement`, as a function -/
def genDataTypeOf (t : Str) : Str :=
  match C09Consts.datatypeKeywords.find? (fun p => p.1.toList == t) with
  | some p => p.2.toList
  | none => C09Consts.datatypeDefault.toList

/-- … is the model's `dataTypeOf` on EVERY token (order of the source's branches irrelevant) -/
theorem bridge_datatype (t : Str) : dataTypeOf t = genDataTypeOf t := by
  by_cases h1 : t = "DNA".toList
  · subst h1; decide
  by_cases h2 : t = "NUCLEOTIDES".toList
  · subst h2; decide
  by_cases h3 : t = "RNA".toList
  · subst h3; decide
  by_cases h4 : t = "NUCLEOTIDE".toList
  · subst h4; decide
  by_cases h5 : t = "PROTEIN".toList
  · subst h5; decide
  by_cases h6 : t = "CONTINUOUS".toList
  · subst h6; decide
  have e : ∀ k : Str, t ≠ k → (k == t) = false := fun k hk => by simpa using fun h => hk h.symm
  have e' : ∀ k : Str, t ≠ k → (t == k) = false := fun k hk => by simpa using hk
  unfold dataTypeOf genDataTypeOf
  simp only [C09Consts.datatypeKeywords, C09Consts.datatypeDefault, List.find?, e _ h1, e _ h2, e _ h3, e _ h4, e _ h5, e _ h6,
    e' _ h1, e' _ h2, e' _ h3, e' _ h4, e' _ h5, e' _ h6, Bool.or_self, Bool.false_eq_true, if_false]

/-- the reader's initial FORMAT state and the symbol list a STANDARD datatype installs -/
theorem bridge_format_init :
    Fmt.init = ⟨C09Consts.datatypeDefault.toList, C09Consts.readerSymbols.toList, C09Consts.readerGap.toList,
      C09Consts.readerMissing.toList, C09Consts.readerMatch.toList, C09Consts.readerInterleave⟩ ∧
    C09Consts.datatypeDefaultSymbols.toList = "0123456789".toList := by decide

/-- the tokenizer's captured delimiters and the quoting class (both regenerated) are the model's -/
theorem bridge_captured : captured = Tables.tokCaptured := by decide

example : genDataTypeOf "NUCLEOTIDES".toList = "dna".toList ∧ genDataTypeOf "FOO".toList = "standard".toList := by decide
end DendroModel.C09
