import DendroModel.Model.C09
import Std.Data.String.ToNat
/-! C09 — property theorems about the model the driver `drv_c09` executes.
Helper lemmas live in `DendroModel.C09.Aux`; every theorem directly inside `DendroModel.C09` is an obligation. -/
namespace DendroModel.C09.Aux
open DendroModel.C09

theorem foldl_err (cfg : RCfg) (l : List Char) (st : RS) (e : Err) (h : st.err = some e) :
    l.foldl (stepChar cfg) st = st := by
  induction l generalizing st with
  | nil => rfl
  | cons c cs ih =>
    have : stepChar cfg st c = st := by unfold stepChar; rw [h]
    simp [List.foldl, this, ih st h]

/-- characters accumulate inside an open group -/
theorem foldl_group (cfg : RCfg) (p : Bool) (ms : List Char) (out : List Cell) (acc : List Char)
    (h : ∀ m ∈ ms, isWs m = false ∧ m ≠ (if p then ')' else '}')) :
    ms.foldl (stepChar cfg) ⟨out, some (p, acc), none⟩ = ⟨out, some (p, acc ++ ms), none⟩ := by
  induction ms generalizing acc with
  | nil => simp
  | cons m ms ih =>
    have hm := h m (by simp)
    have hstep : stepChar cfg ⟨out, some (p, acc), none⟩ m = ⟨out, some (p, acc ++ [m]), none⟩ := by
      unfold stepChar
      simp [hm.1, hm.2]
    rw [List.foldl_cons, hstep, ih (acc ++ [m]) (fun x hx => h x (by simp [hx]))]
    simp

theorem setRow_fresh (acc : Acc) (l : Str) (cells : List Cell) (h : findRow acc l = none) :
    setRow acc l cells = acc ++ [(l, some cells)] := by
  induction acc with
  | nil => simp [setRow]
  | cons p ps ih =>
    unfold findRow at h
    by_cases hp : lower p.1 == lower l
    · simp [List.find?, hp] at h
    · have h' : findRow ps l = none := by
        unfold findRow
        simpa [List.find?, hp] using h
      simp [setRow, hp, ih h']

theorem findRow_none (acc : Acc) (l : Str) (h : ∀ p ∈ acc, (lower p.1 == lower l) = false) : findRow acc l = none := by
  unfold findRow
  rw [List.find?_eq_none.mpr (by intro p hp; simp [h p hp])]
  rfl

theorem findRow_append (pre rest : Acc) (l : Str) (h : ∀ p ∈ pre, (lower p.1 == lower l) = false) :
    findRow (pre ++ rest) l = findRow rest l := by
  induction pre with
  | nil => rfl
  | cons p ps ih =>
    have hp := h p (by simp)
    have := ih (fun q hq => h q (by simp [hq]))
    unfold findRow at this ⊢
    simp only [List.cons_append, List.find?_cons, hp]
    exact this

theorem setRow_append (pre rest : Acc) (l : Str) (c : List Cell) (h : ∀ p ∈ pre, (lower p.1 == lower l) = false) :
    setRow (pre ++ rest) l c = pre ++ setRow rest l c := by
  induction pre with
  | nil => rfl
  | cons p ps ih =>
    have hp := h p (by simp)
    simp [setRow, hp, ih (fun q hq => h q (by simp [hq]))]

theorem accRows_someRows (m : Matrix) : accRows (m.map (fun r => (r.1, some r.2))) = m := by
  induction m with
  | nil => rfl
  | cons r rs ih =>
    unfold accRows at ih ⊢
    simp [List.filterMap_cons, ih]

theorem dropWhile_replicate_blank (k : Nat) (s : Str) (h : (s.head?.map isBlank).getD false = false) :
    (List.replicate k ' ' ++ s).dropWhile isBlank = s := by
  induction k with
  | zero =>
    cases s with
    | nil => simp
    | cons c cs => simp at h; simp [List.dropWhile, h]
  | succ k ih => simp [List.replicate_succ, List.dropWhile, isBlank, ih]

theorem splitRun_label (label rest : Str) (h : ∀ c ∈ label, isBlank c = false) :
    splitRun false (label ++ ' ' :: rest) = some (label, rest.dropWhile isBlank) := by
  induction label with
  | nil => simp [splitRun, isBlank]
  | cons c cs ih =>
    have hc := h c (by simp)
    simp [splitRun, hc, ih (fun x hx => h x (by simp [hx]))]

theorem rstrip_pad (l : Str) (k : Nat) (h : (l.getLast?.map isWs).getD false = false) :
    rstrip (l ++ List.replicate k ' ') = l := by
  unfold rstrip
  rw [List.reverse_append, List.reverse_replicate]
  have : (List.replicate k ' ' ++ l.reverse).dropWhile isWs = l.reverse := by
    induction k with
    | zero =>
      cases hl : l.reverse with
      | nil => simp
      | cons c cs =>
        have : l.getLast? = some c := by
          rw [List.getLast?_eq_head?_reverse, hl]; rfl
        simp [this] at h
        simp [List.dropWhile, h]
    | succ k ih => simp [List.replicate_succ, List.dropWhile, isWs, ih]
  rw [this, List.reverse_reverse]

theorem lstrip_id (l : Str) (h : (l.head?.map isWs).getD false = false) : lstrip l = l := by
  unfold lstrip
  cases l with
  | nil => rfl
  | cons c cs => simp at h; simp [List.dropWhile, h]

theorem setAt_end (v : List (Option α)) (x : α) : setAt v v.length x = v ++ [some x] := by
  simp [setAt]

theorem nexml_fold (chars : List Nat) (colId : Nat → Nat) (cells : List α) (k : Nat) (v : List (Option α))
    (hv : v.length = k) (h : ∀ j, j < k + cells.length → colId j ∈ chars ∧ chars.idxOf (colId j) = j) :
    (((List.range' k cells.length).map colId).zip cells).foldl
        (fun v c => v.bind (fun v => if chars.contains c.1 then some (setAt v (chars.idxOf c.1) c.2) else none)) (some v)
      = some (v ++ cells.map some) := by
  induction cells generalizing k v with
  | nil => simp
  | cons c cs ih =>
    have hk := h k (by simp)
    simp only [List.length_cons, List.range'_succ, List.map_cons, List.zip_cons_cons, List.foldl_cons]
    have hc : chars.contains (colId k) = true := by simpa using hk.1
    simp only [Option.bind_some, hc, if_true]
    rw [hk.2, ← hv, setAt_end]
    rw [ih (v.length + 1) (v ++ [some c]) (by simp) (fun j hj => h j (by simp at hj ⊢; omega))]
    simp

theorem filter_range_unique (p : Nat → Bool) (n b : Nat) (hb : b < n) (hp : ∀ i, i < n → (p i = true ↔ i = b)) :
    (List.range n).filter p = [b] := by
  induction n with
  | zero => omega
  | succ n ih =>
    rw [List.range_succ, List.filter_append]
    by_cases hbn : b = n
    · subst hbn
      have h1 : (List.range b).filter p = [] := by
        apply List.filter_eq_nil_iff.mpr
        intro i hi
        have hi' : i < b := List.mem_range.mp hi
        have := hp i (by omega)
        intro hpi
        have := this.mp hpi
        omega
      have h2 : p b = true := (hp b (by omega)).mpr rfl
      simp [h1, h2]
    · have h1 := ih (by omega) (fun i hi => hp i (by omega))
      have h2 : p n = false := by
        cases hpn : p n with
        | false => rfl
        | true => have := (hp n (by omega)).mp hpn; omega
      simp [h1, h2]

/-! NeXML column ids -/
theorem range_union (k n : Nat) :
    List.range k ++ (List.range n).filter (fun i => !(List.range k).contains i) = List.range (max k n) := by
  induction n with
  | zero => simp
  | succ n ih =>
    rw [List.range_succ, List.filter_append, ← List.append_assoc, ih]
    by_cases h : n < k
    · have e1 : max k n = k := by omega
      have e2 : max k (n + 1) = k := by omega
      simp [h, e1, e2]
    · have e1 : max k n = n := by omega
      have e2 : max k (n + 1) = n + 1 := by omega
      have h' : k ≤ n := by omega
      simp [h', e1, e2, List.range_succ]

theorem nexmlChars_fold (lens : List Nat) : ∀ k,
    lens.foldl (fun acc n => acc ++ (List.range n).filter (fun i => !acc.contains i)) (List.range k)
      = List.range (lens.foldl max k) := by
  induction lens with
  | nil => intro k; rfl
  | cons n ns ih =>
    intro k
    simp only [List.foldl_cons]
    rw [range_union, ih]

theorem idxOf_range (n j : Nat) (h : j < n) : (List.range n).idxOf j = j := by
  induction n with
  | zero => omega
  | succ n ih =>
    rw [List.range_succ, List.idxOf_append]
    by_cases hj : j < n
    · simp [hj, ih hj]
    · have : j = n := by omega
      subst this
      simp

theorem le_foldl_max (lens : List Nat) : ∀ k, k ≤ lens.foldl max k ∧ ∀ n ∈ lens, n ≤ lens.foldl max k := by
  induction lens with
  | nil => intro k; simp
  | cons a as ih =>
    intro k
    obtain ⟨h1, h2⟩ := ih (max k a)
    simp only [List.foldl_cons, List.mem_cons]
    refine ⟨by omega, ?_⟩
    intro n hn
    rcases hn with rfl | hn
    · omega
    · exact h2 n hn


/-! title de-duplication: pigeonhole -/
theorem natStr_inj {i j : Nat} (h : natStr i = natStr j) : i = j := by
  unfold natStr at h
  have : toString i = toString j := String.toList_inj.mp h
  exact Nat.repr_injective this

theorem natStr_digits (n : Nat) : ∀ c ∈ natStr n, c.isDigit = true := by
  intro c hc
  unfold natStr at hc
  have : (toString n).toList = Nat.toDigits 10 n := by
    show (Nat.repr n).toList = _
    simp [Nat.repr]
  rw [this] at hc
  exact Nat.isDigit_of_mem_toDigits (by decide) (by decide) hc

theorem toUpper_digit (c : Char) (h : c.isDigit = true) : c.toUpper = c := by
  simp [Char.isDigit] at h
  unfold Char.toUpper
  have h2 := h.2
  have : ¬ (c.val ≥ 97 ∧ c.val ≤ 122) := by
    intro ⟨h1, _⟩
    have a : (97 : UInt32) ≤ c.val := h1
    have b : c.val ≤ (57 : UInt32) := h2
    have := UInt32.le_trans a b
    exact absurd this (by decide)
  simp [this]

def hit (used : List Str) (c : Str) : Bool := used.any (fun u => upper u == upper c)

/-- the candidates `freshTitle` examines, in order -/
def cands (orig : Str) : Nat → Nat → Str → List Str
  | _, 0, _ => []
  | idx, f + 1, cand => cand :: cands orig (idx + 1) f (orig ++ ['.'] ++ natStr idx)

theorem freshTitle_first (used : List Str) (orig : Str) (fuel : Nat) : ∀ (idx : Nat) (cand : Str),
    (∃ c ∈ cands orig idx fuel cand, hit used c = false) → hit used (freshTitle used orig idx fuel cand) = false := by
  induction fuel with
  | zero => intro idx cand ⟨c, hc, _⟩; simp [cands] at hc
  | succ f ih =>
    intro idx cand ⟨c, hc, hf⟩
    unfold freshTitle
    by_cases hh : hit used cand = true
    · have hh' : (used.any fun u => upper u == upper cand) = true := hh
      simp only [hh', if_true]
      apply ih
      simp only [cands, List.mem_cons] at hc
      rcases hc with rfl | hc
      · rw [hh] at hf; cases hf
      · exact ⟨c, hc, hf⟩
    · have hh' : (used.any fun u => upper u == upper cand) = false := by
        simpa [hit] using hh
      simp only [hh']
      simpa [hit] using hh

theorem upper_natStr (n : Nat) : upper (natStr n) = natStr n := by
  unfold upper
  have := natStr_digits n
  generalize natStr n = l at this
  induction l with
  | nil => rfl
  | cons c cs ih =>
    simp [toUpper_digit c (this c (by simp)), ih (fun x hx => this x (by simp [hx]))]

theorem upper_cand (orig : Str) (idx : Nat) :
    upper (orig ++ ['.'] ++ natStr idx) = upper orig ++ ['.'] ++ natStr idx := by
  have h := upper_natStr idx
  unfold upper at h ⊢
  have hd : Char.toUpper '.' = '.' := by decide
  simp only [List.map_append, List.map_cons, List.map_nil, h, hd]

theorem upper_length (s : Str) : (upper s).length = s.length := by simp [upper]

theorem cands_upper (orig : Str) (f : Nat) : ∀ idx, ∀ c ∈ cands orig (idx + 1) f (orig ++ ['.'] ++ natStr idx),
    ∃ j, idx ≤ j ∧ upper c = upper orig ++ ['.'] ++ natStr j := by
  induction f with
  | zero => intro idx c hc; simp [cands] at hc
  | succ f ih =>
    intro idx c hc
    simp only [cands, List.mem_cons] at hc
    rcases hc with rfl | hc
    · exact ⟨idx, Nat.le_refl _, upper_cand orig idx⟩
    · obtain ⟨j, hj, he⟩ := ih (idx + 1) c hc
      exact ⟨j, by omega, he⟩

theorem cands_nodup_tail (orig : Str) (f : Nat) : ∀ idx,
    ((cands orig (idx + 1) f (orig ++ ['.'] ++ natStr idx)).map upper).Nodup := by
  induction f with
  | zero => intro idx; simp [cands]
  | succ f ih =>
    intro idx
    simp only [cands, List.map_cons, List.nodup_cons]
    refine ⟨?_, ih (idx + 1)⟩
    intro hmem
    obtain ⟨c, hc, he⟩ := List.mem_map.mp hmem
    obtain ⟨j, hj, hj'⟩ := cands_upper orig f (idx + 1) c hc
    rw [upper_cand orig idx, hj'] at he
    have := natStr_inj (List.append_cancel_left he)
    omega

theorem cands_nodup (l : Str) (f : Nat) : ((cands l 1 f l).map upper).Nodup := by
  cases f with
  | zero => simp [cands]
  | succ f =>
    simp only [cands, List.map_cons, List.nodup_cons]
    refine ⟨?_, cands_nodup_tail l f 1⟩
    intro hmem
    obtain ⟨c, hc, he⟩ := List.mem_map.mp hmem
    obtain ⟨j, _, hj'⟩ := cands_upper l f 1 c hc
    have := congrArg List.length (he.symm.trans hj')
    simp at this

theorem cands_length (orig : Str) (f : Nat) : ∀ idx cand, (cands orig idx f cand).length = f := by
  induction f with
  | zero => intros; rfl
  | succ f ih => intro idx cand; simp [cands, ih]

/-- pigeonhole: pairwise case-distinct candidates cannot all collide with the used titles if there are more of them -/
theorem exists_fresh (used l : List Str) (hn : (l.map upper).Nodup) (hlen : used.length < l.length) :
    ∃ c ∈ l, hit used c = false := by
  apply Classical.byContradiction
  intro hno
  have hall : ∀ c ∈ l, hit used c = true := by
    intro c hc
    cases h : hit used c with
    | true => rfl
    | false => exact absurd ⟨c, hc, h⟩ hno
  have hsub : l.map upper ⊆ used.map upper := by
    intro x hx
    obtain ⟨c, hc, rfl⟩ := List.mem_map.mp hx
    have := hall c hc
    simp only [hit, List.any_eq_true, beq_iff_eq] at this
    obtain ⟨u, hu, he⟩ := this
    exact List.mem_map.mpr ⟨u, hu, he⟩
  have := List.Nodup.length_le_of_subset hn hsub
  simp at this
  omega

theorem freshTitle_fresh (used : List Str) (l : Str) :
    hit used (freshTitle used l 1 (used.length + 1) l) = false :=
  freshTitle_first used l _ 1 l (exists_fresh used _ (cands_nodup l _) (by simp [cands_length]))


end DendroModel.C09.Aux

namespace DendroModel.C09
open DendroModel.Alphabets DendroModel.C09.Aux

/-! ### symbols -/

/-- every canonical symbol of every generated state alphabet denotes itself (`alphabet[str(state)] is state`) -/
theorem symbol_roundtrip :
    ∀ sp ∈ [dna, rna, nucleotide, protein, binary, standardDefault],
      ∀ c ∈ canonSyms (mkStates sp), lookup (mkStates sp) c = some c := by
  decide

/-- the generated alphabets are case-insensitive: the lower-case form of a symbol denotes the same state -/
theorem symbol_case_insensitive :
    ∀ sp ∈ [dna, rna, nucleotide, protein, binary, standardDefault],
      ∀ c ∈ canonSyms (mkStates sp), lookup (mkStates sp) c.toLower = some c := by
  decide

/-- every ambiguity code of the generated alphabets (nucleotide included) is found again from its member set written
as a `{..}` token: no two codes of one alphabet share a member set -/
theorem ambiguity_token_roundtrip :
    ∀ sp ∈ [dna, rna, nucleotide, protein],
      ∀ p ∈ sp.ambig, resolveMulti (mkStates sp) false p.2 = some (.sym p.1) := by
  decide

/-- declared symbol synonyms (`X` for `N` in the nucleotide alphabets) denote the canonical symbol, and the gap /
missing symbols are symbols of their alphabets -/
theorem symbol_synonyms :
    ∀ sp ∈ [dna, rna, nucleotide, protein, binary, standardDefault],
      (∀ p ∈ sp.syn, lookup (mkStates sp) p.1 = some p.2) ∧
      (∀ g ∈ sp.gap.toList ++ sp.missing.toList, lookup (mkStates sp) g = some g) := by
  decide

/-! ### NEXUS FORMAT -/

/-- the FORMAT terms the writer emits for each fixed data type (generated from `_compose_format_terms`) parse back to
that data type with gap `-`, missing `?`, match character `.`, not interleaved -/
theorem format_roundtrip :
    ∀ dt ∈ ["dna".toList, "rna".toList, "nucleotide".toList, "protein".toList],
      parseFormatText ("FORMAT ".toList ++ formatOf dt dna ++ [';'])
        = some ⟨dt, [], ['-'], ['?'], ['.'], false⟩ := by
  decide

/-- the FORMAT statement composed for a standard alphabet parses back to type `standard`, the same symbol set (gap
included, as written), gap `-`, missing `?`, not interleaved; and in the alphabet rebuilt from it every symbol, the gap
and the missing symbol denote themselves -/
def stdFormatOk (syms : Str) : Bool :=
  match parseFormatText ("FORMAT ".toList ++ formatOf "standard".toList (specStd syms (some '-') (some '?')) ++ [';']) with
  | none => false
  | some f =>
    f.dataType == "standard".toList && canonSet f.symbols == canonSet (syms ++ ['-']) && f.gap == ['-'] &&
    f.missing == ['?'] && !f.interleave &&
    match alphabetOfFmt f with
    | none => false
    | some al => (syms ++ ['-', '?']).all (fun c => lookup al c == some c)

/-- STANDARD matrices: the FORMAT statement composed for an alphabet (`SYMBOLS="…"` with the gap among the symbols,
`MISSING=?`) parses back to the standard type with the same symbol set, and `_build_state_alphabet` rebuilds an
alphabet in which every symbol denotes itself.  `_partial`: proved for the default alphabet and the custom symbol
sets the generator uses (a finite list, by evaluation), not for an arbitrary symbol string. -/
theorem format_standard_roundtrip_partial :
    ∀ syms ∈ ["0123456789".toList, "01".toList, "10".toList, "012".toList, "0123".toList, "ABC".toList, "01234567".toList],
      stdFormatOk syms = true := by
  decide

/-! ### NEXUS rows -/

/-- what a written cell reads back as: a symbol as itself, a symbol-less multistate with its member set in canonical
order (the writer keeps the state's own member order, e.g. `(20)`; the state read back is the set {0,2}) -/
def readsAs : Cell → Cell
  | .sym c => .sym c
  | .multi p ms => .multi p (canonSet ms)

/-- a cell the (repaired) writer can emit and the reader takes back: a symbol that denotes itself and is not
white space, a bracket, `;` or a match character; or a symbol-less multistate, members in any order, whose member
set is not the set of a coded state of the alphabet -/
def CellOk (al : List St) (matchChars : List Char) : Cell → Prop
  | .sym c => lookup al c = some c ∧ isWs c = false ∧ c ≠ '{' ∧ c ≠ '(' ∧ c ≠ ';' ∧ c ∉ matchChars
  | .multi p ms => resolveMulti al p ms = some (.multi p (canonSet ms)) ∧
      ∀ m ∈ ms, isWs m = false ∧ m ≠ (if p then ')' else '}')

theorem cells_fold (cfg : RCfg) (cells : List Cell) (out : List Cell)
    (hok : ∀ c ∈ cells, CellOk cfg.al cfg.matchChars c)
    (hn : cfg.have_ + out.length + cells.length ≤ cfg.nchar) :
    (renderCells cells).foldl (stepChar cfg) ⟨out, none, none⟩ = ⟨out ++ cells.map readsAs, none, none⟩ := by
  induction cells generalizing out with
  | nil => simp [renderCells]
  | cons c cs ih =>
    have hc := hok c (by simp)
    have hlt : ¬ (cfg.have_ + out.length ≥ cfg.nchar) := by simp at hn ⊢; omega
    have hrest : ∀ x : Cell, cfg.have_ + (out ++ [x]).length + cs.length ≤ cfg.nchar := by
      intro x; simp at hn ⊢; omega
    simp only [renderCells, List.foldl_append]
    cases c with
    | sym ch =>
      obtain ⟨h1, h2, h3, h4, h5, h6⟩ := hc
      have hstep : stepChar cfg ⟨out, none, none⟩ ch = ⟨out ++ [Cell.sym ch], none, none⟩ := by
        unfold stepChar pushCell
        simp [h1, h2, h3, h4, h5, h6, hlt]
      simp only [renderCell, List.foldl_cons, List.foldl_nil, hstep]
      rw [ih (out ++ [Cell.sym ch]) (fun x hx => hok x (by simp [hx])) (hrest _)]
      simp [readsAs]
    | multi p ms =>
      obtain ⟨h1, h2⟩ := hc
      cases p with
      | true =>
        have hopen : stepChar cfg ⟨out, none, none⟩ '(' = ⟨out, some (true, []), none⟩ := by
          unfold stepChar; simp [isWs]
        have hclose : stepChar cfg ⟨out, some (true, [] ++ ms), none⟩ ')' = ⟨out ++ [Cell.multi true (canonSet ms)], none, none⟩ := by
          unfold stepChar pushCell
          simp [h1, hlt]
        simp only [renderCell, List.foldl_cons, List.foldl_append, List.foldl_nil, hopen]
        rw [foldl_group cfg true ms out [] h2, hclose]
        rw [ih (out ++ [Cell.multi true (canonSet ms)]) (fun x hx => hok x (by simp [hx])) (hrest _)]
        simp [readsAs]
      | false =>
        have hopen : stepChar cfg ⟨out, none, none⟩ '{' = ⟨out, some (false, []), none⟩ := by
          unfold stepChar; simp [isWs]
        have hclose : stepChar cfg ⟨out, some (false, [] ++ ms), none⟩ '}' = ⟨out ++ [Cell.multi false (canonSet ms)], none, none⟩ := by
          unfold stepChar pushCell
          simp [h1, hlt]
        simp only [renderCell, List.foldl_cons, List.foldl_append, List.foldl_nil, hopen]
        rw [foldl_group cfg false ms out [] h2, hclose]
        rw [ih (out ++ [Cell.multi false (canonSet ms)]) (fun x hx => hok x (by simp [hx])) (hrest _)]
        simp [readsAs]

/-- `_read_character_states` applied to the text the writer produces for a row returns the row's cells, one by one,
including symbol-less `{..}` / `(..)` cells whatever the order in which the writer lists their members (they read
back as the same member *set*, `readsAs`), whenever the declared NCHAR leaves room for them -/
theorem cells_roundtrip (cfg : RCfg) (cells : List Cell)
    (hok : ∀ c ∈ cells, CellOk cfg.al cfg.matchChars c)
    (hn : cfg.have_ + cells.length ≤ cfg.nchar) :
    readStates cfg (renderCells cells) = .ok (cells.map readsAs) := by
  unfold readStates
  have := cells_fold cfg cells [] hok (by simpa using hn)
  simp [this]

/-- cells as they read back, row by row -/
def normM (m : Matrix) : Matrix := m.map (fun r => (r.1, r.2.map readsAs))
def someRows (m : Matrix) : Acc := m.map (fun r => (r.1, some r.2))
def noneRows (m : Matrix) : Acc := m.map (fun r => (r.1, none))

/-- one MATRIX row on either entry path of `_process_discrete_matrix_data`: the label is new (DATA block, taxa
created on the fly, room left under NTAX) or names a taxon of the TAXA block that has no sequence yet -/
theorem nexus_row_step (cfg : NxCfg) (acc : Acc) (first : Option Str) (label : Str) (cells : List Cell)
    (hk : (findRow acc label = none ∧ (cfg.ntax = 0 ∨ acc.length < cfg.ntax)) ∨ findRow acc label = some none)
    (hi : cfg.interleave = false)
    (hok : ∀ c ∈ cells, CellOk cfg.al cfg.matchChars c) (hlen : cells.length = cfg.nchar) :
    nxStep cfg (.ok (acc, first)) (label, renderCells cells)
      = .ok (setRow acc label (cells.map readsAs), some (first.getD label)) := by
  have hrs := cells_roundtrip ⟨cfg.al, cfg.matchChars, first.bind (fun l => (findRow acc l).bind id), cfg.nchar, 0⟩
    cells hok (by simp [hlen])
  rcases hk with ⟨hf, hroom⟩ | hf
  · have hroom' : (cfg.ntax == 0 || decide (acc.length < cfg.ntax)) = true := by
      rcases hroom with h | h <;> simp [h]
    simp [nxStep, hf, hroom', hrs, hlen, hi]
  · simp [nxStep, hf, hrs, hlen, hi]

/-- DATA-block path: the fold over the written rows, started from the rows already read -/
theorem nexus_fold_data (cfg : NxCfg) (hi : cfg.interleave = false) :
    ∀ (m P : Matrix) (first : Option Str),
      ((P ++ m).map (fun r => lower r.1)).Nodup →
      (∀ r ∈ m, ∀ c ∈ r.2, CellOk cfg.al cfg.matchChars c) → (∀ r ∈ m, r.2.length = cfg.nchar) →
      (cfg.ntax = 0 ∨ (P ++ m).length ≤ cfg.ntax) →
      ∃ f, (nxRows m).foldl (nxStep cfg) (.ok (someRows P, first)) = .ok (someRows (P ++ normM m), f) := by
  intro m
  induction m with
  | nil => intro P first _ _ _ _; exact ⟨first, by simp [nxRows, normM]⟩
  | cons r rs ih =>
    intro P first hnd hok hlen hnt
    have hfresh : findRow (someRows P) r.1 = none := by
      apply findRow_none
      intro p hp
      simp only [someRows, List.mem_map] at hp
      obtain ⟨q, hq, rfl⟩ := hp
      simp only [List.map_append, List.map_cons] at hnd
      have := (List.nodup_append.mp hnd).2.2 (lower q.1) (List.mem_map.mpr ⟨q, hq, rfl⟩) (lower r.1) (by simp)
      simpa using this
    have hroom : cfg.ntax = 0 ∨ (someRows P).length < cfg.ntax := by
      rcases hnt with h | h
      · exact Or.inl h
      · right; simp [someRows] at h ⊢; omega
    have hstep := nexus_row_step cfg (someRows P) first r.1 r.2 (Or.inl ⟨hfresh, hroom⟩) hi
      (hok r (by simp)) (hlen r (by simp))
    have hset : setRow (someRows P) r.1 (r.2.map readsAs) = someRows (P ++ [(r.1, r.2.map readsAs)]) := by
      rw [setRow_fresh _ _ _ hfresh]; simp [someRows]
    obtain ⟨f, hf⟩ := ih (P ++ [(r.1, r.2.map readsAs)]) (some (first.getD r.1))
      (by simpa [List.map_append] using hnd)
      (fun x hx => hok x (by simp [hx])) (fun x hx => hlen x (by simp [hx]))
      (by simpa [List.length_append, Nat.add_assoc, Nat.add_comm] using hnt)
    refine ⟨f, ?_⟩
    simp only [nxRows, List.map_cons, List.foldl_cons] at hf ⊢
    rw [hstep, hset, hf]
    simp [normM]

/-- TAXA + CHARACTERS path: the namespace already lists every label, rows fill it in order -/
theorem nexus_fold_taxa (cfg : NxCfg) (hi : cfg.interleave = false) :
    ∀ (m P : Matrix) (first : Option Str),
      ((P ++ m).map (fun r => lower r.1)).Nodup →
      (∀ r ∈ m, ∀ c ∈ r.2, CellOk cfg.al cfg.matchChars c) → (∀ r ∈ m, r.2.length = cfg.nchar) →
      ∃ f, (nxRows m).foldl (nxStep cfg) (.ok (someRows P ++ noneRows m, first))
        = .ok (someRows (P ++ normM m), f) := by
  intro m
  induction m with
  | nil => intro P first _ _ _; exact ⟨first, by simp [nxRows, normM, noneRows]⟩
  | cons r rs ih =>
    intro P first hnd hok hlen
    have hpre : ∀ p ∈ someRows P, (lower p.1 == lower r.1) = false := by
      intro p hp
      simp only [someRows, List.mem_map] at hp
      obtain ⟨q, hq, rfl⟩ := hp
      simp only [List.map_append, List.map_cons] at hnd
      have := (List.nodup_append.mp hnd).2.2 (lower q.1) (List.mem_map.mpr ⟨q, hq, rfl⟩) (lower r.1) (by simp)
      simpa using this
    have hfind : findRow (someRows P ++ noneRows (r :: rs)) r.1 = some none := by
      rw [findRow_append _ _ _ hpre]; simp [noneRows, findRow]
    have hstep := nexus_row_step cfg (someRows P ++ noneRows (r :: rs)) first r.1 r.2 (Or.inr hfind) hi
      (hok r (by simp)) (hlen r (by simp))
    have hset : setRow (someRows P ++ noneRows (r :: rs)) r.1 (r.2.map readsAs)
        = someRows (P ++ [(r.1, r.2.map readsAs)]) ++ noneRows rs := by
      rw [setRow_append _ _ _ _ hpre]; simp [noneRows, someRows, setRow]
    obtain ⟨f, hf⟩ := ih (P ++ [(r.1, r.2.map readsAs)]) (some (first.getD r.1))
      (by simpa [List.map_append] using hnd)
      (fun x hx => hok x (by simp [hx])) (fun x hx => hlen x (by simp [hx]))
    refine ⟨f, ?_⟩
    simp only [nxRows, List.map_cons, List.foldl_cons] at hf ⊢
    rw [hstep, hset, hf]
    simp [normM]

/-- **whole matrix, sequential NEXUS.**  What the (repaired) writer lays out for a matrix — one row per taxon, all
rows of the declared length, labels distinct up to case — is read back as the same taxa in the same order with the
same cells (`normM`: symbol-less multistates as member sets), both when a TAXA block has listed the labels and when the
MATRIX is in a DATA block and creates them.  Not covered here (correspondence only): interleaved pages, match
characters, rows in another order than TAXLABELS, label tokenisation (C02). -/
theorem nexus_matrix_roundtrip (cfg : NxCfg) (m : Matrix) (hi : cfg.interleave = false)
    (hlab : (m.map (fun r => lower r.1)).Nodup)
    (hok : ∀ r ∈ m, ∀ c ∈ r.2, CellOk cfg.al cfg.matchChars c)
    (hlen : ∀ r ∈ m, r.2.length = cfg.nchar) (hnt : cfg.ntax = 0 ∨ m.length ≤ cfg.ntax) :
    nxRead cfg (m.map (·.1)) (nxRows m) = .ok (normM m) ∧ nxRead cfg [] (nxRows m) = .ok (normM m) := by
  constructor
  · obtain ⟨f, hf⟩ := nexus_fold_taxa cfg hi m [] none (by simpa using hlab) hok hlen
    have h0 : (m.map (·.1)).map (fun t => ((t, none) : Str × Option (List Cell))) = someRows [] ++ noneRows m := by
      simp [someRows, noneRows]
    unfold nxRead
    rw [h0, hf]
    simp only [List.nil_append]
    exact congrArg Except.ok (accRows_someRows (normM m))
  · obtain ⟨f, hf⟩ := nexus_fold_data cfg hi m [] none (by simpa using hlab) hok hlen (by simpa using hnt)
    unfold nxRead
    simp only [List.map_nil]
    have : (.ok (([] : Acc), (none : Option Str)) : Except Err (Acc × Option Str)) = .ok (someRows [], none) := by
      simp [someRows]
    rw [this, hf]
    simp only [List.nil_append]
    exact congrArg Except.ok (accRows_someRows (normM m))

/-! ### PHYLIP -/

/-- sequence part of a PHYLIP line: canonical symbols read back as themselves -/
theorem phylip_sequence_roundtrip (al : List St) (s : Str)
    (h : ∀ c ∈ s, lookup al c = some c ∧ isBlank c = false) : phSeq al s = .ok s := by
  induction s with
  | nil => rfl
  | cons c cs ih =>
    have hc := h c (by simp)
    simp [phSeq, hc.1, hc.2, ih (fun x hx => h x (by simp [hx]))]

/-- `_partial`: a fragment (the `re.split` step `splitRun false` of `phTaxon` on the line `phWrite` lays out); it is not composed
into `phRead (phWrite m) = m`, and the multispace / underscore variants and interleaved paging have no theorem (all
four variants are compared with the code on every PHYLIP case).
Relaxed PHYLIP: the line the writer produces (label padded to the longest label, two spaces, sequence) splits back
into the label and the sequence, for every label without blanks (`LabelAdmissible` for the relaxed variant) -/
theorem phylip_relaxed_line_roundtrip_partial (label seq : Str) (width : Nat)
    (hl : ∀ c ∈ label, isBlank c = false) (hs : (seq.head?.map isBlank).getD false = false) :
    splitRun false (ljust width label ++ [' ', ' '] ++ seq) = some (label, seq) := by
  have : ljust width label ++ [' ', ' '] ++ seq
      = label ++ ' ' :: (List.replicate (width - label.length + 1) ' ' ++ seq) := by
    simp [ljust, List.replicate_succ, List.append_assoc]
    induction (width - label.length) with
    | zero => simp
    | succ k ih => simp [List.replicate_succ, ih]
  rw [this, splitRun_label label _ hl, dropWhile_replicate_blank _ _ hs]

/-- `_partial`: a fragment (the column split of the strict branch of `phTaxon`, written out on `phWrite`'s strict line
layout `ljust 10 (label.take 10) ++ seq`); not composed into a file round trip.
Strict PHYLIP: the first ten columns, stripped, give back every label of at most ten characters that does not
start or end with white space, and the sequence starts at column eleven -/
theorem phylip_strict_line_roundtrip_partial (label seq : Str) (hlen : label.length ≤ 10)
    (h1 : (label.head?.map isWs).getD false = false) (h2 : (label.getLast?.map isWs).getD false = false) :
    strip ((ljust 10 (label.take 10) ++ seq).take 10) = label ∧ (ljust 10 (label.take 10) ++ seq).drop 10 = seq := by
  have ht : label.take 10 = label := List.take_of_length_le hlen
  have hl : (ljust 10 label).length = 10 := by simp [ljust]; omega
  rw [ht]
  constructor
  · rw [List.take_append_of_le_length (by omega), List.take_of_length_le (by omega)]
    unfold strip ljust
    by_cases he : label = []
    · subst he; simp [lstrip, rstrip, isWs]
    · have : lstrip (label ++ List.replicate (10 - label.length) ' ') = label ++ List.replicate (10 - label.length) ' ' := by
        apply lstrip_id
        cases label with
        | nil => exact absurd rfl he
        | cons c cs => simpa using h1
      rw [this, rstrip_pad label _ h2]
  · rw [List.drop_append_of_le_length (by omega), List.drop_of_length_le (by omega)]; simp

/-! ### FASTA -/

/-- `_partial`: states the symbol lookup over the wrapped text as a whole (`faSeq` skips the inserted line breaks); the
executed path `faRead ∘ splitLines` strips and appends line by line — equal in effect, but that composition and the
record/name handling are compared with the code only.
The sequence lines of a FASTA record (wrapped every 70 symbols) read back as the unwrapped sequence -/
theorem fasta_wrap_roundtrip_partial (al : List St) (s : Str) (col : Nat)
    (h : ∀ c ∈ s, lookup al c = some c ∧ isWs c = false) : faSeq al (wrap70 col s) = .ok s := by
  induction s generalizing col with
  | nil => rfl
  | cons c cs ih =>
    have hc := h c (by simp)
    have hr := fun k => ih k (fun x hx => h x (by simp [hx]))
    have hws : isWs c = false := hc.2
    have hnl : isWs '\n' = true := by decide
    by_cases h70 : col = 70
    · have e : wrap70 col (c :: cs) = '\n' :: c :: wrap70 1 cs := by simp [wrap70, h70]
      rw [e]
      simp [faSeq, hnl, hws, hc.1, hr]
    · have e : wrap70 col (c :: cs) = c :: wrap70 (col + 1) cs := by simp [wrap70, h70]
      rw [e]
      simp [faSeq, hws, hc.1, hr]

/-! ### NeXML (abstract document) -/

/-- one `<char>` id per column index, listed in the format section in column order ⇒ every row reads back unshifted
and without `None` padding, whatever the row lengths. (The defect was precisely a writer violating the hypothesis: a
fresh id per cell puts row i's ids at positions i·m … i·m+m−1.)  `_partial`: XML text and id generation are abstracted. -/
theorem nexml_columns_partial (chars : List Nat) (colId : Nat → Nat) (cells : List α)
    (h : ∀ j, j < cells.length → colId j ∈ chars ∧ chars.idxOf (colId j) = j) :
    nexmlReadRow chars (nexmlWriteRow colId cells) = some (cells.map some) := by
  unfold nexmlReadRow nexmlWriteRow
  rw [List.range_eq_range']
  simpa using nexml_fold chars colId cells 0 [] rfl (by simpa using h)

/-- **whole matrix, NeXML (abstract document).**  The repaired `_write_format_section` (`nexmlChars`: the `<char>` id of
a cell depends on its column index only; ids are listed in order of first use) followed by the reader's `set_at`
placement gives back every row unshifted and without `None` padding — for any row lengths, ragged matrices
included.  XML text, state ids and id strings are abstracted (checked by the correspondence on the real XML). -/
theorem nexml_matrix_columns (rows : List (List α)) :
    ∀ r ∈ rows, nexmlReadRow (nexmlChars id (rows.map List.length)) (nexmlWriteRow id r) = some (r.map some) := by
  intro r hr
  have hc : nexmlChars id (rows.map List.length) = List.range ((rows.map List.length).foldl max 0) := by
    unfold nexmlChars
    simpa using nexmlChars_fold (rows.map List.length) 0
  apply nexml_columns_partial
  intro j hj
  have hle : r.length ≤ (rows.map List.length).foldl max 0 :=
    (le_foldl_max _ 0).2 _ (List.mem_map.mpr ⟨r, hr, rfl⟩)
  rw [hc]
  exact ⟨by simp; omega, idxOf_range _ _ (by simp; omega)⟩

/-! ### TITLE / LINK -/

/-- reading: a LINK naming the title of block `b` resolves to `b` when the written titles are pairwise distinct
without regard to case -/
theorem resolve_distinct (ts : List Str) (b : Nat) (hb : b < ts.length)
    (hd : ∀ i j, i < ts.length → j < ts.length → (ts[i]?).map upper = (ts[j]?).map upper → i = j) :
    resolve (ts.map some) (ts[b]?) = .ok b := by
  have hget : ts[b]? = some ts[b] := List.getElem?_eq_getElem hb
  have : (List.range (ts.map some).length).filter (titleMatches (ts.map some) ts[b]) = [b] := by
    apply filter_range_unique _ _ b (by simpa using hb)
    intro i hi
    have hi' : i < ts.length := by simpa using hi
    have hgi : ts[i]? = some ts[i] := List.getElem?_eq_getElem hi'
    unfold titleMatches
    simp only [List.getElem?_map, hgi, Option.map_some, Option.bind_some, id]
    constructor
    · intro he
      have he' : upper ts[i] = upper ts[b] := by simpa using he
      exact hd i b hi' hb (by simp [hgi, hget, he'])
    · intro he; subst he; simp
  rw [hget]
  simp only [resolve, this]

/-- `_get_block_title` de-duplication: one title per block, none colliding (up to case) with a title already in use,
and pairwise distinct up to case — the fuel `used.length + 1` of `freshTitle` always suffices (pigeonhole over the
candidates `l`, `l.1`, `l.2`, …) -/
theorem assignTitles_distinct : ∀ (labels used : List Str),
    (assignTitles used labels).length = labels.length ∧
    (∀ t ∈ assignTitles used labels, hit used t = false) ∧ ((assignTitles used labels).map upper).Nodup := by
  intro labels
  induction labels with
  | nil => intro used; simp [assignTitles]
  | cons l ls ih =>
    intro used
    have hf := freshTitle_fresh used l
    obtain ⟨h1, h2, h3⟩ := ih (used ++ [freshTitle used l 1 (used.length + 1) l])
    simp only [assignTitles, List.length_cons, List.mem_cons, List.map_cons, List.nodup_cons]
    refine ⟨by simp [h1], ?_, ?_, h3⟩
    · intro t ht
      rcases ht with rfl | ht
      · exact hf
      · have := h2 t ht
        simp only [hit, List.any_append, Bool.or_eq_false_iff] at this
        exact this.1
    · intro hmem
      obtain ⟨t, ht, he⟩ := List.mem_map.mp hmem
      have := h2 t ht
      simp only [hit, List.any_append, Bool.or_eq_false_iff, List.any_cons, List.any_nil, Bool.or_false] at this
      have h' := this.2
      simp [he] at h'

/-- `suppress_block_titles` None (more than one namespace) or False: titles are written, and every block's LINK resolves
to the block's own namespace — for arbitrary namespace labels (equal, or differing only in case): the writer's
de-duplication makes the titles distinct for the case-insensitive reader -/
theorem title_link_resolves (sup : Option Bool) (labels : List Str) (blocks : List Nat)
    (hs : sup = some false ∨ (sup = none ∧ labels.length > 1))
    (hb : ∀ b ∈ blocks, b < labels.length) :
    readLinks (writeLinks sup labels blocks) = blocks.map .ok := by
  obtain ⟨hlen, _, hnd⟩ := assignTitles_distinct labels []
  have hd : ∀ i j, i < (assignTitles [] labels).length → j < (assignTitles [] labels).length →
      ((assignTitles [] labels)[i]?).map upper = ((assignTitles [] labels)[j]?).map upper → i = j := by
    intro i j hi hj he
    have : ((assignTitles [] labels).map upper)[i]? = ((assignTitles [] labels).map upper)[j]? := by
      simpa [List.getElem?_map] using he
    exact (List.getElem?_inj (by simpa using hi) hnd).mp this
  have hl : linkBlocks sup labels.length = true := by
    rcases hs with h | ⟨h, h'⟩ <;> simp [linkBlocks, h] <;> omega
  unfold readLinks writeLinks
  simp only [hl, if_true, List.map_map]
  apply List.map_congr_left
  intro b hbm
  have hb' : b < (assignTitles [] labels).length := by rw [hlen]; exact hb b hbm
  simpa [Function.comp] using resolve_distinct (assignTitles [] labels) b hb' hd

/-- a single namespace written without titles (the default) is what every block attaches to (an evaluation of the
definitions: the no-title branch of `_get_taxon_namespace`) -/
theorem single_namespace_resolves (label : Str) (blocks : List Nat) :
    readLinks (writeLinks none [label] blocks) = blocks.map (fun _ => .ok 0) := by
  simp [readLinks, writeLinks, linkBlocks, resolve]

/-! ### non-vacuity: the hypotheses are satisfiable on concrete data -/
example : CellOk (mkStates dna) ['.'] (.sym 'R') := by unfold CellOk; decide
example : CellOk (mkStates (specStd ['0', '1', '2'] (some '-') (some '?'))) ['.'] (.multi true ['1', '2']) := by
  unfold CellOk; decide
example : (readStates ⟨mkStates dna, ['.'], none, 4, 0⟩ "AC-?".toList).toOption
    = some [.sym 'A', .sym 'C', .sym '-', .sym '?'] := by decide
example : nexmlReadRow [7, 8, 9] (nexmlWriteRow (· + 7) ['a', 'b']) = some [some 'a', some 'b'] := by decide
example : (readLinks (writeLinks (some false) ["X".toList, "x".toList] [1, 0])).map Except.toOption = [some 1, some 0] := by
  decide
example : assignTitles [] ["X".toList, "x".toList] = ["X".toList, "x.1".toList] := by decide
/-- the defect, on the abstract document: a fresh id per cell shifts the second row -/
example : nexmlReadRow [0, 1, 2, 3] [(2, 'c'), (3, 'd')] = some [none, none, some 'c', some 'd'] := by decide
/-- a cell naming an undefined `<char>` is refused -/
example : nexmlReadRow [0, 1] [(0, 'c'), (5, 'd')] = none := by decide

end DendroModel.C09
